import Isotp.Process
import Isotp.Spec.Segment
/-
  Helper lemmas for C03 / C06: the decoder, the receive FSM, the session invariant.
-/
namespace Isotp.Rx
open Isotp Isotp.State

/-! ### A. the decoder on well-formed data fields -/

theorem decode_prefix (pre body : Bytes) :
    decode (pre ++ body) pre.length =
      (decodeBody body).map (fun p => ⟨p, (pre ++ body).length, max 8 (pre ++ body).length⟩) := by
  unfold decode
  simp only [List.length_append, List.drop_left]
  have : ¬ (pre.length + body.length < pre.length) := by omega
  simp only [this, if_false]
  cases decodeBody body <;> simp

theorem u8_toNat (n : Nat) : (u8 n).toNat = n % 256 := by
  simp [u8, UInt8.toNat_ofNat']

theorem byteAt_cons_zero (b : UInt8) (l : Bytes) : byteAt (b :: l) 0 = b.toNat := by
  simp [byteAt]

theorem byteAt_cons_succ (b : UInt8) (l : Bytes) (i : Nat) : byteAt (b :: l) (i + 1) = byteAt l i := by
  simp [byteAt]

theorem decodeBody_sf_short (n : Nat) (p pad : Bytes) (h1 : 1 ≤ n) (h15 : n ≤ 15) (hp : p.length = n) :
    decodeBody ([u8 n] ++ p ++ pad) = some (.sf n p false) := by
  subst hp
  have hb : (u8 p.length).toNat = p.length := by rw [u8_toNat]; omega
  have h16 : p.length < 16 := by omega
  have hm : p.length % 16 = p.length := by omega
  have hne : ¬ p.length = 0 := by omega
  simp [decodeBody, byteAt_cons_zero, hb, h16, hm, hne]

theorem decodeBody_sf_escape (n : Nat) (p pad : Bytes) (h1 : 1 ≤ n) (h255 : n ≤ 255) (hp : p.length = n) :
    decodeBody ([0x00, u8 n] ++ p ++ pad) = some (.sf n p true) := by
  subst hp
  have hb : (u8 p.length).toNat = p.length := by rw [u8_toNat]; omega
  have hne : ¬ p.length = 0 := by omega
  simp [decodeBody, byteAt_cons_zero, byteAt_cons_succ, hb, hne]

theorem decodeBody_cf (sn : Nat) (d : Bytes) :
    decodeBody ([u8 (0x20 + sn % 16)] ++ d) = some (.cf (sn % 16) d) := by
  have hb : (u8 (0x20 + sn % 16)).toNat = 32 + sn % 16 := by rw [u8_toNat]; omega
  have h1 : (32 + sn % 16) / 16 = 2 := by omega
  have h2 : (32 + sn % 16) % 16 = sn % 16 := by omega
  simp [decodeBody, byteAt_cons_zero, hb, h1, h2]


theorem decodeBody_ff12_gen (b0 b1 : UInt8) (d : Bytes) (h0 : b0.toNat / 16 = 1)
    (hne : b0.toNat % 16 * 256 + b1.toNat ≠ 0) :
    decodeBody (b0 :: b1 :: d) =
      some (.ff (b0.toNat % 16 * 256 + b1.toNat) (d.take (min (b0.toNat % 16 * 256 + b1.toNat) d.length)) false) := by
  simp [decodeBody, byteAt_cons_zero, byteAt_cons_succ, h0]
  omega

theorem decodeBody_ff32_gen (b2 b3 b4 b5 : UInt8) (d : Bytes) :
    decodeBody (0x10 :: 0x00 :: b2 :: b3 :: b4 :: b5 :: d) =
      some (.ff (b2.toNat * 16777216 + b3.toNat * 65536 + b4.toNat * 256 + b5.toNat)
        (d.take (min (b2.toNat * 16777216 + b3.toNat * 65536 + b4.toNat * 256 + b5.toNat) d.length)) true) := by
  simp [decodeBody, byteAt_cons_zero, byteAt_cons_succ]

theorem decodeBody_ff12 (n : Nat) (d : Bytes) (h1 : 1 ≤ n) (h2 : n ≤ 4095) :
    decodeBody (Spec.ffHeader n ++ d) = some (.ff n (d.take (min n d.length)) false) := by
  have hb0 : (UInt8.ofNat (0x10 + n / 256)).toNat = 16 + n / 256 := by rw [UInt8.toNat_ofNat']; omega
  have hb1 : (UInt8.ofNat (n % 256)).toNat = n % 256 := by rw [UInt8.toNat_ofNat']; omega
  have e2 : (16 + n / 256) % 16 * 256 + n % 256 = n := by omega
  have hh : Spec.ffHeader n ++ d = UInt8.ofNat (0x10 + n / 256) :: UInt8.ofNat (n % 256) :: d := by
    simp [Spec.ffHeader, h2]
  rw [hh, decodeBody_ff12_gen _ _ _ (by rw [hb0]; omega) (by rw [hb0, hb1]; omega), hb0, hb1, e2]

theorem decodeBody_ff32 (n : Nat) (d : Bytes) (h1 : 4096 ≤ n) (h2 : n < 4294967296) :
    decodeBody (Spec.ffHeader n ++ d) = some (.ff n (d.take (min n d.length)) true) := by
  have hn : ¬ n ≤ 4095 := by omega
  have hb2 : (UInt8.ofNat (n / 16777216 % 256)).toNat = n / 16777216 % 256 := by rw [UInt8.toNat_ofNat']; omega
  have hb3 : (UInt8.ofNat (n / 65536 % 256)).toNat = n / 65536 % 256 := by rw [UInt8.toNat_ofNat']; omega
  have hb4 : (UInt8.ofNat (n / 256 % 256)).toNat = n / 256 % 256 := by rw [UInt8.toNat_ofNat']; omega
  have hb5 : (UInt8.ofNat (n % 256)).toNat = n % 256 := by rw [UInt8.toNat_ofNat']; omega
  have e : n / 16777216 % 256 * 16777216 + n / 65536 % 256 * 65536 + n / 256 % 256 * 256 + n % 256 = n := by omega
  have hh : Spec.ffHeader n ++ d = 0x10 :: 0x00 :: UInt8.ofNat (n / 16777216 % 256) :: UInt8.ofNat (n / 65536 % 256)
      :: UInt8.ofNat (n / 256 % 256) :: UInt8.ofNat (n % 256) :: d := by
    simp [Spec.ffHeader, Spec.be32, hn]
  rw [hh, decodeBody_ff32_gen, hb2, hb3, hb4, hb5, e]

theorem decodeBody_fc_gen (b0 b1 b2 : UInt8) (pad : Bytes) (h0 : b0.toNat / 16 = 3) (hst : b0.toNat % 16 < 3)
    (hv : validStmin b2.toNat = true) :
    decodeBody (b0 :: b1 :: b2 :: pad) = some (.fc (b0.toNat % 16) b1.toNat b2.toNat) := by
  have h3 : ¬ 3 ≤ b0.toNat % 16 := by omega
  simp [decodeBody, byteAt_cons_zero, byteAt_cons_succ, h0, h3, hv]

theorem decodeBody_fc (st bs stmin : Nat) (pad : Bytes) (hst : st < 3) (hv : validStmin (stmin % 256) = true) :
    decodeBody (fcData st bs stmin ++ pad) = some (.fc st (bs % 256) (stmin % 256)) := by
  have hb0 : (u8 (0x30 + st % 16)).toNat = 48 + st := by rw [u8_toNat]; omega
  have hb1 : (u8 (bs % 256)).toNat = bs % 256 := by rw [u8_toNat]; omega
  have hb2 : (u8 (stmin % 256)).toNat = stmin % 256 := by rw [u8_toNat]; omega
  have hh : fcData st bs stmin ++ pad = u8 (0x30 + st % 16) :: u8 (bs % 256) :: u8 (stmin % 256) :: pad := by
    simp [fcData]
  rw [hh, decodeBody_fc_gen _ _ _ _ (by rw [hb0]; omega) (by rw [hb0]; omega) (by rw [hb2]; exact hv), hb0, hb1, hb2]
  have : (48 + st) % 16 = st := by omega
  rw [this]

/-! ### `processRx`, case by case, as exact equations -/


/-- the state after `_stop_receiving`, spelled out -/
theorem stopReceiving_eq (s : State) : s.stopReceiving =
    { s with actualRxdl := none, rxState := .idle, rxBuf := [], pendingFc := false, lastFc := none,
             timerCf := { start := none, timeout := s.timerCf.timeout } } := rfl

theorem processRx_none_eq (s : State) (m : CanMsg)
    (hd : decode m.data s.addr.rx.rxPrefixSize = none) :
    s.processRx m =
      ({ s with actualRxdl := none, rxState := .idle, rxBuf := [], pendingFc := false, lastFc := none,
                timerCf := s.timerCf.stop, log := .err s.now .InvalidCanData :: s.log }, false, false) := by
  simp [processRx, hd, stopReceiving, State.error, emit]

theorem processRx_fc_eq (s : State) (m : CanMsg) (st bs stm cdl rdl : Nat)
    (hd : decode m.data s.addr.rx.rxPrefixSize = some ⟨.fc st bs stm, cdl, rdl⟩) :
    s.processRx m = ({ s with lastFc := some ⟨st, bs, stm⟩ }, true, false) := by
  simp [processRx, hd]

theorem processRx_sf_noescape_eq (s : State) (m : CanMsg) (len : Nat) (data : Bytes) (cdl rdl : Nat)
    (hd : decode m.data s.addr.rx.rxPrefixSize = some ⟨.sf len data false, cdl, rdl⟩) (h8 : cdl > 8) :
    s.processRx m = ({ s with log := .err s.now .MissingEscapeSequence :: s.log }, false, false) := by
  simp [processRx, hd, h8, State.error, emit]

theorem processRx_sf_idle_eq (s : State) (m : CanMsg) (len : Nat) (data : Bytes) (esc : Bool) (cdl rdl : Nat)
    (hd : decode m.data s.addr.rx.rxPrefixSize = some ⟨.sf len data esc, cdl, rdl⟩)
    (h8 : cdl ≤ 8 ∨ esc = true) (hs : s.rxState = .idle) :
    s.processRx m =
      ({ s with rxFrameLen := 0, timerCf := s.timerCf.stop, log := .deliver data :: s.log,
                rxQueue := s.rxQueue ++ [data] }, s.pendingFc, true) := by
  have : ¬ (cdl > 8 ∧ esc = false) := by cases esc <;> simp_all <;> omega
  simp [processRx, hd, this, hs, deliver, emit]

theorem processRx_sf_waitCf_eq (s : State) (m : CanMsg) (len : Nat) (data : Bytes) (esc : Bool) (cdl rdl : Nat)
    (hd : decode m.data s.addr.rx.rxPrefixSize = some ⟨.sf len data esc, cdl, rdl⟩)
    (h8 : cdl ≤ 8 ∨ esc = true) (hs : s.rxState = .waitCf) :
    s.processRx m =
      ({ s with actualRxdl := none, rxState := .idle, rxBuf := [], pendingFc := false, lastFc := none,
                timerCf := s.timerCf.stop,
                log := .err s.now .InterruptedWithSingleFrame :: .deliver data :: s.log,
                rxQueue := s.rxQueue ++ [data] }, false, true) := by
  have : ¬ (cdl > 8 ∧ esc = false) := by cases esc <;> simp_all <;> omega
  simp [processRx, hd, this, hs, deliver, emit, stopReceiving, State.error]

theorem processRx_ff_ok_eq (s : State) (m : CanMsg) (len : Nat) (data : Bytes) (esc : Bool) (cdl rdl : Nat)
    (hd : decode m.data s.addr.rx.rxPrefixSize = some ⟨.ff len data esc, cdl, rdl⟩)
    (hv : validTxDl rdl = true) (hl : len ≤ s.cfg.maxFrameSize) :
    s.processRx m =
      ({ s with rxState := .waitCf, rxFrameLen := len, rxBuf := data, lastSeq := 0, rxBlockCnt := 0,
                actualRxdl := some rdl, pendingFc := true, pendingFcStatus := some 0,
                timerCf := { start := some s.now, timeout := s.cfg.tCf },
                log := if s.rxState = .idle then s.log else .err s.now .InterruptedWithFirstFrame :: s.log },
        true, false) := by
  have hl' : ¬ len > s.cfg.maxFrameSize := by omega
  cases hs : s.rxState <;>
    simp [processRx, hd, hs, startReception, hv, hl', requestFc, startRxCfTimer, State.error, emit]

theorem processRx_ff_badRxdl_eq (s : State) (m : CanMsg) (len : Nat) (data : Bytes) (esc : Bool) (cdl rdl : Nat)
    (hd : decode m.data s.addr.rx.rxPrefixSize = some ⟨.ff len data esc, cdl, rdl⟩)
    (hv : validTxDl rdl = false) :
    s.processRx m =
      ({ s with rxState := .idle, rxFrameLen := if s.rxState = .idle then 0 else s.rxFrameLen,
                rxBuf := [], actualRxdl := none, pendingFc := false, lastFc := none,
                timerCf := s.timerCf.stop,
                log := if s.rxState = .idle then .err s.now .InvalidCanFdFirstFrameRXDL :: s.log
                       else .err s.now .InterruptedWithFirstFrame :: .err s.now .InvalidCanFdFirstFrameRXDL :: s.log },
        false, false) := by
  cases hs : s.rxState <;>
    simp [processRx, hd, hs, startReception, hv, stopReceiving, State.error, emit, Timer.stop]

theorem processRx_ff_tooLong_eq (s : State) (m : CanMsg) (len : Nat) (data : Bytes) (esc : Bool) (cdl rdl : Nat)
    (hd : decode m.data s.addr.rx.rxPrefixSize = some ⟨.ff len data esc, cdl, rdl⟩)
    (hv : validTxDl rdl = true) (hl : len > s.cfg.maxFrameSize) :
    s.processRx m =
      ({ s with rxState := .idle, rxFrameLen := if s.rxState = .idle then 0 else s.rxFrameLen,
                rxBuf := [], actualRxdl := none, pendingFc := true, pendingFcStatus := some 2, lastFc := none,
                lastSeq := 0, rxBlockCnt := 0,
                timerCf := s.timerCf.stop,
                log := if s.rxState = .idle then .err s.now .FrameTooLong :: s.log
                       else .err s.now .InterruptedWithFirstFrame :: .err s.now .FrameTooLong :: s.log },
        true, false) := by
  cases hs : s.rxState <;>
    simp [processRx, hd, hs, startReception, hv, hl, stopReceiving, requestFc, State.error, emit, Timer.stop]

theorem processRx_cf_idle_eq (s : State) (m : CanMsg) (sn : Nat) (data : Bytes) (cdl rdl : Nat)
    (hd : decode m.data s.addr.rx.rxPrefixSize = some ⟨.cf sn data, cdl, rdl⟩) (hs : s.rxState = .idle) :
    s.processRx m =
      ({ s with rxFrameLen := 0, timerCf := s.timerCf.stop,
                log := .err s.now .UnexpectedConsecutiveFrame :: s.log }, s.pendingFc, false) := by
  simp [processRx, hd, hs, State.error, emit]

theorem processRx_cf_wrongSn_eq (s : State) (m : CanMsg) (sn : Nat) (data : Bytes) (cdl rdl : Nat)
    (hd : decode m.data s.addr.rx.rxPrefixSize = some ⟨.cf sn data, cdl, rdl⟩) (hs : s.rxState = .waitCf)
    (hsn : sn ≠ (s.lastSeq + 1) % 16) :
    s.processRx m =
      ({ s with actualRxdl := none, rxState := .idle, rxBuf := [], pendingFc := false, lastFc := none,
                timerCf := s.timerCf.stop, log := .err s.now .WrongSequenceNumber :: s.log }, false, false) := by
  simp [processRx, hd, hs, hsn, stopReceiving, State.error, emit]

theorem processRx_cf_changingRxdl_eq (s : State) (m : CanMsg) (sn : Nat) (data : Bytes) (cdl rdl : Nat)
    (hd : decode m.data s.addr.rx.rxPrefixSize = some ⟨.cf sn data, cdl, rdl⟩) (hs : s.rxState = .waitCf)
    (hsn : sn = (s.lastSeq + 1) % 16)
    (hne : s.actualRxdl ≠ some rdl) (hlt : rdl < s.rxFrameLen - s.rxBuf.length) :
    s.processRx m = ({ s with log := .err s.now .ChangingInvalidRXDL :: s.log }, false, false) := by
  have : ¬ (some rdl = s.actualRxdl) := fun h => hne h.symm
  simp [processRx, hd, hs, hsn, this, hlt, State.error, emit]

theorem processRx_cf_last_eq (s : State) (m : CanMsg) (sn : Nat) (data : Bytes) (cdl rdl : Nat)
    (hd : decode m.data s.addr.rx.rxPrefixSize = some ⟨.cf sn data, cdl, rdl⟩) (hs : s.rxState = .waitCf)
    (hsn : sn = (s.lastSeq + 1) % 16)
    (hok : s.actualRxdl = some rdl ∨ s.rxFrameLen - s.rxBuf.length ≤ rdl)
    (hfull : s.rxFrameLen ≤ (s.rxBuf ++ data.take (s.rxFrameLen - s.rxBuf.length)).length) :
    s.processRx m =
      ({ s with lastSeq := sn, actualRxdl := none, rxState := .idle, rxBuf := [], pendingFc := false,
                lastFc := none, timerCf := { start := none, timeout := s.cfg.tCf },
                log := .deliver (s.rxBuf ++ data.take (s.rxFrameLen - s.rxBuf.length)) :: s.log,
                rxQueue := s.rxQueue ++ [s.rxBuf ++ data.take (s.rxFrameLen - s.rxBuf.length)] },
        false, true) := by
  have h1 : ¬ (¬ (some rdl = s.actualRxdl) ∧ rdl < s.rxFrameLen - s.rxBuf.length) := by
    rcases hok with h | h
    · simp [h]
    · omega
  have hfull' : ¬ (s.rxBuf.length + min (s.rxFrameLen - s.rxBuf.length) data.length < s.rxFrameLen) := by
    simp only [List.length_append, List.length_take] at hfull; omega
  simp [processRx, hd, hs, hsn, h1, hfull', stopReceiving, startRxCfTimer, deliver, emit, Timer.stop]


theorem processRx_cf_more_eq (s : State) (m : CanMsg) (sn : Nat) (data : Bytes) (cdl rdl : Nat)
    (hd : decode m.data s.addr.rx.rxPrefixSize = some ⟨.cf sn data, cdl, rdl⟩) (hs : s.rxState = .waitCf)
    (hsn : sn = (s.lastSeq + 1) % 16)
    (hok : s.actualRxdl = some rdl ∨ s.rxFrameLen - s.rxBuf.length ≤ rdl)
    (hmore : (s.rxBuf ++ data.take (s.rxFrameLen - s.rxBuf.length)).length < s.rxFrameLen) :
    s.processRx m =
      if 0 < s.cfg.blocksize ∧ (s.rxBlockCnt + 1) % s.cfg.blocksize = 0 then
        ({ s with lastSeq := sn, rxBuf := s.rxBuf ++ data.take (s.rxFrameLen - s.rxBuf.length),
                  rxBlockCnt := s.rxBlockCnt + 1, pendingFc := true, pendingFcStatus := some 0,
                  timerCf := { start := none, timeout := s.cfg.tCf } }, true, false)
      else
        ({ s with lastSeq := sn, rxBuf := s.rxBuf ++ data.take (s.rxFrameLen - s.rxBuf.length),
                  rxBlockCnt := s.rxBlockCnt + 1,
                  timerCf := { start := some s.now, timeout := s.cfg.tCf } }, s.pendingFc, false) := by
  have h1 : ¬ (¬ (some rdl = s.actualRxdl) ∧ rdl < s.rxFrameLen - s.rxBuf.length) := by
    rcases hok with h | h
    · simp [h]
    · omega
  have hmore' : s.rxBuf.length + min (s.rxFrameLen - s.rxBuf.length) data.length < s.rxFrameLen := by
    simp only [List.length_append, List.length_take] at hmore; omega
  split <;> rename_i hb <;>
    simp [processRx, hd, hs, hsn, h1, hmore', hb, startRxCfTimer, requestFc, Timer.stop]



/-! ### the reference chunking -/

theorem chunksAux_getD (k : Nat) (hk : 1 ≤ k) : ∀ (f : Nat) (l : Bytes), l.length ≤ f →
    ∀ i, (Spec.chunksAux k f l).getD i [] = (l.drop (i * k)).take k := by
  intro f
  induction f with
  | zero =>
    intro l hl i
    have : l = [] := List.eq_nil_of_length_eq_zero (by omega)
    subst this; simp [Spec.chunksAux]
  | succ f ih =>
    intro l hl i
    unfold Spec.chunksAux
    by_cases he : l.isEmpty
    · have : l = [] := by simpa using he
      subst this; simp
    · simp only [he]
      have hne : l ≠ [] := by simpa using he
      have hpos : 0 < l.length := List.length_pos_iff.mpr hne
      cases i with
      | zero => simp
      | succ i =>
        rw [if_neg (by simp), List.getD_cons_succ, ih (l.drop k) (by rw [List.length_drop]; omega) i, List.drop_drop]
        congr 2
        rw [Nat.succ_mul]; omega

theorem chunksAux_ne_nil (k : Nat) (hk : 1 ≤ k) : ∀ (f : Nat) (l : Bytes),
    ∀ x ∈ Spec.chunksAux k f l, x ≠ [] := by
  intro f
  induction f with
  | zero => intro l x hx; simp [Spec.chunksAux] at hx
  | succ f ih =>
    intro l x hx
    unfold Spec.chunksAux at hx
    by_cases he : l.isEmpty
    · simp [he] at hx
    · simp only [he] at hx
      have hne : l ≠ [] := by simpa using he
      rw [if_neg (by simp)] at hx
      rcases List.mem_cons.mp hx with h | h
      · subst h
        intro h0
        rcases List.take_eq_nil_iff.mp h0 with h | h
        · omega
        · exact hne h
      · exact ih _ x h


theorem chunks_split (k : Nat) (hk : 1 ≤ k) (l : Bytes) (ds : List Bytes) (dLast : Bytes)
    (h : Spec.chunks k l = ds ++ [dLast]) :
    (∀ i, i < ds.length → ds.getD i [] = (l.drop (i * k)).take k ∧ (i + 1) * k < l.length) ∧
    dLast = l.drop (ds.length * k) ∧ ds.length * k < l.length ∧ l.length ≤ (ds.length + 1) * k := by
  have hg : ∀ i, (ds ++ [dLast]).getD i [] = (l.drop (i * k)).take k := by
    intro i; rw [← h]; exact chunksAux_getD k hk l.length l (Nat.le_refl _) i
  have hne : dLast ≠ [] := by
    apply chunksAux_ne_nil k hk l.length l
    show dLast ∈ Spec.chunks k l
    rw [h]; simp
  have hlast : dLast = (l.drop (ds.length * k)).take k := by
    rw [← hg ds.length]; simp
  have hlo : ds.length * k < l.length := by
    apply Nat.lt_of_not_le
    intro hle
    apply hne
    rw [hlast, List.drop_eq_nil_iff.mpr hle, List.take_nil]
  have hhi : l.length ≤ (ds.length + 1) * k := by
    have h1 := hg (ds.length + 1)
    have h0 : (ds ++ [dLast]).getD (ds.length + 1) [] = [] := by
      rw [List.getD_eq_getElem?_getD, List.getElem?_eq_none (by simp)]; rfl
    rw [h0] at h1
    rcases List.take_eq_nil_iff.mp h1.symm with h2 | h2
    · omega
    · exact List.drop_eq_nil_iff.mp h2
  refine ⟨?_, ?_, hlo, hhi⟩
  · intro i hi
    constructor
    · rw [← hg i, List.getD_eq_getElem?_getD, List.getD_eq_getElem?_getD, List.getElem?_append_left hi]
    · exact Nat.lt_of_le_of_lt (Nat.mul_le_mul_right k hi) hlo
  · rw [hlast]
    apply List.take_of_length_le
    rw [List.length_drop, Nat.succ_mul] at *
    omega



/-! ### stream geometry -/

theorem validTxDl_iff (n : Nat) : Spec.validTxDl n ↔ validTxDl n = true := by
  simp [Spec.validTxDl, validTxDl]; omega

theorem validTxDl_ge (n : Nat) (h : Spec.validTxDl n) : 8 ≤ n ∧ n ≤ 64 := by
  simp [Spec.validTxDl] at h; omega

theorem rxPrefixSize_le (h : Half) : h.rxPrefixSize ≤ 1 := by
  unfold Half.rxPrefixSize; split <;> omega

/-- a reception in progress for payload `p`, after the First Frame and `i` Consecutive Frames of a
    sender with geometry `g` (link-layer size and prefix length) -/
structure RxSession (g : Spec.TxCfg) (s : State) (p : Bytes) (i : Nat) : Prop where
  state    : s.rxState = .waitCf
  frameLen : s.rxFrameLen = p.length
  buf      : s.rxBuf = p.take (Spec.ffRoom g p.length + i * Spec.cfRoom g)
  more     : Spec.ffRoom g p.length + i * Spec.cfRoom g < p.length
  seq      : s.lastSeq = i % 16
  blk      : s.rxBlockCnt = i
  rxdl     : s.actualRxdl = some g.txDl

theorem RxSession.buf_eq_carried {g s p i} (h : RxSession g s p i) :
    s.rxBuf = p.take (Spec.carried g p.length (i + 1)) := by
  rw [h.buf]; unfold Spec.carried
  have := h.more
  simp only [Nat.add_one_ne_zero, if_false, Nat.add_sub_cancel]
  rw [Nat.min_eq_right (by omega)]

/-- the First Frame of a segmented stream decodes as expected -/
theorem decode_stream_ff (txDl : Nat) (pre p : Bytes) (hpre : pre.length ≤ 1) (htx : Spec.validTxDl txDl)
    (hlen : p.length < 4294967296)
    (hseg : Spec.ffRoom (Spec.streamCfg txDl pre) p.length < p.length) :
    decode (pre ++ Spec.ffHeader p.length ++ p.take (Spec.ffRoom (Spec.streamCfg txDl pre) p.length)) pre.length =
      some ⟨.ff p.length (p.take (Spec.ffRoom (Spec.streamCfg txDl pre) p.length)) (decide (4095 < p.length)),
            txDl, txDl⟩ := by
  have h8 := validTxDl_ge txDl htx
  rw [List.append_assoc, decode_prefix]
  by_cases h : p.length ≤ 4095
  · have hr : Spec.ffRoom (Spec.streamCfg txDl pre) p.length = txDl - 2 - pre.length := by
      simp [Spec.ffRoom, Spec.streamCfg, h]
    rw [hr] at hseg ⊢
    rw [decodeBody_ff12 _ _ (by omega) h]
    have hl : (p.take (txDl - 2 - pre.length)).length = txDl - 2 - pre.length := by
      rw [List.length_take]; omega
    have hh : (Spec.ffHeader p.length).length = 2 := by simp [Spec.ffHeader, h]
    have hd : decide (4095 < p.length) = false := by simp; omega
    simp only [Option.map_some, List.length_append, hl, hh, hd]
    rw [Nat.min_eq_right (by omega), List.take_of_length_le (by omega)]
    congr 2 <;> omega
  · have hr : Spec.ffRoom (Spec.streamCfg txDl pre) p.length = txDl - 6 - pre.length := by
      simp [Spec.ffRoom, Spec.streamCfg, h]
    rw [hr] at hseg ⊢
    rw [decodeBody_ff32 _ _ (by omega) hlen]
    have hl : (p.take (txDl - 6 - pre.length)).length = txDl - 6 - pre.length := by
      rw [List.length_take]; omega
    have hh : (Spec.ffHeader p.length).length = 6 := by simp [Spec.ffHeader, Spec.be32, h]
    have hd : decide (4095 < p.length) = true := by simp; omega
    simp only [Option.map_some, List.length_append, hl, hh, hd]
    rw [Nat.min_eq_right (by omega), List.take_of_length_le (by omega)]
    congr 2 <;> omega


/-- B1, exact form: the state after the First Frame of a stream, from ANY state -/
theorem ff_step_eq (s : State) (m : CanMsg) (txDl : Nat) (pre p : Bytes)
    (hpre : pre.length = s.addr.rx.rxPrefixSize) (htx : Spec.validTxDl txDl)
    (hlen : p.length < 4294967296)
    (hseg : Spec.ffRoom (Spec.streamCfg txDl pre) p.length < p.length)
    (hmax : p.length ≤ s.cfg.maxFrameSize)
    (hm : m.data = pre ++ Spec.ffHeader p.length ++ p.take (Spec.ffRoom (Spec.streamCfg txDl pre) p.length)) :
    s.processRx m =
      ({ s with rxState := .waitCf, rxFrameLen := p.length,
                rxBuf := p.take (Spec.ffRoom (Spec.streamCfg txDl pre) p.length), lastSeq := 0, rxBlockCnt := 0,
                actualRxdl := some txDl, pendingFc := true, pendingFcStatus := some 0,
                timerCf := { start := some s.now, timeout := s.cfg.tCf },
                log := if s.rxState = .idle then s.log else .err s.now .InterruptedWithFirstFrame :: s.log },
        true, false) := by
  have hp1 : pre.length ≤ 1 := by rw [hpre]; exact rxPrefixSize_le _
  have hd := decode_stream_ff txDl pre p hp1 htx hlen hseg
  rw [← hm, hpre] at hd
  exact processRx_ff_ok_eq s m _ _ _ _ _ hd ((validTxDl_iff _).mp htx) hmax

theorem ff_starts_session (s : State) (m : CanMsg) (txDl : Nat) (pre p : Bytes)
    (hpre : pre.length = s.addr.rx.rxPrefixSize) (htx : Spec.validTxDl txDl)
    (hlen : p.length < 4294967296)
    (hseg : Spec.ffRoom (Spec.streamCfg txDl pre) p.length < p.length)
    (hmax : p.length ≤ s.cfg.maxFrameSize)
    (hm : m.data = pre ++ Spec.ffHeader p.length ++ p.take (Spec.ffRoom (Spec.streamCfg txDl pre) p.length)) :
    RxSession (Spec.streamCfg txDl pre) (s.processRx m).1 p 0 := by
  rw [ff_step_eq s m txDl pre p hpre htx hlen hseg hmax hm]
  constructor <;> simp [Spec.streamCfg] <;> first | exact hseg | skip

/-- the `i`-th (0-based) Consecutive Frame of a stream, not the last one: a full chunk -/
theorem decode_cf (pre d : Bytes) (sn : Nat) :
    decode (pre ++ [UInt8.ofNat (0x20 + sn % 16)] ++ d) pre.length =
      some ⟨.cf (sn % 16) d, pre.length + 1 + d.length, max 8 (pre.length + 1 + d.length)⟩ := by
  rw [List.append_assoc, decode_prefix]
  have := decodeBody_cf sn d
  unfold u8 at this
  rw [this]
  simp only [Option.map_some, List.length_append, List.length_cons, List.length_nil]
  congr 2 <;> omega

/-- B2, exact form -/
theorem cf_step_eq (g : Spec.TxCfg) (s : State) (m : CanMsg) (p : Bytes) (i : Nat)
    (hs : RxSession g s p i) (hpre : g.pre.length = s.addr.rx.rxPrefixSize) (hg : g.pre.length + 1 ≤ g.txDl)
    (hg8 : 8 ≤ g.txDl)
    (hmore : Spec.ffRoom g p.length + (i + 1) * Spec.cfRoom g < p.length)
    (hm : m.data = Spec.cfOf g.pre i ((p.drop (Spec.ffRoom g p.length + i * Spec.cfRoom g)).take (Spec.cfRoom g))) :
    s.processRx m =
      if 0 < s.cfg.blocksize ∧ (i + 1) % s.cfg.blocksize = 0 then
        ({ s with lastSeq := (i + 1) % 16, rxBuf := p.take (Spec.ffRoom g p.length + (i + 1) * Spec.cfRoom g),
                  rxBlockCnt := i + 1, pendingFc := true, pendingFcStatus := some 0,
                  timerCf := { start := none, timeout := s.cfg.tCf } }, true, false)
      else
        ({ s with lastSeq := (i + 1) % 16, rxBuf := p.take (Spec.ffRoom g p.length + (i + 1) * Spec.cfRoom g),
                  rxBlockCnt := i + 1,
                  timerCf := { start := some s.now, timeout := s.cfg.tCf } }, s.pendingFc, false) := by
  have hk : (i + 1) * Spec.cfRoom g = i * Spec.cfRoom g + Spec.cfRoom g := Nat.succ_mul _ _
  have hdl : ((p.drop (Spec.ffRoom g p.length + i * Spec.cfRoom g)).take (Spec.cfRoom g)).length = Spec.cfRoom g := by
    rw [List.length_take, List.length_drop]; omega
  have hd := decode_cf g.pre ((p.drop (Spec.ffRoom g p.length + i * Spec.cfRoom g)).take (Spec.cfRoom g)) (i + 1)
  rw [hdl] at hd
  unfold Spec.cfOf at hm
  rw [← hm, hpre] at hd
  have hsn : (i + 1) % 16 = (s.lastSeq + 1) % 16 := by rw [hs.seq]; omega
  have hroom : g.pre.length + 1 + Spec.cfRoom g = g.txDl := by unfold Spec.cfRoom; omega
  have hbtr : s.rxFrameLen - s.rxBuf.length = p.length - (Spec.ffRoom g p.length + i * Spec.cfRoom g) := by
    rw [hs.frameLen, hs.buf, List.length_take]; have := hs.more; omega
  have htk : ((p.drop (Spec.ffRoom g p.length + i * Spec.cfRoom g)).take (Spec.cfRoom g)).take
      (s.rxFrameLen - s.rxBuf.length) = (p.drop (Spec.ffRoom g p.length + i * Spec.cfRoom g)).take (Spec.cfRoom g) := by
    apply List.take_of_length_le; rw [hdl, hbtr]; omega
  have hnew : s.rxBuf ++ (p.drop (Spec.ffRoom g p.length + i * Spec.cfRoom g)).take (Spec.cfRoom g) =
      p.take (Spec.ffRoom g p.length + (i + 1) * Spec.cfRoom g) := by
    rw [hs.buf, hk, ← Nat.add_assoc]; exact List.take_add.symm
  rw [processRx_cf_more_eq s m _ _ _ _ hd hs.state hsn
      (Or.inl (by rw [hs.rxdl, ← hpre, hroom, Nat.max_eq_right hg8]))
      (by rw [htk, hnew, List.length_take, hs.frameLen]; omega)]
  rw [htk, hnew, hs.blk]


theorem cf_advances (g : Spec.TxCfg) (s : State) (m : CanMsg) (p : Bytes) (i : Nat)
    (hs : RxSession g s p i) (hpre : g.pre.length = s.addr.rx.rxPrefixSize) (hg : g.pre.length + 1 ≤ g.txDl)
    (hg8 : 8 ≤ g.txDl)
    (hmore : Spec.ffRoom g p.length + (i + 1) * Spec.cfRoom g < p.length)
    (hm : m.data = Spec.cfOf g.pre i ((p.drop (Spec.ffRoom g p.length + i * Spec.cfRoom g)).take (Spec.cfRoom g))) :
    RxSession g (s.processRx m).1 p (i + 1) := by
  rw [cf_step_eq g s m p i hs hpre hg hg8 hmore hm]
  split <;> constructor <;> first | exact hmore | simp [hs.state, hs.frameLen, hs.rxdl]

/-- B3, exact form: the last Consecutive Frame (remaining bytes, then any padding) -/
theorem last_cf_step_eq (g : Spec.TxCfg) (s : State) (m : CanMsg) (p pad : Bytes) (i : Nat)
    (hs : RxSession g s p i) (hpre : g.pre.length = s.addr.rx.rxPrefixSize)
    (hm : m.data = Spec.cfOf g.pre i (p.drop (Spec.ffRoom g p.length + i * Spec.cfRoom g) ++ pad)) :
    s.processRx m =
      ({ s with lastSeq := (i + 1) % 16, actualRxdl := none, rxState := .idle, rxBuf := [], pendingFc := false,
                lastFc := none, timerCf := { start := none, timeout := s.cfg.tCf },
                log := .deliver p :: s.log, rxQueue := s.rxQueue ++ [p] }, false, true) := by
  have hd := decode_cf g.pre (p.drop (Spec.ffRoom g p.length + i * Spec.cfRoom g) ++ pad) (i + 1)
  unfold Spec.cfOf at hm
  rw [← hm, hpre] at hd
  have hsn : (i + 1) % 16 = (s.lastSeq + 1) % 16 := by rw [hs.seq]; omega
  have hbtr : s.rxFrameLen - s.rxBuf.length = p.length - (Spec.ffRoom g p.length + i * Spec.cfRoom g) := by
    rw [hs.frameLen, hs.buf, List.length_take]; have := hs.more; omega
  have htk : (p.drop (Spec.ffRoom g p.length + i * Spec.cfRoom g) ++ pad).take (s.rxFrameLen - s.rxBuf.length)
      = p.drop (Spec.ffRoom g p.length + i * Spec.cfRoom g) := by
    rw [hbtr]; exact List.take_left' (by rw [List.length_drop])
  have hnew : s.rxBuf ++ p.drop (Spec.ffRoom g p.length + i * Spec.cfRoom g) = p := by
    rw [hs.buf]; exact List.take_append_drop _ _
  rw [processRx_cf_last_eq s m _ _ _ _ hd hs.state hsn
      (Or.inr (by rw [hbtr, List.length_append, List.length_drop]; omega))
      (by rw [htk, hnew, hs.frameLen]; exact Nat.le_refl _)]
  rw [htk, hnew]



/-! ### what the receive side shows to the outside: deliveries and reception errors -/

/-- the error classes raised by the reception path (`_process_rx`, `_check_timeouts_rx`) -/
def isRxErr : Err → Bool
  | .ConsecutiveFrameTimeout | .InvalidCanData | .UnexpectedConsecutiveFrame
  | .InterruptedWithSingleFrame | .InterruptedWithFirstFrame | .WrongSequenceNumber
  | .FrameTooLong | .ChangingInvalidRXDL | .MissingEscapeSequence | .InvalidCanFdFirstFrameRXDL => true
  | _ => false

inductive RxEv where
  | deliver (p : Bytes)
  | err (e : Err)
  deriving DecidableEq, Repr

def rxEv : Ev → Option RxEv
  | .deliver p => some (.deliver p)
  | .err _ e => if isRxErr e then some (.err e) else none
  | _ => none

/-- deliveries and reception errors, oldest first -/
def rxTrace (s : State) : List RxEv := s.log.reverse.filterMap rxEv

def RxEv.payload : RxEv → Option Bytes
  | .deliver p => some p
  | _ => none

/-- payloads put in the rx queue so far, oldest first -/
def delivered (s : State) : List Bytes := (rxTrace s).filterMap RxEv.payload

theorem rxTrace_cons (s s' : State) (e : Ev) (h : s'.log = e :: s.log) :
    rxTrace s' = rxTrace s ++ (rxEv e).toList := by
  simp only [rxTrace, h, List.reverse_cons, List.filterMap_append]
  cases h' : rxEv e <;> simp [h']

theorem rxTrace_same (s s' : State) (h : s'.log = s.log) : rxTrace s' = rxTrace s := by
  simp [rxTrace, h]

/-- the part of the state that the reception of a segmented message depends on -/
structure RxView where
  cfg : Cfg
  addr : Addr
  rxState : RxSt
  rxBuf : Bytes
  rxFrameLen : Nat
  lastSeq : Nat
  rxBlockCnt : Nat
  actualRxdl : Option Nat
  trace : List RxEv

def rxView (s : State) : RxView :=
  { cfg := s.cfg, addr := s.addr, rxState := s.rxState, rxBuf := s.rxBuf, rxFrameLen := s.rxFrameLen,
    lastSeq := s.lastSeq, rxBlockCnt := s.rxBlockCnt, actualRxdl := s.actualRxdl, trace := rxTrace s }

/-- `s'` differs from `s` only in things the reception FSM does not look at
    (clock, timers, pending Flow Control, transmit side, rx queue, non-reception log events). -/
def RxSame (s s' : State) : Prop := rxView s' = rxView s

theorem RxSame.refl (s : State) : RxSame s s := rfl
theorem RxSame.trans {a b c : State} (h1 : RxSame a b) (h2 : RxSame b c) : RxSame a c := by
  unfold RxSame at *; rw [h2, h1]

theorem RxSession.of_same {g s s' p i} (h : RxSession g s p i) (hs : RxSame s s') : RxSession g s' p i := by
  have e : rxView s' = rxView s := hs
  have e1 := congrArg RxView.rxState e
  have e2 := congrArg RxView.rxBuf e
  have e3 := congrArg RxView.rxFrameLen e
  have e4 := congrArg RxView.lastSeq e
  have e5 := congrArg RxView.rxBlockCnt e
  have e6 := congrArg RxView.actualRxdl e
  simp only [rxView] at e1 e2 e3 e4 e5 e6
  exact ⟨e1 ▸ h.state, e3 ▸ h.frameLen, e2 ▸ h.buf, h.more, e4 ▸ h.seq, e5 ▸ h.blk, e6 ▸ h.rxdl⟩

/-! ### steps of the environment that leave a session alone -/

@[simp] theorem rxView_emit_tx (s : State) (e : Ev) (h : rxEv e = none) : rxView (s.emit e) = rxView s := by
  simp [rxView, emit, rxTrace, List.filterMap_append, h]

theorem rxView_congr (s s' : State) (h1 : s'.cfg = s.cfg) (h2 : s'.addr = s.addr) (h3 : s'.rxState = s.rxState)
    (h4 : s'.rxBuf = s.rxBuf) (h5 : s'.rxFrameLen = s.rxFrameLen) (h6 : s'.lastSeq = s.lastSeq)
    (h7 : s'.rxBlockCnt = s.rxBlockCnt) (h8 : s'.actualRxdl = s.actualRxdl) (h9 : s'.log = s.log) :
    rxView s' = rxView s := by
  simp [rxView, rxTrace, *]

theorem rxSame_advance (s : State) (dt : Nat) : RxSame s (s.advance dt) := rxView_congr _ _ rfl rfl rfl rfl rfl rfl rfl rfl rfl

theorem rxSame_recv (s : State) : RxSame s s.recv.1 := by
  unfold recv; split <;> exact rxView_congr _ _ rfl rfl rfl rfl rfl rfl rfl rfl rfl

theorem rxSame_send (s : State) (a : SendArgs) : RxSame s (s.send a).1 := by
  unfold send
  dsimp only
  repeat' split
  all_goals exact rxView_congr _ _ rfl rfl rfl rfl rfl rfl rfl rfl rfl

theorem rxSame_pushFrame (s : State) (dt : Nat) (m : CanMsg) : RxSame s (s.pushFrame dt m) :=
  rxView_congr _ _ rfl rfl rfl rfl rfl rfl rfl rfl rfl

theorem rxSame_checkTimeoutsRx (s : State) (h : s.timerCf.timedOut s.now = false) : RxSame s s.checkTimeoutsRx := by
  unfold checkTimeoutsRx; rw [h]; exact RxSame.refl s

/-- the N_Cr timer started at `t0` has not expired as long as no more than the timeout has elapsed -/
theorem timer_not_expired (s : State) (t0 : Nat) (h : s.timerCf = { start := some t0, timeout := s.cfg.tCf })
    (hpos : s.cfg.tCf ≠ 0) (hnow : s.now - t0 ≤ s.cfg.tCf) : s.timerCf.timedOut s.now = false := by
  simp [Timer.timedOut, h, hpos]; omega



/-! ### `processTx` leaves the reception view alone -/

theorem rxView_txErr (s : State) (e : Err) (h : isRxErr e = false) : rxView (s.error e) = rxView s := by
  unfold State.error; exact rxView_emit_tx _ _ (by simp [rxEv, h])

theorem rxView_raise (s : State) (e : PyExc) : rxView (s.raise e) = rxView s :=
  rxView_congr _ _ rfl rfl rfl rfl rfl rfl rfl rfl rfl

theorem rxView_stopSending (s : State) (b : Bool) : rxView (s.stopSending b) = rxView s := by
  unfold stopSending
  split <;> simp [rxView, rxTrace, emit, List.filterMap_append, rxEv]

theorem rxView_consumeActive (s : State) (r : Req) (n : Nat) (x : Bool) :
    rxView (s.consumeActive r n x).1 = rxView s := by
  unfold consumeActive
  dsimp only
  split <;> simp [rxView, rxTrace, emit, List.filterMap_append, rxEv]


/-- any update of fields outside the reception view -/
theorem rxView_upd (s : State) (now : Nat) (tcf : Timer) (pf : Bool) (pfs : Option Nat) (rq : List Bytes)
    (ts : TxSt) (tq : List Req) (act : Option Req) (sb : Option CanMsg) (tfl tsq tbc : Nat) (rbs : Option Nat)
    (wc : Nat) (tfc tst : Timer) (lfc : Option FcFrame) (rl : Limiter) (ib : List (Nat × CanMsg))
    (ex : Option PyExc) :
    rxView ⟨s.cfg, s.addr, now, s.rxState, s.rxBuf, s.rxFrameLen, s.lastSeq, s.rxBlockCnt, s.actualRxdl,
      tcf, pf, pfs, rq, ts, tq, act, sb, tfl, tsq, tbc, rbs, wc, tfc, tst, lfc, rl, ib, s.log, ex⟩ = rxView s := rfl

theorem rxView_emit_done (s : State) (i : Nat) (b : Bool) : rxView (s.emit (.done i b)) = rxView s :=
  rxView_emit_tx _ _ rfl
theorem rxView_emit_pull (s : State) (i n : Nat) : rxView (s.emit (.pull i n)) = rxView s :=
  rxView_emit_tx _ _ rfl
theorem rxView_emit_txev (s : State) (t : Nat) (m : CanMsg) : rxView (s.emit (.tx t m)) = rxView s :=
  rxView_emit_tx _ _ rfl
theorem rxView_emit_rx (s : State) (t : Nat) (m : CanMsg) : rxView (s.emit (.rx t m)) = rxView s :=
  rxView_emit_tx _ _ rfl
theorem rxView_emit_rxNone (s : State) (t : Nat) : rxView (s.emit (.rxNone t)) = rxView s :=
  rxView_emit_tx _ _ rfl
theorem rxView_startRxFcTimer (s : State) : rxView s.startRxFcTimer = rxView s := rfl
theorem rxView_startRxCfTimer (s : State) : rxView s.startRxCfTimer = rxView s := rfl

theorem rxView_err_BadGenerator (s : State) : rxView (s.error .BadGenerator) = rxView s := rxView_txErr _ _ rfl
theorem rxView_err_FlowControlTimeout (s : State) : rxView (s.error .FlowControlTimeout) = rxView s := rxView_txErr _ _ rfl
theorem rxView_err_UnexpectedFlowControl (s : State) : rxView (s.error .UnexpectedFlowControl) = rxView s := rxView_txErr _ _ rfl
theorem rxView_err_UnsupportedWaitFrame (s : State) : rxView (s.error .UnsupportedWaitFrame) = rxView s := rxView_txErr _ _ rfl
theorem rxView_err_MaximumWaitFrameReached (s : State) : rxView (s.error .MaximumWaitFrameReached) = rxView s := rxView_txErr _ _ rfl
theorem rxView_err_Overflow (s : State) : rxView (s.error .Overflow) = rxView s := rxView_txErr _ _ rfl

/-- simp set: every transmit-side primitive keeps the reception view -/
macro "rxv_simp" : tactic =>
  `(tactic| simp only [rxView_upd, rxView_stopSending, rxView_raise, rxView_consumeActive, rxView_emit_done,
      rxView_emit_pull, rxView_emit_txev, rxView_startRxFcTimer, rxView_startRxCfTimer, rxView_err_BadGenerator,
      rxView_err_FlowControlTimeout, rxView_err_UnexpectedFlowControl, rxView_err_UnsupportedWaitFrame,
      rxView_err_MaximumWaitFrameReached, rxView_err_Overflow])

theorem rxView_startTx (s : State) (r : Req) (a : Nat) : rxView (s.startTx r a).1 = rxView s := by
  unfold startTx
  dsimp only
  repeat' split
  all_goals rxv_simp

theorem rxView_readTxQueue (a : Nat) (q : List Req) : ∀ s : State, rxView (s.readTxQueue a q).1 = rxView s := by
  induction q with
  | nil => intro s; exact rxView_upd s _ _ _ _ _ _ _ _ _ _ _ _ _ _ _ _ _ _ _ _
  | cons r rest ih =>
    intro s
    unfold readTxQueue
    dsimp only
    split
    · rw [ih]; rxv_simp
    · rw [rxView_startTx]; rxv_simp

theorem rxView_handleFc (s : State) (fc : FcFrame) : rxView (s.handleFc fc) = rxView s := by
  unfold handleFc
  repeat' (first | rfl | split | rxv_simp)


theorem rxView_transmitCf (s : State) (a : Nat) : rxView (s.transmitCf a).1 = rxView s := by
  unfold transmitCf
  repeat' (first | split | rxv_simp)


/-! `processTx` cut in its four consecutive parts (definitionally the same function) -/

/-- part 1: the pending Flow Control requested by the reception side -/
def pendPart (s : State) : State × Option (Option CanMsg) :=
  if s.pendingFc then
    let s := { s with pendingFc := false }
    match s.pendingFcStatus with
    | none => (s.raise .AttributeError, some none)
    | some st =>
      let s := if st = 0 then s.startRxCfTimer else s
      if !s.cfg.listen then
        match makeFlowControl s.cfg s.addr st with
        | none => (s.raise .ValueError, some none)
        | some msg => (s, some (some msg))
      else (s, none)
  else (s, none)

/-- part 2: the received Flow Control (mailbox `lastFc`) -/
def fcPart (s : State) : State × Bool :=
  let fc := s.lastFc
  let s := { s with lastFc := none }
  match fc with
  | some f => if f.status = 2 then (((s.stopSending false).error .Overflow), true) else (s.handleFc f, false)
  | none => (s, false)

/-- part 4: the transmit state machine proper -/
def fsmPart (s : State) (allowed : Nat) : State × Option CanMsg × Bool :=
  match s.txState with
  | .idle =>
    let (s, out) := s.readTxQueue allowed s.txQueue
    (s, out, false)
  | .sfStandby | .ffStandby =>
    match s.standby with
    | some msg =>
      if msg.data.length ≤ allowed then
        let s := { s with standby := none }
        if s.txState = .ffStandby then
          (({ s.startRxFcTimer with txState := .waitFc }), some msg, false)
        else (s.stopSending true, some msg, false)
      else (s, none, false)
    | none => (s, none, false)
  | .waitFc => (s, none, false)
  | .transmitCf => s.transmitCf allowed

/-- part 3a: N_Bs timeout -/
def tailTimeout (s : State) : State :=
  if s.timerFc.timedOut s.now then (s.error .FlowControlTimeout).stopSending false else s

/-- part 3b: a depleted request without standby frame is completed -/
def tailDepleted (s : State) : State :=
  if s.txState ≠ .idle && (match s.active with | some r => r.depleted | none => false) && s.standby.isNone
  then s.stopSending true else s

/-- part 5: rate limiter bookkeeping on the output -/
def tailOut (r : State × Option CanMsg × Bool) : State × Option CanMsg × Bool :=
  if r.1.exc.isSome then (r.1, none, false) else
  match r.2.1 with
  | some msg => ({ r.1 with rl := r.1.rl.inform r.1.now msg.data.length }, some msg, r.2.2)
  | none => (r.1, none, r.2.2)

/-- parts 3–5 -/
def txTail (s : State) (allowed : Nat) : State × Option CanMsg × Bool :=
  if (tailTimeout s).txState ≠ .idle && (tailTimeout s).active.isNone then
    ((tailTimeout s).raise .AssertionError, none, false)
  else tailOut (fsmPart (tailDepleted (tailTimeout s)) allowed)

theorem processTx_eq (s : State) :
    s.processTx =
      match pendPart s with
      | (s', some none) => (s', none, false)
      | (s', some (some msg)) => (s', some msg, true)
      | (s', none) =>
        match fcPart s' with
        | (s'', true) => (s'', none, false)
        | (s'', false) => txTail s'' (s.rl.allowedBytes s.cfg.rlBitMax) := rfl

theorem rxView_pendPart (s : State) : rxView (pendPart s).1 = rxView s := by
  unfold pendPart
  repeat' (first | split | rxv_simp)

theorem rxView_fcPart (s : State) : rxView (fcPart s).1 = rxView s := by
  unfold fcPart
  repeat' (first | split | rxv_simp | rw [rxView_handleFc])

theorem rxView_fsmPart (s : State) (a : Nat) : rxView (fsmPart s a).1 = rxView s := by
  unfold fsmPart
  split
  · have h := rxView_readTxQueue a s.txQueue s
    split
    rename_i heq
    rw [heq] at h; exact h
  · repeat' (first | split | rxv_simp)
  · repeat' (first | split | rxv_simp)
  · rfl
  · exact rxView_transmitCf s a

theorem rxView_tailTimeout (s : State) : rxView (tailTimeout s) = rxView s := by
  unfold tailTimeout; split <;> rxv_simp

theorem rxView_tailDepleted (s : State) : rxView (tailDepleted s) = rxView s := by
  unfold tailDepleted
  by_cases h : (s.txState ≠ .idle && (match s.active with | some r => r.depleted | none => false) && s.standby.isNone) = true
  · rw [if_pos h]; rxv_simp
  · rw [if_neg h]

theorem rxView_tailOut (r : State × Option CanMsg × Bool) : rxView (tailOut r).1 = rxView r.1 := by
  unfold tailOut
  repeat' (first | split | rxv_simp)

theorem rxView_txTail (s : State) (a : Nat) : rxView (txTail s a).1 = rxView s := by
  unfold txTail
  split
  · rxv_simp; exact rxView_tailTimeout s
  · rw [rxView_tailOut, rxView_fsmPart, rxView_tailDepleted, rxView_tailTimeout]

theorem rxView_processTx (s : State) : rxView s.processTx.1 = rxView s := by
  rw [processTx_eq]
  have h1 := rxView_pendPart s
  split <;> rename_i heq <;> rw [heq] at h1
  · exact h1
  · exact h1
  · have h2 := rxView_fcPart (pendPart s).1
    rw [heq] at h2
    split <;> rename_i heq2 <;> rw [heq2] at h2
    · exact h2.trans h1
    · exact (rxView_txTail _ _).trans (h2.trans h1)

theorem rxSame_processTx (s : State) : RxSame s s.processTx.1 := rxView_processTx s



theorem RxSame.cfg {s s' : State} (h : RxSame s s') : s'.cfg = s.cfg := congrArg RxView.cfg h
theorem RxSame.addr {s s' : State} (h : RxSame s s') : s'.addr = s.addr := congrArg RxView.addr h
theorem RxSame.rxState {s s' : State} (h : RxSame s s') : s'.rxState = s.rxState := congrArg RxView.rxState h
theorem RxSame.rxBuf {s s' : State} (h : RxSame s s') : s'.rxBuf = s.rxBuf := congrArg RxView.rxBuf h
theorem RxSame.trace {s s' : State} (h : RxSame s s') : rxTrace s' = rxTrace s := congrArg RxView.trace h

/-! ### feeding a list of frames, with reception-neutral steps in between -/

/-- `Feeds s frames s'`: CAN messages (already accepted by the address filter) whose data fields are
    `frames` are handed to `processRx` in order, starting from `s`; before, between and after them the
    layer may do anything that is `RxSame` (transmit passes, `send`, `recv`, clock, un-expired timeout
    checks …). -/
inductive Feeds : State → List Bytes → State → Prop
  | done {s s' : State} : RxSame s s' → Feeds s [] s'
  | frame {s s1 s' : State} {m : CanMsg} {d : Bytes} {ds : List Bytes} :
      RxSame s s1 → m.data = d → Feeds (s1.processRx m).1 ds s' → Feeds s (d :: ds) s'

theorem Feeds.split {a b : List Bytes} : ∀ {s s' : State}, Feeds s (a ++ b) s' →
    ∃ s1, Feeds s a s1 ∧ Feeds s1 b s' := by
  induction a with
  | nil => intro s s' h; exact ⟨s, .done (RxSame.refl s), h⟩
  | cons d ds ih =>
    intro s s' h
    cases h with
    | frame h1 hm h2 =>
      obtain ⟨s1, ha, hb⟩ := ih h2
      exact ⟨s1, .frame h1 hm ha, hb⟩

/-- the plain fold: nothing happens between the frames -/
def feed (s : State) (ms : List CanMsg) : State := ms.foldl (fun s m => (s.processRx m).1) s

theorem feeds_feed (ms : List CanMsg) : ∀ s : State, Feeds s (ms.map (·.data)) (feed s ms) := by
  induction ms with
  | nil => intro s; exact .done (RxSame.refl s)
  | cons m ms ih => intro s; exact .frame (RxSame.refl s) rfl (ih _)

theorem feeds_range (P : Nat → State → Prop) (F : Nat → Bytes) (n : Nat)
    (hsame : ∀ i s s', P i s → RxSame s s' → P i s')
    (hstep : ∀ i s m, i < n → P i s → m.data = F i → P (i + 1) (s.processRx m).1) :
    ∀ n', n' ≤ n → ∀ s s', P 0 s → Feeds s ((List.range n').map F) s' → P n' s' := by
  intro n'
  induction n' with
  | zero =>
    intro _ s s' h0 hf
    cases hf with
    | done h => exact hsame 0 s s' h0 h
  | succ j ih =>
    intro hj s s' h0 hf
    rw [List.range_succ, List.map_append] at hf
    obtain ⟨s1, ha, hb⟩ := hf.split
    have h1 := ih (by omega) s s1 h0 ha
    cases hb with
    | frame hs hm hrest =>
      cases hrest with
      | done hs' => exact hsame _ _ _ (hstep j _ _ (by omega) (hsame _ _ _ h1 hs) hm) hs'


/-- loop invariant between the frames of a segmented stream -/
structure InSession (g : Spec.TxCfg) (c0 : Cfg) (a0 : Addr) (T0 : List RxEv) (p : Bytes) (i : Nat) (s : State) : Prop where
  sess  : RxSession g s p i
  cfg   : s.cfg = c0
  addr  : s.addr = a0
  trace : rxTrace s = T0

theorem InSession.of_same {g c0 a0 T0 p i s s'} (h : InSession g c0 a0 T0 p i s) (hs : RxSame s s') :
    InSession g c0 a0 T0 p i s' :=
  ⟨h.sess.of_same hs, hs.cfg.trans h.cfg, hs.addr.trans h.addr, hs.trace.trans h.trace⟩

theorem InSession.cf_step {g c0 a0 T0 p i s} (h : InSession g c0 a0 T0 p i s) (m : CanMsg)
    (hpre : g.pre.length = a0.rx.rxPrefixSize) (hg : g.pre.length + 1 ≤ g.txDl) (hg8 : 8 ≤ g.txDl)
    (hmore : Spec.ffRoom g p.length + (i + 1) * Spec.cfRoom g < p.length)
    (hm : m.data = Spec.cfOf g.pre i ((p.drop (Spec.ffRoom g p.length + i * Spec.cfRoom g)).take (Spec.cfRoom g))) :
    InSession g c0 a0 T0 p (i + 1) (s.processRx m).1 := by
  have hpre' : g.pre.length = s.addr.rx.rxPrefixSize := by rw [h.addr]; exact hpre
  refine ⟨cf_advances g s m p i h.sess hpre' hg hg8 hmore hm, ?_, ?_, ?_⟩
  all_goals rw [cf_step_eq g s m p i h.sess hpre' hg hg8 hmore hm]
  · split <;> exact h.cfg
  · split <;> exact h.addr
  · split <;> exact (rxTrace_same _ _ rfl).trans h.trace

theorem legal_le (n : Nat) (h : Spec.legal n) : n ≤ 64 := by
  simp [Spec.legal, Spec.legalLens] at h; omega

/-- B4 for segmented messages, from ANY state, with arbitrary reception-neutral steps in between:
    the payload is delivered by the last frame; the only other reception event is the interruption
    error if a reception was in progress. -/
theorem segmented_delivers (s s' : State) (pre p : Bytes) (frames : List Bytes)
    (hw : Spec.WfSegmented pre p frames) (hpre : pre.length = s.addr.rx.rxPrefixSize)
    (hmax : p.length ≤ s.cfg.maxFrameSize) (hf : Feeds s frames s') :
    rxTrace s' = rxTrace s ++ (if s.rxState = .idle then [] else [.err .InterruptedWithFirstFrame]) ++ [.deliver p]
      ∧ s'.rxState = .idle ∧ s'.rxBuf = [] := by
  obtain ⟨txDl, pad, ds, dLast, htx, hlen, hseg, hchunks, _hlegal, _hle, hframes⟩ := hw
  have hp1 : pre.length ≤ 1 := by rw [hpre]; exact rxPrefixSize_le _
  have h8 := validTxDl_ge txDl htx
  have hk : 1 ≤ Spec.cfRoom (Spec.streamCfg txDl pre) := by simp [Spec.cfRoom, Spec.streamCfg]; omega
  obtain ⟨hfull, hlast, hlo, _hhi⟩ := chunks_split _ hk _ ds dLast hchunks
  subst hframes
  cases hf with
  | frame hs1 hm1 hrest =>
    rename_i s1 m1
    have hpre1 : pre.length = s1.addr.rx.rxPrefixSize := by rw [hs1.addr]; exact hpre
    have hmax1 : p.length ≤ s1.cfg.maxFrameSize := by rw [hs1.cfg]; exact hmax
    have hsess := ff_starts_session s1 m1 txDl pre p hpre1 htx hlen hseg hmax1 hm1
    have heq := ff_step_eq s1 m1 txDl pre p hpre1 htx hlen hseg hmax1 hm1
    obtain ⟨s3, ha, hb⟩ := hrest.split
    have hin0 : InSession (Spec.streamCfg txDl pre) s.cfg s.addr
        (rxTrace s ++ (if s.rxState = .idle then [] else [.err .InterruptedWithFirstFrame])) p 0 (s1.processRx m1).1 := by
      refine ⟨hsess, ?_, ?_, ?_⟩
      · rw [heq]; exact hs1.cfg
      · rw [heq]; exact hs1.addr
      · rw [heq, ← hs1.trace, ← hs1.rxState]
        by_cases hi : s1.rxState = .idle
        · simp only [hi, if_true, List.append_nil]; exact rxTrace_same _ _ (by simp)
        · simp only [hi, if_false]
          exact rxTrace_cons s1 _ (.err s1.now .InterruptedWithFirstFrame) (by simp)
    have hin := feeds_range (InSession (Spec.streamCfg txDl pre) s.cfg s.addr _ p) _ ds.length
      (fun i s s' h hs => h.of_same hs)
      (fun i s m hi h hm => by
        obtain ⟨hd, hlt⟩ := hfull i hi
        rw [List.length_drop] at hlt
        refine h.cf_step m hpre (by simp [Spec.streamCfg]; omega) (by simp [Spec.streamCfg]; omega) (by omega) ?_
        rw [hm, hd, List.drop_drop]; rfl)
      ds.length (Nat.le_refl _) _ s3 hin0 ha
    cases hb with
    | frame hs4 hm4 hend =>
      rename_i s4 m4
      cases hend with
      | done hs5 =>
        have hin4 := hin.of_same hs4
        have hpre4 : (Spec.streamCfg txDl pre).pre.length = s4.addr.rx.rxPrefixSize := by
          rw [hin4.addr]; exact hpre
        have hm4' : m4.data = Spec.cfOf (Spec.streamCfg txDl pre).pre ds.length
            (p.drop (Spec.ffRoom (Spec.streamCfg txDl pre) p.length + ds.length * Spec.cfRoom (Spec.streamCfg txDl pre)) ++ pad) := by
          rw [hm4, hlast, List.drop_drop]; rfl
        have hl := last_cf_step_eq _ s4 m4 p pad ds.length hin4.sess hpre4 hm4'
        refine ⟨?_, ?_, ?_⟩
        · rw [hs5.trace, rxTrace_cons s4 _ (.deliver p) (by rw [hl]), hin4.trace]; rfl
        · rw [hs5.rxState, hl]
        · rw [hs5.rxBuf, hl]


theorem delivered_of_trace (s s' : State) (l : List RxEv) (h : rxTrace s' = rxTrace s ++ l) :
    delivered s' = delivered s ++ l.filterMap RxEv.payload := by
  simp [delivered, h, List.filterMap_append]

/-- B4, "nothing earlier": after any strict prefix of the stream nothing has been delivered. -/
theorem segmented_nothing_earlier (s s'' : State) (pre p : Bytes) (frames fs rest : List Bytes)
    (hw : Spec.WfSegmented pre p frames) (hpre : pre.length = s.addr.rx.rxPrefixSize)
    (hmax : p.length ≤ s.cfg.maxFrameSize) (hsplit : frames = fs ++ rest) (hne : rest ≠ [])
    (hf : Feeds s fs s'') :
    delivered s'' = delivered s ∧ (fs ≠ [] → s''.rxState = .waitCf) := by
  obtain ⟨txDl, pad, ds, dLast, htx, hlen, hseg, hchunks, _hlegal, _hle, hframes⟩ := hw
  have hp1 : pre.length ≤ 1 := by rw [hpre]; exact rxPrefixSize_le _
  have h8 := validTxDl_ge txDl htx
  have hk : 1 ≤ Spec.cfRoom (Spec.streamCfg txDl pre) := by simp [Spec.cfRoom, Spec.streamCfg]; omega
  obtain ⟨hfull, _hlast, _hlo, _hhi⟩ := chunks_split _ hk _ ds dLast hchunks
  cases fs with
  | nil =>
    cases hf with
    | done h => exact ⟨by simp [delivered, h.trace], fun h => absurd rfl h⟩
  | cons d fs' =>
    rw [hframes, List.cons_append] at hsplit
    obtain ⟨hd, htl0⟩ := List.cons.inj hsplit
    have htl : List.map (fun i => Spec.cfOf pre i (ds.getD i [])) (List.range ds.length) ++
        [Spec.cfOf pre ds.length (dLast ++ pad)] = fs' ++ rest := htl0
    have hlen' : fs'.length + rest.length = ds.length + 1 := by
      have := congrArg List.length htl
      simpa using this.symm
    have hrest : 0 < rest.length := List.length_pos_iff.mpr hne
    have hfs' : fs' = (List.range (min fs'.length ds.length)).map (fun i => Spec.cfOf pre i (ds.getD i [])) := by
      have h1 : fs' = (fs' ++ rest).take fs'.length := by simp
      rw [← htl, List.take_append_of_le_length (by simp; omega), ← List.map_take, List.take_range] at h1
      exact h1
    cases hf with
    | frame hs1 hm1 hrest' =>
      rename_i s1 m1
      have hpre1 : pre.length = s1.addr.rx.rxPrefixSize := by rw [hs1.addr]; exact hpre
      have hmax1 : p.length ≤ s1.cfg.maxFrameSize := by rw [hs1.cfg]; exact hmax
      rw [← hd] at hm1
      have hsess := ff_starts_session s1 m1 txDl pre p hpre1 htx hlen hseg hmax1 hm1
      have heq := ff_step_eq s1 m1 txDl pre p hpre1 htx hlen hseg hmax1 hm1
      have hin0 : InSession (Spec.streamCfg txDl pre) s.cfg s.addr
          (rxTrace s ++ (if s.rxState = .idle then [] else [.err .InterruptedWithFirstFrame])) p 0 (s1.processRx m1).1 := by
        refine ⟨hsess, ?_, ?_, ?_⟩
        · rw [heq]; exact hs1.cfg
        · rw [heq]; exact hs1.addr
        · rw [heq, ← hs1.trace, ← hs1.rxState]
          by_cases hi : s1.rxState = .idle
          · simp only [hi, if_true, List.append_nil]; exact rxTrace_same _ _ (by simp)
          · simp only [hi, if_false]
            exact rxTrace_cons s1 _ (.err s1.now .InterruptedWithFirstFrame) (by simp)
      rw [hfs'] at hrest'
      have hin := feeds_range (InSession (Spec.streamCfg txDl pre) s.cfg s.addr _ p) _ ds.length
        (fun i s s' h hs => h.of_same hs)
        (fun i s m hi h hm => by
          obtain ⟨hd, hlt⟩ := hfull i hi
          rw [List.length_drop] at hlt
          refine h.cf_step m hpre (by simp [Spec.streamCfg]; omega) (by simp [Spec.streamCfg]; omega) (by omega) ?_
          rw [hm, hd, List.drop_drop]; rfl)
        (min fs'.length ds.length) (Nat.min_le_right _ _) _ s'' hin0 hrest'
      refine ⟨?_, fun _ => hin.sess.state⟩
      rw [delivered_of_trace s s'' _ hin.trace]
      split <;> simp [RxEv.payload]


/-! ### Single Frames -/

theorem decode_sf_short (pre p pad : Bytes) (h1 : 1 ≤ p.length) (h15 : p.length ≤ 15) :
    decode (pre ++ [UInt8.ofNat p.length] ++ p ++ pad) pre.length =
      some ⟨.sf p.length p false, (pre ++ [UInt8.ofNat p.length] ++ p ++ pad).length,
            max 8 (pre ++ [UInt8.ofNat p.length] ++ p ++ pad).length⟩ := by
  have e : pre ++ [UInt8.ofNat p.length] ++ p ++ pad = pre ++ ([u8 p.length] ++ p ++ pad) := by
    simp [u8, List.append_assoc]
  rw [e, decode_prefix, decodeBody_sf_short p.length p pad h1 h15 rfl]; rfl

theorem decode_sf_escape (pre p pad : Bytes) (h1 : 1 ≤ p.length) (h255 : p.length ≤ 255) :
    decode (pre ++ [0x00, UInt8.ofNat p.length] ++ p ++ pad) pre.length =
      some ⟨.sf p.length p true, (pre ++ [0x00, UInt8.ofNat p.length] ++ p ++ pad).length,
            max 8 (pre ++ [0x00, UInt8.ofNat p.length] ++ p ++ pad).length⟩ := by
  have e : pre ++ [0x00, UInt8.ofNat p.length] ++ p ++ pad = pre ++ ([0x00, u8 p.length] ++ p ++ pad) := by
    simp [u8, List.append_assoc]
  rw [e, decode_prefix, decodeBody_sf_escape p.length p pad h1 h255 rfl]; rfl

/-- a Single Frame accepted by the escape check delivers its payload at once, in any state -/
theorem sf_delivers (s : State) (m : CanMsg) (len : Nat) (data : Bytes) (esc : Bool) (cdl rdl : Nat)
    (hd : decode m.data s.addr.rx.rxPrefixSize = some ⟨.sf len data esc, cdl, rdl⟩)
    (h8 : cdl ≤ 8 ∨ esc = true) :
    rxTrace (s.processRx m).1 =
        rxTrace s ++ [.deliver data] ++ (if s.rxState = .idle then [] else [.err .InterruptedWithSingleFrame])
      ∧ (s.processRx m).1.rxState = .idle
      ∧ (s.processRx m).1.rxQueue = s.rxQueue ++ [data] := by
  cases hs : s.rxState
  · rw [processRx_sf_idle_eq s m len data esc cdl rdl hd h8 hs]
    refine ⟨?_, hs, rfl⟩
    rw [rxTrace_cons s _ (.deliver data) rfl]; simp [rxEv]
  · rw [processRx_sf_waitCf_eq s m len data esc cdl rdl hd h8 hs]
    refine ⟨?_, rfl, rfl⟩
    simp [rxTrace, rxEv, isRxErr, List.filterMap_append]

theorem sf_wellFormed_decodes (pre p : Bytes) (frames : List Bytes)
    (hw : Spec.WfSfShort pre p frames ∨ Spec.WfSfEscape pre p frames) :
    ∃ d esc cdl rdl, frames = [d] ∧ decode d pre.length = some ⟨.sf p.length p esc, cdl, rdl⟩ ∧
      (cdl ≤ 8 ∨ esc = true) := by
  rcases hw with ⟨pad, h1, h7, h8, hf⟩ | ⟨pad, h1, _h8, hl, hf⟩
  · exact ⟨_, false, _, _, hf, decode_sf_short pre p pad h1 (by omega), Or.inl h8⟩
  · have := legal_le _ hl
    simp only [List.length_append, List.length_cons, List.length_nil] at this
    exact ⟨_, true, _, _, hf, decode_sf_escape pre p pad h1 (by omega), Or.inr rfl⟩

/-- C03 main theorem: any well-formed encoding of `p`, fed to the layer from ANY state with arbitrary
    reception-neutral activity in between, delivers exactly `p` and leaves the receiver idle. -/
theorem wellFormed_delivers (s s' : State) (pre p : Bytes) (frames : List Bytes)
    (hw : Spec.WellFormed pre p frames) (hpre : pre.length = s.addr.rx.rxPrefixSize)
    (hmax : p.length ≤ s.cfg.maxFrameSize) (hf : Feeds s frames s') :
    delivered s' = delivered s ++ [p] ∧ s'.rxState = .idle ∧
      (s.rxState = .idle → rxTrace s' = rxTrace s ++ [.deliver p]) := by
  have hcases : (Spec.WfSfShort pre p frames ∨ Spec.WfSfEscape pre p frames) ∨ Spec.WfSegmented pre p frames := by
    rcases hw with h | h | h
    · exact Or.inl (Or.inl h)
    · exact Or.inl (Or.inr h)
    · exact Or.inr h
  rcases hcases with hsf | hseg
  · obtain ⟨d, esc, cdl, rdl, hfr, hd, h8⟩ := sf_wellFormed_decodes pre p frames hsf
    subst hfr
    cases hf with
    | frame hs1 hm hend =>
      rename_i s1 m
      cases hend with
      | done hs2 =>
        have hd1 : decode m.data s1.addr.rx.rxPrefixSize = some ⟨.sf p.length p esc, cdl, rdl⟩ := by
          rw [hm, hs1.addr, ← hpre]; exact hd
        obtain ⟨ht, hst, _⟩ := sf_delivers s1 m _ _ _ _ _ hd1 h8
        rw [← hs2.trace, hs1.trace, hs1.rxState] at ht
        refine ⟨?_, by rw [hs2.rxState]; exact hst, fun hi => by rw [ht]; simp [hi]⟩
        rw [delivered_of_trace s s' _ (by rw [ht, List.append_assoc])]
        split <;> simp [RxEv.payload]
  · obtain ⟨ht, hst, _⟩ := segmented_delivers s s' pre p frames hseg hpre hmax hf
    refine ⟨?_, hst, fun hi => by rw [ht]; simp [hi]⟩
    rw [delivered_of_trace s s' _ (by rw [ht, List.append_assoc])]
    split <;> rfl

/-- … and nothing is delivered before the last frame. -/
theorem wellFormed_nothing_earlier (s s'' : State) (pre p : Bytes) (frames fs rest : List Bytes)
    (hw : Spec.WellFormed pre p frames) (hpre : pre.length = s.addr.rx.rxPrefixSize)
    (hmax : p.length ≤ s.cfg.maxFrameSize) (hsplit : frames = fs ++ rest) (hne : rest ≠ [])
    (hf : Feeds s fs s'') : delivered s'' = delivered s := by
  have hcases : (Spec.WfSfShort pre p frames ∨ Spec.WfSfEscape pre p frames) ∨ Spec.WfSegmented pre p frames := by
    rcases hw with h | h | h
    · exact Or.inl (Or.inl h)
    · exact Or.inl (Or.inr h)
    · exact Or.inr h
  rcases hcases with hsf | hseg
  · obtain ⟨d, esc, cdl, rdl, hfr, _, _⟩ := sf_wellFormed_decodes pre p frames hsf
    have hnil : fs = [] := by
      rw [hfr] at hsplit
      cases fs with
      | nil => rfl
      | cons a t =>
        have := congrArg List.length hsplit
        have hr : 0 < rest.length := List.length_pos_iff.mpr hne
        simp only [List.length_cons, List.length_append, List.length_nil] at this; omega
    subst hnil
    cases hf with
    | done h => simp [delivered, h.trace]
  · exact (segmented_nothing_earlier s s'' pre p frames fs rest hseg hpre hmax hsplit hne hf).1



/-! ### complete case analysis of `processRx` -/

/-- Complete case analysis of `processRx`: to prove `P (s.processRx m)` it is enough to prove it for
    the thirteen explicit outcomes. -/
theorem processRx_cases (s : State) (m : CanMsg) (P : State × Bool × Bool → Prop)
    (h_none : decode m.data s.addr.rx.rxPrefixSize = none →
      P ({ s with actualRxdl := none, rxState := .idle, rxBuf := [], pendingFc := false, lastFc := none,
                  timerCf := s.timerCf.stop, log := .err s.now .InvalidCanData :: s.log }, false, false))
    (h_fc : ∀ st bs stm cdl rdl, decode m.data s.addr.rx.rxPrefixSize = some ⟨.fc st bs stm, cdl, rdl⟩ →
      P ({ s with lastFc := some ⟨st, bs, stm⟩ }, true, false))
    (h_sf_noesc : ∀ len data cdl rdl, decode m.data s.addr.rx.rxPrefixSize = some ⟨.sf len data false, cdl, rdl⟩ →
      cdl > 8 → P ({ s with log := .err s.now .MissingEscapeSequence :: s.log }, false, false))
    (h_sf_idle : ∀ len data esc cdl rdl, decode m.data s.addr.rx.rxPrefixSize = some ⟨.sf len data esc, cdl, rdl⟩ →
      (cdl ≤ 8 ∨ esc = true) → s.rxState = .idle →
      P ({ s with rxFrameLen := 0, timerCf := s.timerCf.stop, log := .deliver data :: s.log,
                  rxQueue := s.rxQueue ++ [data] }, s.pendingFc, true))
    (h_sf_wait : ∀ len data esc cdl rdl, decode m.data s.addr.rx.rxPrefixSize = some ⟨.sf len data esc, cdl, rdl⟩ →
      (cdl ≤ 8 ∨ esc = true) → s.rxState = .waitCf →
      P ({ s with actualRxdl := none, rxState := .idle, rxBuf := [], pendingFc := false, lastFc := none,
                  timerCf := s.timerCf.stop,
                  log := .err s.now .InterruptedWithSingleFrame :: .deliver data :: s.log,
                  rxQueue := s.rxQueue ++ [data] }, false, true))
    (h_ff_ok : ∀ len data esc cdl rdl, decode m.data s.addr.rx.rxPrefixSize = some ⟨.ff len data esc, cdl, rdl⟩ →
      validTxDl rdl = true → len ≤ s.cfg.maxFrameSize →
      P ({ s with rxState := .waitCf, rxFrameLen := len, rxBuf := data, lastSeq := 0, rxBlockCnt := 0,
                  actualRxdl := some rdl, pendingFc := true, pendingFcStatus := some 0,
                  timerCf := { start := some s.now, timeout := s.cfg.tCf },
                  log := if s.rxState = .idle then s.log else .err s.now .InterruptedWithFirstFrame :: s.log },
          true, false))
    (h_ff_rxdl : ∀ len data esc cdl rdl, decode m.data s.addr.rx.rxPrefixSize = some ⟨.ff len data esc, cdl, rdl⟩ →
      validTxDl rdl = false →
      P ({ s with rxState := .idle, rxFrameLen := if s.rxState = .idle then 0 else s.rxFrameLen,
                  rxBuf := [], actualRxdl := none, pendingFc := false, lastFc := none,
                  timerCf := s.timerCf.stop,
                  log := if s.rxState = .idle then .err s.now .InvalidCanFdFirstFrameRXDL :: s.log
                         else .err s.now .InterruptedWithFirstFrame :: .err s.now .InvalidCanFdFirstFrameRXDL :: s.log },
          false, false))
    (h_ff_long : ∀ len data esc cdl rdl, decode m.data s.addr.rx.rxPrefixSize = some ⟨.ff len data esc, cdl, rdl⟩ →
      validTxDl rdl = true → len > s.cfg.maxFrameSize →
      P ({ s with rxState := .idle, rxFrameLen := if s.rxState = .idle then 0 else s.rxFrameLen,
                  rxBuf := [], actualRxdl := none, pendingFc := true, pendingFcStatus := some 2, lastFc := none,
                  lastSeq := 0, rxBlockCnt := 0,
                  timerCf := s.timerCf.stop,
                  log := if s.rxState = .idle then .err s.now .FrameTooLong :: s.log
                         else .err s.now .InterruptedWithFirstFrame :: .err s.now .FrameTooLong :: s.log },
          true, false))
    (h_cf_idle : ∀ sn data cdl rdl, decode m.data s.addr.rx.rxPrefixSize = some ⟨.cf sn data, cdl, rdl⟩ →
      s.rxState = .idle →
      P ({ s with rxFrameLen := 0, timerCf := s.timerCf.stop,
                  log := .err s.now .UnexpectedConsecutiveFrame :: s.log }, s.pendingFc, false))
    (h_cf_sn : ∀ sn data cdl rdl, decode m.data s.addr.rx.rxPrefixSize = some ⟨.cf sn data, cdl, rdl⟩ →
      s.rxState = .waitCf → sn ≠ (s.lastSeq + 1) % 16 →
      P ({ s with actualRxdl := none, rxState := .idle, rxBuf := [], pendingFc := false, lastFc := none,
                  timerCf := s.timerCf.stop, log := .err s.now .WrongSequenceNumber :: s.log }, false, false))
    (h_cf_rxdl : ∀ sn data cdl rdl, decode m.data s.addr.rx.rxPrefixSize = some ⟨.cf sn data, cdl, rdl⟩ →
      s.rxState = .waitCf → sn = (s.lastSeq + 1) % 16 →
      s.actualRxdl ≠ some rdl → rdl < s.rxFrameLen - s.rxBuf.length →
      P ({ s with log := .err s.now .ChangingInvalidRXDL :: s.log }, false, false))
    (h_cf_last : ∀ sn data cdl rdl, decode m.data s.addr.rx.rxPrefixSize = some ⟨.cf sn data, cdl, rdl⟩ →
      s.rxState = .waitCf → sn = (s.lastSeq + 1) % 16 →
      (s.actualRxdl = some rdl ∨ s.rxFrameLen - s.rxBuf.length ≤ rdl) →
      s.rxFrameLen ≤ (s.rxBuf ++ data.take (s.rxFrameLen - s.rxBuf.length)).length →
      P ({ s with lastSeq := sn, actualRxdl := none, rxState := .idle, rxBuf := [], pendingFc := false,
                  lastFc := none, timerCf := { start := none, timeout := s.cfg.tCf },
                  log := .deliver (s.rxBuf ++ data.take (s.rxFrameLen - s.rxBuf.length)) :: s.log,
                  rxQueue := s.rxQueue ++ [s.rxBuf ++ data.take (s.rxFrameLen - s.rxBuf.length)] },
          false, true))
    (h_cf_more : ∀ sn data cdl rdl, decode m.data s.addr.rx.rxPrefixSize = some ⟨.cf sn data, cdl, rdl⟩ →
      s.rxState = .waitCf → sn = (s.lastSeq + 1) % 16 →
      (s.actualRxdl = some rdl ∨ s.rxFrameLen - s.rxBuf.length ≤ rdl) →
      (s.rxBuf ++ data.take (s.rxFrameLen - s.rxBuf.length)).length < s.rxFrameLen →
      P (if 0 < s.cfg.blocksize ∧ (s.rxBlockCnt + 1) % s.cfg.blocksize = 0 then
          ({ s with lastSeq := sn, rxBuf := s.rxBuf ++ data.take (s.rxFrameLen - s.rxBuf.length),
                    rxBlockCnt := s.rxBlockCnt + 1, pendingFc := true, pendingFcStatus := some 0,
                    timerCf := { start := none, timeout := s.cfg.tCf } }, true, false)
        else
          ({ s with lastSeq := sn, rxBuf := s.rxBuf ++ data.take (s.rxFrameLen - s.rxBuf.length),
                    rxBlockCnt := s.rxBlockCnt + 1,
                    timerCf := { start := some s.now, timeout := s.cfg.tCf } }, s.pendingFc, false))) :
    P (s.processRx m) := by
  cases hd : decode m.data s.addr.rx.rxPrefixSize with
  | none => rw [processRx_none_eq s m hd]; exact h_none hd
  | some d =>
    obtain ⟨pdu, cdl, rdl⟩ := d
    cases pdu with
    | fc st bs stm => rw [processRx_fc_eq s m _ _ _ _ _ hd]; exact h_fc _ _ _ _ _ hd
    | sf len data esc =>
      by_cases h8 : cdl ≤ 8 ∨ esc = true
      · cases hs : s.rxState
        · rw [processRx_sf_idle_eq s m _ _ _ _ _ hd h8 hs]; exact h_sf_idle _ _ _ _ _ hd h8 hs
        · rw [processRx_sf_waitCf_eq s m _ _ _ _ _ hd h8 hs]; exact h_sf_wait _ _ _ _ _ hd h8 hs
      · have he : esc = false := by cases esc <;> simp_all
        subst he
        have h8' : cdl > 8 := by omega
        rw [processRx_sf_noescape_eq s m _ _ _ _ hd h8']; exact h_sf_noesc _ _ _ _ hd h8'
    | ff len data esc =>
      cases hv : validTxDl rdl
      · rw [processRx_ff_badRxdl_eq s m _ _ _ _ _ hd hv]; exact h_ff_rxdl _ _ _ _ _ hd hv
      · by_cases hl : len ≤ s.cfg.maxFrameSize
        · rw [processRx_ff_ok_eq s m _ _ _ _ _ hd hv hl]; exact h_ff_ok _ _ _ _ _ hd hv hl
        · have hl' : len > s.cfg.maxFrameSize := by omega
          rw [processRx_ff_tooLong_eq s m _ _ _ _ _ hd hv hl']; exact h_ff_long _ _ _ _ _ hd hv hl'
    | cf sn data =>
      cases hs : s.rxState
      · rw [processRx_cf_idle_eq s m _ _ _ _ hd hs]; exact h_cf_idle _ _ _ _ hd hs
      · by_cases hsn : sn = (s.lastSeq + 1) % 16
        · by_cases hok : s.actualRxdl = some rdl ∨ s.rxFrameLen - s.rxBuf.length ≤ rdl
          · by_cases hfull : s.rxFrameLen ≤ (s.rxBuf ++ data.take (s.rxFrameLen - s.rxBuf.length)).length
            · rw [processRx_cf_last_eq s m _ _ _ _ hd hs hsn hok hfull]
              exact h_cf_last _ _ _ _ hd hs hsn hok hfull
            · have hmore := Nat.lt_of_not_le hfull
              rw [processRx_cf_more_eq s m _ _ _ _ hd hs hsn hok hmore]
              exact h_cf_more _ _ _ _ hd hs hsn hok hmore
          · have h1 : s.actualRxdl ≠ some rdl := fun h => hok (Or.inl h)
            have h2 : rdl < s.rxFrameLen - s.rxBuf.length := by
              apply Nat.lt_of_not_le; intro h; exact hok (Or.inr h)
            rw [processRx_cf_changingRxdl_eq s m _ _ _ _ hd hs hsn h1 h2]
            exact h_cf_rxdl _ _ _ _ hd hs hsn h1 h2
        · rw [processRx_cf_wrongSn_eq s m _ _ _ _ hd hs hsn]; exact h_cf_sn _ _ _ _ hd hs hsn


/-! ### general facts about `decode` -/

theorem decode_some (d : Bytes) (k : Nat) (x : Decoded) (h : decode d k = some x) :
    decodeBody (d.drop k) = some x.pdu ∧ x.canDl = d.length ∧ x.rxDl = max 8 d.length ∧ k ≤ d.length := by
  unfold decode at h
  split at h
  · exact absurd h (by simp)
  · split at h
    · exact absurd h (by simp)
    · rename_i p hp
      have := Option.some.inj h
      subst this
      exact ⟨hp, rfl, rfl, by omega⟩

theorem decodeBody_ff_len (b : Bytes) (len : Nat) (data : Bytes) (esc : Bool)
    (h : decodeBody b = some (.ff len data esc)) : data.length ≤ len := by
  unfold decodeBody at h; dsimp only at h
  repeat' split at h
  all_goals try (simp only [reduceCtorEq, Option.some.injEq] at h; done)
  all_goals
    simp only [Option.some.injEq, Pdu.ff.injEq] at h
    obtain ⟨h1, h2, _⟩ := h
    subst h1 h2
    rw [List.length_take]
    exact Nat.le_trans (Nat.min_le_left _ _) (Nat.min_le_left _ _)

theorem decode_ff_len (d : Bytes) (k len : Nat) (data : Bytes) (esc : Bool) (cdl rdl : Nat)
    (h : decode d k = some ⟨.ff len data esc, cdl, rdl⟩) : data.length ≤ len :=
  decodeBody_ff_len _ _ _ _ (decode_some d k _ h).1

/-- the 12-bit First Frame length field is never 0 -/
theorem decodeBody_ff_pos (b : Bytes) (len : Nat) (data : Bytes)
    (h : decodeBody b = some (.ff len data false)) : 0 < len := by
  unfold decodeBody at h; dsimp only at h
  repeat' split at h
  all_goals try (simp only [reduceCtorEq, Option.some.injEq, Pdu.ff.injEq, and_false] at h; done)
  all_goals
    simp only [Option.some.injEq, Pdu.ff.injEq] at h
    obtain ⟨h1, _, _⟩ := h
    omega



theorem rxTrace_append (s s' : State) (evs : List Ev) (h : s'.log = evs ++ s.log) :
    rxTrace s' = rxTrace s ++ evs.reverse.filterMap rxEv := by
  simp [rxTrace, h, List.filterMap_append]

theorem delivered_append (s s' : State) (evs : List Ev) (h : s'.log = evs ++ s.log) :
    delivered s' = delivered s ++ (evs.reverse.filterMap rxEv).filterMap RxEv.payload := by
  simp [delivered, rxTrace_append s s' evs h, List.filterMap_append]

theorem delivered_same (s s' : State) (h : s'.log = s.log) : delivered s' = delivered s ++ [] := by
  simp [delivered, rxTrace, h]

/-- the rx queue grows exactly by what is logged as delivered -/
theorem processRx_queue_sync (s : State) (m : CanMsg) :
    ∃ l, (s.processRx m).1.rxQueue = s.rxQueue ++ l ∧ delivered (s.processRx m).1 = delivered s ++ l := by
  refine processRx_cases s m (fun r => ∃ l, r.1.rxQueue = s.rxQueue ++ l ∧ delivered r.1 = delivered s ++ l)
    ?_ ?_ ?_ ?_ ?_ ?_ ?_ ?_ ?_ ?_ ?_ ?_ ?_
  · intro _; exact ⟨[], by simp, by rw [delivered_append s _ [.err s.now .InvalidCanData] rfl]; simp [rxEv, isRxErr, RxEv.payload]⟩
  · intro _ _ _ _ _ _; exact ⟨[], by simp, delivered_same s _ rfl⟩
  · intro _ _ _ _ _ _; exact ⟨[], by simp, by rw [delivered_append s _ [.err s.now .MissingEscapeSequence] rfl]; simp [rxEv, isRxErr, RxEv.payload]⟩
  · intro _ data _ _ _ _ _ _; exact ⟨[data], by simp, by rw [delivered_append s _ [.deliver data] rfl]; simp [rxEv, RxEv.payload]⟩
  · intro _ data _ _ _ _ _ _
    exact ⟨[data], by simp, by
      rw [delivered_append s _ [.err s.now .InterruptedWithSingleFrame, .deliver data] rfl]; simp [rxEv, isRxErr, RxEv.payload]⟩
  · intro _ _ _ _ _ _ _ _
    refine ⟨[], by simp, ?_⟩
    by_cases hi : s.rxState = .idle
    · rw [delivered_append s _ [] (by simp [hi])]; simp
    · rw [delivered_append s _ [.err s.now .InterruptedWithFirstFrame] (by simp [hi])]; simp [rxEv, isRxErr, RxEv.payload]
  · intro _ _ _ _ _ _ _
    refine ⟨[], by simp, ?_⟩
    by_cases hi : s.rxState = .idle
    · rw [delivered_append s _ [.err s.now .InvalidCanFdFirstFrameRXDL] (by simp [hi])]; simp [rxEv, isRxErr, RxEv.payload]
    · rw [delivered_append s _ [.err s.now .InterruptedWithFirstFrame, .err s.now .InvalidCanFdFirstFrameRXDL] (by simp [hi])]
      simp [rxEv, isRxErr, RxEv.payload]
  · intro _ _ _ _ _ _ _ _
    refine ⟨[], by simp, ?_⟩
    by_cases hi : s.rxState = .idle
    · rw [delivered_append s _ [.err s.now .FrameTooLong] (by simp [hi])]; simp [rxEv, isRxErr, RxEv.payload]
    · rw [delivered_append s _ [.err s.now .InterruptedWithFirstFrame, .err s.now .FrameTooLong] (by simp [hi])]
      simp [rxEv, isRxErr, RxEv.payload]
  · intro _ _ _ _ _ _; exact ⟨[], by simp, by rw [delivered_append s _ [.err s.now .UnexpectedConsecutiveFrame] rfl]; simp [rxEv, isRxErr, RxEv.payload]⟩
  · intro _ _ _ _ _ _ _; exact ⟨[], by simp, by rw [delivered_append s _ [.err s.now .WrongSequenceNumber] rfl]; simp [rxEv, isRxErr, RxEv.payload]⟩
  · intro _ _ _ _ _ _ _ _ _; exact ⟨[], by simp, by rw [delivered_append s _ [.err s.now .ChangingInvalidRXDL] rfl]; simp [rxEv, isRxErr, RxEv.payload]⟩
  · intro _ data _ _ _ _ _ _ _
    exact ⟨[s.rxBuf ++ data.take (s.rxFrameLen - s.rxBuf.length)], by simp, by
      rw [delivered_append s _ [.deliver (s.rxBuf ++ data.take (s.rxFrameLen - s.rxBuf.length))] rfl]; simp [rxEv, RxEv.payload]⟩
  · intro _ _ _ _ _ _ _ _ _
    split <;> exact ⟨[], by simp, delivered_same s _ rfl⟩

theorem feed_queue_sync (ms : List CanMsg) : ∀ s : State,
    ∃ l, (feed s ms).rxQueue = s.rxQueue ++ l ∧ delivered (feed s ms) = delivered s ++ l := by
  induction ms with
  | nil => intro s; exact ⟨[], by simp [feed], by simp [feed]⟩
  | cons m ms ih =>
    intro s
    obtain ⟨l1, h1, h2⟩ := processRx_queue_sync s m
    obtain ⟨l2, h3, h4⟩ := ih (s.processRx m).1
    refine ⟨l1 ++ l2, ?_, ?_⟩
    · show (feed (s.processRx m).1 ms).rxQueue = _
      rw [h3, h1, List.append_assoc]
    · show delivered (feed (s.processRx m).1 ms) = _
      rw [h4, h2, List.append_assoc]


/-- C03 for the plain fold (nothing between the frames): `recv()` gets exactly `p`. -/
theorem feed_wellFormed (s : State) (ms : List CanMsg) (pre p : Bytes)
    (hw : Spec.WellFormed pre p (ms.map (·.data))) (hpre : pre.length = s.addr.rx.rxPrefixSize)
    (hmax : p.length ≤ s.cfg.maxFrameSize) :
    (feed s ms).rxQueue = s.rxQueue ++ [p] ∧ (feed s ms).rxState = .idle ∧
      (s.rxState = .idle → rxTrace (feed s ms) = rxTrace s ++ [.deliver p]) := by
  obtain ⟨hd, hst, htr⟩ := wellFormed_delivers s (feed s ms) pre p _ hw hpre hmax (feeds_feed ms s)
  obtain ⟨l, hq, hl⟩ := feed_queue_sync ms s
  rw [hd] at hl
  have := List.append_cancel_left hl
  subst this
  exact ⟨hq, hst, htr⟩

theorem feed_nothing_earlier (s : State) (ms rest : List CanMsg) (pre p : Bytes)
    (hw : Spec.WellFormed pre p ((ms ++ rest).map (·.data))) (hne : rest ≠ [])
    (hpre : pre.length = s.addr.rx.rxPrefixSize) (hmax : p.length ≤ s.cfg.maxFrameSize) :
    (feed s ms).rxQueue = s.rxQueue := by
  have hd := wellFormed_nothing_earlier s (feed s ms) pre p _ (ms.map (·.data)) (rest.map (·.data)) hw hpre hmax
    (by simp) (by simpa using hne) (feeds_feed ms s)
  obtain ⟨l, hq, hl⟩ := feed_queue_sync ms s
  rw [hd] at hl
  have : l = [] := by
    have h0 : delivered s ++ [] = delivered s ++ l := by rw [List.append_nil]; exact hl
    exact (List.append_cancel_left h0).symm
  rw [hq, this, List.append_nil]

/-! ### the invariant of the reception FSM -/

structure RxInv (s : State) : Prop where
  idle : s.rxState = .idle → s.rxBuf = [] ∧ s.actualRxdl = none
  wait : s.rxState = .waitCf →
    s.rxBuf.length ≤ s.rxFrameLen ∧ s.rxFrameLen ≤ s.cfg.maxFrameSize ∧ s.actualRxdl.isSome = true

theorem rxInv_init (c : Cfg) (a : Addr) : RxInv (State.init c a) :=
  ⟨fun _ => ⟨rfl, rfl⟩, fun h => by simp [State.init] at h⟩

theorem rxInv_of_same {s s' : State} (h : RxInv s) (hs : RxSame s s') : RxInv s' := by
  have e : rxView s' = rxView s := hs
  have e0 := congrArg RxView.cfg e
  have e1 := congrArg RxView.rxState e
  have e2 := congrArg RxView.rxBuf e
  have e3 := congrArg RxView.rxFrameLen e
  have e6 := congrArg RxView.actualRxdl e
  simp only [rxView] at e0 e1 e2 e3 e6
  constructor
  · intro hi; rw [e2, e6]; exact h.idle (e1 ▸ hi)
  · intro hw; rw [e2, e3, e6, e0]; exact h.wait (e1 ▸ hw)

theorem rxInv_stopReceiving (s : State) : RxInv s.stopReceiving :=
  ⟨fun _ => ⟨rfl, rfl⟩, fun h => by simp [stopReceiving] at h⟩

theorem rxInv_checkTimeoutsRx (s : State) (h : RxInv s) : RxInv s.checkTimeoutsRx := by
  unfold checkTimeoutsRx; split
  · exact rxInv_stopReceiving _
  · exact h

theorem rxInv_processTx (s : State) (h : RxInv s) : RxInv s.processTx.1 := rxInv_of_same h (rxSame_processTx s)

theorem rxInv_reset (s : State) : RxInv s.reset :=
  ⟨fun _ => ⟨rfl, rfl⟩, fun h => by simp [reset, stopReceiving] at h⟩

theorem rxInv_processRx (s : State) (m : CanMsg) (h : RxInv s) : RxInv (s.processRx m).1 := by
  refine processRx_cases s m (fun r => RxInv r.1) ?_ ?_ ?_ ?_ ?_ ?_ ?_ ?_ ?_ ?_ ?_ ?_ ?_
  · intro _; exact ⟨fun _ => ⟨rfl, rfl⟩, fun h => by simp at h⟩
  · intro _ _ _ _ _ _; exact ⟨h.idle, h.wait⟩
  · intro _ _ _ _ _ _; exact ⟨h.idle, h.wait⟩
  · intro _ _ _ _ _ _ _ hs; exact ⟨fun _ => h.idle hs, fun hw => by simp [hs] at hw⟩
  · intro _ _ _ _ _ _ _ _; exact ⟨fun _ => ⟨rfl, rfl⟩, fun h => by simp at h⟩
  · intro len data _ _ _ hd _ hl
    exact ⟨fun h => by simp at h, fun _ => ⟨decode_ff_len _ _ _ _ _ _ _ hd, hl, rfl⟩⟩
  · intro _ _ _ _ _ _ _; exact ⟨fun _ => ⟨rfl, rfl⟩, fun h => by simp at h⟩
  · intro _ _ _ _ _ _ _ _; exact ⟨fun _ => ⟨rfl, rfl⟩, fun h => by simp at h⟩
  · intro _ _ _ _ _ hs; exact ⟨fun _ => h.idle hs, fun hw => by simp [hs] at hw⟩
  · intro _ _ _ _ _ _ _; exact ⟨fun _ => ⟨rfl, rfl⟩, fun h => by simp at h⟩
  · intro _ _ _ _ _ _ _ _ _; exact ⟨h.idle, h.wait⟩
  · intro _ _ _ _ _ _ _ _ _; exact ⟨fun _ => ⟨rfl, rfl⟩, fun h => by simp at h⟩
  · intro _ _ _ _ _ hs _ _ hmore
    have hw := h.wait hs
    split
    · exact ⟨fun hi => by simp [hs] at hi, fun _ => ⟨Nat.le_of_lt hmore, hw.2.1, hw.2.2⟩⟩
    · exact ⟨fun hi => by simp [hs] at hi, fun _ => ⟨Nat.le_of_lt hmore, hw.2.1, hw.2.2⟩⟩



/-! ### deliveries are whole messages -/

/-- every delivery made by `processRx` is either the payload of the Single Frame just received, or the
    completed buffer of the reception in progress, whose length is exactly the announced length -/
theorem processRx_deliver_cases (s : State) (m : CanMsg) (h : RxInv s) :
    delivered (s.processRx m).1 = delivered s ∨
    (∃ len data esc cdl rdl, decode m.data s.addr.rx.rxPrefixSize = some ⟨.sf len data esc, cdl, rdl⟩ ∧
        delivered (s.processRx m).1 = delivered s ++ [data]) ∨
    (∃ sn data cdl rdl q, decode m.data s.addr.rx.rxPrefixSize = some ⟨.cf sn data, cdl, rdl⟩ ∧
        s.rxState = .waitCf ∧ delivered (s.processRx m).1 = delivered s ++ [q] ∧
        q.length = s.rxFrameLen ∧ s.rxBuf <+: q) := by
  obtain ⟨l, hq, hl⟩ := processRx_queue_sync s m
  revert hq hl
  refine processRx_cases s m (fun r => r.1.rxQueue = s.rxQueue ++ l → delivered r.1 = delivered s ++ l → 
      (delivered r.1 = delivered s ∨
      (∃ len data esc cdl rdl, decode m.data s.addr.rx.rxPrefixSize = some ⟨.sf len data esc, cdl, rdl⟩ ∧
          delivered r.1 = delivered s ++ [data]) ∨
      (∃ sn data cdl rdl q, decode m.data s.addr.rx.rxPrefixSize = some ⟨.cf sn data, cdl, rdl⟩ ∧
          s.rxState = .waitCf ∧ delivered r.1 = delivered s ++ [q] ∧
          q.length = s.rxFrameLen ∧ s.rxBuf <+: q)))
    ?_ ?_ ?_ ?_ ?_ ?_ ?_ ?_ ?_ ?_ ?_ ?_ ?_
  case refine_4 =>
    intro len data esc cdl rdl hd _ _ hq hl
    have : l = [data] := (List.append_cancel_left hq).symm
    subst this
    exact Or.inr (Or.inl ⟨_, _, _, _, _, hd, hl⟩)
  case refine_5 =>
    intro len data esc cdl rdl hd _ _ hq hl
    have : l = [data] := (List.append_cancel_left hq).symm
    subst this
    exact Or.inr (Or.inl ⟨_, _, _, _, _, hd, hl⟩)
  case refine_12 =>
    intro sn data cdl rdl hd hs _ _ hfull hq hl
    have : l = [s.rxBuf ++ data.take (s.rxFrameLen - s.rxBuf.length)] := (List.append_cancel_left hq).symm
    subst this
    refine Or.inr (Or.inr ⟨_, _, _, _, _, hd, hs, hl, ?_, List.prefix_append _ _⟩)
    have := (h.wait hs).1
    simp only [List.length_append, List.length_take] at hfull ⊢
    omega
  case refine_13 =>
    intro sn data cdl rdl _ _ _ _ _
    split <;>
    · intro hq hl
      have : l = [] := by simpa using hq
      subst this
      exact Or.inl (by simpa using hl)
  all_goals
    intros
    rename_i hq hl
    have : l = [] := by simpa using hq
    subst this
    exact Or.inl (by simpa using hl)


/-! ### Flow Control emission (B5) -/

/-- a pending Flow Control is sent by the very next transmit pass, before anything else -/
theorem processTx_sends_fc (s : State) (st : Nat) (msg : CanMsg) (hp : s.pendingFc = true)
    (hst : s.pendingFcStatus = some st) (hl : s.cfg.listen = false)
    (hm : makeFlowControl s.cfg s.addr st = some msg) :
    s.processTx =
      ({ s with pendingFc := false,
                timerCf := if st = 0 then { start := some s.now, timeout := s.cfg.tCf } else s.timerCf },
       some msg, true) := by
  rw [processTx_eq]
  have : pendPart s =
      ({ s with pendingFc := false,
                timerCf := if st = 0 then { start := some s.now, timeout := s.cfg.tCf } else s.timerCf },
       some (some msg)) := by
    unfold pendPart
    by_cases h0 : st = 0
    · subst h0; simp [hp, hst, hl, startRxCfTimer, hm]
    · simp [hp, hst, hl, h0, hm]
  rw [this]

/-- in listen mode the request is consumed silently: no frame for it -/
theorem pendPart_listen (s : State) (st : Nat) (hp : s.pendingFc = true)
    (hst : s.pendingFcStatus = some st) (hl : s.cfg.listen = true) :
    (pendPart s).2 = none ∧ (pendPart s).1.pendingFc = false := by
  unfold pendPart
  by_cases h0 : st = 0
  · subst h0; simp [hp, hst, hl, startRxCfTimer]
  · simp [hp, hst, hl, h0]

theorem txTail_silent (s : State) (a : Nat) (h3 : s.txState = .idle) (h4 : s.txQueue = [])
    (h5 : s.timerFc.timedOut s.now = false) : (txTail s a).2.1 = none := by
  have ht : tailTimeout s = s := by unfold tailTimeout; simp [h5]
  have hd : tailDepleted s = s := by unfold tailDepleted; simp [h3]
  have hf : fsmPart s a = ({ s with txQueue := [] }, none, false) := by
    unfold fsmPart; simp [h3, h4, readTxQueue]
  unfold txTail
  rw [ht, hd, hf]
  simp only [h3]
  unfold tailOut
  simp only [ne_eq, not_true_eq_false, decide_false, Bool.false_and, Bool.false_eq_true, if_false]
  split <;> rfl

/-- with nothing pending, nothing received and nothing to transmit, a transmit pass emits nothing -/
theorem processTx_silent (s : State) (h1 : s.pendingFc = false) (h2 : s.lastFc = none)
    (h3 : s.txState = .idle) (h4 : s.txQueue = []) (h5 : s.timerFc.timedOut s.now = false) :
    s.processTx.2.1 = none := by
  rw [processTx_eq]
  have hp : pendPart s = (s, none) := by unfold pendPart; simp [h1]
  rw [hp]
  have hf : fcPart s = ({ s with lastFc := none }, false) := by unfold fcPart; simp [h2]
  simp only [hf]
  exact txTail_silent _ _ h3 h4 h5


/-! ### content of the Flow Control frame -/

theorem fcData_cts (bs stmin : Nat) (hb : bs ≤ 255) (hs : stmin ≤ 255) :
    fcData 0 bs stmin = [0x30, u8 bs, u8 stmin] := by
  have h1 : bs % 256 = bs := by omega
  have h2 : stmin % 256 = stmin := by omega
  simp [fcData, h1, h2]; rfl

theorem fcData_overflow (bs stmin : Nat) (hb : bs ≤ 255) (hs : stmin ≤ 255) :
    fcData 2 bs stmin = [0x32, u8 bs, u8 stmin] := by
  have h1 : bs % 256 = bs := by omega
  have h2 : stmin % 256 = stmin := by omega
  simp [fcData, h1, h2]; rfl

theorem txPrefix_length_le (h : Half) : h.txPrefix.length ≤ 1 := by
  unfold Half.txPrefix; split <;> simp

theorem leastLegal_of_legal (n : Nat) (h : Spec.legal n) : Spec.leastLegal n = n := by
  simp only [Spec.legal, Spec.legalLens, List.mem_cons, List.not_mem_nil, or_false] at h
  rcases h with h | h | h | h | h | h | h | h | h | h | h | h | h | h | h | h <;> subst h <;> rfl

theorem legal_le8 (n : Nat) (h : n ≤ 8) : Spec.legal n := by
  simp only [Spec.legal, Spec.legalLens, List.mem_cons, List.not_mem_nil, or_false]; omega

theorem legal_validTxDl (n : Nat) (h : validTxDl n = true) : Spec.legal n := by
  simp [validTxDl] at h
  simp only [Spec.legal, Spec.legalLens, List.mem_cons, List.not_mem_nil, or_false]; omega

/-- for a short frame (at most 8 meaningful bytes) the model's padded length is the documented one -/
theorem padLen_short (c : Cfg) (a : Addr) (n : Nat) (hv : c.valid = true) (hn : n ≤ 8) :
    padLen c n = some (Spec.padTarget (Spec.TxCfg.of c a) n) ∧ Spec.legal (Spec.padTarget (Spec.TxCfg.of c a) n)
      ∧ n ≤ Spec.padTarget (Spec.TxCfg.of c a) n ∧ (c.txDl = 8 → Spec.padTarget (Spec.TxCfg.of c a) n ≤ 8) := by
  simp only [Cfg.valid, Bool.and_eq_true, decide_eq_true_eq] at hv
  obtain ⟨⟨⟨⟨⟨htx, _⟩, _⟩, _⟩, hmin⟩, _⟩ := hv
  have htx' := htx
  simp [validTxDl] at htx'
  unfold padLen Spec.padTarget Spec.floorLen Spec.TxCfg.of
  cases hm : c.txMinLen with
  | none =>
    simp only []
    by_cases h8 : c.txDl = 8
    · cases hp : c.txPadding with
      | none =>
        have hl : Spec.legal n := legal_le8 _ hn
        simp [h8, leastLegal_of_legal _ hl, hl]; exact hn
      | some pb =>
        have hl : Spec.legal (max n 8) := legal_le8 _ (by omega)
        simp [h8, leastLegal_of_legal _ hl, hl]; omega
    · have hl : Spec.legal n := legal_le8 _ hn
      have hgt : c.txDl > 8 := by omega
      have hnf : nearestFd n = some n := by simp [nearestFd, hn]
      simp [h8, hgt, hnf, leastLegal_of_legal _ hl, hl]
  | some mm =>
    rw [hm] at hmin
    simp only [Bool.and_eq_true, decide_eq_true_eq] at hmin
    obtain ⟨hvm, hle⟩ := hmin
    have hl : Spec.legal (max n mm) := by
      simp only [validMinLen, Bool.or_eq_true, Bool.and_eq_true, decide_eq_true_eq] at hvm
      rcases hvm with h | h
      · exact legal_le8 _ (by omega)
      · by_cases hmn : mm ≤ n
        · exact legal_le8 _ (by omega)
        · have : max n mm = mm := by omega
          rw [this]; exact legal_validTxDl _ h
    simp only []
    by_cases h8 : c.txDl = 8
    · simp [h8, leastLegal_of_legal _ hl, hl]; omega
    · have hgt : c.txDl > 8 := by omega
      have hnf : nearestFd n = some n := by simp [nearestFd, hn]
      simp [h8, hgt, hnf, leastLegal_of_legal _ hl, hl]
      omega


theorem dlcOf_legal (c : Cfg) (t : Nat) (hl : Spec.legal t) (h3 : 3 ≤ t) (h8 : c.txDl = 8 → t ≤ 8) :
    ∃ d, dlcOf c t = some d := by
  simp only [Spec.legal, Spec.legalLens, List.mem_cons, List.not_mem_nil, or_false] at hl
  by_cases hc : c.txDl = 8
  · have := h8 hc
    rcases hl with h | h | h | h | h | h | h | h | h | h | h | h | h | h | h | h <;> subst h <;>
      first | omega | simp [dlcOf, nearestFd, hc]
  · rcases hl with h | h | h | h | h | h | h | h | h | h | h | h | h | h | h | h <;> subst h <;>
      first | omega | simp [dlcOf, nearestFd, hc]

theorem padByte_eq (c : Cfg) (a : Addr) (hv : c.valid = true) : padByte c = Spec.padByte (Spec.TxCfg.of c a) := by
  simp only [Cfg.valid, Bool.and_eq_true, decide_eq_true_eq] at hv
  obtain ⟨⟨⟨_, hp⟩, _⟩, _⟩ := hv
  unfold padByte Spec.padByte Spec.TxCfg.of u8
  cases h : c.txPadding with
  | none => rfl
  | some pb =>
    rw [h] at hp
    simp only [decide_eq_true_eq] at hp
    have : pb % 256 = pb := by omega
    simp [this]

/-- B5: the Flow Control frame: physical tx identifier, address prefix, `[0x30 + status, BS, STmin]`,
    padded as documented. It always exists for a validated configuration. -/
theorem makeFlowControl_eq (c : Cfg) (a : Addr) (st : Nat) (hv : c.valid = true) :
    ∃ dlc, makeFlowControl c a st = some
      { id := a.tx.txId .physical, ext := a.tx.mode.is29,
        data := Spec.padFrame (Spec.TxCfg.of c a) (a.tx.txPrefix ++ fcData st c.blocksize c.stmin),
        dlc := dlc, fd := c.canFd, brs := c.brs } := by
  have hpl := txPrefix_length_le a.tx
  have hlen : (a.tx.txPrefix ++ fcData st c.blocksize c.stmin).length = a.tx.txPrefix.length + 3 := by
    simp [fcData]
  obtain ⟨hpad, hleg, hge, h8⟩ := padLen_short c a (a.tx.txPrefix.length + 3) hv (by omega)
  obtain ⟨d, hd⟩ := dlcOf_legal c _ hleg (by omega) h8
  refine ⟨d, ?_⟩
  unfold makeFlowControl makeTxMsg pad
  rw [hlen, hpad]
  simp only [List.length_append, List.length_replicate, hlen]
  have : a.tx.txPrefix.length + 3 + (Spec.padTarget (Spec.TxCfg.of c a) (a.tx.txPrefix.length + 3) - (a.tx.txPrefix.length + 3))
      = Spec.padTarget (Spec.TxCfg.of c a) (a.tx.txPrefix.length + 3) := by omega
  rw [this, hd]
  simp only [Spec.padFrame, hlen, padByte_eq c a hv]



/-! ### undecodable frames -/

theorem decode_short (d : Bytes) (k : Nat) (h : d.length ≤ k) : decode d k = none := by
  unfold decode
  by_cases h' : d.length < k
  · simp [h']
  · have : d.drop k = [] := List.drop_eq_nil_iff.mpr h
    simp [h', this, decodeBody]

theorem decodeBody_unknown_type (b : Bytes) (h : 4 ≤ byteAt b 0 / 16) : decodeBody b = none := by
  unfold decodeBody; dsimp only
  have h0 : ¬ byteAt b 0 / 16 = 0 := by omega
  have h1 : ¬ byteAt b 0 / 16 = 1 := by omega
  have h2 : ¬ byteAt b 0 / 16 = 2 := by omega
  have h3 : ¬ byteAt b 0 / 16 = 3 := by omega
  simp only [h0, h1, h2, h3, if_false]
  split <;> rfl

theorem decode_unknown_type (pre b : Bytes) (h : 4 ≤ byteAt b 0 / 16) : decode (pre ++ b) pre.length = none := by
  rw [decode_prefix, decodeBody_unknown_type b h]; rfl

/-- Single Frame whose length nibble exceeds the bytes present -/
theorem decodeBody_sf_truncated (n : Nat) (rest : Bytes) (h1 : 1 ≤ n) (h15 : n ≤ 15) (hr : rest.length < n) :
    decodeBody (u8 n :: rest) = none := by
  have hb : (u8 n).toNat = n := by rw [u8_toNat]; omega
  have h16 : n < 16 := by omega
  have hm : n % 16 = n := by omega
  have hne : ¬ n = 0 := by omega
  simp [decodeBody, byteAt_cons_zero, hb, h16, hm, hne]
  omega

/-- First Frame cut after its first byte -/
theorem decodeBody_ff_truncated (b0 : UInt8) (h : b0.toNat / 16 = 1) : decodeBody [b0] = none := by
  simp [decodeBody, byteAt_cons_zero, h]

/-- Flow Control with fewer than three bytes -/
theorem decodeBody_fc_truncated (b0 b1 : UInt8) (h : b0.toNat / 16 = 3) : decodeBody [b0, b1] = none := by
  simp [decodeBody, byteAt_cons_zero, h]

/-! ### Flow Control frames and the reception FSM -/

/-- `handleFc` while the transmitter is idle: the documented error, nothing else changes -/
theorem handleFc_idle (s : State) (fc : FcFrame) (h : s.txState = .idle) :
    s.handleFc fc = { s with log := .err s.now .UnexpectedFlowControl :: s.log } := by
  unfold handleFc; simp [h, State.error, emit]

theorem fcPart_idle (s : State) (fc : FcFrame) (h : s.txState = .idle) (hl : s.lastFc = some fc)
    (hst : fc.status ≠ 2) :
    fcPart s = ({ s with lastFc := none, log := .err s.now .UnexpectedFlowControl :: s.log }, false) := by
  unfold fcPart
  simp [hl, hst, handleFc, h, State.error, emit]

/-! ### the N_Cr timeout -/

theorem checkTimeoutsRx_expired (s : State) (h : s.timerCf.timedOut s.now = true) :
    s.checkTimeoutsRx =
      { s with actualRxdl := none, rxState := .idle, rxBuf := [], pendingFc := false, lastFc := none,
               timerCf := s.timerCf.stop, log := .err s.now .ConsecutiveFrameTimeout :: s.log } := by
  unfold checkTimeoutsRx; simp [h, stopReceiving, State.error, emit]


/-! ### reachable states and recovery (D) -/

theorem processRx_cfg_addr (s : State) (m : CanMsg) :
    (s.processRx m).1.cfg = s.cfg ∧ (s.processRx m).1.addr = s.addr := by
  refine processRx_cases s m (fun r => r.1.cfg = s.cfg ∧ r.1.addr = s.addr) ?_ ?_ ?_ ?_ ?_ ?_ ?_ ?_ ?_ ?_ ?_ ?_ ?_
  case refine_13 => intros; split <;> exact ⟨rfl, rfl⟩
  all_goals intros; exact ⟨rfl, rfl⟩

theorem clearTxQueue_cfg_addr (q : List Req) : ∀ s : State,
    (s.clearTxQueue q).cfg = s.cfg ∧ (s.clearTxQueue q).addr = s.addr := by
  induction q with
  | nil => intro s; exact ⟨rfl, rfl⟩
  | cons r rest ih => intro s; unfold clearTxQueue; exact ih _

theorem stopSending_cfg_addr (s : State) (b : Bool) :
    (s.stopSending b).cfg = s.cfg ∧ (s.stopSending b).addr = s.addr := by
  unfold stopSending; split <;> exact ⟨rfl, rfl⟩

theorem reset_cfg_addr (s : State) : s.reset.cfg = s.cfg ∧ s.reset.addr = s.addr := by
  have h1 := clearTxQueue_cfg_addr s.txQueue { s with rxQueue := [] }
  have h2 := stopSending_cfg_addr (clearTxQueue { s with rxQueue := [] } s.txQueue) false
  unfold reset
  exact ⟨h2.1.trans h1.1, h2.2.trans h1.2⟩

/-- one step of the layer as seen from outside (any order, any arguments) -/
inductive Step : State → State → Prop
  | rx (s : State) (m : CanMsg) : Step s (s.processRx m).1
  | tx (s : State) : Step s s.processTx.1
  | timeouts (s : State) : Step s s.checkTimeoutsRx
  | stopReceiving (s : State) : Step s s.stopReceiving
  | reset (s : State) : Step s s.reset
  | send (s : State) (a : SendArgs) : Step s (s.send a).1
  | recv (s : State) : Step s s.recv.1
  | advance (s : State) (dt : Nat) : Step s (s.advance dt)

/-- states reachable from the initial state of a layer with configuration `c` and address `a` -/
inductive Reach (c : Cfg) (a : Addr) : State → Prop
  | init : Reach c a (State.init c a)
  | step {s s' : State} : Reach c a s → Step s s' → Reach c a s'

theorem step_inv {s s' : State} (h : Step s s') (hi : RxInv s) :
    RxInv s' ∧ s'.cfg = s.cfg ∧ s'.addr = s.addr := by
  cases h with
  | rx m => exact ⟨rxInv_processRx s m hi, processRx_cfg_addr s m⟩
  | tx => exact ⟨rxInv_processTx s hi, (rxSame_processTx s).cfg, (rxSame_processTx s).addr⟩
  | timeouts =>
    refine ⟨rxInv_checkTimeoutsRx s hi, ?_⟩
    unfold checkTimeoutsRx; split <;> exact ⟨rfl, rfl⟩
  | stopReceiving => exact ⟨rxInv_stopReceiving s, rfl, rfl⟩
  | reset => exact ⟨rxInv_reset s, reset_cfg_addr s⟩
  | send a => exact ⟨rxInv_of_same hi (rxSame_send s a), (rxSame_send s a).cfg, (rxSame_send s a).addr⟩
  | recv => exact ⟨rxInv_of_same hi (rxSame_recv s), (rxSame_recv s).cfg, (rxSame_recv s).addr⟩
  | advance dt => exact ⟨rxInv_of_same hi (rxSame_advance s dt), rfl, rfl⟩

theorem reach_inv {c : Cfg} {a : Addr} {s : State} (h : Reach c a s) : RxInv s ∧ s.cfg = c ∧ s.addr = a := by
  induction h with
  | init => exact ⟨rxInv_init c a, rfl, rfl⟩
  | step _ hs ih =>
    obtain ⟨h1, h2, h3⟩ := step_inv hs ih.1
    exact ⟨h1, h2.trans ih.2.1, h3.trans ih.2.2⟩

/-- D, recovery: after ANY history the next well-formed message is received intact. -/
theorem recovery (c : Cfg) (a : Addr) (s s' : State) (hr : Reach c a s) (pre p : Bytes) (frames : List Bytes)
    (hw : Spec.WellFormed pre p frames) (hpre : pre.length = a.rx.rxPrefixSize)
    (hmax : p.length ≤ c.maxFrameSize) (hf : Feeds s frames s') :
    delivered s' = delivered s ++ [p] ∧ s'.rxState = .idle := by
  obtain ⟨_, hc, ha⟩ := reach_inv hr
  obtain ⟨h1, h2, _⟩ := wellFormed_delivers s s' pre p frames hw (by rw [ha]; exact hpre) (by rw [hc]; exact hmax) hf
  exact ⟨h1, h2⟩



theorem txTail_idle_eq (s : State) (a : Nat) (h3 : s.txState = .idle) (h4 : s.txQueue = [])
    (h5 : s.timerFc.timedOut s.now = false) : txTail s a = ({ s with txQueue := [] }, none, false) := by
  have ht : tailTimeout s = s := by unfold tailTimeout; simp [h5]
  have hd : tailDepleted s = s := by unfold tailDepleted; simp [h3]
  have hf : fsmPart s a = ({ s with txQueue := [] }, none, false) := by
    unfold fsmPart; simp [h3, h4, readTxQueue]
  unfold txTail
  rw [ht, hd, hf]
  simp only [h3]
  unfold tailOut
  simp only [ne_eq, not_true_eq_false, decide_false, Bool.false_and, Bool.false_eq_true, if_false]
  split <;> rfl

/-- a Flow Control (not Overflow) received while nothing is being transmitted: the transmit pass logs
    exactly `UnexpectedFlowControlError`, consumes the mailbox, emits nothing -/
theorem processTx_unexpected_fc (s : State) (fc : FcFrame) (h1 : s.pendingFc = false)
    (h2 : s.lastFc = some fc) (hst : fc.status ≠ 2)
    (h3 : s.txState = .idle) (h4 : s.txQueue = []) (h5 : s.timerFc.timedOut s.now = false) :
    s.processTx =
      ({ s with lastFc := none, txQueue := [], log := .err s.now .UnexpectedFlowControl :: s.log }, none, false) := by
  rw [processTx_eq]
  have hp : pendPart s = (s, none) := by unfold pendPart; simp [h1]
  rw [hp]
  simp only [fcPart_idle s fc h3 h2 hst]
  exact txTail_idle_eq _ _ h3 h4 h5

/-! ### link to `rxLoop`, Flow Control decoding -/


/-- Flow Control frame as emitted by a conforming peer (or by this layer), after the prefix -/
theorem decode_fc (pre pad : Bytes) (st bs stmin : Nat) (hst : st < 3) (hv : validStmin (stmin % 256) = true) :
    decode (pre ++ fcData st bs stmin ++ pad) pre.length =
      some ⟨.fc st (bs % 256) (stmin % 256), (pre ++ fcData st bs stmin ++ pad).length,
            max 8 (pre ++ fcData st bs stmin ++ pad).length⟩ := by
  rw [List.append_assoc, decode_prefix, decodeBody_fc st bs stmin pad hst hv]
  simp

/-- what `rxLoop` does with an inbox entry before calling `processRx` (clock, `rx` event, timeout check)
    is reception-neutral as long as the N_Cr timer has not expired at the arrival time -/
theorem rxSame_rxLoop_entry (s : State) (rest : List (Nat × CanMsg)) (dt : Nat) (m : CanMsg)
    (h : s.timerCf.timedOut (s.now + dt) = false) :
    RxSame s ((({ s with inbox := rest, now := s.now + dt } : State).emit (.rx (s.now + dt) m)).checkTimeoutsRx) := by
  have h1 : RxSame s (({ s with inbox := rest, now := s.now + dt } : State).emit (.rx (s.now + dt) m)) :=
    rxView_emit_rx _ _ _
  exact h1.trans (rxSame_checkTimeoutsRx _ h)

/-- one accepted inbox entry through `rxLoop`: exactly `processRx` after a neutral step (when the frame
    asks for an immediate transmit pass, as First Frames and block-completing frames do) -/
theorem rxLoop_accepted_imm (doTx : Bool) (s : State) (st : Stats) (rest : List (Nat × CanMsg)) (dt : Nat)
    (m : CanMsg)
    (hme : s.addr.rx.isForMe m = true)
    (himm : ((({ s with inbox := rest, now := s.now + dt } : State).emit (.rx (s.now + dt) m)).checkTimeoutsRx.processRx m).2.1
      = true) :
    (s.rxLoop doTx st ((dt, m) :: rest)).1 =
      ((({ s with inbox := rest, now := s.now + dt } : State).emit (.rx (s.now + dt) m)).checkTimeoutsRx.processRx m).1 := by
  have hc : ((({ s with inbox := rest, now := s.now + dt } : State).emit (.rx (s.now + dt) m)).checkTimeoutsRx).addr = s.addr := by
    unfold checkTimeoutsRx; split <;> rfl
  unfold rxLoop
  simp only [hc, hme, if_true]
  rw [if_pos himm]

end Isotp.Rx
