import Isotp.Proofs.DuplexLive5
/-
  C10, liveness half, part 6: the abstract duplex machine with SHARP timeouts (N_Cr covers 3 ticks, N_Bs 2 ticks),
  decided by kernel computation for all small parameters: 1..5 frames in each direction, blocksizes 0..3 on each side,
  separation time zero / non-zero in each direction (1600 configurations).
-/
namespace Isotp.DuplexLive
open Isotp

/-- the parameters of A and of B for frame counts `nA`, `nB`, blocksizes `bsA`, `bsB`, "separation time 0" bits `zA`
    (A → B), `zB` (B → A), and timeouts covering 3 (N_Cr) and 2 (N_Bs) ticks -/
def smallA (nA nB bsA bsB : Nat) (zA : Bool) : Par := { n := nA, n' := nB, bs := bsA, bs' := bsB, z := zA, kCf := 3, kFc := 2 }
def smallB (nA nB bsA bsB : Nat) (zB : Bool) : Par := { n := nB, n' := nA, bs := bsB, bs' := bsA, z := zB, kCf := 3, kFc := 2 }

/-- all configurations with `nA` frames from A, 1..5 frames from B, blocksizes 0..3: final within `2·(nA + nB) + 2` rounds -/
def tabOK (zA zB : Bool) (nA : Nat) : Bool :=
  (List.range 5).all fun nB => (List.range 4).all fun bsA => (List.range 4).all fun bsB =>
    absDone (smallA nA (nB + 1) bsA bsB zA) (smallB nA (nB + 1) bsA bsB zB) (2 * (nA + (nB + 1)) + 2)

theorem tabOK_spec {zA zB : Bool} {nA : Nat} (h : tabOK zA zB nA = true) (nB bsA bsB : Nat) (h1 : 1 ≤ nB) (h2 : nB ≤ 5)
    (h3 : bsA ≤ 3) (h4 : bsB ≤ 3) :
    absDone (smallA nA nB bsA bsB zA) (smallB nA nB bsA bsB zB) (2 * (nA + nB) + 2) = true := by
  unfold tabOK at h
  simp only [List.all_eq_true, List.mem_range] at h
  have := h (nB - 1) (by omega) bsA (by omega) bsB (by omega)
  have e : nB - 1 + 1 = nB := by omega
  rw [e] at this
  exact this

theorem tab_tt1 : tabOK true true 1 = true := by decide +kernel
theorem tab_tt2 : tabOK true true 2 = true := by decide +kernel
theorem tab_tt3 : tabOK true true 3 = true := by decide +kernel
theorem tab_tt4 : tabOK true true 4 = true := by decide +kernel
theorem tab_tt5 : tabOK true true 5 = true := by decide +kernel
theorem tab_tf1 : tabOK true false 1 = true := by decide +kernel
theorem tab_tf2 : tabOK true false 2 = true := by decide +kernel
theorem tab_tf3 : tabOK true false 3 = true := by decide +kernel
theorem tab_tf4 : tabOK true false 4 = true := by decide +kernel
theorem tab_tf5 : tabOK true false 5 = true := by decide +kernel
theorem tab_ft1 : tabOK false true 1 = true := by decide +kernel
theorem tab_ft2 : tabOK false true 2 = true := by decide +kernel
theorem tab_ft3 : tabOK false true 3 = true := by decide +kernel
theorem tab_ft4 : tabOK false true 4 = true := by decide +kernel
theorem tab_ft5 : tabOK false true 5 = true := by decide +kernel
theorem tab_ff1 : tabOK false false 1 = true := by decide +kernel
theorem tab_ff2 : tabOK false false 2 = true := by decide +kernel
theorem tab_ff3 : tabOK false false 3 = true := by decide +kernel
theorem tab_ff4 : tabOK false false 4 = true := by decide +kernel
theorem tab_ff5 : tabOK false false 5 = true := by decide +kernel

theorem tabOK_all (zA zB : Bool) (nA : Nat) (h1 : 1 ≤ nA) (h2 : nA ≤ 5) : tabOK zA zB nA = true := by
  obtain rfl | rfl | rfl | rfl | rfl : nA = 1 ∨ nA = 2 ∨ nA = 3 ∨ nA = 4 ∨ nA = 5 := by omega
  · cases zA <;> cases zB
    · exact tab_ff1
    · exact tab_ft1
    · exact tab_tf1
    · exact tab_tt1
  · cases zA <;> cases zB
    · exact tab_ff2
    · exact tab_ft2
    · exact tab_tf2
    · exact tab_tt2
  · cases zA <;> cases zB
    · exact tab_ff3
    · exact tab_ft3
    · exact tab_tf3
    · exact tab_tt3
  · cases zA <;> cases zB
    · exact tab_ff4
    · exact tab_ft4
    · exact tab_tf4
    · exact tab_tt4
  · cases zA <;> cases zB
    · exact tab_ff5
    · exact tab_ft5
    · exact tab_tf5
    · exact tab_tt5

/-- **Sharp timeouts, small parameters.** With N_Cr covering 3 ticks and N_Bs 2 ticks the abstract duplex machine is
    final after `2·(nA + nB) + 2` rounds for all frame counts 1..5, blocksizes 0..3 and separation times (kernel
    computation over the 1600 configurations). -/
theorem absDone_small (nA nB bsA bsB : Nat) (zA zB : Bool) (h1 : 1 ≤ nA) (h2 : nA ≤ 5) (h3 : 1 ≤ nB) (h4 : nB ≤ 5)
    (h5 : bsA ≤ 3) (h6 : bsB ≤ 3) :
    absDone (smallA nA nB bsA bsB zA) (smallB nA nB bsA bsB zB) (2 * (nA + nB) + 2) = true :=
  tabOK_spec (tabOK_all zA zB nA h1 h2) nB bsA bsB h3 h4 h5 h6

end Isotp.DuplexLive
