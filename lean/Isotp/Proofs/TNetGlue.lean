import Isotp.Props.C01netfc
import Isotp.Proofs.TNetNoise
/-
  C13, network level — glue between the threaded pair (Proofs/TNetDefs.lean, TNetSim.lean, TNetNoise.lean) and the
  setting of Props/C01net.lean (`C01net.n0`, `C01net.Mirrored`, `C01net.Sched`, `C01net.mkSetting`): the definitions
  used in the statements of Props/C13net.lean (`toNOps`, `trun`, `nrun`) and the translation of the hypotheses.
-/
namespace Isotp.C13net
open Isotp Isotp.State Isotp.NetP Isotp.TNetP

/-- the network schedule (Props/C01net.lean) of a thread schedule of the started pair -/
def toNOps (ca cb : Cfg) (aa ab : Addr) (sched : List TStep) : List NOp :=
  TNetP.toNOps (TNet.init ca cb aa ab) sched

theorem tnet0_eq (ca cb : Cfg) (aa ab : Addr) (h : C01net.Mirrored ca cb aa ab) :
    tnet0 (C01net.mkSetting ca cb aa ab h) = TNet.init ca cb aa ab := rfl

theorem stepOkS_of (ca cb : Cfg) (aa ab : Addr) (h : C01net.Mirrored ca cb aa ab) (s : TStep)
    (hs : TNet.stepOk ca cb aa ab s = true) : stepOkS (C01net.mkSetting ca cb aa ab h) s := by
  cases s with
  | userSend b a =>
    simp only [TNet.stepOk, Bool.and_eq_true, decide_eq_true_eq, Bool.or_eq_true, Bool.not_eq_true'] at hs
    obtain ⟨⟨⟨⟨h1, h2⟩, h3⟩, h4⟩, h5⟩ := hs
    refine ⟨h1, h2, h3, ?_⟩
    intro b' hb
    have := (idx_eq_iff b b').1 hb
    subst this
    cases b
    · rcases h4 with h4 | h4
      · cases h4
      · exact h4
    · rcases h5 with h5 | h5
      · cases h5
      · exact h5
  | _ => trivial

theorem sched_of (ca cb : Cfg) (aa ab : Addr) (sched : List TStep) (hs : TNet.Sched ca cb aa ab sched) :
    C01net.Sched ca cb (toNOps ca cb aa ab sched) := by
  intro op hop
  obtain ⟨d', s, hmem, hop'⟩ := mem_toNOps sched _ op hop
  have hok := hs s hmem
  cases s <;> simp only [toNOp, List.mem_cons, List.not_mem_nil, or_false] at hop'
  case userSend b a =>
    subst hop'
    simp only [TNet.stepOk, Bool.and_eq_true, decide_eq_true_eq, Bool.or_eq_true, Bool.not_eq_true'] at hok
    obtain ⟨⟨⟨⟨h1, h2⟩, h3⟩, h4⟩, h5⟩ := hok
    cases b <;> simp_all [C01net.opOk, idx]
  case userRecv b => subst hop'; rfl
  case worker b => rcases hop' with rfl | rfl <;> rfl
  case tick dt => subst hop'; rfl
  all_goals exact absurd hop' (by simp)

/-- the run of the started pair (`TNet.init`: both layers constructed and started, empty buses) on a thread schedule -/
abbrev trun (ca cb : Cfg) (aa ab : Addr) (sched : List TStep) : TNet × List TEv := TNet.run (TNet.init ca cb aa ab) sched

/-- the run of the two-layer network of Props/C01net.lean on the corresponding network schedule -/
abbrev nrun (ca cb : Cfg) (aa ab : Addr) (sched : List TStep) : Net × List NEv :=
  Net.run (C01net.n0 ca cb aa ab) (toNOps ca cb aa ab sched)

theorem sim (ca cb : Cfg) (aa ab : Addr) (h : C01net.Mirrored ca cb aa ab) (sched : List TStep)
    (hs : TNet.Sched ca cb aa ab sched) (hnn : TNet.NoNoise sched) :
    Sim (trun ca cb aa ab sched).1 (nrun ca cb aa ab sched).1 (trun ca cb aa ab sched).2 (nrun ca cb aa ab sched).2 :=
  sim_run (C01net.mkSetting ca cb aa ab h) sched (fun s hm => ⟨stepOkS_of ca cb aa ab h s (hs s hm), hnn s hm⟩)

theorem noTimeout_eq (evs : List Ev) : (evs.all fun e => !TNet.isTimeoutErr e) = C01net.noTimeout evs := by
  simp only [C01net.noTimeout, noT]
  congr 1

theorem noiseOkS_of (ca cb : Cfg) (aa ab : Addr) (h : C01net.Mirrored ca cb aa ab) (s : TStep)
    (hs : TNet.stepOk ca cb aa ab s = true) : noiseOkS (C01net.mkSetting ca cb aa ab h) s := by
  cases s with
  | noise b m =>
    simp only [TNet.stepOk, Bool.not_eq_true'] at hs
    cases b <;> exact hs
  | _ => trivial

theorem sendable_of (ca cb : Cfg) (aa ab : Addr) (h : C01net.Mirrored ca cb aa ab) (sched : List TStep)
    (hs : TNet.Sched ca cb aa ab sched) (b : Bool) :
    Compose.Sendable (State.init ((C01net.mkSetting ca cb aa ab h).c b) ((C01net.mkSetting ca cb aa ab h).a b))
      (TNet.sentOf (!b) (trun ca cb aa ab sched).2) := by
  intro p hp
  have hp' : p ∈ TNet.sent (!b) (trun ca cb aa ab sched) := hp
  rw [sent_eq_program] at hp'
  obtain ⟨a, hmem, rfl⟩ := mem_programOf _ _ _ _ _ hp'
  have hok := hs _ hmem
  simp only [TNet.stepOk, Bool.and_eq_true, decide_eq_true_eq, Bool.or_eq_true, Bool.not_eq_true'] at hok
  obtain ⟨⟨⟨⟨-, h2⟩, h3⟩, h4⟩, h5⟩ := hok
  cases b
  · exact ⟨h2, show a.src.length ≤ ca.maxFrameSize by simpa using h5, h3⟩
  · exact ⟨h2, show a.src.length ≤ cb.maxFrameSize by simpa using h4, h3⟩

/-- no error event ⇒ the list of reported errors is empty -/
theorem errors_nil_of_noErr (evs : List Ev) (hn : noErr evs = true) :
    (evs.filterMap fun e => match e with | .err _ x => some x | _ => none) = [] := by
  rw [List.filterMap_eq_nil_iff]
  intro e he
  simp only [noErr, List.all_eq_true] at hn
  have := hn e he
  cases e <;> simp_all [Ev.isErr]

end Isotp.C13net
