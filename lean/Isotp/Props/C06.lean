import Isotp.Process
import Isotp.Spec.Segment
import Isotp.Proofs.Rx
/-
  C06 — "Reception anomalies raise the documented error and never poison the receiver."

  Property theorems (see DESIGN.md §6). Helper lemmas live in Isotp/Proofs/Rx.lean.

  One theorem per anomaly of `_process_rx` (model: `State.processRx`), each giving the exact events
  appended to the log (newest first: `s'.log = … :: s.log`), the state consequences, and what happens to
  the rx queue. The hypotheses speak about what the frame *decodes to*
  (`decode m.data rxPrefixSize = some ⟨pdu, CAN_DL, RX_DL⟩`), so each theorem covers every frame of its class;
  the `example`s instantiate them on concrete frames.
  Then: deliveries are never partial, the invariant of the reception FSM, and recovery.
-/
namespace Isotp.C06
open Isotp Isotp.State Isotp.Rx

/-! ## The anomalies -/

/-- Wrong sequence number while receiving: `WrongSequenceNumberError` (exactly that event), reception
    aborted: idle, buffer dropped, timer stopped, pending Flow Control cancelled, nothing delivered. -/
theorem wrong_sequence_number (s : State) (m : CanMsg) (sn : Nat) (data : Bytes) (cdl rdl : Nat)
    (hd : decode m.data s.addr.rx.rxPrefixSize = some ⟨.cf sn data, cdl, rdl⟩) (hs : s.rxState = .waitCf)
    (hsn : sn ≠ (s.lastSeq + 1) % 16) :
    (s.processRx m).1.log = .err s.now .WrongSequenceNumber :: s.log ∧
    (s.processRx m).1.rxState = .idle ∧ (s.processRx m).1.rxBuf = [] ∧
    (s.processRx m).1.rxQueue = s.rxQueue ∧ (s.processRx m).1.timerCf.start = none ∧
    (s.processRx m).1.pendingFc = false ∧ (s.processRx m).2 = (false, false) := by
  rw [processRx_cf_wrongSn_eq s m sn data cdl rdl hd hs hsn]
  exact ⟨rfl, rfl, rfl, rfl, rfl, rfl, rfl⟩

/-- Consecutive Frame while idle: `UnexpectedConsecutiveFrameError`, frame ignored, still idle. -/
theorem unexpected_consecutive_frame (s : State) (m : CanMsg) (sn : Nat) (data : Bytes) (cdl rdl : Nat)
    (hd : decode m.data s.addr.rx.rxPrefixSize = some ⟨.cf sn data, cdl, rdl⟩) (hs : s.rxState = .idle) :
    (s.processRx m).1.log = .err s.now .UnexpectedConsecutiveFrame :: s.log ∧
    (s.processRx m).1.rxState = .idle ∧ (s.processRx m).1.rxBuf = s.rxBuf ∧
    (s.processRx m).1.rxQueue = s.rxQueue ∧ (s.processRx m).1.pendingFc = s.pendingFc := by
  rw [processRx_cf_idle_eq s m sn data cdl rdl hd hs]
  exact ⟨rfl, hs, rfl, rfl, rfl⟩

/-- A Flow Control frame never touches the reception FSM: it is only stored in the mailbox for the
    transmit side (and an immediate transmit pass is requested). -/
theorem flow_control_leaves_rx_alone (s : State) (m : CanMsg) (st bs stm cdl rdl : Nat)
    (hd : decode m.data s.addr.rx.rxPrefixSize = some ⟨.fc st bs stm, cdl, rdl⟩) :
    s.processRx m = ({ s with lastFc := some ⟨st, bs, stm⟩ }, true, false) :=
  processRx_fc_eq s m st bs stm cdl rdl hd

/-- `UnexpectedFlowControlError`: raised by the transmit side when the mailbox holds a Flow Control
    and nothing is being transmitted; nothing else changes. -/
theorem unexpected_flow_control (s : State) (fc : FcFrame) (h : s.txState = .idle) :
    s.handleFc fc = { s with log := .err s.now .UnexpectedFlowControl :: s.log } :=
  handleFc_idle s fc h

/-- … at the level of a whole transmit pass (idle transmitter, empty queue): exactly that error is logged,
    the mailbox is emptied, no frame is emitted and the reception side is untouched. -/
theorem unexpected_flow_control_pass (s : State) (fc : FcFrame) (h1 : s.pendingFc = false)
    (h2 : s.lastFc = some fc) (hst : fc.status ≠ 2)
    (h3 : s.txState = .idle) (h4 : s.txQueue = []) (h5 : s.timerFc.timedOut s.now = false) :
    s.processTx.1.log = .err s.now .UnexpectedFlowControl :: s.log ∧ s.processTx.1.lastFc = none ∧
    s.processTx.2 = (none, false) ∧ RxSame s s.processTx.1 := by
  refine ⟨?_, ?_, ?_, rxSame_processTx s⟩ <;> rw [processTx_unexpected_fc s fc h1 h2 hst h3 h4 h5]

/-- Single Frame during a reception: the new message wins — its payload is delivered — then
    `ReceptionInterruptedWithSingleFrameError`; the old partial message is dropped (idle, empty buffer,
    timer stopped, pending Flow Control cancelled). -/
theorem interrupted_with_single_frame (s : State) (m : CanMsg) (len : Nat) (data : Bytes) (esc : Bool)
    (cdl rdl : Nat)
    (hd : decode m.data s.addr.rx.rxPrefixSize = some ⟨.sf len data esc, cdl, rdl⟩)
    (h8 : cdl ≤ 8 ∨ esc = true) (hs : s.rxState = .waitCf) :
    (s.processRx m).1.log = .err s.now .InterruptedWithSingleFrame :: .deliver data :: s.log ∧
    (s.processRx m).1.rxQueue = s.rxQueue ++ [data] ∧
    (s.processRx m).1.rxState = .idle ∧ (s.processRx m).1.rxBuf = [] ∧
    (s.processRx m).1.timerCf.start = none ∧ (s.processRx m).1.pendingFc = false := by
  rw [processRx_sf_waitCf_eq s m len data esc cdl rdl hd h8 hs]
  exact ⟨rfl, rfl, rfl, rfl, rfl, rfl⟩

/-- First Frame during a reception: `ReceptionInterruptedWithFirstFrameError` and a fresh session for the
    new message (old buffer replaced by the new First Frame's data, Flow Control ContinueToSend requested,
    nothing delivered). For the First Frame of a well-formed stream this is `C03.ff_starts_session`. -/
theorem interrupted_with_first_frame (s : State) (m : CanMsg) (len : Nat) (data : Bytes) (esc : Bool)
    (cdl rdl : Nat)
    (hd : decode m.data s.addr.rx.rxPrefixSize = some ⟨.ff len data esc, cdl, rdl⟩)
    (hv : validTxDl rdl = true) (hl : len ≤ s.cfg.maxFrameSize) (hs : s.rxState = .waitCf) :
    (s.processRx m).1.log = .err s.now .InterruptedWithFirstFrame :: s.log ∧
    (s.processRx m).1.rxState = .waitCf ∧ (s.processRx m).1.rxBuf = data ∧
    (s.processRx m).1.rxFrameLen = len ∧ (s.processRx m).1.lastSeq = 0 ∧ (s.processRx m).1.rxBlockCnt = 0 ∧
    (s.processRx m).1.actualRxdl = some rdl ∧
    (s.processRx m).1.pendingFc = true ∧ (s.processRx m).1.pendingFcStatus = some 0 ∧
    (s.processRx m).1.rxQueue = s.rxQueue := by
  rw [processRx_ff_ok_eq s m len data esc cdl rdl hd hv hl]
  simp [hs]

/-- … and when that First Frame starts a well-formed stream for `p`, the new session is the one of
    `C03`: the interrupting message will be received intact. -/
theorem interrupting_stream_wins (s : State) (m : CanMsg) (txDl : Nat) (pre p : Bytes)
    (hpre : pre.length = s.addr.rx.rxPrefixSize) (htx : Spec.validTxDl txDl)
    (hlen : p.length < 4294967296)
    (hseg : Spec.ffRoom (Spec.streamCfg txDl pre) p.length < p.length)
    (hmax : p.length ≤ s.cfg.maxFrameSize)
    (hm : m.data = pre ++ Spec.ffHeader p.length ++ p.take (Spec.ffRoom (Spec.streamCfg txDl pre) p.length))
    (hs : s.rxState = .waitCf) :
    RxSession (Spec.streamCfg txDl pre) (s.processRx m).1 p 0 ∧
    (s.processRx m).1.log = .err s.now .InterruptedWithFirstFrame :: s.log := by
  refine ⟨ff_starts_session s m txDl pre p hpre htx hlen hseg hmax hm, ?_⟩
  rw [ff_step_eq s m txDl pre p hpre htx hlen hseg hmax hm]
  simp [hs]

/-- Announced length above `max_frame_size` (receiver idle): `FrameTooLongError`, nothing is stored, the
    receiver stays idle with the timer stopped, and a Flow Control with status Overflow (2) is requested. -/
theorem frame_too_long (s : State) (m : CanMsg) (len : Nat) (data : Bytes) (esc : Bool) (cdl rdl : Nat)
    (hd : decode m.data s.addr.rx.rxPrefixSize = some ⟨.ff len data esc, cdl, rdl⟩)
    (hv : validTxDl rdl = true) (hl : len > s.cfg.maxFrameSize) (hs : s.rxState = .idle) :
    (s.processRx m).1.log = .err s.now .FrameTooLong :: s.log ∧
    (s.processRx m).1.rxState = .idle ∧ (s.processRx m).1.rxBuf = [] ∧
    (s.processRx m).1.pendingFc = true ∧ (s.processRx m).1.pendingFcStatus = some 2 ∧
    (s.processRx m).1.timerCf.start = none ∧ (s.processRx m).1.rxQueue = s.rxQueue ∧
    (s.processRx m).2 = (true, false) := by
  rw [processRx_ff_tooLong_eq s m len data esc cdl rdl hd hv hl]
  simp [hs, Timer.stop]

/-- the same during a reception: the interruption is reported too, and the old message is dropped -/
theorem frame_too_long_interrupting (s : State) (m : CanMsg) (len : Nat) (data : Bytes) (esc : Bool)
    (cdl rdl : Nat)
    (hd : decode m.data s.addr.rx.rxPrefixSize = some ⟨.ff len data esc, cdl, rdl⟩)
    (hv : validTxDl rdl = true) (hl : len > s.cfg.maxFrameSize) (hs : s.rxState = .waitCf) :
    (s.processRx m).1.log = .err s.now .InterruptedWithFirstFrame :: .err s.now .FrameTooLong :: s.log ∧
    (s.processRx m).1.rxState = .idle ∧ (s.processRx m).1.rxBuf = [] ∧
    (s.processRx m).1.pendingFc = true ∧ (s.processRx m).1.pendingFcStatus = some 2 ∧
    (s.processRx m).1.timerCf.start = none ∧ (s.processRx m).1.rxQueue = s.rxQueue := by
  rw [processRx_ff_tooLong_eq s m len data esc cdl rdl hd hv hl]
  simp [hs, Timer.stop]

/-- The Overflow Flow Control that follows: the next transmit pass emits `[prefix] 32 BS STmin` (padded),
    on the physical tx identifier, once. -/
theorem overflow_flow_control (s : State) (hv : s.cfg.valid = true) (hl : s.cfg.listen = false)
    (hp : s.pendingFc = true) (hst : s.pendingFcStatus = some 2) :
    ∃ dlc, s.processTx.2 =
      (some { id := s.addr.tx.txId .physical, ext := s.addr.tx.mode.is29,
              data := Spec.padFrame (Spec.TxCfg.of s.cfg s.addr)
                        (s.addr.tx.txPrefix ++ [0x32, u8 s.cfg.blocksize, u8 s.cfg.stmin]),
              dlc := dlc, fd := s.cfg.canFd, brs := s.cfg.brs }, true) ∧
      s.processTx.1.pendingFc = false ∧ s.processTx.1.timerCf = s.timerCf := by
  obtain ⟨dlc, hfc⟩ := makeFlowControl_eq s.cfg s.addr 2 hv
  have hb : s.cfg.blocksize ≤ 255 ∧ s.cfg.stmin ≤ 255 := by
    simp only [Cfg.valid, Bool.and_eq_true, decide_eq_true_eq] at hv
    exact ⟨hv.1.1.1.2, hv.1.1.1.1.2⟩
  rw [fcData_overflow _ _ hb.1 hb.2] at hfc
  refine ⟨dlc, ?_⟩
  rw [processTx_sends_fc s 2 _ hp hst hl hfc]
  exact ⟨rfl, rfl, by simp⟩

/-- Undecodable frame (`PDU.__init__` raises): `InvalidCanDataError` and the reception in progress, if
    any, is aborted (the code calls `_stop_receiving`): idle, empty buffer, nothing delivered. -/
theorem invalid_can_data (s : State) (m : CanMsg)
    (hd : decode m.data s.addr.rx.rxPrefixSize = none) :
    (s.processRx m).1.log = .err s.now .InvalidCanData :: s.log ∧
    (s.processRx m).1.rxState = .idle ∧ (s.processRx m).1.rxBuf = [] ∧
    (s.processRx m).1.rxQueue = s.rxQueue ∧ (s.processRx m).1.timerCf.start = none ∧
    (s.processRx m).1.pendingFc = false ∧ (s.processRx m).2 = (false, false) := by
  rw [processRx_none_eq s m hd]
  exact ⟨rfl, rfl, rfl, rfl, rfl, rfl, rfl⟩

/-- classes of undecodable frames: no byte after the address prefix; unknown PCI type (high nibble ≥ 4);
    Single Frame announcing more bytes than present; First Frame or Flow Control cut short -/
theorem undecodable_classes (pre : Bytes) :
    decode pre pre.length = none ∧
    (∀ b : Bytes, 4 ≤ byteAt b 0 / 16 → decode (pre ++ b) pre.length = none) ∧
    (∀ (n : Nat) (rest : Bytes), 1 ≤ n → n ≤ 15 → rest.length < n → decode (pre ++ u8 n :: rest) pre.length = none) ∧
    (∀ b0 : UInt8, b0.toNat / 16 = 1 → decode (pre ++ [b0]) pre.length = none) ∧
    (∀ b0 b1 : UInt8, b0.toNat / 16 = 3 → decode (pre ++ [b0, b1]) pre.length = none) := by
  refine ⟨decode_short _ _ (Nat.le_refl _), fun b h => decode_unknown_type pre b h, ?_, ?_, ?_⟩
  · intro n rest h1 h15 hr; rw [decode_prefix, decodeBody_sf_truncated n rest h1 h15 hr]; rfl
  · intro b0 h; rw [decode_prefix, decodeBody_ff_truncated b0 h]; rfl
  · intro b0 b1 h; rw [decode_prefix, decodeBody_fc_truncated b0 b1 h]; rfl

/-- Single Frame in a CAN FD frame longer than 8 bytes without the escape sequence:
    `MissingEscapeSequenceError`, frame ignored — the state (idle or receiving) is otherwise unchanged. -/
theorem missing_escape_sequence (s : State) (m : CanMsg) (len : Nat) (data : Bytes) (cdl rdl : Nat)
    (hd : decode m.data s.addr.rx.rxPrefixSize = some ⟨.sf len data false, cdl, rdl⟩) (h8 : cdl > 8) :
    s.processRx m = ({ s with log := .err s.now .MissingEscapeSequence :: s.log }, false, false) :=
  processRx_sf_noescape_eq s m len data cdl rdl hd h8

/-- First Frame whose RX_DL is not a valid link-layer size (receiver idle):
    `InvalidCanFdFirstFrameRXDL`, frame ignored, idle. -/
theorem invalid_first_frame_rxdl (s : State) (m : CanMsg) (len : Nat) (data : Bytes) (esc : Bool) (cdl rdl : Nat)
    (hd : decode m.data s.addr.rx.rxPrefixSize = some ⟨.ff len data esc, cdl, rdl⟩)
    (hv : validTxDl rdl = false) (hs : s.rxState = .idle) :
    (s.processRx m).1.log = .err s.now .InvalidCanFdFirstFrameRXDL :: s.log ∧
    (s.processRx m).1.rxState = .idle ∧ (s.processRx m).1.rxBuf = [] ∧
    (s.processRx m).1.rxQueue = s.rxQueue ∧ (s.processRx m).1.pendingFc = false ∧
    (s.processRx m).2 = (false, false) := by
  rw [processRx_ff_badRxdl_eq s m len data esc cdl rdl hd hv]
  simp [hs]

/-- the same during a reception: the interruption is reported too and the old message is dropped -/
theorem invalid_first_frame_rxdl_interrupting (s : State) (m : CanMsg) (len : Nat) (data : Bytes) (esc : Bool)
    (cdl rdl : Nat)
    (hd : decode m.data s.addr.rx.rxPrefixSize = some ⟨.ff len data esc, cdl, rdl⟩)
    (hv : validTxDl rdl = false) (hs : s.rxState = .waitCf) :
    (s.processRx m).1.log =
        .err s.now .InterruptedWithFirstFrame :: .err s.now .InvalidCanFdFirstFrameRXDL :: s.log ∧
    (s.processRx m).1.rxState = .idle ∧ (s.processRx m).1.rxBuf = [] ∧
    (s.processRx m).1.rxQueue = s.rxQueue := by
  rw [processRx_ff_badRxdl_eq s m len data esc cdl rdl hd hv]
  simp [hs]

/-- In-sequence Consecutive Frame whose RX_DL differs from the First Frame's and is smaller than the
    number of bytes still expected: `ChangingInvalidRXDLError`, frame ignored, session unchanged. -/
theorem changing_invalid_rxdl (s : State) (m : CanMsg) (sn : Nat) (data : Bytes) (cdl rdl : Nat)
    (hd : decode m.data s.addr.rx.rxPrefixSize = some ⟨.cf sn data, cdl, rdl⟩) (hs : s.rxState = .waitCf)
    (hsn : sn = (s.lastSeq + 1) % 16)
    (hne : s.actualRxdl ≠ some rdl) (hlt : rdl < s.rxFrameLen - s.rxBuf.length) :
    s.processRx m = ({ s with log := .err s.now .ChangingInvalidRXDL :: s.log }, false, false) :=
  processRx_cf_changingRxdl_eq s m sn data cdl rdl hd hs hsn hne hlt

/-- … in particular a session survives it -/
theorem changing_invalid_rxdl_keeps_session (g : Spec.TxCfg) (s : State) (m : CanMsg) (p : Bytes) (i : Nat)
    (sn : Nat) (data : Bytes) (cdl rdl : Nat) (hsess : RxSession g s p i)
    (hd : decode m.data s.addr.rx.rxPrefixSize = some ⟨.cf sn data, cdl, rdl⟩)
    (hsn : sn = (s.lastSeq + 1) % 16)
    (hne : s.actualRxdl ≠ some rdl) (hlt : rdl < s.rxFrameLen - s.rxBuf.length) :
    RxSession g (s.processRx m).1 p i := by
  rw [processRx_cf_changingRxdl_eq s m sn data cdl rdl hd hsess.state hsn hne hlt]
  exact ⟨hsess.state, hsess.frameLen, hsess.buf, hsess.more, hsess.seq, hsess.blk, hsess.rxdl⟩

/-- N_Cr timeout: `ConsecutiveFrameTimeoutError`, reception aborted, nothing delivered. -/
theorem consecutive_frame_timeout (s : State) (h : s.timerCf.timedOut s.now = true) :
    s.checkTimeoutsRx.log = .err s.now .ConsecutiveFrameTimeout :: s.log ∧
    s.checkTimeoutsRx.rxState = .idle ∧ s.checkTimeoutsRx.rxBuf = [] ∧
    s.checkTimeoutsRx.rxQueue = s.rxQueue := by
  rw [checkTimeoutsRx_expired s h]
  exact ⟨rfl, rfl, rfl, rfl⟩

/-- `stop_receiving()`: idle, empty buffer, timer stopped, pending Flow Control cancelled; nothing is
    delivered and nothing is logged. -/
theorem stop_receiving_clears (s : State) :
    s.stopReceiving.rxState = .idle ∧ s.stopReceiving.rxBuf = [] ∧ s.stopReceiving.timerCf.start = none ∧
    s.stopReceiving.pendingFc = false ∧ s.stopReceiving.rxQueue = s.rxQueue ∧ s.stopReceiving.log = s.log :=
  ⟨rfl, rfl, rfl, rfl, rfl, rfl⟩

/-! ## Deliveries are whole messages -/

/-- Whatever frame is processed, in a state satisfying the invariant, what gets delivered is: nothing; or
    the payload of the Single Frame just received; or — only while receiving, on an in-sequence
    Consecutive Frame — the completed buffer, whose length is exactly the announced message length and
    which extends the bytes buffered so far. An aborted message (buffer emptied by the anomaly
    theorems above) therefore never reaches the queue, in whole or in part. -/
theorem never_partial (s : State) (m : CanMsg) (h : RxInv s) :
    delivered (s.processRx m).1 = delivered s ∨
    (∃ len data esc cdl rdl, decode m.data s.addr.rx.rxPrefixSize = some ⟨.sf len data esc, cdl, rdl⟩ ∧
        delivered (s.processRx m).1 = delivered s ++ [data]) ∨
    (∃ sn data cdl rdl q, decode m.data s.addr.rx.rxPrefixSize = some ⟨.cf sn data, cdl, rdl⟩ ∧
        s.rxState = .waitCf ∧ delivered (s.processRx m).1 = delivered s ++ [q] ∧
        q.length = s.rxFrameLen ∧ s.rxBuf <+: q) :=
  processRx_deliver_cases s m h

/-- the rx queue receives exactly what the log records as delivered -/
theorem queue_matches_log (s : State) (m : CanMsg) :
    ∃ l, (s.processRx m).1.rxQueue = s.rxQueue ++ l ∧ delivered (s.processRx m).1 = delivered s ++ l :=
  processRx_queue_sync s m

/-! ## Invariant and recovery -/

/-- The invariant of the reception FSM (`RxInv`: idle ⇒ empty buffer and no RX_DL; receiving ⇒ buffer not
    longer than the announced length, which is at most `max_frame_size`, and RX_DL known) holds initially
    and is preserved by every operation: any received frame, transmit passes, timeout checks,
    `stop_receiving`, `reset`, `send`, `recv`, clock. -/
theorem invariant (c : Cfg) (a : Addr) :
    RxInv (State.init c a) ∧
    (∀ s m, RxInv s → RxInv (s.processRx m).1) ∧
    (∀ s, RxInv s → RxInv s.processTx.1) ∧
    (∀ s, RxInv s → RxInv s.checkTimeoutsRx) ∧
    (∀ s : State, RxInv s.stopReceiving) ∧ (∀ s : State, RxInv s.reset) ∧
    (∀ s x, RxInv s → RxInv (s.send x).1) ∧ (∀ s, RxInv s → RxInv s.recv.1) ∧
    (∀ s dt, RxInv s → RxInv (s.advance dt)) :=
  ⟨rxInv_init c a, rxInv_processRx, rxInv_processTx, rxInv_checkTimeoutsRx, rxInv_stopReceiving, rxInv_reset,
   fun s x h => rxInv_of_same h (rxSame_send s x), fun s h => rxInv_of_same h (rxSame_recv s),
   fun s dt h => rxInv_of_same h (rxSame_advance s dt)⟩

theorem reachable_invariant (c : Cfg) (a : Addr) (s : State) (h : Reach c a s) :
    RxInv s ∧ s.cfg = c ∧ s.addr = a := reach_inv h

/-- Recovery. After ANY history (`Reach`: any sequence of received frames — garbage included —, transmit
    passes, timeout checks, `stop_receiving()`, `reset()`, `send`, `recv`, clock advances), the next
    well-formed message (`p.length ≤ max_frame_size`), with arbitrary reception-neutral steps in between,
    is delivered intact, exactly once, and the receiver is idle afterwards. Nothing is delivered before
    its last frame. (Immediate from `C03.stream_delivers_interleaved`, which holds from any state: the
    First Frame / Single Frame handlers overwrite every field a previous reception may have left.) -/
theorem recovery (c : Cfg) (a : Addr) (s s' : State) (hr : Reach c a s) (pre p : Bytes) (frames : List Bytes)
    (hw : Spec.WellFormed pre p frames) (hpre : pre.length = a.rx.rxPrefixSize)
    (hmax : p.length ≤ c.maxFrameSize) (hf : Feeds s frames s') :
    delivered s' = delivered s ++ [p] ∧ s'.rxState = .idle :=
  Rx.recovery c a s s' hr pre p frames hw hpre hmax hf

theorem recovery_nothing_earlier (c : Cfg) (a : Addr) (s s'' : State) (hr : Reach c a s) (pre p : Bytes)
    (frames fs rest : List Bytes)
    (hw : Spec.WellFormed pre p frames) (hpre : pre.length = a.rx.rxPrefixSize)
    (hmax : p.length ≤ c.maxFrameSize) (hsplit : frames = fs ++ rest) (hne : rest ≠ [])
    (hf : Feeds s fs s'') : delivered s'' = delivered s := by
  obtain ⟨_, hc, ha⟩ := reach_inv hr
  exact wellFormed_nothing_earlier s s'' pre p frames fs rest hw (by rw [ha]; exact hpre) (by rw [hc]; exact hmax)
    hsplit hne hf

/-- Recovery, flow control part: from any reachable state the First Frame of the next well-formed
    segmented message is answered by the next transmit pass with the ContinueToSend Flow Control
    (configured blocksize and stmin, correctly addressed and padded). -/
theorem recovery_flow_control (c : Cfg) (a : Addr) (s : State) (hr : Reach c a s) (m : CanMsg) (txDl : Nat)
    (pre p : Bytes) (hv : c.valid = true) (hl : c.listen = false)
    (hpre : pre.length = a.rx.rxPrefixSize) (htx : Spec.validTxDl txDl)
    (hlen : p.length < 4294967296)
    (hseg : Spec.ffRoom (Spec.streamCfg txDl pre) p.length < p.length)
    (hmax : p.length ≤ c.maxFrameSize)
    (hm : m.data = pre ++ Spec.ffHeader p.length ++ p.take (Spec.ffRoom (Spec.streamCfg txDl pre) p.length)) :
    ∃ dlc, (s.processRx m).1.processTx.2 =
      (some { id := a.tx.txId .physical, ext := a.tx.mode.is29,
              data := Spec.padFrame (Spec.TxCfg.of c a) (a.tx.txPrefix ++ [0x30, u8 c.blocksize, u8 c.stmin]),
              dlc := dlc, fd := c.canFd, brs := c.brs }, true) := by
  obtain ⟨_, hc, ha⟩ := reach_inv hr
  subst hc ha
  obtain ⟨dlc, hfc⟩ := makeFlowControl_eq s.cfg s.addr 0 hv
  have hb : s.cfg.blocksize ≤ 255 ∧ s.cfg.stmin ≤ 255 := by
    simp only [Cfg.valid, Bool.and_eq_true, decide_eq_true_eq] at hv
    exact ⟨hv.1.1.1.2, hv.1.1.1.1.2⟩
  rw [fcData_cts _ _ hb.1 hb.2] at hfc
  have heq := ff_step_eq s m txDl pre p hpre htx hlen hseg hmax hm
  have hc : (s.processRx m).1.cfg = s.cfg := by rw [heq]
  have ha : (s.processRx m).1.addr = s.addr := by rw [heq]
  have hsend := processTx_sends_fc (s.processRx m).1 0 _ (by rw [heq]) (by rw [heq]) (by rw [hc]; exact hl)
    (by rw [hc, ha]; exact hfc)
  exact ⟨dlc, by rw [hsend]⟩

/-! ## Non-vacuity: concrete frames -/

def exHalf : Half :=
  { mode := .n11, txid := some 0x123, rxid := some 0x456, ta := none, sa := none, ae := none,
    physId := 0, funcId := 0, rxOnly := false, txOnly := false }
def exAddr : Addr := { tx := exHalf, rx := exHalf }
def s0 : State := State.init {} exAddr
def exMsg (d : Bytes) : CanMsg := { id := 0x456, ext := false, data := d }

/-- a reception in progress: First Frame announcing 20 bytes, 6 received -/
def sRx : State := (s0.processRx (exMsg [0x10, 0x14, 1, 2, 3, 4, 5, 6])).1
example : sRx.rxState = .waitCf ∧ sRx.rxBuf = [1, 2, 3, 4, 5, 6] ∧ sRx.lastSeq = 0 ∧ RxInv sRx := by
  refine ⟨by decide, by decide, by decide, ⟨fun h => absurd h (by decide), fun _ => by decide⟩⟩

-- wrong sequence number (2 instead of 1)
example : decode (exMsg [0x22, 7, 8, 9]).data sRx.addr.rx.rxPrefixSize = some ⟨.cf 2 [7, 8, 9], 4, 8⟩ := by decide
example : (sRx.processRx (exMsg [0x22, 7, 8, 9])).1.log = [.err 0 .WrongSequenceNumber] ∧
    (sRx.processRx (exMsg [0x22, 7, 8, 9])).1.rxState = .idle ∧
    (sRx.processRx (exMsg [0x22, 7, 8, 9])).1.rxBuf = [] := by decide
-- Consecutive Frame while idle
example : (s0.processRx (exMsg [0x21, 7, 8, 9])).1.log = [.err 0 .UnexpectedConsecutiveFrame] := by decide
-- Flow Control: only the mailbox changes; then UnexpectedFlowControl from the transmit pass
example : decode (exMsg [0x30, 0, 0]).data s0.addr.rx.rxPrefixSize = some ⟨.fc 0 0 0, 3, 8⟩ := by decide
example : (sRx.processRx (exMsg [0x30, 0, 0])).1 = { sRx with lastFc := some ⟨0, 0, 0⟩ } := by
  rw [flow_control_leaves_rx_alone sRx _ 0 0 0 3 8 (by decide)]
example : (s0.processRx (exMsg [0x30, 0, 0])).1.processTx.1.log = [.err 0 .UnexpectedFlowControl] := by decide
-- Single Frame interrupting
example : (sRx.processRx (exMsg [0x02, 0xAA, 0xBB])).1.log =
    [.err 0 .InterruptedWithSingleFrame, .deliver [0xAA, 0xBB]] ∧
    (sRx.processRx (exMsg [0x02, 0xAA, 0xBB])).1.rxQueue = [[0xAA, 0xBB]] ∧
    (sRx.processRx (exMsg [0x02, 0xAA, 0xBB])).1.rxBuf = [] := by decide
-- First Frame interrupting: the new message wins
example : (sRx.processRx (exMsg [0x10, 0x0A, 9, 9, 9, 9, 9, 9])).1.log = [.err 0 .InterruptedWithFirstFrame] ∧
    (sRx.processRx (exMsg [0x10, 0x0A, 9, 9, 9, 9, 9, 9])).1.rxBuf = [9, 9, 9, 9, 9, 9] ∧
    (sRx.processRx (exMsg [0x10, 0x0A, 9, 9, 9, 9, 9, 9])).1.rxFrameLen = 10 := by decide
-- announced length 4096 > max_frame_size 4095 (escape form of the First Frame), then the Overflow FC `32 08 00`
example : decode (exMsg [0x10, 0x00, 0x00, 0x00, 0x10, 0x00, 1, 2]).data s0.addr.rx.rxPrefixSize =
    some ⟨.ff 4096 [1, 2] true, 8, 8⟩ := by decide
example : (s0.processRx (exMsg [0x10, 0x00, 0x00, 0x00, 0x10, 0x00, 1, 2])).1.log = [.err 0 .FrameTooLong] ∧
    (s0.processRx (exMsg [0x10, 0x00, 0x00, 0x00, 0x10, 0x00, 1, 2])).1.pendingFcStatus = some 2 ∧
    (s0.processRx (exMsg [0x10, 0x00, 0x00, 0x00, 0x10, 0x00, 1, 2])).1.rxState = .idle := by decide
example : (s0.processRx (exMsg [0x10, 0x00, 0x00, 0x00, 0x10, 0x00, 1, 2])).1.processTx.2 =
    (some { id := 0x123, ext := false, data := [0x32, 8, 0], dlc := 3 }, true) := by decide
-- undecodable: empty, unknown type, truncated
example : decode (exMsg []).data 0 = none ∧ decode (exMsg [0x40, 1]).data 0 = none ∧
    decode (exMsg [0x05, 1, 2]).data 0 = none ∧ decode (exMsg [0x10]).data 0 = none := by decide
example : (sRx.processRx (exMsg [0x40, 1])).1.log = [.err 0 .InvalidCanData] ∧
    (sRx.processRx (exMsg [0x40, 1])).1.rxState = .idle ∧ (sRx.processRx (exMsg [0x40, 1])).1.rxBuf = [] := by
  decide
-- missing escape sequence: 12-byte frame, length in the first nibble
example : decode (exMsg [0x05, 1, 2, 3, 4, 5, 0, 0, 0, 0, 0, 0]).data 0 =
    some ⟨.sf 5 [1, 2, 3, 4, 5] false, 12, 12⟩ := by decide
example : (sRx.processRx (exMsg [0x05, 1, 2, 3, 4, 5, 0, 0, 0, 0, 0, 0])).1 =
    { sRx with log := [.err 0 .MissingEscapeSequence] } := by
  rw [missing_escape_sequence sRx _ 5 [1, 2, 3, 4, 5] 12 12 (by decide) (by decide)]; rfl
-- First Frame in a 9-byte frame (RX_DL 9 is not a link-layer size)
example : decode (exMsg [0x10, 0x14, 1, 2, 3, 4, 5, 6, 7]).data 0 = some ⟨.ff 20 [1, 2, 3, 4, 5, 6, 7] false, 9, 9⟩ := by
  decide
example : (s0.processRx (exMsg [0x10, 0x14, 1, 2, 3, 4, 5, 6, 7])).1.log = [.err 0 .InvalidCanFdFirstFrameRXDL] ∧
    (s0.processRx (exMsg [0x10, 0x14, 1, 2, 3, 4, 5, 6, 7])).1.rxState = .idle := by decide
-- changing RX_DL: First Frame with RX_DL 12 announcing 30 bytes, then an 8-byte Consecutive Frame
def sRx12 : State := (s0.processRx (exMsg [0x10, 30, 1, 2, 3, 4, 5, 6, 7, 8, 9, 10])).1
example : sRx12.actualRxdl = some 12 ∧ sRx12.rxFrameLen - sRx12.rxBuf.length = 20 := by decide
example : (sRx12.processRx (exMsg [0x21, 11, 12, 13, 14, 15, 16, 17])).1 =
    { sRx12 with log := [.err 0 .ChangingInvalidRXDL] } := by
  rw [changing_invalid_rxdl sRx12 _ 1 [11, 12, 13, 14, 15, 16, 17] 8 8 (by decide) (by decide) (by decide)
    (by decide) (by decide)]; rfl
-- N_Cr timeout
example : (sRx.advance 1000000001).timerCf.timedOut (sRx.advance 1000000001).now = true ∧
    (sRx.advance 1000000001).checkTimeoutsRx.log = [.err 1000000001 .ConsecutiveFrameTimeout] ∧
    (sRx.advance 1000000001).checkTimeoutsRx.rxState = .idle := by decide

/-- recovery on a concrete history: garbage, an aborted reception, a timeout, `stop_receiving()`, then a
    well-formed message is received intact and answered with `30 08 00` -/
def sBad : State :=
  ((((((s0.processRx (exMsg [0x40])).1.processRx (exMsg [0x10, 0x14, 1, 2, 3, 4, 5, 6])).1.processRx
    (exMsg [0x23, 0, 0])).1.processRx (exMsg [0x10, 0x14, 1, 2, 3, 4, 5, 6])).1.advance 2000000000).checkTimeoutsRx
    ).stopReceiving
example : Reach {} exAddr sBad :=
  .step (.step (.step (.step (.step (.step (.step .init (.rx _ _)) (.rx _ _)) (.rx _ _)) (.rx _ _)) (.advance _ _))
    (.timeouts _)) (.stopReceiving _)
def exP : Bytes := [1, 2, 3, 4, 5, 6, 7, 8, 9, 10]
def exFrames : List Bytes := [[0x10, 0x0A, 1, 2, 3, 4, 5, 6], [0x21, 7, 8, 9, 10, 0xCC, 0xCC, 0xCC]]
example : Spec.WellFormed [] exP exFrames :=
  Or.inr (Or.inr ⟨8, [0xCC, 0xCC, 0xCC], [], [7, 8, 9, 10], by decide, by decide, by decide, by decide, by decide,
    by decide, by decide⟩)
example : (feed sBad (exFrames.map exMsg)).rxQueue = sBad.rxQueue ++ [exP] ∧ sBad.rxQueue = [] := by decide
example : (sBad.processRx (exMsg [0x10, 0x0A, 1, 2, 3, 4, 5, 6])).1.processTx.2 =
    (some { id := 0x123, ext := false, data := [0x30, 8, 0], dlc := 3 }, true) := by decide

end Isotp.C06

#print axioms Isotp.C06.wrong_sequence_number
#print axioms Isotp.C06.unexpected_consecutive_frame
#print axioms Isotp.C06.flow_control_leaves_rx_alone
#print axioms Isotp.C06.unexpected_flow_control
#print axioms Isotp.C06.unexpected_flow_control_pass
#print axioms Isotp.C06.interrupted_with_single_frame
#print axioms Isotp.C06.interrupted_with_first_frame
#print axioms Isotp.C06.interrupting_stream_wins
#print axioms Isotp.C06.frame_too_long
#print axioms Isotp.C06.frame_too_long_interrupting
#print axioms Isotp.C06.overflow_flow_control
#print axioms Isotp.C06.invalid_can_data
#print axioms Isotp.C06.undecodable_classes
#print axioms Isotp.C06.missing_escape_sequence
#print axioms Isotp.C06.invalid_first_frame_rxdl
#print axioms Isotp.C06.invalid_first_frame_rxdl_interrupting
#print axioms Isotp.C06.changing_invalid_rxdl
#print axioms Isotp.C06.changing_invalid_rxdl_keeps_session
#print axioms Isotp.C06.consecutive_frame_timeout
#print axioms Isotp.C06.stop_receiving_clears
#print axioms Isotp.C06.never_partial
#print axioms Isotp.C06.queue_matches_log
#print axioms Isotp.C06.invariant
#print axioms Isotp.C06.reachable_invariant
#print axioms Isotp.C06.recovery
#print axioms Isotp.C06.recovery_nothing_earlier
#print axioms Isotp.C06.recovery_flow_control
