import Isotp.PyAgree.Exec2Bridge
import Isotp.PyAgree.EvalLemmas
import Isotp.PyAgree.MiscLemmas
import Isotp.Frame
/-!
  Source agreement for `FiniteByteGenerator.consume(size, enforce_exact)` (isotp/tools.py) against the model's `Req.consume`, in the
  SECOND semantics (the environment at a raise is kept: `_consumed` and `_depleted` are updated BEFORE `BadGeneratorError` is raised, and the
  model records exactly that in the request it returns together with `none`).

  The user's generator is the model's `src` list; `bytearray(itertools.islice(self._gen, size))` - dumped as the statement-level call
  `"data:=bytearray(itertools.islice)"` - is the primitive that pulls at most `size` values: it binds `data` to the values pulled and leaves
  the rest in the generator (history key `#gen`).  Values are bytes (DESIGN section 9).

  Main results (all for EVERY request `r`, size `n : Nat`, flag `exact`, environment `env` that shows `r` and binds the parameters, fuel `≥ 10`):
  * `consume_run`             : the run ends with `outcome r n exact (after env r n)`, `after` being an explicit environment;
  * `consume_agrees`          : the statement of the task (`ret (bytes data)` / `raised "BadGeneratorError"`, `Shows env' r'`, frame);
  * `consume_pulls_at_most`   : the generator loses exactly `min n |src|` values (no look-ahead beyond the request);
  * `consume_overrun_raises`  : `consumed + min n |src| > size` → `BadGeneratorError`;
  * `consume_fuel_tight`      : 9 units of fuel are NOT enough on the deepest path (short read with `enforce_exact`).
-/
namespace Isotp.PyAgree.GenConsume
open Isotp Isotp.Py Isotp.PyAgree

/-- what the generator will still yield, as one list value -/
def genPV (src : Bytes) : PV := .bytes src

/-- the environment shows the request `r` (the attributes `consume` reads and writes) -/
structure Shows (env : Env) (r : Req) : Prop where
  gen : env "#gen" = some (genPV r.src)
  size : env "self._size" = some (pint r.size)
  consumed : env "self._consumed" = some (pint r.consumed)
  depleted : env "self._depleted" = some (pbool r.depletedFlag)

/-- the pull primitive: takes `n` values off the generator -/
def pull (args : List PV) (env : Env) : Except PErr Env :=
  match args, env "#gen" with
  | [_, .sc (.py (.int n))], some (.bytes src) =>
      .ok ((env.set "data" (.bytes (src.take n.toNat))).set "#gen" (.bytes (src.drop n.toNat)))
  | _, _ => .error (.unsupported "islice")

def genMeths : Meths :=
  { fn := fun n _ _ => .error (.unsupported ("call " ++ n)),
    proc := fun n args env => if n = "data:=bytearray(itertools.islice)" then pull args env else .error (.unsupported ("call " ++ n)) }

theorem set_get (env : Env) (k : String) (v : PV) : (env.set k v) k = some v := by simp [Env.set]
theorem set_get_ne (env : Env) (k k' : String) (v : PV) (h : k' ≠ k) : (env.set k v) k' = env k' := by simp [Env.set, h]

/-! ## 0. stepping lemmas of the second semantics -/

theorem genMeths_proc (args : List PV) (env : Env) : genMeths.proc "data:=bytearray(itertools.islice)" args env = pull args env := rfl

theorem builtin_islice (a b : PV) : evalBuiltin "data:=bytearray(itertools.islice)" [a, b] = none := by simp [evalBuiltin]

theorem pull_nat (g : PV) (n : Nat) (env : Env) (src : Bytes) (h : env "#gen" = some (.bytes src)) :
    pull [g, pint n] env = .ok ((env.set "data" (.bytes (src.take n))).set "#gen" (.bytes (src.drop n))) := by
  unfold pull; rw [h]; rfl

/-- a simple statement that falls through -/
theorem simple_next (n : Nat) (M : Meths) (env env1 : Env) (s : PStmt) (hs : isSimple s = true)
    (h : execStmt M env s = .ok (.next env1)) : exec2S (n + 1) M env s = .ok (.next env1) := by
  rw [exec2S_simple n M env s hs]; unfold simple2; rw [h]; rfl

theorem cons_next (n : Nat) (M : Meths) (env env1 : Env) (s : PStmt) (rest : PBlock)
    (h : exec2S n M env s = .ok (.next env1)) : exec2B (n + 1) M env (.cons s rest) = exec2B n M env1 rest := by
  rw [exec2B_cons, h]

theorem cons_raised (n : Nat) (M : Meths) (env env1 : Env) (s : PStmt) (rest : PBlock) (c : String)
    (h : exec2S n M env s = .ok (.raised c env1)) : exec2B (n + 1) M env (.cons s rest) = .ok (.raised c env1) := by
  rw [exec2B_cons, h]

/-- `if c: t else: e` once the test is known -/
theorem ite_step (n : Nat) (M : Meths) (env : Env) (c : PExpr) (t e : PBlock) (b : Bool) (h : eval M env c = .ok (pbool b)) :
    exec2S (n + 1) M env (.ite c t e) = if b then exec2B n M env t else exec2B n M env e := by
  rw [exec2S_ite, h]; rfl

/-- the block `raise BadGeneratorError` -/
def raiseB : PBlock := .cons (.raise "BadGeneratorError") .nil
theorem raise_block (n : Nat) (M : Meths) (env : Env) :
    exec2B (n + 2) M env raiseB = .ok (.raised "BadGeneratorError" env) := by
  unfold raiseB; rw [exec2B_single n M env _ rfl]; rfl

/-- the block `return data` -/
def retB : PBlock := .cons (.ret (.var "data")) .nil
theorem ret_block (n : Nat) (M : Meths) (env : Env) (v : PV) (h : env "data" = some v) :
    exec2B (n + 2) M env retB = .ok (.ret v env) := by
  unfold retB; rw [exec2B_single n M env _ rfl]
  unfold simple2 execStmt
  simp only [eval, h, ok_bind]
  rfl

/-! ## 1. the five statements -/

def s1 : PStmt := .expr (.call "data:=bytearray(itertools.islice)" (.cons (.var "self._gen") (.cons (.var "size") .nil)))
def s2 : PStmt := .assign "self._consumed" (.binop .add (.var "self._consumed") (.call "len" (.cons (.var "data") .nil)))
def c3 : PExpr := .cmp .gt (.var "self._consumed") (.var "self._size")
def s3 : PStmt := .ite c3 raiseB .nil
def c4 : PExpr := .cmp .lt (.call "len" (.cons (.var "data") .nil)) (.var "size")
def s4a : PStmt := .assign "self._depleted" .tt
def s4b : PStmt := .ite (.var "enforce_exact") raiseB .nil
def s4body : PBlock := .cons s4a (.cons s4b .nil)
def s4 : PStmt := .ite c4 s4body .nil

/-- the dumped source is these five statements (breaks, as it should, when the source changes) -/
theorem consume_src : Src.FiniteByteGenerator_consume = .cons s1 (.cons s2 (.cons s3 (.cons s4 retB))) := rfl

/-- after the pull -/
def env1 (env : Env) (r : Req) (n : Nat) : Env :=
  (env.set "data" (.bytes (r.src.take n))).set "#gen" (.bytes (r.src.drop n))
/-- after `self._consumed += len(data)` -/
def env2 (env : Env) (r : Req) (n : Nat) : Env :=
  (env1 env r n).set "self._consumed" (pint ((r.consumed + (r.src.take n).length : Nat) : Int))
/-- after `self._depleted = True` -/
def env3 (env : Env) (r : Req) (n : Nat) : Env := (env2 env r n).set "self._depleted" (pbool true)

/-- The environment the call ends in (by `return` or by `raise`): the pull, the count, and - unless the size was already overrun - the
    depletion flag on a short read. -/
def after (env : Env) (r : Req) (n : Nat) : Env :=
  if r.size < r.consumed + (r.src.take n).length then env2 env r n
  else if (r.src.take n).length < n then env3 env r n
  else env2 env r n

/-- the lookups of the intermediate environments (stated once; no string `match` is ever unfolded) -/
theorem env1_lookups (env : Env) (r : Req) (n : Nat) :
    env1 env r n "data" = some (.bytes (r.src.take n)) ∧ env1 env r n "#gen" = some (.bytes (r.src.drop n)) ∧
    env1 env r n "self._consumed" = env "self._consumed" ∧ env1 env r n "self._size" = env "self._size" ∧
    env1 env r n "self._depleted" = env "self._depleted" ∧ env1 env r n "size" = env "size" ∧
    env1 env r n "enforce_exact" = env "enforce_exact" := by
  unfold env1
  refine ⟨?_, ?_, ?_, ?_, ?_, ?_, ?_⟩
  · rw [set_get_ne _ _ _ _ (by decide), set_get]
  · rw [set_get]
  all_goals rw [set_get_ne _ _ _ _ (by decide), set_get_ne _ _ _ _ (by decide)]

theorem env1_other (env : Env) (r : Req) (n : Nat) (k : String) (h1 : k ≠ "data") (h2 : k ≠ "#gen") : env1 env r n k = env k := by
  unfold env1; rw [set_get_ne _ _ _ _ h2, set_get_ne _ _ _ _ h1]

theorem env2_lookups (env : Env) (r : Req) (n : Nat) :
    env2 env r n "data" = some (.bytes (r.src.take n)) ∧ env2 env r n "#gen" = some (.bytes (r.src.drop n)) ∧
    env2 env r n "self._consumed" = some (pint ((r.consumed + (r.src.take n).length : Nat) : Int)) ∧
    env2 env r n "self._size" = env "self._size" ∧
    env2 env r n "self._depleted" = env "self._depleted" ∧ env2 env r n "size" = env "size" ∧
    env2 env r n "enforce_exact" = env "enforce_exact" := by
  obtain ⟨h1, h2, -, h4, h5, h6, h7⟩ := env1_lookups env r n
  unfold env2
  refine ⟨?_, ?_, set_get _ _ _, ?_, ?_, ?_, ?_⟩
  all_goals rw [set_get_ne _ _ _ _ (by decide)]; assumption

theorem env2_other (env : Env) (r : Req) (n : Nat) (k : String) (h1 : k ≠ "data") (h2 : k ≠ "#gen") (h3 : k ≠ "self._consumed") :
    env2 env r n k = env k := by
  unfold env2; rw [set_get_ne _ _ _ _ h3, env1_other env r n k h1 h2]

theorem env3_lookups (env : Env) (r : Req) (n : Nat) :
    env3 env r n "data" = some (.bytes (r.src.take n)) ∧ env3 env r n "#gen" = some (.bytes (r.src.drop n)) ∧
    env3 env r n "self._consumed" = some (pint ((r.consumed + (r.src.take n).length : Nat) : Int)) ∧
    env3 env r n "self._size" = env "self._size" ∧
    env3 env r n "self._depleted" = some (pbool true) ∧ env3 env r n "size" = env "size" ∧
    env3 env r n "enforce_exact" = env "enforce_exact" := by
  obtain ⟨h1, h2, h3, h4, -, h6, h7⟩ := env2_lookups env r n
  unfold env3
  refine ⟨?_, ?_, ?_, ?_, set_get _ _ _, ?_, ?_⟩
  all_goals rw [set_get_ne _ _ _ _ (by decide)]; assumption

theorem env3_other (env : Env) (r : Req) (n : Nat) (k : String) (h1 : k ≠ "data") (h2 : k ≠ "#gen") (h3 : k ≠ "self._consumed")
    (h4 : k ≠ "self._depleted") : env3 env r n k = env k := by
  unfold env3; rw [set_get_ne _ _ _ _ h4, env2_other env r n k h1 h2 h3]

/-- statement 1: the pull -/
theorem stmt1 (env : Env) (r : Req) (n : Nat) (g : PV) (hs : Shows env r) (hn : env "size" = some (pint n))
    (hg : env "self._gen" = some g) : execStmt genMeths env s1 = .ok (.next (env1 env r n)) := by
  have hp := pull_nat g n env r.src hs.gen
  unfold s1 execStmt
  simp only [evalArgs, eval, hg, hn, ok_bind, builtin_islice, genMeths_proc, hp]
  rfl

/-- statement 2: `self._consumed += len(data)` -/
theorem stmt2 (env : Env) (r : Req) (n : Nat) (hs : Shows env r) :
    execStmt genMeths (env1 env r n) s2 = .ok (.next (env2 env r n)) := by
  obtain ⟨h1, -, h3, -, -, -, -⟩ := env1_lookups env r n
  rw [hs.consumed] at h3
  unfold s2 execStmt env2
  simp only [evalArgs, eval, h1, h3, ok_bind, builtin_len_bytes, evalBinop_add, Int.natCast_add]

/-- the test of statement 3 -/
theorem test3 (env : Env) (r : Req) (n : Nat) (hs : Shows env r) :
    eval genMeths (env2 env r n) c3 = .ok (pbool (decide (r.size < r.consumed + (r.src.take n).length))) := by
  obtain ⟨-, -, h3, h4, -, -, -⟩ := env2_lookups env r n
  rw [hs.size] at h4
  unfold c3
  simp only [eval, h3, h4, ok_bind, evalCmp_gt_pint, Int.ofNat_lt]

/-- the test of statement 4 (in any environment with these two lookups) -/
theorem test4 (e : Env) (d : Bytes) (n : Nat) (h1 : e "data" = some (.bytes d)) (h2 : e "size" = some (pint n)) :
    eval genMeths e c4 = .ok (pbool (decide (d.length < n))) := by
  unfold c4
  simp only [eval, evalArgs, h1, h2, ok_bind, builtin_len_bytes, evalCmp_lt_pint, Int.ofNat_lt]

/-- statement 4a: `self._depleted = True` -/
theorem stmt4a (env : Env) (r : Req) (n : Nat) : execStmt genMeths (env2 env r n) s4a = .ok (.next (env3 env r n)) := by
  unfold s4a execStmt env3
  simp only [eval, ok_bind]

/-! ## 2. the result -/

/-- the outcome of the call in the final environment `e`: the model's verdict read as `return data` / `raise BadGeneratorError` -/
def outcome (r : Req) (n : Nat) (exact : Bool) (e : Env) : Out :=
  match (r.consume n exact).2 with
  | some data => .ret (.bytes data) e
  | none => .raised "BadGeneratorError" e

/-- the model, case by case -/
theorem consume_over (r : Req) (n : Nat) (exact : Bool) (h : r.size < r.consumed + (r.src.take n).length) :
    r.consume n exact = ({ r with src := r.src.drop n, consumed := r.consumed + (r.src.take n).length }, none) := by
  unfold Req.consume
  simp only [gt_iff_lt, h, if_true]
theorem consume_short (r : Req) (n : Nat) (exact : Bool) (h : ¬ r.size < r.consumed + (r.src.take n).length)
    (h2 : (r.src.take n).length < n) :
    r.consume n exact =
      ({ r with src := r.src.drop n, consumed := r.consumed + (r.src.take n).length, depletedFlag := true },
       if exact then none else some (r.src.take n)) := by
  unfold Req.consume
  simp only [gt_iff_lt, h, h2, if_true, if_false]
  cases exact <;> rfl
theorem consume_full (r : Req) (n : Nat) (exact : Bool) (h : ¬ r.size < r.consumed + (r.src.take n).length)
    (h2 : ¬ (r.src.take n).length < n) :
    r.consume n exact = ({ r with src := r.src.drop n, consumed := r.consumed + (r.src.take n).length }, some (r.src.take n)) := by
  unfold Req.consume
  simp only [gt_iff_lt, h, h2, if_false]

/-- **the run**: with at least 10 units of fuel (the nesting depth of the body: 5 statements, the fourth nested twice) the call ends in the
    explicit environment `after env r n`, by `return data` or by `raise BadGeneratorError` as the model says. -/
theorem consume_run (r : Req) (n : Nat) (exact : Bool) (env : Env) (g : PV) (k : Nat) (hk : 10 ≤ k)
    (hs : Shows env r) (hn : env "size" = some (pint n)) (he : env "enforce_exact" = some (pbool exact))
    (hg : env "self._gen" = some g) :
    run2 k genMeths env Src.FiniteByteGenerator_consume = .ok (outcome r n exact (after env r n)) := by
  obtain ⟨m, rfl⟩ : ∃ m, k = m + 10 := ⟨k - 10, by omega⟩
  unfold run2
  rw [consume_src,
    cons_next (m + 9) _ _ _ _ _ (simple_next (m + 8) _ _ _ _ rfl (stmt1 env r n g hs hn hg)),
    cons_next (m + 8) _ _ _ _ _ (simple_next (m + 7) _ _ _ _ rfl (stmt2 env r n hs))]
  have h3 : exec2S (m + 7) genMeths (env2 env r n) s3 =
      if decide (r.size < r.consumed + (r.src.take n).length) then exec2B (m + 6) genMeths (env2 env r n) raiseB
      else exec2B (m + 6) genMeths (env2 env r n) .nil :=
    ite_step (m + 6) genMeths (env2 env r n) c3 raiseB .nil _ (test3 env r n hs)
  by_cases hover : r.size < r.consumed + (r.src.take n).length
  · -- the declared size is overrun
    simp only [hover, decide_true, if_true] at h3
    rw [raise_block (m + 4)] at h3
    rw [cons_raised (m + 7) _ _ _ _ _ _ h3]
    simp only [outcome, after, consume_over r n exact hover, hover, if_true]
  · simp only [hover, decide_false, Bool.false_eq_true, if_false] at h3
    rw [exec2B_nil (m + 5)] at h3
    rw [cons_next (m + 7) _ _ _ _ _ h3]
    obtain ⟨hd2, -, -, -, -, hsz2, hex2⟩ := env2_lookups env r n
    rw [hn] at hsz2
    rw [he] at hex2
    have h4 : exec2S (m + 6) genMeths (env2 env r n) s4 =
        if decide ((r.src.take n).length < n) then exec2B (m + 5) genMeths (env2 env r n) s4body
        else exec2B (m + 5) genMeths (env2 env r n) .nil :=
      ite_step (m + 5) genMeths (env2 env r n) c4 s4body .nil _ (test4 _ _ n hd2 hsz2)
    by_cases hshort : (r.src.take n).length < n
    · -- short read
      simp only [hshort, decide_true, if_true] at h4
      rw [show s4body = .cons s4a (.cons s4b .nil) from rfl,
        cons_next (m + 4) _ _ _ _ _ (simple_next (m + 3) _ _ _ _ rfl (stmt4a env r n))] at h4
      obtain ⟨hd3, -, -, -, -, -, hex3⟩ := env3_lookups env r n
      rw [he] at hex3
      have h4b : exec2S (m + 3) genMeths (env3 env r n) s4b =
          if exact then exec2B (m + 2) genMeths (env3 env r n) raiseB else exec2B (m + 2) genMeths (env3 env r n) .nil :=
        ite_step (m + 2) genMeths (env3 env r n) (.var "enforce_exact") raiseB .nil exact (by simp only [eval, hex3])
      cases exact with
      | true =>
        simp only [if_true] at h4b
        rw [raise_block m] at h4b
        rw [cons_raised (m + 3) _ _ _ _ _ _ h4b] at h4
        rw [cons_raised (m + 6) _ _ _ _ _ _ h4]
        simp only [outcome, after, consume_short r n true hover hshort, hover, hshort, if_true, if_false]
      | false =>
        simp only [Bool.false_eq_true, if_false] at h4b
        rw [exec2B_nil (m + 1)] at h4b
        rw [cons_next (m + 3) _ _ _ _ _ h4b, exec2B_nil (m + 2)] at h4
        rw [cons_next (m + 6) _ _ _ _ _ h4, ret_block (m + 4) _ _ _ hd3]
        simp only [outcome, after, consume_short r n false hover hshort, hover, hshort, if_true, if_false, Bool.false_eq_true]
    · -- the request is served in full
      simp only [hshort, decide_false, Bool.false_eq_true, if_false] at h4
      rw [exec2B_nil (m + 4)] at h4
      rw [cons_next (m + 6) _ _ _ _ _ h4, ret_block (m + 4) _ _ _ hd2]
      simp only [outcome, after, consume_full r n exact hover hshort, hover, hshort, if_false]

/-- the final environment shows the request the model returns - WITH the bookkeeping done before a raise -/
theorem after_shows (r : Req) (n : Nat) (exact : Bool) (env : Env) (hs : Shows env r) :
    Shows (after env r n) (r.consume n exact).1 := by
  obtain ⟨-, a2, a3, a4, a5, -, -⟩ := env2_lookups env r n
  obtain ⟨-, b2, b3, b4, b5, -, -⟩ := env3_lookups env r n
  rw [hs.size] at a4 b4
  rw [hs.depleted] at a5
  unfold after
  by_cases hover : r.size < r.consumed + (r.src.take n).length
  · rw [consume_over r n exact hover, if_pos hover]
    exact ⟨a2, a4, a3, a5⟩
  · rw [if_neg hover]
    by_cases hshort : (r.src.take n).length < n
    · rw [consume_short r n exact hover hshort, if_pos hshort]
      exact ⟨b2, b4, b3, b5⟩
    · rw [consume_full r n exact hover hshort, if_neg hshort]
      exact ⟨a2, a4, a3, a5⟩

/-- nothing else is touched -/
theorem after_frame (r : Req) (n : Nat) (env : Env) (key : String) (h1 : key ≠ "data") (h2 : key ≠ "#gen")
    (h3 : key ≠ "self._consumed") (h4 : key ≠ "self._depleted") : after env r n key = env key := by
  unfold after
  split
  · exact env2_other env r n key h1 h2 h3
  · split
    · exact env3_other env r n key h1 h2 h3 h4
    · exact env2_other env r n key h1 h2 h3

/-- `data` is bound to what was pulled and the generator keeps the rest, whatever the outcome -/
theorem after_data_gen (r : Req) (n : Nat) (env : Env) :
    after env r n "data" = some (.bytes (r.src.take n)) ∧ after env r n "#gen" = some (.bytes (r.src.drop n)) := by
  obtain ⟨a1, a2, -⟩ := env2_lookups env r n
  obtain ⟨b1, b2, -⟩ := env3_lookups env r n
  unfold after
  split
  · exact ⟨a1, a2⟩
  · split
    · exact ⟨b1, b2⟩
    · exact ⟨a1, a2⟩

/-- **`FiniteByteGenerator.consume` agrees with `Req.consume`**: for every request, size, flag, every environment that shows the request and
    binds the parameters, and every fuel `≥ 10`: with `(r', res) := r.consume n exact`,
    * `res = some data`: the call returns `data`;  * `res = none`: the call raises `BadGeneratorError`;
    in both cases in an environment that shows `r'` (so the bookkeeping done before the raise is visible), and every key other than `data`,
    `#gen`, `self._consumed`, `self._depleted` is unchanged. -/
theorem consume_agrees (r : Req) (n : Nat) (exact : Bool) (env : Env) (g : PV) (k : Nat) (hk : 10 ≤ k)
    (hs : Shows env r) (hn : env "size" = some (pint n)) (he : env "enforce_exact" = some (pbool exact))
    (hg : env "self._gen" = some g) :
    ∃ env',
      (∀ data, (r.consume n exact).2 = some data →
        run2 k genMeths env Src.FiniteByteGenerator_consume = .ok (.ret (.bytes data) env')) ∧
      ((r.consume n exact).2 = none →
        run2 k genMeths env Src.FiniteByteGenerator_consume = .ok (.raised "BadGeneratorError" env')) ∧
      Shows env' (r.consume n exact).1 ∧
      (∀ key, key ≠ "data" → key ≠ "#gen" → key ≠ "self._consumed" → key ≠ "self._depleted" → env' key = env key) := by
  have hrun := consume_run r n exact env g k hk hs hn he hg
  refine ⟨after env r n, ?_, ?_, after_shows r n exact env hs, fun key => after_frame r n env key⟩
  · intro data hd
    rw [hrun]; unfold outcome; rw [hd]
  · intro hd
    rw [hrun]; unfold outcome; rw [hd]

/-! ## 3. corollaries used by the properties -/

/-- what the model's request keeps in the generator -/
theorem consume_src_drop (r : Req) (n : Nat) (exact : Bool) : (r.consume n exact).1.src = r.src.drop n := by
  by_cases hover : r.size < r.consumed + (r.src.take n).length
  · rw [consume_over r n exact hover]
  · by_cases hshort : (r.src.take n).length < n
    · rw [consume_short r n exact hover hshort]
    · rw [consume_full r n exact hover hshort]

/-- **C17, no look-ahead**: whatever the outcome (return or raise), the call ends in an environment where the generator has lost exactly
    `min n |src|` values - the first ones, which are what `data` holds; the model's request says the same. -/
theorem consume_pulls_at_most (r : Req) (n : Nat) (exact : Bool) (env : Env) (g : PV) (k : Nat) (hk : 10 ≤ k)
    (hs : Shows env r) (hn : env "size" = some (pint n)) (he : env "enforce_exact" = some (pbool exact))
    (hg : env "self._gen" = some g) :
    ∃ o rest, run2 k genMeths env Src.FiniteByteGenerator_consume = .ok o ∧
      o.env "#gen" = some (.bytes rest) ∧ o.env "data" = some (.bytes (r.src.take n)) ∧
      r.src = r.src.take n ++ rest ∧ rest.length + min n r.src.length = r.src.length ∧
      (r.consume n exact).1.src = rest := by
  have hrun := consume_run r n exact env g k hk hs hn he hg
  obtain ⟨hd, hgen⟩ := after_data_gen r n env
  have henv : (outcome r n exact (after env r n)).env = after env r n := by
    unfold outcome; cases (r.consume n exact).2 <;> rfl
  refine ⟨_, r.src.drop n, hrun, ?_, ?_, (List.take_append_drop n r.src).symm, ?_, consume_src_drop r n exact⟩
  · rw [henv]; exact hgen
  · rw [henv]; exact hd
  · rw [List.length_drop]; omega

/-- **overrun**: if what was consumed so far plus what this call can pull exceeds the declared size, the call raises `BadGeneratorError`
    (it does pull: `consume` itself does not clip `size` to `remaining_size()`; its callers do). -/
theorem consume_overrun_raises (r : Req) (n : Nat) (exact : Bool) (env : Env) (g : PV) (k : Nat) (hk : 10 ≤ k)
    (hs : Shows env r) (hn : env "size" = some (pint n)) (he : env "enforce_exact" = some (pbool exact))
    (hg : env "self._gen" = some g) (hover : r.consumed + min n r.src.length > r.size) :
    (r.consume n exact).2 = none ∧
    ∃ env', run2 k genMeths env Src.FiniteByteGenerator_consume = .ok (.raised "BadGeneratorError" env') ∧
      Shows env' (r.consume n exact).1 ∧ (r.consume n exact).1.consumed = r.consumed + min n r.src.length := by
  have hover' : r.size < r.consumed + (r.src.take n).length := by rw [List.length_take]; exact hover
  have hc := consume_over r n exact hover'
  have hrun := consume_run r n exact env g k hk hs hn he hg
  have hnone : (r.consume n exact).2 = none := by rw [hc]
  refine ⟨hnone, after env r n, ?_, after_shows r n exact env hs, ?_⟩
  · rw [hrun]; unfold outcome; rw [hnone]
  · rw [hc]; simp only [List.length_take]

/-- conversely, a call that does not overrun and is served in full returns exactly the `n` values asked for -/
theorem consume_full_returns (r : Req) (n : Nat) (exact : Bool) (h1 : r.consumed + n ≤ r.size) (h2 : n ≤ r.src.length) :
    (r.consume n exact).2 = some (r.src.take n) := by
  have hl : (r.src.take n).length = n := by rw [List.length_take]; omega
  rw [consume_full r n exact (by omega) (by omega)]

/-! ## 4. the hypotheses are satisfiable; the fuel constant is tight -/

/-- an environment that shows `r` and binds the parameters -/
def envOfReq (r : Req) (n : Nat) (exact : Bool) : Env := fun k =>
  match k with
  | "#gen" => some (genPV r.src)
  | "self._gen" => some (.meth "generator")
  | "self._size" => some (pint r.size)
  | "self._consumed" => some (pint r.consumed)
  | "self._depleted" => some (pbool r.depletedFlag)
  | "size" => some (pint n)
  | "enforce_exact" => some (pbool exact)
  | _ => none

theorem envOfReq_shows (r : Req) (n : Nat) (exact : Bool) : Shows (envOfReq r n exact) r := ⟨rfl, rfl, rfl, rfl⟩

example (r : Req) (n : Nat) (exact : Bool) :
    ∃ env', run2 10 genMeths (envOfReq r n exact) Src.FiniteByteGenerator_consume = .ok (outcome r n exact env') ∧
      Shows env' (r.consume n exact).1 :=
  ⟨_, consume_run r n exact _ (.meth "generator") 10 (Nat.le_refl _) (envOfReq_shows r n exact) rfl rfl rfl,
    after_shows r n exact _ (envOfReq_shows r n exact)⟩

/-- a short read with `enforce_exact`: the deepest path of the body.  9 units of fuel run out; 10 end the call with `BadGeneratorError`, in an
    environment where `_consumed` and `_depleted` are already updated. -/
theorem consume_fuel_tight :
    let r : Req := { id := 0, size := 5, src := [1, 2] }
    run2 9 genMeths (envOfReq r 3 true) Src.FiniteByteGenerator_consume = .error .outOfFuel ∧
    ∃ env', run2 10 genMeths (envOfReq r 3 true) Src.FiniteByteGenerator_consume = .ok (.raised "BadGeneratorError" env') ∧
      env' "self._consumed" = some (pint 2) ∧ env' "self._depleted" = some (pbool true) ∧ env' "#gen" = some (.bytes []) :=
  ⟨rfl, _, rfl, rfl, rfl, rfl⟩

end Isotp.PyAgree.GenConsume

#print axioms Isotp.PyAgree.GenConsume.consume_run
#print axioms Isotp.PyAgree.GenConsume.after_shows
#print axioms Isotp.PyAgree.GenConsume.after_frame
#print axioms Isotp.PyAgree.GenConsume.consume_agrees
#print axioms Isotp.PyAgree.GenConsume.consume_pulls_at_most
#print axioms Isotp.PyAgree.GenConsume.consume_overrun_raises
#print axioms Isotp.PyAgree.GenConsume.consume_full_returns
#print axioms Isotp.PyAgree.GenConsume.consume_fuel_tight
