import Isotp.Generated
import Isotp.Pdu
/-
  Leaf: the model's STmin decoding (`validStmin`, `stminNs`) equals, on all 256 bytes, what the code
  computes (`PDU(...)` accept/reject, then `Timer.set_timeout(stmin_sec)` in integer nanoseconds).
-/
namespace Isotp.Agree

def stminCode (b : Nat) : Nat := if validStmin b then stminNs b else 0xFFFFFFFF

theorem stmin_agree : ∀ b : Fin 256, stminCode b.val = Generated.entry Generated.stminTable 4 b.val := by
  decide +kernel

end Isotp.Agree
#print axioms Isotp.Agree.stmin_agree
