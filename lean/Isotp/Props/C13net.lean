import Isotp.Proofs.TNetGlue
/-
  C13, network level — "Threaded layer: concurrent senders get exactly-once, per-thread-ordered delivery. With start()
  called on both peers … payloads sent concurrently from several user threads are each delivered to the peer exactly
  once and unmodified, in the order each thread sent them, and no error is reported. This holds regardless of thread
  scheduling, callback latency, read_timeout, and unrelated, error or remote frames on the bus."

  Props/C13.lean proves the single-peer half (the glue between user threads, relay thread, worker thread and bus
  neither loses, duplicates nor reorders anything); Props/C01net.lean / C01netfc.lean prove that two logic layers
  joined by FIFO links deliver correctly under every schedule of the network `Isotp.Net`. This file composes them.

  System (`Isotp.TNet`, Proofs/TNetDefs.lean): two threaded layers `TL` (Isotp/Threaded.lean), both started, wired back
  to back — the frames the logic layer of a peer hands to `txfn` during a worker iteration are put, in order, on the bus
  the OTHER peer's relay thread reads. A thread schedule is an ARBITRARY `List TStep`: `userSend b a` / `userRecv b`
  (user threads of peer `b`; several user threads = any interleaving of their steps), `relay b` (`TL.relayStep`),
  `worker b` (`TL.workerStep`: takes the frames in front of the first wake-up token, runs `process()`), `noise b m`
  (somebody else puts a frame on the bus `b` reads), `tick dt`. "Regardless of thread scheduling, callback latency and
  read_timeout" is the universal quantification over that list (Props/C13.lean); "unrelated frames" are the `noise`
  steps (frames the address filter of the reading peer rejects; error and remote frames never reach the layer:
  `C13.adapter_rx_none`). Clock and event history are instrumented exactly as in `Net.onLayer`.

  * `tnet_simulates_net` — every thread schedule without foreign frames IS a schedule of `Isotp.Net`: with the
    explicitly constructed `toNOps` (`userSend ↦ send`, `userRecv ↦ recv`, `tick ↦ tick`, `relay ↦` nothing,
    `worker b ↦ deliver (1-b) k ; proc b`, `k` = frames in front of the first token) the network run has the same
    layers (= the two logic layers, bit for bit), the link of layer `b` = relay queue (tokens dropped) ++ bus of the other
    peer, same clock, same events, same accepted and delivered payloads.
  * `delivery` — hence (`C01net.safety_timeouts`, `only_unexpected_fc`): if neither logic layer reports a timeout, what
    each peer delivered (recv results ++ rx queue) is a PREFIX of what `send()` accepted on the other peer in
    linearisation order — byte-identical, each at most once, nothing else — and only `UnexpectedFlowControlError` could
    have been reported; `delivery_clean` (`C01net.no_protocol_error`): no error at all.
  * `delivery_noise` — the same delivery statement for EVERY thread schedule, foreign frames included (proved directly
    on `TNet` in Proofs/TNetNoise.lean from the per-layer invariants of the network proof and a conservation law
    filtered by the address filter). OPEN with foreign frames: that `UnexpectedFlowControlError` is not reported either
    (`C13net_clean_noise_statement`, `clean_noise_partial`).
  * `thread_linearised`, `per_thread_order` — the accepted payloads are the acceptable `userSend` steps in schedule
    order; the payloads of one user thread arrive in that thread's program order.
  * `no_lost_wakeup_net` — an accepted `send` leaves a token and its request; the next worker iteration of that peer
    does not block and runs `process()` with the request in the queue (in the simulation: a `proc` of that layer).

  Not claimed: liveness ("every accepted payload IS eventually delivered" needs fairness of the schedule and timing
  assumptions; Props/C01live.lean does it for the cooperative schedule of `Isotp.Net`). The concrete schedules at the
  end show complete delivery. The bridge to the definitions of Props/C13.lean (`accepted`, `per_thread_order`, `wakeup`)
  is Proofs/TNetC13.lean (the two proof libraries cannot be imported together).
-/
namespace Isotp.C13net
open Isotp Isotp.State Isotp.NetP Isotp.TNetP

/-- **tnet_simulates_net.** Two started threaded layers with mirrored addresses, wired through two FIFO buses; any
    thread schedule (user threads calling `send` / `recv` on either peer, relay iterations, worker iterations, clock
    ticks — no foreign frames here, see `delivery_noise`). Then the run is a run of the two-layer network `Isotp.Net` on
    the explicitly constructed schedule `toNOps` (an admissible `C01net.Sched`):
    * the layers of the network are the logic layers of the two peers (same state, bit for bit);
    * the link of layer 0 holds the frames in flight towards peer 1 — its relay queue (wake-up tokens dropped) followed
      by its bus — and symmetrically;
    * same clock; same events, same accepted payloads, same delivered payloads for both peers. -/
theorem tnet_simulates_net (ca cb : Cfg) (aa ab : Addr) (h : C01net.Mirrored ca cb aa ab) (sched : List TStep)
    (hs : TNet.Sched ca cb aa ab sched) (hnn : TNet.NoNoise sched) :
    C01net.Sched ca cb (toNOps ca cb aa ab sched) ∧
    (nrun ca cb aa ab sched).1.layers =
      #[((trun ca cb aa ab sched).1.get false).core, ((trun ca cb aa ab sched).1.get true).core] ∧
    (nrun ca cb aa ab sched).1.outbox =
      #[(trun ca cb aa ab sched).1.inFlight true, (trun ca cb aa ab sched).1.inFlight false] ∧
    (nrun ca cb aa ab sched).1.now = (trun ca cb aa ab sched).1.now ∧
    ∀ b, C01net.events (idx b) (nrun ca cb aa ab sched) = TNet.events b (trun ca cb aa ab sched) ∧
      C01net.sent (idx b) (nrun ca cb aa ab sched) = TNet.sent b (trun ca cb aa ab sched) ∧
      C01net.got (idx b) (nrun ca cb aa ab sched) = TNet.got b (trun ca cb aa ab sched) := by
  have hsim := sim ca cb aa ab h sched hs hnn
  refine ⟨sched_of ca cb aa ab sched hs, hsim.rep.layers, hsim.rep.outbox, hsim.now, fun b => ⟨hsim.log b, hsim.sent b, ?_⟩⟩
  simp only [C01net.got, TNet.got, hsim.rep.layers, hsim.recvd b]
  cases b <;> simp [idx]

/-- **C13, delivery.** Two started threaded layers, validated configurations, mirrored addresses, valid STmin bytes;
    ANY thread schedule: user threads calling `send` (admissible bytes payloads) and `recv` on either peer, relay
    and worker iterations of both peers in any interleaving (wake-up tokens, partial reads of the relay queue), clock
    ticks. If neither logic layer reports a timeout error (protocol timeouts far above the scheduling delays), then
    * what peer 1 has handed to its user (results of `recv()`, then its rx queue) is a prefix of the payloads accepted
      by `send()` on peer 0 in the order in which the calls were linearised — every payload at most once, byte-identical,
      nothing else — and symmetrically from peer 1 to peer 0;
    * the only error either logic layer can have reported is `UnexpectedFlowControlError` (see `delivery_clean` for
      "no error at all"). -/
theorem delivery (ca cb : Cfg) (aa ab : Addr) (h : C01net.Mirrored ca cb aa ab)
    (hsa : validStmin ca.stmin = true) (hsb : validStmin cb.stmin = true) (sched : List TStep)
    (hs : TNet.Sched ca cb aa ab sched) (hnn : TNet.NoNoise sched)
    (h0 : TNet.noTimeout false (trun ca cb aa ab sched) = true)
    (h1 : TNet.noTimeout true (trun ca cb aa ab sched) = true) :
    TNet.got true (trun ca cb aa ab sched) <+: TNet.sent false (trun ca cb aa ab sched) ∧
    TNet.got false (trun ca cb aa ab sched) <+: TNet.sent true (trun ca cb aa ab sched) ∧
    (∀ b x, x ∈ TNet.errors b (trun ca cb aa ab sched) → x = .UnexpectedFlowControl) := by
  obtain ⟨hsched, -, -, -, hobs⟩ := tnet_simulates_net ca cb aa ab h sched hs hnn
  have e0 := hobs false
  have e1 := hobs true
  have h0' : C01net.noTimeout (C01net.events 0 (nrun ca cb aa ab sched)) = true := by
    rw [show (0 : Nat) = idx false from rfl, e0.1, ← noTimeout_eq]; exact h0
  have h1' : C01net.noTimeout (C01net.events 1 (nrun ca cb aa ab sched)) = true := by
    rw [show (1 : Nat) = idx true from rfl, e1.1, ← noTimeout_eq]; exact h1
  obtain ⟨s1, s0⟩ := C01net.safety_timeouts ca cb aa ab h hsa hsb _ hsched h0' h1'
  obtain ⟨u0, u1⟩ := C01net.only_unexpected_fc ca cb aa ab h hsa hsb _ hsched h0' h1'
  refine ⟨?_, ?_, ?_⟩
  · rw [← e1.2.2, ← e0.2.1]; exact s1
  · rw [← e0.2.2, ← e1.2.1]; exact s0
  · intro b x hx
    simp only [TNet.errors, List.mem_filterMap] at hx
    obtain ⟨e, he, hex⟩ := hx
    cases e with
    | err t y =>
      simp only [Option.some.injEq] at hex
      subst hex
      cases b
      · rw [← e0.1] at he; exact u0 t y he
      · rw [← e1.1] at he; exact u1 t y he
    | _ => cases hex

/-- **C13, delivery, "and no error is reported".** Under the hypotheses of `delivery`, NO error at all is reported by
    either logic layer (with `C01net.no_protocol_error`, Props/C01netfc.lean: no `UnexpectedFlowControlError` either). -/
theorem delivery_clean (ca cb : Cfg) (aa ab : Addr) (h : C01net.Mirrored ca cb aa ab)
    (hsa : validStmin ca.stmin = true) (hsb : validStmin cb.stmin = true) (sched : List TStep)
    (hs : TNet.Sched ca cb aa ab sched) (hnn : TNet.NoNoise sched)
    (h0 : TNet.noTimeout false (trun ca cb aa ab sched) = true)
    (h1 : TNet.noTimeout true (trun ca cb aa ab sched) = true) :
    TNet.got true (trun ca cb aa ab sched) <+: TNet.sent false (trun ca cb aa ab sched) ∧
    TNet.got false (trun ca cb aa ab sched) <+: TNet.sent true (trun ca cb aa ab sched) ∧
    TNet.errors false (trun ca cb aa ab sched) = [] ∧ TNet.errors true (trun ca cb aa ab sched) = [] := by
  obtain ⟨d1, d0, -⟩ := delivery ca cb aa ab h hsa hsb sched hs hnn h0 h1
  obtain ⟨hsched, -, -, -, hobs⟩ := tnet_simulates_net ca cb aa ab h sched hs hnn
  have e0 := hobs false
  have e1 := hobs true
  have h0' : C01net.noTimeout (C01net.events 0 (nrun ca cb aa ab sched)) = true := by
    rw [show (0 : Nat) = idx false from rfl, e0.1, ← noTimeout_eq]; exact h0
  have h1' : C01net.noTimeout (C01net.events 1 (nrun ca cb aa ab sched)) = true := by
    rw [show (1 : Nat) = idx true from rfl, e1.1, ← noTimeout_eq]; exact h1
  have hne := C01net.no_protocol_error ca cb aa ab h hsa hsb _ hsched h0' h1'
  simp only [C01net.noError, Bool.and_eq_true] at hne
  have key := errors_nil_of_noErr
  refine ⟨d1, d0, ?_, ?_⟩
  · have := key _ hne.1
    rw [show (0 : Nat) = idx false from rfl, e0.1] at this
    exact this
  · have := key _ hne.2
    rw [show (1 : Nat) = idx true from rfl, e1.1] at this
    exact this

/-! ## Foreign frames on the bus -/

/-- **C13, delivery with unrelated frames on the bus.** As `delivery`, for EVERY thread schedule in which, moreover,
    anybody may put foreign frames (frames the address filter of the reading peer rejects: other identifiers, other
    address prefixes) on either bus at any time, in any number. If neither logic layer reports a timeout error, what
    each peer has handed to its user is a prefix of the payloads accepted by `send()` on the other peer in linearisation
    order, and the only error either logic layer can have reported is `UnexpectedFlowControlError`.
    (Error frames and remote frames never reach the layer at all: `C13.adapter_rx_none`.)
    Proved directly on the threaded pair (Proofs/TNetNoise.lean), not through the simulation: with foreign frames the
    unread input of a logic layer is not a state of `Isotp.Net`. -/
theorem delivery_noise (ca cb : Cfg) (aa ab : Addr) (h : C01net.Mirrored ca cb aa ab)
    (hsa : validStmin ca.stmin = true) (hsb : validStmin cb.stmin = true) (sched : List TStep)
    (hs : TNet.Sched ca cb aa ab sched)
    (h0 : TNet.noTimeout false (trun ca cb aa ab sched) = true)
    (h1 : TNet.noTimeout true (trun ca cb aa ab sched) = true) :
    TNet.got true (trun ca cb aa ab sched) <+: TNet.sent false (trun ca cb aa ab sched) ∧
    TNet.got false (trun ca cb aa ab sched) <+: TNet.sent true (trun ca cb aa ab sched) ∧
    (∀ b x, x ∈ TNet.errors b (trun ca cb aa ab sched) → x = .UnexpectedFlowControl) := by
  have hinv : NInv (C01net.mkSetting ca cb aa ab h) (trun ca cb aa ab sched).1 (trun ca cb aa ab sched).2 :=
    ninv_run (C01net.mkSetting ca cb aa ab h) sched
      (fun s hm => ⟨stepOkS_of ca cb aa ab h s (hs s hm), noiseOkS_of ca cb aa ab h s (hs s hm)⟩)
  have hst : StminOk (C01net.mkSetting ca cb aa ab h) := C01net.stminOk_of ca cb aa ab h hsa hsb
  have hnT : ∀ b, noT (TNet.logOf b (trun ca cb aa ab sched).2) = true := by
    intro b
    cases b
    · have := h0; unfold TNet.noTimeout at this; rw [noTimeout_eq] at this; exact this
    · have := h1; unfold TNet.noTimeout at this; rw [noTimeout_eq] at this; exact this
  refine ⟨?_, ?_, ?_⟩
  · exact safety_noise_core _ hst hinv true hnT (sendable_of ca cb aa ab h sched hs true)
  · exact safety_noise_core _ hst hinv false hnT (sendable_of ca cb aa ab h sched hs false)
  · intro b x hx
    simp only [TNet.errors, List.mem_filterMap] at hx
    obtain ⟨e, he, hex⟩ := hx
    cases e with
    | err t y =>
      simp only [Option.some.injEq] at hex
      subst hex
      exact errors_noise_core _ hst hinv b hnT (sendable_of ca cb aa ab h sched hs b) t y he
    | _ => cases hex

/-- OPEN: "and no error is reported" when there are foreign frames on the bus — in every thread schedule (foreign
    frames included) in which no timeout is reported, no error at all is reported. Proved without foreign frames
    (`delivery_clean`); with foreign frames `delivery_noise` leaves `UnexpectedFlowControlError` as the only candidate.
    What is missing: the Flow Control accounting of Proofs/NetFc*.lean (`SndFc` / `RcvFc`: Flow Control frames read
    vs. block boundaries of the data frames emitted) counts ALL frames read by the rx loop; with foreign frames it has
    to count only those the address filter accepts (a foreign frame can carry an N_PCI byte 0x3X), which means
    restating and re-proving those two laws (about 2000 lines) with a filtered count. -/
def C13net_clean_noise_statement : Prop :=
  ∀ (ca cb : Cfg) (aa ab : Addr), C01net.Mirrored ca cb aa ab → validStmin ca.stmin = true → validStmin cb.stmin = true →
    ∀ sched : List TStep, TNet.Sched ca cb aa ab sched →
    TNet.noTimeout false (trun ca cb aa ab sched) = true → TNet.noTimeout true (trun ca cb aa ab sched) = true →
    TNet.errors false (trun ca cb aa ab sched) = [] ∧ TNet.errors true (trun ca cb aa ab sched) = []

/-- the open statement with the missing link as an explicit hypothesis: EITHER there is no foreign frame in the
    schedule, OR no `UnexpectedFlowControlError` was reported -/
theorem clean_noise_partial (ca cb : Cfg) (aa ab : Addr) (h : C01net.Mirrored ca cb aa ab)
    (hsa : validStmin ca.stmin = true) (hsb : validStmin cb.stmin = true) (sched : List TStep)
    (hs : TNet.Sched ca cb aa ab sched)
    (h0 : TNet.noTimeout false (trun ca cb aa ab sched) = true)
    (h1 : TNet.noTimeout true (trun ca cb aa ab sched) = true)
    (hextra : TNet.NoNoise sched ∨ ∀ b, Err.UnexpectedFlowControl ∉ TNet.errors b (trun ca cb aa ab sched)) :
    TNet.errors false (trun ca cb aa ab sched) = [] ∧ TNet.errors true (trun ca cb aa ab sched) = [] := by
  rcases hextra with hnn | hnu
  · exact (delivery_clean ca cb aa ab h hsa hsb sched hs hnn h0 h1).2.2
  · obtain ⟨-, -, he⟩ := delivery_noise ca cb aa ab h hsa hsb sched hs h0 h1
    have key : ∀ b, TNet.errors b (trun ca cb aa ab sched) = [] := by
      intro b
      rw [List.eq_nil_iff_forall_not_mem]
      intro x hx
      have := he b x hx
      subst this
      exact hnu b hx
    exact ⟨key false, key true⟩

/-! ## User threads -/

/-- **send_linearised, every schedule (foreign frames included).** The payloads accepted by `send()` on peer `b` are
    the payloads of the acceptable `userSend b` steps (`TNet.accepts`: decided by the arguments, the configuration and
    the address alone — not by what other threads are doing), in schedule order; so the accepted payloads of ONE user
    thread (its steps are a sub-list of the schedule) appear in the linearisation in that thread's program order. -/
theorem thread_linearised (ca cb : Cfg) (aa ab : Addr) (sched : List TStep) (b : Bool) (thread : List TStep)
    (hth : thread.Sublist sched) :
    TNet.sent b (trun ca cb aa ab sched) = TNet.programOf (TNet.cfgOf ca cb b) (TNet.addrOf aa ab b) b sched ∧
    (TNet.programOf (TNet.cfgOf ca cb b) (TNet.addrOf aa ab b) b thread).Sublist (TNet.sent b (trun ca cb aa ab sched)) := by
  have h := sent_eq_program ca cb aa ab sched b
  exact ⟨h, h ▸ program_sublist _ _ b thread sched hth⟩

/-- **C13, per-thread order.** Under the hypotheses of `delivery_noise` (every thread schedule, foreign frames
    included, no timeout reported): the accepted payloads of one user thread of peer `b` (`thread`: a sub-list of the
    schedule) split into those that have arrived and those that have not; the arrived ones are a prefix of the thread's
    program and appear among the payloads delivered by the other peer in program order (the others are still to come,
    in order, among the not yet delivered part of the linearisation). -/
theorem per_thread_order (ca cb : Cfg) (aa ab : Addr) (h : C01net.Mirrored ca cb aa ab)
    (hsa : validStmin ca.stmin = true) (hsb : validStmin cb.stmin = true) (sched : List TStep)
    (hs : TNet.Sched ca cb aa ab sched)
    (h0 : TNet.noTimeout false (trun ca cb aa ab sched) = true)
    (h1 : TNet.noTimeout true (trun ca cb aa ab sched) = true)
    (b : Bool) (thread : List TStep) (hth : thread.Sublist sched) :
    ∃ arrived pending,
      TNet.programOf (TNet.cfgOf ca cb b) (TNet.addrOf aa ab b) b thread = arrived ++ pending ∧
      arrived.Sublist (TNet.got (!b) (trun ca cb aa ab sched)) ∧
      pending.Sublist ((TNet.sent b (trun ca cb aa ab sched)).drop (TNet.got (!b) (trun ca cb aa ab sched)).length) := by
  obtain ⟨d1, d0, -⟩ := delivery_noise ca cb aa ab h hsa hsb sched hs h0 h1
  have hpre : TNet.got (!b) (trun ca cb aa ab sched) <+: TNet.sent b (trun ca cb aa ab sched) := by
    cases b
    · exact d1
    · exact d0
  have hsub := (thread_linearised ca cb aa ab sched b thread hth).2
  obtain ⟨rest, hrest⟩ := hpre
  have hdrop : (TNet.sent b (trun ca cb aa ab sched)).drop (TNet.got (!b) (trun ca cb aa ab sched)).length = rest := by
    rw [← hrest]; exact List.drop_left' rfl
  rw [hdrop]
  rw [← hrest] at hsub
  obtain ⟨l1, l2, e, s1, s2⟩ := List.sublist_append_iff.mp hsub
  exact ⟨l1, l2, e, s1, s2⟩

/-! ## Wake-up -/

/-- **No lost wake-up.** In any run (any prefix `pre`, foreign frames included): after an accepted `send(a)` on peer
    `b`, whatever the other threads do before the next worker iteration of `b` (`mid`), the relay queue of `b` holds a
    wake-up token and its tx queue the new request — so that worker iteration does not block, consumes at least the
    token, and runs `process(do_rx=True, do_tx=True)` on a state whose tx queue contains the request
    (`TNetP.workerInput`). In the simulation the `send` is followed by a `proc` of that layer. -/
theorem no_lost_wakeup_net (ca cb : Cfg) (aa ab : Addr) (pre mid : List TStep) (b : Bool) (a : SendArgs)
    (hacc : TNet.accepts (TNet.cfgOf ca cb b) (TNet.addrOf aa ab b) a = true) (hmid : ∀ s ∈ mid, s ≠ .worker b) :
    let d2 := (trun ca cb aa ab (pre ++ [.userSend b a] ++ mid)).1
    none ∈ (d2.get b).relayQ ∧
    reqOf (TNet.cfgOf ca cb b) a ∈ (workerInput d2 b).txQueue ∧
    ((d2.step (.worker b)).1.get b).core = { ((workerInput d2 b).process true true).1 with log := [] } ∧
    ((d2.step (.worker b)).1.get b).relayQ.length < (d2.get b).relayQ.length ∧
    ∃ mids, toNOps ca cb aa ab (pre ++ [.userSend b a] ++ mid ++ [.worker b]) =
      toNOps ca cb aa ab pre ++ [.send (idx b) a] ++ mids ++ [.deliver (idx (!b)) (d2.movedBy b), .proc (idx b)] := by
  intro d2
  have hd : TInv ca cb aa ab (trun ca cb aa ab pre).1 := tinv_runFrom pre _ [] (tinv_init ca cb aa ab)
  have hd2 : d2 = (TNet.runFrom ((trun ca cb aa ab pre).1.step (.userSend b a)).1
      ((trun ca cb aa ab pre).2 ++ [((trun ca cb aa ab pre).1.step (.userSend b a)).2]) mid).1 := by
    show (TNet.runFrom _ [] (pre ++ [.userSend b a] ++ mid)).1 = _
    rw [runFrom_append, runFrom_append]
    rfl
  obtain ⟨w1, w2, w3, w4, -⟩ := wakeup_net hd b a hacc ((trun ca cb aa ab pre).2 ++ [((trun ca cb aa ab pre).1.step (.userSend b a)).2]) mid hmid
  rw [← hd2] at w1 w2 w3 w4
  refine ⟨w1, w2, w3, w4, TNetP.toNOps ((trun ca cb aa ab pre).1.step (.userSend b a)).1 mid, ?_⟩
  unfold toNOps
  rw [TNetP.toNOps_append, TNetP.toNOps_append, TNetP.toNOps_append]
  have e1 : (TNet.runFrom (TNet.init ca cb aa ab) [] (pre ++ [.userSend b a] ++ mid)).1 = d2 := rfl
  rw [e1]
  have e2 : (TNet.runFrom (TNet.init ca cb aa ab) [] (pre ++ [.userSend b a])).1 =
      ((trun ca cb aa ab pre).1.step (.userSend b a)).1 := by
    rw [runFrom_append]; rfl
  rw [e2]
  simp [TNetP.toNOps, toNOp, trun, TNet.run]

/-! ## Non-vacuity: a concrete thread schedule -/

open C01net in
/-- classic CAN, normal 11-bit addressing, default configuration on both sides (as in Props/C01net.lean).
    Peer 0 has two user threads: thread A sends 20 bytes (`exP1`: First Frame + 2 Consecutive Frames) and later 5 bytes
    (`exP4`); thread B sends 3 bytes (`exP2`). Peer 1 has one user thread sending 10 bytes (`exQ1`). Relay and worker
    iterations of both peers interleaved with the calls; worker iterations stop at wake-up tokens (they take 0, 1, 2
    or 3 frames); `recv` calls in between. -/
def exP4 : Bytes := [1, 2, 3, 4, 5]
open C01net in
def exSched : List TStep :=
  [ .userSend false (sendArgs 1 exP1), .userSend true (sendArgs 2 exQ1), .worker false, .userSend false (sendArgs 3 exP2),
    .relay true, .worker true, .worker true, .tick 1000000, .relay false, .userSend false (sendArgs 4 exP4), .relay false,
    .worker false, .worker false, .worker false, .relay true, .relay true, .worker true, .userRecv true, .tick 1000000,
    .relay false, .worker false, .relay true, .relay true, .relay true, .worker true, .worker false, .relay false,
    .worker false, .relay true, .relay true, .relay true, .worker true, .userRecv true, .relay false, .worker false,
    .userRecv false, .userRecv true, .userRecv true ]

/-- the steps of thread A / thread B of peer 0 and of the thread of peer 1 (sub-lists of the schedule) -/
def idIn (ids : List Nat) : TStep → Bool
  | .userSend _ a => ids.contains a.id
  | _ => false
def threadA : List TStep := exSched.filter (idIn [1, 4])
def threadB : List TStep := exSched.filter (idIn [3])
def threadC : List TStep := exSched.filter (idIn [2])

open C01net in
example : C01net.Mirrored {} {} exA exB := ⟨⟨by decide, by decide, rfl⟩, ⟨by decide, by decide, rfl⟩⟩
open C01net in
example : TNet.Sched {} {} exA exB exSched ∧ TNet.NoNoise exSched := by decide +kernel
example : threadA.Sublist exSched ∧ threadB.Sublist exSched ∧ threadC.Sublist exSched :=
  ⟨List.filter_sublist, List.filter_sublist, List.filter_sublist⟩
open C01net in
/-- the programs of the three threads -/
example : TNet.programOf {} exA false threadA = [exP1, exP4] ∧ TNet.programOf {} exA false threadB = [exP2] ∧
    TNet.programOf {} exB true threadC = [exQ1] := by decide +kernel
open C01net in
/-- the hypotheses of `delivery` hold; everything has been delivered, in linearisation order, which keeps the order
    of thread A; all of it was returned by the `recv` calls; no error at all was reported; the worker iterations took
    0, 1, 2 or 3 frames -/
example : validStmin ({} : Cfg).stmin = true ∧
    TNet.noTimeout false (trun {} {} exA exB exSched) = true ∧ TNet.noTimeout true (trun {} {} exA exB exSched) = true ∧
    TNet.sent false (trun {} {} exA exB exSched) = [exP1, exP2, exP4] ∧
    TNet.got true (trun {} {} exA exB exSched) = [exP1, exP2, exP4] ∧
    TNet.recvdOf true (trun {} {} exA exB exSched).2 = [exP1, exP2, exP4] ∧
    TNet.sent true (trun {} {} exA exB exSched) = [exQ1] ∧
    TNet.got false (trun {} {} exA exB exSched) = [exQ1] ∧
    TNet.errors false (trun {} {} exA exB exSched) = [] ∧ TNet.errors true (trun {} {} exA exB exSched) = [] ∧
    ((trun {} {} exA exB exSched).2.filterMap fun | .worked b k _ => some (b, k) | _ => none) =
      [(false, 0), (true, 0), (true, 1), (false, 0), (false, 1), (false, 1), (true, 2), (false, 1), (true, 3),
       (false, 0), (false, 0), (true, 0), (false, 0)] := by decide +kernel
open C01net in
/-- in the middle of the exchange (first 17 steps) the prefix is strict and frames are in flight in the relay queue and
    on the bus -/
example : TNet.sent false (trun {} {} exA exB (exSched.take 17)) = [exP1, exP2, exP4] ∧
    TNet.got true (trun {} {} exA exB (exSched.take 17)) = [] ∧
    ((trun {} {} exA exB (exSched.take 17)).1.inFlight true).length = 3 ∧
    ((trun {} {} exA exB (exSched.take 17)).1.inFlight false).length = 1 := by decide +kernel
open C01net in
/-- the network schedule of the simulation: 37 operations; it is an admissible `C01net.Sched` and the two runs agree -/
example : (toNOps {} {} exA exB exSched).length = 37 ∧
    ((toNOps {} {} exA exB exSched).take 4).map (fun | .send i _ => (0, i, 0) | .deliver i k => (1, i, k) | .proc i => (2, i, 0) | _ => (3, 0, 0)) =
      [(0, 0, 0), (0, 1, 0), (1, 1, 0), (2, 0, 0)] ∧
    C01net.got 1 (nrun {} {} exA exB exSched) = [exP1, exP2, exP4] ∧
    C01net.got 0 (nrun {} {} exA exB exSched) = [exQ1] := by decide +kernel
open C01net in
/-- hypotheses of `no_lost_wakeup_net`: an accepted `send` (thread B's), then two steps of other threads -/
example : TNet.accepts {} exA (sendArgs 3 exP2) = true ∧
    (∀ s ∈ [TStep.relay true, TStep.worker true], s ≠ TStep.worker false) := by
  refine ⟨by decide +kernel, ?_⟩
  intro s hs
  simp only [List.mem_cons, List.not_mem_nil, or_false] at hs
  rcases hs with rfl | rfl <;> simp
open C01net in
/-- a starved schedule does report a timeout (the hypothesis of `delivery` is not vacuously true) -/
example : TNet.noTimeout true (trun {} {} exA exB
    [.userSend false (sendArgs 1 exP1), .worker false, .relay true, .worker true, .tick 2000000000, .worker true]) = false := by
  decide +kernel

/-! ## Non-vacuity with foreign frames -/

/-- a frame with a foreign identifier whose first data byte looks like a Flow Control N_PCI, and a frame with peer 0's
    identifier but the wrong identifier width (29-bit) that looks like a Consecutive Frame -/
def other : CanMsg := { id := 0x7FF, ext := false, data := [0x30, 0, 0] }
def other2 : CanMsg := { id := 0x123, ext := true, data := [0x21, 1, 2] }

open C01net in
/-- the schedule above with foreign frames put on both buses at various moments (also in the middle of the segmented
    transfers) -/
def exNoisy : List TStep :=
  [ .noise true other, .userSend false (sendArgs 1 exP1), .userSend true (sendArgs 2 exQ1), .noise false other,
    .relay false, .worker false, .userSend false (sendArgs 3 exP2), .relay true, .noise true other2, .worker true,
    .relay true, .worker true, .tick 1000000, .relay false, .userSend false (sendArgs 4 exP4), .relay false,
    .noise false other2, .worker false, .worker false, .worker false, .relay true, .relay true, .worker true,
    .userRecv true, .tick 1000000, .relay false, .relay false, .worker false, .relay true, .relay true,
    .noise true other, .relay true, .worker true, .worker false, .relay false, .worker false, .relay true, .relay true,
    .relay true, .relay true, .worker true, .userRecv true, .relay false, .worker false, .userRecv false,
    .userRecv true, .userRecv true ]

open C01net in
/-- it is an admissible schedule (the foreign frames are rejected by the filter of the peer that reads them) with
    foreign frames in it -/
example : TNet.Sched {} {} exA exB exNoisy ∧ ¬ TNet.NoNoise exNoisy := by decide +kernel
open C01net in
/-- hypotheses and conclusion of `delivery_noise` on it: no timeout; everything delivered once, in linearisation order;
    no error; the foreign frames were read by the rx loops (identifiers 0x7FF, and 0x123 seven times instead of six) and
    ignored -/
example :
    TNet.noTimeout false (trun {} {} exA exB exNoisy) = true ∧ TNet.noTimeout true (trun {} {} exA exB exNoisy) = true ∧
    TNet.sent false (trun {} {} exA exB exNoisy) = [exP1, exP2, exP4] ∧
    TNet.got true (trun {} {} exA exB exNoisy) = [exP1, exP2, exP4] ∧
    TNet.sent true (trun {} {} exA exB exNoisy) = [exQ1] ∧
    TNet.got false (trun {} {} exA exB exNoisy) = [exQ1] ∧
    TNet.errors false (trun {} {} exA exB exNoisy) = [] ∧ TNet.errors true (trun {} {} exA exB exNoisy) = [] ∧
    ((TNet.events true (trun {} {} exA exB exNoisy)).filterMap fun | .rx _ m => some m.id | _ => none) =
      [0x7FF, 0x123, 0x123, 0x123, 0x123, 0x123, 0x123, 0x123, 0x7FF] := by decide +kernel

end Isotp.C13net

#print axioms Isotp.C13net.tnet_simulates_net
#print axioms Isotp.C13net.delivery
#print axioms Isotp.C13net.delivery_clean
#print axioms Isotp.C13net.delivery_noise
#print axioms Isotp.C13net.clean_noise_partial
#print axioms Isotp.C13net.thread_linearised
#print axioms Isotp.C13net.per_thread_order
#print axioms Isotp.C13net.no_lost_wakeup_net
