"""C03 - receiver reassembles every well-formed stream and issues correct flow control."""
import gen
import ref
import trace
from props.base import PropBase


def rx_scenario(rng, tier, big=False):
    mode = rng.randrange(7)
    a, _ = gen.rand_addr_pair(rng, mode=mode, asym_prob=0.15)
    params = gen.rand_params(rng, simple=True)
    params['blocksize'] = rng.choice([0, 1, 2, 3, 8, 16, 255, rng.randrange(256)])
    mfs = rng.choice([4095, 4095, 4095, 100, 20, 100000])
    params['max_frame_size'] = mfs
    if rng.random() < 0.2:
        params['default_target_address_type'] = 1       # Flow Control is physically addressed whatever send() defaults to
    ops = [{'op': 'layer', 'i': 0, 'addr': a, 'params': params}]
    rxh = ref.half(a, 'rx')
    pre = b''
    if ref.rx_prefix_len(rxh):
        # the prefix the receiver expects
        _, _, d = gen.rx_match_frame(a, b'\x00')
        pre = d[:1]
    msgs = []
    for _ in range(rng.choice([1, 1, 2, 3])):
        if rng.random() < 0.2:
            # prior history: a well-formed message that its sender abandons after the First Frame and at least one Consecutive Frame (no
            # timeout, no error so far); the First / Single Frame of the next message replaces it (ISO 15765-2: the new message wins).  The
            # receiver must treat the new message like any other: "from ANY state" (DESIGN 6, C03; Lean `ff_opens_session`).
            txdl0 = rng.choice(gen.TXDLS)
            c0 = txdl0 - 1 - len(pre)
            nfull = rng.choice([2, 3, 5, 17, 18, 33])
            n0 = min((txdl0 - 2 - len(pre)) + c0 * nfull, mfs)
            fr0 = ref.foreign_stream(gen.rand_payload(rng, n0), txdl0, prefix=pre, last='full') if n0 > txdl0 else None
            if fr0 is not None and len(fr0) >= 3:
                cut = rng.choice([2, 2, len(fr0) - 1, rng.randrange(2, len(fr0))])
                if len(fr0) > 17 and rng.random() < 0.5:
                    cut = 17        # abandoned after exactly 16 Consecutive Frames: the sequence number is back to 0, the block counter is not
                fid, ext, _ = gen.rx_match_frame(a, b'')
                msgs.append((None, fr0[:cut]))
                for fr in fr0[:cut]:
                    ops.append({'op': 'frame', 'i': 0, 'id': fid, 'ext': ext, 'data': fr})
                    if rng.random() < 0.7:
                        ops.append({'op': 'process', 'i': 0})
        txdl = rng.choice(gen.TXDLS)
        n = gen.rand_len(rng, txdl, len(pre))
        if big and rng.random() < 0.2:
            n = rng.choice([4095, 4096, 5000, 20000, 100000])
        n = max(1, min(n, mfs))
        payload = gen.rand_payload(rng, n)
        last = rng.choice(['min', 'pad8', 'next', 'full'])
        frames = ref.foreign_stream(payload, txdl, prefix=pre, last=last, pad_byte=rng.randrange(256))
        if frames is None:
            continue
        fid, ext, _ = gen.rx_match_frame(a, b'')
        msgs.append((payload, frames))
        if len(payload) <= 3000:
            # ties the generator's notion of "well-formed stream" to the Lean Spec: the reference decoder must give the payload back
            ops.append({'op': 'specreasm', 'prelen': len(pre), 'frames': frames, 'payload': payload})
        batch = rng.choice([1, 1, 2, 5, 1000])
        cnt = 0
        for fr in frames:
            ops.append({'op': 'frame', 'i': 0, 'id': fid, 'ext': ext, 'data': fr})
            cnt += 1
            if cnt % batch == 0:
                ops.append({'op': 'process', 'i': 0})
                if rng.random() < 0.3:
                    ops.append({'op': 'recv', 'i': 0})
                if rng.random() < 0.2:
                    ops.append({'op': 'tick', 'dt': rng.choice([1000, 1000000, 100000000])})
        ops.append({'op': 'process', 'i': 0})
        ops.append({'op': 'recv', 'i': 0})
        ops.append({'op': 'recv', 'i': 0})
    return {'ops': ops, 'msgs': [(None if p is None else bytes(p), [bytes(f) for f in fr]) for p, fr in msgs]}


def judge_rx(sc, lines_in, impl_out):
    cfg = trace.layer_cfg(sc)
    a = cfg['addr']
    p = cfg['params']
    txh = ref.half(a, 'tx')
    bs = p.get('blocksize', 8)
    stmin = p.get('stmin', 0)
    fc = ref.pad_frame(ref.tx_prefix(txh) + bytes([0x30, bs, stmin]), p.get('tx_data_length', 8), p.get('tx_data_min_length'), p.get('tx_padding'))
    out = []
    msgs = list(sc['msgs'])
    # expected event stream per message: after frame k -> FC? / delivery?
    exp = []   # list of (frame bytes, expect_fc, expect_delivery, interrupts an abandoned reception)
    interrupts = False
    for payload, frames in msgs:
        if payload is None:
            # abandoned by its sender after frames[-1]: Flow Control as for any message, nothing delivered
            for k, fr in enumerate(frames):
                exp.append((fr, k == 0 or (bs > 0 and k % bs == 0), None, interrupts and k == 0))
            interrupts = True
            continue
        if len(frames) == 1:
            exp.append((frames[0], False, payload, interrupts))
            interrupts = False
            continue
        ncf = len(frames) - 1
        for k, fr in enumerate(frames):
            if k == 0:
                exp.append((fr, True, None, interrupts))
            else:
                last = (k == ncf)
                exp.append((fr, (bs > 0 and k % bs == 0 and not last), payload if last else None, False))
        interrupts = False
    pos = -1
    pend_fc = 0
    recs = trace.records(lines_in, impl_out)
    delivered = []
    recvd = []
    for r in recs:
        if r.result.startswith('exc'):
            out.append(('no_raise', '%s raised %s' % (r.op, r.result)))
        if r.op == 'recv' and r.result.startswith('data '):
            recvd.append(bytes.fromhex(r.result[5:]) if r.result[5:] != '-' else b'')
        for e in r.events:
            if e['k'] == 'rx':
                if pend_fc:
                    out.append(('flow_control', 'Flow Control expected after frame %d was not emitted before the next frame was read' % pos))
                    pend_fc = 0
                pos += 1
                if pos < len(exp) and exp[pos][1]:
                    pend_fc = 1
            elif e['k'] == 'tx':
                if not pend_fc:
                    out.append(('flow_control', 'unexpected frame %s emitted after stream frame %d' % (e['data'].hex(), pos)))
                else:
                    pend_fc = 0
                    if e['data'] != fc or e['id'] != ref.emitted_id(txh) or e['ext'] != (txh['mode'] in ref.MODE_29) or e['dlc'] != ref.dlc_of(len(e['data'])):
                        out.append(('flow_control', 'Flow Control %s id %x, expected %s id %x' % (e['data'].hex(), e['id'], fc.hex(), ref.emitted_id(txh))))
            elif e['k'] == 'deliver':
                if pos < 0 or pos >= len(exp) or exp[pos][2] is None:
                    out.append(('delivery', 'payload of %d bytes delivered at stream frame %d where none is due' % (len(e['data']), pos)))
                elif e['data'] != exp[pos][2]:
                    out.append(('delivery', 'delivered payload differs from the original (%d vs %d bytes)' % (len(e['data']), len(exp[pos][2]))))
                delivered.append(e['data'])
            elif e['k'] == 'err':
                if 0 <= pos < len(exp) and exp[pos][3] and e['name'] in ('ReceptionInterruptedWithFirstFrameError', 'ReceptionInterruptedWithSingleFrameError'):
                    continue        # the documented report of "a new message replaces the abandoned one"
                out.append(('no_error', 'error %s on a well-formed stream' % e['name']))
    if pend_fc:
        out.append(('flow_control', 'Flow Control expected after frame %d never emitted' % pos))
    want = [m[0] for m in msgs if m[0] is not None]
    if delivered != want:
        out.append(('delivery', '%d payloads delivered, %d well-formed messages fed' % (len(delivered), len(want))))
    if recvd != want[:len(recvd)] or len(recvd) != len(want):
        out.append(('recv', 'recv() returned %d payloads, expected %d' % (len(recvd), len(want))))
    return out[:4]


class C03(PropBase):
    id = 'C03'
    address_change = 0.15
    rx_only_gaps = 0.1
    partial_passes = 0.25
    lean_modules = ['Isotp.Props.C03']
    theorems = []
    rule = ('one receiver fed well-formed streams from an independent reference encoder: TX_DL in {8..64} x last frame {minimal, padded to 8, next FD '
            'size, full} x SF escape iff CAN_DL>8 x 12/32-bit FF_DL x receiver (7 modes + asymmetric, blocksize 0..255, stmin, own padding, '
            'max_frame_size) x batching per process() call; payloads 1..100000; every emitted frame and every delivery compared; non-trivial = a '
            'multi-frame message; distinct = (mode, blocksize, TX_DL, last-frame form, length)')
    assumptions = ['no N_Cr expiry between frames of one message (gaps below rx_consecutive_frame_timeout)']
    quick_per_shard = 120
    thorough_per_shard = 3500

    def scenario(self, rng, tier):
        return rx_scenario(rng, tier, big=(tier == 'thorough'))

    def project(self, op_line, out_line):
        return trace.project_events(out_line, keep=('tx', 'deliver', 'err'), status_keys=('av',), drop_times=True, drop_err_name=True)

    def judge(self, sc, lines_in, impl_out):
        return judge_rx(sc, lines_in, impl_out)

    def nontrivial_key(self, sc, lines_in, impl_out):
        cfg = trace.layer_cfg(sc)
        if not any(len(f) > 1 for _, f in sc['msgs']):
            return None
        return (str(cfg['addr'].get('mode', 'asym')), cfg['params'].get('blocksize'), tuple((-1 if p is None else len(p), len(f), len(f[0]), len(f[-1])) for p, f in sc['msgs']))

    def tally(self, dist, sc, lines_in, impl_out):
        PropBase.tally(self, dist, sc, lines_in, impl_out)
        for p, f in sc['msgs']:
            k = 'frames:' + ('1' if len(f) == 1 else '2-16' if len(f) <= 16 else '17+')
            dist[k] = dist.get(k, 0) + 1
            k = 'rxdl:%d' % max(8, len(f[0]))
            dist[k] = dist.get(k, 0) + 1


PROP = C03()
