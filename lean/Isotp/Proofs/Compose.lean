import Isotp.Proofs.Rx
import Isotp.Proofs.Segment
import Isotp.Props.C09
/-
  Helper lemmas for C01 / C11: composition of "the sender emits `Spec.segment`" with "the receiver
  reassembles every `Spec.WellFormed` stream", for any number of queued messages, and the receiver's
  reaction to a stream in which one frame was lost or duplicated.
  Builds on Proofs/Rx.lean (receiver), Proofs/Segment.lean (reference segmentation), Props/C09.lean
  (address filter of the mirrored address).
-/
namespace Isotp.Compose
open Isotp Isotp.State Isotp.Rx

/-! ## A. generic facts about `Feeds` -/

theorem Feeds.cfg_addr {fs : List Bytes} : ∀ {s s' : State}, Feeds s fs s' → s'.cfg = s.cfg ∧ s'.addr = s.addr := by
  induction fs with
  | nil =>
    intro s s' h
    cases h with
    | done h => exact ⟨h.cfg, h.addr⟩
  | cons d ds ih =>
    intro s s' h
    cases h with
    | frame h1 _ h2 =>
      obtain ⟨a, b⟩ := ih h2
      obtain ⟨c, e⟩ := processRx_cfg_addr _ _
      exact ⟨a.trans (c.trans h1.cfg), b.trans (e.trans h1.addr)⟩

theorem Feeds.append {a b : List Bytes} : ∀ {s s1 s' : State}, Feeds s a s1 → Feeds s1 b s' → Feeds s (a ++ b) s' := by
  induction a with
  | nil =>
    intro s s1 s' h1 h2
    cases h1 with
    | done h =>
      cases h2 with
      | done h' => exact .done (h.trans h')
      | frame h' hm hr => exact .frame (h.trans h') hm hr
  | cons d ds ih =>
    intro s s1 s' h1 h2
    cases h1 with
    | frame h hm hr => exact .frame h hm (ih hr h2)

/-- one frame at the head of a `Feeds`: a step lemma about `processRx` that holds for every state
    satisfying an `RxSame`-invariant predicate lifts to `Feeds` -/
theorem Feeds.head {P Q : State → Prop} {d : Bytes} {ds : List Bytes} {s s' : State}
    (hsame : ∀ s s', P s → RxSame s s' → P s')
    (hstep : ∀ s m, P s → m.data = d → Q (s.processRx m).1)
    (hp : P s) (hf : Feeds s (d :: ds) s') : ∃ s1, Q s1 ∧ Feeds s1 ds s' := by
  cases hf with
  | frame h hm hr => exact ⟨_, hstep _ _ (hsame _ _ hp h) hm, hr⟩

/-- a loop invariant indexed by the position in the frame list -/
theorem Feeds.chain (fs : List Bytes) : ∀ (P : Nat → State → Prop),
    (∀ i s s', P i s → RxSame s s' → P i s') →
    (∀ i s m, (h : i < fs.length) → P i s → m.data = fs[i] → P (i + 1) (s.processRx m).1) →
    ∀ s s', P 0 s → Feeds s fs s' → P fs.length s' := by
  induction fs with
  | nil =>
    intro P hsame _ s s' h0 hf
    cases hf with
    | done h => exact hsame 0 s s' h0 h
  | cons d ds ih =>
    intro P hsame hstep s s' h0 hf
    cases hf with
    | frame h hm hr =>
      have h1 := hstep 0 _ _ (by simp) (hsame _ _ _ h0 h) hm
      exact ih (fun i s => P (i + 1) s) (fun i s s' => hsame (i + 1) s s')
        (fun i s m hi hp hd => hstep (i + 1) s m (by simpa using hi) hp (by simpa using hd)) _ _ h1 hr

theorem Feeds.done_iff_trace {s s' : State} (h : Feeds s [] s') : RxSame s s' := by
  cases h with
  | done h => exact h

/-! ## B. many well-formed messages in a row -/

/-- `enc p` are the frames (data fields) of message `p`; all the frames of all the messages, in order -/
def stream (enc : Bytes → List Bytes) (ps : List Bytes) : List Bytes := (ps.map enc).flatten

@[simp] theorem stream_nil (enc : Bytes → List Bytes) : stream enc [] = [] := rfl
@[simp] theorem stream_cons (enc : Bytes → List Bytes) (p : Bytes) (ps : List Bytes) :
    stream enc (p :: ps) = enc p ++ stream enc ps := by simp [stream]
theorem stream_append (enc : Bytes → List Bytes) (a b : List Bytes) :
    stream enc (a ++ b) = stream enc a ++ stream enc b := by simp [stream]

/-- the payloads whose frames are completely contained in the first `k` frames of the stream -/
def completeIn (enc : Bytes → List Bytes) : List Bytes → Nat → List Bytes
  | [], _ => []
  | p :: ps, k => if (enc p).length ≤ k then p :: completeIn enc ps (k - (enc p).length) else []

/-- what the receiver needs to know about the messages: each one is a well-formed encoding for its
    prefix length and fits `max_frame_size` -/
structure Admissible (s : State) (pre : Bytes) (enc : Bytes → List Bytes) (ps : List Bytes) : Prop where
  hpre : pre.length = s.addr.rx.rxPrefixSize
  hwf  : ∀ p ∈ ps, Spec.WellFormed pre p (enc p)
  hmax : ∀ p ∈ ps, p.length ≤ s.cfg.maxFrameSize

theorem Admissible.of_eq {s s' : State} {pre enc ps} (h : Admissible s pre enc ps)
    (hc : s'.cfg = s.cfg) (ha : s'.addr = s.addr) : Admissible s' pre enc ps :=
  ⟨by rw [ha]; exact h.hpre, h.hwf, by rw [hc]; exact h.hmax⟩

theorem Admissible.tail {s pre enc p ps} (h : Admissible s pre enc (p :: ps)) : Admissible s pre enc ps :=
  ⟨h.hpre, fun q hq => h.hwf q (List.mem_cons_of_mem _ hq), fun q hq => h.hmax q (List.mem_cons_of_mem _ hq)⟩

theorem Admissible.sub {s pre enc ps qs} (h : Admissible s pre enc ps) (hs : ∀ q ∈ qs, q ∈ ps) :
    Admissible s pre enc qs :=
  ⟨h.hpre, fun q hq => h.hwf q (hs q hq), fun q hq => h.hmax q (hs q hq)⟩

/-- From ANY state: all the messages are delivered, in order, each exactly once, and the receiver is idle
    after the last one. -/
theorem messages_any (pre : Bytes) (enc : Bytes → List Bytes) : ∀ (ps : List Bytes) (s s' : State),
    Admissible s pre enc ps → Feeds s (stream enc ps) s' →
    delivered s' = delivered s ++ ps ∧ (ps ≠ [] → s'.rxState = .idle) ∧ s'.cfg = s.cfg ∧ s'.addr = s.addr := by
  intro ps
  induction ps with
  | nil =>
    intro s s' _ hf
    have h := Feeds.done_iff_trace hf
    exact ⟨by simp [delivered, h.trace], fun h => absurd rfl h, h.cfg, h.addr⟩
  | cons p ps ih =>
    intro s s' ha hf
    rw [stream_cons] at hf
    obtain ⟨s1, h1, h2⟩ := hf.split
    obtain ⟨hd, hi, _⟩ := wellFormed_delivers s s1 pre p _ (ha.hwf p List.mem_cons_self) ha.hpre
      (ha.hmax p List.mem_cons_self) h1
    obtain ⟨hc1, ha1⟩ := Feeds.cfg_addr h1
    obtain ⟨hd2, hi2, hc2, ha2⟩ := ih s1 s' (ha.tail.of_eq hc1 ha1) h2
    refine ⟨by rw [hd2, hd]; simp, fun _ => ?_, hc2.trans hc1, ha2.trans ha1⟩
    cases ps with
    | nil =>
      have h := Feeds.done_iff_trace h2
      rw [h.rxState]; exact hi
    | cons q qs => exact hi2 (by simp)

/-- From an idle receiver: the only reception events are the deliveries — no reception error. -/
theorem messages_idle (pre : Bytes) (enc : Bytes → List Bytes) : ∀ (ps : List Bytes) (s s' : State),
    Admissible s pre enc ps → s.rxState = .idle → Feeds s (stream enc ps) s' →
    rxTrace s' = rxTrace s ++ ps.map RxEv.deliver ∧ s'.rxState = .idle := by
  intro ps
  induction ps with
  | nil =>
    intro s s' _ hi hf
    have h := Feeds.done_iff_trace hf
    exact ⟨by simp [h.trace], by rw [h.rxState]; exact hi⟩
  | cons p ps ih =>
    intro s s' ha hi hf
    rw [stream_cons] at hf
    obtain ⟨s1, h1, h2⟩ := hf.split
    obtain ⟨_, hi1, ht⟩ := wellFormed_delivers s s1 pre p _ (ha.hwf p List.mem_cons_self) ha.hpre
      (ha.hmax p List.mem_cons_self) h1
    obtain ⟨hc1, ha1⟩ := Feeds.cfg_addr h1
    obtain ⟨ht2, hi2⟩ := ih s1 s' (ha.tail.of_eq hc1 ha1) hi1 h2
    exact ⟨by rw [ht2, ht hi]; simp, hi2⟩

theorem delivered_map_deliver (l : List Bytes) : (l.map RxEv.deliver).filterMap RxEv.payload = l := by
  induction l with
  | nil => rfl
  | cons a l ih => simp [RxEv.payload, ih]

/-- After the first `k` frames of the stream exactly the messages completely contained in them have been
    delivered: nothing early, nothing reordered, nothing twice. -/
theorem messages_prefix (pre : Bytes) (enc : Bytes → List Bytes) : ∀ (ps : List Bytes) (k : Nat) (s s' : State),
    Admissible s pre enc ps → Feeds s ((stream enc ps).take k) s' →
    delivered s' = delivered s ++ completeIn enc ps k := by
  intro ps
  induction ps with
  | nil =>
    intro k s s' _ hf
    simp only [stream_nil, List.take_nil] at hf
    have h := Feeds.done_iff_trace hf
    simp [completeIn, delivered, h.trace]
  | cons p ps ih =>
    intro k s s' ha hf
    rw [stream_cons] at hf
    by_cases hk : (enc p).length ≤ k
    · rw [List.take_append, List.take_of_length_le hk] at hf
      obtain ⟨s1, h1, h2⟩ := hf.split
      obtain ⟨hd, _, _⟩ := wellFormed_delivers s s1 pre p _ (ha.hwf p List.mem_cons_self) ha.hpre
        (ha.hmax p List.mem_cons_self) h1
      obtain ⟨hc1, ha1⟩ := Feeds.cfg_addr h1
      have := ih (k - (enc p).length) s1 s' (ha.tail.of_eq hc1 ha1) h2
      rw [this, hd]; simp [completeIn, hk]
    · have hk' : k < (enc p).length := by omega
      rw [List.take_append_of_le_length (by omega)] at hf
      have := wellFormed_nothing_earlier s s' pre p (enc p) ((enc p).take k) ((enc p).drop k)
        (ha.hwf p List.mem_cons_self) ha.hpre (ha.hmax p List.mem_cons_self) (List.take_append_drop _ _).symm
        (by intro h; have := congrArg List.length h; simp at this; omega) hf
      rw [this]; simp [completeIn, hk]

/-! ## C. the sender's frames, seen by the receiver with the mirrored address -/

/-- `Params.validate` + the address classes make the reference transmit configuration valid -/
theorem txCfg_valid (c : Cfg) (a : Addr) (hv : c.valid = true) : (Spec.TxCfg.of c a).valid := by
  rw [Proofs.Seg.valid_iff]
  simp only [Cfg.valid, Isotp.validTxDl, validMinLen, Bool.and_eq_true, Bool.or_eq_true, decide_eq_true_eq] at hv
  obtain ⟨⟨⟨⟨⟨hdl, -⟩, -⟩, hpad⟩, hmin⟩, -⟩ := hv
  refine ⟨?_, ?_, ?_, Rx.txPrefix_length_le _⟩
  · rw [Proofs.Seg.validTxDl_iff]; simp only [Spec.TxCfg.of]; omega
  · intro m hm
    simp only [Spec.TxCfg.of] at hm ⊢
    rw [hm] at hmin
    simp only [Bool.and_eq_true, Bool.or_eq_true, decide_eq_true_eq] at hmin
    rw [Proofs.Seg.validTxDl_iff]
    omega
  · intro b hb
    simp only [Spec.TxCfg.of] at hb
    rw [hb] at hpad
    simpa using hpad

/-- the mirrored address expects exactly the prefix the sender emits (same mode) -/
theorem mirror_rxPrefixSize (h : Half) : (Spec.mirror h).rxPrefixSize = h.txPrefix.length := by
  unfold Spec.mirror Half.rxPrefixSize Half.txPrefix
  cases h.mode <;> rfl

theorem padFrame_prefix (c : Spec.TxCfg) (pre rest : Bytes) :
    ∃ r, Spec.padFrame c (pre ++ rest) = pre ++ r := ⟨_, by unfold Spec.padFrame; rw [List.append_assoc]⟩

theorem cfFrames_prefix (c : Spec.TxCfg) : ∀ (ds : List Bytes) (sn : Nat) (d : Bytes),
    d ∈ Spec.cfFrames c sn ds → ∃ r, d = c.pre ++ r := by
  intro ds
  induction ds with
  | nil => intro sn d h; simp [Spec.cfFrames] at h
  | cons x xs ih =>
    intro sn d h
    simp only [Spec.cfFrames, List.mem_cons] at h
    rcases h with rfl | h
    · rw [List.append_assoc]; exact padFrame_prefix c _ _
    · exact ih _ _ h

/-- every frame of the reference segmentation starts with the sender's address prefix -/
theorem segment_prefix (c : Spec.TxCfg) (p d : Bytes) (hd : d ∈ Spec.segment c p) : ∃ r, d = c.pre ++ r := by
  rcases Proofs.Seg.segment_cases c p with ⟨_, heq⟩ | ⟨_, _, heq⟩ | ⟨_, _, heq⟩
  · rw [heq] at hd; simp only [List.mem_cons, List.not_mem_nil, or_false] at hd; subst hd
    rw [List.append_assoc]; exact padFrame_prefix c _ _
  · rw [heq] at hd; simp only [List.mem_cons, List.not_mem_nil, or_false] at hd; subst hd
    rw [List.append_assoc]; exact padFrame_prefix c _ _
  · rw [heq] at hd
    rcases List.mem_cons.mp hd with rfl | hd
    · rw [List.append_assoc]; exact padFrame_prefix c _ _
    · exact cfFrames_prefix c _ _ _ hd

/-- a frame of the sender (`aa`, target address type `t`) is accepted by the filter of the mirrored address -/
theorem accepted (ca : Cfg) (aa : Addr) (t : Tat) (p : Bytes) (m : CanMsg) (hw : aa.tx.txWf = true)
    (hid : m.id = aa.tx.txId t) (hext : m.ext = aa.tx.mode.is29)
    (hd : m.data ∈ Spec.segment (Spec.TxCfg.of ca aa) p) : (Spec.mirror aa.tx).isForMe m = true := by
  obtain ⟨r, hr⟩ := segment_prefix _ p _ hd
  exact C09.mirror_accepts aa.tx t m r hw hid hext hr

/-- what the bus does with a frame at the receiving layer: the address filter, then `_process_rx`
    (the timeout check of `rxLoop` is a neutral step while N_Cr has not expired) -/
def linkStep (s : State) (m : CanMsg) : State := if s.addr.rx.isForMe m then (s.processRx m).1 else s

def linkFeed (s : State) (ms : List CanMsg) : State := ms.foldl linkStep s

theorem linkFeed_eq_feed (ms : List CanMsg) : ∀ s : State, (∀ m ∈ ms, s.addr.rx.isForMe m = true) →
    linkFeed s ms = feed s ms := by
  induction ms with
  | nil => intro s _; rfl
  | cons m ms ih =>
    intro s h
    have hm := h m List.mem_cons_self
    show linkFeed (linkStep s m) ms = feed (s.processRx m).1 ms
    have : linkStep s m = (s.processRx m).1 := by simp [linkStep, hm]
    rw [this]
    apply ih
    intro m' hm'
    rw [(processRx_cfg_addr s m).2]
    exact h m' (List.mem_cons_of_mem _ hm')

/-- frames that are not for this layer are ignored -/
theorem linkFeed_foreign (ms : List CanMsg) : ∀ s : State, (∀ m ∈ ms, s.addr.rx.isForMe m = false) →
    linkFeed s ms = s := by
  induction ms with
  | nil => intro s _; rfl
  | cons m ms ih =>
    intro s h
    have hm := h m List.mem_cons_self
    show linkFeed (linkStep s m) ms = s
    have : linkStep s m = s := by simp [linkStep, hm]
    rw [this]
    exact ih s (fun m' hm' => h m' (List.mem_cons_of_mem _ hm'))

theorem feed_append (s : State) (a b : List CanMsg) : feed s (a ++ b) = feed (feed s a) b := by
  simp [feed, List.foldl_append]

/-- `recv()` called `n` times: the results, oldest first, and the final state -/
def recvN : Nat → State → List (Option Bytes) × State
  | 0, s => ([], s)
  | n + 1, s => let r := s.recv; let rest := recvN n r.1; (r.2 :: rest.1, rest.2)

theorem recvN_queue : ∀ (q : List Bytes) (s : State), s.rxQueue = q →
    (recvN q.length s).1 = q.map some ∧ (recvN q.length s).2.rxQueue = [] := by
  intro q
  induction q with
  | nil => intro s h; exact ⟨rfl, h⟩
  | cons p q ih =>
    intro s h
    have h1 : s.recv = ({ s with rxQueue := q }, some p) := by simp [recv, h]
    have := ih { s with rxQueue := q } rfl
    simp only [recvN, h1, List.length_cons, List.map_cons]
    exact ⟨by rw [this.1], this.2⟩

/-! ## D. one frame lost or duplicated -/

/-- the list without its `k`-th element (unchanged when `k` is out of range) -/
def dropAt {α : Type} (k : Nat) (l : List α) : List α := l.take k ++ l.drop (k + 1)

/-- the list with its `k`-th element doubled, the copy next to the original (unchanged when out of range) -/
def dupAt {α : Type} (k : Nat) (l : List α) : List α := l.take (k + 1) ++ l.drop k

theorem dropAt_zero_cons {α : Type} (a : α) (l : List α) : dropAt 0 (a :: l) = l := by simp [dropAt]
theorem dropAt_succ_cons {α : Type} (k : Nat) (a : α) (l : List α) : dropAt (k + 1) (a :: l) = a :: dropAt k l := by
  simp [dropAt]
theorem dupAt_zero_cons {α : Type} (a : α) (l : List α) : dupAt 0 (a :: l) = a :: a :: l := by simp [dupAt]
theorem dupAt_succ_cons {α : Type} (k : Nat) (a : α) (l : List α) : dupAt (k + 1) (a :: l) = a :: dupAt k l := by
  simp [dupAt]

theorem dropAt_mid {α : Type} (a x b : List α) (k : Nat) (hk : k < x.length) :
    dropAt (a.length + k) (a ++ x ++ b) = a ++ dropAt k x ++ b := by
  unfold dropAt
  rw [List.append_assoc a x b, List.take_length_add_append, List.take_append_of_le_length (by omega),
    show a.length + k + 1 = a.length + (k + 1) by omega, List.drop_append, List.drop_eq_nil_of_le (by omega),
    Nat.add_sub_cancel_left, List.drop_append_of_le_length (by omega)]
  simp

theorem dupAt_mid {α : Type} (a x b : List α) (k : Nat) (hk : k < x.length) :
    dupAt (a.length + k) (a ++ x ++ b) = a ++ dupAt k x ++ b := by
  unfold dupAt
  rw [List.append_assoc a x b, show a.length + k + 1 = a.length + (k + 1) by omega, List.take_length_add_append,
    List.take_append_of_le_length (by omega), List.drop_append, List.drop_eq_nil_of_le (by omega),
    Nat.add_sub_cancel_left, List.drop_append_of_le_length (by omega)]
  simp

/-- the frame number `k` of a stream of messages lies in exactly one message -/
theorem stream_locate (enc : Bytes → List Bytes) : ∀ (ps : List Bytes) (k : Nat), k < (stream enc ps).length →
    ∃ A p B k', ps = A ++ p :: B ∧ k' < (enc p).length ∧ k = (stream enc A).length + k' := by
  intro ps
  induction ps with
  | nil => intro k hk; simp at hk
  | cons p ps ih =>
    intro k hk
    rw [stream_cons, List.length_append] at hk
    by_cases h : k < (enc p).length
    · exact ⟨[], p, ps, k, rfl, h, by simp⟩
    · obtain ⟨A, q, B, k', he, hk', hkk⟩ := ih (k - (enc p).length) (by omega)
      refine ⟨p :: A, q, B, k', by rw [he]; rfl, hk', ?_⟩
      rw [stream_cons, List.length_append]; omega

theorem stream_mid (enc : Bytes → List Bytes) (A B : List Bytes) (p : Bytes) :
    stream enc (A ++ p :: B) = stream enc A ++ enc p ++ stream enc B := by
  rw [stream_append, stream_cons, List.append_assoc]

/-! ### the two sequence-number facts (wrap-around included) -/

/-- a duplicated Consecutive Frame carries SN = expected − 1, never the expected one (mod 16) -/
theorem sn_dup_ne (j : Nat) : (j + 1) % 16 ≠ (j + 1 + 1) % 16 := by omega

/-- after a lost Consecutive Frame the next one carries SN = expected + 1, never the expected one (mod 16) -/
theorem sn_drop_ne (j : Nat) : (j + 1 + 1) % 16 ≠ (j + 1) % 16 := by omega

/-! ### explicit shape of a segmented message -/

/-- data carried by the `i`-th (0-based) Consecutive Frame when there are `n` full ones before the last -/
def cfBody (g : Spec.TxCfg) (p pad : Bytes) (n i : Nat) : Bytes :=
  if i < n then (p.drop (Spec.ffRoom g p.length + i * Spec.cfRoom g)).take (Spec.cfRoom g)
  else p.drop (Spec.ffRoom g p.length + n * Spec.cfRoom g) ++ pad

def ffFrame (g : Spec.TxCfg) (p : Bytes) : Bytes :=
  g.pre ++ Spec.ffHeader p.length ++ p.take (Spec.ffRoom g p.length)

def cfFrame (g : Spec.TxCfg) (p pad : Bytes) (n i : Nat) : Bytes := Spec.cfOf g.pre i (cfBody g p pad n i)

/-- the `n + 1` Consecutive Frames -/
def cfList (g : Spec.TxCfg) (p pad : Bytes) (n : Nat) : List Bytes := (List.range (n + 1)).map (cfFrame g p pad n)

/-- First Frame, `n` full Consecutive Frames, last Consecutive Frame (padded with `pad`) -/
def segFrames (g : Spec.TxCfg) (p pad : Bytes) (n : Nat) : List Bytes := ffFrame g p :: cfList g p pad n

theorem length_cfList (g : Spec.TxCfg) (p pad : Bytes) (n : Nat) : (cfList g p pad n).length = n + 1 := by
  simp [cfList]

theorem getElem_cfList (g : Spec.TxCfg) (p pad : Bytes) (n i : Nat) (h : i < (cfList g p pad n).length) :
    (cfList g p pad n)[i] = cfFrame g p pad n i := by
  simp [cfList]

theorem cfList_drop (g : Spec.TxCfg) (p pad : Bytes) (n j : Nat) (hj : j ≤ n) :
    (cfList g p pad n).drop j = cfFrame g p pad n j :: (cfList g p pad n).drop (j + 1) := by
  rw [List.drop_eq_getElem_cons (by rw [length_cfList]; omega), getElem_cfList]

theorem mem_cfList (g : Spec.TxCfg) (p pad : Bytes) (n : Nat) (d : Bytes) (h : d ∈ cfList g p pad n) :
    ∃ j X, d = Spec.cfOf g.pre j X := by
  simp only [cfList, List.mem_map, List.mem_range] at h
  obtain ⟨i, _, rfl⟩ := h
  exact ⟨i, _, rfl⟩

/-- what the receiver lemmas need to know about the geometry of the message -/
structure Geom (g : Spec.TxCfg) (c0 : Cfg) (a0 : Addr) (p : Bytes) (n : Nat) : Prop where
  txDl : Spec.validTxDl g.txDl
  len  : p.length < 4294967296
  more : Spec.ffRoom g p.length + n * Spec.cfRoom g < p.length
  hpre : g.pre.length = a0.rx.rxPrefixSize
  hmax : p.length ≤ c0.maxFrameSize

theorem Geom.more_of_lt {g c0 a0 p n} (h : Geom g c0 a0 p n) (i : Nat) (hi : i < n) :
    Spec.ffRoom g p.length + (i + 1) * Spec.cfRoom g < p.length := by
  have := Nat.mul_le_mul_right (Spec.cfRoom g) (show i + 1 ≤ n from hi)
  have := h.more
  omega

theorem Geom.pre_le {g c0 a0 p n} (h : Geom g c0 a0 p n) : g.pre.length ≤ 1 := by
  rw [h.hpre]; exact rxPrefixSize_le _

/-- every segmented well-formed stream has this shape -/
theorem wfSegmented_shape (pre p : Bytes) (frames : List Bytes) (hw : Spec.WfSegmented pre p frames)
    (hp1 : pre.length ≤ 1) :
    ∃ txDl n pad, Spec.validTxDl txDl ∧ p.length < 4294967296 ∧
      Spec.ffRoom (Spec.streamCfg txDl pre) p.length + n * Spec.cfRoom (Spec.streamCfg txDl pre) < p.length ∧
      frames = segFrames (Spec.streamCfg txDl pre) p pad n := by
  obtain ⟨txDl, pad, ds, dLast, htx, hlen, hseg, hchunks, _hlegal, _hle, hframes⟩ := hw
  have h8 := validTxDl_ge txDl htx
  have hk : 1 ≤ Spec.cfRoom (Spec.streamCfg txDl pre) := by simp [Spec.cfRoom, Spec.streamCfg]; omega
  obtain ⟨hfull, hlast, hlo, _hhi⟩ := chunks_split _ hk _ ds dLast hchunks
  rw [List.length_drop] at hlo
  refine ⟨txDl, ds.length, pad, htx, hlen, by omega, ?_⟩
  rw [hframes]
  unfold segFrames cfList ffFrame
  rw [List.range_succ, List.map_append]
  simp only [List.map_cons, List.map_nil, List.cons_append]
  congr 2
  · apply List.map_congr_left
    intro i hi
    have hi' : i < ds.length := List.mem_range.mp hi
    unfold cfFrame cfBody
    rw [if_pos hi', (hfull i hi').1, List.drop_drop]
    rfl
  · unfold cfFrame cfBody
    rw [if_neg (Nat.lt_irrefl _), hlast, List.drop_drop]
    rfl

/-! ### the receiver's reaction, frame by frame -/

/-- the receiver is idle; configuration, address and the reception trace so far are known -/
structure IdleAt (c0 : Cfg) (a0 : Addr) (T0 : List RxEv) (s : State) : Prop where
  idle  : s.rxState = .idle
  cfg   : s.cfg = c0
  addr  : s.addr = a0
  trace : rxTrace s = T0

theorem IdleAt.of_same {c0 a0 T0 s s'} (h : IdleAt c0 a0 T0 s) (hs : RxSame s s') : IdleAt c0 a0 T0 s' :=
  ⟨hs.rxState.trans h.idle, hs.cfg.trans h.cfg, hs.addr.trans h.addr, hs.trace.trans h.trace⟩

theorem IdleAt.delivered {c0 a0 T0 s} (h : IdleAt c0 a0 T0 s) : delivered s = T0.filterMap RxEv.payload := by
  simp [Rx.delivered, h.trace]

theorem sess_delivered {g c0 a0 T0 p i s} (h : InSession g c0 a0 T0 p i s) :
    delivered s = T0.filterMap RxEv.payload := by
  simp [Rx.delivered, h.trace]

/-- Consecutive Frame while idle: rejected with `UnexpectedConsecutiveFrame` -/
theorem IdleAt.cf_step {c0 a0 T s} (h : IdleAt c0 a0 T s) (m : CanMsg) (pre X : Bytes) (j : Nat)
    (hpre : pre.length = a0.rx.rxPrefixSize) (hm : m.data = Spec.cfOf pre j X) :
    IdleAt c0 a0 (T ++ [.err .UnexpectedConsecutiveFrame]) (s.processRx m).1 := by
  have hd := decode_cf pre X (j + 1)
  unfold Spec.cfOf at hm
  rw [← hm, hpre, ← h.addr] at hd
  rw [processRx_cf_idle_eq s m _ _ _ _ hd h.idle]
  refine ⟨h.idle, h.cfg, h.addr, ?_⟩
  rw [rxTrace_cons s _ (.err s.now .UnexpectedConsecutiveFrame) rfl, h.trace]
  simp [rxEv, isRxErr]

/-- Consecutive Frame with another sequence number than the expected one: `WrongSequenceNumber`, reception
    aborted -/
theorem sess_wrong_step {g c0 a0 T p i s} (h : InSession g c0 a0 T p i s) (m : CanMsg) (X : Bytes) (j : Nat)
    (hpre : g.pre.length = a0.rx.rxPrefixSize) (hm : m.data = Spec.cfOf g.pre j X)
    (hne : (j + 1) % 16 ≠ (i + 1) % 16) :
    IdleAt c0 a0 (T ++ [.err .WrongSequenceNumber]) (s.processRx m).1 := by
  have hd := decode_cf g.pre X (j + 1)
  unfold Spec.cfOf at hm
  rw [← hm, hpre, ← h.addr] at hd
  have hsn : (j + 1) % 16 ≠ (s.lastSeq + 1) % 16 := by rw [h.sess.seq]; omega
  rw [processRx_cf_wrongSn_eq s m _ _ _ _ hd h.sess.state hsn]
  refine ⟨rfl, h.cfg, h.addr, ?_⟩
  rw [rxTrace_cons s _ (.err s.now .WrongSequenceNumber) rfl, h.trace]
  simp [rxEv, isRxErr]

/-- the last Consecutive Frame completes the message -/
theorem sess_last_step {g c0 a0 T p i s} (h : InSession g c0 a0 T p i s) (m : CanMsg) (pad : Bytes)
    (hpre : g.pre.length = a0.rx.rxPrefixSize)
    (hm : m.data = Spec.cfOf g.pre i (p.drop (Spec.ffRoom g p.length + i * Spec.cfRoom g) ++ pad)) :
    IdleAt c0 a0 (T ++ [.deliver p]) (s.processRx m).1 := by
  rw [last_cf_step_eq g s m p pad i h.sess (by rw [h.addr]; exact hpre) hm]
  refine ⟨rfl, h.cfg, h.addr, ?_⟩
  rw [rxTrace_cons s _ (.deliver p) rfl, h.trace]
  simp [rxEv]

theorem rxSession_stream {g : Spec.TxCfg} {s : State} {p : Bytes} {i : Nat}
    (h : RxSession (Spec.streamCfg g.txDl g.pre) s p i) : RxSession g s p i :=
  ⟨h.state, h.frameLen, h.buf, h.more, h.seq, h.blk, h.rxdl⟩

/-- First Frame while idle: a session starts, nothing is logged -/
theorem IdleAt.ff_step {g c0 a0 T p n s} (h : IdleAt c0 a0 T s) (hg : Geom g c0 a0 p n) (m : CanMsg)
    (hm : m.data = ffFrame g p) : InSession g c0 a0 T p 0 (s.processRx m).1 := by
  have hseg : Spec.ffRoom (Spec.streamCfg g.txDl g.pre) p.length < p.length := by
    have := hg.more
    show Spec.ffRoom g p.length < p.length
    omega
  have hpre : g.pre.length = s.addr.rx.rxPrefixSize := by rw [h.addr]; exact hg.hpre
  have hmax : p.length ≤ s.cfg.maxFrameSize := by rw [h.cfg]; exact hg.hmax
  have heq := ff_step_eq s m g.txDl g.pre p hpre hg.txDl hg.len hseg hmax hm
  refine ⟨rxSession_stream (ff_starts_session s m g.txDl g.pre p hpre hg.txDl hg.len hseg hmax hm), ?_, ?_, ?_⟩
  · rw [heq]; exact h.cfg
  · rw [heq]; exact h.addr
  · rw [heq, ← h.trace]; exact rxTrace_same _ _ (by simp [h.idle])

/-- First Frame during a reception: `InterruptedWithFirstFrame`, the new session wins -/
theorem sess_ff_step {g' g c0 a0 T q i p n s} (h : InSession g' c0 a0 T q i s) (hg : Geom g c0 a0 p n)
    (m : CanMsg) (hm : m.data = ffFrame g p) :
    InSession g c0 a0 (T ++ [.err .InterruptedWithFirstFrame]) p 0 (s.processRx m).1 := by
  have hseg : Spec.ffRoom (Spec.streamCfg g.txDl g.pre) p.length < p.length := by
    have := hg.more
    show Spec.ffRoom g p.length < p.length
    omega
  have hpre : g.pre.length = s.addr.rx.rxPrefixSize := by rw [h.addr]; exact hg.hpre
  have hmax : p.length ≤ s.cfg.maxFrameSize := by rw [h.cfg]; exact hg.hmax
  have heq := ff_step_eq s m g.txDl g.pre p hpre hg.txDl hg.len hseg hmax hm
  refine ⟨rxSession_stream (ff_starts_session s m g.txDl g.pre p hpre hg.txDl hg.len hseg hmax hm), ?_, ?_, ?_⟩
  · rw [heq]; exact h.cfg
  · rw [heq]; exact h.addr
  · rw [heq, ← h.trace]
    have hw : s.rxState ≠ .idle := by rw [h.sess.state]; simp
    simp only [hw, if_false]
    rw [rxTrace_cons s _ (.err s.now .InterruptedWithFirstFrame) rfl]
    simp [rxEv, isRxErr]

/-- a full Consecutive Frame in sequence -/
theorem sess_mid_step {g c0 a0 T p n i s} (h : InSession g c0 a0 T p i s) (hg : Geom g c0 a0 p n)
    (pad : Bytes) (hi : i < n) (m : CanMsg) (hm : m.data = cfFrame g p pad n i) :
    InSession g c0 a0 T p (i + 1) (s.processRx m).1 := by
  have h8 := validTxDl_ge _ hg.txDl
  have hp1 := hg.pre_le
  refine h.cf_step m hg.hpre (by omega) h8.1 (hg.more_of_lt i hi) ?_
  rw [hm]; unfold cfFrame cfBody; rw [if_pos hi]

/-- Single Frame while idle -/
theorem IdleAt.sf_step {c0 a0 T s} (h : IdleAt c0 a0 T s) (m : CanMsg) (pre p d : Bytes) (esc : Bool) (cdl rdl : Nat)
    (hpre : pre.length = a0.rx.rxPrefixSize) (hm : m.data = d)
    (hd : decode d pre.length = some ⟨.sf p.length p esc, cdl, rdl⟩) (h8 : cdl ≤ 8 ∨ esc = true) :
    IdleAt c0 a0 (T ++ [.deliver p]) (s.processRx m).1 := by
  have hd1 : decode m.data s.addr.rx.rxPrefixSize = some ⟨.sf p.length p esc, cdl, rdl⟩ := by
    rw [hm, h.addr, ← hpre]; exact hd
  obtain ⟨ht, hst, _⟩ := sf_delivers s m _ _ _ _ _ hd1 h8
  obtain ⟨hc, ha⟩ := processRx_cfg_addr s m
  refine ⟨hst, hc.trans h.cfg, ha.trans h.addr, ?_⟩
  rw [ht, h.trace]; simp [h.idle]

/-! ### runs of Consecutive Frames -/

/-- any number of Consecutive Frames while idle: all rejected -/
theorem run_idle {c0 : Cfg} {a0 : Addr} (pre : Bytes) (hpre : pre.length = a0.rx.rxPrefixSize) :
    ∀ (fs : List Bytes), (∀ d ∈ fs, ∃ j X, d = Spec.cfOf pre j X) → ∀ (T : List RxEv) (s s' : State),
    IdleAt c0 a0 T s → Feeds s fs s' →
    IdleAt c0 a0 (T ++ List.replicate fs.length (.err .UnexpectedConsecutiveFrame)) s' := by
  intro fs
  induction fs with
  | nil =>
    intro _ T s s' h hf
    simpa using h.of_same (Feeds.done_iff_trace hf)
  | cons d ds ih =>
    intro hall T s s' h hf
    obtain ⟨j, X, hd⟩ := hall d List.mem_cons_self
    obtain ⟨s1, h1, hr⟩ := Feeds.head (P := IdleAt c0 a0 T)
      (Q := IdleAt c0 a0 (T ++ [.err .UnexpectedConsecutiveFrame])) (fun _ _ h hs => h.of_same hs)
      (fun s m hp hm => hp.cf_step m pre X j hpre (hm.trans hd)) h hf
    have := ih (fun e he => hall e (List.mem_cons_of_mem _ he)) _ s1 s' h1 hr
    simpa [List.replicate_succ] using this

/-- the first `j ≤ n` Consecutive Frames after the First Frame: the session advances, nothing is logged -/
theorem run_mid {g c0 a0 T p n} (hg : Geom g c0 a0 p n) (pad : Bytes) (j : Nat) (hj : j ≤ n) (s s' : State)
    (h : InSession g c0 a0 T p 0 s) (hf : Feeds s ((cfList g p pad n).take j) s') :
    InSession g c0 a0 T p j s' := by
  have hlen : ((cfList g p pad n).take j).length = j := by rw [List.length_take, length_cfList]; omega
  have := Feeds.chain ((cfList g p pad n).take j) (fun i s => InSession g c0 a0 T p i s)
    (fun i s s' h hs => h.of_same hs)
    (fun i s m hi hp hm => by
      rw [hlen] at hi
      refine sess_mid_step hp hg pad (by omega) m ?_
      rw [hm, List.getElem_take, getElem_cfList]) s s' h hf
  rwa [hlen] at this

/-! ### `Feeds`-level building blocks for one segmented message -/

section blocks
variable {g : Spec.TxCfg} {c0 : Cfg} {a0 : Addr} {p : Bytes} {n : Nat}

theorem feeds_ff_idle (hg : Geom g c0 a0 p n) {T : List RxEv} {s s' : State} {fs : List Bytes}
    (h : IdleAt c0 a0 T s) (hf : Feeds s (ffFrame g p :: fs) s') :
    ∃ s1, InSession g c0 a0 T p 0 s1 ∧ Feeds s1 fs s' :=
  Feeds.head (P := IdleAt c0 a0 T) (Q := InSession g c0 a0 T p 0) (fun _ _ h hs => h.of_same hs)
    (fun _ m hp hm => hp.ff_step hg m hm) h hf

theorem feeds_ff_sess (hg : Geom g c0 a0 p n) {g' : Spec.TxCfg} {q : Bytes} {i : Nat} {T : List RxEv} {s s' : State}
    {fs : List Bytes} (h : InSession g' c0 a0 T q i s) (hf : Feeds s (ffFrame g p :: fs) s') :
    ∃ s1, InSession g c0 a0 (T ++ [.err .InterruptedWithFirstFrame]) p 0 s1 ∧ Feeds s1 fs s' :=
  Feeds.head (P := InSession g' c0 a0 T q i) (Q := InSession g c0 a0 (T ++ [.err .InterruptedWithFirstFrame]) p 0)
    (fun _ _ h hs => h.of_same hs) (fun _ m hp hm => sess_ff_step hp hg m hm) h hf

theorem feeds_mid (hg : Geom g c0 a0 p n) (pad : Bytes) (j : Nat) (hj : j ≤ n) {T : List RxEv} {s s' : State}
    {fs : List Bytes} (h : InSession g c0 a0 T p 0 s) (hf : Feeds s ((cfList g p pad n).take j ++ fs) s') :
    ∃ s1, InSession g c0 a0 T p j s1 ∧ Feeds s1 fs s' := by
  obtain ⟨s1, h1, h2⟩ := hf.split
  exact ⟨s1, run_mid hg pad j hj s s1 h h1, h2⟩

theorem feeds_last (hg : Geom g c0 a0 p n) (pad : Bytes) {T : List RxEv} {s s' : State} {fs : List Bytes}
    (h : InSession g c0 a0 T p n s) (hf : Feeds s (cfFrame g p pad n n :: fs) s') :
    ∃ s1, IdleAt c0 a0 (T ++ [.deliver p]) s1 ∧ Feeds s1 fs s' :=
  Feeds.head (P := InSession g c0 a0 T p n) (Q := IdleAt c0 a0 (T ++ [.deliver p])) (fun _ _ h hs => h.of_same hs)
    (fun _ m hp hm => sess_last_step hp m pad hg.hpre (by
      rw [hm]; unfold cfFrame cfBody; rw [if_neg (Nat.lt_irrefl _)])) h hf

theorem feeds_wrong (hg : Geom g c0 a0 p n) (pad : Bytes) (i j : Nat) (hne : (j + 1) % 16 ≠ (i + 1) % 16)
    {T : List RxEv} {s s' : State} {fs : List Bytes}
    (h : InSession g c0 a0 T p i s) (hf : Feeds s (cfFrame g p pad n j :: fs) s') :
    ∃ s1, IdleAt c0 a0 (T ++ [.err .WrongSequenceNumber]) s1 ∧ Feeds s1 fs s' :=
  Feeds.head (P := InSession g c0 a0 T p i) (Q := IdleAt c0 a0 (T ++ [.err .WrongSequenceNumber]))
    (fun _ _ h hs => h.of_same hs)
    (fun _ m hp hm => sess_wrong_step hp m _ j hg.hpre (by rw [hm]; rfl) hne) h hf

theorem feeds_idle_cfs (hg : Geom g c0 a0 p n) (pad : Bytes) (k : Nat) {T : List RxEv} {s s' : State} {fs : List Bytes}
    (h : IdleAt c0 a0 T s) (hf : Feeds s ((cfList g p pad n).drop k ++ fs) s') :
    ∃ s1, IdleAt c0 a0 (T ++ List.replicate (n + 1 - k) (.err .UnexpectedConsecutiveFrame)) s1 ∧ Feeds s1 fs s' := by
  obtain ⟨s1, h1, h2⟩ := hf.split
  have := run_idle (c0 := c0) g.pre hg.hpre _
    (fun d hd => mem_cfList g p pad n d (List.mem_of_mem_drop hd)) T s s1 h h1
  rw [List.length_drop, length_cfList] at this
  exact ⟨s1, this, h2⟩

/-- the Consecutive Frames of the message, all of them, in a session just opened: delivered -/
theorem feeds_cfs_ok (hg : Geom g c0 a0 p n) (pad : Bytes) {T : List RxEv} {s s' : State} {fs : List Bytes}
    (h : InSession g c0 a0 T p 0 s) (hf : Feeds s (cfList g p pad n ++ fs) s') :
    ∃ s1, IdleAt c0 a0 (T ++ [.deliver p]) s1 ∧ Feeds s1 fs s' := by
  have e : cfList g p pad n = (cfList g p pad n).take n ++ [cfFrame g p pad n n] := by
    conv => lhs; rw [← List.take_append_drop n (cfList g p pad n)]
    rw [cfList_drop g p pad n n (Nat.le_refl _), List.drop_eq_nil_of_le (by rw [length_cfList]; omega)]
  rw [e, List.append_assoc] at hf
  obtain ⟨s1, h1, hf1⟩ := feeds_mid hg pad n (Nat.le_refl _) h hf
  exact feeds_last hg pad h1 hf1

end blocks

theorem payload_replicate_err (k : Nat) (e : Err) :
    (List.replicate k (RxEv.err e)).filterMap RxEv.payload = [] := by
  induction k with
  | zero => rfl
  | succ k _ => simp [List.replicate_succ, RxEv.payload]

/-! ### one segmented message with one frame lost or duplicated (the case analysis of C11) -/

section cases
variable {g : Spec.TxCfg} {c0 : Cfg} {a0 : Addr} {p : Bytes} {n : Nat}

/-- reference point: the complete message, idle receiver: delivered, no error -/
theorem seg_complete (hg : Geom g c0 a0 p n) (pad : Bytes) {T : List RxEv} {s s' : State}
    (h : IdleAt c0 a0 T s) (hf : Feeds s (segFrames g p pad n) s') : IdleAt c0 a0 (T ++ [.deliver p]) s' := by
  obtain ⟨s1, h1, hf1⟩ := feeds_ff_idle hg h hf
  rw [← List.append_nil (cfList g p pad n)] at hf1
  obtain ⟨s2, h2, hf2⟩ := feeds_cfs_ok hg pad h1 hf1
  exact h2.of_same (Feeds.done_iff_trace hf2)

/-- First Frame lost: every Consecutive Frame is rejected (`UnexpectedConsecutiveFrame`), nothing is
    delivered, the receiver is idle when the next message starts -/
theorem seg_drop_ff (hg : Geom g c0 a0 p n) (pad : Bytes) {T : List RxEv} {s s' : State}
    (h : IdleAt c0 a0 T s) (hf : Feeds s (dropAt 0 (segFrames g p pad n)) s') :
    IdleAt c0 a0 (T ++ List.replicate (n + 1) (.err .UnexpectedConsecutiveFrame)) s' := by
  rw [segFrames, dropAt_zero_cons] at hf
  have hf' : Feeds s ((cfList g p pad n).drop 0 ++ []) s' := by rw [List.drop_zero, List.append_nil]; exact hf
  obtain ⟨s1, h1, hf1⟩ := feeds_idle_cfs hg pad 0 h hf'
  exact h1.of_same (Feeds.done_iff_trace hf1)

/-- a Consecutive Frame other than the last one lost: the next one has the wrong sequence number
    (`WrongSequenceNumber`, reception aborted), the remaining ones are rejected; nothing is delivered -/
theorem seg_drop_mid (hg : Geom g c0 a0 p n) (pad : Bytes) (j : Nat) (hj : j < n) {T : List RxEv} {s s' : State}
    (h : IdleAt c0 a0 T s) (hf : Feeds s (dropAt (j + 1) (segFrames g p pad n)) s') :
    IdleAt c0 a0 (T ++ [.err .WrongSequenceNumber] ++
      List.replicate (n - j - 1) (.err .UnexpectedConsecutiveFrame)) s' := by
  rw [segFrames, dropAt_succ_cons, dropAt, cfList_drop g p pad n (j + 1) (by omega)] at hf
  obtain ⟨s1, h1, hf1⟩ := feeds_ff_idle hg h hf
  obtain ⟨s2, h2, hf2⟩ := feeds_mid hg pad j (by omega) h1 hf1
  obtain ⟨s3, h3, hf3⟩ := feeds_wrong hg pad j (j + 1) (sn_drop_ne j) h2 hf2
  rw [← List.append_nil (List.drop _ _)] at hf3
  obtain ⟨s4, h4, hf4⟩ := feeds_idle_cfs hg pad (j + 1 + 1) h3 hf3
  rw [show n + 1 - (j + 1 + 1) = n - j - 1 by omega] at h4
  exact h4.of_same (Feeds.done_iff_trace hf4)

/-- the last Consecutive Frame lost: nothing is delivered, nothing is logged, the session stays open -/
theorem seg_drop_last (hg : Geom g c0 a0 p n) (pad : Bytes) {T : List RxEv} {s s' : State}
    (h : IdleAt c0 a0 T s) (hf : Feeds s (dropAt (n + 1) (segFrames g p pad n)) s') :
    InSession g c0 a0 T p n s' := by
  rw [segFrames, dropAt_succ_cons, dropAt, List.drop_eq_nil_of_le (by rw [length_cfList]; omega)] at hf
  obtain ⟨s1, h1, hf1⟩ := feeds_ff_idle hg h hf
  obtain ⟨s2, h2, hf2⟩ := feeds_mid hg pad n (Nat.le_refl _) h1 hf1
  exact h2.of_same (Feeds.done_iff_trace hf2)

/-- First Frame duplicated: the session is restarted with the same data (`InterruptedWithFirstFrame`),
    the message is delivered once -/
theorem seg_dup_ff (hg : Geom g c0 a0 p n) (pad : Bytes) {T : List RxEv} {s s' : State}
    (h : IdleAt c0 a0 T s) (hf : Feeds s (dupAt 0 (segFrames g p pad n)) s') :
    IdleAt c0 a0 (T ++ [.err .InterruptedWithFirstFrame] ++ [.deliver p]) s' := by
  rw [segFrames, dupAt_zero_cons] at hf
  obtain ⟨s1, h1, hf1⟩ := feeds_ff_idle hg h hf
  obtain ⟨s2, h2, hf2⟩ := feeds_ff_sess hg h1 hf1
  rw [← List.append_nil (cfList g p pad n)] at hf2
  obtain ⟨s3, h3, hf3⟩ := feeds_cfs_ok hg pad h2 hf2
  exact h3.of_same (Feeds.done_iff_trace hf3)

/-- a Consecutive Frame other than the last one duplicated: the copy has the wrong sequence number
    (`WrongSequenceNumber`, reception aborted), the remaining frames are rejected; the message is lost -/
theorem seg_dup_mid (hg : Geom g c0 a0 p n) (pad : Bytes) (j : Nat) (hj : j < n) {T : List RxEv} {s s' : State}
    (h : IdleAt c0 a0 T s) (hf : Feeds s (dupAt (j + 1) (segFrames g p pad n)) s') :
    IdleAt c0 a0 (T ++ [.err .WrongSequenceNumber] ++
      List.replicate (n - j) (.err .UnexpectedConsecutiveFrame)) s' := by
  rw [segFrames, dupAt_succ_cons, dupAt, cfList_drop g p pad n j (by omega)] at hf
  obtain ⟨s1, h1, hf1⟩ := feeds_ff_idle hg h hf
  obtain ⟨s2, h2, hf2⟩ := feeds_mid hg pad (j + 1) (by omega) h1 hf1
  obtain ⟨s3, h3, hf3⟩ := feeds_wrong hg pad (j + 1) j (sn_dup_ne j) h2 hf2
  rw [← List.append_nil (List.drop _ _)] at hf3
  obtain ⟨s4, h4, hf4⟩ := feeds_idle_cfs hg pad (j + 1) h3 hf3
  rw [show n + 1 - (j + 1) = n - j by omega] at h4
  exact h4.of_same (Feeds.done_iff_trace hf4)

/-- the last Consecutive Frame duplicated: the message is delivered once, the copy is rejected
    (`UnexpectedConsecutiveFrame`) -/
theorem seg_dup_last (hg : Geom g c0 a0 p n) (pad : Bytes) {T : List RxEv} {s s' : State}
    (h : IdleAt c0 a0 T s) (hf : Feeds s (dupAt (n + 1) (segFrames g p pad n)) s') :
    IdleAt c0 a0 (T ++ [.deliver p] ++ [.err .UnexpectedConsecutiveFrame]) s' := by
  rw [segFrames, dupAt_succ_cons, dupAt, List.take_of_length_le (by rw [length_cfList]; omega)] at hf
  obtain ⟨s1, h1, hf1⟩ := feeds_ff_idle hg h hf
  obtain ⟨s2, h2, hf2⟩ := feeds_cfs_ok hg pad h1 hf1
  rw [← List.append_nil (List.drop _ _)] at hf2
  obtain ⟨s3, h3, hf3⟩ := feeds_idle_cfs hg pad n h2 hf2
  rw [show n + 1 - n = 1 by omega] at h3
  exact h3.of_same (Feeds.done_iff_trace hf3)

end cases

/-! ### Single Frame messages -/

section sf
variable {c0 : Cfg} {a0 : Addr}

theorem feeds_sf_idle (pre p d : Bytes) (esc : Bool) (cdl rdl : Nat) (hpre : pre.length = a0.rx.rxPrefixSize)
    (hd : decode d pre.length = some ⟨.sf p.length p esc, cdl, rdl⟩) (h8 : cdl ≤ 8 ∨ esc = true)
    {T : List RxEv} {s s' : State} {fs : List Bytes} (h : IdleAt c0 a0 T s) (hf : Feeds s (d :: fs) s') :
    ∃ s1, IdleAt c0 a0 (T ++ [.deliver p]) s1 ∧ Feeds s1 fs s' :=
  Feeds.head (P := IdleAt c0 a0 T) (Q := IdleAt c0 a0 (T ++ [.deliver p])) (fun _ _ h hs => h.of_same hs)
    (fun _ m hp hm => hp.sf_step m pre p d esc cdl rdl hpre hm hd h8) h hf

/-- Single Frame during a reception: delivered, then `InterruptedWithSingleFrame`; the old message is dropped -/
theorem sess_sf_step {g : Spec.TxCfg} {T : List RxEv} {q : Bytes} {i : Nat} {s : State}
    (h : InSession g c0 a0 T q i s) (m : CanMsg) (pre p d : Bytes) (esc : Bool) (cdl rdl : Nat)
    (hpre : pre.length = a0.rx.rxPrefixSize) (hm : m.data = d)
    (hd : decode d pre.length = some ⟨.sf p.length p esc, cdl, rdl⟩) (h8 : cdl ≤ 8 ∨ esc = true) :
    IdleAt c0 a0 (T ++ [.deliver p] ++ [.err .InterruptedWithSingleFrame]) (s.processRx m).1 := by
  have hd1 : decode m.data s.addr.rx.rxPrefixSize = some ⟨.sf p.length p esc, cdl, rdl⟩ := by
    rw [hm, h.addr, ← hpre]; exact hd
  obtain ⟨ht, hst, _⟩ := sf_delivers s m _ _ _ _ _ hd1 h8
  obtain ⟨hc, ha⟩ := processRx_cfg_addr s m
  refine ⟨hst, hc.trans h.cfg, ha.trans h.addr, ?_⟩
  have hw : s.rxState ≠ .idle := by rw [h.sess.state]; simp
  rw [ht, h.trace]; simp [hw]

/-- the complete Single Frame message -/
theorem sf_complete (pre p d : Bytes) (esc : Bool) (cdl rdl : Nat) (hpre : pre.length = a0.rx.rxPrefixSize)
    (hd : decode d pre.length = some ⟨.sf p.length p esc, cdl, rdl⟩) (h8 : cdl ≤ 8 ∨ esc = true)
    {T : List RxEv} {s s' : State} (h : IdleAt c0 a0 T s) (hf : Feeds s [d] s') :
    IdleAt c0 a0 (T ++ [.deliver p]) s' := by
  obtain ⟨s1, h1, hf1⟩ := feeds_sf_idle pre p d esc cdl rdl hpre hd h8 h hf
  exact h1.of_same (Feeds.done_iff_trace hf1)

/-- Single Frame lost: the message is simply missing -/
theorem sf_drop (d : Bytes) {T : List RxEv} {s s' : State} (h : IdleAt c0 a0 T s) (hf : Feeds s (dropAt 0 [d]) s') :
    IdleAt c0 a0 T s' := by
  rw [dropAt_zero_cons] at hf
  exact h.of_same (Feeds.done_iff_trace hf)

/-- Single Frame duplicated: the message is delivered twice -/
theorem sf_dup (pre p d : Bytes) (esc : Bool) (cdl rdl : Nat) (hpre : pre.length = a0.rx.rxPrefixSize)
    (hd : decode d pre.length = some ⟨.sf p.length p esc, cdl, rdl⟩) (h8 : cdl ≤ 8 ∨ esc = true)
    {T : List RxEv} {s s' : State} (h : IdleAt c0 a0 T s) (hf : Feeds s (dupAt 0 [d]) s') :
    IdleAt c0 a0 (T ++ [.deliver p] ++ [.deliver p]) s' := by
  rw [dupAt_zero_cons] at hf
  obtain ⟨s1, h1, hf1⟩ := feeds_sf_idle pre p d esc cdl rdl hpre hd h8 h hf
  exact sf_complete pre p d esc cdl rdl hpre hd h8 h1 hf1

end sf

/-! ### the session left open by a lost last Consecutive Frame: the next message is still received intact -/

/-- next message segmented: `InterruptedWithFirstFrame`, the new session wins, the message is delivered -/
theorem open_then_segmented {g' g : Spec.TxCfg} {c0 : Cfg} {a0 : Addr} {q p : Bytes} {i n : Nat}
    (hg : Geom g c0 a0 p n) (pad : Bytes) {T : List RxEv} {s s' : State}
    (h : InSession g' c0 a0 T q i s) (hf : Feeds s (segFrames g p pad n) s') :
    IdleAt c0 a0 (T ++ [.err .InterruptedWithFirstFrame] ++ [.deliver p]) s' := by
  obtain ⟨s1, h1, hf1⟩ := feeds_ff_sess hg h hf
  rw [← List.append_nil (cfList g p pad n)] at hf1
  obtain ⟨s2, h2, hf2⟩ := feeds_cfs_ok hg pad h1 hf1
  exact h2.of_same (Feeds.done_iff_trace hf2)

/-- next message a Single Frame: it is delivered, then `InterruptedWithSingleFrame` -/
theorem open_then_sf {g' : Spec.TxCfg} {c0 : Cfg} {a0 : Addr} {q : Bytes} {i : Nat}
    (pre p d : Bytes) (esc : Bool) (cdl rdl : Nat) (hpre : pre.length = a0.rx.rxPrefixSize)
    (hd : decode d pre.length = some ⟨.sf p.length p esc, cdl, rdl⟩) (h8 : cdl ≤ 8 ∨ esc = true)
    {T : List RxEv} {s s' : State} (h : InSession g' c0 a0 T q i s) (hf : Feeds s [d] s') :
    IdleAt c0 a0 (T ++ [.deliver p] ++ [.err .InterruptedWithSingleFrame]) s' := by
  obtain ⟨s1, h1, hf1⟩ := Feeds.head (P := InSession g' c0 a0 T q i)
    (Q := IdleAt c0 a0 (T ++ [.deliver p] ++ [.err .InterruptedWithSingleFrame])) (fun _ _ h hs => h.of_same hs)
    (fun _ m hp hm => sess_sf_step hp m pre p d esc cdl rdl hpre hm hd h8) h hf
  exact h1.of_same (Feeds.done_iff_trace hf1)

/-! ### any well-formed message, hit by the fault, idle receiver -/

/-- what is delivered of a message of `len` frames whose frame `k` was duplicated: a Single Frame twice;
    First Frame or last Consecutive Frame duplicated: once; another Consecutive Frame: nothing -/
def dupOutcome (len k : Nat) (p : Bytes) : List Bytes :=
  if len = 1 then [p, p] else if k = 0 ∨ k + 1 = len then [p] else []

theorem dupOutcome_sf (k : Nat) (p : Bytes) : dupOutcome 1 k p = [p, p] := by simp [dupOutcome]
theorem dupOutcome_first (n : Nat) (p : Bytes) : dupOutcome (n + 2) 0 p = [p] := by simp [dupOutcome]
theorem dupOutcome_last (n : Nat) (p : Bytes) : dupOutcome (n + 2) (n + 1) p = [p] := by simp [dupOutcome]
theorem dupOutcome_mid (n j : Nat) (p : Bytes) (h : j < n) : dupOutcome (n + 2) (j + 1) p = [] := by
  unfold dupOutcome; rw [if_neg (by omega), if_neg (by omega)]

theorem payload_err (e : Err) : RxEv.payload (.err e) = none := rfl
theorem payload_deliver (p : Bytes) : RxEv.payload (.deliver p) = some p := rfl

theorem wellFormed_cases (pre p : Bytes) (fr : List Bytes) (c0 : Cfg) (a0 : Addr) (hw : Spec.WellFormed pre p fr)
    (hpre : pre.length = a0.rx.rxPrefixSize) (hmax : p.length ≤ c0.maxFrameSize) :
    (∃ d esc cdl rdl, fr = [d] ∧ decode d pre.length = some ⟨.sf p.length p esc, cdl, rdl⟩ ∧ (cdl ≤ 8 ∨ esc = true)) ∨
    (∃ g n pad, g.pre = pre ∧ Geom g c0 a0 p n ∧ fr = segFrames g p pad n) := by
  have hp1 : pre.length ≤ 1 := by rw [hpre]; exact rxPrefixSize_le _
  rcases hw with h | h | h
  · exact Or.inl (sf_wellFormed_decodes pre p fr (Or.inl h))
  · exact Or.inl (sf_wellFormed_decodes pre p fr (Or.inr h))
  · obtain ⟨txDl, n, pad, htx, hlen, hmore, hfr⟩ := wfSegmented_shape pre p fr h hp1
    exact Or.inr ⟨Spec.streamCfg txDl pre, n, pad, rfl, ⟨htx, hlen, hmore, hpre, hmax⟩, hfr⟩

theorem length_segFrames (g : Spec.TxCfg) (p pad : Bytes) (n : Nat) : (segFrames g p pad n).length = n + 2 := by
  simp [segFrames, length_cfList]

/-- one frame of the message lost: nothing of it is delivered (never a truncated or corrupted payload) -/
theorem msg_drop (pre p : Bytes) (fr : List Bytes) (c0 : Cfg) (a0 : Addr) (hw : Spec.WellFormed pre p fr)
    (hpre : pre.length = a0.rx.rxPrefixSize) (hmax : p.length ≤ c0.maxFrameSize) (k : Nat) (hk : k < fr.length)
    {T : List RxEv} {s s' : State} (h : IdleAt c0 a0 T s) (hf : Feeds s (dropAt k fr) s') :
    delivered s' = delivered s := by
  rw [h.delivered]
  rcases wellFormed_cases pre p fr c0 a0 hw hpre hmax with ⟨d, esc, cdl, rdl, rfl, hd, h8⟩ | ⟨g, n, pad, _, hg, rfl⟩
  · have : k = 0 := by simpa using hk
    subst this
    rw [(sf_drop d h hf).delivered]
  · rw [length_segFrames] at hk
    match k, hk with
    | 0, _ =>
      rw [(seg_drop_ff hg pad h hf).delivered]
      simp [List.filterMap_append, payload_replicate_err]
    | j + 1, hj =>
      by_cases hjn : j < n
      · rw [(seg_drop_mid hg pad j hjn h hf).delivered]
        simp [List.filterMap_append, List.filterMap_cons, payload_replicate_err, payload_err]
      · have : j = n := by omega
        subst this
        rw [sess_delivered (seg_drop_last hg pad h hf)]

/-- one frame of the message duplicated: the payload is delivered intact, once, twice (Single Frame) or not
    at all (a middle Consecutive Frame) — never anything else -/
theorem msg_dup (pre p : Bytes) (fr : List Bytes) (c0 : Cfg) (a0 : Addr) (hw : Spec.WellFormed pre p fr)
    (hpre : pre.length = a0.rx.rxPrefixSize) (hmax : p.length ≤ c0.maxFrameSize) (k : Nat) (hk : k < fr.length)
    {T : List RxEv} {s s' : State} (h : IdleAt c0 a0 T s) (hf : Feeds s (dupAt k fr) s') :
    delivered s' = delivered s ++ dupOutcome fr.length k p ∧ s'.rxState = .idle := by
  rw [h.delivered]
  rcases wellFormed_cases pre p fr c0 a0 hw hpre hmax with ⟨d, esc, cdl, rdl, rfl, hd, h8⟩ | ⟨g, n, pad, hgp, hg, rfl⟩
  · have : k = 0 := by simpa using hk
    subst this
    have h2 := sf_dup pre p d esc cdl rdl hpre hd h8 h hf
    rw [h2.delivered, show ([d] : List Bytes).length = 1 from rfl, dupOutcome_sf]
    exact ⟨by simp [List.filterMap_append, payload_deliver], h2.idle⟩
  · rw [length_segFrames] at hk ⊢
    match k, hk with
    | 0, _ =>
      have h2 := seg_dup_ff hg pad h hf
      rw [h2.delivered, dupOutcome_first]
      exact ⟨by simp [List.filterMap_append, List.filterMap_cons, payload_deliver, payload_err], h2.idle⟩
    | j + 1, hj =>
      by_cases hjn : j < n
      · have h2 := seg_dup_mid hg pad j hjn h hf
        rw [h2.delivered, dupOutcome_mid n j p hjn]
        exact ⟨by simp [List.filterMap_append, List.filterMap_cons, payload_replicate_err, payload_err], h2.idle⟩
      · have : j = n := by omega
        subst this
        have h2 := seg_dup_last hg pad h hf
        rw [h2.delivered, dupOutcome_last]
        exact ⟨by simp [List.filterMap_append, List.filterMap_cons, payload_deliver, payload_err], h2.idle⟩

/-! ### the whole stream with one frame lost / duplicated -/

theorem admissible_idleAt {s : State} : s.rxState = .idle → IdleAt s.cfg s.addr (rxTrace s) s :=
  fun h => ⟨h, rfl, rfl, rfl⟩

/-- One frame of message `p` lost (`A` before it, `B` after it): everything else is delivered, intact and in order;
    `p` is missing. -/
theorem stream_drop (pre : Bytes) (enc : Bytes → List Bytes) (A B : List Bytes) (p : Bytes) (k : Nat)
    (hk : k < (enc p).length) (s s' : State) (ha : Admissible s pre enc (A ++ p :: B)) (hi : s.rxState = .idle)
    (hf : Feeds s (stream enc A ++ dropAt k (enc p) ++ stream enc B) s') :
    delivered s' = delivered s ++ (A ++ B) := by
  obtain ⟨s2, hf12, hf3⟩ := hf.split
  obtain ⟨s1, hf1, hf2⟩ := hf12.split
  obtain ⟨ht1, hi1⟩ := messages_idle pre enc A s s1 (ha.sub (fun q hq => List.mem_append_left _ hq)) hi hf1
  obtain ⟨hc1, ha1⟩ := Feeds.cfg_addr hf1
  obtain ⟨hc2, ha2⟩ := Feeds.cfg_addr hf2
  have hp : p ∈ A ++ p :: B := List.mem_append_right _ List.mem_cons_self
  have hd2 := msg_drop pre p (enc p) s1.cfg s1.addr (ha.hwf p hp) (by rw [ha1]; exact ha.hpre)
    (by rw [hc1]; exact ha.hmax p hp) k hk (admissible_idleAt hi1) hf2
  obtain ⟨hd3, _⟩ := messages_any pre enc B s2 s'
    ((ha.sub (fun q hq => List.mem_append_right _ (List.mem_cons_of_mem _ hq))).of_eq (hc2.trans hc1) (ha2.trans ha1)) hf3
  rw [hd3, hd2, delivered_of_trace s s1 _ ht1, delivered_map_deliver]
  simp

/-- One frame of message `p` duplicated: everything else is delivered, intact and in order; `p` itself once, twice
    (Single Frame) or not at all (`dupOutcome`). -/
theorem stream_dup (pre : Bytes) (enc : Bytes → List Bytes) (A B : List Bytes) (p : Bytes) (k : Nat)
    (hk : k < (enc p).length) (s s' : State) (ha : Admissible s pre enc (A ++ p :: B)) (hi : s.rxState = .idle)
    (hf : Feeds s (stream enc A ++ dupAt k (enc p) ++ stream enc B) s') :
    delivered s' = delivered s ++ (A ++ dupOutcome (enc p).length k p ++ B) := by
  obtain ⟨s2, hf12, hf3⟩ := hf.split
  obtain ⟨s1, hf1, hf2⟩ := hf12.split
  obtain ⟨ht1, hi1⟩ := messages_idle pre enc A s s1 (ha.sub (fun q hq => List.mem_append_left _ hq)) hi hf1
  obtain ⟨hc1, ha1⟩ := Feeds.cfg_addr hf1
  obtain ⟨hc2, ha2⟩ := Feeds.cfg_addr hf2
  have hp : p ∈ A ++ p :: B := List.mem_append_right _ List.mem_cons_self
  obtain ⟨hd2, _⟩ := msg_dup pre p (enc p) s1.cfg s1.addr (ha.hwf p hp) (by rw [ha1]; exact ha.hpre)
    (by rw [hc1]; exact ha.hmax p hp) k hk (admissible_idleAt hi1) hf2
  obtain ⟨hd3, _⟩ := messages_any pre enc B s2 s'
    ((ha.sub (fun q hq => List.mem_append_right _ (List.mem_cons_of_mem _ hq))).of_eq (hc2.trans hc1) (ha2.trans ha1)) hf3
  rw [hd3, hd2, delivered_of_trace s s1 _ ht1, delivered_map_deliver]
  simp

/-- the same with the position counted in the whole stream -/
theorem stream_dropAt (pre : Bytes) (enc : Bytes → List Bytes) (ps : List Bytes) (k : Nat)
    (hk : k < (stream enc ps).length) (s s' : State) (ha : Admissible s pre enc ps) (hi : s.rxState = .idle)
    (hf : Feeds s (dropAt k (stream enc ps)) s') :
    ∃ A p B k', ps = A ++ p :: B ∧ k' < (enc p).length ∧ k = (stream enc A).length + k' ∧
      delivered s' = delivered s ++ (A ++ B) := by
  obtain ⟨A, p, B, k', he, hk', hkk⟩ := stream_locate enc ps k hk
  refine ⟨A, p, B, k', he, hk', hkk, ?_⟩
  subst he
  rw [stream_mid, hkk, dropAt_mid _ _ _ _ hk'] at hf
  exact stream_drop pre enc A B p k' hk' s s' ha hi hf

theorem stream_dupAt (pre : Bytes) (enc : Bytes → List Bytes) (ps : List Bytes) (k : Nat)
    (hk : k < (stream enc ps).length) (s s' : State) (ha : Admissible s pre enc ps) (hi : s.rxState = .idle)
    (hf : Feeds s (dupAt k (stream enc ps)) s') :
    ∃ A p B k', ps = A ++ p :: B ∧ k' < (enc p).length ∧ k = (stream enc A).length + k' ∧
      delivered s' = delivered s ++ (A ++ dupOutcome (enc p).length k' p ++ B) := by
  obtain ⟨A, p, B, k', he, hk', hkk⟩ := stream_locate enc ps k hk
  refine ⟨A, p, B, k', he, hk', hkk, ?_⟩
  subst he
  rw [stream_mid, hkk, dupAt_mid _ _ _ _ hk'] at hf
  exact stream_dup pre enc A B p k' hk' s s' ha hi hf

/-- for the plain fold: the rx queue grows by exactly what the log records as delivered -/
theorem feed_queue_of_delivered (s : State) (ms : List CanMsg) (L : List Bytes)
    (h : delivered (feed s ms) = delivered s ++ L) : (feed s ms).rxQueue = s.rxQueue ++ L := by
  obtain ⟨l, hq, hl⟩ := feed_queue_sync ms s
  rw [h] at hl
  rw [hq, List.append_cancel_left hl]

/-! ## G. the setting of C01 / C11: a sender and the layer with the mirrored address -/

/-- sender configuration / address and receiving layer joined by the link -/
structure Link (ca : Cfg) (aa : Addr) (sb : State) : Prop where
  cfgA   : ca.valid = true
  addrA  : aa.tx.txWf = true
  mirror : sb.addr.rx = Spec.mirror aa.tx

/-- the payloads the property is about: non-empty, below 2^32 bytes (what `send` accepts), and not above the
    receiver's `max_frame_size` -/
def Sendable (sb : State) (ps : List Bytes) : Prop :=
  ∀ p ∈ ps, 1 ≤ p.length ∧ p.length ≤ sb.cfg.maxFrameSize ∧ p.length < 4294967296

/-- the CAN message carrying data field `d` (physical target address type; dlc/fd/brs left at their defaults:
    the receiver does not look at them, see `FromSender`) -/
def wireMsg (aa : Addr) (d : Bytes) : CanMsg := { id := aa.tx.txId .physical, ext := aa.tx.mode.is29, data := d }

/-- the frames on the wire for payload `p` -/
def wire (ca : Cfg) (aa : Addr) (p : Bytes) : List CanMsg := (Spec.segment (Spec.TxCfg.of ca aa) p).map (wireMsg aa)

/-- messages sent by `aa`: identifier of either target address type, identifier width of the mode;
    any dlc / fd / brs -/
def FromSender (aa : Addr) (ms : List CanMsg) : Prop :=
  ∀ m ∈ ms, (∃ t, m.id = aa.tx.txId t) ∧ m.ext = aa.tx.mode.is29

theorem wire_fromSender (ca : Cfg) (aa : Addr) (ps : List Bytes) : FromSender aa (ps.map (wire ca aa)).flatten := by
  intro m hm
  simp only [List.mem_flatten, List.mem_map, wire] at hm
  obtain ⟨_, ⟨_, _, rfl⟩, hm⟩ := hm
  simp only [List.mem_map] at hm
  obtain ⟨_, _, rfl⟩ := hm
  exact ⟨⟨.physical, rfl⟩, rfl⟩

theorem wire_data (ca : Cfg) (aa : Addr) (ps : List Bytes) :
    ((ps.map (wire ca aa)).flatten).map (·.data) = stream (Spec.segment (Spec.TxCfg.of ca aa)) ps := by
  induction ps with
  | nil => rfl
  | cons p ps ih =>
    rw [List.map_cons, List.flatten_cons, List.map_append, ih, stream_cons]
    congr 1
    simp [wire, wireMsg, List.map_map, Function.comp_def]

theorem mem_stream (enc : Bytes → List Bytes) (ps : List Bytes) (d : Bytes) (h : d ∈ stream enc ps) :
    ∃ p ∈ ps, d ∈ enc p := by
  simp only [stream, List.mem_flatten, List.mem_map] at h
  obtain ⟨_, ⟨p, hp, rfl⟩, hd⟩ := h
  exact ⟨p, hp, hd⟩

/-- the hypotheses of the receiver-side lemmas, from the setting -/
theorem Link.admissible {ca : Cfg} {aa : Addr} {sb : State} (h : Link ca aa sb) (ps : List Bytes)
    (hs : Sendable sb ps) : Admissible sb aa.tx.txPrefix (Spec.segment (Spec.TxCfg.of ca aa)) ps :=
  ⟨by rw [h.mirror, mirror_rxPrefixSize],
   fun p hp => Proofs.Seg.segment_wellFormed (Spec.TxCfg.of ca aa) (txCfg_valid ca aa h.cfgA) p (hs p hp).1 (hs p hp).2.2,
   fun p hp => (hs p hp).2.1⟩

/-- a whole stream of messages from the sender goes through the filter: the link is the plain `feed` -/
theorem linkFeed_stream (ca : Cfg) (aa : Addr) (sb : State) (h : Link ca aa sb) (ps : List Bytes) (ms : List CanMsg)
    (hfrom : FromSender aa ms) (hsub : ∀ m ∈ ms, m.data ∈ stream (Spec.segment (Spec.TxCfg.of ca aa)) ps) :
    linkFeed sb ms = feed sb ms := by
  apply linkFeed_eq_feed
  intro m hm
  obtain ⟨⟨t, hid⟩, hext⟩ := hfrom m hm
  obtain ⟨p, _, hd⟩ := mem_stream _ _ _ (hsub m hm)
  exact by rw [h.mirror]; exact accepted ca aa t p m h.addrA hid hext hd


theorem map_dropAt {α β : Type} (f : α → β) (k : Nat) (l : List α) : (dropAt k l).map f = dropAt k (l.map f) := by
  simp [dropAt, List.map_take, List.map_drop]

theorem map_dupAt {α β : Type} (f : α → β) (k : Nat) (l : List α) : (dupAt k l).map f = dupAt k (l.map f) := by
  simp [dupAt, List.map_take, List.map_drop]

theorem mem_dropAt {α : Type} (k : Nat) (l : List α) (a : α) (h : a ∈ dropAt k l) : a ∈ l := by
  rcases List.mem_append.mp h with h | h
  · exact List.mem_of_mem_take h
  · exact List.mem_of_mem_drop h

theorem mem_dupAt {α : Type} (k : Nat) (l : List α) (a : α) (h : a ∈ dupAt k l) : a ∈ l := by
  rcases List.mem_append.mp h with h | h
  · exact List.mem_of_mem_take h
  · exact List.mem_of_mem_drop h

/-! ## H. shape of the outcome lists -/

theorem dupOutcome_cases (len k : Nat) (p : Bytes) :
    dupOutcome len k p = [] ∨ dupOutcome len k p = [p] ∨ (dupOutcome len k p = [p, p] ∧ len = 1) := by
  unfold dupOutcome
  split
  · exact Or.inr (Or.inr ⟨rfl, by assumption⟩)
  · split
    · exact Or.inr (Or.inl rfl)
    · exact Or.inl rfl

/-- a lost frame: the deliveries `A ++ B` are payloads that were sent (and a subsequence of them) -/
theorem drop_outcome (A B ps : List Bytes) (p : Bytes) (he : ps = A ++ p :: B) :
    (∀ q ∈ A ++ B, q ∈ ps) ∧ (A ++ B).Sublist ps := by
  subst he
  refine ⟨?_, List.Sublist.append (List.Sublist.refl A) (List.sublist_cons_self p B)⟩
  intro q hq
  rcases List.mem_append.mp hq with hq | hq
  · exact List.mem_append_left _ hq
  · exact List.mem_append_right _ (List.mem_cons_of_mem _ hq)

/-- a duplicated frame: the deliveries are `ps` without `p`, or `ps`, or `ps` with `p` doubled (Single Frame only) -/
theorem dup_outcome (A B ps : List Bytes) (p : Bytes) (len k : Nat) (he : ps = A ++ p :: B) :
    (A ++ dupOutcome len k p ++ B = A ++ B ∨ A ++ dupOutcome len k p ++ B = ps ∨
      (A ++ dupOutcome len k p ++ B = A ++ [p, p] ++ B ∧ len = 1)) ∧
    (∀ q ∈ A ++ dupOutcome len k p ++ B, q ∈ ps) := by
  subst he
  rcases dupOutcome_cases len k p with h0 | h1 | ⟨h2, hl⟩
  · rw [h0]
    exact ⟨Or.inl (by simp), fun q hq => by grind⟩
  · rw [h1]
    exact ⟨Or.inr (Or.inl (by simp)), fun q hq => by grind⟩
  · rw [h2]
    exact ⟨Or.inr (Or.inr ⟨rfl, hl⟩), fun q hq => by grind⟩

end Isotp.Compose
