import Isotp.Threaded
/-
  Helper definitions and lemmas for the threaded wrapper (`Isotp/Threaded.lean`):
  schedules (`TL.Step`, `TL.step`, `TL.run`), facts about `State.reset`, the lifecycle
  (`start` / `stop`), the relay queue (`takeUntilNone`), `send` and frame conditions of
  `State.process`.  Property theorems are in `Isotp/Props/C13.lean` and `Isotp/Props/C14.lean`.
-/
set_option linter.unusedSimpArgs false
set_option linter.unusedVariables false

namespace Isotp

/-! ## `State.reset` -/
namespace State

theorem clearTxQueue_eq (s : State) (l : List Req) :
    s.clearTxQueue l =
      { s with txQueue := [], log := (l.reverse.map fun r => Ev.done r.id false) ++ s.log } := by
  induction l generalizing s with
  | nil => simp [clearTxQueue]
  | cons r rest ih => simp [clearTxQueue, ih, emit]

/-- the events `reset` puts in front of the log (the log is newest-first): one failed completion per
    queued request, then one for the request in transmission -/
def resetEvents (s : State) : List Ev :=
  (match s.active with | some r => [Ev.done r.id false] | none => []) ++
    (s.txQueue.reverse.map fun r => Ev.done r.id false)

theorem reset_log (s : State) : s.reset.log = s.resetEvents ++ s.log := by
  unfold reset resetEvents
  simp only [clearTxQueue_eq, stopSending, stopReceiving, emit]
  cases h : s.active <;> simp [h]

/-- every FSM field has its constructor value (what `reset()` / `__init__` establish) -/
structure Fresh (s : State) : Prop where
  rxState : s.rxState = .idle
  txState : s.txState = .idle
  txQueue : s.txQueue = []
  rxQueue : s.rxQueue = []
  active : s.active = none
  standby : s.standby = none
  rxBuf : s.rxBuf = []
  pendingFc : s.pendingFc = false
  lastFc : s.lastFc = none
  actualRxdl : s.actualRxdl = none
  remoteBs : s.remoteBs = none
  txFrameLen : s.txFrameLen = 0
  txSeq : s.txSeq = 0
  txBlockCnt : s.txBlockCnt = 0
  wftCnt : s.wftCnt = 0
  timerCf : s.timerCf.start = none
  timerFc : s.timerFc.start = none
  timerStmin : s.timerStmin.start = none
  rlSlots : s.rl.slots = []
  rlBits : s.rl.bitTotal = 0

theorem reset_fresh (s : State) : s.reset.Fresh := by
  constructor <;>
  (cases h : s.active <;>
    simp [reset, clearTxQueue_eq, stopSending, stopReceiving, emit, Timer.stop, Limiter.reset, h])

/-- dropping the unread input does not touch any FSM field -/
theorem Fresh.dropInbox {s : State} (h : s.Fresh) : ({ s with inbox := [] } : State).Fresh := by
  obtain ⟨h1, h2, h3, h4, h5, h6, h7, h8, h9, h10, h11, h12, h13, h14, h15, h16, h17, h18, h19, h20⟩ := h
  exact ⟨h1, h2, h3, h4, h5, h6, h7, h8, h9, h10, h11, h12, h13, h14, h15, h16, h17, h18, h19, h20⟩

theorem init_fresh (c : Cfg) (a : Addr) : (State.init c a).Fresh := by
  constructor <;> simp [State.init]

/-- what `reset` does not touch -/
theorem reset_frame (s : State) : s.reset.cfg = s.cfg ∧ s.reset.addr = s.addr ∧ s.reset.exc = s.exc
    ∧ s.reset.inbox = s.inbox ∧ s.reset.now = s.now := by
  unfold reset; simp only [clearTxQueue_eq, stopSending, stopReceiving, emit]
  cases h : s.active <;> simp [h]

theorem Fresh.resetEvents_nil {s : State} (h : s.Fresh) : s.resetEvents = [] := by
  simp [resetEvents, h.active, h.txQueue]

theorem reset_reset_log (s : State) : s.reset.reset.log = s.reset.log := by
  rw [reset_log s.reset, (reset_fresh s).resetEvents_nil]; simp

theorem done_mem_resetEvents (s : State) (r : Req) (h : r ∈ s.txQueue ∨ s.active = some r) :
    Ev.done r.id false ∈ s.resetEvents := by
  unfold resetEvents
  rcases h with h | h
  · apply List.mem_append_right
    simp only [List.mem_map, List.mem_reverse]
    exact ⟨r, h, rfl⟩
  · simp [h]

/-! ### `send` -/

/-- the argument check of `send` (the three `ValueError` sites) -/
def sendBad (s : State) (a : SendArgs) : Bool :=
  a.size < 0 || a.size > 0xFFFFFFFF ||
    (a.tat.getD s.cfg.defaultTat = .functional &&
      a.size.toNat + (if s.cfg.txDl = 8 then 1 else 2) + s.txPrefixLen > s.cfg.txDl)

/-- the request object `send` enqueues -/
def sendReq (s : State) (a : SendArgs) : Req :=
  { id := a.id, size := a.size.toNat, src := a.src, tat := a.tat.getD s.cfg.defaultTat, instr := a.instr }

theorem send_eq (s : State) (a : SendArgs) :
    s.send a =
      if s.sendBad a then (s, some .ValueError)
      else ({ s with txQueue := s.txQueue ++ [s.sendReq a] },
            if s.cfg.blocking then some .BlockingSendTimeout else none) := by
  unfold send sendBad sendReq
  by_cases h1 : a.size < 0
  · simp [h1]
  · by_cases h2 : a.size > 0xFFFFFFFF
    · simp [h1, h2]
    · by_cases h3 : (a.tat.getD s.cfg.defaultTat = .functional ∧
          a.size.toNat + (if s.cfg.txDl = 8 then 1 else 2) + s.txPrefixLen > s.cfg.txDl)
      · simp [h1, h2, h3]
      · by_cases h4 : s.cfg.blocking = true
        · simp [h1, h2, h3, h4]
        · simp [h1, h2, h3, h4]

end State

/-! ## Frame conditions of the logic layer: what `process` and its parts never touch -/

/-- the frames `rxfn` returned, as recorded in a log (newest first, like the log) -/
def rxOf : List Ev → List CanMsg
  | [] => []
  | .rx _ m :: l => m :: rxOf l
  | _ :: l => rxOf l

namespace State

/-- `s'` differs from `s` only in FSM fields: same configuration, address, tx queue, pending input and
    the same frames read so far -/
def Keeps (s s' : State) : Prop :=
  s'.cfg = s.cfg ∧ s'.addr = s.addr ∧ s'.txQueue = s.txQueue ∧ s'.inbox = s.inbox ∧ rxOf s'.log = rxOf s.log

theorem Keeps.refl (s : State) : Keeps s s := ⟨rfl, rfl, rfl, rfl, rfl⟩
theorem Keeps.trans {a b c : State} (h1 : Keeps a b) (h2 : Keeps b c) : Keeps a c := by
  unfold Keeps at *; grind

theorem error_keeps (s : State) (e) : Keeps s (s.error e) := by
  simp [Keeps, State.error, emit, rxOf]
theorem raise_keeps (s : State) (e) : Keeps s (s.raise e) := by
  simp [Keeps, State.raise]
theorem stopSending_keeps (s : State) (b : Bool) : Keeps s (s.stopSending b) := by
  unfold Keeps stopSending
  cases h : s.active <;> simp [emit, rxOf]
theorem stopReceiving_keeps (s : State) : Keeps s s.stopReceiving := by
  simp [Keeps, stopReceiving]
theorem startRxFcTimer_keeps (s : State) : Keeps s s.startRxFcTimer := by
  simp [Keeps, startRxFcTimer]
theorem startRxCfTimer_keeps (s : State) : Keeps s s.startRxCfTimer := by
  simp [Keeps, startRxCfTimer]
theorem requestFc_keeps (s : State) (n) : Keeps s (s.requestFc n) := by
  simp [Keeps, requestFc]
theorem deliver_keeps (s : State) (p) : Keeps s (s.deliver p) := by
  simp [Keeps, deliver, emit, rxOf]
theorem consumeActive_keeps (s : State) (r n e) : Keeps s (s.consumeActive r n e).1 := by
  unfold Keeps consumeActive
  grind [emit, rxOf]

theorem transmitCf_keeps (s : State) (n : Nat) : Keeps s (s.transmitCf n).1 := by
  unfold transmitCf
  grind (splits := 40) [Keeps, consumeActive_keeps, stopSending_keeps, error_keeps, raise_keeps, startRxFcTimer_keeps]

theorem startTx_keeps (s : State) (r : Req) (n : Nat) : Keeps s (s.startTx r n).1 := by
  unfold startTx
  grind (splits := 40) [Keeps, consumeActive_keeps, stopSending_keeps, error_keeps, raise_keeps, startRxFcTimer_keeps]

theorem handleFc_keeps (s : State) (f : FcFrame) : Keeps s (s.handleFc f) := by
  unfold handleFc
  grind (splits := 40) [Keeps, stopSending_keeps, error_keeps, startRxFcTimer_keeps]

theorem checkTimeoutsRx_keeps (s : State) : Keeps s s.checkTimeoutsRx := by
  unfold checkTimeoutsRx
  grind [Keeps, stopReceiving_keeps, error_keeps]

theorem processRx_keeps (s : State) (m : CanMsg) : Keeps s (s.processRx m).1 := by
  unfold processRx startReception
  grind (splits := 40) [Keeps, deliver_keeps, stopReceiving_keeps, error_keeps, requestFc_keeps, startRxCfTimer_keeps]

/-- like `Keeps`, but the tx queue may have lost a prefix (requests taken for transmission) -/
def KeepsQ (s s' : State) : Prop :=
  s'.cfg = s.cfg ∧ s'.addr = s.addr ∧ (∃ pre, pre ++ s'.txQueue = s.txQueue) ∧ s'.inbox = s.inbox ∧
    rxOf s'.log = rxOf s.log

theorem Keeps.toQ {s s' : State} (h : Keeps s s') : KeepsQ s s' := by
  unfold Keeps at h; unfold KeepsQ; refine ⟨h.1, h.2.1, ⟨[], ?_⟩, h.2.2.2.1, h.2.2.2.2⟩; simp [h.2.2.1]

theorem KeepsQ.refl (s : State) : KeepsQ s s := (Keeps.refl s).toQ

theorem KeepsQ.trans {a b c : State} (h1 : KeepsQ a b) (h2 : KeepsQ b c) : KeepsQ a c := by
  obtain ⟨h11, h12, ⟨p1, h13⟩, h14, h15⟩ := h1
  obtain ⟨h21, h22, ⟨p2, h23⟩, h24, h25⟩ := h2
  refine ⟨h21.trans h11, h22.trans h12, ⟨p1 ++ p2, ?_⟩, h24.trans h14, h25.trans h15⟩
  rw [List.append_assoc, h23, h13]

theorem readTxQueue_keeps (s : State) (n : Nat) (l : List Req) :
    KeepsQ { s with txQueue := l } (s.readTxQueue n l).1 := by
  induction l generalizing s with
  | nil => simp only [readTxQueue]; exact KeepsQ.refl _
  | cons r rest ih =>
    simp only [readTxQueue]
    split
    · have := ih ({ ({ s with txQueue := rest, active := some r } : State).emit (.done r.id true) with active := none })
      refine KeepsQ.trans ?_ this
      refine ⟨rfl, rfl, ⟨[r], rfl⟩, rfl, ?_⟩
      simp [emit, rxOf]
    · have := (startTx_keeps ({ s with txQueue := rest, active := some r } : State) r n).toQ
      refine KeepsQ.trans ?_ this
      exact ⟨rfl, rfl, ⟨[r], rfl⟩, rfl, rfl⟩

/-! #### `_process_tx` cut in stages (copies of the model text; `processTx_eq` is by `rfl`) -/

def ptPend (s : State) : State × Option (Option CanMsg) :=
    if s.pendingFc then
      let s := { s with pendingFc := false }
      match s.pendingFcStatus with
      | none => (s.raise .AttributeError, some none)
      | some st =>
        let s := if st = 0 then s.startRxCfTimer else s
        if !s.cfg.listen then
          match makeFlowControl s.cfg s.addr st with
          | none => (s.raise .ValueError, some none)
          | some msg => (s, some (some msg))
        else (s, none)
    else (s, none)

def ptFc (s : State) : State × Bool :=
    let fc := s.lastFc
    let s := { s with lastFc := none }
    match fc with
      | some f => if f.status = 2 then (((s.stopSending false).error .Overflow), true) else (s.handleFc f, false)
      | none => (s, false)

def ptPre (s : State) : State :=
  if s.timerFc.timedOut s.now then (s.error .FlowControlTimeout).stopSending false else s

def ptDepl (s : State) : State :=
  if s.txState ≠ .idle && (match s.active with | some r => r.depleted | none => false) && s.standby.isNone
               then s.stopSending true else s

def ptFsm (s : State) (allowed : Nat) : State × Option CanMsg × Bool :=
        match s.txState with
        | .idle =>
          let (s, out) := s.readTxQueue allowed s.txQueue
          (s, out, false)
        | .sfStandby | .ffStandby =>
          match s.standby with
          | some msg =>
            if msg.data.length ≤ allowed then
              let s := { s with standby := none }
              if s.txState = .ffStandby then
                (({ s.startRxFcTimer with txState := .waitFc }), some msg, false)
              else (s.stopSending true, some msg, false)
            else (s, none, false)
          | none => (s, none, false)
        | .waitFc => (s, none, false)
        | .transmitCf => s.transmitCf allowed

def ptOut (r : State × Option CanMsg × Bool) : State × Option CanMsg × Bool :=
  let (s, out, imm) := r
  if s.exc.isSome then (s, none, false) else
      match out with
      | some msg => ({ s with rl := s.rl.inform s.now msg.data.length }, some msg, imm)
      | none => (s, none, imm)

theorem processTx_eq (s : State) : s.processTx =
    (let allowed := s.rl.allowedBytes s.cfg.rlBitMax
     match ptPend s with
     | (s, some none) => (s, none, false)
     | (s, some (some msg)) => (s, some msg, true)
     | (s, none) =>
       match ptFc s with
       | (s, true) => (s, none, false)
       | (s, false) =>
         let s := ptPre s
         if s.txState ≠ .idle && s.active.isNone then (s.raise .AssertionError, none, false) else
         ptOut (ptFsm (ptDepl s) allowed)) := rfl

theorem ptPend_keeps (s : State) : Keeps s (ptPend s).1 := by
  unfold ptPend
  grind (splits := 40) [Keeps, raise_keeps, startRxCfTimer_keeps]

theorem ptFc_keeps (s : State) : Keeps s (ptFc s).1 := by
  unfold ptFc
  grind (splits := 40) [Keeps, stopSending_keeps, error_keeps, handleFc_keeps]

theorem ptPre_keeps (s : State) : Keeps s (ptPre s) := by
  unfold ptPre
  grind [Keeps, stopSending_keeps, error_keeps]

theorem ptDepl_keeps (s : State) : Keeps s (ptDepl s) := by
  unfold ptDepl
  grind [Keeps, stopSending_keeps]

theorem ptFsm_keeps (s : State) (n : Nat) : KeepsQ s (ptFsm s n).1 := by
  unfold ptFsm
  split
  · exact readTxQueue_keeps s n s.txQueue
  · apply Keeps.toQ; grind (splits := 40) [Keeps, stopSending_keeps, startRxFcTimer_keeps]
  · apply Keeps.toQ; grind (splits := 40) [Keeps, stopSending_keeps, startRxFcTimer_keeps]
  · exact KeepsQ.refl s
  · exact (transmitCf_keeps s n).toQ

theorem ptOut_keeps (r : State × Option CanMsg × Bool) : Keeps r.1 (ptOut r).1 := by
  unfold ptOut
  grind [Keeps]

theorem processTx_keeps (s : State) : KeepsQ s s.processTx.1 := by
  rw [processTx_eq]
  have h1 := ptPend_keeps s
  split
  · rename_i h; rw [h] at h1; exact h1.toQ
  · rename_i h; rw [h] at h1; exact h1.toQ
  · rename_i s1 h; rw [h] at h1
    have h2 := ptFc_keeps s1
    split
    · rename_i h'; rw [h'] at h2; exact (h1.trans h2).toQ
    · rename_i s2 h'; rw [h'] at h2
      have h3 := (h1.trans h2).trans (ptPre_keeps s2)
      dsimp only
      split
      · exact (h3.trans (raise_keeps _ _)).toQ
      · exact ((h3.trans (ptDepl_keeps _)).toQ.trans (ptFsm_keeps _ _)).trans (ptOut_keeps _).toQ

theorem emit_tx_keeps (s : State) (t m) : Keeps s (s.emit (.tx t m)) := by simp [Keeps, emit, rxOf]
theorem emit_rxNone_keeps (s : State) (t) : Keeps s (s.emit (.rxNone t)) := by simp [Keeps, emit, rxOf]

theorem txLoop_keeps (f : Nat) (s : State) (n : Nat) : KeepsQ s (txLoop f s n).1 := by
  induction f generalizing s n with
  | zero => simp only [txLoop]; exact KeepsQ.refl s
  | succ f ih =>
    simp only [txLoop]
    have h1 := processTx_keeps s
    generalize hr : s.processTx = r at h1
    obtain ⟨s1, out, imm⟩ := r
    dsimp only at h1 ⊢
    split
    · exact h1
    · cases out with
      | none =>
        dsimp only
        split
        · exact h1
        · simp; exact h1
      | some m =>
        have h2 : KeepsQ s (s1.emit (.tx s1.now m)) := h1.trans (emit_tx_keeps _ _ _).toQ
        dsimp only
        split
        · exact h2
        · simp; exact h2.trans (ih _ _)

/-- what `process` guarantees about configuration, tx queue and input: nothing is lost, duplicated or
    reordered on the way from `inbox` to `_process_rx` (the `rx` events), the tx queue only loses a prefix -/
def Flow (s s' : State) : Prop :=
  s'.cfg = s.cfg ∧ s'.addr = s.addr ∧ (∃ pre, pre ++ s'.txQueue = s.txQueue) ∧
    (rxOf s'.log).reverse ++ s'.inbox.map (·.2) = (rxOf s.log).reverse ++ s.inbox.map (·.2)

theorem KeepsQ.toFlow {s s' : State} (h : KeepsQ s s') : Flow s s' := by
  obtain ⟨h1, h2, h3, h4, h5⟩ := h
  exact ⟨h1, h2, h3, by rw [h4, h5]⟩

theorem Flow.refl (s : State) : Flow s s := (KeepsQ.refl s).toFlow

theorem Flow.trans {a b c : State} (h1 : Flow a b) (h2 : Flow b c) : Flow a c := by
  obtain ⟨h11, h12, ⟨p1, h13⟩, h14⟩ := h1
  obtain ⟨h21, h22, ⟨p2, h23⟩, h24⟩ := h2
  refine ⟨h21.trans h11, h22.trans h12, ⟨p1 ++ p2, ?_⟩, h24.trans h14⟩
  rw [List.append_assoc, h23, h13]

/-- one `rxfn` call returning `(dt, m)` -/
def rxStep (s : State) (rest : List (Nat × CanMsg)) (dt : Nat) (m : CanMsg) : State :=
  (({ s with inbox := rest, now := s.now + dt } : State).emit (Ev.rx (s.now + dt) m)).checkTimeoutsRx

theorem rxStep_flow (s : State) (rest : List (Nat × CanMsg)) (dt : Nat) (m : CanMsg)
    (h : s.inbox = (dt, m) :: rest) : Flow s (rxStep s rest dt m) ∧ (rxStep s rest dt m).inbox = rest := by
  have hk := checkTimeoutsRx_keeps (({ s with inbox := rest, now := s.now + dt } : State).emit (Ev.rx (s.now + dt) m))
  obtain ⟨k1, k2, k3, k4, k5⟩ := hk
  simp only [emit] at k1 k2 k3 k4 k5
  unfold rxStep
  simp only [emit]
  refine ⟨⟨k1, k2, ⟨[], by simp [k3]⟩, ?_⟩, k4⟩
  rw [k4, k5, h]; simp [rxOf]

theorem rxLoop_flow (doTx : Bool) (l : List (Nat × CanMsg)) (s : State) (st : Stats) (h : s.inbox = l) :
    Flow s (rxLoop doTx s st l).1 := by
  induction l generalizing s st with
  | nil =>
    simp only [rxLoop]
    have h0 : Keeps s ({ s with inbox := [] } : State) := by rw [← h]; exact Keeps.refl s
    exact ((h0.trans (emit_rxNone_keeps _ _)).trans (checkTimeoutsRx_keeps _)).toQ.toFlow
  | cons x rest ih =>
    obtain ⟨dt, m⟩ := x
    simp only [rxLoop]
    have key := rxStep_flow s rest dt m h
    unfold rxStep at key
    generalize (({ s with inbox := rest, now := s.now + dt } : State).emit (Ev.rx (s.now + dt) m)).checkTimeoutsRx = s1 at key ⊢
    obtain ⟨hf, hi⟩ := key
    have hp := processRx_keeps s1 m
    generalize s1.processRx m = p at hp ⊢
    obtain ⟨s2, imm, fr⟩ := p
    dsimp only at hp ⊢
    have hf2 : Flow s s2 := hf.trans hp.toQ.toFlow
    have hi2 : s2.inbox = rest := by rw [hp.2.2.2.1, hi]
    split
    · split
      · exact hf2
      · split
        · exact hf2
        · exact hf2.trans (ih _ _ hi2)
    · split
      · exact hf
      · exact hf.trans (ih _ _ hi)

/-! #### `process` cut in stages -/

def plRx (doRx doTx : Bool) (s : State) (st : Stats) : State × Stats × Bool :=
    let startWithTx := doTx && !s.txQueue.isEmpty && s.rxState = .idle && s.txState = .idle
    if doRx && !startWithTx then s.rxLoop doTx st s.inbox else (s, st, false)

def plTx (doTx : Bool) (s : State) (st : Stats) : State × Stats × Bool × Bool :=
    let s := { s with rl := s.rl.update s.cfg.rlWindowNs s.now }
      if doTx then
        let (s, n, run, oof) := txLoop s.txFuel s st.sent
        (s, { st with sent := n }, run, oof)
      else (s, st, false, false)

theorem processLoop_succ (f : Nat) (doRx doTx : Bool) (s : State) (st : Stats) :
    processLoop (f + 1) doRx doTx s st =
      (let startWithTx := doTx && !s.txQueue.isEmpty && s.rxState = .idle && s.txState = .idle
       let (s, st, rxRun) := plRx doRx doTx s st
       let (s, st, run, oof) := plTx doTx s st
       if s.exc.isSome then (s, st, false)
       else if oof then (s, st, true)
       else if startWithTx || rxRun || run then processLoop f doRx doTx s st
       else (s, st, false)) := rfl

theorem plRx_flow (doRx doTx : Bool) (s : State) (st : Stats) : Flow s (plRx doRx doTx s st).1 := by
  unfold plRx
  dsimp only
  split
  · exact rxLoop_flow doTx s.inbox s st rfl
  · exact Flow.refl s

theorem plTx_keeps (doTx : Bool) (s : State) (st : Stats) : KeepsQ s (plTx doTx s st).1 := by
  unfold plTx
  dsimp only
  have h0 : KeepsQ s ({ s with rl := s.rl.update s.cfg.rlWindowNs s.now } : State) := ⟨rfl, rfl, ⟨[], rfl⟩, rfl, rfl⟩
  split
  · exact h0.trans (txLoop_keeps _ _ _)
  · exact h0

theorem processLoop_flow (f : Nat) (doRx doTx : Bool) (s : State) (st : Stats) :
    Flow s (processLoop f doRx doTx s st).1 := by
  induction f generalizing s st with
  | zero => simp only [processLoop]; exact Flow.refl s
  | succ f ih =>
    rw [processLoop_succ]
    have h1 := plRx_flow doRx doTx s st
    generalize plRx doRx doTx s st = r at h1 ⊢
    obtain ⟨s1, st1, rxRun⟩ := r
    dsimp only at h1 ⊢
    have h2 := plTx_keeps doTx s1 st1
    generalize plTx doTx s1 st1 = r2 at h2 ⊢
    obtain ⟨s2, st2, run, oof⟩ := r2
    dsimp only at h1 h2 ⊢
    have h3 : Flow s s2 := h1.trans h2.toFlow
    split
    · exact h3
    · split
      · exact h3
      · split
        · exact h3.trans (ih _ _)
        · exact h3

/-- `process()` never loses, duplicates or reorders input frames, never changes configuration or address,
    and only takes requests from the front of the tx queue -/
theorem process_flow (s : State) (doRx doTx : Bool) : Flow s (s.process doRx doTx).1 :=
  processLoop_flow _ _ _ _ _

theorem rxOf_append (a b : List Ev) : rxOf (a ++ b) = rxOf a ++ rxOf b := by
  induction a with
  | nil => rfl
  | cons e a ih => cases e <;> simp [rxOf, ih]

theorem rxOf_resetEvents (s : State) : rxOf s.resetEvents = [] := by
  unfold resetEvents
  rw [rxOf_append]
  have : ∀ l : List Req, rxOf (l.map fun r => Ev.done r.id false) = [] := by
    intro l; induction l with
    | nil => rfl
    | cons r l ih => simp [rxOf, ih]
  rw [this]
  cases s.active <;> simp [rxOf]

theorem reset_flow (s : State) : Flow s s.reset := by
  obtain ⟨h1, h2, _, h4, _⟩ := reset_frame s
  refine ⟨h1, h2, ⟨s.txQueue, by simp [(reset_fresh s).txQueue]⟩, ?_⟩
  rw [h4, reset_log, rxOf_append, rxOf_resetEvents]; simp

end State

/-! ## Schedules -/
namespace TL

/-- the atomic steps of the threaded layer: the public methods called by user threads, one iteration
    of each internal thread, and the environment putting a frame on the bus -/
inductive Step where
  | start | stop
  | send (a : State.SendArgs)
  | recv
  | process (doRx doTx : Bool)
  | reset | stopSending | stopReceiving
  | relayStep | workerStep
  | busPut (m : CanMsg)
  deriving Repr, Inhabited

/-- a frame appears on the bus (the user `rxfn` will return it) -/
def busPut (t : TL) (m : CanMsg) : TL := { t with bus := t.bus ++ [m] }

/-- one atomic step and the exception class the call raises, if any -/
def step (t : TL) : Step → TL × Option PyExc
  | .start => t.start
  | .stop => t.stop
  | .send a => t.send a
  | .recv => (t.recv.1, none)
  | .process rx tx => t.process rx tx
  | .reset => t.reset
  | .stopSending => t.stopSending
  | .stopReceiving => t.stopReceiving
  | .relayStep => (t.relayStep, none)
  | .workerStep => (t.workerStep, none)
  | .busPut m => (t.busPut m, none)

/-- an arbitrary interleaving of user threads, internal threads and the bus is a `List Step` -/
def run (t : TL) : List Step → TL
  | [] => t
  | s :: ss => run (t.step s).1 ss

@[simp] theorem run_nil (t : TL) : t.run [] = t := rfl
@[simp] theorem run_cons (t : TL) (s : Step) (ss : List Step) : t.run (s :: ss) = (t.step s).1.run ss := rfl

theorem run_append (t : TL) (xs ys : List Step) : t.run (xs ++ ys) = (t.run xs).run ys := by
  induction xs generalizing t with
  | nil => rfl
  | cons x xs ih => simp [ih]

theorem run_snoc (t : TL) (xs : List Step) (s : Step) : t.run (xs ++ [s]) = ((t.run xs).step s).1 := by
  simp [run_append]

/-- states reachable from a constructed layer -/
def Reachable (c : Cfg) (a : Addr) (t : TL) : Prop := ∃ sched : List Step, t = (TL.init c a).run sched

/-! ## Lifecycle -/

theorem stop_exc (t : TL) : t.stop.2 = none := rfl

/-- `stop()` in closed form: everything is at its constructor value except the logic layer (reset
    once by the exiting worker when there is one, once by `stop` itself, unread input dropped) and the bus -/
theorem stop_fst (t : TL) :
    t.stop.1 = { core := { (if t.mainThread = .running then t.core.reset else t.core).reset with inbox := [] },
                 bus := t.bus } := by
  simp only [stop, workerExit]
  split <;> rfl

theorem stop_core_fresh (t : TL) : t.stop.1.core.Fresh := by
  rw [stop_fst]; exact (State.reset_fresh _).dropInbox

/-- the unread input of the logic layer is dropped (the Python `stop()` drains `rx_relay_queue`) -/
theorem stop_inbox (t : TL) : t.stop.1.core.inbox = [] := by rw [stop_fst]

theorem stop_clean (t : TL) : t.stop.1.clean = true := by
  have h := stop_core_fresh t
  simp [clean, h.rxState, h.txState, h.txQueue, h.rxQueue, h.active, stop_inbox]
  simp [stop_fst, Events.cleared]

theorem stop_log (t : TL) : t.stop.1.core.log = t.core.resetEvents ++ t.core.log := by
  rw [stop_fst]
  by_cases h : t.mainThread = .running
  · simp only [h, if_true]; show t.core.reset.reset.log = _; rw [State.reset_reset_log, State.reset_log]
  · simp only [h, if_false]; show t.core.reset.log = _; rw [State.reset_log]

theorem stop_completes_requests (t : TL) (r : Req) (h : r ∈ t.core.txQueue ∨ t.core.active = some r) :
    Ev.done r.id false ∈ t.stop.1.core.log := by
  rw [stop_log]; exact List.mem_append_left _ (State.done_mem_resetEvents _ r h)

theorem stop_keeps_log (t : TL) (e : Ev) (h : e ∈ t.core.log) : e ∈ t.stop.1.core.log := by
  rw [stop_log]; exact List.mem_append_right _ h

/-- the state `start()` establishes at the threaded level -/
structure Started (t : TL) : Prop where
  started : t.started = true
  main : t.mainThread = .running
  relay : t.relayThread = .running
  rxfn : t.rxfnIsRelay = true
  ev : t.ev = { Events.cleared with mainReady := true, relayReady := true }

theorem start_ok (t : TL) (h : t.started = false) : t.start.2 = none ∧ t.start.1.Started ∧
    t.start.1.core = t.core ∧ t.start.1.relayQ = t.relayQ ∧ t.start.1.bus = t.bus := by
  simp [start, h]; constructor <;> rfl

theorem start_started (t : TL) (h : t.started = true) : t.start = (t, some .RuntimeError) := by
  simp [start, h]

theorem start_twice (t : TL) : t.start.1.start = (t.start.1, some .RuntimeError) := by
  apply start_started
  by_cases h : t.started = true <;> simp [start, h]

theorem stop_not_started (t : TL) : t.stop.1.started = false := by rw [stop_fst]

theorem restart_ok (t : TL) : t.stop.1.start.2 = none ∧ t.stop.1.start.1.Started ∧
    t.stop.1.start.1.core.Fresh ∧ t.stop.1.start.1.relayQ = [] := by
  have h := start_ok t.stop.1 (stop_not_started t)
  refine ⟨h.1, h.2.1, ?_, ?_⟩
  · rw [h.2.2.1]; exact stop_core_fresh t
  · rw [h.2.2.2.1, stop_fst]

/-- a restarted layer is exactly a freshly constructed and started one, up to the logic layer (which is
    `Fresh`, see `restart_ok`) and what is on the bus -/
theorem restart_eq_fresh_start (t : TL) (c : Cfg) (a : Addr) :
    t.stop.1.start.1 = { (TL.init c a).start.1 with core := t.stop.1.core, bus := t.bus } := by
  rw [stop_fst]; simp [start, init]

/-! ### the join contract: `stop` = request, let both threads take their exit step, finalise -/

/-- first two statements of `stop()`: `stop_requested.set()`, `rx_relay_queue.put(None)` -/
def stopBegin (t : TL) : TL :=
  { t with ev := { t.ev with stopRequested := true }, relayQ := t.relayQ ++ [none] }

/-- the rest of `stop()` once the joins have returned -/
def stopEnd (t : TL) : TL :=
  { t with mainThread := .none, relayThread := .none, ev := Events.cleared,
           core := { t.core.reset with inbox := [] }, relayQ := [], rxfnIsRelay := false, started := false }

theorem stop_eq_join (t : TL) : t.stop.1 = stopEnd (workerStep (relayStep (stopBegin t))) ∧
    t.stop.1 = stopEnd (relayStep (workerStep (stopBegin t))) := by
  constructor <;>
  · rw [stop_fst]
    by_cases h : t.mainThread = .running <;> by_cases h' : t.relayThread = .running <;>
      simp [stopEnd, workerStep, relayStep, stopBegin, workerExit, Events.cleared, h, h']

theorem relayStep_of_not_running (t : TL) (h : t.relayThread ≠ .running) : t.relayStep = t := by
  simp [relayStep, h]

theorem workerStep_of_not_running (t : TL) (h : t.mainThread ≠ .running) : t.workerStep = t := by
  simp [workerStep, h]

theorem relayStep_stopRequested (t : TL) (h : t.ev.stopRequested = true) (hr : t.relayThread = .running) :
    t.relayStep = { t with relayThread := .finished } := by
  simp [relayStep, h, hr]

theorem workerStep_stopRequested (t : TL) (h : t.ev.stopRequested = true) (hr : t.mainThread = .running) :
    t.workerStep = t.workerExit := by
  simp [workerStep, h, hr]

theorem relayStep_idem (t : TL) (h : t.ev.stopRequested = true) : t.relayStep.relayStep = t.relayStep := by
  by_cases hr : t.relayThread = .running
  · rw [relayStep_stopRequested t h hr]; apply relayStep_of_not_running; simp
  · rw [relayStep_of_not_running t hr, relayStep_of_not_running t hr]

theorem workerStep_idem (t : TL) (h : t.ev.stopRequested = true) : t.workerStep.workerStep = t.workerStep := by
  by_cases hr : t.mainThread = .running
  · rw [workerStep_stopRequested t h hr]; apply workerStep_of_not_running; simp [workerExit]
  · rw [workerStep_of_not_running t hr, workerStep_of_not_running t hr]

/-- a schedule made of iterations of the two internal threads only -/
def Step.isThread : Step → Bool
  | .relayStep | .workerStep => true
  | _ => false

theorem step_thread_stopRequested (t : TL) (s : Step) (hs : s.isThread) (h : t.ev.stopRequested = true) :
    (t.step s).1.ev.stopRequested = true ∧
    ((t.step s).1.mainThread = .running → t.mainThread = .running) ∧
    ((t.step s).1.relayThread = .running → t.relayThread = .running) ∧
    (s = .workerStep → (t.step s).1.mainThread ≠ .running) ∧
    (s = .relayStep → (t.step s).1.relayThread ≠ .running) := by
  cases s <;> simp [Step.isThread] at hs
  · by_cases hr : t.relayThread = .running <;> simp [step, relayStep, h, hr]
  · by_cases hr : t.mainThread = .running <;> simp [step, workerStep, workerExit, h, hr]

/-- once stop is requested, in any schedule of thread iterations each thread is dead after its first
    iteration (and stays dead) -/
theorem threads_dead_after (t : TL) (sched : List Step) (hs : ∀ s ∈ sched, s.isThread)
    (h : t.ev.stopRequested = true) :
    (Step.workerStep ∈ sched → (t.run sched).mainThread ≠ .running) ∧
    (Step.relayStep ∈ sched → (t.run sched).relayThread ≠ .running) ∧
    (t.mainThread ≠ .running → (t.run sched).mainThread ≠ .running) ∧
    (t.relayThread ≠ .running → (t.run sched).relayThread ≠ .running) := by
  induction sched generalizing t with
  | nil => simp
  | cons s ss ih =>
    have h1 := step_thread_stopRequested t s (hs s (by simp)) h
    have ih' := ih (t.step s).1 (fun x hx => hs x (by simp [hx])) h1.1
    simp only [run_cons, List.mem_cons]
    refine ⟨?_, ?_, ?_, ?_⟩
    · rintro (hw | hw)
      · exact ih'.2.2.1 (h1.2.2.2.1 hw.symm)
      · exact ih'.1 hw
    · rintro (hw | hw)
      · exact ih'.2.2.2 (h1.2.2.2.2 hw.symm)
      · exact ih'.2.1 hw
    · intro hm; exact ih'.2.2.1 (fun hc => hm (h1.2.1 hc))
    · intro hm; exact ih'.2.2.2 (fun hc => hm (h1.2.2.1 hc))

/-! ### invariant of reachable states -/

/-- thread handles, the `started` flag and the installed rxfn agree; `stop_requested` is never left set -/
structure Wf (t : TL) : Prop where
  noStopReq : t.ev.stopRequested = false
  threads : if t.started then t.mainThread = .running ∧ t.relayThread = .running ∧ t.rxfnIsRelay = true
            else t.mainThread = .none ∧ t.relayThread = .none ∧ t.rxfnIsRelay = false

theorem init_wf (c : Cfg) (a : Addr) : (TL.init c a).Wf := by
  constructor <;> simp [init]

theorem step_wf (t : TL) (s : Step) (h : t.Wf) : (t.step s).1.Wf := by
  obtain ⟨h1, h2⟩ := h
  cases s
  case stop => constructor <;> simp [step, stop_fst]
  case start =>
    by_cases hs : t.started = true
    · simp only [step, start_started t hs]; exact ⟨h1, h2⟩
    · constructor <;> simp [step, start, hs, Events.cleared]
  case send a =>
    simp only [step, send]
    split <;> exact ⟨h1, h2⟩
  case recv => simp only [step, recv]; exact ⟨h1, h2⟩
  case process rx tx =>
    simp only [step, process]; split
    · exact ⟨h1, h2⟩
    · exact ⟨h1, h2⟩
  case reset => simp only [step, reset]; split <;> exact ⟨h1, h2⟩
  case stopSending =>
    simp only [step, stopSending]; split
    · split
      · exact ⟨h1, h2⟩
      · exact ⟨h1, h2⟩
    · exact ⟨h1, h2⟩
  case stopReceiving =>
    simp only [step, stopReceiving]; split
    · split
      · exact ⟨h1, h2⟩
      · exact ⟨h1, h2⟩
    · exact ⟨h1, h2⟩
  case relayStep =>
    simp only [step, relayStep, h1]; split
    · exact ⟨h1, h2⟩
    · simp only [Bool.false_eq_true, if_false]
      split <;> exact ⟨h1, h2⟩
  case workerStep =>
    simp only [step, workerStep, h1]; split
    · exact ⟨h1, h2⟩
    · exact ⟨h1, h2⟩
  case busPut m => exact ⟨h1, h2⟩

theorem run_wf (t : TL) (sched : List Step) (h : t.Wf) : (t.run sched).Wf := by
  induction sched generalizing t with
  | nil => exact h
  | cons s ss ih => exact ih _ (step_wf t s h)

theorem reachable_wf {c : Cfg} {a : Addr} {t : TL} (h : Reachable c a t) : t.Wf := by
  obtain ⟨sched, rfl⟩ := h; exact run_wf _ _ (init_wf c a)

/-! ## The relay queue -/

/-- the frames in a relay queue (wake-up tokens dropped) -/
def somes (q : List (Option CanMsg)) : List CanMsg := q.filterMap id

@[simp] theorem somes_nil : somes [] = [] := rfl
@[simp] theorem somes_append (p q : List (Option CanMsg)) : somes (p ++ q) = somes p ++ somes q := by
  simp [somes]
@[simp] theorem somes_none_cons (q : List (Option CanMsg)) : somes (none :: q) = somes q := by simp [somes]
@[simp] theorem somes_some_cons (m : CanMsg) (q : List (Option CanMsg)) : somes (some m :: q) = m :: somes q := by
  simp [somes]

theorem takeUntilNone_somes (q : List (Option CanMsg)) :
    somes q = (takeUntilNone q).1 ++ somes (takeUntilNone q).2 := by
  fun_induction takeUntilNone q with
  | case1 => rfl
  | case2 rest => simp
  | case3 m rest ms r h ih => simp [ih, h]

theorem takeUntilNone_filterMap (q : List (Option CanMsg)) (ms : List CanMsg) (rest : List (Option CanMsg))
    (h : takeUntilNone q = (ms, rest)) : q.filterMap id = ms ++ rest.filterMap id := by
  have := takeUntilNone_somes q
  rw [h] at this; exact this

/-- with a token in the queue: exactly the frames before the first token are taken, the token is
    consumed, everything behind it stays -/
theorem takeUntilNone_token (ms : List CanMsg) (rest : List (Option CanMsg)) :
    takeUntilNone (ms.map some ++ none :: rest) = (ms, rest) := by
  induction ms with
  | nil => simp [takeUntilNone]
  | cons m ms ih => simp [takeUntilNone, ih]

/-- without a token the whole queue is taken -/
theorem takeUntilNone_all (ms : List CanMsg) : takeUntilNone (ms.map some) = (ms, []) := by
  induction ms with
  | nil => simp [takeUntilNone]
  | cons m ms ih => simp [takeUntilNone, ih]

/-- every queue has one of the two shapes -/
theorem queue_shape (q : List (Option CanMsg)) :
    (∃ (ms : List CanMsg) (rest : List (Option CanMsg)), q = ms.map some ++ none :: rest) ∨ (∃ ms : List CanMsg, q = ms.map some) := by
  induction q with
  | nil => exact .inr ⟨[], rfl⟩
  | cons x q ih =>
    cases x with
    | none => exact .inl ⟨[], q, rfl⟩
    | some m =>
      rcases ih with ⟨ms, rest, h⟩ | ⟨ms, h⟩
      · exact .inl ⟨m :: ms, rest, by simp [h]⟩
      · exact .inr ⟨m :: ms, by simp [h]⟩

theorem queue_shape_of_token (q : List (Option CanMsg)) (h : none ∈ q) :
    ∃ (ms : List CanMsg) (rest : List (Option CanMsg)), q = ms.map some ++ none :: rest := by
  rcases queue_shape q with h' | ⟨ms, h'⟩
  · exact h'
  · rw [h'] at h; simp at h

theorem takeUntilNone_length_lt (q : List (Option CanMsg)) (h : none ∈ q) :
    (takeUntilNone q).2.length < q.length := by
  obtain ⟨ms, rest, rfl⟩ := queue_shape_of_token q h
  rw [takeUntilNone_token]; simp; omega

theorem takeUntilNone_length_le (q : List (Option CanMsg)) :
    (takeUntilNone q).2.length ≤ q.length := by
  rcases queue_shape q with ⟨ms, rest, rfl⟩ | ⟨ms, rfl⟩
  · rw [takeUntilNone_token]; simp; omega
  · rw [takeUntilNone_all]; simp

/-! ### the worker iteration as an equation -/

/-- the worker is alive and not asked to stop -/
def workerLive (t : TL) : Bool := t.mainThread = .running && !t.ev.stopRequested

/-- ghost: the frames one step hands from the relay queue to the logic layer -/
def moved (t : TL) : Step → List CanMsg
  | .workerStep => if t.workerLive then (takeUntilNone t.relayQ).1 else []
  | _ => []

/-- feed frames to the logic layer (they are what its `rxfn` returns next, without blocking delay) -/
def feed (s : State) (ms : List CanMsg) : State := { s with inbox := s.inbox ++ ms.map (fun m => (0, m)) }

theorem workerStep_eq (t : TL) (h : t.workerLive = true) :
    t.workerStep =
      { t with core := ((feed t.core (moved t .workerStep)).process true true).1,
               relayQ := (takeUntilNone t.relayQ).2 } := by
  simp only [workerLive, Bool.and_eq_true, decide_eq_true_eq, Bool.not_eq_true'] at h
  simp [workerStep, moved, workerLive, feed, h.1, h.2]

theorem workerStep_not_live (t : TL) (h : t.workerLive = false) :
    t.workerStep.relayQ = t.relayQ ∧ t.workerStep.bus = t.bus := by
  simp only [workerLive, Bool.and_eq_false_iff, decide_eq_false_iff_not, Bool.not_eq_false'] at h
  by_cases h1 : t.mainThread = .running
  · have h2 := h.resolve_left (by simp [h1])
    simp [workerStep, workerExit, h1, h2]
  · simp [workerStep, h1]

/-- ghost: all frames handed to the logic layer along a schedule, in order -/
def delivered : TL → List Step → List CanMsg
  | _, [] => []
  | t, s :: ss => moved t s ++ delivered (t.step s).1 ss

/-- all frames put on the bus along a schedule, in order -/
def puts : List Step → List CanMsg
  | [] => []
  | .busPut m :: ss => m :: puts ss
  | _ :: ss => puts ss

/-- steps of a transfer phase: no `start`/`stop`, no (guarded) direct `process`/`reset` -/
def Step.isTransfer : Step → Bool
  | .busPut _ | .relayStep | .workerStep | .send _ | .recv | .stopSending | .stopReceiving => true
  | _ => false

theorem step_relay_order (t : TL) (s : Step) (hs : s.isTransfer) :
    moved t s ++ somes (t.step s).1.relayQ ++ (t.step s).1.bus = somes t.relayQ ++ t.bus ++ puts [s] := by
  cases s <;> simp [Step.isTransfer] at hs
  case send a =>
    simp only [step, send, moved, puts]
    split <;> simp
  case recv => simp [step, recv, moved, puts]
  case stopSending =>
    simp only [step, stopSending, moved, puts]
    split
    · split <;> simp
    · simp
  case stopReceiving =>
    simp only [step, stopReceiving, moved, puts]
    split
    · split <;> simp
    · simp
  case relayStep =>
    simp only [step, relayStep, moved, puts]
    split
    · simp
    · split
      · simp
      · split <;> simp_all
  case workerStep =>
    by_cases h : t.workerLive = true
    · simp only [step, puts, workerStep_eq t h, List.append_nil]
      rw [takeUntilNone_somes t.relayQ]; simp [moved, h]
    · simp only [Bool.not_eq_true] at h
      have := workerStep_not_live t h
      simp [step, moved, h, this, puts]
  case busPut m => simp [step, busPut, moved, puts]

theorem puts_cons (s : Step) (ss : List Step) : puts (s :: ss) = puts [s] ++ puts ss := by
  cases s <;> simp [puts]

/-- no loss, no duplication, no reordering between the bus and the logic layer -/
theorem relay_order (t : TL) (sched : List Step) (hs : ∀ s ∈ sched, s.isTransfer) :
    delivered t sched ++ somes (t.run sched).relayQ ++ (t.run sched).bus
      = somes t.relayQ ++ t.bus ++ puts sched := by
  induction sched generalizing t with
  | nil => simp [delivered, puts]
  | cons s ss ih =>
    have h1 := step_relay_order t s (hs s (by simp))
    have h2 := ih (t.step s).1 (fun x hx => hs x (by simp [hx]))
    rw [puts_cons]
    simp only [delivered, run_cons, List.append_assoc] at *
    rw [h2]
    have := congrArg (· ++ puts ss) h1
    simpa [List.append_assoc] using this

/-! ## `send` on the threaded layer -/

theorem send_eq (t : TL) (a : State.SendArgs) :
    t.send a =
      if t.core.sendBad a then (t, some .ValueError)
      else ({ t with core := { t.core with txQueue := t.core.txQueue ++ [t.core.sendReq a] },
                     relayQ := t.relayQ ++ [none] },
            if t.core.cfg.blocking then some .BlockingSendTimeout else none) := by
  simp only [send, State.send_eq]
  by_cases hb : t.core.sendBad a = true
  · simp [hb]
  · by_cases hc : t.core.cfg.blocking = true <;> simp [hb, hc]

theorem send_exc (t : TL) (a : State.SendArgs) :
    (t.send a).2 = if t.core.sendBad a then some .ValueError
                   else if t.core.cfg.blocking then some .BlockingSendTimeout else none := by
  rw [send_eq]; split <;> rfl

theorem send_rejected (t : TL) (a : State.SendArgs) (h : (t.send a).2 = some .ValueError) :
    (t.send a).1 = t := by
  by_cases hb : t.core.sendBad a = true
  · simp [send_eq, hb]
  · by_cases hc : t.core.cfg.blocking = true <;> simp [send_eq, hb, hc] at h

theorem send_accepted (t : TL) (a : State.SendArgs) (h : (t.send a).2 ≠ some .ValueError) :
    (t.send a).1.core.txQueue = t.core.txQueue ++ [t.core.sendReq a] ∧
    (t.send a).1.relayQ = t.relayQ ++ [none] ∧
    (t.send a).1.core = { t.core with txQueue := t.core.txQueue ++ [t.core.sendReq a] } := by
  rw [send_eq] at h ⊢
  split
  · rename_i hb; simp [hb] at h
  · simp

/-- the request `send` would enqueue in a layer with this configuration and address, if it accepts -/
def accept? (s : State) : Step → Option Req
  | .send a => if s.sendBad a then none else some (s.sendReq a)
  | _ => none

/-- the requests accepted along a schedule, in schedule order -/
def accepted (s : State) (sched : List Step) : List Req := sched.filterMap (accept? s)

theorem accept?_congr (s s' : State) (h1 : s'.cfg = s.cfg) (h2 : s'.addr = s.addr) (x : Step) :
    accept? s' x = accept? s x := by
  cases x <;> simp [accept?, State.sendBad, State.sendReq, State.txPrefixLen, h1, h2]

theorem accepted_congr (s s' : State) (h1 : s'.cfg = s.cfg) (h2 : s'.addr = s.addr) (sched : List Step) :
    accepted s' sched = accepted s sched := by
  unfold accepted; congr 1; funext x; exact accept?_congr s s' h1 h2 x

/-- program order of one user thread (a sub-sequence of the schedule) is kept in the accepted order -/
theorem accepted_sublist (s : State) (sub sched : List Step) (h : sub.Sublist sched) :
    (accepted s sub).Sublist (accepted s sched) := h.filterMap _

/-! ## End-to-end bookkeeping of a transfer phase -/

/-- frames the logic layer has read (`rxfn` returned them to `process`), oldest first -/
def seen (t : TL) : List CanMsg := (rxOf t.core.log).reverse

/-- frames on their way: handed to the logic layer but not read yet, in the relay queue, on the bus -/
def pending (t : TL) : List CanMsg := t.core.inbox.map (·.2) ++ somes t.relayQ ++ t.bus

theorem feed_flow (s : State) (ms : List CanMsg) :
    (feed s ms).cfg = s.cfg ∧ (feed s ms).addr = s.addr ∧ (feed s ms).txQueue = s.txQueue ∧
    (feed s ms).log = s.log ∧ (feed s ms).inbox.map (·.2) = s.inbox.map (·.2) ++ ms := by
  simp [feed, List.map_append, Function.comp_def]

/-- bookkeeping relation between two states of a transfer phase: same configuration and address, the tx
    queue is what it was plus the accepted requests `acc` minus a prefix taken for transmission, and the
    frames seen or pending are the old ones plus the frames `ps` that arrived on the bus -/
def FlowTL (t : TL) (acc : List Req) (ps : List CanMsg) (t' : TL) : Prop :=
  t'.core.cfg = t.core.cfg ∧ t'.core.addr = t.core.addr ∧
  (∃ taken, taken ++ t'.core.txQueue = t.core.txQueue ++ acc) ∧
  seen t' ++ pending t' = seen t ++ pending t ++ ps

theorem flowTL_of_keeps (t t' : TL) (hk : State.Keeps t.core t'.core) (hq : somes t'.relayQ = somes t.relayQ)
    (hb : t'.bus = t.bus) : FlowTL t [] [] t' := by
  obtain ⟨k1, k2, k3, k4, k5⟩ := hk
  refine ⟨k1, k2, ⟨[], by simp [k3]⟩, ?_⟩
  simp [seen, pending, k4, k5, hq, hb]

theorem flowTL_refl (t : TL) : FlowTL t [] [] t := flowTL_of_keeps t t (State.Keeps.refl _) rfl rfl

theorem recv_keeps (s : State) : State.Keeps s s.recv.1 := by
  unfold State.recv; split <;> exact ⟨rfl, rfl, rfl, rfl, rfl⟩

theorem step_flow (t : TL) (s : Step) (hs : s.isTransfer) :
    FlowTL t (accepted t.core [s]) (puts [s]) (t.step s).1 := by
  cases s <;> simp [Step.isTransfer] at hs
  case send a =>
    by_cases hb : t.core.sendBad a = true
    · have e1 : accepted t.core [Step.send a] = [] := by simp [accepted, accept?, hb]
      have e2 : (t.step (.send a)).1 = t := by simp [step, send_eq, hb]
      rw [e1, e2]; exact flowTL_refl t
    · have e1 : accepted t.core [Step.send a] = [t.core.sendReq a] := by simp [accepted, accept?, hb]
      have e2 : (t.step (.send a)).1 = { t with core := { t.core with txQueue := t.core.txQueue ++ [t.core.sendReq a] }, relayQ := t.relayQ ++ [none] } := by
        simp [step, send_eq, hb]
      rw [e1, e2]
      refine ⟨rfl, rfl, ⟨[], rfl⟩, ?_⟩
      simp [seen, pending, puts]
  case recv =>
    show FlowTL t [] [] _
    exact flowTL_of_keeps _ _ (recv_keeps _) rfl rfl
  case stopSending =>
    show FlowTL t [] [] _
    simp only [step, stopSending]
    split
    · split
      · exact flowTL_of_keeps _ _ (State.stopSending_keeps _ _) rfl rfl
      · exact flowTL_refl t
    · exact flowTL_of_keeps _ _ (State.stopSending_keeps _ _) rfl rfl
  case stopReceiving =>
    show FlowTL t [] [] _
    simp only [step, stopReceiving]
    split
    · split
      · exact flowTL_of_keeps _ _ (State.stopReceiving_keeps _) (by simp) rfl
      · exact flowTL_refl t
    · exact flowTL_of_keeps _ _ (State.stopReceiving_keeps _) rfl rfl
  case relayStep =>
    show FlowTL t [] [] _
    simp only [step, relayStep]
    split
    · exact flowTL_refl t
    · split
      · exact flowTL_of_keeps _ _ (State.Keeps.refl _) rfl rfl
      · split
        · exact flowTL_refl t
        · rename_i m rest hbus
          refine ⟨rfl, rfl, ⟨[], by simp⟩, ?_⟩
          simp [seen, pending, hbus]
  case workerStep =>
    show FlowTL t [] [] t.workerStep
    by_cases h : t.workerLive = true
    · rw [workerStep_eq t h]
      obtain ⟨f1, f2, f3, f4, f5⟩ := feed_flow t.core (moved t .workerStep)
      obtain ⟨p1, p2, ⟨pre, p3⟩, p4⟩ := State.process_flow (feed t.core (moved t .workerStep)) true true
      refine ⟨p1.trans f1, p2.trans f2, ⟨pre, by simp [p3, f3]⟩, ?_⟩
      simp only [seen, pending, List.append_nil]
      rw [← List.append_assoc, ← List.append_assoc, p4, f4, f5, takeUntilNone_somes t.relayQ]
      simp [moved, h]
    · simp only [Bool.not_eq_true] at h
      simp only [workerLive, Bool.and_eq_false_iff, decide_eq_false_iff_not, Bool.not_eq_false'] at h
      by_cases h1 : t.mainThread = .running
      · have h2 := h.resolve_left (by simp [h1])
        have e : t.workerStep = { t with core := t.core.reset, mainThread := .finished } := by
          simp [workerStep, h1, h2, workerExit]
        rw [e]
        obtain ⟨r1, r2, ⟨pre, r3⟩, r4⟩ := State.reset_flow t.core
        refine ⟨r1, r2, ⟨pre, by simp [r3]⟩, ?_⟩
        simp only [seen, pending, List.append_nil]
        rw [← List.append_assoc, ← List.append_assoc, r4]; simp
      · rw [workerStep_of_not_running t h1]; exact flowTL_refl t
  case busPut m =>
    show FlowTL t [] [m] (t.busPut m)
    refine ⟨rfl, rfl, ⟨[], by simp [busPut]⟩, ?_⟩
    simp [seen, pending, busPut]

theorem FlowTL.trans {a b c : TL} {acc1 acc2 : List Req} {ps1 ps2 : List CanMsg}
    (h1 : FlowTL a acc1 ps1 b) (h2 : FlowTL b acc2 ps2 c) : FlowTL a (acc1 ++ acc2) (ps1 ++ ps2) c := by
  obtain ⟨a1, a2, ⟨t1, a3⟩, a4⟩ := h1
  obtain ⟨b1, b2, ⟨t2, b3⟩, b4⟩ := h2
  refine ⟨b1.trans a1, b2.trans a2, ⟨t1 ++ t2, ?_⟩, ?_⟩
  · rw [List.append_assoc, b3, ← List.append_assoc, a3, List.append_assoc]
  · rw [b4, a4]; simp

/-- a whole transfer phase -/
theorem run_flow (t : TL) (sched : List Step) (hs : ∀ s ∈ sched, s.isTransfer) :
    FlowTL t (accepted t.core sched) (puts sched) (t.run sched) := by
  induction sched generalizing t with
  | nil => exact flowTL_refl t
  | cons s ss ih =>
    have h1 := step_flow t s (hs s (by simp))
    have h2 := ih (t.step s).1 (fun x hx => hs x (by simp [hx]))
    rw [accepted_congr t.core _ h1.1 h1.2.1] at h2
    have := h1.trans h2
    rw [puts_cons]
    have e : accepted t.core (s :: ss) = accepted t.core [s] ++ accepted t.core ss := by
      simp [accepted, List.filterMap_cons]; cases accept? t.core s <;> simp
    rw [e]; exact this

/-! ## Wake-up of the worker after `send` -/

theorem send_wakeup (t : TL) (a : State.SendArgs) (h : (t.send a).2 ≠ some .ValueError) :
    (t.send a).1.relayQ.getLast? = some none := by
  rw [(send_accepted t a h).2.1]; simp

theorem send_live (t : TL) (a : State.SendArgs) : (t.send a).1.workerLive = t.workerLive := by
  rw [send_eq]; split <;> rfl

/-- The worker iteration that follows an accepted `send`: it takes the frames in front of the first
    wake-up token (this send's token at the latest), consumes that token, and runs one
    `process(do_rx=True, do_tx=True)` pass on a logic layer whose tx queue ends with the new request. -/
theorem workerStep_after_send (t : TL) (a : State.SendArgs) (h : (t.send a).2 ≠ some .ValueError)
    (hl : t.workerLive = true) :
    ∃ (ms : List CanMsg) (rest : List (Option CanMsg)),
      t.relayQ ++ [none] = ms.map some ++ none :: rest ∧
      (t.send a).1.workerStep =
        { (t.send a).1 with
            core := ((feed { t.core with txQueue := t.core.txQueue ++ [t.core.sendReq a] } ms).process true true).1,
            relayQ := rest } := by
  obtain ⟨_, hq, hc⟩ := send_accepted t a h
  obtain ⟨ms, rest, hshape⟩ := queue_shape_of_token (t.relayQ ++ [none]) (by simp)
  refine ⟨ms, rest, hshape, ?_⟩
  have hl' : (t.send a).1.workerLive = true := by rw [send_live]; exact hl
  rw [workerStep_eq _ hl']
  simp only [moved, hl', if_true, hq, hshape, takeUntilNone_token, hc]

end TL
end Isotp
