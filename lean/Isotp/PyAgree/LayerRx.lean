import Isotp.PyAgree.EvalLemmas
import Isotp.PyAgree.MiscLemmas
import Isotp.PyAgree.MiscTimer
import Isotp.PyAgree.Pdu
import Isotp.Layer
/-!
  The RECEIVE state machine of `TransportLayerLogic` (isotp/protocol.py): `_process_rx`, `_check_timeouts_rx` and the seven helpers
  they call, as dumped in `Isotp/Py/Src.lean`, against the model `State.processRx` / `State.checkTimeoutsRx` / `State.stopReceiving`
  / `State.requestFc` / `State.startRxCfTimer` / `State.startReception` (`Isotp/Layer.lean`).

  Main statements (section "Main theorems", after `namespace Rx`):
  * `process_rx_agrees (s) (m) (hinv : RxBufOk s)`: running `Src.TransportLayerLogic_p_process_rx` with the callees `rxMeths s m` from
    `rxEnvIn s m` returns `[immediate_tx_required, frame_received]` of `s.processRx m`, in an environment that has every attribute of
    `rxAttrs (mailboxObj s m) (s.processRx m).1` (receive-side attributes, `#errors`, `#delivered`, `#rx_queue`, the mailbox).
    `process_rx_agrees'` is the same under the exact condition `sliceOk s m`; `process_rx_history`, `process_rx_mailbox` (no
    hypothesis at all for a Flow Control) are corollaries.  `Rx.process_rx_run` is the statement from ANY environment that
    represents `s` (`Rx.Rep`, `Rx.Consts`, `Rx.PduCtx`).
  * the ONLY hypothesis: `RxBufOk s` (in WAIT_CF, `len(rx_buffer) <= rx_frame_length`; = first half of the proved invariant
    `Isotp.RxJust`, Proofs/Safe.lean).  Without it an in-sequence Consecutive Frame makes the source evaluate
    `pdu.data[:bytes_to_receive]` with a NEGATIVE bound, which the interpreter does not model (Python: drop from the end; model:
    take nothing): `process_rx_negative_slice`, `negative_slice_witness`.
  * `check_timeouts_rx_agrees` (every state, no hypothesis), `check_timeouts_rx_run`.
  * the helpers, each from any environment that represents `s`: `rx_empty_rx_buffer_agrees`, `rx_stop_sending_flow_control_agrees`,
    `rx_start_rx_cf_timer_agrees`, `rx_append_rx_data_agrees`, `rx_request_tx_flowcontrol_agrees`, `rx_stop_receiving_agrees`,
    `rx_start_reception_agrees` (state and Boolean result).  The `Meths.proc` entries the callers use are explicit environment
    transformers (`emptyBufEnv`, `stopFcEnv`, `startCfEnv`, `extendProc`, `reqFcProc`, `stopRecvEnv`, `startRecProc`); the lemmas
    `Rx.*_src` state that each entry IS what running the helper's own dumped source does (exact equality of environments, up to
    the callee's parameter name for the two helpers that take an argument), and `Rx.Rep.*` that it is the model function.
  * the primitive entries against the sources they stand for: `pdu_entry_link` + `pduView_fields` (`PDU.__init__`, Pdu.lean),
    `is_timed_out_link`, `timer_entries_link` (`Timer`, MiscTimer.lean).

  Conventions.
  * `rxEnv s` binds the flat dotted keys listed in `coreAttrs` / `pfsAttrs` / `fcAttrs`.  `self.pending_flowcontrol_status` is NOT
    bound while the model has `none` (the attribute does not exist before the first request).  The mailbox holds `None` or an
    object: `fc` initially (fields `fc.flow_status` ...), the received `pdu` after a Flow Control (`mailboxObj`).
  * history keys: `#errors` = classes handed to `_trigger_error`, oldest first (`errsOf s.log`); `#delivered` = payloads handed to
    `rx_queue.put`, oldest first (`deliveredOf s.log`), and `#rx_queue` = the queue itself (`s.rxQueue`), both encoded by
    `encodePayloads` (length, then bytes; `encodePayloads_append`, `encodePayloads_injective`).
  * the decoded frame: `pdu.*` is bound to exactly the attributes `fieldsOf d` (Pdu.lean) that `PDU.__init__` sets for this frame
    type; the ones left at their default are NOT bound, so the theorem also shows `_process_rx` never reads them.
  * `_start_rx_cf_timer` does `Timer(timeout=float(ms)/1000)` then `start()`: float arithmetic is outside the subset, so
    `Timer#timeout` only yields the object (its argument IS evaluated: `float` of the integer parameter, `/ 1000`) and `start()`
    installs `start_time := now` and `timeout := s.cfg.tCf`, the nanosecond value the harness hands to the model (DESIGN 3.1).
    No hypothesis `s.timerCf.timeout = s.cfg.tCf` is needed.

  Proof structure: `_process_rx` is cut along its statements (`Rx.st0` .. `Rx.st7`, `Rx.idleBlk`, `Rx.waitBlk`, `Rx.cfW`, `Rx.cfOk`,
  ... with `*_shape` lemmas by `rfl` on the generated text); generic stepping lemmas on ABSTRACT blocks (`Rx.exec_ite`,
  `Rx.block_next`, `Rx.block_ret`, `Rx.dispatch3_run`) so that `simp` never looks into a branch that is not taken; one lemma per
  branch of the state machine (`Rx.sm_*`); `Rx.tail_run` / `Rx.head_run` / `Rx.finish` for the common parts.
-/
set_option linter.unusedSimpArgs false

namespace Isotp.PyAgree
open Isotp Isotp.Py

/-! ## 1. State <-> environment -/

def rxStPV : RxSt → PV
  | .idle => .sc (.enum "RxState" "IDLE")
  | .waitCf => .sc (.enum "RxState" "WAIT_CF")

/-- an `isotp.errors.<Class>` instance, as handed to `_trigger_error` (the message is dropped) -/
def errSc (e : Err) : Sc := .enum "errors" e.name

/-- HISTORY: the error classes handed to the error handler, oldest first (`State.log` is newest first) -/
def errsOf : List Ev → List Sc
  | [] => []
  | .err _ e :: r => errsOf r ++ [errSc e]
  | _ :: r => errsOf r

/-- HISTORY: the payloads handed to `rx_queue.put`, oldest first -/
def deliveredOf : List Ev → List Bytes
  | [] => []
  | .deliver p :: r => deliveredOf r ++ [p]
  | _ :: r => deliveredOf r

/-- one payload as scalars: its length, then its bytes -/
def encodePayload (p : Bytes) : List Sc := .py (.int p.length) :: p.map (fun b => Sc.py (.int b.toNat))
/-- a list of byte strings as ONE list of scalars -/
def encodePayloads (l : List Bytes) : List Sc := l.flatMap encodePayload

theorem encodePayloads_append (l : List Bytes) (p : Bytes) :
    encodePayloads (l ++ [p]) = encodePayloads l ++ encodePayloads [p] := by
  simp [encodePayloads, List.flatMap_append]

theorem encodePayloads_single (p : Bytes) : encodePayloads [p] = encodePayload p := by
  simp [encodePayloads]

theorem encodePayloads_cons (p : Bytes) (l : List Bytes) : encodePayloads (p :: l) = encodePayload p ++ encodePayloads l := by
  simp [encodePayloads]

/-- the encoding of the delivered payloads as one list of scalars loses nothing -/
theorem encodePayloads_injective : ∀ l l' : List Bytes, encodePayloads l = encodePayloads l' → l = l'
  | [], [] => fun _ => rfl
  | [], p' :: r' => fun h => by simp [encodePayload, encodePayloads] at h
  | p :: r, [] => fun h => by simp [encodePayload, encodePayloads] at h
  | p :: r, p' :: r' => fun h => by
    rw [encodePayloads_cons, encodePayloads_cons] at h
    simp only [encodePayload, List.cons_append, List.cons.injEq, Sc.py.injEq, PyVal.int.injEq] at h
    obtain ⟨hlen, hrest⟩ := h
    have hlen' : p.length = p'.length := by omega
    have hl : (p.map (fun b => Sc.py (.int b.toNat))).length = (p'.map (fun b => Sc.py (.int b.toNat))).length := by
      simp [hlen']
    obtain ⟨h1, h2⟩ := List.append_inj hrest hl
    have hp : p = p' := by
      have hinj : ∀ a b : UInt8, Sc.py (.int a.toNat) = Sc.py (.int b.toNat) → a = b := by
        intro a b hab
        simp only [Sc.py.injEq, PyVal.int.injEq] at hab
        exact UInt8.toNat_inj.mp (by omega)
      clear hrest hl hlen hlen' h2
      induction p generalizing p' with
      | nil => cases p' <;> simp_all
      | cons a t ih =>
        cases p' with
        | nil => simp at h1
        | cons b t' =>
          simp only [List.map_cons, List.cons.injEq] at h1
          rw [hinj a b h1.1, ih t' h1.2]
    rw [hp, encodePayloads_injective r r' h2]


/-- the value of the mailbox attribute: `None`, or the PDU object `obj` -/
def mbVal (obj : String) : Option FcFrame → PV
  | none => pnone
  | some _ => .meth obj

/-- the depth-1 mailbox `last_flow_control_frame`: `None`, or an object `obj` whose three decoded fields are `obj.flow_status` ... -/
def fcAttrs (obj : String) : Option FcFrame → List (String × PV)
  | none => [("self.last_flow_control_frame", pnone)]
  | some f => [("self.last_flow_control_frame", .meth obj), (obj ++ ".flow_status", pint f.status),
               (obj ++ ".blocksize", pint f.bs), (obj ++ ".stmin", pint f.stmin)]

/-- `pending_flowcontrol_status` does not exist until the first `_request_tx_flowcontrol` -/
def pfsAttrs : Option Nat → List (String × PV)
  | none => []
  | some n => [("self.pending_flowcontrol_status", pint n)]

/-- the attributes of the receive side other than the mailbox, and the history keys -/
def coreAttrs (s : State) : List (String × PV) :=
  [("self.rx_state", rxStPV s.rxState), ("self.rx_frame_length", pint s.rxFrameLen), ("self.last_seqnum", pint s.lastSeq),
   ("self.rx_block_counter", pint s.rxBlockCnt), ("self.actual_rxdl", optPV s.actualRxdl), ("self.rx_buffer", .bytes s.rxBuf),
   ("self.pending_flow_control_tx", pbool s.pendingFc),
   ("self.timer_rx_cf.start_time", optPV s.timerCf.start), ("self.timer_rx_cf.timeout", pint s.timerCf.timeout),
   ("self.params.blocksize", pint s.cfg.blocksize), ("self.params.max_frame_size", pint s.cfg.maxFrameSize),
   ("self.params.rx_consecutive_frame_timeout", pint (s.cfg.tCf / 1000000)),
   ("#errors", .list (errsOf s.log)), ("#delivered", .list (encodePayloads (deliveredOf s.log))),
   ("#rx_queue", .list (encodePayloads s.rxQueue))]

/-- everything the receive side reads and writes; `obj` names the PDU object that sits in the mailbox (if any) -/
def rxAttrs (obj : String) (s : State) : List (String × PV) :=
  coreAttrs s ++ pfsAttrs s.pendingFcStatus ++ fcAttrs obj s.lastFc

/-- the object as the interpreter sees it (a Flow Control waiting in the mailbox is the object `fc`) -/
def rxEnv (s : State) : Env := fun k =>
  match k with
  | "self.rx_state" => some (rxStPV s.rxState)
  | "self.rx_frame_length" => some (pint s.rxFrameLen)
  | "self.last_seqnum" => some (pint s.lastSeq)
  | "self.rx_block_counter" => some (pint s.rxBlockCnt)
  | "self.actual_rxdl" => some (optPV s.actualRxdl)
  | "self.rx_buffer" => some (.bytes s.rxBuf)
  | "self.pending_flow_control_tx" => some (pbool s.pendingFc)
  | "self.pending_flowcontrol_status" => s.pendingFcStatus.map (fun n => pint n)
  | "self.timer_rx_cf.start_time" => some (optPV s.timerCf.start)
  | "self.timer_rx_cf.timeout" => some (pint s.timerCf.timeout)
  | "self.params.blocksize" => some (pint s.cfg.blocksize)
  | "self.params.max_frame_size" => some (pint s.cfg.maxFrameSize)
  | "self.params.rx_consecutive_frame_timeout" => some (pint (s.cfg.tCf / 1000000))
  | "#errors" => some (.list (errsOf s.log))
  | "#delivered" => some (.list (encodePayloads (deliveredOf s.log)))
  | "#rx_queue" => some (.list (encodePayloads s.rxQueue))
  | "self.last_flow_control_frame" => some (mbVal "fc" s.lastFc)
  | "fc.flow_status" => s.lastFc.map (fun f => pint f.status)
  | "fc.blocksize" => s.lastFc.map (fun f => pint f.bs)
  | "fc.stmin" => s.lastFc.map (fun f => pint f.stmin)
  | _ => constEnv k

/-! ## 2. The decoded frame -/

def pLen : Pdu → Option PV
  | .sf l _ _ => some (pint l) | .ff l _ _ => some (pint l) | _ => none
def pData : Pdu → Option PV
  | .sf _ d _ => some (.bytes d) | .ff _ d _ => some (.bytes d) | .cf _ d => some (.bytes d) | _ => none
def pSeq : Pdu → Option PV
  | .cf sn _ => some (pint sn) | _ => none
def pEsc : Pdu → Option PV
  | .sf _ _ e => some (pbool e) | .ff _ _ e => some (pbool e) | _ => none
def pFs : Pdu → Option PV
  | .fc st _ _ => some (pint st) | _ => none
def pBs : Pdu → Option PV
  | .fc _ bs _ => some (pint bs) | _ => none
def pStmin : Pdu → Option PV
  | .fc _ _ stm => some (pint stm) | _ => none

/-- the attributes of the object `PDU(msg, start_of_data)` builds: exactly those of `fieldsOf` (Pdu.lean), under the name `pdu`.
    The attributes `PDU.__init__` leaves at their default for this frame type are NOT bound: the agreement theorem therefore also
    shows that `_process_rx` never reads them. -/
def pduView (o : Option Decoded) (base : Env) : Env := fun k =>
  match k with
  | "pdu.type" => o.map (fun d => pint (typeCode d.pdu))
  | "pdu.can_dl" => o.map (fun d => pint d.canDl)
  | "pdu.rx_dl" => o.map (fun d => pint d.rxDl)
  | "pdu.length" => o.bind (fun d => pLen d.pdu)
  | "pdu.data" => o.bind (fun d => pData d.pdu)
  | "pdu.seqnum" => o.bind (fun d => pSeq d.pdu)
  | "pdu.escape_sequence" => o.bind (fun d => pEsc d.pdu)
  | "pdu.flow_status" => o.bind (fun d => pFs d.pdu)
  | "pdu.blocksize" => o.bind (fun d => pBs d.pdu)
  | "pdu.stmin" => o.bind (fun d => pStmin d.pdu)
  | _ => base k

/-- the decoding of the frame `_process_rx` is given -/
def rxDecoded (s : State) (m : CanMsg) : Option Decoded := decode m.data s.addr.rx.rxPrefixSize

/-- the environment `_process_rx(self, msg)` starts in -/
def rxEnvIn (s : State) (m : CanMsg) : Env := fun k =>
  match k with
  | "msg" => some (.meth "msg")
  | _ => pduView (rxDecoded s m) (rxEnv s) k

/-! ## 3. Primitive `Meths` entries, 4. the helper methods as environment transformers -/

def scListOf : Option PV → List Sc
  | some (.list xs) => xs
  | _ => []

/-- `self._trigger_error(isotp.errors.<c>(...))` -/
def trigEnv (c : String) (env : Env) : Env := env.set "#errors" (.list (scListOf (env "#errors") ++ [.enum "errors" c]))

/-- `self.rx_queue.put(b)` -/
def putEnv (b : Bytes) (env : Env) : Env :=
  (env.set "#delivered" (.list (scListOf (env "#delivered") ++ encodePayloads [b]))).set
    "#rx_queue" (.list (scListOf (env "#rx_queue") ++ encodePayloads [b]))

/-- `_empty_rx_buffer` -/
def emptyBufEnv (env : Env) : Env := env.set "self.rx_buffer" (.bytes [])
/-- `_stop_sending_flow_control` -/
def stopFcEnv (env : Env) : Env := (env.set "self.pending_flow_control_tx" (pbool false)).set "self.last_flow_control_frame" pnone
/-- `self.timer_rx_cf.stop()` -/
def timerStopEnv (env : Env) : Env := env.set "self.timer_rx_cf.start_time" pnone
/-- `self.timer_rx_cf.start()` on the timer `_start_rx_cf_timer` has just built -/
def timerStartEnv (now tCf : Nat) (env : Env) : Env :=
  (env.set "self.timer_rx_cf.start_time" (pint now)).set "self.timer_rx_cf.timeout" (pint tCf)
/-- `_start_rx_cf_timer` -/
def startCfEnv (now tCf : Nat) (env : Env) : Env := timerStartEnv now tCf (env.set "self.timer_rx_cf" (.meth "Timer"))
/-- `_request_tx_flowcontrol(status)` -/
def reqFcEnv (v : PV) (env : Env) : Env :=
  (env.set "self.pending_flow_control_tx" (pbool true)).set "self.pending_flowcontrol_status" v
/-- `_stop_receiving` -/
def stopRecvEnv (env : Env) : Env :=
  timerStopEnv (stopFcEnv (emptyBufEnv ((env.set "self.actual_rxdl" pnone).set "self.rx_state" (.sc (.enum "RxState" "IDLE")))))

/-- `self.rx_buffer.extend(d)` -/
def extendProc (args : List PV) (env : Env) : Except PErr Env :=
  match args, env "self.rx_buffer" with
  | [.bytes d], some (.bytes b) => .ok (env.set "self.rx_buffer" (.bytes (b ++ d)))
  | _, _ => .error (.unsupported "self.rx_buffer.extend")

def trigProc (args : List PV) (env : Env) : Except PErr Env :=
  match args with
  | [.sc (.enum "errors" c)] => .ok (trigEnv c env)
  | _ => .error (.unsupported "self._trigger_error")

def putProc (args : List PV) (env : Env) : Except PErr Env :=
  match args with
  | [.bytes b] => .ok (putEnv b env)
  | _ => .error (.unsupported "self.rx_queue.put")

def reqFcProc (args : List PV) (env : Env) : Except PErr Env :=
  match args with
  | [v] => .ok (reqFcEnv v env)
  | _ => .error (.unsupported "self._request_tx_flowcontrol")

def validRxDlInt (i : Int) : Bool :=
  i == 8 || i == 12 || i == 16 || i == 20 || i == 24 || i == 32 || i == 48 || i == 64

/-- `_start_reception_after_first_frame_if_valid(pdu)` followed by the binding of its result to `started`, as an environment
    transformer (the three cases of the model's `startReception`) -/
def startRecEnv (now tCf : Nat) (len rxDl : Int) (data : Bytes) (mx : Int) (env : Env) : Env :=
  let e1 := emptyBufEnv env
  if !validRxDlInt rxDl then
    (stopRecvEnv (trigEnv "InvalidCanFdFirstFrameRXDL" e1)).set "started" (pbool false)
  else
    let e2 := (e1.set "self.actual_rxdl" (pint rxDl)).set "started" (pbool false)
    if len > mx then
      ((((reqFcEnv (pint 2) (stopRecvEnv (trigEnv "FrameTooLongError" e2))).set "self.last_seqnum" (pint 0)).set
        "self.rx_block_counter" (pint 0))).set "started" (pbool false)
    else
      let e3 := (e2.set "self.rx_state" (.sc (.enum "RxState" "WAIT_CF"))).set "self.rx_frame_length" (pint len)
      let e4 := e3.set "self.rx_buffer" (.bytes ([] ++ data))
      let e5 := (startCfEnv now tCf (reqFcEnv (pint 0) e4)).set "started" (pbool true)
      ((e5.set "self.last_seqnum" (pint 0)).set "self.rx_block_counter" (pint 0)).set "started" (pbool true)

def startRecProc (now tCf : Nat) (args : List PV) (env : Env) : Except PErr Env :=
  match args, env "pdu.length", env "pdu.rx_dl", env "pdu.data", env "self.params.max_frame_size" with
  | [_], some (.sc (.py (.int len))), some (.sc (.py (.int rxDl))), some (.bytes data), some (.sc (.py (.int mx))) =>
    .ok (startRecEnv now tCf len rxDl data mx env)
  | _, _, _, _, _ => .error (.unsupported "self._start_reception_after_first_frame_if_valid")

/-- the timer object `self.timer_rx_cf`, read back from the environment -/
def envTimer (env : Env) : Option Timer :=
  match env "self.timer_rx_cf.start_time", env "self.timer_rx_cf.timeout" with
  | some (.sc (.py .none)), some (.sc (.py (.int t))) => some { start := none, timeout := t.toNat }
  | some (.sc (.py (.int a))), some (.sc (.py (.int t))) => some { start := some a.toNat, timeout := t.toNat }
  | _, _ => none

def timedOutFn (now : Nat) (env : Env) : Except PErr PV :=
  match envTimer env with
  | some t => .ok (pbool (t.timedOut now))
  | none => .error (.unsupported "self.timer_rx_cf.is_timed_out")

/-- `PDU(msg, start_of_data=start)`: the object `pdu` when `decode` accepts, `ValueError` when it rejects
    (`pdu_init_accepts` / `pdu_init_rejects`, Pdu.lean) -/
def pduFn (data : Bytes) (args : List PV) : Except PErr PV :=
  match args with
  | [_, .sc (.py (.int start))] =>
    if start < 0 then .error (.unsupported "negative start_of_data") else
    match decode data start.toNat with
    | some _ => .ok (.meth "pdu")
    | none => .error (.exc .ValueError)
  | _ => .error (.unsupported "PDU")

def bytearrayFn (args : List PV) : Except PErr PV :=
  match args with
  | [] => .ok (.bytes [])
  | [.bytes b] => .ok (.bytes b)
  | _ => .error (.unsupported "bytearray")

def copyFn (args : List PV) : Except PErr PV :=
  match args with
  | [x] => .ok x
  | _ => .error (.unsupported "copy")

def reportFn (args : List PV) : Except PErr PV :=
  match args with
  | [.sc a, .sc b] => .ok (.list [a, b])
  | _ => .error (.unsupported "ProcessRxReport")

/-- `float(x)` of an integer: the integer itself (`/` then makes the exact quotient) -/
def floatFn (args : List PV) : Except PErr PV :=
  match args with
  | [.sc (.py (.int i))] => .ok (pint i)
  | _ => .error (.unsupported "float")

/-- the `isotp.errors` classes the receive side instantiates -/
def errClass : String → Option String
  | "isotp.errors.InvalidCanDataError" => some "InvalidCanDataError"
  | "isotp.errors.MissingEscapeSequenceError" => some "MissingEscapeSequenceError"
  | "isotp.errors.UnexpectedConsecutiveFrameError" => some "UnexpectedConsecutiveFrameError"
  | "isotp.errors.ReceptionInterruptedWithSingleFrameError" => some "ReceptionInterruptedWithSingleFrameError"
  | "isotp.errors.ReceptionInterruptedWithFirstFrameError" => some "ReceptionInterruptedWithFirstFrameError"
  | "isotp.errors.ChangingInvalidRXDLError" => some "ChangingInvalidRXDLError"
  | "isotp.errors.WrongSequenceNumberError" => some "WrongSequenceNumberError"
  | "isotp.errors.InvalidCanFdFirstFrameRXDL" => some "InvalidCanFdFirstFrameRXDL"
  | "isotp.errors.FrameTooLongError" => some "FrameTooLongError"
  | "isotp.errors.ConsecutiveFrameTimeoutError" => some "ConsecutiveFrameTimeoutError"
  | _ => none

/-- The callees of the receive side.  `now` = the clock, `tCf` = `rx_consecutive_frame_timeout` converted to nanoseconds
    (the conversion `float(ms)/1000` seconds -> ns is the one the harness hands to the model, DESIGN 3.1: float arithmetic is
    outside the subset, so `Timer(timeout=...)` only yields the object and `start()` installs `now` and `tCf`),
    `start` = `address.get_rx_prefix_size()`, `data` = `msg.data`. -/
def rxMethsOf (now tCf start : Nat) (data : Bytes) : Meths where
  fn := fun name args env =>
    match name with
    | "PDU#start_of_data" => pduFn data args
    | "self.address.get_rx_prefix_size" => .ok (pint start)
    | "__format__" => .ok (.str "")
    | "str" => .ok (.str "")
    | "__caught__" => .ok (.str "")
    | "bytearray" => bytearrayFn args
    | "copy" => copyFn args
    | "self.ProcessRxReport#immediate_tx_required#frame_received" => reportFn args
    | "self.timer_rx_cf.is_timed_out" => timedOutFn now env
    | "float" => floatFn args
    | "Timer#timeout" => .ok (.meth "Timer")
    | n => match errClass n with
      | some c => .ok (.sc (.enum "errors" c))
      | none => .error (.unsupported ("call " ++ n))
  proc := fun name args env =>
    match name with
    | "self._trigger_error" => trigProc args env
    | "self.rx_queue.put" => putProc args env
    | "self.timer_rx_cf.stop" => .ok (timerStopEnv env)
    | "self.timer_rx_cf.start" => .ok (timerStartEnv now tCf env)
    | "self.rx_buffer.extend" => extendProc args env
    | "self._empty_rx_buffer" => .ok (emptyBufEnv env)
    | "self._stop_sending_flow_control" => .ok (stopFcEnv env)
    | "self._start_rx_cf_timer" => .ok (startCfEnv now tCf env)
    | "self._append_rx_data" => extendProc args env
    | "self._request_tx_flowcontrol" => reqFcProc args env
    | "self._stop_receiving" => .ok (stopRecvEnv env)
    | "started:=self._start_reception_after_first_frame_if_valid" => startRecProc now tCf args env
    | n => .error (.unsupported ("call " ++ n))

def rxMeths (s : State) (m : CanMsg) : Meths := rxMethsOf s.now s.cfg.tCf s.addr.rx.rxPrefixSize m.data

/-! ## Proof machinery (own namespace: generic names) -/
namespace Rx

/-- what the interpreter sees of the model state `s` (the mailbox object being `fc`) -/
structure Rep (s : State) (env : Env) : Prop where
  rxState : env "self.rx_state" = some (rxStPV s.rxState)
  rxFrameLen : env "self.rx_frame_length" = some (pint s.rxFrameLen)
  lastSeq : env "self.last_seqnum" = some (pint s.lastSeq)
  rxBlockCnt : env "self.rx_block_counter" = some (pint s.rxBlockCnt)
  actualRxdl : env "self.actual_rxdl" = some (optPV s.actualRxdl)
  rxBuf : env "self.rx_buffer" = some (.bytes s.rxBuf)
  pendingFc : env "self.pending_flow_control_tx" = some (pbool s.pendingFc)
  pfs : env "self.pending_flowcontrol_status" = s.pendingFcStatus.map (fun n => pint n)
  tStart : env "self.timer_rx_cf.start_time" = some (optPV s.timerCf.start)
  tTimeout : env "self.timer_rx_cf.timeout" = some (pint s.timerCf.timeout)
  blocksize : env "self.params.blocksize" = some (pint s.cfg.blocksize)
  maxFrameSize : env "self.params.max_frame_size" = some (pint s.cfg.maxFrameSize)
  cfTimeout : env "self.params.rx_consecutive_frame_timeout" = some (pint (s.cfg.tCf / 1000000))
  errors : env "#errors" = some (.list (errsOf s.log))
  delivered : env "#delivered" = some (.list (encodePayloads (deliveredOf s.log)))
  rxQueue : env "#rx_queue" = some (.list (encodePayloads s.rxQueue))
  mb : env "self.last_flow_control_frame" = some (mbVal "fc" s.lastFc)
  fcS : ∀ f, s.lastFc = some f → env "fc.flow_status" = some (pint f.status)
  fcB : ∀ f, s.lastFc = some f → env "fc.blocksize" = some (pint f.bs)
  fcM : ∀ f, s.lastFc = some f → env "fc.stmin" = some (pint f.stmin)

/-- the class constants the receive side reads -/
structure Consts (env : Env) : Prop where
  t0 : env "PDU.Type.SINGLE_FRAME" = some (pint 0)
  t1 : env "PDU.Type.FIRST_FRAME" = some (pint 1)
  t2 : env "PDU.Type.CONSECUTIVE_FRAME" = some (pint 2)
  t3 : env "PDU.Type.FLOW_CONTROL" = some (pint 3)
  idle : env "self.RxState.IDLE" = some (.sc (.enum "RxState" "IDLE"))
  waitCf : env "self.RxState.WAIT_CF" = some (.sc (.enum "RxState" "WAIT_CF"))
  cts : env "PDU.FlowStatus.ContinueToSend" = some (pint 0)
  ovf : env "PDU.FlowStatus.Overflow" = some (pint 2)

/-- the decoded frame, as the object `pdu` -/
structure PduCtx (d : Decoded) (env : Env) : Prop where
  type : env "pdu.type" = some (pint (typeCode d.pdu))
  canDl : env "pdu.can_dl" = some (pint d.canDl)
  rxDl : env "pdu.rx_dl" = some (pint d.rxDl)
  length : env "pdu.length" = pLen d.pdu
  data : env "pdu.data" = pData d.pdu
  seqnum : env "pdu.seqnum" = pSeq d.pdu
  esc : env "pdu.escape_sequence" = pEsc d.pdu
  fs : env "pdu.flow_status" = pFs d.pdu
  bs : env "pdu.blocksize" = pBs d.pdu
  stmin : env "pdu.stmin" = pStmin d.pdu

theorem rep_rxEnv (s : State) : Rep s (rxEnv s) := by
  refine ⟨rfl, rfl, rfl, rfl, rfl, rfl, rfl, rfl, rfl, rfl, rfl, rfl, rfl, rfl, rfl, rfl, rfl, ?_, ?_, ?_⟩ <;>
  · intro f hf
    show Option.map _ s.lastFc = _
    rw [hf]; rfl

theorem consts_rxEnv (s : State) : Consts (rxEnv s) := ⟨rfl, rfl, rfl, rfl, rfl, rfl, rfl, rfl⟩

theorem rep_rxEnvIn (s : State) (m : CanMsg) : Rep s (rxEnvIn s m) := by
  refine ⟨rfl, rfl, rfl, rfl, rfl, rfl, rfl, rfl, rfl, rfl, rfl, rfl, rfl, rfl, rfl, rfl, rfl, ?_, ?_, ?_⟩ <;>
  · intro f hf
    show Option.map _ s.lastFc = _
    rw [hf]; rfl

theorem consts_rxEnvIn (s : State) (m : CanMsg) : Consts (rxEnvIn s m) := ⟨rfl, rfl, rfl, rfl, rfl, rfl, rfl, rfl⟩

theorem pduCtx_rxEnvIn (s : State) (m : CanMsg) (d : Decoded) (h : rxDecoded s m = some d) : PduCtx d (rxEnvIn s m) := by
  have e : ∀ k, rxEnvIn s m k = (match k with | "msg" => some (.meth "msg") | _ => pduView (some d) (rxEnv s) k) := by
    intro k; unfold rxEnvIn; rw [h]
  constructor <;> (rw [e]; rfl)

/-! ### callee lookups -/

def builtinNames : List String :=
  ["len", "int", "bool", "min", "max", "bytes", "isinstance_int", "isinstance_bool", "isinstance_float", "isinstance_int_float"]

/-- a name that is not a builtin of the interpreter goes to `Meths` -/
theorem evalBuiltin_none (fn : String) (args : List PV) (h : fn ∉ builtinNames) : evalBuiltin fn args = none := by
  simp only [builtinNames, List.mem_cons, List.not_mem_nil, or_false, not_or] at h
  unfold evalBuiltin; split <;> simp_all

section lookups
variable (now tCf start : Nat) (data : Bytes)

theorem fn_lookups :
    (∀ args env, (rxMethsOf now tCf start data).fn "PDU#start_of_data" args env = pduFn data args) ∧
    (∀ args env, (rxMethsOf now tCf start data).fn "self.address.get_rx_prefix_size" args env = .ok (pint start)) ∧
    (∀ args env, (rxMethsOf now tCf start data).fn "__format__" args env = .ok (.str "")) ∧
    (∀ args env, (rxMethsOf now tCf start data).fn "str" args env = .ok (.str "")) ∧
    (∀ args env, (rxMethsOf now tCf start data).fn "__caught__" args env = .ok (.str "")) ∧
    (∀ args env, (rxMethsOf now tCf start data).fn "bytearray" args env = bytearrayFn args) ∧
    (∀ args env, (rxMethsOf now tCf start data).fn "copy" args env = copyFn args) ∧
    (∀ args env, (rxMethsOf now tCf start data).fn "self.ProcessRxReport#immediate_tx_required#frame_received" args env
        = reportFn args) ∧
    (∀ args env, (rxMethsOf now tCf start data).fn "self.timer_rx_cf.is_timed_out" args env = timedOutFn now env) ∧
    (∀ args env, (rxMethsOf now tCf start data).fn "float" args env = floatFn args) ∧
    (∀ args env, (rxMethsOf now tCf start data).fn "Timer#timeout" args env = .ok (.meth "Timer")) :=
  ⟨fun _ _ => rfl, fun _ _ => rfl, fun _ _ => rfl, fun _ _ => rfl, fun _ _ => rfl, fun _ _ => rfl, fun _ _ => rfl,
   fun _ _ => rfl, fun _ _ => rfl, fun _ _ => rfl, fun _ _ => rfl⟩

theorem err_lookups :
    (∀ args env, (rxMethsOf now tCf start data).fn "isotp.errors.InvalidCanDataError" args env
        = .ok (.sc (errSc .InvalidCanData))) ∧
    (∀ args env, (rxMethsOf now tCf start data).fn "isotp.errors.MissingEscapeSequenceError" args env
        = .ok (.sc (errSc .MissingEscapeSequence))) ∧
    (∀ args env, (rxMethsOf now tCf start data).fn "isotp.errors.UnexpectedConsecutiveFrameError" args env
        = .ok (.sc (errSc .UnexpectedConsecutiveFrame))) ∧
    (∀ args env, (rxMethsOf now tCf start data).fn "isotp.errors.ReceptionInterruptedWithSingleFrameError" args env
        = .ok (.sc (errSc .InterruptedWithSingleFrame))) ∧
    (∀ args env, (rxMethsOf now tCf start data).fn "isotp.errors.ReceptionInterruptedWithFirstFrameError" args env
        = .ok (.sc (errSc .InterruptedWithFirstFrame))) ∧
    (∀ args env, (rxMethsOf now tCf start data).fn "isotp.errors.ChangingInvalidRXDLError" args env
        = .ok (.sc (errSc .ChangingInvalidRXDL))) ∧
    (∀ args env, (rxMethsOf now tCf start data).fn "isotp.errors.WrongSequenceNumberError" args env
        = .ok (.sc (errSc .WrongSequenceNumber))) ∧
    (∀ args env, (rxMethsOf now tCf start data).fn "isotp.errors.InvalidCanFdFirstFrameRXDL" args env
        = .ok (.sc (errSc .InvalidCanFdFirstFrameRXDL))) ∧
    (∀ args env, (rxMethsOf now tCf start data).fn "isotp.errors.FrameTooLongError" args env
        = .ok (.sc (errSc .FrameTooLong))) ∧
    (∀ args env, (rxMethsOf now tCf start data).fn "isotp.errors.ConsecutiveFrameTimeoutError" args env
        = .ok (.sc (errSc .ConsecutiveFrameTimeout))) :=
  ⟨fun _ _ => rfl, fun _ _ => rfl, fun _ _ => rfl, fun _ _ => rfl, fun _ _ => rfl, fun _ _ => rfl, fun _ _ => rfl,
   fun _ _ => rfl, fun _ _ => rfl, fun _ _ => rfl⟩

theorem proc_lookups :
    (∀ args env, (rxMethsOf now tCf start data).proc "self._trigger_error" args env = trigProc args env) ∧
    (∀ args env, (rxMethsOf now tCf start data).proc "self.rx_queue.put" args env = putProc args env) ∧
    (∀ args env, (rxMethsOf now tCf start data).proc "self.timer_rx_cf.stop" args env = .ok (timerStopEnv env)) ∧
    (∀ args env, (rxMethsOf now tCf start data).proc "self.timer_rx_cf.start" args env = .ok (timerStartEnv now tCf env)) ∧
    (∀ args env, (rxMethsOf now tCf start data).proc "self.rx_buffer.extend" args env = extendProc args env) ∧
    (∀ args env, (rxMethsOf now tCf start data).proc "self._empty_rx_buffer" args env = .ok (emptyBufEnv env)) ∧
    (∀ args env, (rxMethsOf now tCf start data).proc "self._stop_sending_flow_control" args env = .ok (stopFcEnv env)) ∧
    (∀ args env, (rxMethsOf now tCf start data).proc "self._start_rx_cf_timer" args env = .ok (startCfEnv now tCf env)) ∧
    (∀ args env, (rxMethsOf now tCf start data).proc "self._append_rx_data" args env = extendProc args env) ∧
    (∀ args env, (rxMethsOf now tCf start data).proc "self._request_tx_flowcontrol" args env = reqFcProc args env) ∧
    (∀ args env, (rxMethsOf now tCf start data).proc "self._stop_receiving" args env = .ok (stopRecvEnv env)) ∧
    (∀ args env, (rxMethsOf now tCf start data).proc "started:=self._start_reception_after_first_frame_if_valid" args env
        = startRecProc now tCf args env) :=
  ⟨fun _ _ => rfl, fun _ _ => rfl, fun _ _ => rfl, fun _ _ => rfl, fun _ _ => rfl, fun _ _ => rfl, fun _ _ => rfl,
   fun _ _ => rfl, fun _ _ => rfl, fun _ _ => rfl, fun _ _ => rfl, fun _ _ => rfl⟩

end lookups

theorem trigProc_err (e : Err) (env : Env) : trigProc [.sc (errSc e)] env = .ok (trigEnv e.name env) := rfl
theorem putProc_bytes (b : Bytes) (env : Env) : putProc [.bytes b] env = .ok (putEnv b env) := rfl
theorem reqFcProc_one (v : PV) (env : Env) : reqFcProc [v] env = .ok (reqFcEnv v env) := rfl
theorem bytearrayFn_nil : bytearrayFn [] = .ok (.bytes []) := rfl
theorem bytearrayFn_bytes (b : Bytes) : bytearrayFn [.bytes b] = .ok (.bytes b) := rfl
theorem copyFn_one (x : PV) : copyFn [x] = .ok x := rfl
theorem reportFn_bools (a b : Bool) : reportFn [pbool a, pbool b] = .ok (.list [.py (.bool a), .py (.bool b)]) := rfl
theorem floatFn_int (i : Int) : floatFn [pint i] = .ok (pint i) := rfl
theorem scListOf_some (xs : List Sc) : scListOf (some (.list xs)) = xs := rfl
theorem extendProc_bytes (d b : Bytes) (env : Env) (h : env "self.rx_buffer" = some (.bytes b)) :
    extendProc [.bytes d] env = .ok (env.set "self.rx_buffer" (.bytes (b ++ d))) := by
  simp only [extendProc, h]

/-- symbolic evaluation: the interpreter's equations, the callee lookups, the value-level lemmas -/
macro "rx_eval" "[" ts:Lean.Parser.Tactic.simpLemma,* "]" : tactic =>
  `(tactic| simp (disch := decide) only [↓execBlock_single, execBlock, execStmt, eval, evalArgs, ok_bind, error_bind, set_apply,
      String.reduceEq, ↓reduceIte, evalBuiltin_none, fn_lookups, err_lookups, proc_lookups, trigProc_err, putProc_bytes,
      reqFcProc_one, bytearrayFn_nil, bytearrayFn_bytes, copyFn_one, reportFn_bools, floatFn_int, scListOf_some,
      truthy_pbool, evalCmp_eq, evalCmp_ne, pvEq_pint, pvEq_pbool, bi_len, ite_tt, ite_ff,
      stopRecvEnv, trigEnv, putEnv, emptyBufEnv, stopFcEnv, timerStopEnv, timerStartEnv, startCfEnv, reqFcEnv, $ts,*])

/-! ### 4a. the helpers: their own source = the environment transformer -/

section helpers
variable (now tCf start : Nat) (data : Bytes) (env : Env)

/-- `_empty_rx_buffer` -/
theorem empty_rx_buffer_src :
    runFn (rxMethsOf now tCf start data) env Src.TransportLayerLogic_p_empty_rx_buffer = .ok (pnone, emptyBufEnv env) := by
  simp only [runFn, Src.TransportLayerLogic_p_empty_rx_buffer]
  rx_eval []

/-- `_stop_sending_flow_control` -/
theorem stop_sending_flow_control_src :
    runFn (rxMethsOf now tCf start data) env Src.TransportLayerLogic_p_stop_sending_flow_control = .ok (pnone, stopFcEnv env) := by
  simp only [runFn, Src.TransportLayerLogic_p_stop_sending_flow_control]
  rx_eval []

/-- `_start_rx_cf_timer`: `Timer(timeout=float(ms)/1000)` then `start()` -/
theorem start_rx_cf_timer_src (ms : Nat) (h : env "self.params.rx_consecutive_frame_timeout" = some (pint ms)) :
    runFn (rxMethsOf now tCf start data) env Src.TransportLayerLogic_p_start_rx_cf_timer = .ok (pnone, startCfEnv now tCf env) := by
  simp only [runFn, Src.TransportLayerLogic_p_start_rx_cf_timer]
  rx_eval [h, truediv_ev]

/-- `_append_rx_data(data)`: the source run with its parameter bound, and the `Meths` entry the callers use; they differ only on
    the callee's parameter `data` -/
theorem append_rx_data_src (d b : Bytes) (h : env "self.rx_buffer" = some (.bytes b)) :
    runFn (rxMethsOf now tCf start data) (env.set "data" (.bytes d)) Src.TransportLayerLogic_p_append_rx_data
      = .ok (pnone, (env.set "data" (.bytes d)).set "self.rx_buffer" (.bytes (b ++ d))) ∧
    (rxMethsOf now tCf start data).proc "self._append_rx_data" [.bytes d] env
      = .ok (env.set "self.rx_buffer" (.bytes (b ++ d))) ∧
    ∀ k, k ≠ "data" →
      ((env.set "data" (.bytes d)).set "self.rx_buffer" (.bytes (b ++ d))) k = (env.set "self.rx_buffer" (.bytes (b ++ d))) k := by
  refine ⟨?_, ?_, ?_⟩
  · simp only [runFn, Src.TransportLayerLogic_p_append_rx_data]
    rx_eval [extendProc, h]
  · rx_eval [extendProc, h]
  · intro k hk
    simp only [set_apply, hk, if_false]

/-- `_request_tx_flowcontrol(status)`: same remark (parameter `status`) -/
theorem request_tx_flowcontrol_src (v : PV) :
    runFn (rxMethsOf now tCf start data) (env.set "status" v) Src.TransportLayerLogic_p_request_tx_flowcontrol
      = .ok (pnone, reqFcEnv v (env.set "status" v)) ∧
    (rxMethsOf now tCf start data).proc "self._request_tx_flowcontrol" [v] env = .ok (reqFcEnv v env) ∧
    ∀ k, k ≠ "status" → reqFcEnv v (env.set "status" v) k = reqFcEnv v env k := by
  refine ⟨?_, ?_, ?_⟩
  · simp only [runFn, Src.TransportLayerLogic_p_request_tx_flowcontrol]
    rx_eval []
  · rx_eval []
  · intro k hk
    simp only [reqFcEnv, set_apply, hk, if_false]

/-- `_stop_receiving` (calls `_empty_rx_buffer`, `_stop_sending_flow_control`, `timer_rx_cf.stop`) -/
theorem stop_receiving_src (hI : env "self.RxState.IDLE" = some (.sc (.enum "RxState" "IDLE"))) :
    runFn (rxMethsOf now tCf start data) env Src.TransportLayerLogic_p_stop_receiving = .ok (pnone, stopRecvEnv env) := by
  simp only [runFn, Src.TransportLayerLogic_p_stop_receiving]
  rx_eval [hI]

theorem lst_rxdl (M : Meths) (env : Env) :
    eval M env (.lst (.cons (.int (8)) (.cons (.int (12)) (.cons (.int (16)) (.cons (.int (20)) (.cons (.int (24))
      (.cons (.int (32)) (.cons (.int (48)) (.cons (.int (64)) .nil)))))))))
      = .ok (.list [.py (.int 8), .py (.int 12), .py (.int 16), .py (.int 20), .py (.int 24), .py (.int 32), .py (.int 48),
                    .py (.int 64)]) := rfl

theorem notIn_rxdl (i : Int) :
    evalCmp .notIn (pint i) (.list [.py (.int 8), .py (.int 12), .py (.int 16), .py (.int 20), .py (.int 24), .py (.int 32),
      .py (.int 48), .py (.int 64)]) = .ok (pbool (!validRxDlInt i)) := by
  simp [validRxDlInt, Bool.or_assoc]

theorem pint_bne_pnone (i : Int) : (pint i != pnone) = true := by simp [pint, pnone]
theorem bytes_bne_pnone' (b : Bytes) : (PV.bytes b != pnone) = true := by simp [pnone]

theorem startRecProc_eq (v : PV) (len rxDl mx : Int) (dat : Bytes)
    (hl : env "pdu.length" = some (pint len)) (hr : env "pdu.rx_dl" = some (pint rxDl))
    (hd : env "pdu.data" = some (.bytes dat)) (hm : env "self.params.max_frame_size" = some (pint mx)) :
    startRecProc now tCf [v] env = .ok (startRecEnv now tCf len rxDl dat mx env) := by
  simp only [startRecProc, hl, hr, hd, hm]

/-- `_start_reception_after_first_frame_if_valid(pdu)`: its source returns `b` in the environment `envR`, and the entry
    `started:=self._start_reception_after_first_frame_if_valid` of the callers is `envR` with `started := b` -/
theorem start_reception_src (hC : Consts env) (len rxDl mx : Int) (dat : Bytes)
    (hl : env "pdu.length" = some (pint len)) (hr : env "pdu.rx_dl" = some (pint rxDl))
    (hd : env "pdu.data" = some (.bytes dat)) (hm : env "self.params.max_frame_size" = some (pint mx)) :
    ∃ envR b, runFn (rxMethsOf now tCf start data) env Src.TransportLayerLogic_p_start_reception_after_first_frame_if_valid
        = .ok (pbool b, envR) ∧
      startRecProc now tCf [.meth "pdu"] env = .ok (envR.set "started" (pbool b)) := by
  rw [startRecProc_eq now tCf env _ len rxDl mx dat hl hr hd hm]
  simp only [runFn, Src.TransportLayerLogic_p_start_reception_after_first_frame_if_valid]
  cases hv : validRxDlInt rxDl
  · rx_eval [↓lst_rxdl, hl, hr, hd, hm, notIn_rxdl, pint_bne_pnone, hv, hC.idle, Bool.not_false]
    exact ⟨_, _, rfl, by simp only [startRecEnv, hv]; rfl⟩
  · by_cases hgt : mx < len
    · rx_eval [↓lst_rxdl, hl, hr, hd, hm, notIn_rxdl, pint_bne_pnone, hv, hC.idle, hC.ovf, cmp_gt_pint, hgt,
        Bool.not_true, decide_true]
      exact ⟨_, _, rfl, by simp only [startRecEnv, hv, hgt]; rfl⟩
    · rx_eval [↓lst_rxdl, hl, hr, hd, hm, notIn_rxdl, pint_bne_pnone, hv, hC.waitCf, hC.cts, cmp_gt_pint, hgt,
        Bool.not_true, decide_false, extendProc]
      exact ⟨_, _, rfl, by simp only [startRecEnv, hv, hgt]; rfl⟩

end helpers

/-! ### 4b. the environment transformers = the model functions -/

/-- `Rep s' env'` for an `env'` built from `env` by `Env.set`s, given `h : Rep s env`: one lookup per attribute -/
macro "rep_tac" h:ident : tactic =>
  `(tactic| (constructor <;>
      (try simp only [stopRecvEnv, trigEnv, putEnv, emptyBufEnv, stopFcEnv, timerStopEnv, timerStartEnv, startCfEnv, reqFcEnv,
        set_apply, String.reduceEq, ↓reduceIte, ($h).errors, ($h).delivered, ($h).rxQueue, scListOf_some]) <;>
      first
        | rfl
        | exact ($h).rxState | exact ($h).rxFrameLen | exact ($h).lastSeq | exact ($h).rxBlockCnt | exact ($h).actualRxdl
        | exact ($h).rxBuf | exact ($h).pendingFc | exact ($h).pfs | exact ($h).tStart | exact ($h).tTimeout
        | exact ($h).blocksize | exact ($h).maxFrameSize | exact ($h).cfTimeout | exact ($h).mb
        | exact ($h).fcS | exact ($h).fcB | exact ($h).fcM
        | (intro f hf; cases hf)))

/-- the same for the read-only parts -/
macro "consts_tac" h:ident : tactic =>
  `(tactic| (constructor <;>
      (try simp only [stopRecvEnv, trigEnv, putEnv, emptyBufEnv, stopFcEnv, timerStopEnv, timerStartEnv, startCfEnv, reqFcEnv,
        set_apply, String.reduceEq, ↓reduceIte]) <;>
      first
        | exact ($h).t0 | exact ($h).t1 | exact ($h).t2 | exact ($h).t3 | exact ($h).idle | exact ($h).waitCf
        | exact ($h).cts | exact ($h).ovf))

macro "pdu_tac" h:ident : tactic =>
  `(tactic| (constructor <;>
      (try simp only [stopRecvEnv, trigEnv, putEnv, emptyBufEnv, stopFcEnv, timerStopEnv, timerStartEnv, startCfEnv, reqFcEnv,
        set_apply, String.reduceEq, ↓reduceIte]) <;>
      first
        | exact ($h).type | exact ($h).canDl | exact ($h).rxDl | exact ($h).length | exact ($h).data | exact ($h).seqnum
        | exact ($h).esc | exact ($h).fs | exact ($h).bs | exact ($h).stmin))

section transformers
variable {s : State} {env : Env}

theorem errsOf_error (s : State) (e : Err) : errsOf (s.error e).log = errsOf s.log ++ [errSc e] := rfl
theorem deliveredOf_error (s : State) (e : Err) : deliveredOf (s.error e).log = deliveredOf s.log := rfl
theorem errsOf_deliver (s : State) (p : Bytes) : errsOf (s.deliver p).log = errsOf s.log := rfl
theorem deliveredOf_deliver (s : State) (p : Bytes) : deliveredOf (s.deliver p).log = deliveredOf s.log ++ [p] := rfl

theorem rxQueue_deliver (s : State) (p : Bytes) : (s.deliver p).rxQueue = s.rxQueue ++ [p] := rfl

theorem Rep.trig (h : Rep s env) (e : Err) : Rep (s.error e) (trigEnv e.name env) := by rep_tac h
theorem Rep.put (h : Rep s env) (p : Bytes) : Rep (s.deliver p) (putEnv p env) := by
  constructor <;>
    (try simp only [putEnv, set_apply, String.reduceEq, ↓reduceIte, h.delivered, h.rxQueue, scListOf_some,
      deliveredOf_deliver, rxQueue_deliver, encodePayloads_append])
  all_goals first
    | rfl
    | exact h.rxState | exact h.rxFrameLen | exact h.lastSeq | exact h.rxBlockCnt | exact h.actualRxdl
    | exact h.rxBuf | exact h.pendingFc | exact h.pfs | exact h.tStart | exact h.tTimeout
    | exact h.blocksize | exact h.maxFrameSize | exact h.cfTimeout | exact h.mb | exact h.errors
    | exact h.fcS | exact h.fcB | exact h.fcM
theorem Rep.emptyBuf (h : Rep s env) : Rep { s with rxBuf := [] } (emptyBufEnv env) := by rep_tac h
theorem Rep.stopFc (h : Rep s env) : Rep { s with pendingFc := false, lastFc := none } (stopFcEnv env) := by rep_tac h
theorem Rep.timerStop (h : Rep s env) : Rep { s with timerCf := s.timerCf.stop } (timerStopEnv env) := by rep_tac h
theorem Rep.startCf (h : Rep s env) : Rep s.startRxCfTimer (startCfEnv s.now s.cfg.tCf env) := by rep_tac h
theorem Rep.extend (h : Rep s env) (d : Bytes) :
    Rep { s with rxBuf := s.rxBuf ++ d } (env.set "self.rx_buffer" (.bytes (s.rxBuf ++ d))) := by rep_tac h
theorem Rep.reqFc (h : Rep s env) (st : Nat) : Rep (s.requestFc st) (reqFcEnv (pint st) env) := by rep_tac h
theorem Rep.stopRecv (h : Rep s env) : Rep s.stopReceiving (stopRecvEnv env) := by rep_tac h


theorem validRxDlInt_nat (n : Nat) : validRxDlInt (n : Int) = validTxDl n := by
  unfold validRxDlInt validTxDl
  rw [Bool.eq_iff_iff]
  simp only [Bool.or_eq_true, beq_iff_eq, decide_eq_true_eq]
  omega

/-- the keys `_start_reception_after_first_frame_if_valid` may write -/
def startRecKeys : List String :=
  ["self.rx_buffer", "#errors", "self.actual_rxdl", "self.rx_state", "self.pending_flow_control_tx",
   "self.last_flow_control_frame", "self.timer_rx_cf.start_time", "started", "self.pending_flowcontrol_status",
   "self.last_seqnum", "self.rx_block_counter", "self.rx_frame_length", "self.timer_rx_cf", "self.timer_rx_cf.timeout"]

theorem startRecEnv_frame (now tCf : Nat) (len rxDl : Int) (dat : Bytes) (mx : Int) (env : Env) (k : String)
    (hk : k ∉ startRecKeys) : startRecEnv now tCf len rxDl dat mx env k = env k := by
  simp only [startRecKeys, List.mem_cons, List.not_mem_nil, or_false, not_or] at hk
  obtain ⟨h1, h2, h3, h4, h5, h6, h7, h8, h9, h10, h11, h12, h13, h14⟩ := hk
  unfold startRecEnv
  simp only [stopRecvEnv, trigEnv, emptyBufEnv, stopFcEnv, timerStopEnv, timerStartEnv, startCfEnv, reqFcEnv]
  split
  · simp only [set_apply, *, if_false]
  · split <;> simp only [set_apply, *, if_false]

/-- `_start_reception_after_first_frame_if_valid` = `State.startReception`, state and result -/
theorem Rep.startRec (h : Rep s env) (len rxDl : Nat) (dat : Bytes) :
    Rep (s.startReception len dat rxDl).1 (startRecEnv s.now s.cfg.tCf len rxDl dat s.cfg.maxFrameSize env) ∧
    startRecEnv s.now s.cfg.tCf len rxDl dat s.cfg.maxFrameSize env "started"
      = some (pbool (s.startReception len dat rxDl).2) := by
  unfold startRecEnv State.startReception
  simp only [validRxDlInt_nat]
  cases hv : validTxDl rxDl
  · simp only [Bool.not_false, if_true]
    exact ⟨by rep_tac h, rfl⟩
  · by_cases hgt : len > s.cfg.maxFrameSize
    · have hgt' : (len : Int) > (s.cfg.maxFrameSize : Int) := by omega
      simp only [Bool.not_true, Bool.false_eq_true, if_false, hgt, hgt', if_true]
      exact ⟨by rep_tac h, rfl⟩
    · have hgt' : ¬ (len : Int) > (s.cfg.maxFrameSize : Int) := by omega
      simp only [Bool.not_true, Bool.false_eq_true, if_false, hgt, hgt']
      exact ⟨by rep_tac h, rfl⟩

end transformers

/-! ## 5. `_process_rx`, cut along its structure -/

abbrev body : PBlock := Src.TransportLayerLogic_p_process_rx
/-- `try: pdu = PDU(msg, start_of_data=...) except Exception as e: ...; return` -/
def st0 : PStmt := bhead (bdrop 0 body)
/-- `if pdu.type == FLOW_CONTROL: self.last_flow_control_frame = pdu; return` -/
def st1 : PStmt := bhead (bdrop 1 body)
/-- `frame_complete = False` -/
def st2 : PStmt := bhead (bdrop 2 body)
/-- `if pdu.type == SINGLE_FRAME: if pdu.can_dl > 8 and pdu.escape_sequence == False: ...; return` -/
def st3 : PStmt := bhead (bdrop 3 body)
/-- `immediate_tx_msg_required = False` -/
def st4 : PStmt := bhead (bdrop 4 body)
/-- the state machine: `if self.rx_state == IDLE: ... elif self.rx_state == WAIT_CF: ...` -/
def st5 : PStmt := bhead (bdrop 5 body)
/-- `if self.pending_flow_control_tx: immediate_tx_msg_required = True` -/
def st6 : PStmt := bhead (bdrop 6 body)
/-- `return self.ProcessRxReport(immediate_tx_required=immediate_tx_msg_required, frame_received=frame_complete)` -/
def st7 : PStmt := bhead (bdrop 7 body)

theorem body_shape : body =
    .cons st0 (.cons st1 (.cons st2 (.cons st3 (.cons st4 (.cons st5 (.cons st6 (.cons st7 .nil))))))) := rfl

/-- the IDLE branch -/
def idleBlk : PBlock := thenOf st5
/-- the WAIT_CF branch -/
def waitStmt : PStmt := bhead (elseOf st5)
def waitBlk : PBlock := thenOf waitStmt

theorem st5_shape : st5 =
    .ite (.cmp .eq (.var "self.rx_state") (.var "self.RxState.IDLE")) idleBlk
      (.cons (.ite (.cmp .eq (.var "self.rx_state") (.var "self.RxState.WAIT_CF")) waitBlk .nil) .nil) := rfl

theorem pvEq_rxSt_idle (r : RxSt) : pvEq (rxStPV r) (.sc (.enum "RxState" "IDLE")) = decide (r = .idle) := by
  cases r <;> rfl
theorem pvEq_rxSt_waitCf (r : RxSt) : pvEq (rxStPV r) (.sc (.enum "RxState" "WAIT_CF")) = decide (r = .waitCf) := by
  cases r <;> rfl

section sm
variable (now tCf start : Nat) (data : Bytes)
local notation "M" => rxMethsOf now tCf start data

/-- statements 6-7: the pending Flow Control request and the report -/
theorem tail_run {s : State} {env : Env} {fc itx : Bool} (hR : Rep s env)
    (hfc : env "frame_complete" = some (pbool fc)) (hitx : env "immediate_tx_msg_required" = some (pbool itx)) :
    ∃ env', execBlock M env (.cons st6 (.cons st7 .nil))
        = .ok (.returned (.list [.py (.bool (itx || s.pendingFc)), .py (.bool fc)]) env') ∧ Rep s env' := by
  simp only [st6, st7, bhead, bdrop, body, Src.TransportLayerLogic_p_process_rx]
  cases hp : s.pendingFc
  · rx_eval [hR.pendingFc, hp, hfc, hitx, Bool.or_false]
    exact ⟨_, rfl, hR⟩
  · rx_eval [hR.pendingFc, hp, hfc, hitx, Bool.or_true]
    exact ⟨_, rfl, by rep_tac hR⟩

end sm


def repKeys : List String :=
  ["self.rx_state", "self.rx_frame_length", "self.last_seqnum", "self.rx_block_counter", "self.actual_rxdl", "self.rx_buffer",
   "self.pending_flow_control_tx", "self.pending_flowcontrol_status", "self.timer_rx_cf.start_time", "self.timer_rx_cf.timeout",
   "self.params.blocksize", "self.params.max_frame_size", "self.params.rx_consecutive_frame_timeout", "#errors", "#delivered",
   "#rx_queue", "self.last_flow_control_frame", "fc.flow_status", "fc.blocksize", "fc.stmin"]

/-- writing a local variable (any other name) does not change the object -/
theorem Rep.setLocal {s : State} {env : Env} (h : Rep s env) (k : String) (v : PV) (hk : k ∉ repKeys) : Rep s (env.set k v) := by
  simp only [repKeys, List.mem_cons, List.not_mem_nil, or_false, not_or] at hk
  obtain ⟨h1, h2, h3, h4, h5, h6, h7, h8, h9, h10, h11, h12, h13, h14, h15, h16, h17, h18, h19, h20⟩ := hk
  cases h
  constructor <;> simp only [set_apply, Ne.symm h1, Ne.symm h2, Ne.symm h3, Ne.symm h4, Ne.symm h5, Ne.symm h6, Ne.symm h7,
    Ne.symm h8, Ne.symm h9, Ne.symm h10, Ne.symm h11, Ne.symm h12, Ne.symm h13, Ne.symm h14, Ne.symm h15, Ne.symm h16,
    Ne.symm h17, Ne.symm h18, Ne.symm h19, Ne.symm h20, if_false] <;> assumption

theorem pvEq_enum_self (c m : String) : pvEq (.sc (.enum c m)) (.sc (.enum c m)) = true := by simp
theorem pvEq_idle_wait : pvEq (.sc (.enum "RxState" "WAIT_CF")) (.sc (.enum "RxState" "IDLE")) = false := by decide
theorem pvEq_wait_idle : pvEq (.sc (.enum "RxState" "IDLE")) (.sc (.enum "RxState" "WAIT_CF")) = false := by decide

/-- a lookup of a local variable through a chain of `Env.set`s -/
macro "loc_tac" : tactic =>
  `(tactic| (simp only [set_apply, String.reduceEq, ↓reduceIte] <;> try assumption))



/-- `if pdu.type == SF: .. elif pdu.type == FF: .. elif pdu.type == CF: ..` of the IDLE branch -/
def idleDispatch : PStmt := bhead (bdrop 2 idleBlk)
def sfI : PBlock := thenOf idleDispatch
def ffI : PBlock := thenOf (bhead (elseOf idleDispatch))
def cfI : PBlock := thenOf (bhead (elseOf (bhead (elseOf idleDispatch))))
/-- the same of the WAIT_CF branch -/
def waitDispatch : PStmt := bhead waitBlk
def sfW : PBlock := thenOf waitDispatch
def ffW : PBlock := thenOf (bhead (elseOf waitDispatch))
def cfW : PBlock := thenOf (bhead (elseOf (bhead (elseOf waitDispatch))))
/-- `if pdu.seqnum == expected_seqnum: cfOk else: cfBad` -/
def seqStmt : PStmt := bhead (bdrop 1 cfW)
def cfOk : PBlock := thenOf seqStmt
def cfBad : PBlock := elseOf seqStmt
/-- `if pdu.rx_dl != self.actual_rxdl and pdu.rx_dl < bytes_to_receive: ...; return` -/
def chgStmt : PStmt := bhead (bdrop 1 cfOk)
/-- `if len(self.rx_buffer) >= self.rx_frame_length: complBlk else: moreBlk` -/
def complStmt : PStmt := bhead (bdrop 5 cfOk)
def complBlk : PBlock := thenOf complStmt
def moreBlk : PBlock := elseOf complStmt

def typeIs (c : String) : PExpr := .cmp .eq (.var "pdu.type") (.var c)
def dispatch3 (bs bf bc : PBlock) : PStmt :=
  .ite (typeIs "PDU.Type.SINGLE_FRAME") bs (.cons (.ite (typeIs "PDU.Type.FIRST_FRAME") bf
    (.cons (.ite (typeIs "PDU.Type.CONSECUTIVE_FRAME") bc .nil) .nil)) .nil)

theorem idleBlk_shape : idleBlk =
    .cons (.assign "self.rx_frame_length" (.int (0))) (.cons (.expr (.call "self.timer_rx_cf.stop" .nil))
      (.cons (dispatch3 sfI ffI cfI) .nil)) := rfl
theorem waitBlk_shape : waitBlk = .cons (dispatch3 sfW ffW cfW) .nil := rfl
theorem cfW_shape : cfW =
    .cons (.assign "expected_seqnum" (.binop .band (.binop .add (.var "self.last_seqnum") (.int (1))) (.int (15))))
      (.cons (.ite (.cmp .eq (.var "pdu.seqnum") (.var "expected_seqnum")) cfOk cfBad) .nil) := rfl
theorem cfOk_shape : cfOk =
    .cons (.assign "bytes_to_receive" (.binop .sub (.var "self.rx_frame_length") (.call "len" (.cons (.var "self.rx_buffer") .nil))))
    (.cons chgStmt
    (.cons (.expr (.call "self._start_rx_cf_timer" .nil))
    (.cons (.assign "self.last_seqnum" (.var "pdu.seqnum"))
    (.cons (.expr (.call "self._append_rx_data" (.cons (.sliceTo (.var "pdu.data") (.var "bytes_to_receive")) .nil)))
    (.cons (.ite (.cmp .ge (.call "len" (.cons (.var "self.rx_buffer") .nil)) (.var "self.rx_frame_length")) complBlk moreBlk)
    .nil))))) := rfl

/-! generic stepping lemmas (the blocks are variables: `simp` never looks into a branch that is not taken) -/

theorem exec_ite (M : Meths) (env : Env) (c : PExpr) (t e : PBlock) (b : Bool) (hc : eval M env c = .ok (pbool b)) :
    execStmt M env (.ite c t e) = execBlock M env (if b then t else e) := by
  cases b <;> simp only [execStmt, hc, ok_bind, truthy_pbool, ite_ff] <;> rfl

theorem block_next (M : Meths) (env env' : Env) (s : PStmt) (r : PBlock) (h : execStmt M env s = .ok (.next env')) :
    execBlock M env (.cons s r) = execBlock M env' r := by
  simp only [execBlock, h, ok_bind]

theorem block_ret (M : Meths) (env env' : Env) (v : PV) (s : PStmt) (r : PBlock) (h : execStmt M env s = .ok (.returned v env')) :
    execBlock M env (.cons s r) = .ok (.returned v env') := by
  simp only [execBlock, h, ok_bind]

theorem block_nil (M : Meths) (env : Env) : execBlock M env .nil = .ok (.next env) := rfl

/-- the three-way dispatch on the frame type -/
theorem dispatch3_run (M : Meths) (env : Env) (hC : Consts env) (bs bf bc : PBlock) (k : Nat)
    (ht : env "pdu.type" = some (pint k)) :
    execStmt M env (dispatch3 bs bf bc) =
      if k = 0 then execBlock M env bs else if k = 1 then execBlock M env bf else if k = 2 then execBlock M env bc
      else .ok (.next env) := by
  have e0 : eval M env (typeIs "PDU.Type.SINGLE_FRAME") = .ok (pbool (decide (k = 0))) := by
    simp [typeIs, eval, ht, hC.t0]
    rw [Bool.eq_iff_iff]; simp only [beq_iff_eq, decide_eq_true_eq]; omega
  have e1 : eval M env (typeIs "PDU.Type.FIRST_FRAME") = .ok (pbool (decide (k = 1))) := by
    simp [typeIs, eval, ht, hC.t1]
    rw [Bool.eq_iff_iff]; simp only [beq_iff_eq, decide_eq_true_eq]; omega
  have e2 : eval M env (typeIs "PDU.Type.CONSECUTIVE_FRAME") = .ok (pbool (decide (k = 2))) := by
    simp [typeIs, eval, ht, hC.t2]
    rw [Bool.eq_iff_iff]; simp only [beq_iff_eq, decide_eq_true_eq]; omega
  unfold dispatch3
  rw [exec_ite M env _ _ _ _ e0]
  by_cases h0 : k = 0
  · simp only [h0, decide_true, if_true]
  · simp only [h0, decide_false, if_false, Bool.false_eq_true]
    rw [execBlock_single, exec_ite M env _ _ _ _ e1]
    by_cases h1 : k = 1
    · simp only [h1, decide_true, if_true]
    · simp only [h1, decide_false, if_false, Bool.false_eq_true]
      rw [execBlock_single, exec_ite M env _ _ _ _ e2]
      by_cases h2 : k = 2
      · simp only [h2, decide_true, if_true]
      · simp only [h2, decide_false, if_false, Bool.false_eq_true]
        rfl



section sm2
variable (start : Nat) (data : Bytes)

/-- environment after `self.rx_frame_length = 0; self.timer_rx_cf.stop()` -/
def idleEnv (env : Env) : Env := (env.set "self.rx_frame_length" (pint 0)).set "self.timer_rx_cf.start_time" pnone
/-- the model state at the same point -/
def idleSt (s : State) : State := { s with rxFrameLen := 0, timerCf := s.timerCf.stop }

theorem rep_idle {s : State} {env : Env} (hR : Rep s env) : Rep (idleSt s) (idleEnv env) := by
  unfold idleSt idleEnv; rep_tac hR
theorem consts_idle {env : Env} (hC : Consts env) : Consts (idleEnv env) := by unfold idleEnv; consts_tac hC
theorem pduCtx_idle {d : Decoded} {env : Env} (hP : PduCtx d env) : PduCtx d (idleEnv env) := by unfold idleEnv; pdu_tac hP

/-- IDLE: the two statements before the dispatch on the frame type -/
theorem idle_prefix (M : Meths) {s : State} {env : Env} (hM : ∀ args e, M.proc "self.timer_rx_cf.stop" args e = .ok (timerStopEnv e))
    (hR : Rep s env) (hC : Consts env) (hst : s.rxState = .idle) :
    execStmt M env st5 = execStmt M (idleEnv env) (dispatch3 sfI ffI cfI) := by
  have hrs : env "self.rx_state" = some (.sc (.enum "RxState" "IDLE")) := by rw [hR.rxState, hst]; rfl
  have hc : eval M env (.cmp .eq (.var "self.rx_state") (.var "self.RxState.IDLE")) = .ok (pbool true) := by
    simp only [eval, hrs, hC.idle, ok_bind, evalCmp_eq, pvEq_enum_self]
  rw [st5_shape, exec_ite M env _ _ _ _ hc]
  simp only [if_true]
  rw [idleBlk_shape, block_next M env _ _ _ rfl]
  have h2 : execStmt M (env.set "self.rx_frame_length" (pint 0)) (.expr (.call "self.timer_rx_cf.stop" .nil))
      = .ok (.next (idleEnv env)) := by
    simp (disch := decide) only [execStmt, evalArgs, ok_bind, evalBuiltin_none, hM, timerStopEnv, idleEnv]
  rw [block_next M _ _ _ _ h2, execBlock_single]

/-- WAIT_CF: straight to the dispatch on the frame type -/
theorem wait_prefix (M : Meths) {s : State} {env : Env} (hR : Rep s env) (hC : Consts env) (hst : s.rxState = .waitCf) :
    execStmt M env st5 = execStmt M env (dispatch3 sfW ffW cfW) := by
  have hrs : env "self.rx_state" = some (.sc (.enum "RxState" "WAIT_CF")) := by rw [hR.rxState, hst]; rfl
  have hc : eval M env (.cmp .eq (.var "self.rx_state") (.var "self.RxState.IDLE")) = .ok (pbool false) := by
    simp only [eval, hrs, hC.idle, ok_bind, evalCmp_eq, pvEq_idle_wait]
  have hc2 : eval M env (.cmp .eq (.var "self.rx_state") (.var "self.RxState.WAIT_CF")) = .ok (pbool true) := by
    simp only [eval, hrs, hC.waitCf, ok_bind, evalCmp_eq, pvEq_enum_self]
  rw [st5_shape, exec_ite M env _ _ _ _ hc]
  simp only [Bool.false_eq_true, if_false]
  rw [execBlock_single, exec_ite M env _ _ _ _ hc2]
  simp only [if_true]
  rw [waitBlk_shape, execBlock_single]


local notation "Ms" s:max => rxMethsOf (State.now s) (Cfg.tCf (State.cfg s)) start data

theorem stop_lookup (now tCf : Nat) : ∀ args e, (rxMethsOf now tCf start data).proc "self.timer_rx_cf.stop" args e = .ok (timerStopEnv e) :=
  (proc_lookups now tCf start data).2.2.1

/-- what the state machine does to the object and the two result locals -/
def SmOut (M : Meths) (env : Env) (s1 : State) (fc itx : Bool) : Prop :=
  ∃ env', execStmt M env st5 = .ok (.next env') ∧ Rep s1 env' ∧
    env' "frame_complete" = some (pbool fc) ∧ env' "immediate_tx_msg_required" = some (pbool itx)

variable {s : State} {d : Decoded} {env : Env}

/-- IDLE, Single Frame: delivered -/
theorem sm_sf_idle (hR : Rep s env) (hC : Consts env) (hP : PduCtx d env)
    (len : Nat) (dat : Bytes) (esc : Bool) (hd : d.pdu = .sf len dat esc) (hst : s.rxState = .idle)
    (hitx : env "immediate_tx_msg_required" = some (pbool false)) :
    SmOut (Ms s) env ((idleSt s).deliver dat) true false := by
  have ht : idleEnv env "pdu.type" = some (pint (0 : Nat)) := by rw [(pduCtx_idle hP).type, hd]; rfl
  have hdat : idleEnv env "pdu.data" = some (.bytes dat) := by rw [(pduCtx_idle hP).data, hd]; rfl
  unfold SmOut
  rw [idle_prefix _ (stop_lookup start data _ _) hR hC hst, dispatch3_run _ _ (consts_idle hC) _ _ _ 0 ht]
  simp only [if_true, sfI, thenOf, idleDispatch, bhead, bdrop, idleBlk, st5, body, Src.TransportLayerLogic_p_process_rx]
  rx_eval [hdat, bytes_bne_pnone']
  refine ⟨_, rfl, ?_, ?_, ?_⟩
  · exact ((rep_idle hR).setLocal "frame_complete" _ (by decide)).put dat
  · loc_tac
  · simp only [idleEnv]; loc_tac

/-- IDLE, Consecutive Frame: `UnexpectedConsecutiveFrameError` -/
theorem sm_cf_idle (hR : Rep s env) (hC : Consts env) (hP : PduCtx d env)
    (sn : Nat) (dat : Bytes) (hd : d.pdu = .cf sn dat) (hst : s.rxState = .idle)
    (hfc : env "frame_complete" = some (pbool false)) (hitx : env "immediate_tx_msg_required" = some (pbool false)) :
    SmOut (Ms s) env ((idleSt s).error .UnexpectedConsecutiveFrame) false false := by
  have ht : idleEnv env "pdu.type" = some (pint (2 : Nat)) := by rw [(pduCtx_idle hP).type, hd]; rfl
  unfold SmOut
  rw [idle_prefix _ (stop_lookup start data _ _) hR hC hst, dispatch3_run _ _ (consts_idle hC) _ _ _ 2 ht]
  simp only [Nat.reduceEqDiff, if_false, if_true, cfI, thenOf, elseOf, idleDispatch, bhead, bdrop, idleBlk, st5, body,
    Src.TransportLayerLogic_p_process_rx]
  rx_eval []
  refine ⟨_, rfl, ?_, ?_, ?_⟩
  · exact (rep_idle hR).trig .UnexpectedConsecutiveFrame
  · simp only [idleEnv]; loc_tac
  · simp only [idleEnv]; loc_tac

/-- WAIT_CF, Single Frame: delivered, reception aborted, `ReceptionInterruptedWithSingleFrameError` -/
theorem sm_sf_wait (hR : Rep s env) (hC : Consts env) (hP : PduCtx d env)
    (len : Nat) (dat : Bytes) (esc : Bool) (hd : d.pdu = .sf len dat esc) (hst : s.rxState = .waitCf)
    (hitx : env "immediate_tx_msg_required" = some (pbool false)) :
    SmOut (Ms s) env (((s.deliver dat).stopReceiving).error .InterruptedWithSingleFrame) true false := by
  have ht : env "pdu.type" = some (pint (0 : Nat)) := by rw [hP.type, hd]; rfl
  have hdat : env "pdu.data" = some (.bytes dat) := by rw [hP.data, hd]; rfl
  unfold SmOut
  rw [wait_prefix _ hR hC hst, dispatch3_run _ _ hC _ _ _ 0 ht]
  simp only [if_true, sfW, thenOf, waitDispatch, bhead, bdrop, waitBlk, waitStmt, elseOf, st5, body,
    Src.TransportLayerLogic_p_process_rx]
  rx_eval [hdat, bytes_bne_pnone']
  refine ⟨_, rfl, ?_, ?_, ?_⟩
  · exact (((hR.setLocal "frame_complete" _ (by decide)).put dat).stopRecv).trig .InterruptedWithSingleFrame
  · loc_tac
  · loc_tac


/-- IDLE, First Frame: `_start_reception_after_first_frame_if_valid` -/
theorem sm_ff_idle (hR : Rep s env) (hC : Consts env) (hP : PduCtx d env) (hpdu : env "pdu" = some (.meth "pdu"))
    (len : Nat) (dat : Bytes) (esc : Bool) (hd : d.pdu = .ff len dat esc) (hst : s.rxState = .idle)
    (hfc : env "frame_complete" = some (pbool false)) (hitx : env "immediate_tx_msg_required" = some (pbool false)) :
    SmOut (Ms s) env ((idleSt s).startReception len dat d.rxDl).1 false ((idleSt s).startReception len dat d.rxDl).2 := by
  have ht : idleEnv env "pdu.type" = some (pint (1 : Nat)) := by rw [(pduCtx_idle hP).type, hd]; rfl
  have hlen : idleEnv env "pdu.length" = some (pint len) := by rw [(pduCtx_idle hP).length, hd]; rfl
  have hdat : idleEnv env "pdu.data" = some (.bytes dat) := by rw [(pduCtx_idle hP).data, hd]; rfl
  have hpdu' : idleEnv env "pdu" = some (.meth "pdu") := by simp only [idleEnv]; loc_tac
  have hitx' : idleEnv env "immediate_tx_msg_required" = some (pbool false) := by simp only [idleEnv]; loc_tac
  have hfc' : idleEnv env "frame_complete" = some (pbool false) := by simp only [idleEnv]; loc_tac
  have h0 := rep_idle hR
  have hmx : idleEnv env "self.params.max_frame_size" = some (pint s.cfg.maxFrameSize) := h0.maxFrameSize
  have hsr := Rep.startRec h0 len d.rxDl dat
  have hstarted : startRecEnv s.now s.cfg.tCf len d.rxDl dat s.cfg.maxFrameSize (idleEnv env) "started"
      = some (pbool ((idleSt s).startReception len dat d.rxDl).2) := hsr.2
  unfold SmOut
  rw [idle_prefix _ (stop_lookup start data _ _) hR hC hst, dispatch3_run _ _ (consts_idle hC) _ _ _ 1 ht]
  simp only [Nat.reduceEqDiff, if_false, if_true, ffI, thenOf, elseOf, idleDispatch, bhead, bdrop, idleBlk, st5, body,
    Src.TransportLayerLogic_p_process_rx]
  rx_eval [hpdu', startRecProc, hlen, (pduCtx_idle hP).rxDl, hdat, hmx, startRecEnv_frame, hitx', hstarted]
  refine ⟨_, rfl, ?_, ?_, ?_⟩
  · exact hsr.1.setLocal _ _ (by decide)
  · simp (disch := decide) only [set_apply, String.reduceEq, ↓reduceIte, startRecEnv_frame, hfc']
  · loc_tac

/-- WAIT_CF, First Frame: the same, then `ReceptionInterruptedWithFirstFrameError` -/
theorem sm_ff_wait (hR : Rep s env) (hC : Consts env) (hP : PduCtx d env) (hpdu : env "pdu" = some (.meth "pdu"))
    (len : Nat) (dat : Bytes) (esc : Bool) (hd : d.pdu = .ff len dat esc) (hst : s.rxState = .waitCf)
    (hfc : env "frame_complete" = some (pbool false)) (hitx : env "immediate_tx_msg_required" = some (pbool false)) :
    SmOut (Ms s) env ((s.startReception len dat d.rxDl).1.error .InterruptedWithFirstFrame) false
      (s.startReception len dat d.rxDl).2 := by
  have ht : env "pdu.type" = some (pint (1 : Nat)) := by rw [hP.type, hd]; rfl
  have hlen : env "pdu.length" = some (pint len) := by rw [hP.length, hd]; rfl
  have hdat : env "pdu.data" = some (.bytes dat) := by rw [hP.data, hd]; rfl
  have hsr := Rep.startRec hR len d.rxDl dat
  have hstarted := hsr.2
  unfold SmOut
  rw [wait_prefix _ hR hC hst, dispatch3_run _ _ hC _ _ _ 1 ht]
  simp only [Nat.reduceEqDiff, if_false, if_true, ffW, thenOf, waitDispatch, bhead, bdrop, waitBlk, waitStmt, elseOf, st5, body,
    Src.TransportLayerLogic_p_process_rx]
  rx_eval [hpdu, startRecProc, hlen, hP.rxDl, hdat, hR.maxFrameSize, startRecEnv_frame, hitx, hstarted]
  refine ⟨_, rfl, ?_, ?_, ?_⟩
  · exact (hsr.1.setLocal _ _ (by decide)).trig .InterruptedWithFirstFrame
  · simp (disch := decide) only [set_apply, String.reduceEq, ↓reduceIte, startRecEnv_frame, hfc]
  · loc_tac


end sm2


macro "loc_tac2" : tactic =>
  `(tactic| (simp only [stopRecvEnv, trigEnv, putEnv, emptyBufEnv, stopFcEnv, timerStopEnv, timerStartEnv, startCfEnv, reqFcEnv,
      set_apply, String.reduceEq, ↓reduceIte] <;> try assumption))

section cfwait
variable (start : Nat) (data : Bytes)
local notation "Ms" s:max => rxMethsOf (State.now s) (Cfg.tCf (State.cfg s)) start data
variable {s : State} {d : Decoded} {env : Env}

theorem band_seq (n : Nat) : evalBinop .band (pint ((n : Int) + 1)) (pint 15) = .ok (pint (((n + 1) % 16 : Nat) : Int)) := by
  have e : ((n : Int) + 1) = ((n + 1 : Nat) : Int) := by omega
  rw [e, band15_ev]

theorem natCast_beq (a b : Nat) : ((a : Int) == (b : Int)) = (a == b) := by
  rw [Bool.eq_iff_iff]; simp only [beq_iff_eq]; omega

/-- environment after `expected_seqnum = (self.last_seqnum + 1) & 0xF` -/
def seqEnv (s : State) (env : Env) : Env := env.set "expected_seqnum" (pint (((s.lastSeq + 1) % 16 : Nat) : Int))

/-- WAIT_CF, Consecutive Frame: up to the test of the sequence number -/
theorem cfw_prefix (hR : Rep s env) (hC : Consts env) (hP : PduCtx d env)
    (sn : Nat) (dat : Bytes) (hd : d.pdu = .cf sn dat) (hst : s.rxState = .waitCf) :
    execStmt (Ms s) env st5 = execBlock (Ms s) (seqEnv s env) (if sn = (s.lastSeq + 1) % 16 then cfOk else cfBad) := by
  have ht : env "pdu.type" = some (pint (2 : Nat)) := by rw [hP.type, hd]; rfl
  have hsn : env "pdu.seqnum" = some (pint sn) := by rw [hP.seqnum, hd]; rfl
  rw [wait_prefix _ hR hC hst, dispatch3_run _ _ hC _ _ _ 2 ht]
  simp only [Nat.reduceEqDiff, if_false, if_true]
  have h1 : execStmt (Ms s) env (.assign "expected_seqnum" (.binop .band (.binop .add (.var "self.last_seqnum") (.int (1))) (.int (15))))
      = .ok (.next (seqEnv s env)) := by
    rx_eval [hR.lastSeq, evalBinop_add, band_seq, seqEnv]
  rw [cfW_shape, block_next _ _ _ _ _ h1, execBlock_single]
  have hc : eval (Ms s) (seqEnv s env) (.cmp .eq (.var "pdu.seqnum") (.var "expected_seqnum"))
      = .ok (pbool (decide (sn = (s.lastSeq + 1) % 16))) := by
    rx_eval [seqEnv, hsn, natCast_beq]
    congr 2
  rw [exec_ite _ _ _ _ _ _ hc]
  by_cases h : sn = (s.lastSeq + 1) % 16
  · simp only [h, decide_true, if_true]
  · simp only [h, decide_false, if_false, Bool.false_eq_true]


/-- WAIT_CF, Consecutive Frame, wrong sequence number: reception aborted, `WrongSequenceNumberError` -/
theorem sm_cf_wait_bad (hR : Rep s env) (hC : Consts env) (hP : PduCtx d env)
    (sn : Nat) (dat : Bytes) (hd : d.pdu = .cf sn dat) (hst : s.rxState = .waitCf) (hsn : sn ≠ (s.lastSeq + 1) % 16)
    (hfc : env "frame_complete" = some (pbool false)) (hitx : env "immediate_tx_msg_required" = some (pbool false)) :
    SmOut (Ms s) env ((s.stopReceiving).error .WrongSequenceNumber) false false := by
  have hsq0 : env "pdu.seqnum" = some (pint sn) := by rw [hP.seqnum, hd]; rfl
  have hsq : seqEnv s env "pdu.seqnum" = some (pint sn) := by simp only [seqEnv]; loc_tac
  unfold SmOut
  rw [cfw_prefix start data hR hC hP sn dat hd hst]
  simp only [hsn, if_false, cfBad, seqStmt, cfW, thenOf, elseOf, waitDispatch, bhead, bdrop, waitBlk, waitStmt, st5, body,
    Src.TransportLayerLogic_p_process_rx]
  rx_eval [hsq, pint_bne_pnone]
  refine ⟨_, rfl, ?_, ?_, ?_⟩
  · exact ((((hR.setLocal "expected_seqnum" _ (by decide)).stopRecv).setLocal "received" _ (by decide)).setLocal "received" _
      (by decide)).trig .WrongSequenceNumber
  · simp only [seqEnv]; loc_tac2
  · simp only [seqEnv]; loc_tac2


theorem chgStmt_shape : chgStmt =
    .ite (.and_ (.cmp .ne (.var "pdu.rx_dl") (.var "self.actual_rxdl")) (.cmp .lt (.var "pdu.rx_dl") (.var "bytes_to_receive")))
      (.cons (.expr (.call "self._trigger_error" (.cons (.call "isotp.errors.ChangingInvalidRXDLError"
          (.cons (.call "__format__" (.cons (.var "pdu.rx_dl") (.cons (.var "self.actual_rxdl") .nil))) .nil)) .nil)))
        (.cons (.ret (.call "self.ProcessRxReport#immediate_tx_required#frame_received" (.cons .ff (.cons .ff .nil)))) .nil))
      .nil := rfl

/-- the `ChangingInvalidRXDLError` check, in any environment -/
theorem chg_run (now tCf : Nat) (E : Env) (rxDl btr : Nat) (a : Option Nat) (h1 : E "pdu.rx_dl" = some (pint rxDl))
    (h2 : E "self.actual_rxdl" = some (optPV a)) (h3 : E "bytes_to_receive" = some (pint btr)) :
    execStmt (rxMethsOf now tCf start data) E chgStmt =
      if (some rxDl != a && decide (rxDl < btr)) = true then
        .ok (.returned (.list [.py (.bool false), .py (.bool false)]) (trigEnv "ChangingInvalidRXDLError" E))
      else .ok (.next E) := by
  rw [chgStmt_shape]
  by_cases hA : a = some rxDl
  · have hA' : (a == some rxDl) = true := by simp [hA]
    have hm : (some rxDl != a) = false := by simp [hA]
    rx_eval [h1, h2, pvEq_pint_optPV, hA', hm, Bool.not_true, Bool.false_and]
  · have hA' : (a == some rxDl) = false := by simp [hA]
    have hm : (some rxDl != a) = true := by simp [bne, Ne.symm hA]
    by_cases hB : rxDl < btr
    · have hB' : decide ((rxDl : Int) < (btr : Int)) = true := by simp; omega
      rx_eval [h1, h2, h3, pvEq_pint_optPV, hA', hm, Bool.not_false, cmp_lt_pint, hB', hB, decide_true, Bool.and_self]
      rfl
    · have hB' : decide ((rxDl : Int) < (btr : Int)) = false := by simp; omega
      rx_eval [h1, h2, h3, pvEq_pint_optPV, hA', hm, Bool.not_false, cmp_lt_pint, hB', hB, decide_false, Bool.and_false]


/-- `bytes_to_receive` -/
def btrOf (s : State) : Nat := s.rxFrameLen - s.rxBuf.length
def btrEnv (s : State) (env : Env) : Env := (seqEnv s env).set "bytes_to_receive" (pint (btrOf s : Nat))
/-- the model state after `_start_rx_cf_timer(); self.last_seqnum = pdu.seqnum; self._append_rx_data(pdu.data[:bytes_to_receive])` -/
def cf5St (s : State) (sn : Nat) (dat : Bytes) : State :=
  { s.startRxCfTimer with lastSeq := sn, rxBuf := s.startRxCfTimer.rxBuf ++ dat.take (btrOf s) }
def cf5Env (s : State) (sn : Nat) (dat : Bytes) (env : Env) : Env :=
  ((startCfEnv s.now s.cfg.tCf (btrEnv s env)).set "self.last_seqnum" (pint sn)).set
    "self.rx_buffer" (.bytes (s.rxBuf ++ dat.take (btrOf s)))

theorem rep_cf5 (hR : Rep s env) (sn : Nat) (dat : Bytes) : Rep (cf5St s sn dat) (cf5Env s sn dat env) := by
  unfold cf5St cf5Env btrEnv seqEnv State.startRxCfTimer; rep_tac hR

/-- WAIT_CF, Consecutive Frame with the expected sequence number: up to the completeness test -/
theorem cfOk_run (hR : Rep s env) (hP : PduCtx d env) (sn : Nat) (dat : Bytes) (hd : d.pdu = .cf sn dat)
    (hinv : s.rxBuf.length ≤ s.rxFrameLen) :
    execBlock (Ms s) (seqEnv s env) cfOk =
      if (some d.rxDl != s.actualRxdl && decide (d.rxDl < btrOf s)) = true then
        .ok (.returned (.list [.py (.bool false), .py (.bool false)]) (trigEnv "ChangingInvalidRXDLError" (btrEnv s env)))
      else execBlock (Ms s) (cf5Env s sn dat env)
        (if s.rxFrameLen ≤ (s.rxBuf ++ dat.take (btrOf s)).length then complBlk else moreBlk) := by
  have hsub : (s.rxFrameLen : Int) - (s.rxBuf.length : Int) = ((btrOf s : Nat) : Int) := by unfold btrOf; omega
  have h1 : execStmt (Ms s) (seqEnv s env) (.assign "bytes_to_receive" (.binop .sub (.var "self.rx_frame_length")
      (.call "len" (.cons (.var "self.rx_buffer") .nil)))) = .ok (.next (btrEnv s env)) := by
    rx_eval [seqEnv, hR.rxFrameLen, hR.rxBuf, evalBinop_sub, hsub, btrEnv]
  rw [cfOk_shape, block_next _ _ _ _ _ h1]
  have hrx : btrEnv s env "pdu.rx_dl" = some (pint d.rxDl) := by simp only [btrEnv, seqEnv]; rw [← hP.rxDl]; loc_tac
  have hac : btrEnv s env "self.actual_rxdl" = some (optPV s.actualRxdl) := by
    simp only [btrEnv, seqEnv]; rw [← hR.actualRxdl]; loc_tac
  have hbt : btrEnv s env "bytes_to_receive" = some (pint (btrOf s : Nat)) := by simp only [btrEnv]; loc_tac
  have h2 := chg_run start data s.now s.cfg.tCf (btrEnv s env) d.rxDl (btrOf s) s.actualRxdl hrx hac hbt
  by_cases hchg : (some d.rxDl != s.actualRxdl && decide (d.rxDl < btrOf s)) = true
  · simp only [hchg, if_true] at h2 ⊢
    rw [block_ret _ _ _ _ _ _ h2]
  · simp only [hchg] at h2 ⊢
    rw [block_next _ _ _ _ _ h2]
    have hdat0 : env "pdu.data" = some (.bytes dat) := by rw [hP.data, hd]; rfl
    have hsn0 : env "pdu.seqnum" = some (pint sn) := by rw [hP.seqnum, hd]; rfl
    have hbuf0 := hR.rxBuf
    have hfl0 := hR.rxFrameLen
    rx_eval [btrEnv, seqEnv, hdat0, hsn0, hbuf0, hfl0, natIdx_nat, extendProc, cmp_ge_pint]
    by_cases hc : s.rxFrameLen ≤ (s.rxBuf ++ dat.take (btrOf s)).length
    · have hc' : decide ((s.rxFrameLen : Int) ≤ ((s.rxBuf ++ dat.take (btrOf s)).length : Int)) = true := by
        simp only [decide_eq_true_eq]; omega
      simp only [hc, hc', if_true]; rfl
    · have hc' : decide ((s.rxFrameLen : Int) ≤ ((s.rxBuf ++ dat.take (btrOf s)).length : Int)) = false := by
        simp only [decide_eq_false_iff_not]; omega
      simp only [hc, hc', if_false, Bool.false_eq_true]; rfl


theorem cf5Env_local (s : State) (sn : Nat) (dat : Bytes) (env : Env) (k : String)
    (hk : k ∉ ["expected_seqnum", "bytes_to_receive", "self.timer_rx_cf", "self.timer_rx_cf.start_time",
      "self.timer_rx_cf.timeout", "self.last_seqnum", "self.rx_buffer"]) : cf5Env s sn dat env k = env k := by
  simp only [List.mem_cons, List.not_mem_nil, or_false, not_or] at hk
  obtain ⟨h1, h2, h3, h4, h5, h6, h7⟩ := hk
  simp only [cf5Env, btrEnv, seqEnv, startCfEnv, timerStartEnv, set_apply, *, if_false]

/-- WAIT_CF, expected Consecutive Frame that completes the payload: delivered, back to IDLE -/
theorem sm_cf_wait_complete (hR : Rep s env) (hC : Consts env) (hP : PduCtx d env)
    (sn : Nat) (dat : Bytes) (hd : d.pdu = .cf sn dat) (hst : s.rxState = .waitCf) (hsn : sn = (s.lastSeq + 1) % 16)
    (hinv : s.rxBuf.length ≤ s.rxFrameLen)
    (hchg : ¬ (some d.rxDl != s.actualRxdl && decide (d.rxDl < btrOf s)) = true)
    (hcompl : s.rxFrameLen ≤ (s.rxBuf ++ dat.take (btrOf s)).length)
    (hitx : env "immediate_tx_msg_required" = some (pbool false)) :
    SmOut (Ms s) env (((cf5St s sn dat).deliver (cf5St s sn dat).rxBuf).stopReceiving) true false := by
  have h5 := rep_cf5 hR sn dat
  have hbuf : cf5Env s sn dat env "self.rx_buffer" = some (.bytes (cf5St s sn dat).rxBuf) := h5.rxBuf
  have hidle : cf5Env s sn dat env "self.RxState.IDLE" = some (.sc (.enum "RxState" "IDLE")) := by
    rw [cf5Env_local _ _ _ _ _ (by decide)]; exact hC.idle
  unfold SmOut
  rw [cfw_prefix start data hR hC hP sn dat hd hst, if_pos hsn, cfOk_run start data hR hP sn dat hd hinv, if_neg hchg, if_pos hcompl]
  simp only [complBlk, complStmt, cfOk, seqStmt, cfW, thenOf, elseOf, waitDispatch, bhead, bdrop, waitBlk, waitStmt, st5, body,
    Src.TransportLayerLogic_p_process_rx]
  rx_eval [hbuf, hidle]
  refine ⟨_, rfl, ?_, ?_, ?_⟩
  · exact ((h5.setLocal "frame_complete" _ (by decide)).put _).stopRecv
  · loc_tac2
  · simp (disch := decide) only [set_apply, String.reduceEq, ↓reduceIte, cf5Env_local, hitx]


theorem mod_ev (a b : Nat) (hb : 0 < b) :
    evalBinop .mod (pint (a : Int)) (pint (b : Int)) = .ok (pint ((a % b : Nat) : Int)) := by
  rw [evalBinop_nonneg _ _ _ (Int.natCast_nonneg _) (Int.natCast_nonneg _)]
  have : ¬ b = 0 := by omega
  simp [this]

/-- the model state after `self.rx_block_counter += 1` -/
def cf6St (s : State) (sn : Nat) (dat : Bytes) : State := { cf5St s sn dat with rxBlockCnt := (cf5St s sn dat).rxBlockCnt + 1 }

theorem moreBlk_shape : moreBlk =
    .cons (.assign "self.rx_block_counter" (.binop .add (.var "self.rx_block_counter") (.int (1))))
    (.cons (.ite (.and_ (.cmp .gt (.var "self.params.blocksize") (.int (0)))
        (.cmp .eq (.binop .mod (.var "self.rx_block_counter") (.var "self.params.blocksize")) (.int (0))))
      (.cons (.expr (.call "self._request_tx_flowcontrol" (.cons (.var "PDU.FlowStatus.ContinueToSend") .nil)))
      (.cons (.expr (.call "self.timer_rx_cf.stop" .nil))
      (.cons (.assign "immediate_tx_msg_required" .tt) .nil))) .nil) .nil) := rfl

/-- WAIT_CF, expected Consecutive Frame, payload not complete: the block counter; at a block boundary a Flow Control is requested
    and the timer is stopped -/
theorem sm_cf_wait_more (hR : Rep s env) (hC : Consts env) (hP : PduCtx d env)
    (sn : Nat) (dat : Bytes) (hd : d.pdu = .cf sn dat) (hst : s.rxState = .waitCf) (hsn : sn = (s.lastSeq + 1) % 16)
    (hinv : s.rxBuf.length ≤ s.rxFrameLen)
    (hchg : ¬ (some d.rxDl != s.actualRxdl && decide (d.rxDl < btrOf s)) = true)
    (hcompl : ¬ s.rxFrameLen ≤ (s.rxBuf ++ dat.take (btrOf s)).length)
    (hfc : env "frame_complete" = some (pbool false)) (hitx : env "immediate_tx_msg_required" = some (pbool false)) :
    if (decide (s.cfg.blocksize > 0) && decide ((s.rxBlockCnt + 1) % s.cfg.blocksize = 0)) = true then
      SmOut (Ms s) env { (cf6St s sn dat).requestFc 0 with timerCf := ((cf6St s sn dat).requestFc 0).timerCf.stop } false true
    else SmOut (Ms s) env (cf6St s sn dat) false false := by
  have h5 := rep_cf5 hR sn dat
  have hcnt : cf5Env s sn dat env "self.rx_block_counter" = some (pint s.rxBlockCnt) := h5.rxBlockCnt
  have hbs : cf5Env s sn dat env "self.params.blocksize" = some (pint s.cfg.blocksize) := h5.blocksize
  have hcts : cf5Env s sn dat env "PDU.FlowStatus.ContinueToSend" = some (pint 0) := by
    rw [cf5Env_local _ _ _ _ _ (by decide)]; exact hC.cts
  have hcast : ((s.rxBlockCnt : Int) + 1) = ((s.rxBlockCnt + 1 : Nat) : Int) := by omega
  have h6 : Rep (cf6St s sn dat) ((cf5Env s sn dat env).set "self.rx_block_counter" (pint ((s.rxBlockCnt + 1 : Nat) : Int))) := by
    unfold cf6St; rep_tac h5
  have hpre : execStmt (Ms s) env st5 = execBlock (Ms s) (cf5Env s sn dat env) moreBlk := by
    rw [cfw_prefix start data hR hC hP sn dat hd hst, if_pos hsn, cfOk_run start data hR hP sn dat hd hinv, if_neg hchg,
      if_neg hcompl]
  unfold SmOut
  rw [hpre, moreBlk_shape]
  by_cases hb : s.cfg.blocksize > 0
  · have hb' : decide ((0 : Int) < (s.cfg.blocksize : Int)) = true := by simp only [decide_eq_true_eq]; omega
    by_cases hm : (s.rxBlockCnt + 1) % s.cfg.blocksize = 0
    · simp only [hb, hm, decide_true, Bool.and_self, if_true]
      rx_eval [hcnt, hbs, hcts, evalBinop_add, hcast, cmp_gt_pint, hb', mod_ev _ _ hb, hm, cast_beq_zero, beq_self_eq_true]
      refine ⟨_, rfl, ?_, ?_, ?_⟩
      · exact ((h6.reqFc 0).timerStop).setLocal _ _ (by decide)
      · simp (disch := decide) only [set_apply, String.reduceEq, ↓reduceIte, cf5Env_local, hfc]
      · loc_tac
    · have hm' : ((s.rxBlockCnt + 1) % s.cfg.blocksize == 0) = false := by simp [hm]
      simp only [hb, hm, decide_true, decide_false, Bool.and_false, Bool.false_eq_true, if_false]
      rx_eval [hcnt, hbs, hcts, evalBinop_add, hcast, cmp_gt_pint, hb', mod_ev _ _ hb, hm', cast_beq_zero]
      refine ⟨_, rfl, h6, ?_, ?_⟩
      · simp (disch := decide) only [set_apply, String.reduceEq, ↓reduceIte, cf5Env_local, hfc]
      · simp (disch := decide) only [set_apply, String.reduceEq, ↓reduceIte, cf5Env_local, hitx]
  · have hb' : decide ((0 : Int) < (s.cfg.blocksize : Int)) = false := by simp only [decide_eq_false_iff_not]; omega
    simp only [hb, decide_false, Bool.false_and, Bool.false_eq_true, if_false]
    rx_eval [hcnt, hbs, evalBinop_add, hcast, cmp_gt_pint, hb']
    refine ⟨_, rfl, h6, ?_, ?_⟩
    · simp (disch := decide) only [set_apply, String.reduceEq, ↓reduceIte, cf5Env_local, hfc]
    · simp (disch := decide) only [set_apply, String.reduceEq, ↓reduceIte, cf5Env_local, hitx]


/-- WAIT_CF, expected Consecutive Frame whose RX_DL changed and is too small: `ChangingInvalidRXDLError`, the frame is ignored
    (`_process_rx` returns from inside the state machine) -/
theorem sm_cf_wait_changing (hR : Rep s env) (hC : Consts env) (hP : PduCtx d env)
    (sn : Nat) (dat : Bytes) (hd : d.pdu = .cf sn dat) (hst : s.rxState = .waitCf) (hsn : sn = (s.lastSeq + 1) % 16)
    (hinv : s.rxBuf.length ≤ s.rxFrameLen)
    (hchg : (some d.rxDl != s.actualRxdl && decide (d.rxDl < btrOf s)) = true) :
    ∃ env', execStmt (Ms s) env st5 = .ok (.returned (.list [.py (.bool false), .py (.bool false)]) env') ∧
      Rep (s.error .ChangingInvalidRXDL) env' := by
  rw [cfw_prefix start data hR hC hP sn dat hd hst, if_pos hsn, cfOk_run start data hR hP sn dat hd hinv, if_pos hchg]
  exact ⟨_, rfl, ((hR.setLocal "expected_seqnum" _ (by decide)).setLocal "bytes_to_receive" _ (by decide)).trig .ChangingInvalidRXDL⟩


end cfwait


section head
variable {s : State} {env : Env} (m : CanMsg)
local notation "Mm" => rxMethsOf (State.now s) (Cfg.tCf (State.cfg s)) (Half.rxPrefixSize (Addr.rx (State.addr s))) (CanMsg.data m)

theorem pduFn_eq (data : Bytes) (v : PV) (start : Nat) :
    pduFn data [v, pint start] = match decode data start with
      | some _ => .ok (.meth "pdu")
      | none => .error (.exc .ValueError) := by
  have h : ¬ (start : Int) < 0 := by omega
  simp only [pduFn, h, if_false, Int.toNat_natCast]
  try (cases decode data start <;> rfl)

theorem st0_shape : st0 =
    .tryExcept (.cons (.assign "pdu" (.call "PDU#start_of_data" (.cons (.var "msg")
        (.cons (.call "self.address.get_rx_prefix_size" .nil) .nil)))) .nil)
      (.cons (.assign "e" (.call "__caught__" .nil))
      (.cons (.expr (.call "self._trigger_error" (.cons (.call "isotp.errors.InvalidCanDataError"
          (.cons (.call "__format__" (.cons (.call "str" (.cons (.var "e") .nil)) .nil)) .nil)) .nil)))
      (.cons (.expr (.call "self._stop_receiving" .nil))
      (.cons (.ret (.call "self.ProcessRxReport#immediate_tx_required#frame_received" (.cons .ff (.cons .ff .nil)))) .nil)))) := rfl

/-- statement 0 when `PDU(...)` raises: `InvalidCanDataError`, reception aborted, report `(False, False)` -/
theorem st0_reject (hR : Rep s env) (hmsg : env "msg" = some (.meth "msg"))
    (hdec : rxDecoded s m = none) :
    ∃ env', execStmt Mm env st0 = .ok (.returned (.list [.py (.bool false), .py (.bool false)]) env') ∧
      Rep ((s.error .InvalidCanData).stopReceiving) env' := by
  unfold rxDecoded at hdec
  rw [st0_shape]
  rx_eval [hmsg, pduFn_eq, hdec]
  exact ⟨_, rfl, ((hR.setLocal "e" _ (by decide)).trig .InvalidCanData).stopRecv⟩

/-- statement 0 when `PDU(...)` succeeds: `pdu` is bound -/
theorem st0_accept (hmsg : env "msg" = some (.meth "msg")) (d : Decoded) (hdec : rxDecoded s m = some d) :
    execStmt Mm env st0 = .ok (.next (env.set "pdu" (.meth "pdu"))) := by
  unfold rxDecoded at hdec
  rw [st0_shape]
  rx_eval [hmsg, pduFn_eq, hdec]


variable {d : Decoded}

theorem st1_shape : st1 =
    .ite (.cmp .eq (.var "pdu.type") (.var "PDU.Type.FLOW_CONTROL"))
      (.cons (.assign "self.last_flow_control_frame" (.var "pdu"))
      (.cons (.ret (.call "self.ProcessRxReport#immediate_tx_required#frame_received" (.cons .tt (.cons .ff .nil)))) .nil)) .nil := rfl

/-- statement 1 on a Flow Control: it goes to the mailbox, report `(True, False)` -/
theorem st1_fc (M : Meths) (hrep : ∀ args e, M.fn "self.ProcessRxReport#immediate_tx_required#frame_received" args e = reportFn args)
    (hC : Consts env) (hP : PduCtx d env) (hpdu : env "pdu" = some (.meth "pdu"))
    (st bs stm : Nat) (hd : d.pdu = .fc st bs stm) :
    execStmt M env st1 = .ok (.returned (.list [.py (.bool true), .py (.bool false)])
      (env.set "self.last_flow_control_frame" (.meth "pdu"))) := by
  have ht : env "pdu.type" = some (pint 3) := by rw [hP.type, hd]; rfl
  rw [st1_shape]
  simp (disch := decide) only [execBlock, execStmt, eval, evalArgs, ok_bind, ht, hC.t3, evalCmp_eq, pvEq_pint, Int.reduceBEq,
    truthy_pbool, ite_tt, hpdu, evalBuiltin_none, hrep, reportFn_bools, set_apply, String.reduceEq, ↓reduceIte]

/-- statement 1 on any other frame: nothing -/
theorem st1_other (M : Meths) (hC : Consts env) (hP : PduCtx d env) (hk : typeCode d.pdu ≠ 3) :
    execStmt M env st1 = .ok (.next env) := by
  have hc : eval M env (.cmp .eq (.var "pdu.type") (.var "PDU.Type.FLOW_CONTROL")) = .ok (pbool false) := by
    simp only [eval, hP.type, hC.t3, ok_bind, evalCmp_eq, pvEq_pint]
    congr 2
    rw [beq_eq_false_iff_ne]; omega
  rw [st1_shape, exec_ite M env _ _ _ _ hc]
  rfl


theorem st3_shape : st3 =
    .ite (.cmp .eq (.var "pdu.type") (.var "PDU.Type.SINGLE_FRAME"))
      (.cons (.ite (.and_ (.cmp .gt (.var "pdu.can_dl") (.int (8))) (.cmp .eq (.var "pdu.escape_sequence") .ff))
        (.cons (.expr (.call "self._trigger_error" (.cons (.call "isotp.errors.MissingEscapeSequenceError" (.cons (.strLit "For SingleFrames conveyed on a CAN message with data length (CAN_DL) > 8, length should be encoded on byte #1 and byte #0 should be 0x00") .nil)) .nil)))
        (.cons (.ret (.call "self.ProcessRxReport#immediate_tx_required#frame_received" (.cons .ff (.cons .ff .nil)))) .nil)) .nil)
      .nil) .nil := rfl

/-- statement 3 on a Single Frame: `MissingEscapeSequenceError` when CAN_DL > 8 without the escape sequence -/
theorem st3_sf (now tCf start : Nat) (data : Bytes) (hC : Consts env) (hP : PduCtx d env)
    (len : Nat) (dat : Bytes) (esc : Bool) (hd : d.pdu = .sf len dat esc) :
    execStmt (rxMethsOf now tCf start data) env st3 =
      if (decide (d.canDl > 8) && !esc) = true then
        .ok (.returned (.list [.py (.bool false), .py (.bool false)]) (trigEnv "MissingEscapeSequenceError" env))
      else .ok (.next env) := by
  have ht : env "pdu.type" = some (pint 0) := by rw [hP.type, hd]; rfl
  have hesc : env "pdu.escape_sequence" = some (pbool esc) := by rw [hP.esc, hd]; rfl
  rw [st3_shape]
  by_cases hcd : d.canDl > 8
  · have hcd' : decide ((8 : Int) < (d.canDl : Int)) = true := by simp only [decide_eq_true_eq]; omega
    have hbf : (true == false) = false := rfl
    cases esc
    · rx_eval [ht, hC.t0, hP.canDl, hesc, Int.reduceBEq, cmp_gt_pint, hcd', hcd, decide_true, Bool.not_false, Bool.and_self,
        BEq.rfl]
      rfl
    · rx_eval [ht, hC.t0, hP.canDl, hesc, Int.reduceBEq, cmp_gt_pint, hcd', hcd, decide_true, Bool.not_true, Bool.and_false,
        Bool.false_eq_true, Bool.true_eq_false, hbf]
      try rfl
  · have hcd' : decide ((8 : Int) < (d.canDl : Int)) = false := by simp only [decide_eq_false_iff_not]; omega
    rx_eval [ht, hC.t0, hP.canDl, hesc, Int.reduceBEq, cmp_gt_pint, hcd', hcd, decide_false, Bool.false_and, Bool.false_eq_true]
    try rfl

/-- statement 3 on a First / Consecutive Frame: nothing -/
theorem st3_other (M : Meths) (hC : Consts env) (hP : PduCtx d env) (hk : typeCode d.pdu ≠ 0) :
    execStmt M env st3 = .ok (.next env) := by
  have hc : eval M env (.cmp .eq (.var "pdu.type") (.var "PDU.Type.SINGLE_FRAME")) = .ok (pbool false) := by
    simp only [eval, hP.type, hC.t0, ok_bind, evalCmp_eq, pvEq_pint]
    congr 2
    rw [beq_eq_false_iff_ne]; omega
  rw [st3_shape, exec_ite M env _ _ _ _ hc]
  rfl


/-- the environment in which the state machine starts -/
def headEnv (env : Env) : Env :=
  ((env.set "pdu" (.meth "pdu")).set "frame_complete" (pbool false)).set "immediate_tx_msg_required" (pbool false)

theorem rep_head (hR : Rep s env) : Rep s (headEnv env) := by unfold headEnv; rep_tac hR
theorem consts_head (hC : Consts env) : Consts (headEnv env) := by unfold headEnv; consts_tac hC
theorem pduCtx_head (hP : PduCtx d env) : PduCtx d (headEnv env) := by unfold headEnv; pdu_tac hP
theorem headEnv_lookups (env : Env) :
    headEnv env "pdu" = some (.meth "pdu") ∧ headEnv env "frame_complete" = some (pbool false) ∧
    headEnv env "immediate_tx_msg_required" = some (pbool false) := by
  unfold headEnv; refine ⟨?_, ?_, ?_⟩ <;> loc_tac

def e1 (env : Env) : Env := env.set "pdu" (.meth "pdu")
def e2 (env : Env) : Env := (e1 env).set "frame_complete" (pbool false)

theorem consts_e2 (hC : Consts env) : Consts (e2 env) := by unfold e2 e1; consts_tac hC
theorem pduCtx_e2 (hP : PduCtx d env) : PduCtx d (e2 env) := by unfold e2 e1; pdu_tac hP
theorem consts_e1 (hC : Consts env) : Consts (e1 env) := by unfold e1; consts_tac hC
theorem pduCtx_e1 (hP : PduCtx d env) : PduCtx d (e1 env) := by unfold e1; pdu_tac hP

/-- statements 0-4 on a frame that is not a Flow Control and passes the escape-sequence check -/
theorem head_run (hC : Consts env) (hP : PduCtx d env) (hmsg : env "msg" = some (.meth "msg"))
    (hdec : rxDecoded s m = some d) (hk : typeCode d.pdu ≠ 3) (h3 : execStmt Mm (e2 env) st3 = .ok (.next (e2 env))) :
    execBlock Mm env body = execBlock Mm (headEnv env) (.cons st5 (.cons st6 (.cons st7 .nil))) := by
  have h0 : execStmt Mm env st0 = .ok (.next (e1 env)) := st0_accept m hmsg d hdec
  rw [body_shape, block_next _ _ _ _ _ h0,
    block_next _ _ _ _ _ (st1_other _ (consts_e1 hC) (pduCtx_e1 hP) hk)]
  have h2 : execStmt Mm (e1 env) st2 = .ok (.next (e2 env)) := rfl
  rw [block_next _ _ _ _ _ h2, block_next _ _ _ _ _ h3]
  have h4 : execStmt Mm (e2 env) st4 = .ok (.next (headEnv env)) := rfl
  rw [block_next _ _ _ _ _ h4]

/-- from the state machine to the report -/
theorem finish {E : Env} {s1 : State} {fc itx : Bool} (hsm : SmOut Mm E s1 fc itx)
    (pre : execBlock Mm env body = execBlock Mm E (.cons st5 (.cons st6 (.cons st7 .nil)))) :
    ∃ env', execBlock Mm env body = .ok (.returned (.list [.py (.bool (itx || s1.pendingFc)), .py (.bool fc)]) env') ∧
      Rep s1 env' := by
  obtain ⟨E', h5, hR', hfc, hitx⟩ := hsm
  rw [pre, block_next _ _ _ _ _ h5]
  exact tail_run _ _ _ _ hR' hfc hitx


theorem Rep.attrs (h : Rep s env) : ∀ kv ∈ rxAttrs "fc" s, env kv.1 = some kv.2 := by
  intro kv hkv
  simp only [rxAttrs, coreAttrs, List.mem_append, List.mem_cons, List.not_mem_nil, or_false] at hkv
  rcases hkv with (hkv | hkv) | hkv
  · rcases hkv with rfl | rfl | rfl | rfl | rfl | rfl | rfl | rfl | rfl | rfl | rfl | rfl | rfl | rfl | rfl
    · exact h.rxState
    · exact h.rxFrameLen
    · exact h.lastSeq
    · exact h.rxBlockCnt
    · exact h.actualRxdl
    · exact h.rxBuf
    · exact h.pendingFc
    · exact h.tStart
    · exact h.tTimeout
    · exact h.blocksize
    · exact h.maxFrameSize
    · exact h.cfTimeout
    · exact h.errors
    · exact h.delivered
    · exact h.rxQueue
  · cases hp : s.pendingFcStatus with
    | none => simp [pfsAttrs, hp] at hkv
    | some n =>
      simp only [pfsAttrs, hp, List.mem_cons, List.not_mem_nil, or_false] at hkv
      subst hkv; rw [h.pfs, hp]; rfl
  · cases hf : s.lastFc with
    | none =>
      simp only [fcAttrs, hf, List.mem_cons, List.not_mem_nil, or_false] at hkv
      subst hkv; rw [h.mb, hf]; rfl
    | some f =>
      simp only [fcAttrs, hf, List.mem_cons, List.not_mem_nil, or_false, String.reduceAppend] at hkv
      rcases hkv with rfl | rfl | rfl | rfl
      · rw [h.mb, hf]; rfl
      · exact h.fcS f hf
      · exact h.fcB f hf
      · exact h.fcM f hf

/-- a received Flow Control: the object with `pdu` in the mailbox -/
theorem fc_attrs (hR : Rep s env) (hP : PduCtx d env) (st bs stm : Nat) (hd : d.pdu = .fc st bs stm) :
    ∀ kv ∈ rxAttrs "pdu" { s with lastFc := some ⟨st, bs, stm⟩ },
      ((e1 env).set "self.last_flow_control_frame" (.meth "pdu")) kv.1 = some kv.2 := by
  intro kv hkv
  simp only [rxAttrs, coreAttrs, List.mem_append, List.mem_cons, List.not_mem_nil, or_false] at hkv
  rcases hkv with (hkv | hkv) | hkv
  · rcases hkv with rfl | rfl | rfl | rfl | rfl | rfl | rfl | rfl | rfl | rfl | rfl | rfl | rfl | rfl | rfl <;>
      simp only [e1, set_apply, String.reduceEq, ↓reduceIte]
    · exact hR.rxState
    · exact hR.rxFrameLen
    · exact hR.lastSeq
    · exact hR.rxBlockCnt
    · exact hR.actualRxdl
    · exact hR.rxBuf
    · exact hR.pendingFc
    · exact hR.tStart
    · exact hR.tTimeout
    · exact hR.blocksize
    · exact hR.maxFrameSize
    · exact hR.cfTimeout
    · exact hR.errors
    · exact hR.delivered
    · exact hR.rxQueue
  · cases hp : s.pendingFcStatus with
    | none => simp [pfsAttrs, hp] at hkv
    | some n =>
      simp only [pfsAttrs, hp, List.mem_cons, List.not_mem_nil, or_false] at hkv
      subst hkv
      simp only [e1, set_apply, String.reduceEq, ↓reduceIte]
      rw [hR.pfs, hp]; rfl
  · simp only [fcAttrs, List.mem_cons, List.not_mem_nil, or_false, String.reduceAppend] at hkv
    rcases hkv with rfl | rfl | rfl | rfl <;> simp only [e1, set_apply, String.reduceEq, ↓reduceIte]
    · rw [hP.fs, hd]; rfl
    · rw [hP.bs, hd]; rfl
    · rw [hP.stmin, hd]; rfl


/-- the name of the object in the mailbox after `_process_rx`: the received `pdu` if it is a Flow Control -/
def _root_.Isotp.PyAgree.mailboxObj (s : State) (m : CanMsg) : String :=
  match rxDecoded s m with
  | some d => if isFc d.pdu then "pdu" else "fc"
  | none => "fc"

/-- what has to be shown of a run of `_process_rx` -/
def Goal (s : State) (m : CanMsg) (env : Env) : Prop :=
  ∃ env', execBlock (rxMethsOf s.now s.cfg.tCf s.addr.rx.rxPrefixSize m.data) env body
      = .ok (.returned (.list [.py (.bool (s.processRx m).2.1), .py (.bool (s.processRx m).2.2)]) env') ∧
    ∀ kv ∈ rxAttrs (mailboxObj s m) (s.processRx m).1, env' kv.1 = some kv.2

theorem goal_of_rep {s1 : State} {itx fr : Bool} (hobj : mailboxObj s m = "fc") (hpr : s.processRx m = (s1, itx, fr))
    (h : ∃ env', execBlock Mm env body = .ok (.returned (.list [.py (.bool itx), .py (.bool fr)]) env') ∧ Rep s1 env') :
    Goal s m env := by
  obtain ⟨env', h1, h2⟩ := h
  unfold Goal
  rw [hobj, hpr]
  exact ⟨env', h1, h2.attrs⟩



/-- the model on a Consecutive Frame in WAIT_CF, in the vocabulary of the source proof -/
theorem processRx_cf_wait (s : State) (m : CanMsg) (sn : Nat) (dat : Bytes) (canDl rxDl : Nat)
    (hdec : decode m.data s.addr.rx.rxPrefixSize = some ⟨.cf sn dat, canDl, rxDl⟩) (hst : s.rxState = .waitCf) :
    s.processRx m =
      if sn = (s.lastSeq + 1) % 16 then
        if (some rxDl != s.actualRxdl && decide (rxDl < btrOf s)) = true then (s.error .ChangingInvalidRXDL, false, false)
        else if s.rxFrameLen ≤ (s.rxBuf ++ dat.take (btrOf s)).length then
          (((cf5St s sn dat).deliver (cf5St s sn dat).rxBuf).stopReceiving,
            false || (((cf5St s sn dat).deliver (cf5St s sn dat).rxBuf).stopReceiving).pendingFc, true)
        else if (decide (s.cfg.blocksize > 0) && decide ((s.rxBlockCnt + 1) % s.cfg.blocksize = 0)) = true then
          ({ (cf6St s sn dat).requestFc 0 with timerCf := ((cf6St s sn dat).requestFc 0).timerCf.stop }, true, false)
        else (cf6St s sn dat, false || (cf6St s sn dat).pendingFc, false)
      else ((s.stopReceiving).error .WrongSequenceNumber,
        false || ((s.stopReceiving).error .WrongSequenceNumber).pendingFc, false) := by
  cases s
  simp only at hst hdec
  subst hst
  unfold State.processRx
  simp only [hdec]
  rfl


/-- the only place where a hypothesis on the state is needed: an in-sequence Consecutive Frame in WAIT_CF evaluates
    `pdu.data[:bytes_to_receive]`, and `bytes_to_receive = rx_frame_length - len(rx_buffer)` must not be negative -/
def _root_.Isotp.PyAgree.sliceOk (s : State) (m : CanMsg) : Prop :=
  ∀ sn dat canDl rxDl, rxDecoded s m = some ⟨.cf sn dat, canDl, rxDl⟩ → s.rxState = .waitCf → sn = (s.lastSeq + 1) % 16 →
    s.rxBuf.length ≤ s.rxFrameLen

/-- `_process_rx` from any environment that represents `s` -/
theorem process_rx_run (hR : Rep s env) (hC : Consts env) (hmsg : env "msg" = some (.meth "msg"))
    (hP : ∀ d, rxDecoded s m = some d → PduCtx d env) (hinv : sliceOk s m) : Goal s m env := by
  cases hdec : rxDecoded s m with
  | none =>
    have hdec' : decode m.data s.addr.rx.rxPrefixSize = none := hdec
    have hpr : s.processRx m = ((s.error .InvalidCanData).stopReceiving, false, false) := by
      simp only [State.processRx, hdec']
    have hobj : mailboxObj s m = "fc" := by simp only [mailboxObj, hdec]
    obtain ⟨env', h0, hR'⟩ := st0_reject m hR hmsg hdec
    exact goal_of_rep m hobj hpr ⟨env', by rw [body_shape, block_ret _ _ _ _ _ _ h0], hR'⟩
  | some d =>
    have hP' := hP d hdec
    obtain ⟨p, canDl, rxDl⟩ := d
    have hdec' : decode m.data s.addr.rx.rxPrefixSize = some ⟨p, canDl, rxDl⟩ := hdec
    have h0 : execStmt Mm env st0 = .ok (.next (e1 env)) := st0_accept m hmsg _ hdec
    cases p with
    | fc st bs stm =>
      have hpr : s.processRx m = ({ s with lastFc := some ⟨st, bs, stm⟩ }, true, false) := by
        simp only [State.processRx, hdec']
      have hobj : mailboxObj s m = "pdu" := by simp only [mailboxObj, hdec, isFc, if_true]
      have h1 := st1_fc (env := e1 env) (d := ⟨.fc st bs stm, canDl, rxDl⟩) Mm (fn_lookups _ _ _ _).2.2.2.2.2.2.2.1
        (consts_e1 hC) (pduCtx_e1 hP') (by unfold e1; loc_tac) st bs stm rfl
      unfold Goal
      rw [hobj, hpr, body_shape, block_next _ _ _ _ _ h0, block_ret _ _ _ _ _ _ h1]
      exact ⟨_, rfl, fc_attrs hR hP' st bs stm rfl⟩
    | sf len dat esc =>
      have hobj : mailboxObj s m = "fc" := by simp only [mailboxObj, hdec, isFc]; rfl
      have h3 := st3_sf s.now s.cfg.tCf s.addr.rx.rxPrefixSize m.data (consts_e2 hC) (pduCtx_e2 hP') len dat esc rfl
      by_cases hesc : (decide (canDl > 8) && !esc) = true
      · have hpr : s.processRx m = (s.error .MissingEscapeSequence, false, false) := by
          simp only [State.processRx, hdec', hesc, if_true]
        rw [if_pos hesc] at h3
        have hR2 : Rep s (e2 env) :=
          (hR.setLocal "pdu" (.meth "pdu") (by decide)).setLocal "frame_complete" (pbool false) (by decide)
        refine goal_of_rep m hobj hpr ⟨_, ?_, hR2.trig .MissingEscapeSequence⟩
        rw [body_shape, block_next _ _ _ _ _ h0,
          block_next _ _ _ _ _ (st1_other _ (consts_e1 hC) (pduCtx_e1 hP') (by simp [typeCode]))]
        have h2 : execStmt Mm (e1 env) st2 = .ok (.next (e2 env)) := rfl
        rw [block_next _ _ _ _ _ h2, block_ret _ _ _ _ _ _ h3]
        rfl
      · rw [if_neg hesc] at h3
        have pre := head_run m hC hP' hmsg hdec (by simp [typeCode]) h3
        have hl := headEnv_lookups env
        cases hst : s.rxState with
        | idle =>
          have hpr : s.processRx m = ((idleSt s).deliver dat, false || ((idleSt s).deliver dat).pendingFc, true) := by
            simp only [State.processRx, hdec', hesc, hst, idleSt]
            rfl
          exact goal_of_rep m hobj hpr (finish m (sm_sf_idle _ _ (rep_head hR) (consts_head hC) (pduCtx_head hP') len dat esc rfl
            hst hl.2.2) pre)
        | waitCf =>
          have hpr : s.processRx m = (((s.deliver dat).stopReceiving).error .InterruptedWithSingleFrame,
              false || (((s.deliver dat).stopReceiving).error .InterruptedWithSingleFrame).pendingFc, true) := by
            simp only [State.processRx, hdec', hesc, hst]
            rfl
          exact goal_of_rep m hobj hpr (finish m (sm_sf_wait _ _ (rep_head hR) (consts_head hC) (pduCtx_head hP') len dat esc rfl
            hst hl.2.2) pre)
    | ff len dat esc =>
      have hobj : mailboxObj s m = "fc" := by simp only [mailboxObj, hdec, isFc]; rfl
      have h3 := st3_other Mm (consts_e2 hC) (pduCtx_e2 hP') (by simp [typeCode])
      have pre := head_run m hC hP' hmsg hdec (by simp [typeCode]) h3
      have hl := headEnv_lookups env
      cases hst : s.rxState with
      | idle =>
        have hpr : s.processRx m = (((idleSt s).startReception len dat rxDl).1,
            ((idleSt s).startReception len dat rxDl).2 || ((idleSt s).startReception len dat rxDl).1.pendingFc, false) := by
          simp only [State.processRx, hdec', hst, idleSt]
        exact goal_of_rep m hobj hpr (finish m (sm_ff_idle _ _ (rep_head hR) (consts_head hC) (pduCtx_head hP') hl.1 len dat esc
          rfl hst hl.2.1 hl.2.2) pre)
      | waitCf =>
        have hpr : s.processRx m = ((s.startReception len dat rxDl).1.error .InterruptedWithFirstFrame,
            (s.startReception len dat rxDl).2 ||
              ((s.startReception len dat rxDl).1.error .InterruptedWithFirstFrame).pendingFc, false) := by
          simp only [State.processRx, hdec', hst]
        exact goal_of_rep m hobj hpr (finish m (sm_ff_wait _ _ (rep_head hR) (consts_head hC) (pduCtx_head hP') hl.1 len dat esc
          rfl hst hl.2.1 hl.2.2) pre)
    | cf sn dat =>
      have hobj : mailboxObj s m = "fc" := by simp only [mailboxObj, hdec, isFc]; rfl
      have h3 := st3_other Mm (consts_e2 hC) (pduCtx_e2 hP') (by simp [typeCode])
      have pre := head_run m hC hP' hmsg hdec (by simp [typeCode]) h3
      have hl := headEnv_lookups env
      have hR0 := rep_head (env := env) hR
      have hC0 := consts_head (env := env) hC
      have hP0 := pduCtx_head (env := env) hP'
      cases hst : s.rxState with
      | idle =>
        have hpr : s.processRx m = ((idleSt s).error .UnexpectedConsecutiveFrame,
            false || ((idleSt s).error .UnexpectedConsecutiveFrame).pendingFc, false) := by
          simp only [State.processRx, hdec', hst, idleSt]
          rfl
        exact goal_of_rep m hobj hpr (finish m (sm_cf_idle _ _ hR0 hC0 hP0 sn dat rfl hst hl.2.1 hl.2.2) pre)
      | waitCf =>
        have hpr := processRx_cf_wait s m sn dat canDl rxDl hdec' hst
        by_cases hsn : sn = (s.lastSeq + 1) % 16
        · rw [if_pos hsn] at hpr
          have hinv' := hinv sn dat canDl rxDl hdec hst hsn
          by_cases hchg : (some rxDl != s.actualRxdl && decide (rxDl < btrOf s)) = true
          · rw [if_pos hchg] at hpr
            obtain ⟨E', h5, hR'⟩ := sm_cf_wait_changing _ _ hR0 hC0 hP0 sn dat rfl hst hsn hinv' hchg
            exact goal_of_rep m hobj hpr ⟨E', by rw [pre, block_ret _ _ _ _ _ _ h5], hR'⟩
          · rw [if_neg hchg] at hpr
            by_cases hcompl : s.rxFrameLen ≤ (s.rxBuf ++ dat.take (btrOf s)).length
            · rw [if_pos hcompl] at hpr
              exact goal_of_rep m hobj hpr (finish m (sm_cf_wait_complete _ _ hR0 hC0 hP0 sn dat rfl hst hsn hinv' hchg hcompl
                hl.2.2) pre)
            · rw [if_neg hcompl] at hpr
              have hm := sm_cf_wait_more s.addr.rx.rxPrefixSize m.data hR0 hC0 hP0 sn dat rfl hst hsn hinv' hchg hcompl hl.2.1 hl.2.2
              by_cases hblk : (decide (s.cfg.blocksize > 0) && decide ((s.rxBlockCnt + 1) % s.cfg.blocksize = 0)) = true
              · rw [if_pos hblk] at hpr hm
                exact goal_of_rep m hobj hpr (finish m hm pre)
              · rw [if_neg hblk] at hpr hm
                exact goal_of_rep m hobj hpr (finish m hm pre)
        · rw [if_neg hsn] at hpr
          exact goal_of_rep m hobj hpr (finish m (sm_cf_wait_bad _ _ hR0 hC0 hP0 sn dat rfl hst hsn hl.2.1 hl.2.2) pre)


end head

end Rx
open Rx

/-! ## Main theorems -/

/-- the invariant of the receive side that `_process_rx` relies on: while waiting for Consecutive Frames the buffer is not
    longer than the announced frame length.  It is the first half of `Isotp.RxJust` (Proofs/Safe.lean), which holds initially and
    is preserved by `processRx` / `checkTimeoutsRx` (`RxJust.init`, `RxJust.processRx`, `RxJust.checkTimeoutsRx`). -/
def RxBufOk (s : State) : Prop := s.rxState = .waitCf → s.rxBuf.length ≤ s.rxFrameLen

theorem sliceOk_of_inv {s : State} (h : RxBufOk s) (m : CanMsg) : sliceOk s m := fun _ _ _ _ _ hst _ => h hst

/-- **`_process_rx` = `State.processRx`** (precise form) -/
theorem process_rx_agrees' (s : State) (m : CanMsg) (hinv : sliceOk s m) :
    ∃ env', runFn (rxMeths s m) (rxEnvIn s m) Src.TransportLayerLogic_p_process_rx
        = .ok (.list [.py (.bool (s.processRx m).2.1), .py (.bool (s.processRx m).2.2)], env') ∧
      ∀ kv ∈ rxAttrs (mailboxObj s m) (s.processRx m).1, env' kv.1 = some kv.2 := by
  obtain ⟨env', h1, h2⟩ := process_rx_run m (rep_rxEnvIn s m) (consts_rxEnvIn s m) rfl (pduCtx_rxEnvIn s m) hinv
  refine ⟨env', ?_, h2⟩
  have h1' : execBlock (rxMeths s m) (rxEnvIn s m) Src.TransportLayerLogic_p_process_rx = _ := h1
  simp only [runFn, h1']

/-- **`_process_rx` = `State.processRx`**, for every state that satisfies `RxBufOk` and every frame: the interpreted source returns
    the report `(immediate_tx_required, frame_received)` of the model and leaves the object in the model's state (all
    receive-side attributes, the errors and deliveries appended to the history keys, the mailbox). -/
theorem process_rx_agrees (s : State) (m : CanMsg) (hinv : RxBufOk s) :
    ∃ env', runFn (rxMeths s m) (rxEnvIn s m) Src.TransportLayerLogic_p_process_rx
        = .ok (.list [.py (.bool (s.processRx m).2.1), .py (.bool (s.processRx m).2.2)], env') ∧
      ∀ kv ∈ rxAttrs (mailboxObj s m) (s.processRx m).1, env' kv.1 = some kv.2 :=
  process_rx_agrees' s m (sliceOk_of_inv hinv m)

/-- the history keys after `_process_rx`: exactly the model's error events and deliveries -/
theorem process_rx_history (s : State) (m : CanMsg) (hinv : sliceOk s m) :
    ∃ env', (runFn (rxMeths s m) (rxEnvIn s m) Src.TransportLayerLogic_p_process_rx).map (·.2) = .ok env' ∧
      env' "#errors" = some (.list (errsOf (s.processRx m).1.log)) ∧
      env' "#delivered" = some (.list (encodePayloads (deliveredOf (s.processRx m).1.log))) ∧
      env' "#rx_queue" = some (.list (encodePayloads (s.processRx m).1.rxQueue)) := by
  obtain ⟨env', h1, h2⟩ := process_rx_agrees' s m hinv
  refine ⟨env', by rw [h1]; rfl, ?_, ?_, ?_⟩
  · exact h2 ("#errors", _) (by simp [rxAttrs, coreAttrs])
  · exact h2 ("#delivered", _) (by simp [rxAttrs, coreAttrs])
  · exact h2 ("#rx_queue", _) (by simp [rxAttrs, coreAttrs])

/-- a received Flow Control ends in the mailbox (in EVERY state): `self.last_flow_control_frame` is the object `pdu`, whose three
    fields are the model's `lastFc` -/
theorem process_rx_mailbox (s : State) (m : CanMsg) (st bs stm canDl rxDl : Nat)
    (hd : decode m.data s.addr.rx.rxPrefixSize = some ⟨.fc st bs stm, canDl, rxDl⟩) :
    (s.processRx m).1.lastFc = some ⟨st, bs, stm⟩ ∧
    ∃ env', runFn (rxMeths s m) (rxEnvIn s m) Src.TransportLayerLogic_p_process_rx
        = .ok (.list [.py (.bool true), .py (.bool false)], env') ∧
      env' "self.last_flow_control_frame" = some (.meth "pdu") ∧ env' "pdu.flow_status" = some (pint st) ∧
      env' "pdu.blocksize" = some (pint bs) ∧ env' "pdu.stmin" = some (pint stm) := by
  have hd' : rxDecoded s m = some ⟨.fc st bs stm, canDl, rxDl⟩ := hd
  have hpr : s.processRx m = ({ s with lastFc := some ⟨st, bs, stm⟩ }, true, false) := by
    simp only [State.processRx, hd]
  have hobj : mailboxObj s m = "pdu" := by simp only [mailboxObj, hd', isFc, if_true]
  have hok : sliceOk s m := by
    intro sn dat c r h
    rw [hd'] at h
    cases h
  obtain ⟨env', h1, h2⟩ := process_rx_agrees' s m hok
  rw [hpr] at h1 h2
  rw [hobj] at h2
  refine ⟨by rw [hpr], env', h1, ?_, ?_, ?_, ?_⟩
  · exact h2 ("self.last_flow_control_frame", _) (by simp [rxAttrs, fcAttrs])
  · exact h2 ("pdu.flow_status", _) (by simp [rxAttrs, fcAttrs])
  · exact h2 ("pdu.blocksize", _) (by simp [rxAttrs, fcAttrs])
  · exact h2 ("pdu.stmin", _) (by simp [rxAttrs, fcAttrs])

/-! ### `_check_timeouts_rx` -/

theorem envTimer_rep {s : State} {env : Env} (hR : Rep s env) : envTimer env = some s.timerCf := by
  cases hs : s.timerCf.start <;>
    simp [envTimer, hR.tStart, hR.tTimeout, hs, optPV] <;>
    (cases h : s.timerCf; simp_all)

/-- `_check_timeouts_rx` from any environment that represents `s` -/
theorem check_timeouts_rx_run (tCf start : Nat) (data : Bytes) {s : State} {env : Env} (hR : Rep s env) :
    ∃ env', runFn (rxMethsOf s.now tCf start data) env Src.TransportLayerLogic_p_check_timeouts_rx = .ok (pnone, env') ∧
      Rep s.checkTimeoutsRx env' := by
  have ht := envTimer_rep hR
  simp only [runFn, Src.TransportLayerLogic_p_check_timeouts_rx, State.checkTimeoutsRx]
  cases hto : s.timerCf.timedOut s.now
  · rx_eval [timedOutFn, ht, hto]
    exact ⟨_, rfl, hR⟩
  · rx_eval [timedOutFn, ht, hto]
    exact ⟨_, rfl, (hR.trig .ConsecutiveFrameTimeout).stopRecv⟩

/-- **`_check_timeouts_rx` = `State.checkTimeoutsRx`**, for every state -/
theorem check_timeouts_rx_agrees (s : State) (m : CanMsg) :
    ∃ env', runFn (rxMeths s m) (rxEnv s) Src.TransportLayerLogic_p_check_timeouts_rx = .ok (pnone, env') ∧
      ∀ kv ∈ rxAttrs "fc" s.checkTimeoutsRx, env' kv.1 = some kv.2 := by
  obtain ⟨env', h1, h2⟩ := check_timeouts_rx_run s.cfg.tCf s.addr.rx.rxPrefixSize m.data (rep_rxEnv s)
  exact ⟨env', h1, h2.attrs⟩


/-! ### 4c. the helper methods: their own source against the model (from ANY environment that represents `s`) -/

section helper_agreement
variable (tCf start : Nat) (data : Bytes) {s : State} {env : Env}

theorem Rx.Rep.of_setLocal (k : String) (v : PV) (hk : k ∉ repKeys) (h : Rep s (env.set k v)) : Rep s env := by
  simp only [repKeys, List.mem_cons, List.not_mem_nil, or_false, not_or] at hk
  obtain ⟨h1, h2, h3, h4, h5, h6, h7, h8, h9, h10, h11, h12, h13, h14, h15, h16, h17, h18, h19, h20⟩ := hk
  have e : ∀ k', k' ≠ k → (env.set k v) k' = env k' := fun k' hk' => by simp only [set_apply, hk', if_false]
  constructor
  · rw [← e _ (Ne.symm h1)]; exact h.rxState
  · rw [← e _ (Ne.symm h2)]; exact h.rxFrameLen
  · rw [← e _ (Ne.symm h3)]; exact h.lastSeq
  · rw [← e _ (Ne.symm h4)]; exact h.rxBlockCnt
  · rw [← e _ (Ne.symm h5)]; exact h.actualRxdl
  · rw [← e _ (Ne.symm h6)]; exact h.rxBuf
  · rw [← e _ (Ne.symm h7)]; exact h.pendingFc
  · rw [← e _ (Ne.symm h8)]; exact h.pfs
  · rw [← e _ (Ne.symm h9)]; exact h.tStart
  · rw [← e _ (Ne.symm h10)]; exact h.tTimeout
  · rw [← e _ (Ne.symm h11)]; exact h.blocksize
  · rw [← e _ (Ne.symm h12)]; exact h.maxFrameSize
  · rw [← e _ (Ne.symm h13)]; exact h.cfTimeout
  · rw [← e _ (Ne.symm h14)]; exact h.errors
  · rw [← e _ (Ne.symm h15)]; exact h.delivered
  · rw [← e _ (Ne.symm h16)]; exact h.rxQueue
  · rw [← e _ (Ne.symm h17)]; exact h.mb
  · intro f hf; rw [← e _ (Ne.symm h18)]; exact h.fcS f hf
  · intro f hf; rw [← e _ (Ne.symm h19)]; exact h.fcB f hf
  · intro f hf; rw [← e _ (Ne.symm h20)]; exact h.fcM f hf

/-- `_empty_rx_buffer` -/
theorem rx_empty_rx_buffer_agrees (now : Nat) (hR : Rep s env) :
    ∃ env', runFn (rxMethsOf now tCf start data) env Src.TransportLayerLogic_p_empty_rx_buffer = .ok (pnone, env') ∧
      Rep { s with rxBuf := [] } env' :=
  ⟨_, empty_rx_buffer_src now tCf start data env, hR.emptyBuf⟩

/-- `_stop_sending_flow_control` -/
theorem rx_stop_sending_flow_control_agrees (now : Nat) (hR : Rep s env) :
    ∃ env', runFn (rxMethsOf now tCf start data) env Src.TransportLayerLogic_p_stop_sending_flow_control = .ok (pnone, env') ∧
      Rep { s with pendingFc := false, lastFc := none } env' :=
  ⟨_, stop_sending_flow_control_src now tCf start data env, hR.stopFc⟩

/-- `_start_rx_cf_timer` = `State.startRxCfTimer` (the timeout installed is the converted parameter `s.cfg.tCf`, DESIGN 3.1) -/
theorem rx_start_rx_cf_timer_agrees (hR : Rep s env) :
    ∃ env', runFn (rxMethsOf s.now s.cfg.tCf start data) env Src.TransportLayerLogic_p_start_rx_cf_timer = .ok (pnone, env') ∧
      Rep s.startRxCfTimer env' :=
  ⟨_, start_rx_cf_timer_src s.now s.cfg.tCf start data env _ hR.cfTimeout, hR.startCf⟩

/-- `_append_rx_data(d)` -/
theorem rx_append_rx_data_agrees (now : Nat) (hR : Rep s env) (d : Bytes) :
    ∃ env', runFn (rxMethsOf now tCf start data) (env.set "data" (.bytes d)) Src.TransportLayerLogic_p_append_rx_data
        = .ok (pnone, env') ∧ Rep { s with rxBuf := s.rxBuf ++ d } env' :=
  ⟨_, (append_rx_data_src now tCf start data env d s.rxBuf hR.rxBuf).1,
    ((hR.setLocal "data" (.bytes d) (by decide)).extend d)⟩

/-- `_request_tx_flowcontrol(st)` = `State.requestFc` -/
theorem rx_request_tx_flowcontrol_agrees (now : Nat) (hR : Rep s env) (st : Nat) :
    ∃ env', runFn (rxMethsOf now tCf start data) (env.set "status" (pint st)) Src.TransportLayerLogic_p_request_tx_flowcontrol
        = .ok (pnone, env') ∧ Rep (s.requestFc st) env' :=
  ⟨_, (request_tx_flowcontrol_src now tCf start data env (pint st)).1, (hR.setLocal "status" (pint st) (by decide)).reqFc st⟩

/-- `_stop_receiving` = `State.stopReceiving` -/
theorem rx_stop_receiving_agrees (now : Nat) (hR : Rep s env) (hC : Consts env) :
    ∃ env', runFn (rxMethsOf now tCf start data) env Src.TransportLayerLogic_p_stop_receiving = .ok (pnone, env') ∧
      Rep s.stopReceiving env' :=
  ⟨_, stop_receiving_src now tCf start data env hC.idle, hR.stopRecv⟩

/-- `_start_reception_after_first_frame_if_valid(pdu)` = `State.startReception`: the state AND the Boolean result -/
theorem rx_start_reception_agrees (hR : Rep s env) (hC : Consts env) (len rxDl : Nat) (dat : Bytes)
    (hl : env "pdu.length" = some (pint len)) (hr : env "pdu.rx_dl" = some (pint rxDl))
    (hd : env "pdu.data" = some (.bytes dat)) :
    ∃ env', runFn (rxMethsOf s.now s.cfg.tCf start data) env
        Src.TransportLayerLogic_p_start_reception_after_first_frame_if_valid
        = .ok (pbool (s.startReception len dat rxDl).2, env') ∧ Rep (s.startReception len dat rxDl).1 env' := by
  obtain ⟨envR, b, h1, h2⟩ := start_reception_src s.now s.cfg.tCf start data env hC len rxDl s.cfg.maxFrameSize dat hl hr hd
    hR.maxFrameSize
  rw [startRecProc_eq s.now s.cfg.tCf env _ len rxDl s.cfg.maxFrameSize dat hl hr hd hR.maxFrameSize] at h2
  have h3 : startRecEnv s.now s.cfg.tCf len rxDl dat s.cfg.maxFrameSize env = envR.set "started" (pbool b) := by
    injection h2
  have hs := Rep.startRec hR len rxDl dat
  rw [h3] at hs
  have hb : b = (s.startReception len dat rxDl).2 := by
    have := hs.2
    simp only [set_apply, if_true] at this
    injection this with this
    injection this with this
    injection this with this
    injection this
  subst hb
  exact ⟨envR, h1, Rep.of_setLocal "started" _ (by decide) hs.1⟩

end helper_agreement

/-! ### 2b / 3b. the primitive entries against the sources they stand for -/

/-- `PDU(msg, start_of_data=start)` as given to `_process_rx` IS the interpreted `PDU.__init__`: `pdu` when the constructor
    returns, its exception (always `ValueError`) when it raises -/
theorem pdu_entry_link (now tCf start : Nat) (data : Bytes) (v : PV) (k : Nat) (env : Env) :
    (rxMethsOf now tCf start data).fn "PDU#start_of_data" [v, pint k] env =
      match runFn noMeths (pduEnv data k) Src.PDU_init with
      | .ok _ => .ok (.meth "pdu")
      | .error e => .error e := by
  rw [(fn_lookups now tCf start data).1, pduFn_eq]
  cases h : decode data k with
  | none => rw [pdu_init_rejects data k h]
  | some d =>
    obtain ⟨env', hrun, -⟩ := pdu_init_accepts data k d h
    rw [hrun]

/-- the name under which `_process_rx` sees an attribute of the PDU object -/
def pduKey : String → String
  | "self.can_dl" => "pdu.can_dl" | "self.rx_dl" => "pdu.rx_dl" | "self.type" => "pdu.type"
  | "self.length" => "pdu.length" | "self.data" => "pdu.data" | "self.escape_sequence" => "pdu.escape_sequence"
  | "self.seqnum" => "pdu.seqnum" | "self.flow_status" => "pdu.flow_status" | "self.blocksize" => "pdu.blocksize"
  | "self.stmin" => "pdu.stmin" | k => k

/-- the `pdu.*` bindings of `rxEnvIn` are the attributes `pdu_init_accepts` proves the constructed object has -/
theorem pduView_fields (d : Decoded) (base : Env) : ∀ kv ∈ fieldsOf d, pduView (some d) base (pduKey kv.1) = some kv.2 := by
  obtain ⟨p, c, r⟩ := d
  intro kv hkv
  cases p <;>
    simp only [fieldsOf, pduFields, List.cons_append, List.nil_append, List.mem_cons, List.not_mem_nil, or_false] at hkv <;>
    (rcases hkv with rfl | rfl | rfl | rfl | rfl | rfl) <;> rfl

/-- `self.timer_rx_cf.is_timed_out()` as given to `_check_timeouts_rx` IS the interpreted `Timer.is_timed_out` on the timer
    object read back from the environment (`timer_is_timed_out_linked`, MiscTimer.lean) -/
theorem is_timed_out_link (now : Nat) (env : Env) (t : Timer) (h : envTimer env = some t) :
    timedOutFn now env = retM (timerMethsSrc now) (timerEnv t) Src.Timer_is_timed_out := by
  rw [timer_is_timed_out_linked]; simp only [timedOutFn, h]

/-- `self.timer_rx_cf.stop()` / `.start()`: the entries write to `start_time` what `Timer.stop` / `Timer.start` write
    (`timer_stop_start_time`, `timer_start_none_start_time`, MiscTimer.lean) -/
theorem timer_entries_link (M : Meths) (t : Timer) (now tCf : Nat) (hM : ClockIs M now) (env : Env) :
    (timerStopEnv env "self.timer_rx_cf.start_time" = some pnone ∧
      (envM M (timerEnv t) Src.Timer_stop).map (· "self.start_time") = .ok (some pnone)) ∧
    (timerStartEnv now tCf env "self.timer_rx_cf.start_time" = some (pint now) ∧
      (envM M (startEnv t pnone) Src.Timer_start).map (· "self.start_time") = .ok (some (pint now))) :=
  ⟨⟨rfl, timer_stop_start_time M t⟩, ⟨rfl, timer_start_none_start_time M t now hM⟩⟩


/-! ### what `RxBufOk` excludes -/

theorem natIdx_neg (i : Int) (h : i < 0) : natIdx (pint i) = .error (.unsupported "negative index") := by
  simp [natIdx, asInt, Sc.isInt, Sc.intVal, PyVal.isInt, PyVal.intVal, h]

theorem block_err (M : Meths) (env : Env) (e : PErr) (s : PStmt) (r : PBlock) (h : execStmt M env s = .error e) :
    execBlock M env (.cons s r) = .error e := by
  simp only [execBlock, h, error_bind]

/-- In a state where the buffer is LONGER than the announced frame length (excluded by `RxBufOk`; unreachable), an in-sequence
    Consecutive Frame makes `bytes_to_receive` negative.  The source then evaluates `pdu.data[:bytes_to_receive]` with a negative
    bound: Python drops that many bytes from the END of the data, the interpreter does not model negative slice bounds
    (`unsupported`), and the model's `data.take (rxFrameLen - rxBuf.length)` takes nothing.  So without the invariant the two
    sides are not comparable on this input. -/
theorem process_rx_negative_slice (s : State) (m : CanMsg) (sn : Nat) (dat : Bytes) (canDl rxDl : Nat)
    (hdec : decode m.data s.addr.rx.rxPrefixSize = some ⟨.cf sn dat, canDl, rxDl⟩) (hst : s.rxState = .waitCf)
    (hsn : sn = (s.lastSeq + 1) % 16) (hneg : s.rxFrameLen < s.rxBuf.length) :
    runFn (rxMeths s m) (rxEnvIn s m) Src.TransportLayerLogic_p_process_rx = .error (.unsupported "negative index") := by
  have hdec' : rxDecoded s m = some ⟨.cf sn dat, canDl, rxDl⟩ := hdec
  have hP' := pduCtx_rxEnvIn s m _ hdec'
  have hC := consts_rxEnvIn s m
  have hR := rep_rxEnvIn s m
  have h3 := st3_other (rxMethsOf s.now s.cfg.tCf s.addr.rx.rxPrefixSize m.data) (consts_e2 hC) (pduCtx_e2 hP')
    (by simp [typeCode])
  have pre := head_run m hC hP' rfl hdec' (by simp [typeCode]) h3
  have hR0 := rep_head (env := rxEnvIn s m) hR
  have hC0 := consts_head (env := rxEnvIn s m) hC
  have hP0 := pduCtx_head (env := rxEnvIn s m) hP'
  have h5 : execStmt (rxMethsOf s.now s.cfg.tCf s.addr.rx.rxPrefixSize m.data) (headEnv (rxEnvIn s m)) st5
      = .error (.unsupported "negative index") := by
    rw [cfw_prefix _ _ hR0 hC0 hP0 sn dat rfl hst, if_pos hsn, cfOk_shape, chgStmt_shape]
    have hlt : decide ((rxDl : Int) < (s.rxFrameLen : Int) - (s.rxBuf.length : Int)) = false := by
      simp only [decide_eq_false_iff_not]; omega
    have hdat0 : headEnv (rxEnvIn s m) "pdu.data" = some (.bytes dat) := hP0.data
    have hsn0 : headEnv (rxEnvIn s m) "pdu.seqnum" = some (pint sn) := hP0.seqnum
    have hneg' : (s.rxFrameLen : Int) - (s.rxBuf.length : Int) < 0 := by omega
    cases hA : (s.actualRxdl == some rxDl) <;>
      rx_eval [seqEnv, hR0.rxFrameLen, hR0.rxBuf, evalBinop_sub, hP0.rxDl, hR0.actualRxdl, pvEq_pint_optPV, hA, Bool.not_false,
        Bool.not_true, cmp_lt_pint, hlt, hdat0, hsn0, natIdx_neg _ hneg']
  have e : execBlock (rxMeths s m) (rxEnvIn s m) Src.TransportLayerLogic_p_process_rx = .error (.unsupported "negative index") := by
    show execBlock (rxMethsOf s.now s.cfg.tCf s.addr.rx.rxPrefixSize m.data) (rxEnvIn s m) body = _
    rw [pre, block_err _ _ _ _ _ h5]
  simp only [runFn, e]


/-- non-vacuity of `process_rx_negative_slice`, and what the model does there: buffer `[1,2,3]` for an announced length of 2, then
    the in-sequence Consecutive Frame `21 AA BB`.  The model takes nothing from the frame and delivers `[1,2,3]`; Python's
    `data[:-1]` would append `AA` and deliver `[1,2,3,AA]`. -/
def sliceWitnessState : State :=
  { cfg := {}, addr := default, rxState := .waitCf, rxBuf := [1, 2, 3], rxFrameLen := 2 }
def sliceWitnessMsg : CanMsg := { id := 0, ext := false, data := [0x21, 0xAA, 0xBB] }

theorem negative_slice_witness :
    runFn (rxMeths sliceWitnessState sliceWitnessMsg) (rxEnvIn sliceWitnessState sliceWitnessMsg)
        Src.TransportLayerLogic_p_process_rx = .error (.unsupported "negative index") ∧
    (sliceWitnessState.processRx sliceWitnessMsg).1.rxQueue = [[1, 2, 3]] ∧
    ¬ RxBufOk sliceWitnessState := by
  refine ⟨process_rx_negative_slice _ _ 1 [0xAA, 0xBB] 3 8 (by decide) rfl (by decide) (by decide), by decide, ?_⟩
  intro h
  exact absurd (h rfl) (by decide)

/-! ### non-vacuity of the hypotheses -/
example (c : Cfg) (a : Addr) : RxBufOk (State.init c a) := by intro h; cases h
example : RxBufOk { cfg := {}, addr := default, rxState := .waitCf, rxBuf := [1, 2, 3], rxFrameLen := 20 } := by
  intro _; decide
example (s : State) (m : CanMsg) (h : s.rxState = .idle) : sliceOk s m := by
  intro _ _ _ _ _ hst; rw [h] at hst; cases hst

end Isotp.PyAgree

#print axioms Isotp.PyAgree.process_rx_agrees
#print axioms Isotp.PyAgree.process_rx_agrees'
#print axioms Isotp.PyAgree.process_rx_history
#print axioms Isotp.PyAgree.process_rx_mailbox
#print axioms Isotp.PyAgree.check_timeouts_rx_agrees
#print axioms Isotp.PyAgree.check_timeouts_rx_run
#print axioms Isotp.PyAgree.Rx.process_rx_run
#print axioms Isotp.PyAgree.rx_empty_rx_buffer_agrees
#print axioms Isotp.PyAgree.rx_stop_sending_flow_control_agrees
#print axioms Isotp.PyAgree.rx_start_rx_cf_timer_agrees
#print axioms Isotp.PyAgree.rx_append_rx_data_agrees
#print axioms Isotp.PyAgree.rx_request_tx_flowcontrol_agrees
#print axioms Isotp.PyAgree.rx_stop_receiving_agrees
#print axioms Isotp.PyAgree.rx_start_reception_agrees
#print axioms Isotp.PyAgree.Rx.empty_rx_buffer_src
#print axioms Isotp.PyAgree.Rx.stop_sending_flow_control_src
#print axioms Isotp.PyAgree.Rx.start_rx_cf_timer_src
#print axioms Isotp.PyAgree.Rx.append_rx_data_src
#print axioms Isotp.PyAgree.Rx.request_tx_flowcontrol_src
#print axioms Isotp.PyAgree.Rx.stop_receiving_src
#print axioms Isotp.PyAgree.Rx.start_reception_src
#print axioms Isotp.PyAgree.pdu_entry_link
#print axioms Isotp.PyAgree.pduView_fields
#print axioms Isotp.PyAgree.is_timed_out_link
#print axioms Isotp.PyAgree.timer_entries_link
#print axioms Isotp.PyAgree.process_rx_negative_slice
#print axioms Isotp.PyAgree.negative_slice_witness
#print axioms Isotp.PyAgree.encodePayloads_append
#print axioms Isotp.PyAgree.encodePayloads_injective
