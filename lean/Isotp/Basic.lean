def hello := "world"
