import Isotp.PyAgree.EvalLemmas
import Isotp.Frame
/-! value-level lemmas shared by the Misc* agreement leaves (order comparisons of integers, casts of literals, builtins) -/
namespace Isotp.PyAgree
open Isotp Isotp.Py

/-! ### value-level lemmas (order comparisons of integers, casts of literals, the builtins used here) -/

theorem evalCmp_le_pint (a b : Int) : evalCmp .le (pint a) (pint b) = .ok (pbool (decide (a ≤ b))) := by
  simp only [evalCmp, isNumber, numLt, PyVal.pyEq, PyVal.isInt, PyVal.intVal, bind, Except.bind]
  by_cases h1 : a < b <;> by_cases h2 : a = b <;> by_cases h3 : a ≤ b <;> simp [h1, h2, h3] <;> omega
theorem evalCmp_ge_pint (a b : Int) : evalCmp .ge (pint a) (pint b) = .ok (pbool (decide (b ≤ a))) := by
  simp only [evalCmp, isNumber, numLt, PyVal.pyEq, PyVal.isInt, PyVal.intVal, bind, Except.bind]
  by_cases h1 : b < a <;> by_cases h2 : a = b <;> by_cases h3 : b ≤ a <;> simp [h1, h2, h3] <;> omega
theorem evalCmp_lt_pint (a b : Int) : evalCmp .lt (pint a) (pint b) = .ok (pbool (decide (a < b))) := by
  simp [evalCmp, isNumber, numLt, PyVal.isInt, PyVal.intVal, Except.map]
  rfl
theorem evalCmp_gt_pint (a b : Int) : evalCmp .gt (pint a) (pint b) = .ok (pbool (decide (b < a))) := by
  simp [evalCmp, isNumber, numLt, PyVal.isInt, PyVal.intVal, Except.map]
  rfl

/-- the integer literals of the source are `Int` literals; the values they are compared with are casts of `Nat`s -/
theorem cast_le_lit (n k : Nat) : ((n : Int) ≤ (no_index (OfNat.ofNat k) : Int)) ↔ n ≤ (OfNat.ofNat k : Nat) := by
  show (n : Int) ≤ ((k : Nat) : Int) ↔ n ≤ k
  omega
theorem lit_le_cast (n k : Nat) : ((no_index (OfNat.ofNat k) : Int) ≤ (n : Int)) ↔ (OfNat.ofNat k : Nat) ≤ n := by
  show ((k : Nat) : Int) ≤ (n : Int) ↔ k ≤ n
  omega
theorem cast_lt_lit (n k : Nat) : ((n : Int) < (no_index (OfNat.ofNat k) : Int)) ↔ n < (OfNat.ofNat k : Nat) := by
  show (n : Int) < ((k : Nat) : Int) ↔ n < k
  omega
theorem lit_lt_cast (n k : Nat) : ((no_index (OfNat.ofNat k) : Int) < (n : Int)) ↔ (OfNat.ofNat k : Nat) < n := by
  show ((k : Nat) : Int) < (n : Int) ↔ k < n
  omega
theorem cast_eq_lit (n k : Nat) : ((n : Int) = (no_index (OfNat.ofNat k) : Int)) ↔ n = (OfNat.ofNat k : Nat) := by
  show (n : Int) = ((k : Nat) : Int) ↔ n = k
  omega

theorem cast_beq_zero (n : Nat) : ((n : Int) == 0) = (n == 0) := by
  rw [Bool.eq_iff_iff]; simp

theorem builtin_len_bytes (b : Bytes) : evalBuiltin "len" [.bytes b] = some (.ok (pint b.length)) := by simp [evalBuiltin]
theorem builtin_max_pint (x y : Int) : evalBuiltin "max" [pint x, pint y] = some (.ok (pint (if y > x then y else x))) := by
  simp [evalBuiltin, asInt, Sc.isInt, Sc.intVal, PyVal.isInt, PyVal.intVal]
  split <;> rfl
theorem builtin_bytes_list (xs : List Sc) : evalBuiltin "bytes" [.list xs] = some ((bytesOfScs xs).map .bytes) := by
  simp [evalBuiltin]
/-- the calls that are not builtins go to `Meths` -/
theorem builtin_nearest (v : PV) : evalBuiltin "self._get_nearest_can_fd_size" [v] = none := by simp [evalBuiltin]
theorem builtin_clock : evalBuiltin "time.perf_counter_ns" [] = none := by simp [evalBuiltin]
theorem builtin_is_stopped : evalBuiltin "self.is_stopped" [] = none := by simp [evalBuiltin]
theorem builtin_elapsed_ns : evalBuiltin "self.elapsed_ns" [] = none := by simp [evalBuiltin]
theorem builtin_set_timeout (v : PV) : evalBuiltin "self.set_timeout" [v] = none := by simp [evalBuiltin]

theorem pvEq_optPV_pnone (o : Option Nat) : pvEq (optPV o) pnone = o.isNone := by
  cases o <;> simp [optPV]

/-- value returned by a function body, the other methods it calls being given by `M` -/
def retM (M : Meths) (env : Env) (body : PBlock) : Except PErr PV := (runFn M env body).map (·.1)
/-- the environment (= the attributes of `self` and the locals) a function body ends with -/
def envM (M : Meths) (env : Env) (body : PBlock) : Except PErr Env := (runFn M env body).map (·.2)

/-- `some k` = the function returns `k`, `none` = it raises `ValueError` (the convention of the model) -/
def optRes : Option Nat → Except PErr PV
  | some k => .ok (pint k)
  | none => .error (.exc .ValueError)


end Isotp.PyAgree
