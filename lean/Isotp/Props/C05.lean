import Isotp.Proofs.Safe
/-
  C05 — receiver is safe on arbitrary bus traffic (property theorems only; helper lemmas and the
  invariants `Safe`, `RxJust`, `Quiet` are in Isotp/Proofs/Safe.lean).

  Reading of the property in the model.
  * "process() never raises": every Python exception site of `_process_rx` / `_process_tx` / `process`
    is an explicit `State.raise` that sets `exc`; "never raises" = `exc` stays `none`.
    The frames are whatever is in `inbox` (any identifiers, contents, lengths, delays): the theorems
    quantify over the whole state, so over every inbox.
  * "problems are reported only as IsoTpError objects": by typing. The only error events are
    `Ev.err t e` with `e : Err`, and every constructor of `Err` is a subclass of
    `isotp.errors.IsoTpError` (`Err.name`); the log theorems below add that the steps only ever put
    events in front of the log (history is never rewritten) and which kinds of events they put.
  * "every payload returned by recv() is justified": `recv` pops `rxQueue`; `rxQueue` only grows in
    `_process_rx`, by at most one payload per frame, and that payload satisfies `JustifiedBy`.
  * "while the user sends nothing …": `Quiet` (nothing queued, nothing in transmission).
-/
set_option linter.unusedVariables false

namespace Isotp.C05
open Isotp State

/-! ## 1. `process()` never raises -/

/-- `_process_rx` has no exception site: whatever the frame, the exception flag is untouched. -/
theorem processRx_no_raise (s : State) (m : CanMsg) : (s.processRx m).1.exc = s.exc := by
  unfold processRx startReception
  grind [deliver, stopReceiving, State.error, emit, requestFc, startRxCfTimer]

/-- The initial state of a layer with an accepted configuration satisfies the safety invariant. -/
theorem safe_init (c : Cfg) (a : Addr) (hc : c.valid = true) : Safe (State.init c a) :=
  Safe.init c a hc

/-- The address prefix (extended / mixed addressing) is at most one byte, for every `Address`. -/
theorem prefix_le_one (h : Half) : h.txPrefix.length ≤ 1 ∧ h.rxPrefixSize ≤ 1 :=
  ⟨Safe.txPrefix_le h, Safe.rxPrefix_le h⟩

/-- Every frame the layer builds (Single / First / Consecutive Frame, Flow Control: 2 … tx_data_length
    bytes before padding) is accepted by `_make_tx_msg`: padding and DLC lookup cannot raise `ValueError`. -/
theorem makeTxMsg_never_raises (c : Cfg) (a : Addr) (id : Nat) (d : Bytes) (hc : c.valid = true)
    (h2 : 2 ≤ d.length) (hle : d.length ≤ c.txDl) :
    ∃ m, makeTxMsg c a id d = some m ∧ 2 ≤ m.data.length ∧ m.data.length ≤ c.txDl ∧
      d.length ≤ m.data.length :=
  Safe.makeTxMsg_ok c a id d hc h2 hle

/-- The bound `2 ≤ length` is needed: a 1-byte data field is refused by `_get_dlc` on classic CAN. -/
example : makeTxMsg {} ⟨default, default⟩ 0 [0x01] = none := by decide

/-- The safety invariant is kept by `_process_rx` on ANY frame, by the timeout check and by
    `_process_tx`; none of them reaches an exception site. -/
theorem safe_steps (s : State) (h : Safe s) :
    (∀ m, Safe (s.processRx m).1 ∧ (s.processRx m).1.exc = s.exc) ∧
    (Safe s.checkTimeoutsRx ∧ s.checkTimeoutsRx.exc = s.exc) ∧
    (Safe s.processTx.1 ∧ s.processTx.1.exc = s.exc) :=
  ⟨fun m => ⟨h.processRx m, (RxFrame.processRx s m).exc⟩,
   ⟨h.checkTimeoutsRx, (RxFrame.checkTimeoutsRx s).exc⟩, h.processTx⟩

/-- **`_process_tx` never raises**: from a safe state without pending exception, no
    `AttributeError` / `AssertionError` / `ValueError` site is reached. -/
theorem processTx_no_raise (s : State) (h : Safe s) (he : s.exc = none) : s.processTx.1.exc = none :=
  h.processTx.2.trans he

/-- **`process()` never raises**, whatever is on the bus (`s.inbox` is arbitrary) and whatever the
    flags; and it leaves the layer in a safe state again. -/
theorem process_no_raise (s : State) (h : Safe s) (he : s.exc = none) (doRx doTx : Bool) :
    (s.process doRx doTx).1.exc = none ∧ Safe (s.process doRx doTx).1 :=
  ⟨h.process_exc he doRx doTx, h.process doRx doTx⟩

/-- The same for the inner loops. -/
theorem loops_no_raise (s : State) (h : Safe s) (he : s.exc = none) :
    (∀ doTx st l, (rxLoop doTx s st l).1.exc = none) ∧ (∀ f n, (txLoop f s n).1.exc = none) ∧
      (∀ f doRx doTx st, (processLoop f doRx doTx s st).1.exc = none) :=
  ⟨fun doTx st l => (SafeOk.stepInv.rxLoop doTx l s st ⟨h, he⟩).2,
   fun f n => (SafeOk.stepInv.txLoop f s n ⟨h, he⟩).2,
   fun f doRx doTx st => (SafeOk.stepInv.processLoop f doRx doTx s st ⟨h, he⟩).2⟩

/-- Receiver on arbitrary traffic, end to end: a layer with an accepted configuration that is fed any
    list of frames (any id, data, delay) and then runs `process()` has raised nothing. -/
theorem receiver_never_raises (c : Cfg) (a : Addr) (hc : c.valid = true) (frames : List (Nat × CanMsg))
    (doRx doTx : Bool) :
    (({ State.init c a with inbox := frames } : State).process doRx doTx).1.exc = none := by
  have h : Safe ({ State.init c a with inbox := frames } : State) :=
    (Safe.init c a hc).congr rfl rfl rfl rfl rfl rfl rfl rfl
  exact h.process_exc rfl doRx doTx

/-! ## 2. Errors are typed; the log is append-only -/

/-- Remark (`errors_typed`): an error reaches the handler only as `Ev.err t e` with `e : Err`, and each
    `Err` is an `IsoTpError` subclass — nothing to prove beyond the types. What can be proved is
    that the steps never rewrite history: they only put events in front of the (newest-first) log,
    `_process_rx` / the timeout check only errors and deliveries, `_process_tx` only errors, request
    completions and generator pulls. -/
theorem log_prepend (s : State) :
    (∀ m, ∃ evs, (s.processRx m).1.log = evs ++ s.log ∧ ∀ e ∈ evs, e.rxInternal = true) ∧
    (∃ evs, s.checkTimeoutsRx.log = evs ++ s.log ∧ ∀ e ∈ evs, e.rxInternal = true) ∧
    (∃ evs, s.processTx.1.log = evs ++ s.log ∧ ∀ e ∈ evs, e.txInternal = true) :=
  ⟨fun m => LogExt.iff_append.1 (RxFrame.processRx s m).log,
   LogExt.iff_append.1 (RxFrame.checkTimeoutsRx s).log,
   LogExt.iff_append.1 (TxFrame.processTx s).log⟩

/-- the event kinds named by `log_prepend` -/
theorem internal_kinds (e : Ev) :
    (e.rxInternal = true ↔ (∃ t x, e = .err t x) ∨ ∃ p, e = .deliver p) ∧
    (e.txInternal = true ↔ (∃ t x, e = .err t x) ∨ (∃ i b, e = .done i b) ∨ ∃ i n, e = .pull i n) := by
  cases e <;> simp [Ev.rxInternal, Ev.txInternal]

/-! ## 3. Deliveries are justified by the traffic -/

/-- Reference predicate, from the property text: payload `p` is justified by frame `m` arriving in
    state `s` when `m` is a Single Frame whose data is `p`, or a reception is in progress, `m` is the
    Consecutive Frame with the expected sequence number, and `p` is the buffered data followed by the
    data of `m` (clipped to the announced length), of exactly the announced length, which is not above
    `max_frame_size`. -/
def JustifiedBy (s : State) (m : CanMsg) (p : Bytes) : Prop :=
  (∃ l esc cd rd, decode m.data s.addr.rx.rxPrefixSize = some ⟨.sf l p esc, cd, rd⟩) ∨
  (s.rxState = .waitCf ∧
    ∃ data cd rd, decode m.data s.addr.rx.rxPrefixSize = some ⟨.cf ((s.lastSeq + 1) % 16) data, cd, rd⟩ ∧
      p = s.rxBuf ++ data.take (s.rxFrameLen - s.rxBuf.length) ∧
      p.length = s.rxFrameLen ∧ s.rxFrameLen ≤ s.cfg.maxFrameSize)

/-- The receiver invariant holds initially and is kept by every step (and by `process()`). -/
theorem rxJust_invariant :
    (∀ c a, RxJust (State.init c a)) ∧
    (∀ s, RxJust s → (∀ m, RxJust (s.processRx m).1) ∧ RxJust s.checkTimeoutsRx ∧ RxJust s.processTx.1 ∧
      (∀ doRx doTx, RxJust (s.process doRx doTx).1)) ∧
    (∀ s : State, RxJust s.stopReceiving) :=
  ⟨RxJust.init, fun s h => ⟨h.processRx, h.checkTimeoutsRx, h.of_txFrame (TxFrame.processTx s),
    fun doRx doTx => RxJust.stepInv.process s doRx doTx h⟩, RxJust.stopReceiving⟩

/-- … and by every public method: it holds in every state reachable from the initial one. -/
theorem rxJust_any_use (c : Cfg) (a : Addr) (ops : List Op) : RxJust (runOps (State.init c a) ops) :=
  RxJust.runOps ops (RxJust.init c a)

/-- **Per-frame justification.** One call of `_process_rx` (on ANY frame) puts at most one payload on
    the rx queue — the queue `recv()` pops — and logs exactly that delivery; if it delivers `p`, then
    `p` is justified by this frame in the sense of `JustifiedBy`. -/
theorem delivery_justified (s : State) (h : RxJust s) (m : CanMsg) :
    NoDelivery s (s.processRx m).1 ∨ ∃ p, Delivered s (s.processRx m).1 p ∧ JustifiedBy s m p := by
  rcases processRx_deliv s m with h0 | ⟨d, l, p, esc, hd, hp, hdel⟩ | ⟨d, data, hd, hp, hw, hlen, hdel⟩
  · exact .inl h0
  · refine .inr ⟨p, hdel, .inl ⟨l, esc, d.canDl, d.rxDl, ?_⟩⟩
    rw [hd, ← hp]
  · refine .inr ⟨_, hdel, .inr ⟨hw, data, d.canDl, d.rxDl, ?_, rfl, ?_, (h hw).2⟩⟩
    · rw [hd, ← hp]
    · have := (h hw).1
      simp only [List.length_append, List.length_take] at hlen ⊢
      omega

/-- Nothing else touches the rx queue: the timeout check and `_process_tx` leave it alone, `recv()`
    only pops its head. So every payload `recv()` ever returns was put there by a `delivery_justified`
    step. -/
theorem rxQueue_other_steps (s : State) :
    s.checkTimeoutsRx.rxQueue = s.rxQueue ∧ s.processTx.1.rxQueue = s.rxQueue ∧
    (s.recv.2 = s.rxQueue.head? ∧ s.recv.1.rxQueue = s.rxQueue.tail) := by
  refine ⟨?_, (TxFrame.processTx s).rxQueue, ?_⟩
  · unfold checkTimeoutsRx; split <;> rfl
  · unfold recv; split <;> simp_all

/-- Buffer semantics: while a reception is in progress, a frame either leaves the session untouched
    (`SessSame`; then it is not a new message: `NotNewMsg`), or ends the session with the buffer emptied (`SessEnd`), or is the expected Consecutive
    Frame and appends its (clipped) data, or is a First Frame that starts a new session with its own
    data and an accepted length. Outside a reception, only a First Frame can start one. -/
theorem buffer_step (s : State) (m : CanMsg) :
    (s.rxState = .waitCf →
      (SessSame s (s.processRx m).1 ∧ NotNewMsg s m) ∨ SessEnd (s.processRx m).1 ∨
      (∃ d data, decode m.data s.addr.rx.rxPrefixSize = some d ∧ d.pdu = .cf ((s.lastSeq + 1) % 16) data ∧
        (s.processRx m).1.rxState = .waitCf ∧
        (s.processRx m).1.rxBuf = s.rxBuf ++ data.take (s.rxFrameLen - s.rxBuf.length) ∧
        (s.processRx m).1.rxFrameLen = s.rxFrameLen ∧ (s.processRx m).1.lastSeq = (s.lastSeq + 1) % 16) ∨
      (∃ d len data esc, decode m.data s.addr.rx.rxPrefixSize = some d ∧ d.pdu = .ff len data esc ∧
        (s.processRx m).1.rxState = .waitCf ∧ (s.processRx m).1.rxBuf = data ∧
        (s.processRx m).1.rxFrameLen = len ∧ (s.processRx m).1.lastSeq = 0 ∧ len ≤ s.cfg.maxFrameSize)) ∧
    (s.rxState = .idle →
      (s.processRx m).1.rxState = .idle ∨
      ∃ d len data esc, decode m.data s.addr.rx.rxPrefixSize = some d ∧ d.pdu = .ff len data esc ∧
        (s.processRx m).1.rxState = .waitCf ∧ (s.processRx m).1.rxBuf = data ∧
        (s.processRx m).1.rxFrameLen = len ∧ (s.processRx m).1.lastSeq = 0 ∧ len ≤ s.cfg.maxFrameSize) :=
  ⟨fun hw => processRx_buf s hw m, fun hi => rxIdle_buf s m hi⟩

/-- The invariant proposed in the task (`rxBuf.length < rxFrameLen` while waiting) is FALSE of the model
    and of the code: a First Frame whose announced length is not larger than the data it carries is
    accepted (there is no lower bound on FF_DL in `_process_rx`); the buffer is then already full and
    the next Consecutive Frame completes the message with none of its own bytes. `RxJust` uses `≤`. -/
theorem strict_buffer_bound_fails :
    ∃ (s : State) (m : CanMsg), RxJust s ∧ (s.processRx m).1.rxState = .waitCf ∧
      ¬ (s.processRx m).1.rxBuf.length < (s.processRx m).1.rxFrameLen :=
  ⟨State.init {} ⟨default, default⟩, { id := 0, ext := false, data := [0x10, 0x03, 1, 2, 3, 4, 5, 6] },
    RxJust.init _ _, by decide, by decide⟩

/-! ## 3b. Deliveries are justified by the traffic — whole runs -/

/-- the PDU carried by a frame for a receiver whose address prefix has `pre` bytes -/
def pduOf (pre : Nat) (m : CanMsg) : Option Pdu := (decode m.data pre).map (·.pdu)

/-- `m` starts a new message: a First Frame, or a well-formed Single Frame (a Single Frame in a CAN FD
    frame of more than 8 bytes must use the escape sequence) -/
def startsMessage (pre : Nat) (m : CanMsg) : Bool :=
  match decode m.data pre with
  | none => false
  | some d =>
    match d.pdu with
    | .ff _ _ _ => true
    | .sf _ _ esc => d.canDl ≤ 8 || esc
    | _ => false

/-- `Chain pre ms sn acc sn' acc'`: the frames `ms` contain no new message; those of its Consecutive
    Frames that are used carry the consecutive sequence numbers after `sn` (ending at `sn'`), and
    appending their data to `acc` gives `acc'`. (Frames that are neither used nor a new message — Flow
    Control frames, Consecutive Frames dropped for an RX_DL change — are skipped.) -/
inductive Chain (pre : Nat) : List CanMsg → Nat → Bytes → Nat → Bytes → Prop
  | nil (sn : Nat) (acc : Bytes) : Chain pre [] sn acc sn acc
  | use (m : CanMsg) (ms : List CanMsg) (data : Bytes) (sn : Nat) (acc : Bytes) (sn' : Nat) (acc' : Bytes) :
      pduOf pre m = some (.cf ((sn + 1) % 16) data) →
      Chain pre ms ((sn + 1) % 16) (acc ++ data) sn' acc' → Chain pre (m :: ms) sn acc sn' acc'
  | skip (m : CanMsg) (ms : List CanMsg) (sn : Nat) (acc : Bytes) (sn' : Nat) (acc' : Bytes) :
      startsMessage pre m = false → Chain pre ms sn acc sn' acc' → Chain pre (m :: ms) sn acc sn' acc'

/-- **Reference predicate** (from the property text). Payload `p` is justified by the frames received so
    far (`frames`, oldest first, the last one being the frame that triggered the delivery) when
    * the last frame is a Single Frame and `p` is its data, or
    * some earlier frame `ff` is a First Frame announcing `len ≤ max_frame_size` bytes; between it and
      the last frame no frame starts a new message and the Consecutive Frames used are in sequence
      (`Chain`); the last frame is the next in-sequence Consecutive Frame; and `p` is the First Frame data
      followed by the data of those Consecutive Frames, cut to `len`, with exactly `len` bytes. -/
def Justified (pre maxLen : Nat) (frames : List CanMsg) (p : Bytes) : Prop :=
  (∃ init m l esc, frames = init ++ [m] ∧ pduOf pre m = some (.sf l p esc)) ∨
  (∃ init ff mid m len data esc sn acc cfdata,
    frames = init ++ ff :: (mid ++ [m]) ∧ pduOf pre ff = some (.ff len data esc) ∧ len ≤ maxLen ∧
    Chain pre mid 0 data sn acc ∧ pduOf pre m = some (.cf ((sn + 1) % 16) cfdata) ∧
    p = (acc ++ cfdata).take len ∧ p.length = len)

/-- receive-side history of a schedule: the frames given to `_process_rx`, oldest first -/
def framesOf : List QStep → List CanMsg
  | [] => []
  | .frame m :: rest => m :: framesOf rest
  | _ :: rest => framesOf rest

/-- state after a schedule -/
def after (s : State) (steps : List QStep) : State := (qRun s steps).1

/-! helper lemmas for the trace theorem -/

theorem Chain.snoc_use {pre : Nat} {ms : List CanMsg} {sn : Nat} {acc : Bytes} {sn' : Nat} {acc' : Bytes}
    (h : Chain pre ms sn acc sn' acc') (m : CanMsg) (data : Bytes)
    (hm : pduOf pre m = some (.cf ((sn' + 1) % 16) data)) :
    Chain pre (ms ++ [m]) sn acc ((sn' + 1) % 16) (acc' ++ data) := by
  induction h with
  | nil sn acc => exact .use m [] data sn acc _ _ hm (.nil _ _)
  | use m' ms d sn acc sn' acc' h1 _ ih => exact .use m' _ d sn acc _ _ h1 (ih hm)
  | skip m' ms sn acc sn' acc' h1 _ ih => exact .skip m' _ sn acc _ _ h1 (ih hm)

theorem Chain.snoc_skip {pre : Nat} {ms : List CanMsg} {sn : Nat} {acc : Bytes} {sn' : Nat} {acc' : Bytes}
    (h : Chain pre ms sn acc sn' acc') (m : CanMsg) (hm : startsMessage pre m = false) :
    Chain pre (ms ++ [m]) sn acc sn' acc' := by
  induction h with
  | nil sn acc => exact .skip m [] sn acc _ _ hm (.nil _ _)
  | use m' ms d sn acc sn' acc' h1 _ ih => exact .use m' _ d sn acc _ _ h1 ih
  | skip m' ms sn acc sn' acc' h1 _ ih => exact .skip m' _ sn acc _ _ h1 ih

/-- history invariant: while a reception is in progress, the buffer is what the frames since the First
    Frame justify -/
def Hist (frames : List CanMsg) (s : State) : Prop :=
  s.rxState = .waitCf →
    ∃ init ff mid len data esc acc,
      frames = init ++ ff :: mid ∧ pduOf s.addr.rx.rxPrefixSize ff = some (.ff len data esc) ∧
      len ≤ s.cfg.maxFrameSize ∧ s.rxFrameLen = len ∧
      Chain s.addr.rx.rxPrefixSize mid 0 data s.lastSeq acc ∧ s.rxBuf = acc.take len

theorem pduOf_of_decode {pre : Nat} {m : CanMsg} {d : Decoded} (h : decode m.data pre = some d) :
    pduOf pre m = some d.pdu := by simp [pduOf, h]

theorem startsMessage_of_notNew {s : State} {m : CanMsg} (h : NotNewMsg s m) :
    startsMessage s.addr.rx.rxPrefixSize m = false := by
  unfold startsMessage
  split
  · rfl
  · next d hd =>
    obtain ⟨h1, h2⟩ := h d hd
    split
    · next hp => exact absurd hp (h1 _ _ _)
    · next hp =>
      obtain ⟨h8, he⟩ := h2 _ _ _ hp
      simp [he]; omega
    · rfl

theorem ff_data_le {pre : Nat} {m : CanMsg} {d : Decoded} {len : Nat} {data : Bytes} {esc : Bool}
    (hd : decode m.data pre = some d) (hp : d.pdu = .ff len data esc) : data.length ≤ len := by
  unfold decode at hd
  split at hd
  · simp at hd
  · split at hd
    · simp at hd
    · next p hb =>
      simp only [Option.some.injEq] at hd
      subst hd
      simp only at hp
      subst hp
      exact Safe.ff_data_len _ _ _ _ hb

/-- one received frame keeps the history invariant -/
theorem Hist.frame {frames : List CanMsg} {s : State} (h : Hist frames s) (m : CanMsg) :
    Hist (frames ++ [m]) (s.processRx m).1 := by
  have hf := RxFrame.processRx s m
  intro hw'
  rw [hf.addr, hf.cfg]
  have hnew : ∀ d len data esc, decode m.data s.addr.rx.rxPrefixSize = some d → d.pdu = .ff len data esc →
      (s.processRx m).1.rxBuf = data → (s.processRx m).1.rxFrameLen = len → (s.processRx m).1.lastSeq = 0 →
      len ≤ s.cfg.maxFrameSize →
      ∃ init ff mid len data esc acc,
        frames ++ [m] = init ++ ff :: mid ∧ pduOf s.addr.rx.rxPrefixSize ff = some (.ff len data esc) ∧
        len ≤ s.cfg.maxFrameSize ∧ (s.processRx m).1.rxFrameLen = len ∧
        Chain s.addr.rx.rxPrefixSize mid 0 data (s.processRx m).1.lastSeq acc ∧
        (s.processRx m).1.rxBuf = acc.take len := by
    intro d len data esc hd hp h2 h3 h4 h5
    refine ⟨frames, m, [], len, data, esc, data, rfl, ?_, h5, h3, ?_, ?_⟩
    · rw [pduOf_of_decode hd, hp]
    · rw [h4]; exact .nil _ _
    · rw [h2, List.take_of_length_le (ff_data_le hd hp)]
  cases hst : s.rxState with
  | idle =>
    rcases rxIdle_buf s m hst with h' | ⟨d, len, data, esc, hd, hp, h1, h2, h3, h4, h5⟩
    · rw [h'] at hw'; cases hw'
    · exact hnew d len data esc hd hp h2 h3 h4 h5
  | waitCf =>
    obtain ⟨init, ff, mid, len, data, esc, acc, e1, e2, e3, e4, e5, e6⟩ := h hst
    rcases processRx_buf s hst m with ⟨⟨h1, h2, h3, h4⟩, hn⟩ | h' | ⟨d, cfd, hd, hp, h1, h2, h3, h4⟩ |
        ⟨d, len', data', esc', hd, hp, h1, h2, h3, h4, h5⟩
    · refine ⟨init, ff, mid ++ [m], len, data, esc, acc, by simp [e1], e2, e3, h3.trans e4, ?_, h2.trans e6⟩
      rw [h4]; exact e5.snoc_skip m (startsMessage_of_notNew hn)
    · rw [h'.1] at hw'; cases hw'
    · refine ⟨init, ff, mid ++ [m], len, data, esc, acc ++ cfd, by simp [e1], e2, e3, h3.trans e4, ?_, ?_⟩
      · rw [h4]; exact e5.snoc_use m cfd (by rw [pduOf_of_decode hd, hp])
      · rw [h2, e6, e4, List.take_append, List.length_take]
        congr 2
        omega
    · exact hnew d len' data' esc' hd hp h2 h3 h4 h5

theorem Hist.of_idle (frames : List CanMsg) {s : State} (h : s.rxState = .idle) : Hist frames s := by
  intro hw; rw [h] at hw; cases hw

theorem Hist.tx {frames : List CanMsg} {s : State} (h : Hist frames s) : Hist frames s.processTx.1 := by
  have f := TxFrame.processTx s
  intro hw
  rw [f.addr, f.cfg, f.rxFrameLen, f.lastSeq, f.rxBuf]
  exact h (f.rxState ▸ hw)

theorem Hist.timeout {frames : List CanMsg} {s : State} (h : Hist frames s) :
    Hist frames s.checkTimeoutsRx := by
  unfold checkTimeoutsRx
  split
  · exact Hist.of_idle _ rfl
  · exact h

theorem framesOf_append (a b : List QStep) : framesOf (a ++ b) = framesOf a ++ framesOf b := by
  induction a with
  | nil => rfl
  | cons x rest ih => cases x <;> simp [framesOf, ih]

theorem after_append (s : State) (a b : List QStep) : after s (a ++ b) = after (after s a) b := by
  induction a generalizing s with
  | nil => rfl
  | cons x rest ih => cases x <;> simp [after, qRun] <;> exact ih _

theorem after_cfg_addr (steps : List QStep) : ∀ (s : State),
    (after s steps).cfg = s.cfg ∧ (after s steps).addr = s.addr := by
  induction steps with
  | nil => intro s; exact ⟨rfl, rfl⟩
  | cons x rest ih =>
    intro s
    cases x with
    | frame m =>
      have f := RxFrame.processRx s m
      have := ih (s.processRx m).1
      exact ⟨this.1.trans f.cfg, this.2.trans f.addr⟩
    | tx =>
      have f := TxFrame.processTx s
      have := ih s.processTx.1
      exact ⟨this.1.trans f.cfg, this.2.trans f.addr⟩
    | timeout =>
      have f := RxFrame.checkTimeoutsRx s
      have := ih s.checkTimeoutsRx
      exact ⟨this.1.trans f.cfg, this.2.trans f.addr⟩

theorem Hist.run (steps : List QStep) : ∀ (frames : List CanMsg) (s : State), Hist frames s →
    Hist (frames ++ framesOf steps) (after s steps) := by
  induction steps with
  | nil => intro frames s h; simpa [framesOf, after, qRun] using h
  | cons x rest ih =>
    intro frames s h
    cases x with
    | frame m =>
      have := ih _ _ (h.frame m)
      simpa [framesOf, after, qRun] using this
    | tx => exact ih _ _ h.tx
    | timeout => exact ih _ _ h.timeout

/-- **Deliveries are justified by the traffic (whole runs).** Start from a state with no reception in
    progress (e.g. the initial state), let the layer go through ANY interleaving of received frames,
    `_process_tx` calls and timeout checks, then receive one more frame `m`. If that frame delivers a
    payload `p` (to the rx queue that `recv()` pops), then `p` is justified by the frames received so
    far in the sense of the reference predicate `Justified`. -/
theorem justified (s : State) (hi : s.rxState = .idle) (steps : List QStep) (m : CanMsg) (p : Bytes)
    (hd : Delivered (after s steps) ((after s steps).processRx m).1 p) :
    Justified s.addr.rx.rxPrefixSize s.cfg.maxFrameSize (framesOf steps ++ [m]) p := by
  have hH : Hist (framesOf steps) (after s steps) := by
    simpa using Hist.run steps [] s (Hist.of_idle [] hi)
  obtain ⟨hc, ha⟩ := after_cfg_addr steps s
  generalize after s steps = sk at *
  have huniq : ∀ p', Delivered sk (sk.processRx m).1 p' → p = p' := by
    intro p' h'
    have := hd.1.symm.trans h'.1
    simpa using this
  rcases processRx_deliv sk m with h0 | ⟨d, l, p0, esc, hdec, hp, hdel⟩ | ⟨d, cfd, hdec, hp, hw, hlen, hdel⟩
  · have := hd.1.symm.trans h0.1
    simp at this
  · have := huniq _ hdel
    subst this
    exact .inl ⟨framesOf steps, m, l, esc, rfl, by rw [← ha, pduOf_of_decode hdec, hp]⟩
  · have := huniq _ hdel
    subst this
    obtain ⟨init, ff, mid, len, data, esc, acc, e1, e2, e3, e4, e5, e6⟩ := hH hw
    rw [ha] at e2 e5
    rw [hc] at e3
    have hp' : sk.rxBuf ++ List.take (sk.rxFrameLen - sk.rxBuf.length) cfd = (acc ++ cfd).take len := by
      rw [e6, e4, List.take_append, List.length_take]
      congr 2
      omega
    refine .inr ⟨init, ff, mid, m, len, data, esc, sk.lastSeq, acc, cfd, by simp [e1], e2, e3, e5,
      by rw [← ha, pduOf_of_decode hdec, hp], hp', ?_⟩
    have h1 : ((acc ++ cfd).take len).length ≤ len := by simp [List.length_take]; omega
    rw [hp', e4] at hlen
    rw [hp']
    omega

/-! ## 4. Emission while the user sends nothing -/

/-- The quiet-sender condition holds initially and is kept by every step of `process()`. -/
theorem quiet_invariant :
    (∀ c a, Quiet (State.init c a)) ∧
    (∀ s, Quiet s → (∀ m, Quiet (s.processRx m).1) ∧ Quiet s.checkTimeoutsRx ∧ Quiet s.processTx.1 ∧
      ∀ doRx doTx, Quiet (s.process doRx doTx).1) :=
  ⟨Quiet.init, fun s h => ⟨fun m => h.of_rxFrame (RxFrame.processRx s m),
    h.of_rxFrame (RxFrame.checkTimeoutsRx s), h.processTx.1, fun doRx doTx => (h.process doRx doTx).1⟩⟩

/-- **One frame per request.** While the user sends nothing, `_process_tx` outputs a frame only if a
    Flow Control was requested (`pending_flow_control_tx`), the layer is not in listen mode, and the
    frame is exactly `_make_flow_control` of the stored status; and the request is consumed
    (`pendingFc` is false afterwards — that part holds in every state). In particular a received
    Flow Control frame (`lastFc`) never makes an idle sender emit anything. -/
theorem quiet_processTx (s : State) (h : Quiet s) :
    (∀ msg, s.processTx.2.1 = some msg →
      s.pendingFc = true ∧ s.cfg.listen = false ∧
        ∃ st, s.pendingFcStatus = some st ∧ makeFlowControl s.cfg s.addr st = some msg) ∧
    s.processTx.1.pendingFc = false :=
  ⟨h.processTx.2, processTx_clears s⟩

/-- no request, no frame -/
theorem quiet_silent (s : State) (h : Quiet s) (hp : s.pendingFc = false) : s.processTx.2.1 = none := by
  cases ho : s.processTx.2.1 with
  | none => rfl
  | some msg => have := (h.processTx.2 msg ho).1; simp [hp] at this

/-- A Flow Control is requested only by a First Frame or by a Consecutive Frame that completes a
    block (`requestsFc`), and with status ContinueToSend (0) or Overflow (2) only. -/
theorem fc_request_origin (s : State) (m : CanMsg) :
    ((s.processRx m).1.pendingFc = true → s.pendingFc = true ∨ requestsFc s m = true) ∧
    ((s.processRx m).1.pendingFcStatus = s.pendingFcStatus ∨
      (s.processRx m).1.pendingFcStatus = some 0 ∨ (s.processRx m).1.pendingFcStatus = some 2) :=
  ⟨processRx_pend' s m, processRx_pendStatus s m⟩

/-- **Counting.** Along any interleaving of received frames, `_process_tx` calls and timeout checks of a
    quiet layer: (frames emitted) + (request still pending) ≤ (frames that requested a Flow
    Control) + (request pending at the start). From the initial state: emitted ≤ requests. -/
theorem fc_count (s : State) (h : Quiet s) (steps : List QStep) :
    (qRun s steps).2.1 + pendCount (qRun s steps).1 ≤ (qRun s steps).2.2 + pendCount s :=
  qRun_count steps s h

theorem fc_count_init (c : Cfg) (a : Addr) (steps : List QStep) :
    (qRun (State.init c a) steps).2.1 ≤ (qRun (State.init c a) steps).2.2 := by
  have := fc_count _ (Quiet.init c a) steps
  have h0 : pendCount (State.init c a) = 0 := rfl
  omega

/-- **On the wire.** While the user sends nothing, every frame `process()` hands to `txfn` is a Flow
    Control frame of this layer. -/
theorem quiet_process_only_fc (s : State) (h : Quiet s) (doRx doTx : Bool) (t : Nat) (m : CanMsg)
    (hm : Ev.tx t m ∈ (s.process doRx doTx).1.log) : Ev.tx t m ∈ s.log ∨ IsFc s.cfg s.addr m :=
  (h.process doRx doTx).2 t m hm

/-! ## Non-vacuity -/

def exHalf : Half :=
  { mode := .n11, txid := some 0x123, rxid := some 0x456, ta := none, sa := none, ae := none, physId := 0,
    funcId := 0, rxOnly := false, txOnly := false }
def exAddr : Addr := ⟨exHalf, exHalf⟩
def exFf : CanMsg := { id := 0x456, ext := false, data := [0x10, 0x0A, 1, 2, 3, 4, 5, 6] }
def exCf : CanMsg := { id := 0x456, ext := false, data := [0x21, 7, 8, 9, 10, 0xCC, 0xCC, 0xCC] }
def exSf : CanMsg := { id := 0x456, ext := false, data := [0x03, 7, 8, 9] }
def exJunk : CanMsg := { id := 0x456, ext := false, data := [0xF0, 1] }
/-- the state after the First Frame -/
def exMid : State := ((State.init {} exAddr).processRx exFf).1

example : ({} : Cfg).valid = true := by decide
example : Safe (State.init {} exAddr) := safe_init _ _ (by decide)
example : Safe exMid := (safe_init _ _ (by decide)).processRx _
example : exMid.rxState = .waitCf ∧ exMid.pendingFc = true ∧ RxJust exMid ∧ Quiet exMid :=
  ⟨by decide, by decide, (RxJust.init _ _).processRx _, (Quiet.init _ _).of_rxFrame (RxFrame.processRx _ _)⟩
/-- the Consecutive Frame completes the message: delivered, and justified (second disjunct) -/
example : Delivered exMid (exMid.processRx exCf).1 [1, 2, 3, 4, 5, 6, 7, 8, 9, 10] := by
  constructor <;> decide
example : JustifiedBy exMid exCf [1, 2, 3, 4, 5, 6, 7, 8, 9, 10] := by
  refine .inr ⟨by decide, [7, 8, 9, 10, 0xCC, 0xCC, 0xCC], 8, 8, by decide, by decide, by decide, by decide⟩
/-- a Single Frame is delivered and justified (first disjunct) -/
example : Delivered (State.init {} exAddr) ((State.init {} exAddr).processRx exSf).1 [7, 8, 9] := by
  constructor <;> decide
example : JustifiedBy (State.init {} exAddr) exSf [7, 8, 9] := .inl ⟨3, false, 4, 8, by decide⟩
/-- garbage on the bus: an error event, no delivery, no exception -/
example : (exMid.processRx exJunk).1.log.head? = some (.err 0 .InvalidCanData) ∧
    NoDelivery exMid (exMid.processRx exJunk).1 ∧ (exMid.processRx exJunk).1.exc = none := by
  refine ⟨by decide, ⟨by decide, by decide⟩, by decide⟩
/-- the quiet layer answers the First Frame with exactly one Flow Control frame -/
example : exMid.processTx.2.1 = some { id := 0x123, ext := false, data := [0x30, 8, 0], dlc := 3 } := by
  decide
/-- the whole-run theorem applies to the run "First Frame, Flow Control sent, Consecutive Frame" -/
example : Justified 0 4095 [exFf, exCf] [1, 2, 3, 4, 5, 6, 7, 8, 9, 10] :=
  justified (State.init {} exAddr) rfl [.frame exFf, .tx] exCf _ (by constructor <;> decide)
/-- and `Justified` for it unfolds to the expected witness: First Frame data, then the Consecutive Frame -/
example : Justified 0 4095 [exFf, exCf] [1, 2, 3, 4, 5, 6, 7, 8, 9, 10] :=
  .inr ⟨[], exFf, [], exCf, 10, [1, 2, 3, 4, 5, 6], false, 0, [1, 2, 3, 4, 5, 6], [7, 8, 9, 10, 0xCC, 0xCC, 0xCC],
    rfl, by decide, by decide, .nil _ _, by decide, by decide, by decide⟩
example : requestsFc (State.init {} exAddr) exFf = true := by decide
example : (qRun (State.init {} exAddr) [.frame exFf, .tx, .tx, .frame exCf, .tx]).2 = (1, 1) := by decide
example : (({ State.init {} exAddr with inbox := [(0, exFf), (3, exJunk), (5, exCf)] } : State).process true
    true).1.exc = none := by decide

end Isotp.C05

#print axioms Isotp.C05.processRx_no_raise
#print axioms Isotp.C05.safe_init
#print axioms Isotp.C05.prefix_le_one
#print axioms Isotp.C05.makeTxMsg_never_raises
#print axioms Isotp.C05.safe_steps
#print axioms Isotp.C05.processTx_no_raise
#print axioms Isotp.C05.process_no_raise
#print axioms Isotp.C05.loops_no_raise
#print axioms Isotp.C05.receiver_never_raises
#print axioms Isotp.C05.log_prepend
#print axioms Isotp.C05.internal_kinds
#print axioms Isotp.C05.rxJust_invariant
#print axioms Isotp.C05.rxJust_any_use
#print axioms Isotp.C05.delivery_justified
#print axioms Isotp.C05.rxQueue_other_steps
#print axioms Isotp.C05.buffer_step
#print axioms Isotp.C05.strict_buffer_bound_fails
#print axioms Isotp.C05.justified
#print axioms Isotp.C05.quiet_invariant
#print axioms Isotp.C05.quiet_processTx
#print axioms Isotp.C05.quiet_silent
#print axioms Isotp.C05.fc_request_origin
#print axioms Isotp.C05.fc_count
#print axioms Isotp.C05.fc_count_init
#print axioms Isotp.C05.quiet_process_only_fc
