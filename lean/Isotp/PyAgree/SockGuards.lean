import Isotp.PyAgree.EvalLemmas
import Isotp.Sock
/-!
  Source agreement for the state guards of the SocketCAN wrapper (`isotp/tpsock/__init__.py`): `send` / `recv` raise `RuntimeError`
  unless the socket is bound (model: `Sock.ioGuard`), and otherwise hand the call to the kernel socket unchanged; `close` closes the
  kernel socket and leaves the wrapper unbound, closed and without address (model: `Sock.close`).  For every wrapper state.
-/
namespace Isotp.PyAgree.SockGuards
open Isotp Isotp.Py Isotp.PyAgree

/-- the wrapper attributes the guards read, on top of anything else -/
def guardEnv (s : Sock.Sock) (base : Env) : Env := fun k =>
  if k = "self.bound" then some (pbool s.bound) else base k

theorem guardEnv_bound (s : Sock.Sock) (base : Env) : guardEnv s base "self.bound" = some (pbool s.bound) := by
  simp [guardEnv]

/-- `send(data, flags)`: `RuntimeError` exactly when the model's guard refuses; otherwise whatever the kernel socket's `send` returns, for the
    same two arguments -/
theorem socket_send_agrees (M : Meths) (s : Sock.Sock) (base : Env) (d f : PV)
    (hd : base "data" = some d) (hf : base "flags" = some f) :
    (runFn M (guardEnv s base) Src.socket_send).map (·.1) =
      match Sock.ioGuard s with
      | some _ => .error (.exc .RuntimeError)
      | none => (match evalBuiltin "self._socket.send" [d, f] with
                 | some r => r
                 | none => M.fn "self._socket.send" [d, f] (guardEnv s base)) := by
  have hd' : guardEnv s base "data" = some d := by simp [guardEnv, hd]
  have hf' : guardEnv s base "flags" = some f := by simp [guardEnv, hf]
  cases hb : s.bound <;>
    simp [runFn, Src.socket_send, execBlock, execStmt, eval, evalArgs, guardEnv_bound, hd', hf', hb, Sock.ioGuard, evalBuiltin]
  cases M.fn "self._socket.send" [d, f] (guardEnv s base) <;> simp

theorem socket_recv_agrees (M : Meths) (s : Sock.Sock) (base : Env) (b f : PV)
    (hb' : base "bufsize" = some b) (hf : base "flags" = some f) :
    (runFn M (guardEnv s base) Src.socket_recv).map (·.1) =
      match Sock.ioGuard s with
      | some _ => .error (.exc .RuntimeError)
      | none => (match evalBuiltin "self._socket.recv" [b, f] with
                 | some r => r
                 | none => M.fn "self._socket.recv" [b, f] (guardEnv s base)) := by
  have h1 : guardEnv s base "bufsize" = some b := by simp [guardEnv, hb']
  have h2 : guardEnv s base "flags" = some f := by simp [guardEnv, hf]
  cases hb : s.bound <;>
    simp [runFn, Src.socket_recv, execBlock, execStmt, eval, evalArgs, guardEnv_bound, h1, h2, hb, Sock.ioGuard, evalBuiltin]
  cases M.fn "self._socket.recv" [b, f] (guardEnv s base) <;> simp

/-- `close()`: the kernel socket is closed first (a primitive `proc`), then `bound := False`, `closed := True`, `address := None` - the
    three fields the model's `Sock.close` sets (`bound := false`, `closed := true`; the model keeps no address) -/
theorem socket_close_agrees (M : Meths) (env env1 : Env) (hc : M.proc "self._socket.close" [] env = .ok env1) :
    runFn M env Src.socket_close =
      .ok (pnone, ((env1.set "self.bound" (pbool false)).set "self.closed" (pbool true)).set "self.address" pnone) := by
  simp [runFn, Src.socket_close, execBlock, execStmt, eval, evalArgs, evalBuiltin, hc]

/-- a failing kernel `close` propagates and nothing is marked closed -/
theorem socket_close_fails (M : Meths) (env : Env) (e : PErr) (hc : M.proc "self._socket.close" [] env = .error e) :
    runFn M env Src.socket_close = .error e := by
  simp [runFn, Src.socket_close, execBlock, execStmt, evalArgs, evalBuiltin, hc]

example : Sock.ioGuard { bound := true } = none ∧ Sock.ioGuard {} = some .RuntimeError := by decide

end Isotp.PyAgree.SockGuards

#print axioms Isotp.PyAgree.SockGuards.socket_send_agrees
#print axioms Isotp.PyAgree.SockGuards.socket_recv_agrees
#print axioms Isotp.PyAgree.SockGuards.socket_close_agrees
#print axioms Isotp.PyAgree.SockGuards.socket_close_fails
