import Isotp.Proofs.NetSafety
/-
  Network-level C01, "neither side reports an error" — part 1: vocabulary and counting.

  The open point left by `Props/C01net.lean` is that no `UnexpectedFlowControlError` is reported in an exchange
  without timeouts. The proof is a COUNTING argument over the two histories.

  * The data frames a layer emits are a prefix of the stream of the reference segmentations of its accepted
    payloads (`Progress`); the frames the peer has processed are a prefix of that prefix (FIFO links).
  * A position of the stream is an FC POINT (`markAt`) for a receiver with block size `bs` when the frame at that
    position makes the receiver request a ContinueToSend: a First Frame, or the `k`-th Consecutive Frame of a message
    with `k % bs = 0` that does not complete the message. `need bs lens n` counts the FC points among the first `n`
    positions (`lens`: number of frames of each message of the stream).
  * RECEIVER LAW (`RcvFc`): (Flow Control frames emitted) + (Flow Control requested, `pendingFc`) ≤ `need` at the
    number of data frames processed.
  * SENDER LAW (`SndFc.sl`): `need` at the number of data frames emitted + (Flow Control in the mailbox) ≤
    (Flow Control frames read) + (transmit FSM is in WAIT_FC); together with the block discipline (`tbT`, `tbW`:
    `txBlockCnt`, `remoteBs` against the position in the current message) and `mail` (a Flow Control in the mailbox
    carries the peer's block size).
  * FIFO gives (Flow Control frames read by i) ≤ (emitted by j) ≤ need(processed by j) ≤ need(emitted by i), hence
    "Flow Control in the mailbox ⇒ WAIT_FC": `handleFc` never takes the `txState = idle` branch.
  Both laws are inequalities, so they are preserved by EVERY micro-step of `process()` (no control-flow argument
  about the rx / tx alternation is needed).
-/
namespace Isotp.NetP
open Isotp Isotp.State

/-! ### FC points of a stream of messages -/

/-- the frame number `k` (0-based) of a message of `len` frames makes a receiver with block size `bs` request a
    Flow Control: it is not the last frame, and it is the First Frame or completes a block -/
def fcPt (bs len k : Nat) : Bool := decide (k + 1 < len) && (k == 0 || (decide (0 < bs) && k % bs == 0))

/-- position inside its message of stream position `e` (`lens`: frames per message) -/
def posIn : List Nat → Nat → Nat
  | [], e => e
  | l :: ls, e => if e < l then e else posIn ls (e - l)

/-- number of frames of the message that contains stream position `e` (0 beyond the end) -/
def lenAt : List Nat → Nat → Nat
  | [], _ => 0
  | l :: ls, e => if e < l then l else lenAt ls (e - l)

/-- stream position `e` is an FC point -/
def markAt (bs : Nat) (lens : List Nat) (e : Nat) : Bool := fcPt bs (lenAt lens e) (posIn lens e)

/-- number of FC points among the first `n` positions -/
def need (bs : Nat) (lens : List Nat) (n : Nat) : Nat := ((List.range n).filter (markAt bs lens)).length

theorem need_zero (bs : Nat) (lens : List Nat) : need bs lens 0 = 0 := rfl

theorem need_succ (bs : Nat) (lens : List Nat) (n : Nat) :
    need bs lens (n + 1) = need bs lens n + (if markAt bs lens n then 1 else 0) := by
  unfold need
  rw [List.range_succ, List.filter_append, List.length_append]
  cases h : markAt bs lens n <;> simp [h]

theorem need_mono (bs : Nat) (lens : List Nat) {m n : Nat} (h : m ≤ n) : need bs lens m ≤ need bs lens n := by
  induction n with
  | zero => have : m = 0 := by omega
            subst this; exact Nat.le_refl _
  | succ n ih =>
    by_cases hm : m = n + 1
    · subst hm; exact Nat.le_refl _
    · have := ih (by omega)
      rw [need_succ]; omega

theorem need_le_succ (bs : Nat) (lens : List Nat) (n : Nat) : need bs lens (n + 1) ≤ need bs lens n + 1 := by
  rw [need_succ]; split <;> omega

/-- total number of frames of the stream -/
def total (lens : List Nat) : Nat := lens.sum

theorem posIn_append_lt (lens more : List Nat) : ∀ e, e < total lens → posIn (lens ++ more) e = posIn lens e := by
  induction lens with
  | nil => intro e h; simp [total] at h
  | cons l ls ih =>
    intro e h
    simp only [List.cons_append, posIn]
    split
    · rfl
    · exact ih _ (by simp only [total, List.sum_cons] at h ⊢; omega)

theorem lenAt_append_lt (lens more : List Nat) : ∀ e, e < total lens → lenAt (lens ++ more) e = lenAt lens e := by
  induction lens with
  | nil => intro e h; simp [total] at h
  | cons l ls ih =>
    intro e h
    simp only [List.cons_append, lenAt]
    split
    · rfl
    · exact ih _ (by simp only [total, List.sum_cons] at h ⊢; omega)

theorem lenAt_ge (lens : List Nat) : ∀ e, total lens ≤ e → lenAt lens e = 0 := by
  induction lens with
  | nil => intro e _; rfl
  | cons l ls ih =>
    intro e h
    simp only [total, List.sum_cons] at h
    simp only [lenAt]
    rw [if_neg (by omega)]
    exact ih _ (by simp only [total]; omega)

theorem fcPt_zero_len (bs k : Nat) : fcPt bs 0 k = false := by simp [fcPt]

theorem markAt_ge (bs : Nat) (lens : List Nat) (e : Nat) (h : total lens ≤ e) : markAt bs lens e = false := by
  unfold markAt; rw [lenAt_ge lens e h, fcPt_zero_len]

theorem markAt_append_lt (bs : Nat) (lens more : List Nat) (e : Nat) (h : e < total lens) :
    markAt bs (lens ++ more) e = markAt bs lens e := by
  unfold markAt; rw [posIn_append_lt _ _ _ h, lenAt_append_lt _ _ _ h]

/-- appending messages does not remove FC points -/
theorem markAt_append_imp (bs : Nat) (lens more : List Nat) (e : Nat) (h : markAt bs lens e = true) :
    markAt bs (lens ++ more) e = true := by
  by_cases he : e < total lens
  · rw [markAt_append_lt _ _ _ _ he]; exact h
  · rw [markAt_ge bs lens e (by omega)] at h; cases h

theorem need_append_ge (bs : Nat) (lens more : List Nat) (n : Nat) : need bs lens n ≤ need bs (lens ++ more) n := by
  induction n with
  | zero => exact Nat.le_refl _
  | succ n ih =>
    rw [need_succ, need_succ]
    by_cases hm : markAt bs lens n = true
    · rw [hm, markAt_append_imp _ _ _ _ hm]; simp; exact ih
    · have : markAt bs lens n = false := by simpa using hm
      rw [this]; simp only [Bool.false_eq_true, if_false, Nat.add_zero]
      split <;> omega

theorem need_append_le (bs : Nat) (lens more : List Nat) (n : Nat) (h : n ≤ total lens) :
    need bs (lens ++ more) n = need bs lens n := by
  induction n with
  | zero => rfl
  | succ n ih =>
    rw [need_succ, need_succ, ih (by omega), markAt_append_lt _ _ _ _ (by omega)]

/-- position `Σ dn + k` with `k < l` lies in the message of `l` frames that follows `dn` -/
theorem posIn_mid (dn : List Nat) (l : Nat) (rest : List Nat) (k : Nat) (hk : k < l) :
    posIn (dn ++ l :: rest) (total dn + k) = k ∧ lenAt (dn ++ l :: rest) (total dn + k) = l := by
  induction dn with
  | nil => simp [posIn, lenAt, total, hk]
  | cons d ds ih =>
    simp only [List.cons_append, posIn, lenAt, total, List.sum_cons]
    rw [if_neg (by omega), if_neg (by omega)]
    have e : d + ds.sum + k - d = total ds + k := by simp only [total]; omega
    rw [e]; exact ih

theorem posIn_zero (lens : List Nat) : posIn lens 0 = 0 := by
  induction lens with
  | nil => rfl
  | cons l ls ih => simp only [posIn]; split <;> simp [ih]

/-- the end of the stream is position 0 of whatever comes next -/
theorem posIn_cons_add (l : Nat) (ls : List Nat) (x : Nat) : posIn (l :: ls) (l + x) = posIn ls x := by
  simp only [posIn]
  rw [if_neg (by omega), Nat.add_sub_cancel_left]

theorem posIn_total (lens : List Nat) : posIn lens (total lens) = 0 := by
  induction lens with
  | nil => rfl
  | cons l ls ih =>
    have : total (l :: ls) = l + total ls := by simp [total]
    rw [this, posIn_cons_add]; exact ih

/-- one step forward inside a message -/
theorem posIn_succ_in (lens : List Nat) : ∀ e, posIn lens e + 1 < lenAt lens e →
    posIn lens (e + 1) = posIn lens e + 1 ∧ lenAt lens (e + 1) = lenAt lens e := by
  induction lens with
  | nil => intro e h; simp [lenAt] at h
  | cons l ls ih =>
    intro e h
    simp only [posIn, lenAt] at h ⊢
    by_cases he : e < l
    · rw [if_pos he] at h
      rw [if_pos he] at h
      rw [if_pos (by omega : e + 1 < l), if_pos he, if_pos (by omega : e + 1 < l), if_pos he]
      exact ⟨rfl, rfl⟩
    · rw [if_neg he] at h
      rw [if_neg he] at h
      rw [if_neg (by omega : ¬ e + 1 < l), if_neg he, if_neg (by omega : ¬ e + 1 < l), if_neg he]
      have : e + 1 - l = (e - l) + 1 := by omega
      rw [this]
      exact ih _ h

/-- the step from the last frame of a message leads to position 0 -/
theorem posIn_succ_last (lens : List Nat) : ∀ e, posIn lens e + 1 = lenAt lens e → posIn lens (e + 1) = 0 := by
  induction lens with
  | nil => intro e h; simp [lenAt] at h
  | cons l ls ih =>
    intro e h
    simp only [posIn, lenAt] at h ⊢
    by_cases he : e < l
    · rw [if_pos he, if_pos he] at h
      rw [if_neg (by omega : ¬ e + 1 < l)]
      have : e + 1 - l = 0 := by omega
      rw [this]; exact posIn_zero ls
    · rw [if_neg he, if_neg he] at h
      rw [if_neg (by omega : ¬ e + 1 < l)]
      have : e + 1 - l = (e - l) + 1 := by omega
      rw [this]
      exact ih _ h

/-- inside the stream the position is inside its message -/
theorem posIn_lt_lenAt (lens : List Nat) : ∀ e, e < total lens → posIn lens e < lenAt lens e := by
  induction lens with
  | nil => intro e h; simp [total] at h
  | cons l ls ih =>
    intro e h
    simp only [posIn, lenAt]
    split
    · assumption
    · exact ih _ (by simp only [total, List.sum_cons] at h ⊢; omega)

/-! ### block arithmetic -/

theorem succ_mod_of_pred (K bs c : Nat) (hK : 1 ≤ K) (h : (K - 1) % bs = c) : K % bs = (c + 1) % bs := by
  obtain ⟨j, rfl⟩ : ∃ j, K = j + 1 := ⟨K - 1, by omega⟩
  rw [Nat.add_sub_cancel] at h
  rw [← h, Nat.mod_add_mod]

theorem mod_self_of_le (c bs : Nat) (_hpos : 0 < bs) (hle : c + 1 ≤ bs) : (c + 1) % bs = 0 ↔ c + 1 = bs := by
  constructor
  · intro h
    by_cases he : c + 1 = bs
    · exact he
    · rw [Nat.mod_eq_of_lt (by omega)] at h; omega
  · intro h; rw [h, Nat.mod_self]

/-! ### counting Flow Control frames -/

/-- number of frames with N_PCI type 3 (`k`: length of the address prefix) -/
def fcCount (k : Nat) (ms : List CanMsg) : Nat := (ms.filter (isFc k)).length

theorem fcCount_append (k : Nat) (a b : List CanMsg) : fcCount k (a ++ b) = fcCount k a + fcCount k b := by
  simp [fcCount]

theorem fcCount_nil (k : Nat) : fcCount k [] = 0 := rfl

theorem fcCount_singleton (k : Nat) (m : CanMsg) : fcCount k [m] = if isFc k m then 1 else 0 := by
  simp only [fcCount, List.filter_cons, List.filter_nil]
  split <;> rfl

theorem fcCount_le_of_prefix (k : Nat) {a b : List CanMsg} (h : a <+: b) : fcCount k a ≤ fcCount k b := by
  obtain ⟨t, rfl⟩ := h
  rw [fcCount_append]; omega

/-- the emitted frames split into data frames and Flow Control frames -/
theorem length_txOf_split (k : Nat) (evs : List Ev) :
    (Net.txOf evs).length = (dataOut k evs).length + fcCount k (Net.txOf evs) := by
  unfold dataOut fcCount
  rw [List.length_map]
  induction Net.txOf evs with
  | nil => rfl
  | cons m ms ih =>
    simp only [List.filter_cons]
    cases isFc k m <;> simp <;> omega

/-- data fields of the frames of a list that pass the address filter of `a` and are not Flow Control -/
def fedsOf (a : Addr) (ms : List CanMsg) : List Bytes :=
  (ms.filter (fun m => a.rx.isForMe m && !isFc a.rx.rxPrefixSize m)).map (·.data)

theorem fed_eq_fedsOf (a : Addr) (evs : List Ev) : fed a evs = fedsOf a (rxOf evs) := rfl

theorem fedsOf_append (a : Addr) (x y : List CanMsg) : fedsOf a (x ++ y) = fedsOf a x ++ fedsOf a y := by
  simp [fedsOf]

theorem fedsOf_seen (a : Addr) (s : State) (L : List Ev) :
    fedsOf a (seen s L) = fed a (s.log ++ L).reverse ++ fedsOf a (s.inbox.map (·.2)) := by
  unfold seen; rw [fedsOf_append]; rfl

/-- frames per message of the stream of the accepted payloads `ps` of the sender (`c`, `a`) -/
def lensOf (c : Cfg) (a : Addr) (ps : List Bytes) : List Nat := ps.map (fun p => (segA c a p).length)

theorem lensOf_append (c : Cfg) (a : Addr) (x y : List Bytes) : lensOf c a (x ++ y) = lensOf c a x ++ lensOf c a y := by
  simp [lensOf]

theorem total_lensOf (c : Cfg) (a : Addr) (ps : List Bytes) :
    total (lensOf c a ps) = (Compose.stream (segA c a) ps).length := by
  induction ps with
  | nil => rfl
  | cons p ps ih =>
    simp only [lensOf, List.map_cons, total, List.sum_cons, Compose.stream_cons, List.length_append] at ih ⊢
    rw [← ih]

/-! ### the two laws -/

/-- what a layer knows about a Flow Control frame it reads: it carries the peer's block size -/
def FcBs (a : Addr) (bs : Nat) (m : CanMsg) : Prop :=
  a.rx.isForMe m = true → ∀ st b stm cdl rdl, decode m.data a.rx.rxPrefixSize = some ⟨.fc st b stm, cdl, rdl⟩ → b = bs

/-- **Sender law** of the layer (`c`, `a`) towards a peer with block size `bs`. `L`: events of the earlier operations
    (newest first), `ps`: payloads accepted so far. -/
structure SndFc (c : Cfg) (a : Addr) (bs : Nat) (s : State) (L : List Ev) (ps : List Bytes) : Prop where
  /-- FC points among the emitted data frames + Flow Control in the mailbox ≤ Flow Control frames read + WAIT_FC -/
  sl : need bs (lensOf c a ps) (dataOut a.tx.txPrefix.length (s.log ++ L).reverse).length +
        (if s.lastFc.isSome then 1 else 0) ≤
      fcCount a.rx.rxPrefixSize (rxOf (s.log ++ L).reverse) + (if s.txState = .waitFc then 1 else 0)
  /-- TRANSMIT_CF: the announced block size is the peer's, the block counter is the number of Consecutive Frames
      emitted since the last block boundary -/
  tbT : s.txState = .transmitCf → s.remoteBs = some bs ∧
      (0 < bs → s.txBlockCnt < bs ∧
        (posIn (lensOf c a ps) (dataOut a.tx.txPrefix.length (s.log ++ L).reverse).length - 1) % bs = s.txBlockCnt)
  /-- WAIT_FC: the Consecutive Frames emitted so far are whole blocks -/
  tbW : s.txState = .waitFc → 0 < bs →
      (posIn (lensOf c a ps) (dataOut a.tx.txPrefix.length (s.log ++ L).reverse).length - 1) % bs = 0
  /-- a Flow Control in the mailbox carries the peer's block size -/
  mail : ∀ f, s.lastFc = some f → f.bs = bs

/-- **Receiver law** of the layer with address `a` and block size `bs`; `lens`: frames per message of the peer's
    stream. -/
def RcvFc (a : Addr) (bs : Nat) (lens : List Nat) (s : State) (L : List Ev) : Prop :=
  fcCount a.tx.txPrefix.length (Net.txOf (s.log ++ L).reverse) + (if s.pendingFc then 1 else 0) ≤
    need bs lens (fed a (s.log ++ L).reverse).length

/-- no `UnexpectedFlowControlError` in a history -/
def NoUfc (H : List Ev) : Prop := ∀ t, Ev.err t .UnexpectedFlowControl ∉ H

end Isotp.NetP
