import Isotp.Proofs.DuplexLive
/-
  C10, liveness half, part 2: the loops of `process()`, a whole pass, a round of the canonical schedule and `N`
  rounds follow the abstract duplex machine.

  * `rxLoop_sim`, `txLoop_sim`, `procLoop_sim`, `pass_sim`: the inner rx loop, the inner tx loop, the outer loop and a
    whole `process()` call of a layer in abstract state `al` are the abstract ones (`absRxLoop`, `absTxLoop`,
    `absProcLoop`, `absPass`), as long as these do not fail.
  * `AN`, `absRound`, `absRounds`: the abstract two-layer network and the canonical round on it.
  * `NetRep`, `round_sim`, `rounds_sim`: the concrete two-layer network (`Pair`, LockstepBase) follows it.
-/
namespace Isotp.DuplexLive
open Isotp Isotp.State Isotp.Spec Isotp.Proofs Isotp.Lockstep

/-! ## the loops -/

/-- an accepted frame, no immediate transmit pass, transmit FSM time driven: the rx loop stops and asks for another
    iteration of `process` -/
theorem rxLoop_cons_td (s : State) (st : Stats) (dt : Nat) (m : CanMsg) (rest : List (Nat × CanMsg))
    (s' : State) (fr : Bool)
    (hme : s.addr.rx.isForMe m = true) (h : (arrived s dt m rest).processRx m = (s', false, fr))
    (htd : s'.txTimeDriven = true) :
    ∃ st', rxLoop true s st ((dt, m) :: rest) = (s', st', true) := by
  have ha := arrived_addr s dt m rest
  unfold arrived at h ha
  unfold rxLoop
  simp only [ha, hme, if_true, h, htd, Bool.and_true, Bool.false_eq_true, if_false]
  exact ⟨_, rfl⟩

theorem txLoop_none_imm (f : Nat) (s s' : State) (n : Nat) (h : s.processTx = (s', none, true))
    (hexc : s'.exc = none) : txLoop (f + 1) s n = (s', n, true, false) := by
  simp [txLoop, h, hexc]

section loops
variable {S : Side} {R : Nat}

theorem rxLoop_sim (hS : SideOk S) : ∀ (items : List Fr) (al : AL) (s : State) (al' : AL) (rr : Bool),
    Rep S R al s → absRxLoop S.par R al items = some (al', rr) →
    ∃ s', (∀ st, ∃ st', rxLoop true s st (items.map S.inEntry) = (s', st', rr)) ∧ Rep S R al' s' := by
  intro items
  induction items with
  | nil =>
    intro al s al' rr h ha
    unfold absRxLoop at ha
    split at ha
    · next hc =>
      simp only [Option.some.injEq, Prod.mk.injEq] at ha
      obtain ⟨rfl, rfl⟩ := ha
      have hto : s.timerCf.timedOut s.now = false := timerCf_ok hS h hc
      refine ⟨({ s with inbox := [] } : State).emit (.rxNone s.now), fun st => ⟨st, ?_⟩, ?_⟩
      · show rxLoop true s st [] = _
        rw [rxLoop_nil, checkTimeoutsRx_noop _ (by exact hto)]
      · exact ⟨⟨h.base.cfg, h.base.addr, h.base.standby, h.base.exc, h.base.rl⟩, h.tx, h.rx, h.fc, h.pend, h.pstat, rfl,
          h.now, by show txsOf (.rxNone s.now :: s.log) = _; rw [txsOf_rxNone]; exact h.out,
          NoErr_cons h.noerr (by intro t e h; cases h), fun hd => List.mem_cons_of_mem _ (h.done hd)⟩
    · cases ha
  | cons it rest ih =>
    intro al s al' rr h ha
    unfold absRxLoop at ha
    split at ha
    · cases ha
    next al1 imm hrx =>
    obtain ⟨s1, fr, hp, h1⟩ := rx_sim hS h it rest al1 imm hrx
    have hme : s.addr.rx.isForMe (S.inMsg it) = true := by rw [h.base.addr]; exact inMsg_forMe S hS it
    show ∃ s', (∀ st, ∃ st', rxLoop true s st ((0, S.inMsg it) :: rest.map S.inEntry) = (s', st', rr)) ∧ Rep S R al' s'
    split at ha
    · next himm =>
      simp only [Option.some.injEq, Prod.mk.injEq] at ha
      obtain ⟨rfl, rfl⟩ := ha
      subst himm
      exact ⟨s1, fun st => rxLoop_cons_imm s st 0 _ (rest.map S.inEntry) s1 fr hme hp, h1⟩
    · next himm =>
      have himm : imm = false := by simpa using himm
      subst himm
      split at ha
      · next htd =>
        simp only [Option.some.injEq, Prod.mk.injEq] at ha
        obtain ⟨rfl, rfl⟩ := ha
        exact ⟨s1, fun st => rxLoop_cons_td s st 0 _ (rest.map S.inEntry) s1 fr hme hp (by rw [h1.td]; exact htd), h1⟩
      · next htd =>
        have htd : timeDriven al1.tx = false := by simpa using htd
        obtain ⟨s2, e2, h2⟩ := ih al1 s1 al' rr h1 ha
        refine ⟨s2, fun st => ?_, h2⟩
        obtain ⟨st1, e⟩ := rxLoop_cons_next s st 0 _ (rest.map S.inEntry) s1 fr hme hp (by rw [h1.td]; exact htd)
        obtain ⟨st2, e3⟩ := e2 st1
        exact ⟨st2, by rw [e, e3]⟩

theorem txLoop_sim (hS : SideOk S) : ∀ (g : Nat) (al : AL) (s : State) (al' : AL) (run : Bool) (f : Nat),
    g ≤ f → Rep S R al s → absTxLoop S.par R g al = some (al', run) →
    ∃ s', (∀ n, ∃ n', txLoop f s n = (s', n', run, false)) ∧ s'.exc = none ∧ Rep S R al' s' := by
  intro g
  induction g with
  | zero => intro al s al' run f _ _ ha; simp [absTxLoop] at ha
  | succ g ih =>
    intro al s al' run f hf h ha
    obtain ⟨f, rfl⟩ : ∃ f', f = f' + 1 := ⟨f - 1, by omega⟩
    unfold absTxLoop at ha
    split at ha
    · cases ha
    next al1 out imm htx =>
    obtain ⟨s1, e1, hexc, h1⟩ := tx_sim hS h al1 out imm htx
    cases out with
    | none =>
      simp only [Option.map_none] at e1
      split at ha
      · next himm =>
        simp only [Option.some.injEq, Prod.mk.injEq] at ha
        obtain ⟨rfl, rfl⟩ := ha
        subst himm
        exact ⟨s1, fun n => ⟨n, txLoop_none_imm f s s1 n e1 hexc⟩, hexc, h1⟩
      · next himm =>
        have himm : imm = false := by simpa using himm
        subst himm
        simp only [Option.isSome_none, Bool.false_eq_true, if_false, Option.some.injEq, Prod.mk.injEq] at ha
        obtain ⟨rfl, rfl⟩ := ha
        exact ⟨s1, fun n => ⟨n, txLoop_none f s s1 n e1 hexc⟩, hexc, h1⟩
    | some fr =>
      simp only [Option.map_some] at e1
      have h2 : Rep S R (pushOut al1 (some fr)) (s1.emit (.tx s1.now (S.outMsg fr))) := h1.emitTx fr
      split at ha
      · next himm =>
        simp only [Option.some.injEq, Prod.mk.injEq] at ha
        obtain ⟨rfl, rfl⟩ := ha
        subst himm
        exact ⟨_, fun n => ⟨n + 1, txLoop_imm f s s1 _ n e1 hexc⟩, hexc, h2⟩
      · next himm =>
        have himm : imm = false := by simpa using himm
        subst himm
        simp only [Option.isSome_some, if_true] at ha
        obtain ⟨s2, e2, hexc2, h3⟩ := ih _ _ al' run f (by omega) h2 ha
        refine ⟨s2, fun n => ?_, hexc2, h3⟩
        obtain ⟨n2, e3⟩ := e2 (n + 1)
        exact ⟨n2, by rw [txLoop_more f s s1 _ n e1 hexc, e3]⟩

/-- the "start with the transmit loop" test of `process` -/
theorem Rep.sw {al : AL} {s : State} (h : Rep S R al s) :
    (!s.txQueue.isEmpty && decide (s.rxState = .idle) && decide (s.txState = .idle)) =
      (decide (al.tx = .I) && rxIdle al.rx) := by
  have htx := h.tx
  have hrx := h.rx
  have hr : decide (s.rxState = .idle) = rxIdle al.rx := by
    cases hh : al.rx with
    | I => rw [hh] at hrx; have : s.rxState = .idle := hrx.1; simp [this, rxIdle]
    | D => rw [hh] at hrx; have : s.rxState = .idle := hrx.1; simp [this, rxIdle]
    | S i t => rw [hh] at hrx; have : s.rxState = .waitCf := hrx.1; simp [this, rxIdle]
  rw [hr]
  cases ht : al.tx with
  | I =>
    rw [ht] at htx
    have h1 : s.txState = .idle := htx.1
    have h2 : s.txQueue = _ := htx.2.1
    simp [h1, h2]
  | D =>
    rw [ht] at htx
    have h2 : s.txQueue = [] := htx.2.1
    simp [h2]
  | W k r =>
    rw [ht] at htx
    have h1 : s.txState = .waitFc := htx.2.1
    simp [h1]
  | T k j r =>
    rw [ht] at htx
    have h1 : s.txState = .transmitCf := htx.2.1
    simp [h1]

theorem Rep.rlUpd {al : AL} {s : State} (h : Rep S R al s) : rlUpd s = s := by
  unfold Lockstep.rlUpd
  have : s.rl.update s.cfg.rlWindowNs s.now = s.rl := by
    rw [h.base.rl]; exact limiter_update_fresh false _ _
  rw [this]

/-- every frame carries at least one byte: frames still to send ≤ bytes still to send -/
theorem frames_le_bytes (tc : TxCfg) (hv : ValidTx tc) (p : Bytes) (hff : NeedsFF tc p.length) :
    ∀ (d k : Nat), 1 ≤ k → nFrames tc p - k = d → d ≤ p.length - carried tc p.length k := by
  intro d
  induction d with
  | zero => intro k _ _; omega
  | succ d ih =>
    intro k hk hd
    have hlt : carried tc p.length k < p.length := (lt_nFrames_iff tc hv p hff k hk).mp (by omega)
    have hstep := carried_step tc p.length k hk hlt
    have hroom := cfRoom_pos tc hv
    have := ih (k + 1) (by omega) (by omega)
    have hle := carried_le tc p.length (k + 1)
    omega

/-- the fuel of the inner tx loop is enough for what the abstract loop needs -/
theorem Rep.fuel (hS : SideOk S) {al : AL} {s : State} (h : Rep S R al s) : txNeed S.par al.tx ≤ s.txFuel := by
  have htx := h.tx
  have hvt := valid_of S.c S.a hS.va
  cases ht : al.tx with
  | I => simp only [txNeed, txFuel]; omega
  | D => simp only [txNeed, txFuel]; omega
  | W k r =>
    rw [ht] at htx
    obtain ⟨h1, h2, h3, h4, h5, h6, h7, hff⟩ := htx
    have ha : s.active = _ := h4
    have hq : s.txQueue = [] := h7
    have := frames_le_bytes _ hvt S.p hff _ k h1 rfl
    simp only [txNeed, txFuel, ha, hq, reqFuel, Req.remaining, reqAt_consumed, List.map_nil, List.sum_nil]
    simp only [reqAt, Req.adv, reqFor]
    show nFrames (TxCfg.of S.c S.a) S.p - k + 1 ≤ _
    unfold Side.car
    omega
  | T k j r =>
    rw [ht] at htx
    obtain ⟨h1, h2, h3, h4, h5, h6, h7, h8, h9, h10, hff⟩ := htx
    have ha : s.active = _ := h4
    have hq : s.txQueue = [] := h7
    have := frames_le_bytes _ hvt S.p hff _ k h1 rfl
    simp only [txNeed, txFuel, ha, hq, reqFuel, Req.remaining, reqAt_consumed, List.map_nil, List.sum_nil]
    simp only [reqAt, Req.adv, reqFor]
    show nFrames (TxCfg.of S.c S.a) S.p - k + 1 ≤ _
    unfold Side.car
    omega

/-- **the outer loop of `process()` is the abstract one** -/
theorem procLoop_sim (hS : SideOk S) : ∀ (f : Nat) (al : AL) (s : State) (st : Stats) (al' : AL),
    Rep S R al s → absProcLoop S.par R f al = some al' →
    ∃ s' st', processLoop f true true s st = (s', st', false) ∧ Rep S R al' s' := by
  intro f
  induction f with
  | zero => intro al s st al' _ ha; simp [absProcLoop] at ha
  | succ f ih =>
    intro al s st al' h ha
    unfold absProcLoop at ha
    simp only [] at ha
    cases hsw : (decide (al.tx = .I) && rxIdle al.rx) with
    | true =>
      simp only [hsw, Bool.not_true, Bool.false_eq_true, if_false, Bool.true_or, if_true] at ha
      split at ha
      · cases ha
      next al2 run htx =>
      obtain ⟨s2, e2, hexc, h2⟩ := txLoop_sim hS _ al s al2 run s.txFuel (h.fuel hS) h htx
      obtain ⟨st1, e3⟩ := processLoop_iter_sw f s st s2 run (h.sw.trans hsw) (by rw [h.rlUpd]; exact e2) hexc
      obtain ⟨s3, st3, e4, h3⟩ := ih al2 s2 st1 al' h2 ha
      exact ⟨s3, st3, by rw [e3, e4], h3⟩
    | false =>
      simp only [hsw, Bool.not_false, if_true, Bool.false_or] at ha
      split at ha
      · cases ha
      next al1 rxRun hrx =>
      split at ha
      · cases ha
      next al2 run htx =>
      obtain ⟨s1, e1, h1⟩ := rxLoop_sim hS al.inbox al s al1 rxRun h hrx
      rw [← h.inbox] at e1
      obtain ⟨s2, e2, hexc, h2⟩ := txLoop_sim hS _ al1 s1 al2 run s1.txFuel (h1.fuel hS) h1 htx
      obtain ⟨st1, e3⟩ := processLoop_iter f s st s1 s2 rxRun run (h.sw.trans hsw) e1 (by rw [h1.rlUpd]; exact e2) hexc
      split at ha
      · next hgo =>
        rw [if_pos hgo] at e3
        obtain ⟨s3, st3, e4, h3⟩ := ih al2 s2 st1 al' h2 ha
        exact ⟨s3, st3, by rw [e3, e4], h3⟩
      · next hgo =>
        rw [if_neg hgo] at e3
        simp only [Option.some.injEq] at ha
        subst ha
        exact ⟨s2, st1, e3, h2⟩

end loops

/-! ## a whole `process()` call -/

section pass
variable {S : Side} {R : Nat}

theorem Rep.fuelEq {al : AL} {s : State} (h : Rep S R al s) : s.processFuel = absFuel al := by
  have htx := h.tx
  have hq : s.txQueue.length = if al.tx = .I then 1 else 0 := by
    cases ht : al.tx with
    | I => rw [ht] at htx; have : s.txQueue = _ := htx.2.1; rw [this]; rfl
    | D => rw [ht] at htx; have : s.txQueue = [] := htx.2.1; rw [this]; rfl
    | W k r => rw [ht] at htx; have : s.txQueue = [] := htx.2.2.2.2.2.2.1; rw [this]; rfl
    | T k j r => rw [ht] at htx; have : s.txQueue = [] := htx.2.2.2.2.2.2.1; rw [this]; rfl
  unfold processFuel absFuel
  rw [hq, h.inbox, List.length_map]

/-- **one `process()` call is one abstract pass** -/
theorem pass_sim (hS : SideOk S) {al al' : AL} {s : State} (h : Rep S R { al with out := [], done := false } s)
    (ha : absPass S.par R al = some al') :
    Rep S R al' (s.process true true).1 := by
  unfold absPass at ha
  unfold State.process
  rw [h.fuelEq]
  obtain ⟨s', st', e, h'⟩ := procLoop_sim hS _ _ s {} al' h ha
  have : absFuel { al with out := [], done := false } = absFuel al := rfl
  rw [this, e]
  exact h'

/-- a layer state as it is stored in the network between two rounds, seen at the beginning of round `R` -/
def Stored (S : Side) (R : Nat) (al : AL) (s : State) : Prop :=
  Rep S R { al with out := [], done := false } (enter (R * S.dt) s)

/-- from the end of a pass to the next round: the log is collected, frames arrive, the clock advances -/
theorem Rep.next {al : AL} {s : State} (h : Rep S R al s) (fr : List Fr) (R' : Nat) :
    Stored S R' { al with inbox := al.inbox ++ fr } (pushAll (leave s) (fr.map S.inMsg)) := by
  unfold Stored
  refine ⟨⟨h.base.cfg, h.base.addr, h.base.standby, rfl, h.base.rl⟩, h.tx, h.rx, h.fc, h.pend, h.pstat, ?_, rfl, rfl,
    NoErr_nil, fun hd => by cases hd⟩
  show s.inbox ++ (fr.map S.inMsg).map (fun m => (0, m)) = _
  rw [h.inbox, List.map_append, List.map_map]
  rfl

theorem pushAll_nil (s : State) : pushAll s [] = s := by
  simp [pushAll]

/-- frames arrive before the pass of the same round -/
theorem Stored.push {al : AL} {s : State} (h : Stored S R al s) (fr : List Fr) :
    Stored S R { al with inbox := al.inbox ++ fr } (pushAll s (fr.map S.inMsg)) := by
  unfold Stored at *
  refine ⟨⟨h.base.cfg, h.base.addr, h.base.standby, h.base.exc, h.base.rl⟩, h.tx, h.rx, h.fc, h.pend, h.pstat, ?_,
    h.now, h.out, h.noerr, h.done⟩
  show s.inbox ++ (fr.map S.inMsg).map (fun m => (0, m)) = _
  have hi : s.inbox = _ := h.inbox
  rw [hi, List.map_append, List.map_map]
  rfl

end pass

/-! ## the abstract network and the canonical round -/

structure AN where
  a     : AL := {}
  b     : AL := {}
  R     : Nat := 0
  doneA : Bool := false        -- `complete(True)` reported to A's / B's request so far
  doneB : Bool := false
  deriving DecidableEq, Repr

/-- A.process(); deliver A → B; B.process(); deliver B → A; tick -/
def absRound (PA PB : Par) (n : AN) : Option AN :=
  match absPass PA n.R n.a with
  | none => none
  | some a1 =>
    match absPass PB n.R { n.b with inbox := n.b.inbox ++ a1.out } with
    | none => none
    | some b1 =>
      some { a := { a1 with inbox := a1.inbox ++ b1.out }, b := b1, R := n.R + 1,
             doneA := n.doneA || a1.done, doneB := n.doneB || b1.done }

def absRounds (PA PB : Par) : Nat → AN → Option AN
  | 0, n => some n
  | N + 1, n =>
    match absRound PA PB n with
    | none => none
    | some n' => absRounds PA PB N n'

/-- both transfers complete, nothing in flight -/
def AL.final (al : AL) : Bool :=
  decide (al.tx = .D) && decide (al.rx = .D) && al.inbox.isEmpty && !al.fc && !al.pend

def AN.final (n : AN) : Bool := n.a.final && n.b.final && n.doneA && n.doneB

section net
variable (SA : Side) (idB kCfB kFcB : Nat)

/-- the peer's side -/
abbrev sideB : Side := SA.swap idB kCfB kFcB

/-- the concrete two-layer network `q` is in abstract state `n` at the beginning of a round -/
structure NetRep (n : AN) (q : Pair) : Prop where
  a   : Stored SA n.R n.a q.a
  b   : Stored (sideB SA idB kCfB kFcB) n.R n.b q.b
  ab  : q.ab = []
  ba  : q.ba = []
  now : q.now = n.R * SA.dt

variable {SA idB kCfB kFcB}

/-- **one concrete round of the canonical schedule is one abstract round**; no error event; `complete(True)` is among
    the events when the abstract pass says so -/
theorem round_sim (hA : SideOk SA) (hB : SideOk (sideB SA idB kCfB kFcB)) {n n' : AN} {q : Pair}
    (h : NetRep SA idB kCfB kFcB n q) (ha : absRound SA.par (sideB SA idB kCfB kFcB).par n = some n') :
    NetRep SA idB kCfB kFcB n' (q.round SA.dt).1 ∧
    NoErr (q.round SA.dt).2.1 ∧ NoErr (q.round SA.dt).2.2 ∧
    (n'.doneA = true → n.doneA = false → Ev.done SA.id true ∈ (q.round SA.dt).2.1) ∧
    (n'.doneB = true → n.doneB = false → Ev.done idB true ∈ (q.round SA.dt).2.2) := by
  unfold absRound at ha
  split at ha
  · cases ha
  next a1 hpa =>
  split at ha
  · cases ha
  next b1 hpb =>
  simp only [Option.some.injEq] at ha
  subst ha
  -- A's pass
  have hnow := h.now
  have hA1 : Rep SA n.R a1 ((enter (n.R * SA.dt) q.a).process true true).1 := pass_sim hA h.a hpa
  -- B's pass
  have hB0 : Stored (sideB SA idB kCfB kFcB) n.R { n.b with inbox := n.b.inbox ++ a1.out }
      (pushAll q.b (a1.out.map SA.outMsg)) := h.b.push a1.out
  have hB1 : Rep (sideB SA idB kCfB kFcB) n.R b1
      ((enter (n.R * SA.dt) (pushAll q.b (a1.out.map SA.outMsg))).process true true).1 := pass_sim hB hB0 hpb
  have hround : q.round SA.dt =
      ({ a := pushAll (leave ((enter (n.R * SA.dt) q.a).process true true).1)
                (txsOf ((enter (n.R * SA.dt) (pushAll q.b (a1.out.map SA.outMsg))).process true true).1.log),
         b := leave ((enter (n.R * SA.dt) (pushAll q.b (a1.out.map SA.outMsg))).process true true).1,
         ab := [], ba := [], now := n.R * SA.dt + SA.dt,
         ea := q.ea + (txsOf ((enter (n.R * SA.dt) q.a).process true true).1.log).length,
         eb := q.eb + (txsOf ((enter (n.R * SA.dt) (pushAll q.b (a1.out.map SA.outMsg))).process true true).1.log).length },
       ((enter (n.R * SA.dt) q.a).process true true).1.log.reverse,
       ((enter (n.R * SA.dt) (pushAll q.b (a1.out.map SA.outMsg))).process true true).1.log.reverse) := by
    unfold Pair.round
    simp only [h.ab, h.ba, List.nil_append, hnow, hA1.now, hA1.out, hB1.now]
    rfl
  generalize ((enter (n.R * SA.dt) q.a).process true true).1 = sa at hA1 hround
  generalize ((enter (n.R * SA.dt) (pushAll q.b (a1.out.map SA.outMsg))).process true true).1 = sb at hB1 hround
  have hsbOut : txsOf sb.log = b1.out.map SA.inMsg := hB1.out
  rw [hround]
  refine ⟨⟨?_, ?_, rfl, rfl, ?_⟩, NoErr_reverse hA1.noerr, NoErr_reverse hB1.noerr, ?_, ?_⟩
  · show Stored SA (n.R + 1) { a1 with inbox := a1.inbox ++ b1.out } (pushAll (leave sa) (txsOf sb.log))
    rw [hsbOut]
    exact hA1.next b1.out (n.R + 1)
  · show Stored (sideB SA idB kCfB kFcB) (n.R + 1) b1 (leave sb)
    have := hB1.next [] (n.R + 1)
    simp only [List.append_nil, List.map_nil, pushAll_nil] at this
    exact this
  · show n.R * SA.dt + SA.dt = (n.R + 1) * SA.dt
    rw [Nat.add_mul, Nat.one_mul]
  · intro h1 h0
    have : a1.done = true := by simpa [h0] using h1
    exact List.mem_reverse.mpr (hA1.done this)
  · intro h1 h0
    have : b1.done = true := by simpa [h0] using h1
    exact List.mem_reverse.mpr (hB1.done this)

theorem absRound_done {PA PB : Par} {n n' : AN} (h : absRound PA PB n = some n') :
    (n.doneA = true → n'.doneA = true) ∧ (n.doneB = true → n'.doneB = true) ∧ n'.R = n.R + 1 := by
  unfold absRound at h
  split at h
  · cases h
  split at h
  · cases h
  simp only [Option.some.injEq] at h
  subst h
  exact ⟨fun h => by simp [h], fun h => by simp [h], rfl⟩

/-- **`N` concrete rounds are `N` abstract rounds**: no error event in any of them; `complete(True)` is among the
    events of a layer once the abstract network says so -/
theorem rounds_sim (hA : SideOk SA) (hB : SideOk (sideB SA idB kCfB kFcB)) : ∀ (N : Nat) (n n' : AN) (q : Pair),
    NetRep SA idB kCfB kFcB n q → absRounds SA.par (sideB SA idB kCfB kFcB).par N n = some n' →
    NetRep SA idB kCfB kFcB n' (Pair.rounds SA.dt N q).1 ∧
    NoErr (Pair.rounds SA.dt N q).2.1 ∧ NoErr (Pair.rounds SA.dt N q).2.2 ∧
    (n'.doneA = true → n.doneA = false → Ev.done SA.id true ∈ (Pair.rounds SA.dt N q).2.1) ∧
    (n'.doneB = true → n.doneB = false → Ev.done idB true ∈ (Pair.rounds SA.dt N q).2.2) ∧
    n'.R = n.R + N := by
  intro N
  induction N with
  | zero =>
    intro n n' q h ha
    simp only [absRounds, Option.some.injEq] at ha
    subst ha
    exact ⟨h, NoErr_nil, NoErr_nil, (fun h1 h0 => by rw [h0] at h1; cases h1), (fun h1 h0 => by rw [h0] at h1; cases h1), rfl⟩
  | succ N ih =>
    intro n n' q h ha
    unfold absRounds at ha
    split at ha
    · cases ha
    next n1 hr =>
    obtain ⟨h1, e1, e2, d1, d2⟩ := round_sim hA hB h hr
    obtain ⟨m1, m2, m3⟩ := absRound_done hr
    obtain ⟨h2, f1, f2, g1, g2, g3⟩ := ih n1 n' _ h1 ha
    refine ⟨h2, NoErr_append e1 f1, NoErr_append e2 f2, ?_, ?_, by rw [g3, m3]; omega⟩
    · intro hd' hd
      show _ ∈ (q.round SA.dt).2.1 ++ _
      cases hd1 : n1.doneA with
      | true => exact List.mem_append_left _ (d1 hd1 hd)
      | false => exact List.mem_append_right _ (g1 hd' hd1)
    · intro hd' hd
      show _ ∈ (q.round SA.dt).2.2 ++ _
      cases hd1 : n1.doneB with
      | true => exact List.mem_append_left _ (d2 hd1 hd)
      | false => exact List.mem_append_right _ (g2 hd' hd1)

end net

/-! ## the scenario on the network of the driver -/

section scenario
variable (ca cb : Cfg) (aa ab : Addr) (idA : Nat) (p : Bytes) (idB : Nat) (q : Bytes)

/-- the network after `A.send(p)` and `B.send(q)` on two freshly constructed layers, and what the two calls returned -/
def startNet2 : Option (Net × Option PyExc × Option PyExc) :=
  match (net0 ca cb aa ab).onLayer 0 (sendOp idA p) with
  | none => none
  | some (d, _, _, r1) =>
    match d.onLayer 1 (sendOp idB q) with
    | none => none
    | some (d', _, _, r2) => some (d', r1, r2)

/-- a freshly constructed layer with one request queued -/
def sentState (c : Cfg) (a : Addr) (id : Nat) (p : Bytes) : State :=
  { State.init c a with txQueue := [reqFor c id p] }

/-- the two-layer record of the network after the two accepted `send` calls -/
def pair2 : Pair := { a := sentState ca aa idA p, b := sentState cb ab idB q }

theorem sendOp_accepted (c : Cfg) (a : Addr) (id : Nat) (p : Bytes)
    (hacc : ((State.init c a).send { id := id, size := p.length, src := p }).2 = none) :
    (sendOp id p (State.init c a)).1 = sentState c a id p := by
  have h1 := send_accepted (State.init c a) { id := id, size := p.length, src := p } hacc
  show ((State.init c a).send _).1 = _
  rw [h1]
  simp [sentState, State.init, reqOf, reqFor]

theorem startNet2_eq
    (haccA : ((State.init ca aa).send { id := idA, size := p.length, src := p }).2 = none)
    (haccB : ((State.init cb ab).send { id := idB, size := q.length, src := q }).2 = none) :
    startNet2 ca cb aa ab idA p idB q = some ((pair2 ca cb aa ab idA p idB q).toNet, none, none) := by
  unfold startNet2 net0
  rw [toNet_init, onLayer0]
  simp only []
  rw [onLayer1]
  simp only []
  have he : ∀ c a, enter 0 (State.init c a) = State.init c a := fun _ _ => rfl
  have hrA : (sendOp idA p (State.init ca aa)).2 = none := haccA
  have hrB : (sendOp idB q (State.init cb ab)).2 = none := haccB
  simp only [he, sendOp_accepted ca aa idA p haccA, hrA]
  have hn : (sentState ca aa idA p).now = 0 := rfl
  simp only [hn, he, sendOp_accepted cb ab idB q haccB, hrB]
  rfl

end scenario

/-! ## from the abstract network to the network of the driver -/

/-- "Both transfers have completed": network `d`, events of A / of B over all rounds. -/
def Completed2 (idA : Nat) (p : Bytes) (idB : Nat) (q : Bytes) (d : Net) (evA evB : List Ev) : Prop :=
  ∃ a b, d.layers = #[a, b] ∧ d.outbox = #[[], []] ∧
    -- each side has delivered exactly the other side's payload
    b.rxQueue = [p] ∧ b.recv.2 = some p ∧ a.rxQueue = [q] ∧ a.recv.2 = some q ∧
    -- both layers idle in both directions, nothing queued, nothing pending, inboxes empty
    a.rxState = .idle ∧ b.rxState = .idle ∧ a.txState = .idle ∧ b.txState = .idle ∧
    a.active = none ∧ b.active = none ∧ a.txQueue = [] ∧ b.txQueue = [] ∧ a.inbox = [] ∧ b.inbox = [] ∧
    a.lastFc = none ∧ b.lastFc = none ∧ a.pendingFc = false ∧ b.pendingFc = false ∧
    -- both requests were completed with success
    Ev.done idA true ∈ evA ∧ Ev.done idB true ∈ evB ∧
    -- no error event on either side
    (∀ t e, Ev.err t e ∉ evA) ∧ (∀ t e, Ev.err t e ∉ evB)

section bridge
variable (SA : Side) (idB kCfB kFcB : Nat)

theorem stored_init (S : Side) (hS : SideOk S) : Stored S 0 {} (sentState S.c S.a S.id S.p) := by
  unfold Stored
  refine ⟨⟨rfl, rfl, rfl, rfl, ?_⟩, ⟨rfl, rfl, rfl⟩, ⟨rfl, rfl, rfl⟩, rfl, rfl, (fun h => by cases h), rfl, rfl, rfl,
    NoErr_nil, (fun h => by cases h)⟩
  show ({ enabled := S.c.rlEnable } : Limiter) = _
  rw [hS.rl]

theorem netRep_init (hA : SideOk SA) (hB : SideOk (sideB SA idB kCfB kFcB)) :
    NetRep SA idB kCfB kFcB {} (pair2 SA.c SA.c' SA.a SA.a' SA.id SA.p idB SA.p') :=
  ⟨stored_init SA hA, stored_init (sideB SA idB kCfB kFcB) hB, rfl, rfl, (Nat.zero_mul _).symm⟩

/-- what a final abstract layer state says about the stored concrete state -/
theorem Stored.final {S : Side} {R : Nat} {al : AL} {s : State} (h : Stored S R al s) (hf : al.final = true) :
    s.rxQueue = [S.p'] ∧ s.rxState = .idle ∧ s.txState = .idle ∧ s.active = none ∧ s.txQueue = [] ∧ s.inbox = [] ∧
    s.lastFc = none ∧ s.pendingFc = false := by
  unfold AL.final at hf
  simp only [Bool.and_eq_true, decide_eq_true_eq, Bool.not_eq_true', List.isEmpty_iff] at hf
  obtain ⟨⟨⟨⟨h1, h2⟩, h3⟩, h4⟩, h5⟩ := hf
  unfold Stored at h
  have htx := h.tx
  have hrx := h.rx
  have hfc := h.fc
  have hp := h.pend
  have hib := h.inbox
  simp only [] at htx hrx hfc hp hib
  rw [h1] at htx
  rw [h2] at hrx
  rw [h4] at hfc
  rw [h5] at hp
  rw [h3] at hib
  exact ⟨hrx.2.1, hrx.1, htx.1, htx.2.2.2, htx.2.1, hib, hfc, hp⟩

/-- **Bridge.** If the abstract duplex machine of the two layers reaches a final state in `N` rounds, then on the
    network of the driver, after the two `send` calls and `N` canonical rounds, both transfers have completed. -/
theorem complete_of_abs (hA : SideOk SA) (hB : SideOk (sideB SA idB kCfB kFcB))
    (haccA : ((State.init SA.c SA.a).send { id := SA.id, size := SA.p.length, src := SA.p }).2 = none)
    (haccB : ((State.init SA.c' SA.a').send { id := idB, size := SA.p'.length, src := SA.p' }).2 = none)
    (N : Nat) (n' : AN) (hr : absRounds SA.par (sideB SA idB kCfB kFcB).par N {} = some n')
    (hf : n'.final = true) :
    ∃ d0 d evA evB, startNet2 SA.c SA.c' SA.a SA.a' SA.id SA.p idB SA.p' = some (d0, none, none) ∧
      canonRounds SA.dt N d0 = some (d, evA, evB) ∧ Completed2 SA.id SA.p idB SA.p' d evA evB ∧ d.now = N * SA.dt := by
  obtain ⟨hl, eA, eB, dA, dB, hR⟩ := rounds_sim hA hB N {} n' _ (netRep_init SA idB kCfB kFcB hA hB) hr
  unfold AN.final at hf
  simp only [Bool.and_eq_true] at hf
  obtain ⟨⟨⟨fa, fb⟩, fdA⟩, fdB⟩ := hf
  obtain ⟨a1, a2, a3, a4, a5, a6, a7, a8⟩ := hl.a.final fa
  obtain ⟨b1, b2, b3, b4, b5, b6, b7, b8⟩ := hl.b.final fb
  refine ⟨_, _, _, _, startNet2_eq SA.c SA.c' SA.a SA.a' SA.id SA.p idB SA.p' haccA haccB, canonRounds_toNet SA.dt N _,
    ?_, ?_⟩
  · refine ⟨_, _, rfl, ?_, b1, ?_, a1, ?_, a2, b2, a3, b3, a4, b4, a5, b5, a6, b6, a7, b7, a8, b8, dA fdA rfl, dB fdB rfl,
      eA, eB⟩
    · show #[_, _] = #[[], []]
      rw [hl.ab, hl.ba]
    · simp [State.recv, b1]; rfl
    · simp [State.recv, a1]
  · show (Pair.rounds SA.dt N _).1.now = _
    rw [hl.now, hR]; simp

end bridge

end Isotp.DuplexLive
