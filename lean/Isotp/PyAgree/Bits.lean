import Isotp.Address
/-! Bit-operation facts: the Python source uses `&`, `>>`, `<<`, `|`; the model uses `/`, `%`, `*`, `+`. -/
namespace Isotp.PyAgree

theorem and_ff (x : Nat) : x &&& 255 = x % 256 := Nat.and_two_pow_sub_one_eq_mod x 8

theorem and_f (x : Nat) : x &&& 15 = x % 16 := Nat.and_two_pow_sub_one_eq_mod x 4

theorem and_mask2816 (x : Nat) : x &&& 0x1FFF0000 = mask2816 x := by
  unfold mask2816
  apply Nat.eq_of_testBit_eq
  intro i
  have e : (0x1FFF0000 : Nat) = (2 ^ 13 - 1) <<< 16 := by decide
  rw [e, Nat.testBit_and, Nat.testBit_shiftLeft, Nat.testBit_two_pow_sub_one]
  have e2 : x / 65536 % 8192 * 65536 = (x / 2 ^ 16 % 2 ^ 13) * 2 ^ 16 := by simp
  rw [e2, Nat.testBit_mul_two_pow, Nat.testBit_mod_two_pow, Nat.testBit_div_two_pow]
  by_cases h : 16 ≤ i
  · simp [h]
    by_cases h2 : i - 16 < 13
    · simp [h2]
    · simp [h2]
  · simp [h]

theorem and_ff00_shr (x : Nat) : (x &&& 0xFF00) >>> 8 = x / 256 % 256 := by
  apply Nat.eq_of_testBit_eq
  intro i
  have e : (0xFF00 : Nat) = (2 ^ 8 - 1) <<< 8 := by decide
  rw [Nat.testBit_shiftRight, e, Nat.testBit_and, Nat.testBit_shiftLeft, Nat.testBit_two_pow_sub_one]
  have e2 : x / 256 % 256 = x / 2 ^ 8 % 2 ^ 8 := by simp
  rw [e2, Nat.testBit_mod_two_pow, Nat.testBit_div_two_pow]
  by_cases h : i < 8
  · simp [h, Nat.add_comm]
  · simp [h]

end Isotp.PyAgree
