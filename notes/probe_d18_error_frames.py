import sys, os, time, threading
sys.path.insert(0, os.getcwd())
import can, isotp
print(isotp.__file__)
chan='probe_d18'
b1=can.interface.Bus(chan, interface='virtual'); b2=can.interface.Bus(chan, interface='virtual'); nb=can.interface.Bus(chan, interface='virtual')
a=isotp.Address(isotp.AddressingMode.Normal_11bits, txid=0x123, rxid=0x456)
b=isotp.Address(isotp.AddressingMode.Normal_11bits, txid=0x456, rxid=0x123)
errs=[]
A=isotp.CanStack(b1, address=a, error_handler=lambda e: errs.append(('A',type(e).__name__)), params={'blocksize':0}, read_timeout=0.05)
B=isotp.CanStack(b2, address=b, error_handler=lambda e: errs.append(('B',type(e).__name__)), params={'blocksize':0}, read_timeout=0.05)
A.start(); B.start()
stop=threading.Event()
rate=float(sys.argv[1]) if len(sys.argv)>1 else 300.0
def flood():
    n=0
    while not stop.is_set():
        nb.send(can.Message(arbitration_id=0x7FF, is_error_frame=True, is_extended_id=False)); n+=1
        time.sleep(1.0/rate)
    print('error frames sent', n)
t=threading.Thread(target=flood, daemon=True); t.start()
time.sleep(1.0)   # backlog builds up while idle
t0=time.time()
A.send(bytes(range(50)))
got=None
while time.time()-t0 < 8:
    got=B.recv()
    if got is not None: break
    time.sleep(0.005)
dt=time.time()-t0
stop.set(); t.join()
A.stop(); B.stop()
for x in (b1,b2,nb): x.shutdown()
print('delivered' if got is not None else 'NOT delivered', 'after %.2f s'%dt, 'errors', errs)
sys.exit(0 if got is not None and dt < 1.0 else 1)
