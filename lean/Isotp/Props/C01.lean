import Isotp.Proofs.Compose
import Isotp.Props.C01spec
import Isotp.Props.C03
import Isotp.Props.C02
/-
  C01 — "When two transport layers with mirrored addresses are joined by a reliable in-order CAN link …
  every non-empty payload accepted by send() on one side is returned by recv() on the other side exactly once,
  byte-for-byte identical and in the order it was sent, and neither side reports an error … every addressing
  mode, every accepted combination of tx_data_length, tx_data_min_length, tx_padding, blocksize, stmin, every
  payload length the receiver's max_frame_size admits, any number of queued messages."

  End-to-end composition (safety part). Helper lemmas: Isotp/Proofs/Compose.lean. Builds on
  * C01spec: `Spec.segment` of a valid transmit configuration is a `Spec.WellFormed` stream;
  * C03 / Proofs.Rx: the receiver model reassembles every well-formed stream (from any state, with arbitrary
    reception-neutral steps in between: the `Feeds` relation);
  * C09: the address filter of the mirrored address accepts every frame the sender emits;
  * C02: the sender model emits exactly `Spec.segment` (used by `e2e_sender`, `e2e_sender_receiver`).

  Setting (`Compose.Link ca aa sb`; it is defined in Proofs/Compose.lean §G together with `Sendable`, `wire`,
  `wireMsg`, `FromSender`): the sender has the validated configuration `ca` and address `aa` (able to
  transmit); the receiving layer is in state `sb`, whose receive address is the mirror of the sender's
  transmit address. Nothing is assumed about the receiver's own configuration (blocksize, stmin, padding …)
  except that the payloads fit its `max_frame_size`; the sender's configuration is arbitrary but valid; all
  seven addressing modes are covered (`Link.mirror` does not fix the mode).

  Vocabulary: `tc = Spec.TxCfg.of ca aa`; `Spec.segment tc p` the data fields of the frames of `p`;
  `Compose.stream enc ps` the frames of all the messages in order; `Feeds s frames s'` (Proofs/Rx.lean): the
  frames are handed to `_process_rx` in order with arbitrary reception-neutral steps (transmit passes — this
  is where the Flow Control frames go out —, `send`, `recv`, clock, un-expired timeout checks) before, between
  and after; `Compose.linkFeed s ms`: the CAN messages `ms` go through the address filter and `_process_rx`;
  `delivered s` / `rxTrace s`: payloads put into the rx queue / deliveries and reception errors, read from
  the event log.

  Not covered here (liveness): that the sender does get the Flow Control frames in time and therefore does
  emit all the frames (C04/C05/C07 are about that side); `e2e_sender` says what the emitted frames are.
-/
namespace Isotp.C01
open Isotp Isotp.State Isotp.Rx Isotp.Compose

/-! ## 1. every frame passes the receiver's address filter -/

/-- Every CAN message that carries a frame of the segmentation of `p` with the sender's identifier (for either
    target address type) is accepted by the receiver's `is_for_me`, in all seven addressing modes; and the
    receiver strips exactly the prefix the sender prepends. -/
theorem e2e_accepted (ca : Cfg) (aa : Addr) (sb : State) (h : Link ca aa sb) (p : Bytes) (m : CanMsg) (t : Tat)
    (hid : m.id = aa.tx.txId t) (hext : m.ext = aa.tx.mode.is29)
    (hd : m.data ∈ Spec.segment (Spec.TxCfg.of ca aa) p) :
    sb.addr.rx.isForMe m = true ∧ (Spec.TxCfg.of ca aa).pre.length = sb.addr.rx.rxPrefixSize := by
  rw [h.mirror]
  exact ⟨accepted ca aa t p m h.addrA hid hext hd, (mirror_rxPrefixSize aa.tx).symm⟩

theorem e2e_accepted_wire (ca : Cfg) (aa : Addr) (sb : State) (h : Link ca aa sb) (p : Bytes) :
    ∀ m ∈ wire ca aa p, sb.addr.rx.isForMe m = true := by
  intro m hm
  simp only [wire, List.mem_map] at hm
  obtain ⟨d, hd, rfl⟩ := hm
  exact (e2e_accepted ca aa sb h p _ .physical rfl rfl hd).1

/-! ## 2. one message -/

/-- The frames of one payload, handed to the receiver from ANY state with arbitrary reception-neutral steps in
    between, deliver exactly that payload, once; the receiver is idle afterwards; if it was idle before, the
    delivery is the only reception event (no reception error). -/
theorem e2e_one_message (ca : Cfg) (aa : Addr) (sb sb' : State) (h : Link ca aa sb) (p : Bytes)
    (hs : Sendable sb [p]) (hf : Feeds sb (Spec.segment (Spec.TxCfg.of ca aa) p) sb') :
    delivered sb' = delivered sb ++ [p] ∧ sb'.rxState = .idle ∧
      (sb.rxState = .idle → rxTrace sb' = rxTrace sb ++ [.deliver p]) := by
  have ha := h.admissible [p] hs
  exact C03.stream_delivers_interleaved sb sb' _ p _ (ha.hwf p (by simp)) ha.hpre (ha.hmax p (by simp)) hf

/-- … and nothing is delivered before the last frame. -/
theorem e2e_one_message_nothing_earlier (ca : Cfg) (aa : Addr) (sb sb'' : State) (h : Link ca aa sb) (p : Bytes)
    (hs : Sendable sb [p]) (fs rest : List Bytes) (hsplit : Spec.segment (Spec.TxCfg.of ca aa) p = fs ++ rest)
    (hne : rest ≠ []) (hf : Feeds sb fs sb'') : delivered sb'' = delivered sb := by
  have ha := h.admissible [p] hs
  exact C03.nothing_earlier_interleaved sb sb'' _ p _ fs rest (ha.hwf p (by simp)) ha.hpre (ha.hmax p (by simp))
    hsplit hne hf

/-- The same through the address filter, nothing in between, in terms of the rx queue: after the frames of `p`
    (any dlc/fd/brs, either target address type) `recv()` finds exactly `p` appended. -/
theorem e2e_one_message_wire (ca : Cfg) (aa : Addr) (sb : State) (h : Link ca aa sb) (p : Bytes)
    (hs : Sendable sb [p]) (hidle : sb.rxState = .idle) (ms : List CanMsg) (hfrom : FromSender aa ms)
    (hdata : ms.map (·.data) = Spec.segment (Spec.TxCfg.of ca aa) p) :
    (linkFeed sb ms).rxQueue = sb.rxQueue ++ [p] ∧ (linkFeed sb ms).rxState = .idle ∧
      rxTrace (linkFeed sb ms) = rxTrace sb ++ [.deliver p] := by
  have ha := h.admissible [p] hs
  rw [linkFeed_stream ca aa sb h [p] ms hfrom (by
    intro m hm
    have : m.data ∈ ms.map (·.data) := List.mem_map_of_mem hm
    rw [hdata] at this
    simpa using this)]
  exact C03.stream_delivers sb ms _ p (by rw [hdata]; exact ha.hwf p (by simp)) ha.hpre (ha.hmax p (by simp)) hidle

/-! ## 3. any number of queued messages -/

/-- C01, safety core. The frames of the payloads `ps`, in sending order, handed to an idle receiver with arbitrary
    reception-neutral steps in between: the reception events are exactly one delivery per payload, byte-identical
    and in sending order — nothing lost, duplicated, reordered, and no reception error —, and the receiver is
    idle again. -/
theorem e2e_messages (ca : Cfg) (aa : Addr) (sb sb' : State) (h : Link ca aa sb) (ps : List Bytes)
    (hs : Sendable sb ps) (hidle : sb.rxState = .idle)
    (hf : Feeds sb (stream (Spec.segment (Spec.TxCfg.of ca aa)) ps) sb') :
    rxTrace sb' = rxTrace sb ++ ps.map RxEv.deliver ∧ delivered sb' = delivered sb ++ ps ∧ sb'.rxState = .idle := by
  obtain ⟨h1, h2⟩ := messages_idle _ _ ps sb sb' (h.admissible ps hs) hidle hf
  exact ⟨h1, by rw [delivered_of_trace sb sb' _ h1, delivered_map_deliver], h2⟩

/-- From ANY receiver state (e.g. a reception left open by an earlier fault): still every payload is delivered
    exactly once and in order. -/
theorem e2e_messages_any_state (ca : Cfg) (aa : Addr) (sb sb' : State) (h : Link ca aa sb) (ps : List Bytes)
    (hs : Sendable sb ps) (hf : Feeds sb (stream (Spec.segment (Spec.TxCfg.of ca aa)) ps) sb') :
    delivered sb' = delivered sb ++ ps ∧ (ps ≠ [] → sb'.rxState = .idle) := by
  obtain ⟨h1, h2, _⟩ := messages_any _ _ ps sb sb' (h.admissible ps hs) hf
  exact ⟨h1, h2⟩

/-- Prefix version: after the first `k` frames of the stream, exactly the payloads whose frames are completely
    contained in these `k` frames have been delivered (`Compose.completeIn`), in order: nothing is delivered
    early, reordered or twice. -/
theorem e2e_messages_prefix (ca : Cfg) (aa : Addr) (sb sb'' : State) (h : Link ca aa sb) (ps : List Bytes)
    (hs : Sendable sb ps) (k : Nat)
    (hf : Feeds sb ((stream (Spec.segment (Spec.TxCfg.of ca aa)) ps).take k) sb'') :
    delivered sb'' = delivered sb ++ completeIn (Spec.segment (Spec.TxCfg.of ca aa)) ps k :=
  messages_prefix _ _ ps k sb sb'' (h.admissible ps hs) hf

/-- Through the address filter, nothing in between, in terms of the rx queue: after all the frames the queue is
    the old one followed by `ps`; no reception error; receiver idle. `ms` are any CAN messages of the sender
    (any dlc/fd/brs) whose data fields are the segmentations of `ps` in order. -/
theorem e2e_messages_wire (ca : Cfg) (aa : Addr) (sb : State) (h : Link ca aa sb) (ps : List Bytes)
    (hs : Sendable sb ps) (hidle : sb.rxState = .idle) (ms : List CanMsg) (hfrom : FromSender aa ms)
    (hdata : ms.map (·.data) = stream (Spec.segment (Spec.TxCfg.of ca aa)) ps) :
    (linkFeed sb ms).rxQueue = sb.rxQueue ++ ps ∧ (linkFeed sb ms).rxState = .idle ∧
      rxTrace (linkFeed sb ms) = rxTrace sb ++ ps.map RxEv.deliver := by
  rw [linkFeed_stream ca aa sb h ps ms hfrom (by
    intro m hm
    have : m.data ∈ ms.map (·.data) := List.mem_map_of_mem hm
    rwa [hdata] at this)]
  have hf := feeds_feed ms sb
  rw [hdata] at hf
  obtain ⟨h1, h2, h3⟩ := e2e_messages ca aa sb _ h ps hs hidle hf
  exact ⟨feed_queue_of_delivered sb ms ps h2, h3, h1⟩

/-- … and after the first `k` messages of `ms` the queue holds exactly the completely received payloads. -/
theorem e2e_messages_wire_prefix (ca : Cfg) (aa : Addr) (sb : State) (h : Link ca aa sb) (ps : List Bytes)
    (hs : Sendable sb ps) (ms : List CanMsg) (hfrom : FromSender aa ms)
    (hdata : ms.map (·.data) = stream (Spec.segment (Spec.TxCfg.of ca aa)) ps) (k : Nat) :
    (linkFeed sb (ms.take k)).rxQueue = sb.rxQueue ++ completeIn (Spec.segment (Spec.TxCfg.of ca aa)) ps k := by
  rw [linkFeed_stream ca aa sb h ps (ms.take k) (fun m hm => hfrom m (List.mem_of_mem_take hm)) (by
    intro m hm
    have : m.data ∈ ms.map (·.data) := List.mem_map_of_mem (List.mem_of_mem_take hm)
    rwa [hdata] at this)]
  have hf := feeds_feed (ms.take k) sb
  rw [List.map_take, hdata] at hf
  exact feed_queue_of_delivered sb _ _ (e2e_messages_prefix ca aa sb _ h ps hs k hf)

/-- the concrete frames `wire`: instance of the two theorems above -/
theorem e2e_messages_wire_concrete (ca : Cfg) (aa : Addr) (sb : State) (h : Link ca aa sb) (ps : List Bytes)
    (hs : Sendable sb ps) (hidle : sb.rxState = .idle) :
    (linkFeed sb (ps.map (wire ca aa)).flatten).rxQueue = sb.rxQueue ++ ps ∧
    (linkFeed sb (ps.map (wire ca aa)).flatten).rxState = .idle ∧
    rxTrace (linkFeed sb (ps.map (wire ca aa)).flatten) = rxTrace sb ++ ps.map RxEv.deliver ∧
    ∀ k, (linkFeed sb ((ps.map (wire ca aa)).flatten.take k)).rxQueue =
      sb.rxQueue ++ completeIn (Spec.segment (Spec.TxCfg.of ca aa)) ps k := by
  obtain ⟨h1, h2, h3⟩ := e2e_messages_wire ca aa sb h ps hs hidle _ (wire_fromSender ca aa ps) (wire_data ca aa ps)
  exact ⟨h1, h2, h3, e2e_messages_wire_prefix ca aa sb h ps hs _ (wire_fromSender ca aa ps) (wire_data ca aa ps)⟩

/-! ## 4. `recv()` -/

/-- Then `recv()` called `|ps|` times returns exactly the payloads, in sending order, and `None` afterwards
    (queue empty before the transfer). -/
theorem e2e_recv (ca : Cfg) (aa : Addr) (sb : State) (h : Link ca aa sb) (ps : List Bytes)
    (hs : Sendable sb ps) (hidle : sb.rxState = .idle) (hq : sb.rxQueue = []) (ms : List CanMsg)
    (hfrom : FromSender aa ms) (hdata : ms.map (·.data) = stream (Spec.segment (Spec.TxCfg.of ca aa)) ps) :
    (recvN ps.length (linkFeed sb ms)).1 = ps.map some ∧
    (recvN ps.length (linkFeed sb ms)).2.recv.2 = none := by
  obtain ⟨h1, _, _⟩ := e2e_messages_wire ca aa sb h ps hs hidle ms hfrom hdata
  rw [hq, List.nil_append] at h1
  obtain ⟨h2, h3⟩ := recvN_queue ps _ h1
  exact ⟨h2, by simp [recv, h3]⟩

/-! ## 5. the sender model's output is the receiver model's input -/

/-- Connection to the sender model (C02): from the moment the request for `p` is at the head of the transmit
    queue, for every sequence of API calls (`steps`), the data frames the sender hands to the CAN layer are
    messages of the sender whose data fields are — while the transfer is in flight — a prefix of
    `Spec.segment tc p`, and — when the request completes with success — exactly `Spec.segment tc p` in order,
    i.e. `wire p` up to dlc/fd/brs; otherwise the transfer failed (`complete(False)`: Flow Control overflow /
    timeout / too many wait frames). -/
theorem e2e_sender (s0 : State) (r0 : Req) (p : Bytes) (hv : s0.cfg.valid = true) (hfr : Proofs.Fresh r0 p)
    (h1 : 1 ≤ p.length) (hn : p.length < 4294967296) (steps : List Proofs.Step)
    (hl : Proofs.Live s0 s0) (hq : Proofs.TxQueued s0 r0) :
    (FromSender s0.addr (Proofs.run steps s0).2 ∧
      (Proofs.run steps s0).2.map (·.data) =
        (Spec.segment (Spec.TxCfg.of s0.cfg s0.addr) p).take (Proofs.run steps s0).2.length) ∨
    (∃ pre post last, steps = pre ++ Proofs.Step.tx :: post ∧
      (Proofs.run pre s0).1.processTx.2.1 = some last ∧
      Proofs.Finished (Proofs.run pre s0).1 (Proofs.run pre s0).1.processTx.1 r0 ∧
      FromSender s0.addr ((Proofs.run pre s0).2 ++ [last]) ∧
      ((Proofs.run pre s0).2 ++ [last]).map (·.data) = Spec.segment (Spec.TxCfg.of s0.cfg s0.addr) p) ∨
    (∃ pre post, steps = pre ++ Proofs.Step.tx :: post ∧
      Proofs.Failed (Proofs.run pre s0).1 (Proofs.run pre s0).1.processTx.1 r0) := by
  have hdata : ∀ l : List Bytes, (l.map (Proofs.msgFor s0 r0 p)).map (·.data) = l := by
    intro l; simp [List.map_map, Function.comp_def, Proofs.msgFor, Proofs.frameMsg]
  have hfrom : ∀ l : List Bytes, FromSender s0.addr (l.map (Proofs.msgFor s0 r0 p)) := by
    intro l m hm
    obtain ⟨d, _, rfl⟩ := List.mem_map.mp hm
    exact ⟨⟨_, rfl⟩, rfl⟩
  rcases C02.frames_are_segmentation s0 r0 p hv hfr h1 hn steps s0 0 hl (Or.inl ⟨rfl, hq⟩) with
    ⟨_, _, hsent⟩ | ⟨pre, post, hsteps, _, _, _, _, ⟨d, hout, hall, hfin, _⟩ | hfail⟩
  · left
    unfold Proofs.Sent at hsent
    rw [List.drop_zero] at hsent
    constructor
    · rw [hsent]; exact hfrom _
    · conv => lhs; rw [hsent]
      rw [hdata]; rfl
  · right; left
    rw [List.drop_zero] at hall
    refine ⟨pre, post, _, hsteps, hout, hfin, ?_, ?_⟩
    · rw [hall]; exact hfrom _
    · rw [hall, hdata]; rfl
  · right; right
    exact ⟨pre, post, hsteps, hfail⟩

/-- Sender model → link → receiver model, closed: for every run of the sender from the moment the request for `p` is
    at the head of its queue, either the transfer is still in flight (a prefix of the frames is out), or it failed,
    or the request completed with success and then the frames the sender emitted, put on the bus in that order,
    make the mirrored receiver (idle before) deliver exactly `p` — `recv()` finds it appended to the queue — with
    no reception error. -/
theorem e2e_sender_receiver (s0 : State) (r0 : Req) (p : Bytes) (hv : s0.cfg.valid = true) (hfr : Proofs.Fresh r0 p)
    (steps : List Proofs.Step) (hl : Proofs.Live s0 s0) (hq : Proofs.TxQueued s0 r0)
    (sb : State) (h : Link s0.cfg s0.addr sb) (hs : Sendable sb [p]) (hidle : sb.rxState = .idle) :
    ((Proofs.run steps s0).2.map (·.data) =
        (Spec.segment (Spec.TxCfg.of s0.cfg s0.addr) p).take (Proofs.run steps s0).2.length) ∨
    (∃ pre post last, steps = pre ++ Proofs.Step.tx :: post ∧
      (Proofs.run pre s0).1.processTx.2.1 = some last ∧
      Proofs.Finished (Proofs.run pre s0).1 (Proofs.run pre s0).1.processTx.1 r0 ∧
      (linkFeed sb ((Proofs.run pre s0).2 ++ [last])).rxQueue = sb.rxQueue ++ [p] ∧
      (linkFeed sb ((Proofs.run pre s0).2 ++ [last])).rxState = .idle ∧
      rxTrace (linkFeed sb ((Proofs.run pre s0).2 ++ [last])) = rxTrace sb ++ [.deliver p]) ∨
    (∃ pre post, steps = pre ++ Proofs.Step.tx :: post ∧
      Proofs.Failed (Proofs.run pre s0).1 (Proofs.run pre s0).1.processTx.1 r0) := by
  have hp := hs p (by simp)
  rcases e2e_sender s0 r0 p hv hfr hp.1 hp.2.2 steps hl hq with ⟨_, hd⟩ | ⟨pre, post, last, h1, h2, h3, h4, h5⟩ | hf
  · exact Or.inl hd
  · exact Or.inr (Or.inl ⟨pre, post, last, h1, h2, h3, e2e_one_message_wire _ _ sb h p hs hidle _ h4 h5⟩)
  · exact Or.inr (Or.inr hf)

/-! ## Non-vacuity: concrete configurations -/

/-- classic CAN, normal 11-bit addressing, default configuration on both sides (TX_DL 8, blocksize 8) -/
def exTx : Half :=
  { mode := .n11, txid := some 0x123, rxid := some 0x456, ta := none, sa := none, ae := none,
    physId := 0, funcId := 0, rxOnly := false, txOnly := false }
def exA : Addr := { tx := exTx, rx := exTx }
def exB : Addr := { tx := Spec.mirror exTx, rx := Spec.mirror exTx }
def exCa : Cfg := {}
def sB : State := State.init {} exB
/-- two queued messages: 20 bytes (First Frame + 2 Consecutive Frames) and 3 bytes (Single Frame) -/
def exP1 : Bytes := (List.range 20).map UInt8.ofNat
def exP2 : Bytes := [0xAA, 0xBB, 0xCC]

example : Link exCa exA sB := ⟨by decide, by decide, rfl⟩
example : Sendable sB [exP1, exP2] := by unfold Sendable; decide
example : sB.rxState = .idle ∧ sB.rxQueue = [] := by decide
example : (wire exCa exA exP1).map (·.data) =
    [[0x10, 20, 0, 1, 2, 3, 4, 5], [0x21, 6, 7, 8, 9, 10, 11, 12], [0x22, 13, 14, 15, 16, 17, 18, 19]] := by decide
example : wire exCa exA exP2 = [{ id := 0x123, ext := false, data := [3, 0xAA, 0xBB, 0xCC] }] := by decide
example : ∀ m ∈ wire exCa exA exP1, sB.addr.rx.isForMe m = true := by decide
example : (linkFeed sB ([exP1, exP2].map (wire exCa exA)).flatten).rxQueue = [exP1, exP2] := by decide
example : (linkFeed sB ([exP1, exP2].map (wire exCa exA)).flatten).log = [.deliver exP2, .deliver exP1] := by decide
-- after 2 of the 4 frames nothing is delivered yet; after 3, the first message only
example : completeIn (Spec.segment (Spec.TxCfg.of exCa exA)) [exP1, exP2] 2 = [] ∧
    completeIn (Spec.segment (Spec.TxCfg.of exCa exA)) [exP1, exP2] 3 = [exP1] ∧
    completeIn (Spec.segment (Spec.TxCfg.of exCa exA)) [exP1, exP2] 4 = [exP1, exP2] := by decide
example : (linkFeed sB (([exP1, exP2].map (wire exCa exA)).flatten.take 3)).rxQueue = [exP1] := by decide
example : (recvN 2 (linkFeed sB ([exP1, exP2].map (wire exCa exA)).flatten)).1 = [some exP1, some exP2] ∧
    (recvN 2 (linkFeed sB ([exP1, exP2].map (wire exCa exA)).flatten)).2.recv.2 = none := by decide
example : Feeds sB (stream (Spec.segment (Spec.TxCfg.of exCa exA)) [exP1, exP2])
    (feed sB ([exP1, exP2].map (wire exCa exA)).flatten) := by
  have := feeds_feed ([exP1, exP2].map (wire exCa exA)).flatten sB
  rwa [wire_data] at this

/-- CAN FD sender (TX_DL 16, padding 0xAA, minimum length 12) with extended 11-bit addressing (one prefix byte);
    receiver with blocksize 2, stmin 5 and its own, different, transmit parameters -/
def exTxE : Half :=
  { mode := .e11, txid := some 0x700, rxid := some 0x701, ta := some 0x55, sa := some 0x66, ae := none,
    physId := 0, funcId := 0, rxOnly := false, txOnly := false }
def exAE : Addr := { tx := exTxE, rx := exTxE }
def exCaE : Cfg := { txDl := 16, txPadding := some 0xAA, txMinLen := some 12, canFd := true }
def sBE : State :=
  State.init { blocksize := 2, stmin := 5, txDl := 8, maxFrameSize := 100 } { tx := Spec.mirror exTxE, rx := Spec.mirror exTxE }
def exP3 : Bytes := (List.range 30).map UInt8.ofNat
def exP4 : Bytes := [1, 2, 3, 4, 5, 6, 7, 8, 9, 10]

example : Link exCaE exAE sBE := ⟨by decide, by decide, rfl⟩
example : Sendable sBE [exP3, exP4, exP2] := by unfold Sendable; decide
example : (wire exCaE exAE exP4).map (·.data) = [[0x55, 0x00, 10, 1, 2, 3, 4, 5, 6, 7, 8, 9, 10, 0xAA, 0xAA, 0xAA]] := by
  decide
example : ((wire exCaE exAE exP3).map (·.data)).getLast? =
    some [0x55, 0x22, 27, 28, 29, 0xAA, 0xAA, 0xAA, 0xAA, 0xAA, 0xAA, 0xAA] := by decide
example : (linkFeed sBE ([exP3, exP4, exP2].map (wire exCaE exAE)).flatten).rxQueue = [exP3, exP4, exP2] := by decide
-- a foreign frame (other identifier) on the same bus is ignored
example : (linkFeed sBE [{ id := 0x123, ext := false, data := [0x55, 0x02, 1, 2] }]).rxQueue = [] := by decide

/-- sender model → receiver model on the concrete transfer of C02 (First Frame, Flow Control from the peer, two
    Consecutive Frames): the sender's output, fed to the mirrored receiver, delivers the payload -/
def sBx : State := State.init {} { tx := Spec.mirror C02.exHalf, rx := Spec.mirror C02.exHalf }
example : Link C02.exState.cfg C02.exState.addr sBx := ⟨by decide, by decide, rfl⟩
example : Proofs.Live C02.exState C02.exState ∧ Proofs.TxQueued C02.exState C02.exReq :=
  ⟨⟨rfl, rfl, rfl, (by intro h; cases h), Proofs.QLog.refl _⟩, rfl, rfl, [], rfl⟩
example : (linkFeed sBx (Proofs.run [.tx, .op (.rx C02.exFc), .tx, .tx] C02.exState).2).rxQueue = [C02.exPayload] := by
  decide

end Isotp.C01

#print axioms Isotp.C01.e2e_accepted
#print axioms Isotp.C01.e2e_accepted_wire
#print axioms Isotp.C01.e2e_one_message
#print axioms Isotp.C01.e2e_one_message_nothing_earlier
#print axioms Isotp.C01.e2e_one_message_wire
#print axioms Isotp.C01.e2e_messages
#print axioms Isotp.C01.e2e_messages_any_state
#print axioms Isotp.C01.e2e_messages_prefix
#print axioms Isotp.C01.e2e_messages_wire
#print axioms Isotp.C01.e2e_messages_wire_prefix
#print axioms Isotp.C01.e2e_messages_wire_concrete
#print axioms Isotp.C01.e2e_recv
#print axioms Isotp.C01.e2e_sender
#print axioms Isotp.C01.e2e_sender_receiver
