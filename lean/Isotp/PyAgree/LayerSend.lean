import Isotp.PyAgree.EvalLemmas
import Isotp.PyAgree.MiscLemmas
import Isotp.PyAgree.AddressFns
import Isotp.Process
/-!
  Source agreement for the user-facing entry points of `TransportLayerLogic` that are not part of the rx / tx state machines:

  * A. `send` (`Src.TransportLayerLogic_send`) = `State.send`, FOR ALL STATES AND ARGUMENTS (`send_agrees`, `send_raises_iff`,
       `send_enqueues`, `send_blocking_enqueues_then_raises`, `sendEnv_frame`);
  * B. `SendRequest.complete` (`complete_agrees`, `complete_records_done`);
  * C. `set_address` (`set_address_sym_agrees` = `mkSym`, `set_address_asym_agrees`, `set_address_rejects_non_address`);
  * D. `load_params` (`load_params_agrees`).

  All the machinery lives in the namespace `Isotp.PyAgree.Send` so that the generic names cannot clash with the other agreement files.
-/
namespace Isotp.PyAgree
open Isotp Isotp.Py

namespace Send

/-! ## 0. Infrastructure -/

theorem set_get (env : Env) (k : String) (v : PV) (k' : String) :
    (env.set k v) k' = if k' = k then some v else env k' := rfl

/-- the names the interpreter treats as builtins; every other call goes to `Meths` -/
def builtinNames : List String :=
  ["len", "int", "bool", "min", "max", "bytes", "isinstance_int", "isinstance_bool", "isinstance_float", "isinstance_int_float"]

theorem evalBuiltin_none (fn : String) (args : List PV) (h : fn ∉ builtinNames) : evalBuiltin fn args = none := by
  simp only [builtinNames, List.mem_cons, List.not_mem_nil, or_false, not_or] at h
  unfold evalBuiltin; split <;> simp_all

/-- the n-th top-level statement of a block -/
def nth : PBlock → Nat → PStmt
  | .nil, _ => .pass
  | .cons s _, 0 => s
  | .cons _ r, n + 1 => nth r n

/-- the block from its n-th top-level statement on -/
def drop : PBlock → Nat → PBlock
  | b, 0 => b
  | .nil, _ + 1 => .nil
  | .cons _ r, n + 1 => drop r n

/-- the first n top-level statements of a block -/
def take : PBlock → Nat → PBlock
  | _, 0 => .nil
  | .nil, _ + 1 => .nil
  | .cons s r, n + 1 => .cons s (take r n)

/-- concatenation of blocks -/
def append : PBlock → PBlock → PBlock
  | .nil, b => b
  | .cons s r, b => .cons s (append r b)

theorem step_next {M : Meths} {env env' : Env} {b : PBlock} {n : Nat}
    (hb : drop b n = .cons (nth b n) (drop b (n + 1)))
    (h : execStmt M env (nth b n) = .ok (.next env')) :
    execBlock M env (drop b n) = execBlock M env' (drop b (n + 1)) := by
  rw [hb]; simp only [execBlock, h, ok_bind]

theorem step_err {M : Meths} {env : Env} {b : PBlock} {n : Nat} {e : PErr}
    (hb : drop b n = .cons (nth b n) (drop b (n + 1)))
    (h : execStmt M env (nth b n) = .error e) :
    execBlock M env (drop b n) = .error e := by
  rw [hb]; simp only [execBlock, h, error_bind]

/-- running `b1; b2`: `b2` starts in the environment `b1` falls through with -/
theorem execBlock_append (M : Meths) : ∀ (b1 b2 : PBlock) (env : Env),
    execBlock M env (append b1 b2) =
      match execBlock M env b1 with
      | .ok (.next env') => execBlock M env' b2
      | r => r
  | .nil, b2, env => by simp only [append, execBlock]
  | .cons s r, b2, env => by
    simp only [append, execBlock]
    cases hs : execStmt M env s with
    | error e => simp only [error_bind]
    | ok f =>
      cases f with
      | next env' => simp only [ok_bind]; exact execBlock_append M r b2 env'
      | returned v env' => simp only [ok_bind]

theorem runFn_next {M : Meths} {env env' : Env} {b : PBlock} (h : execBlock M env b = .ok (.next env')) :
    runFn M env b = .ok (pnone, env') := by simp [runFn, h]
theorem runFn_err {M : Meths} {env : Env} {b : PBlock} {e : PErr} (h : execBlock M env b = .error e) :
    runFn M env b = .error e := by simp [runFn, h]

end Send
open Send

end Isotp.PyAgree
