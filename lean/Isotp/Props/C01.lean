import Isotp.Process
/-
  C01 — property theorems (see DESIGN.md §6). Helper lemmas live in Isotp/Proofs.
-/
namespace Isotp.C01
open Isotp State

end Isotp.C01
