import Isotp.Process
/-
  C03 — property theorems (see DESIGN.md §6). Helper lemmas live in Isotp/Proofs.
-/
namespace Isotp.C03
open Isotp State

end Isotp.C03
