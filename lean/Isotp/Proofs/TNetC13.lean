import Isotp.Proofs.TNetDefs
import Isotp.Props.C13
/-
  C13, network level — the bridge to the single-peer threaded library (Proofs/Threaded.lean, Props/C13.lean).

  That library and the network library (Proofs/NetSafety.lean) declare lemmas of the same names and cannot be imported
  together; Props/C13net.lean is on the network side and re-proves the few list facts it needs. This file, on the
  other side, ties the definitions of Proofs/TNetDefs.lean to those of Props/C13.lean:

  * every step of a thread of peer `b` in `TNet.step` IS the corresponding `TL.step` of the C13 library applied to
    that peer (`step_*`), between `TNet.enter` and `TNet.leave`;
  * the program of a user thread (`TNet.programOf`) is the payload list of C13's `accepted`, and the per-thread order
    of C13 (`C13.per_thread_order`) gives the sub-list property used in Props/C13net.lean;
  * `C13.wakeup` for the worker iteration that follows an accepted `userSend`.
-/
namespace Isotp.TNetC13
open Isotp TL

/-- the `send` calls on peer `b` in a thread schedule, as steps of the single-peer library -/
def sendsOf (b : Bool) (sched : List TStep) : List TL.Step :=
  sched.filterMap fun s => match s with
    | .userSend b' a => if b' = b then some (.send a) else none
    | _ => none

theorem sendsOf_sublist (b : Bool) (thread sched : List TStep) (h : thread.Sublist sched) :
    (sendsOf b thread).Sublist (sendsOf b sched) := h.filterMap _

/-- `TNet.accepts` is the negation of the argument check `sendBad` of the single-peer library -/
theorem accepts_eq (c : Cfg) (ad : Addr) (a : State.SendArgs) :
    TNet.accepts c ad a = !(State.init c ad).sendBad a := by
  unfold TNet.accepts
  rw [State.send_eq]
  cases h : (State.init c ad).sendBad a
  · cases (State.init c ad).cfg.blocking <;> simp
  · simp

/-- the program of a thread = the payloads of the requests C13's `accepted` collects -/
theorem programOf_eq_accepted (c : Cfg) (ad : Addr) (b : Bool) (sched : List TStep) :
    TNet.programOf c ad b sched = (accepted (State.init c ad) (sendsOf b sched)).map (·.src) := by
  induction sched with
  | nil => rfl
  | cons s ss ih =>
    cases s with
    | userSend b' a =>
      by_cases hb : b' = b
      · subst hb
        cases hbad : (State.init c ad).sendBad a
        · have hacc : TNet.accepts c ad a = true := by rw [accepts_eq, hbad]; rfl
          simp only [TNet.programOf, sendsOf, accepted, List.filterMap_cons, accept?, hbad, hacc, and_self, if_true,
            Bool.false_eq_true, if_false, List.map_cons] at ih ⊢
          rw [ih]
          rfl
        · have hacc : TNet.accepts c ad a = false := by rw [accepts_eq, hbad]; rfl
          simp only [TNet.programOf, sendsOf, accepted, List.filterMap_cons, accept?, hbad, hacc, if_true,
            Bool.false_eq_true, and_false, if_false] at ih ⊢
          exact ih
      · simp only [TNet.programOf, sendsOf, accepted, List.filterMap_cons, hb, false_and, if_false] at ih ⊢
        exact ih
    | _ => simpa [TNet.programOf, sendsOf, accepted, List.filterMap_cons] using ih

/-- **per-thread order, through `C13.per_thread_order`** -/
theorem program_sublist (c : Cfg) (ad : Addr) (b : Bool) (thread sched : List TStep) (h : thread.Sublist sched) :
    (TNet.programOf c ad b thread).Sublist (TNet.programOf c ad b sched) := by
  rw [programOf_eq_accepted, programOf_eq_accepted]
  exact (C13.per_thread_order (State.init c ad) _ _ (sendsOf_sublist b thread sched h)).map _

/-! ### the steps of the threads of a peer are the steps of the single-peer library -/

theorem step_userSend (d : TNet) (b : Bool) (a : State.SendArgs) :
    (d.step (.userSend b a)).1 = (d.leave b ((d.enter b).step (.send a)).1).1 := rfl
theorem step_userRecv (d : TNet) (b : Bool) :
    (d.step (.userRecv b)).1 = (d.leave b ((d.enter b).step .recv).1).1 := rfl
theorem step_relay (d : TNet) (b : Bool) : (d.step (.relay b)).1 = d.set b ((d.get b).step .relayStep).1 := rfl
theorem step_worker (d : TNet) (b : Bool) :
    (d.step (.worker b)).1 = (d.leave b ((d.enter b).step .workerStep).1).1 := rfl
theorem step_noise (d : TNet) (b : Bool) (m : CanMsg) :
    (d.step (.noise b m)).1 = d.set b ((d.get b).step (.busPut m)).1 := rfl

/-- **wake-up, through `C13.wakeup`**: the worker iteration of peer `b` that directly follows an accepted `send` -/
theorem wakeup (d : TNet) (b : Bool) (a : State.SendArgs) (h : ((d.enter b).send a).2 ≠ some .ValueError)
    (hl : (d.get b).workerLive = true) :
    ∃ (ms : List CanMsg) (rest : List (Option CanMsg)),
      (d.get b).relayQ ++ [none] = ms.map some ++ none :: rest ∧
      ((d.enter b).send a).1.workerStep =
        { ((d.enter b).send a).1 with
            core := ((feed { (d.enter b).core with txQueue := (d.enter b).core.txQueue ++ [(d.enter b).core.sendReq a] } ms).process true true).1,
            relayQ := rest } :=
  C13.wakeup (d.enter b) a h hl

end Isotp.TNetC13

#print axioms Isotp.TNetC13.program_sublist
#print axioms Isotp.TNetC13.programOf_eq_accepted
#print axioms Isotp.TNetC13.wakeup
