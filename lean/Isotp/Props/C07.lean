import Isotp.Proofs.Timers
/-
  C07 — timeouts fire exactly when the deadline is missed, and only then.

  Model: N_Cr = `s.timerCf` (timeout `cfg.tCf`), tested by `checkTimeoutsRx` after every `rxfn` return of
  the rx loop of `process` (`rxArrive` below is that step); N_Bs = `s.timerFc` (timeout `cfg.tFc`), tested
  inside `processTx` after the Flow Control mailbox has been consumed.
  Helper lemmas: `Isotp/Proofs/Timers.lean`.

  Vocabulary (all in `Isotp.State`, defined in the helper file):
  * `RxTimerInv s`  : (rx idle → N_Cr stopped) ∧ N_Cr.timeout = cfg.tCf
  * `RxPendInv s`   : rx idle → no ContinueToSend Flow Control pending
  * `RxTimerInv2 s` : WAIT_CF with N_Cr stopped → a ContinueToSend is pending (its hand-out restarts N_Cr)
  * `RxInv s`       : the three together (this is the inductive invariant; `RxTimerInv` alone is not, see
                      `rxTimerInv_alone_not_inductive`)
  * `TxTimerInv s`  : N_Bs runs exactly in WAIT_FC, and N_Bs.timeout = cfg.tFc
  * `TimerInv s`    : `RxInv s ∧ TxTimerInv s`
  * `LogExt P s s'` : `s'.log = new ++ s.log` with every event of `new` satisfying `P`
  * `TxEv e`        : `e` is `done`, `pull` or an error of class BadGenerator / UnexpectedFlowControl /
                      UnsupportedWaitFrame / MaximumWaitFrameReached / Overflow (no timeout, no frame)
-/
set_option linter.unusedSimpArgs false
set_option linter.unusedVariables false

namespace Isotp.C07
open Isotp State

/-! concrete layer used by the non-vacuity examples and the witnesses -/
def h11 : Half := { mode := .n11, txid := some 0x123, rxid := some 0x456, ta := none, sa := none, ae := none,
                    physId := 0, funcId := 0, rxOnly := false, txOnly := false }
def addr : Addr := { tx := h11, rx := h11 }
def cfg : Cfg := {}

/-! ## 1 + 3. the timer invariants hold in every reachable state -/

/-- states reachable from a freshly constructed layer by the public operations (and the two harness
    operations `advance` = time passes, `pushFrame` = the bus delivers a frame) -/
inductive Reachable : State → Prop
  | init (c : Cfg) (a : Addr) : Reachable (State.init c a)
  | send {s} (a : SendArgs) : Reachable s → Reachable (s.send a).1
  | recv {s} : Reachable s → Reachable s.recv.1
  | process {s} (doRx doTx : Bool) : Reachable s → Reachable (s.process doRx doTx).1
  | stopSending {s} (ok : Bool) : Reachable s → Reachable (s.stopSending ok)
  | stopReceiving {s} : Reachable s → Reachable s.stopReceiving
  | reset {s} : Reachable s → Reachable s.reset
  | advance {s} (dt : Nat) : Reachable s → Reachable (s.advance dt)
  | pushFrame {s} (dt : Nat) (m : CanMsg) : Reachable s → Reachable (s.pushFrame dt m)

/-- the invariants hold initially -/
theorem timer_inv_init (c : Cfg) (a : Addr) : TimerInv (State.init c a) := TimerInv_init c a

/-- … and are preserved by every operation of the layer, for ANY frame `m` (a Single Frame or a too long
    First Frame interrupting a reception included), any inbox, any flags -/
theorem timer_inv_preserved (s : State) (h : TimerInv s) :
    (∀ m, TimerInv (s.processRx m).1) ∧ TimerInv s.checkTimeoutsRx ∧ TimerInv s.processTx.1 ∧
    (∀ a, TimerInv (s.send a).1) ∧ TimerInv s.recv.1 ∧ (∀ ok, TimerInv (s.stopSending ok)) ∧
    TimerInv s.stopReceiving ∧ TimerInv s.reset ∧ (∀ dt, TimerInv (s.advance dt)) ∧
    (∀ dt m, TimerInv (s.pushFrame dt m)) ∧
    (∀ doTx st l, TimerInv (rxLoop doTx s st l).1) ∧ (∀ f n, TimerInv (txLoop f s n).1) ∧
    (∀ f doRx doTx st, TimerInv (processLoop f doRx doTx s st).1) ∧
    (∀ doRx doTx, TimerInv (s.process doRx doTx).1) :=
  ⟨fun m => TimerInv_processRx s m h, TimerInv_checkTimeoutsRx s h, TimerInv_processTx s h,
   fun a => TimerInv_send s a h, TimerInv_recv s h, fun ok => TimerInv_stopSending s ok h,
   TimerInv_stopReceiving s h, TimerInv_reset s h, fun dt => TimerInv_advance s dt h,
   fun dt m => TimerInv_pushFrame s dt m h,
   fun doTx st l => TimerInv_loopInv.rxLoop doTx s st l h, fun f n => TimerInv_loopInv.txLoop f s n h,
   fun f doRx doTx st => TimerInv_loopInv.processLoop f doRx doTx s st h,
   fun doRx doTx => TimerInv_loopInv.process doRx doTx s h⟩

theorem reachable_timer_inv {s : State} (h : Reachable s) : TimerInv s := by
  induction h with
  | init c a => exact timer_inv_init c a
  | send a _ ih => exact (timer_inv_preserved _ ih).2.2.2.1 a
  | recv _ ih => exact (timer_inv_preserved _ ih).2.2.2.2.1
  | process doRx doTx _ ih => exact TimerInv_loopInv.process doRx doTx _ ih
  | stopSending ok _ ih => exact TimerInv_stopSending _ ok ih
  | stopReceiving _ ih => exact TimerInv_stopReceiving _ ih
  | reset _ ih => exact TimerInv_reset _ ih
  | advance dt _ ih => exact TimerInv_advance _ dt ih
  | pushFrame dt m _ ih => exact TimerInv_pushFrame _ dt m ih

/-- no ConsecutiveFrameTimeoutError while no reception is in progress: with the receiver idle the N_Cr
    check does nothing at all, however late it is -/
theorem rx_idle_quiet (s : State) (h : RxTimerInv s) (hi : s.rxState = .idle) :
    s.checkTimeoutsRx = s :=
  checkTimeoutsRx_id s h.2 (not_rxDeadlineMissed_of_idle s h hi)

theorem rx_idle_quiet_reachable {s : State} (h : Reachable s) (hi : s.rxState = .idle) :
    s.checkTimeoutsRx = s := rx_idle_quiet s (reachable_timer_inv h).1.1 hi

/-- a reception cannot hang without a running N_Cr timer: in WAIT_CF the timer runs, or the
    ContinueToSend whose hand-out restarts it is pending — and the next tx pass does restart it -/
theorem rx_waitCf_guarded {s : State} (h : Reachable s) (hw : s.rxState = .waitCf) :
    (∃ t0, s.timerCf.start = some t0) ∨
    (s.pendingFc = true ∧ s.pendingFcStatus = some 0 ∧
      s.processTx.1.timerCf = { start := some s.now, timeout := s.cfg.tCf }) := by
  have h2 := (reachable_timer_inv h).1.2.2
  cases hs : s.timerCf.start with
  | some t0 => exact Or.inl ⟨t0, rfl⟩
  | none =>
    obtain ⟨hp, hst⟩ := h2 hw hs
    exact Or.inr ⟨hp, hst, processTx_restarts_timerCf s hp hst⟩

/-- `RxTimerInv` by itself is not inductive: a (unreachable) idle state with a ContinueToSend pending
    satisfies it, and `processTx` would start N_Cr there. `RxPendInv` is what excludes such states. -/
theorem rxTimerInv_alone_not_inductive :
    ∃ s : State, RxTimerInv s ∧ ¬ RxTimerInv s.processTx.1 :=
  ⟨{ State.init cfg addr with pendingFc := true, pendingFcStatus := some 0 },
   by unfold RxTimerInv; decide +kernel, by unfold RxTimerInv; decide +kernel⟩

/-! ## 2. N_Cr fires iff the deadline is missed -/

/-- `checkTimeoutsRx` reports `ConsecutiveFrameTimeout` — one event, reception closed with the buffer
    dropped, nothing delivered — exactly when N_Cr runs since `t0` and more than `tCf` has elapsed (or
    `tCf = 0`); this can only be in WAIT_CF; otherwise it is the identity -/
theorem rx_iff (s : State) (h : RxTimerInv s) :
    ((∃ t0, s.timerCf.start = some t0 ∧ (s.now - t0 > s.cfg.tCf ∨ s.cfg.tCf = 0)) →
        s.rxState = .waitCf ∧
        s.checkTimeoutsRx =
          { s with log := .err s.now .ConsecutiveFrameTimeout :: s.log, actualRxdl := none,
                   rxState := .idle, rxBuf := [], pendingFc := false, lastFc := none,
                   timerCf := { start := none, timeout := s.cfg.tCf } }) ∧
    (¬ (∃ t0, s.timerCf.start = some t0 ∧ (s.now - t0 > s.cfg.tCf ∨ s.cfg.tCf = 0)) →
        s.checkTimeoutsRx = s) := by
  refine ⟨fun hd => ⟨?_, checkTimeoutsRx_fire s h.2 hd⟩, fun hd => checkTimeoutsRx_id s h.2 hd⟩
  cases hs : s.rxState with
  | idle => exact absurd hd (not_rxDeadlineMissed_of_idle s h hs)
  | waitCf => rfl

/-- the same as an equivalence on the log: one new event, or none -/
theorem rx_timeout_logged_iff (s : State) (h : RxTimerInv s) :
    (s.checkTimeoutsRx.log = .err s.now .ConsecutiveFrameTimeout :: s.log ↔
      ∃ t0, s.timerCf.start = some t0 ∧ (s.now - t0 > s.cfg.tCf ∨ s.cfg.tCf = 0)) ∧
    (s.checkTimeoutsRx.log = s.log ↔
      ¬ ∃ t0, s.timerCf.start = some t0 ∧ (s.now - t0 > s.cfg.tCf ∨ s.cfg.tCf = 0)) ∧
    s.checkTimeoutsRx.rxQueue = s.rxQueue := by
  by_cases hd : ∃ t0, s.timerCf.start = some t0 ∧ (s.now - t0 > s.cfg.tCf ∨ s.cfg.tCf = 0)
  · have := ((rx_iff s h).1 hd).2
    rw [this]
    refine ⟨⟨fun _ => hd, fun _ => rfl⟩, ⟨fun hl => ?_, fun hn => absurd hd hn⟩, rfl⟩
    have := congrArg List.length hl
    simp at this
  · have := (rx_iff s h).2 hd
    rw [this]
    refine ⟨⟨fun hl => ?_, fun h' => absurd h' hd⟩, ⟨fun _ => hd, fun _ => rfl⟩, rfl⟩
    have := congrArg List.length hl
    simp at this

/-- the step of the rx loop for a frame addressed to the layer: `rxArrive` (clock advanced by the
    blocking delay, frame logged, N_Cr checked), then `processRx` -/
theorem rxLoop_step (doTx : Bool) (s : State) (st : Stats) (dt : Nat) (m : CanMsg)
    (rest : List (Nat × CanMsg)) (hme : s.addr.rx.isForMe m = true) :
    rxLoop doTx s st ((dt, m) :: rest) =
      (let r := (s.rxArrive dt m rest).processRx m
       let st1 : Stats := { st with received := st.received + 1, processed := st.processed + 1 }
       let st' : Stats := if r.2.2 then { st1 with frames := st1.frames + 1 } else st1
       if r.2.1 then (r.1, st', false)
       else if doTx && r.1.txTimeDriven then (r.1, st', true)
       else rxLoop doTx r.1 st' rest) :=
  rxLoop_cons_forMe doTx s st dt m rest hme

/-- a frame processed before the deadline is always accepted: an in-sequence Consecutive Frame
    (`CfInSeq`: decodes to `cf sn data`, WAIT_CF, `sn` is the expected number, RX_DL acceptable) returned
    by `rxfn` at `now + dt ≤ t0 + tCf` passes the N_Cr check untouched, no error is reported, its data is
    appended (or the completed message delivered), and N_Cr is fresh again -/
theorem accepted_before_deadline (s : State) (dt : Nat) (m : CanMsg) (rest : List (Nat × CanMsg))
    (t0 : Nat) (d : Decoded) (sn : Nat) (data : Bytes)
    (hinv : RxTimerInv s) (ht : s.timerCf.start = some t0) (hpos : 0 < s.cfg.tCf)
    (hle : s.now + dt ≤ t0 + s.cfg.tCf) (hcf : CfInSeq s m d sn data) :
    let s1 := s.rxArrive dt m rest
    let r := (s1.processRx m).1
    s1 = ({ s with inbox := rest, now := s.now + dt } : State).emit (.rx (s.now + dt) m) ∧
    ((s.cfBuf data).length < s.rxFrameLen →
      r.log = .rx (s.now + dt) m :: s.log ∧ r.rxBuf = s.cfBuf data ∧ r.rxState = .waitCf ∧
      r.lastSeq = sn ∧ r.rxQueue = s.rxQueue ∧
      (r.timerCf.start = some (s.now + dt) ∨
        (r.timerCf.start = none ∧ r.pendingFc = true ∧ r.pendingFcStatus = some 0))) ∧
    (s.rxFrameLen ≤ (s.cfBuf data).length →
      r.log = .deliver (s.cfBuf data) :: .rx (s.now + dt) m :: s.log ∧
      r.rxQueue = s.rxQueue ++ [s.cfBuf data] ∧ r.rxState = .idle ∧ r.timerCf.start = none) := by
  have h1 : s.rxArrive dt m rest =
      ({ s with inbox := rest, now := s.now + dt } : State).emit (.rx (s.now + dt) m) :=
    checkTimeoutsRx_id _ hinv.2 (not_rxDeadlineMissed_of_le _ t0 ht hpos hle)
  have hcf' : CfInSeq (({ s with inbox := rest, now := s.now + dt } : State).emit (.rx (s.now + dt) m))
      m d sn data := ⟨hcf.dec, hcf.pdu, hcf.wait, hcf.seq, hcf.rxdl⟩
  simp only [h1]
  refine ⟨trivial, fun hl => ?_, fun hl => ?_⟩
  · have := processRx_cf_more hcf' hl
    exact ⟨this.1, this.2.1, this.2.2.2.2.1, this.2.2.1, this.2.2.2.1, this.2.2.2.2.2.1⟩
  · have := processRx_cf_last hcf' hl
    exact ⟨this.1, this.2.1, this.2.2.1, this.2.2.2.1⟩

/-- the three points where N_Cr is (re)started, always at the current instant: an accepted First Frame,
    an accepted intermediate Consecutive Frame (unless it ends a block: then the timer is stopped until
    the Flow Control goes out), and the hand-out of the ContinueToSend by `processTx` -/
theorem ncr_restart_points (s : State) (m : CanMsg) (d : Decoded) :
    (∀ len data esc, FfAccepted s m d len data esc →
      (s.processRx m).1.rxState = .waitCf ∧
      (s.processRx m).1.timerCf = { start := some s.now, timeout := s.cfg.tCf } ∧
      (s.processRx m).1.pendingFc = true ∧ (s.processRx m).1.pendingFcStatus = some 0) ∧
    (∀ sn data, CfInSeq s m d sn data → (s.cfBuf data).length < s.rxFrameLen →
      ((s.processRx m).1.timerCf.start = some s.now ∨
        ((s.processRx m).1.timerCf.start = none ∧ (s.processRx m).1.pendingFc = true ∧
          (s.processRx m).1.pendingFcStatus = some 0))) ∧
    (s.pendingFc = true → s.pendingFcStatus = some 0 →
      s.processTx.1.timerCf = { start := some s.now, timeout := s.cfg.tCf }) := by
  refine ⟨fun len data esc h => ?_, fun sn data h hl => (processRx_cf_more h hl).2.2.2.2.2.1,
    processTx_restarts_timerCf s⟩
  have := processRx_ff_start h
  exact ⟨this.1, this.2.2.2.1, this.2.2.2.2.1, this.2.2.2.2.2⟩

/-! ## 3. N_Bs: quiet unless waiting for a Flow Control -/

/-- N_Bs cannot be expired outside WAIT_FC — in particular not while idle -/
theorem tx_idle_quiet (s : State) (h : TxTimerInv s) (hs : s.txState ≠ .waitFc) (now : Nat) :
    s.timerFc.timedOut now = false := not_timedOut_of_not_waitFc s h hs now

/-- a whole transmit pass that starts idle reports no FlowControlTimeoutError (whatever is in the Flow
    Control mailbox, whatever the queue holds): its new events are all `TxEv` -/
theorem tx_idle_pass_quiet (s : State) (h : TxTimerInv s) (hi : s.txState = .idle) :
    ∃ new, s.processTx.1.log = new ++ s.log ∧ ∀ e ∈ new, TxEv e ∧
      ∀ t, e ≠ .err t .FlowControlTimeout := by
  obtain ⟨new, h1, h2⟩ := processTx_idle_quiet s h hi
  refine ⟨new, h1, fun e he => ⟨h2 e he, fun t heq => ?_⟩⟩
  have := h2 e he
  rw [heq] at this
  simp [TxEv, txErr] at this

/-- the points where N_Bs is started, always at the current instant: whenever a pass enters WAIT_FC
    (First Frame sent directly or out of standby, end of a block), and at an accepted Wait frame -/
theorem nbs_start_points (s : State) (h : TxTimerInv s) :
    (s.txState ≠ .waitFc → s.processTx.1.txState = .waitFc →
      s.processTx.1.timerFc = { start := some s.now, timeout := s.cfg.tFc }) ∧
    (∀ f, s.txState = .waitFc → s.lastFc = some f → f.status = 1 → s.wftCnt < s.cfg.wftmax →
      ¬ (∃ t0, s.timerFc.start = some t0 ∧ (s.now - t0 > s.cfg.tFc ∨ s.cfg.tFc = 0)) →
      s.txFc = ({ s with lastFc := none, wftCnt := s.wftCnt + 1, txState := .waitFc,
                         timerFc := { start := some s.now, timeout := s.cfg.tFc } }, false)) :=
  ⟨processTx_enters_waitFc s h, fun f hw hf h1 hm hd => txFc_wait_restarts s hw h.2.2 hd f hf h1 hm⟩

/-! ## 4. N_Bs fires iff the deadline is missed -/

/-- deadline missed in WAIT_FC (no Flow Control of our own to send first, mailbox empty or holding
    anything but Overflow — a ContinueToSend or Wait that came too late is NOT honoured) and nothing else
    queued: the pass reports exactly one FlowControlTimeoutError, completes the request with failure,
    outputs no frame, and leaves the FSM idle with N_Bs stopped -/
theorem tx_timeout_fires (s : State) (r : Req) (t0 : Nat)
    (hp : s.pendingFc = false) (hw : s.txState = .waitFc) (ha : s.active = some r)
    (hto : s.timerFc.timeout = s.cfg.tFc) (ht : s.timerFc.start = some t0)
    (hd : s.now - t0 > s.cfg.tFc ∨ s.cfg.tFc = 0)
    (hov : ∀ f, s.lastFc = some f → f.status ≠ 2) (hq : s.txQueue = []) :
    s.processTx.2 = (none, false) ∧
    s.processTx.1.log = .done r.id false :: .err s.now .FlowControlTimeout :: s.log ∧
    s.processTx.1.txState = .idle ∧ s.processTx.1.timerFc.start = none ∧
    s.processTx.1.active = none ∧ s.processTx.1.lastFc = none := by
  have := processTx_fc_timeout_empty s hp hw hto ⟨t0, ht, hd⟩ hov hq
  rw [this]
  have hf := txTimedOutState_fields s
  exact ⟨rfl, txTimedOutState_log s r ha, hf.1, hf.2.1, hf.2.2.1, hf.2.2.2.2.2⟩

/-- the same with requests queued behind: the pass goes on from the failed idle state (it may start the
    next request), and logs the one timeout report, the failed completion, then only `TxEv` events -/
theorem tx_timeout_fires_any_queue (s : State) (r : Req) (t0 : Nat)
    (hp : s.pendingFc = false) (hw : s.txState = .waitFc) (ha : s.active = some r)
    (hto : s.timerFc.timeout = s.cfg.tFc) (ht : s.timerFc.start = some t0)
    (hd : s.now - t0 > s.cfg.tFc ∨ s.cfg.tFc = 0)
    (hov : ∀ f, s.lastFc = some f → f.status ≠ 2) :
    s.processTx = s.txTimedOutState.txFsm (s.rl.allowedBytes s.cfg.rlBitMax) ∧
    ∃ new, s.processTx.1.log =
        new ++ .done r.id false :: .err s.now .FlowControlTimeout :: s.log ∧ ∀ e ∈ new, TxEv e := by
  refine ⟨processTx_fc_timeout s hp hw hto ⟨t0, ht, hd⟩ hov, ?_⟩
  obtain ⟨new, h1, h2⟩ := processTx_fc_timeout_log s hp hw hto ⟨t0, ht, hd⟩ hov
  exact ⟨new, by rw [h1, txTimedOutState_log s r ha], h2⟩

/-- the one exception to "iff": an Overflow Flow Control in the mailbox ends the transmission by itself
    (failed completion + OverflowError), deadline missed or not, and no timeout is reported -/
theorem tx_overflow_preempts_timeout (s : State) (hp : s.pendingFc = false) (f : FcFrame)
    (hf : s.lastFc = some f) (h2 : f.status = 2) :
    s.processTx =
      ((({ s with lastFc := none } : State).stopSending false).error .Overflow, none, false) :=
  processTx_overflow s hp f hf h2

/-- before the deadline (`now - t0 ≤ tFc`, `tFc > 0`) the pass reports no FlowControlTimeoutError -/
theorem tx_before_deadline_quiet (s : State) (t0 : Nat)
    (hp : s.pendingFc = false) (hto : s.timerFc.timeout = s.cfg.tFc) (ht : s.timerFc.start = some t0)
    (hpos : 0 < s.cfg.tFc) (hle : s.now - t0 ≤ s.cfg.tFc) :
    ∃ new, s.processTx.1.log = new ++ s.log ∧ ∀ e ∈ new, TxEv e ∧
      ∀ t, e ≠ .err t .FlowControlTimeout := by
  have hd : ¬ TxDeadlineMissed s := by
    rintro ⟨t1, h1, h2⟩
    rw [ht] at h1; cases h1; omega
  obtain ⟨new, h1, h2⟩ := processTx_before_deadline s hp hto hpos hd
  refine ⟨new, h1, fun e he => ⟨h2 e he, fun t heq => ?_⟩⟩
  have := h2 e he
  rw [heq] at this
  simp [TxEv, txErr] at this

/-- … and a ContinueToSend in the mailbox is honoured: N_Bs stopped, FSM in TRANSMIT_CF with the
    announced block size, and the pass carries on sending from that state (`ctsState`) -/
theorem tx_cts_honoured (s : State) (t0 : Nat) (f : FcFrame)
    (hp : s.pendingFc = false) (hw : s.txState = .waitFc)
    (hto : s.timerFc.timeout = s.cfg.tFc) (ht : s.timerFc.start = some t0)
    (hpos : 0 < s.cfg.tFc) (hle : s.now - t0 ≤ s.cfg.tFc)
    (hf : s.lastFc = some f) (h0 : f.status = 0) :
    s.processTx = (s.ctsState f).txFsm (s.rl.allowedBytes s.cfg.rlBitMax) ∧
    (s.ctsState f).txState = .transmitCf ∧ (s.ctsState f).timerFc.start = none ∧
    (s.ctsState f).remoteBs = some f.bs ∧ (s.ctsState f).lastFc = none := by
  have hd : ¬ TxDeadlineMissed s := by
    rintro ⟨t1, h1, h2⟩
    rw [ht] at h1; cases h1; omega
  exact ⟨processTx_cts_honoured s hp hw hto hd f hf h0, rfl, rfl, rfl, rfl⟩

/-! ## 5. one timeout per transfer -/

/-- after a ConsecutiveFrameTimeoutError the receiver is idle with N_Cr stopped, so (by 1) the check
    stays silent — immediately, and in every later state in which the receiver is still idle -/
theorem one_rx_timeout_per_transfer (s : State) (h : TimerInv s)
    (hd : ∃ t0, s.timerCf.start = some t0 ∧ (s.now - t0 > s.cfg.tCf ∨ s.cfg.tCf = 0)) :
    s.checkTimeoutsRx.rxState = .idle ∧ s.checkTimeoutsRx.timerCf.start = none ∧
    s.checkTimeoutsRx.checkTimeoutsRx = s.checkTimeoutsRx ∧
    TimerInv s.checkTimeoutsRx := by
  have hi := TimerInv_checkTimeoutsRx s h
  have he := ((rx_iff s h.1.1).1 hd).2
  have h1 : s.checkTimeoutsRx.rxState = .idle := by rw [he]
  exact ⟨h1, by rw [he], rx_idle_quiet _ hi.1.1 h1, hi⟩

/-- after a FlowControlTimeoutError the transmitter is idle with N_Bs stopped and the invariant holds,
    so (by 3) the next pass — and any pass that starts idle — reports no second timeout -/
theorem one_tx_timeout_per_transfer (s : State) (h : TimerInv s) (r : Req) (t0 : Nat)
    (hp : s.pendingFc = false) (hw : s.txState = .waitFc) (ha : s.active = some r)
    (ht : s.timerFc.start = some t0) (hd : s.now - t0 > s.cfg.tFc ∨ s.cfg.tFc = 0)
    (hov : ∀ f, s.lastFc = some f → f.status ≠ 2) (hq : s.txQueue = []) :
    let s' := s.processTx.1
    s'.txState = .idle ∧ s'.timerFc.start = none ∧ TimerInv s' ∧
    ∃ new, s'.processTx.1.log = new ++ s'.log ∧ ∀ e ∈ new, TxEv e ∧
      ∀ t, e ≠ .err t .FlowControlTimeout := by
  have h1 := tx_timeout_fires s r t0 hp hw ha h.2.2.2 ht hd hov hq
  have hi := TimerInv_processTx s h
  exact ⟨h1.2.2.1, h1.2.2.2.1, hi, tx_idle_pass_quiet _ hi.2 h1.2.2.1⟩

/-! ## non-vacuity: a concrete layer -/

/-- First Frame announcing 20 bytes -/
def ff : CanMsg := { id := 0x456, ext := false, data := [0x10, 20, 1, 2, 3, 4, 5, 6] }
/-- the Consecutive Frame that follows it -/
def cf1 : CanMsg := { id := 0x456, ext := false, data := [0x21, 7, 8, 9, 10, 11, 12, 13] }
def cf1d : Decoded := { pdu := .cf 1 [7, 8, 9, 10, 11, 12, 13], canDl := 8, rxDl := 8 }
def ffd : Decoded := { pdu := .ff 20 [1, 2, 3, 4, 5, 6] false, canDl := 8, rxDl := 8 }
/-- ContinueToSend, block size 0, STmin 0 -/
def fcCts : CanMsg := { id := 0x456, ext := false, data := [0x30, 0, 0] }

/-- receiver in the middle of a reception (First Frame taken at t = 0) -/
def rxMid : State := ((State.init cfg addr).processRx ff).1
/-- the same, its Flow Control sent -/
def rxMid' : State := rxMid.processTx.1

example : rxMid.rxState = .waitCf ∧ rxMid.timerCf.start = some 0 ∧ rxMid.pendingFc = true := by
  decide +kernel
example : Reachable (State.init cfg addr) := .init _ _
example : RxTimerInv rxMid := (TimerInv_processRx _ ff (TimerInv_init cfg addr)).1.1
/-- `rx_iff`, first branch: 1.5 s later the deadline (1 s) is missed … -/
example : ∃ t0, (rxMid'.advance 1500000000).timerCf.start = some t0 ∧
    ((rxMid'.advance 1500000000).now - t0 > (rxMid'.advance 1500000000).cfg.tCf ∨
      (rxMid'.advance 1500000000).cfg.tCf = 0) := ⟨0, by decide +kernel, Or.inl (by decide +kernel)⟩
example : (rxMid'.advance 1500000000).checkTimeoutsRx.log.head? =
    some (.err 1500000000 .ConsecutiveFrameTimeout) ∧
    (rxMid'.advance 1500000000).checkTimeoutsRx.rxState = .idle := by decide +kernel
/-- … second branch: half a second later it is not -/
example : ¬ ∃ t0, (rxMid'.advance 500000000).timerCf.start = some t0 ∧
    ((rxMid'.advance 500000000).now - t0 > (rxMid'.advance 500000000).cfg.tCf ∨
      (rxMid'.advance 500000000).cfg.tCf = 0) := by
  rintro ⟨t0, h1, h2⟩
  have : (rxMid'.advance 500000000).timerCf.start = some 0 := by decide +kernel
  rw [this] at h1; cases h1
  revert h2; decide +kernel
/-- hypotheses of `accepted_before_deadline` / `ncr_restart_points` -/
example : CfInSeq rxMid' cf1 cf1d 1 [7, 8, 9, 10, 11, 12, 13] :=
  ⟨by decide +kernel, rfl, by decide +kernel, by decide +kernel, Or.inl (by decide +kernel)⟩
example : rxMid'.timerCf.start = some 0 ∧ 0 < rxMid'.cfg.tCf ∧
    rxMid'.now + 900000000 ≤ 0 + rxMid'.cfg.tCf ∧ rxMid'.addr.rx.isForMe cf1 = true ∧
    (rxMid'.cfBuf [7, 8, 9, 10, 11, 12, 13]).length < rxMid'.rxFrameLen := by decide +kernel
example : FfAccepted (State.init cfg addr) ff ffd 20 [1, 2, 3, 4, 5, 6] false :=
  ⟨by decide +kernel, rfl, by decide +kernel, by decide +kernel⟩
/-- and the frame is indeed appended when it comes 0.9 s after the Flow Control -/
example : ((rxMid'.rxArrive 900000000 cf1 []).processRx cf1).1.rxBuf =
    [1, 2, 3, 4, 5, 6, 7, 8, 9, 10, 11, 12, 13] := by decide +kernel

/-- transmitter waiting for the first Flow Control of a 20-byte message (First Frame sent at t = 0) -/
def txMid : State :=
  (((State.init cfg addr).send { id := 1, size := 20, src := List.replicate 20 5 }).1.process true true).1

example : txMid.txState = .waitFc ∧ txMid.timerFc.start = some 0 ∧ txMid.pendingFc = false ∧
    (txMid.active.map (·.id)) = some 1 ∧ txMid.txQueue = [] ∧ txMid.lastFc = none ∧
    txMid.timerFc.timeout = txMid.cfg.tFc := by decide +kernel
example : Reachable txMid := .process _ _ (.send _ (.init _ _))
/-- `tx_timeout_fires`: 1.5 s later, even with a ContinueToSend just arrived -/
example : let s := ((txMid.advance 1500000000).processRx fcCts).1
    s.txState = .waitFc ∧ s.pendingFc = false ∧ s.txQueue = [] ∧ s.timerFc.start = some 0 ∧
    (s.now - 0 > s.cfg.tFc) ∧ (s.lastFc.map (·.status)) = some 0 ∧
    s.processTx.2.1 = none ∧ s.processTx.1.txState = .idle ∧
    s.processTx.1.log.take 2 = [.done 1 false, .err 1500000000 .FlowControlTimeout] := by
  decide +kernel
/-- … in a state where the invariants hold (hypothesis of `one_tx_timeout_per_transfer`) -/
example : TimerInv ((txMid.advance 1500000000).processRx fcCts).1 :=
  TimerInv_processRx _ _ (reachable_timer_inv (.advance _ (.process _ _ (.send _ (.init _ _)))))
/-- `tx_cts_honoured`: 0.5 s later the same Flow Control is honoured, a Consecutive Frame goes out -/
example : let s := ((txMid.advance 500000000).processRx fcCts).1
    s.txState = .waitFc ∧ s.now - 0 ≤ s.cfg.tFc ∧ 0 < s.cfg.tFc ∧
    (s.lastFc.map (·.status)) = some 0 ∧
    (s.processTx.2.1.map (·.data)) = some [0x21, 5, 5, 5, 5, 5, 5, 5] ∧
    s.processTx.1.txState = .transmitCf := by decide +kernel
/-- `tx_idle_quiet`: hypotheses hold in the initial state -/
example : TxTimerInv (State.init cfg addr) ∧ (State.init cfg addr).txState = .idle :=
  ⟨TxTimerInv_init _ _, rfl⟩

end Isotp.C07

#print axioms Isotp.C07.timer_inv_init
#print axioms Isotp.C07.timer_inv_preserved
#print axioms Isotp.C07.reachable_timer_inv
#print axioms Isotp.C07.rx_idle_quiet
#print axioms Isotp.C07.rx_idle_quiet_reachable
#print axioms Isotp.C07.rx_waitCf_guarded
#print axioms Isotp.C07.rxTimerInv_alone_not_inductive
#print axioms Isotp.C07.rx_iff
#print axioms Isotp.C07.rx_timeout_logged_iff
#print axioms Isotp.C07.rxLoop_step
#print axioms Isotp.C07.accepted_before_deadline
#print axioms Isotp.C07.ncr_restart_points
#print axioms Isotp.C07.tx_idle_quiet
#print axioms Isotp.C07.tx_idle_pass_quiet
#print axioms Isotp.C07.nbs_start_points
#print axioms Isotp.C07.tx_timeout_fires
#print axioms Isotp.C07.tx_timeout_fires_any_queue
#print axioms Isotp.C07.tx_overflow_preempts_timeout
#print axioms Isotp.C07.tx_before_deadline_quiet
#print axioms Isotp.C07.tx_cts_honoured
#print axioms Isotp.C07.one_rx_timeout_per_transfer
#print axioms Isotp.C07.one_tx_timeout_per_transfer
