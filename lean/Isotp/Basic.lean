/-
  Basic vocabulary of the model: bytes, CAN messages, Python exception classes,
  IsoTpError classes, the event log.
  No imports outside core Lean (the driver must link).
-/
namespace Isotp

abbrev Bytes := List UInt8

/-- Python exception classes that can escape from a public method. -/
inductive PyExc where
  | ValueError | RuntimeError | AttributeError | AssertionError | OverflowError
  | TypeError | IndexError | NotImplementedError
  | BlockingSendTimeout | BlockingSendFailure
  deriving DecidableEq, Repr, Inhabited

def PyExc.name : PyExc → String
  | .ValueError => "ValueError" | .RuntimeError => "RuntimeError"
  | .AttributeError => "AttributeError" | .AssertionError => "AssertionError"
  | .OverflowError => "OverflowError" | .TypeError => "TypeError"
  | .IndexError => "IndexError" | .NotImplementedError => "NotImplementedError"
  | .BlockingSendTimeout => "BlockingSendTimeout" | .BlockingSendFailure => "BlockingSendFailure"

/-- The `isotp.errors.IsoTpError` subclasses handed to the error handler. -/
inductive Err where
  | BadGenerator | FlowControlTimeout | ConsecutiveFrameTimeout | InvalidCanData
  | UnexpectedFlowControl | UnexpectedConsecutiveFrame
  | InterruptedWithSingleFrame | InterruptedWithFirstFrame
  | WrongSequenceNumber | UnsupportedWaitFrame | MaximumWaitFrameReached
  | FrameTooLong | ChangingInvalidRXDL | MissingEscapeSequence
  | InvalidCanFdFirstFrameRXDL | Overflow
  deriving DecidableEq, Repr, Inhabited

def Err.name : Err → String
  | .BadGenerator => "BadGeneratorError"
  | .FlowControlTimeout => "FlowControlTimeoutError"
  | .ConsecutiveFrameTimeout => "ConsecutiveFrameTimeoutError"
  | .InvalidCanData => "InvalidCanDataError"
  | .UnexpectedFlowControl => "UnexpectedFlowControlError"
  | .UnexpectedConsecutiveFrame => "UnexpectedConsecutiveFrameError"
  | .InterruptedWithSingleFrame => "ReceptionInterruptedWithSingleFrameError"
  | .InterruptedWithFirstFrame => "ReceptionInterruptedWithFirstFrameError"
  | .WrongSequenceNumber => "WrongSequenceNumberError"
  | .UnsupportedWaitFrame => "UnsupportedWaitFrameError"
  | .MaximumWaitFrameReached => "MaximumWaitFrameReachedError"
  | .FrameTooLong => "FrameTooLongError"
  | .ChangingInvalidRXDL => "ChangingInvalidRXDLError"
  | .MissingEscapeSequence => "MissingEscapeSequenceError"
  | .InvalidCanFdFirstFrameRXDL => "InvalidCanFdFirstFrameRXDL"
  | .Overflow => "OverflowError"

/-- A CAN message, as `isotp.CanMessage`. -/
structure CanMsg where
  id   : Nat
  ext  : Bool
  data : Bytes
  dlc  : Nat := 0
  fd   : Bool := false
  brs  : Bool := false
  deriving DecidableEq, Repr, Inhabited

inductive Tat where
  | physical | functional
  deriving DecidableEq, Repr, Inhabited

/-- Observable events of a layer, in the order in which the Python harness sees them
    (`txfn`, `error_handler`, `SendRequest.complete`, `rx_queue.put`, generator pulls). -/
inductive Ev where
  | tx (t : Nat) (m : CanMsg)          -- handed to txfn at time t
  | err (t : Nat) (e : Err)            -- handed to the error handler
  | done (id : Nat) (ok : Bool)        -- SendRequest.complete(ok)
  | deliver (p : Bytes)                -- rx_queue.put(p)
  | pull (id : Nat) (n : Nat)          -- n values pulled from the generator of request id
  | rx (t : Nat) (m : CanMsg)          -- rxfn returned m at time t
  | rxNone (t : Nat)                   -- rxfn returned None at time t
  deriving DecidableEq, Repr, Inhabited

/-- `n`-th byte of a list as a Nat (0 when absent; only used under a length guard). -/
def byteAt (d : Bytes) (i : Nat) : Nat := (d.getD i 0).toNat

def u8 (n : Nat) : UInt8 := UInt8.ofNat n

end Isotp
