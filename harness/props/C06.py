"""C06 - reception anomalies raise the documented error and never poison the receiver."""
import gen
import ref
import trace
from props.base import PropBase

KINDS = ['wrong_sn', 'unexpected_cf', 'unexpected_fc', 'interrupt_sf', 'interrupt_ff', 'too_long', 'undecodable', 'truncated',
         'missing_escape', 'invalid_rxdl', 'changing_rxdl', 'late_cf']
EXPECT = {
    'wrong_sn': 'WrongSequenceNumberError', 'unexpected_cf': 'UnexpectedConsecutiveFrameError',
    'unexpected_fc': 'UnexpectedFlowControlError', 'interrupt_sf': 'ReceptionInterruptedWithSingleFrameError',
    'interrupt_ff': 'ReceptionInterruptedWithFirstFrameError', 'too_long': 'FrameTooLongError', 'undecodable': 'InvalidCanDataError',
    'truncated': 'InvalidCanDataError', 'missing_escape': 'MissingEscapeSequenceError', 'invalid_rxdl': 'InvalidCanFdFirstFrameRXDL',
    'changing_rxdl': 'ChangingInvalidRXDLError', 'late_cf': 'ConsecutiveFrameTimeoutError'}
# does the interrupted message M1 survive the anomaly?
SURVIVES = {'unexpected_fc': True, 'missing_escape': True, 'changing_rxdl': True}


def rx_prefix_bytes(a):
    if ref.rx_prefix_len(ref.half(a, 'rx')):
        return gen.rx_match_frame(a, b'\x00')[2][:1]
    return b''


class C06(PropBase):
    id = 'C06'
    address_change = 0.15
    rx_only_gaps = 0.1
    partial_passes = 0.25
    rx_only_passes = 0.4
    lean_modules = ['Isotp.Props.C06']
    theorems = []
    rule = ('(a) clean stream of 2..6 frames x anomaly kind (11 kinds: wrong SN, unexpected CF, unexpected FC, interrupting SF, interrupting FF, FF_DL '
            'above max_frame_size, unknown PCI, truncated frame, missing escape, invalid FF RX_DL, changing RX_DL) x every frame position x prefix x '
            'blocksize x max_frame_size -> documented error class and outcome, interrupted message never delivered; (b) garbage histories (random '
            'frames, partial messages, gaps beyond the timeouts, stop_receiving at random points) followed by a clean message -> delivered intact '
            'with correct Flow Control; distinct = (kind, position, frames, mode, bs)')
    assumptions = []
    quick_per_shard = 150
    thorough_per_shard = 4000

    def scenario(self, rng, tier):
        mode = rng.randrange(7)
        a, _ = gen.rand_addr_pair(rng, mode=mode, asym_prob=0.1)
        bs = rng.choice([0, 1, 2, 3, 8])
        mfs = rng.choice([4095, 4095, 200, 64])
        params = {'blocksize': bs, 'max_frame_size': mfs}
        if rng.random() < 0.3:
            params['stmin'] = rng.choice([1, 0x7F, 0xF2])
        if rng.random() < 0.3:
            params['tx_padding'] = 0xAA
        if rng.random() < 0.15:
            # a listener reports the same anomalies and recovers the same way; it just never emits a Flow Control (not even Overflow)
            params['listen_mode'] = True
        ops = [{'op': 'layer', 'i': 0, 'addr': a, 'params': params}]
        pre = rx_prefix_bytes(a)
        fid, ext, _ = gen.rx_match_frame(a, b'')
        meta = {}

        def put(fr, proc=True):
            ops.append({'op': 'frame', 'i': 0, 'id': fid, 'ext': ext, 'data': fr})
            if proc:
                ops.append({'op': 'process', 'i': 0})

        L = len(pre)
        if rng.random() < 0.6:
            # (a) single anomaly injected into a clean stream
            txdl = rng.choice([8, 8, 12, 16, 64])
            c = txdl - 1 - L
            ncf = rng.randrange(1, 6)
            n1 = (txdl - 2 - L) + c * ncf - rng.randrange(0, c - 1)
            n1 = max(txdl - L, min(n1, mfs))
            m1 = gen.rand_payload(rng, n1)
            f1 = ref.foreign_stream(m1, txdl, prefix=pre, last=rng.choice(['min', 'full']))
            kind = rng.choice(KINDS)
            pos = rng.randrange(1, len(f1)) if kind not in ('unexpected_cf',) else 0
            sfp = gen.rand_payload(rng, rng.randrange(1, 7 - L + 1))
            m3 = gen.rand_payload(rng, rng.choice([10, 20]))
            f3 = ref.foreign_stream(m3, 8, prefix=pre, last='min')
            if kind == 'changing_rxdl':
                remaining = n1 - (txdl - 2 - L) - (pos - 1) * c
                if txdl == 8 or remaining <= 8:
                    kind = 'wrong_sn'
            if kind == 'wrong_sn':
                sn = (f1[pos][L] & 0xF)
                bad = pre + bytes([0x20 | ((sn + rng.randrange(1, 16)) & 0xF)]) + f1[pos][L + 1:]
            elif kind == 'unexpected_cf':
                bad = pre + bytes([0x21, 1, 2, 3, 4, 5, 6, 7])[:8 - L]
            elif kind == 'unexpected_fc':
                bad = pre + bytes([0x30 | rng.choice([0, 1]), 0, 0])
            elif kind == 'interrupt_sf':
                bad = pre + bytes([len(sfp)]) + sfp
            elif kind == 'interrupt_ff':
                bad = f3[0]
            elif kind == 'too_long':
                ln = mfs + rng.choice([1, 2, 100])
                hdr = bytes([0x10 | (ln >> 8), ln & 0xFF]) if ln <= 4095 else bytes([0x10, 0]) + ln.to_bytes(4, 'big')
                bad = pre + hdr
                bad += bytes(max(0, 8 - len(bad)))
                if len(bad) > 8:
                    bad += bytes(12 - len(bad))
            elif kind == 'undecodable':
                bad = pre + bytes([rng.choice([0x40, 0x55, 0xF0, 0x80]), 1, 2, 3])
            elif kind == 'truncated':
                bad = pre + rng.choice([b'', bytes([0x10]), bytes([0x30, 0]), bytes([0x00]), bytes([0x05, 1, 2])])
            elif kind == 'missing_escape':
                bad = pre + bytes([3, 1, 2, 3]) + bytes(12 - 4 - L)
            elif kind == 'invalid_rxdl':
                tot = rng.choice([9, 10, 11, 13, 17, 33])
                bad = pre + bytes([0x10, 40]) + bytes(tot - 2 - L)
            elif kind == 'changing_rxdl':
                bad = pre + bytes([f1[pos][L]]) + bytes(8 - 1 - L)
            elif kind == 'late_cf':
                bad = f1[pos]          # the right frame, too late: the reception it belongs to is gone
            if kind == 'late_cf':
                # "time gaps beyond the timeouts": the frame is handed over by a read that started before the deadline and returned after
                # it (blocking rxfn), or simply shows up late
                T = rng.choice([5, 100, 1000])
                params['rx_consecutive_frame_timeout'] = T
                late = T * 1000000 + rng.choice([1000, 1000000, T * 500000])
                for fr in f1[:pos]:
                    put(fr)
                if rng.random() < 0.5:
                    ops.append({'op': 'frame', 'i': 0, 'id': fid, 'ext': ext, 'data': bad, 'dt': late})
                else:
                    ops.append({'op': 'tick', 'dt': late})
                    ops.append({'op': 'frame', 'i': 0, 'id': fid, 'ext': ext, 'data': bad})
                ops.append({'op': 'process', 'i': 0})
                inj_at = len([o for o in ops if o['op'] == 'frame']) - 1
                delivered_m1 = False
                if rng.random() < 0.5:
                    for fr in f1[pos + 1:]:
                        put(fr)
            elif kind == 'unexpected_cf':
                put(bad)
                inj_at = len([o for o in ops if o['op'] == 'frame']) - 1
                for fr in f1:
                    put(fr)
                delivered_m1 = True
            else:
                for fr in f1[:pos]:
                    put(fr)
                put(bad)
                inj_at = len([o for o in ops if o['op'] == 'frame']) - 1
                delivered_m1 = SURVIVES.get(kind, False)
                if kind == 'interrupt_ff':
                    for fr in f3[1:]:
                        put(fr)
                elif delivered_m1:
                    for fr in f1[pos:]:
                        put(fr)
                elif rng.random() < 0.5:
                    for fr in f1[pos:]:
                        put(fr)      # the rest of the aborted message arrives anyway: must be rejected
            meta = {'family': 'anomaly', 'kind': kind, 'pos': pos, 'inj_at': inj_at, 'm1': bytes(m1), 'm1_delivered': delivered_m1,
                    'sf': bytes(sfp) if kind == 'interrupt_sf' else None, 'm3': bytes(m3) if kind == 'interrupt_ff' else None}
        else:
            # (b) garbage history
            tcf = 1000 * 1000000
            for _ in range(rng.randrange(1, 25)):
                r = rng.random()
                if r < 0.5:
                    body = gen.rand_raw_frame(rng)
                    ops.append({'op': 'frame', 'i': 0, 'id': fid, 'ext': ext, 'data': pre + body[:64 - L]})
                elif r < 0.65:
                    part = ref.foreign_stream(gen.rand_payload(rng, rng.choice([10, 30, 100])), rng.choice([8, 16]), prefix=pre, last='min')
                    for fr in part[:rng.randrange(1, max(2, len(part)))]:
                        ops.append({'op': 'frame', 'i': 0, 'id': fid, 'ext': ext, 'data': fr})
                elif r < 0.8:
                    ops.append({'op': 'process', 'i': 0})
                elif r < 0.9:
                    ops.append({'op': 'tick', 'dt': rng.choice([1000, tcf - 1000, tcf + 1000, 3 * tcf])})
                else:
                    ops.append({'op': 'stop_receiving', 'i': 0})
            for _ in range(2 + sum(1 for o in ops if o['op'] == 'frame')):
                ops.append({'op': 'process', 'i': 0})
            for _ in range(30):
                ops.append({'op': 'recv', 'i': 0})
            meta = {'family': 'garbage'}
        # the clean message that must get through
        txdl = rng.choice(gen.TXDLS)
        n2 = max(1, min(gen.rand_len(rng, txdl, len(pre)), mfs))
        m2 = gen.rand_payload(rng, n2)
        f2 = ref.foreign_stream(m2, txdl, prefix=pre, last=rng.choice(['min', 'pad8', 'full']))
        if f2 is None:
            m2 = gen.rand_payload(rng, 3)
            f2 = ref.foreign_stream(m2, 8, prefix=pre, last='min')
        meta['clean_from'] = len(ops)
        meta['m2'] = bytes(m2)
        meta['f2'] = len(f2)
        for fr in f2:
            put(fr)
        ops.append({'op': 'recv', 'i': 0})
        return {'ops': ops, 'meta': meta}

    def project(self, op_line, out_line):
        return trace.project_events(out_line, keep=('tx', 'err', 'deliver'), status_keys=('av', 'rx'), drop_times=True)

    def judge(self, sc, lines_in, impl_out):
        meta = sc['meta']
        cfg = trace.layer_cfg(sc)
        p = cfg['params']
        a = cfg['addr']
        txh = ref.half(a, 'tx')
        bs = p.get('blocksize', 8)
        stmin = p.get('stmin', 0)

        def fcdata(status):
            return ref.pad_frame(ref.tx_prefix(txh) + bytes([0x30 | status, bs, stmin]), 8, None, p.get('tx_padding'))
        out = []
        recs = trace.records(lines_in, impl_out, sc)
        nframe = -1
        inj_errs = []
        inj_tx = []
        delivered_before_clean = []
        clean_deliv = []
        clean_tx = []
        clean_err = []
        for r in recs:
            if r.result.startswith('exc'):
                out.append(('no_raise', '%s raised %s' % (r.op, r.result)))
            in_clean = r.k >= meta['clean_from']
            if r.op == 'frame':
                nframe += 1
            for e in r.events:
                if e['k'] == 'deliver':
                    (clean_deliv if in_clean else delivered_before_clean).append(e['data'])
                elif e['k'] == 'tx':
                    if in_clean:
                        clean_tx.append(e)
                    elif meta['family'] == 'anomaly' and nframe == meta['inj_at']:
                        inj_tx.append(e)
                elif e['k'] == 'err':
                    if in_clean:
                        clean_err.append(e['name'])
                    elif meta['family'] == 'anomaly' and nframe == meta['inj_at']:
                        inj_errs.append(e['name'])
        if meta['family'] == 'anomaly':
            kind = meta['kind']
            if EXPECT[kind] not in inj_errs:
                out.append(('class', 'anomaly %s at frame %d reported %s, documented class is %s' % (kind, meta['pos'], inj_errs, EXPECT[kind])))
            if kind == 'too_long' and not p.get('listen_mode'):
                if not any(t['data'] == fcdata(2) for t in inj_tx):
                    out.append(('overflow_fc', 'FF_DL above max_frame_size not answered with Flow Control Overflow %s (got %s)' % (
                        fcdata(2).hex(), [t['data'].hex() for t in inj_tx])))
            allowed = []
            if meta['m1_delivered']:
                allowed.append(meta['m1'])
            if meta.get('sf') is not None:
                allowed.append(meta['sf'])
            if meta.get('m3') is not None:
                allowed.append(meta['m3'])
            for d in delivered_before_clean:
                if d not in allowed:
                    out.append(('not_delivered', 'after anomaly %s a payload of %d bytes was delivered that is neither a complete clean message nor the interrupting one' % (kind, len(d))))
            if meta['m1_delivered'] and meta['m1'] not in delivered_before_clean:
                out.append(('ignored_frame', 'anomaly %s must leave the reception in progress, but the message was lost' % kind))
            if meta.get('sf') is not None and meta['sf'] not in delivered_before_clean:
                out.append(('new_wins', 'interrupting Single Frame was not delivered'))
            if meta.get('m3') is not None and meta['m3'] not in delivered_before_clean:
                out.append(('new_wins', 'message started by the interrupting First Frame was not delivered'))
        # recovery: the clean message
        if clean_deliv != [meta['m2']]:
            out.append(('recovery', 'clean message after the %s history: delivered %s, expected exactly the %d-byte payload' % (
                meta['family'], [len(x) for x in clean_deliv], len(meta['m2']))))
        nfc = 0
        if meta['f2'] > 1:
            ncf = meta['f2'] - 1
            nfc = 1 + (sum(1 for k in range(1, ncf) if k % bs == 0) if bs > 0 else 0)
        if p.get('listen_mode'):
            nfc = 0
        exp_fc = fcdata(0)
        if len(clean_tx) != nfc or any(t['data'] != exp_fc for t in clean_tx):
            # a reception in progress when the clean message starts may add nothing: FC count must still match
            out.append(('recovery_fc', 'clean message answered with %d Flow Control frames %s, expected %d x %s' % (
                len(clean_tx), [t['data'].hex() for t in clean_tx][:3], nfc, exp_fc.hex())))
        return out[:4]

    def nontrivial_key(self, sc, lines_in, impl_out):
        m = sc['meta']
        cfg = trace.layer_cfg(sc)
        if m['family'] == 'anomaly':
            return ('a', m['kind'], m['pos'], len(m['m1']), cfg['addr'].get('mode', 'x'), cfg['params']['blocksize'])
        errs = tuple(sorted(set(e.split(':')[1] for o in impl_out for e in o.split('|')[0].split(';') if e.startswith('err@'))))
        return ('g', errs, len(m['m2']), cfg['params']['blocksize'])

    def tally(self, dist, sc, lines_in, impl_out):
        PropBase.tally(self, dist, sc, lines_in, impl_out)
        m = sc['meta']
        k = 'kind:' + (m.get('kind') or 'garbage')
        dist[k] = dist.get(k, 0) + 1


PROP = C06()
