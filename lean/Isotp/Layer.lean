import Isotp.Frame
/-
  Model of `TransportLayerLogic` (isotp/protocol.py): state, `_process_rx`,
  `_process_tx`, `process`, `send`, `recv`, `stop_sending`, `stop_receiving`, `reset`.
  Every Python exception site is explicit: it sets `exc` and the callers stop.
-/
namespace Isotp

inductive RxSt where
  | idle | waitCf
  deriving DecidableEq, Repr, Inhabited

inductive TxSt where
  | idle | waitFc | transmitCf | sfStandby | ffStandby
  deriving DecidableEq, Repr, Inhabited

/-- a decoded Flow Control kept in the depth-1 mailbox `last_flow_control_frame`. -/
structure FcFrame where
  status : Nat
  bs     : Nat
  stmin  : Nat
  deriving DecidableEq, Repr, Inhabited

structure State where
  cfg  : Cfg
  addr : Addr
  now  : Nat := 0
  -- receive side
  rxState    : RxSt := .idle
  rxBuf      : Bytes := []
  rxFrameLen : Nat := 0
  lastSeq    : Nat := 0
  rxBlockCnt : Nat := 0
  actualRxdl : Option Nat := none
  timerCf    : Timer := {}
  pendingFc  : Bool := false
  pendingFcStatus : Option Nat := none     -- attribute absent until the first request
  rxQueue    : List Bytes := []
  -- transmit side
  txState    : TxSt := .idle
  txQueue    : List Req := []
  active     : Option Req := none
  standby    : Option CanMsg := none
  txFrameLen : Nat := 0
  txSeq      : Nat := 0
  txBlockCnt : Nat := 0
  remoteBs   : Option Nat := none
  wftCnt     : Nat := 0
  timerFc    : Timer := {}
  timerStmin : Timer := {}
  lastFc     : Option FcFrame := none
  rl         : Limiter := {}
  -- bus side input (what `rxfn` will return): (blocking delay before it returns, message)
  inbox      : List (Nat × CanMsg) := []
  -- history
  log        : List Ev := []                -- newest first
  exc        : Option PyExc := none
  deriving Repr, Inhabited

/-- `load_params` + constructor: the initial state for an accepted configuration. -/
def State.init (c : Cfg) (a : Addr) : State :=
  { cfg := c, addr := a,
    timerFc := { timeout := c.tFc }, timerCf := { timeout := c.tCf },
    rl := { enabled := c.rlEnable } }

namespace State

def emit (s : State) (e : Ev) : State := { s with log := e :: s.log }
def error (s : State) (e : Err) : State := s.emit (.err s.now e)
def raise (s : State) (e : PyExc) : State := { s with exc := some e }

def txPrefixLen (s : State) : Nat := s.addr.tx.txPrefix.length

def startRxCfTimer (s : State) : State := { s with timerCf := { start := some s.now, timeout := s.cfg.tCf } }
def startRxFcTimer (s : State) : State := { s with timerFc := { start := some s.now, timeout := s.cfg.tFc } }

def requestFc (s : State) (status : Nat) : State :=
  { s with pendingFc := true, pendingFcStatus := some status }

/-- `_stop_receiving` -/
def stopReceiving (s : State) : State :=
  { s with actualRxdl := none, rxState := .idle, rxBuf := [], pendingFc := false, lastFc := none,
           timerCf := s.timerCf.stop }

/-- `_stop_sending(success)` -/
def stopSending (s : State) (success : Bool) : State :=
  let s := match s.active with
    | some r => { s.emit (.done r.id success) with active := none }
    | none => s
  { s with txState := .idle, txFrameLen := 0, timerFc := s.timerFc.stop, timerStmin := s.timerStmin.stop,
           remoteBs := none, txBlockCnt := 0, txSeq := 0, wftCnt := 0, standby := none }

def deliver (s : State) (p : Bytes) : State :=
  { s.emit (.deliver p) with rxQueue := s.rxQueue ++ [p] }

/-- `_start_reception_after_first_frame_if_valid` -/
def startReception (s : State) (len : Nat) (data : Bytes) (rxDl : Nat) : State × Bool :=
  let s := { s with rxBuf := [] }
  if !(validTxDl rxDl) then
    ((s.error .InvalidCanFdFirstFrameRXDL).stopReceiving, false)
  else
    let s := { s with actualRxdl := some rxDl }
    if len > s.cfg.maxFrameSize then
      let s := ((s.error .FrameTooLong).stopReceiving).requestFc 2
      ({ s with lastSeq := 0, rxBlockCnt := 0 }, false)
    else
      let s := { s with rxState := .waitCf, rxFrameLen := len, rxBuf := s.rxBuf ++ data }
      let s := (s.requestFc 0).startRxCfTimer
      ({ s with lastSeq := 0, rxBlockCnt := 0 }, true)

/-- result of `_process_rx`: (state, immediate_tx_required, frame_received) -/
def processRx (s : State) (m : CanMsg) : State × Bool × Bool :=
  match decode m.data s.addr.rx.rxPrefixSize with
  | none => ((s.error .InvalidCanData).stopReceiving, false, false)
  | some d =>
    match d.pdu with
    | .fc st bs stm => ({ s with lastFc := some ⟨st, bs, stm⟩ }, true, false)
    | .sf _ data esc =>
      if d.canDl > 8 && !esc then (s.error .MissingEscapeSequence, false, false)
      else match s.rxState with
        | .idle =>
          let s := { s with rxFrameLen := 0, timerCf := s.timerCf.stop }
          let s := s.deliver data
          (s, s.pendingFc, true)
        | .waitCf =>
          let s := ((s.deliver data).stopReceiving).error .InterruptedWithSingleFrame
          (s, s.pendingFc, true)
    | .ff len data _ =>
      match s.rxState with
      | .idle =>
        let s := { s with rxFrameLen := 0, timerCf := s.timerCf.stop }
        let (s, started) := s.startReception len data d.rxDl
        (s, started || s.pendingFc, false)
      | .waitCf =>
        let (s, started) := s.startReception len data d.rxDl
        let s := s.error .InterruptedWithFirstFrame
        (s, started || s.pendingFc, false)
    | .cf sn data =>
      match s.rxState with
      | .idle =>
        let s := { s with rxFrameLen := 0, timerCf := s.timerCf.stop }
        let s := s.error .UnexpectedConsecutiveFrame
        (s, s.pendingFc, false)
      | .waitCf =>
        let expected := (s.lastSeq + 1) % 16
        if sn = expected then
          let btr := s.rxFrameLen - s.rxBuf.length
          if some d.rxDl != s.actualRxdl && d.rxDl < btr then
            (s.error .ChangingInvalidRXDL, false, false)
          else
            let s := s.startRxCfTimer
            let s := { s with lastSeq := sn, rxBuf := s.rxBuf ++ data.take btr }
            if s.rxBuf.length ≥ s.rxFrameLen then
              let s := (s.deliver s.rxBuf).stopReceiving
              (s, s.pendingFc, true)
            else
              let s := { s with rxBlockCnt := s.rxBlockCnt + 1 }
              if s.cfg.blocksize > 0 && s.rxBlockCnt % s.cfg.blocksize = 0 then
                let s := s.requestFc 0
                ({ s with timerCf := s.timerCf.stop }, true, false)
              else (s, s.pendingFc, false)
        else
          let s := (s.stopReceiving).error .WrongSequenceNumber
          (s, s.pendingFc, false)

/-- `_check_timeouts_rx` -/
def checkTimeoutsRx (s : State) : State :=
  if s.timerCf.timedOut s.now then (s.error .ConsecutiveFrameTimeout).stopReceiving else s

/-- Generator consumption for the active request, with the pull event. -/
def consumeActive (s : State) (r : Req) (n : Nat) (exact : Bool) : State × Req × Option Bytes :=
  let (r', res) := r.consume n exact
  let pulled := r'.consumed - r.consumed
  let s := if r.instr && pulled > 0 then s.emit (.pull r.id pulled) else s
  ({ s with active := some r' }, r', res)

/-- Start of a new transmission with request `r` (already stored in `active`):
    Single Frame or First Frame. Returns state and output message. -/
def startTx (s : State) (r : Req) (allowed : Nat) : State × Option CanMsg :=
  let pl := s.txPrefixLen
  let bigMin := match s.cfg.txMinLen with | some m => m > 8 | none => false
  let sizeOnFirst := (r.remaining + pl ≤ 7) && !bigMin
  let off := if sizeOnFirst then 1 else 2
  let total := r.size
  if total + off + pl ≤ s.cfg.txDl then
    -- Single Frame
    let (s, _, res) := s.consumeActive r total true
    match res with
    | none => ((s.error .BadGenerator).stopSending false, none)
    | some payload =>
      let hdr : Bytes := if sizeOnFirst then [u8 payload.length] else [0, u8 payload.length]
      let msgData := s.addr.tx.txPrefix ++ hdr ++ payload
      match makeTxMsg s.cfg s.addr (s.addr.tx.txId r.tat) msgData with
      | none => (s.raise .ValueError, none)
      | some msg =>
        if msgData.length > allowed then
          ({ s with standby := some msg, txState := .sfStandby }, none)
        else (s.stopSending true, some msg)
  else
    -- First Frame
    let s := { s with txFrameLen := total }
    let short := total ≤ 0xFFF
    let dataLen := if short then s.cfg.txDl - 2 - pl else s.cfg.txDl - 6 - pl
    let (s, _, res) := s.consumeActive r dataLen true
    match res with
    | none => ((s.error .BadGenerator).stopSending false, none)
    | some payload =>
      let hdr : Bytes :=
        if short then [u8 (0x10 + total / 256 % 16), u8 (total % 256)]
        else [0x10, 0x00, u8 (total / 16777216 % 256), u8 (total / 65536 % 256), u8 (total / 256 % 256), u8 (total % 256)]
      let msgData := s.addr.tx.txPrefix ++ hdr ++ payload
      let s := { s with txSeq := 1 }
      match makeTxMsg s.cfg s.addr (s.addr.tx.txId .physical) msgData with
      | none => (s.raise .ValueError, none)
      | some msg =>
        if msgData.length ≤ allowed then
          (({ s with txState := .waitFc }).startRxFcTimer, some msg)
        else ({ s with standby := some msg, txState := .ffStandby }, none)

/-- the `while read_tx_queue` loop of the IDLE branch. -/
def readTxQueue (s : State) (allowed : Nat) : List Req → State × Option CanMsg
  | [] => ({ s with txQueue := [] }, none)
  | r :: rest =>
    let s := { s with txQueue := rest, active := some r }
    if r.depleted then
      readTxQueue ({ s.emit (.done r.id true) with active := none }) allowed rest
    else s.startTx r allowed

/-- Flow Control handling at the top of `_process_tx` (after the pending-FC part). -/
def handleFc (s : State) (fc : FcFrame) : State :=
  if s.txState = .idle then s.error .UnexpectedFlowControl
  else if fc.status = 1 && !(s.timerFc.timedOut s.now) then
    if s.cfg.wftmax = 0 then s.error .UnsupportedWaitFrame
    else if s.wftCnt ≥ s.cfg.wftmax then (s.error .MaximumWaitFrameReached).stopSending false
    else
      let s := { s with wftCnt := s.wftCnt + 1 }
      if s.txState = .waitFc || s.txState = .transmitCf then
        ({ s with txState := .waitFc }).startRxFcTimer
      else s
  else if fc.status = 0 && !(s.timerFc.timedOut s.now) && (s.txState = .waitFc || s.txState = .transmitCf) then
    let to := match s.cfg.overrideStminNs with | some o => o | none => stminNs fc.stmin
    let s := { s with wftCnt := 0, timerFc := s.timerFc.stop,
                      timerStmin := { s.timerStmin with timeout := to }, remoteBs := some fc.bs }
    let s := if s.txState = .waitFc then
        { s with txBlockCnt := 0, timerStmin := s.timerStmin.startAt s.now } else s
    { s with txState := .transmitCf }
  else s

/-- the FSM part of `_process_tx` for TRANSMIT_CF. -/
def transmitCf (s : State) (allowed : Nat) : State × Option CanMsg × Bool :=
  match s.remoteBs, s.active with
  | none, _ => (s.raise .AssertionError, none, false)
  | _, none => (s.raise .AssertionError, none, false)
  | some rbs, some r =>
    if s.timerStmin.timedOut s.now then
      let dataLen := s.cfg.txDl - 1 - s.txPrefixLen
      let payloadLen := min dataLen r.remaining
      if payloadLen ≤ allowed then
        let (s, r', res) := s.consumeActive r payloadLen false
        match res with
        | none => (s.raise .AssertionError, none, false)   -- BadGeneratorError escaping (unreachable)
        | some payload =>
          let (s, out, bad) :=
            if payload.length > 0 then
              let msgData := s.addr.tx.txPrefix ++ [u8 (0x20 + s.txSeq)] ++ payload
              match makeTxMsg s.cfg s.addr (s.addr.tx.txId .physical) msgData with
              | none => (s.raise .ValueError, none, true)
              | some msg =>
                ({ s with txSeq := (s.txSeq + 1) % 16, timerStmin := s.timerStmin.startAt s.now,
                          txBlockCnt := s.txBlockCnt + 1 }, some msg, false)
            else (s, none, false)
          if bad then (s, none, false) else
          if r'.depleted then
            if r'.remaining > 0 then ((s.error .BadGenerator).stopSending false, out, false)
            else (s.stopSending true, out, false)
          else if rbs ≠ 0 && s.txBlockCnt ≥ rbs then
            (({ s with txState := .waitFc }).startRxFcTimer, out, true)
          else (s, out, false)
      else (s, none, false)
    else (s, none, false)

/-- `_process_tx`: (state, msg, immediate_rx_required) -/
def processTx (s : State) : State × Option CanMsg × Bool :=
  let allowed := s.rl.allowedBytes s.cfg.rlBitMax
  -- pending flow control requested by the rx side
  let pend : State × Option (Option CanMsg) :=
    if s.pendingFc then
      let s := { s with pendingFc := false }
      match s.pendingFcStatus with
      | none => (s.raise .AttributeError, some none)
      | some st =>
        let s := if st = 0 then s.startRxCfTimer else s
        if !s.cfg.listen then
          match makeFlowControl s.cfg s.addr st with
          | none => (s.raise .ValueError, some none)
          | some msg => (s, some (some msg))
        else (s, none)
    else (s, none)
  match pend with
  | (s, some none) => (s, none, false)
  | (s, some (some msg)) => (s, some msg, true)
  | (s, none) =>
    -- flow control received
    let fc := s.lastFc
    let s := { s with lastFc := none }
    match (match fc with
      | some f => if f.status = 2 then (((s.stopSending false).error .Overflow), true) else (s.handleFc f, false)
      | none => (s, false)) with
    | (s, true) => (s, none, false)
    | (s, false) =>
      let s := if s.timerFc.timedOut s.now then (s.error .FlowControlTimeout).stopSending false else s
      -- "no transmission in progress" check
      if s.txState ≠ .idle && s.active.isNone then (s.raise .AssertionError, none, false) else
      let s := if s.txState ≠ .idle && (match s.active with | some r => r.depleted | none => false) && s.standby.isNone
               then s.stopSending true else s
      let (s, out, imm) : State × Option CanMsg × Bool :=
        match s.txState with
        | .idle =>
          let (s, out) := s.readTxQueue allowed s.txQueue
          (s, out, false)
        | .sfStandby | .ffStandby =>
          match s.standby with
          | some msg =>
            if msg.data.length ≤ allowed then
              let s := { s with standby := none }
              if s.txState = .ffStandby then
                (({ s.startRxFcTimer with txState := .waitFc }), some msg, false)
              else (s.stopSending true, some msg, false)
            else (s, none, false)
          | none => (s, none, false)
        | .waitFc => (s, none, false)
        | .transmitCf => s.transmitCf allowed
      if s.exc.isSome then (s, none, false) else
      match out with
      | some msg => ({ s with rl := s.rl.inform s.now msg.data.length }, some msg, imm)
      | none => (s, none, imm)

end State
end Isotp
