"""
Runner for the tpsock properties (C19, C20): the real isotp.tpsock code against a fake kernel socket that
parses the option structs with its own copy of the Linux uapi layout.
"""
import socket as real_socket
import struct
import types
import core
from core import pv, addr_tokens, all_addr_tokens, make_address
import isotp
import isotp.tpsock
import isotp.tpsock.opts as opts_mod

SOL_CAN_ISOTP = 106
OPTS, RECV_FC, TX_STMIN, RX_STMIN, LL_OPTS = 1, 2, 3, 4, 5


class FakeKernelSocket(real_socket.socket):
    """stands in for socket(AF_CAN, SOCK_DGRAM, CAN_ISOTP); keeps per-option state like net/can/isotp.c"""
    current_init = None
    last = None

    def __init__(self, *a, **k):
        # no real socket is opened
        init = dict(FakeKernelSocket.current_init or {})
        self.k_opts = [init.get('flags', 0), init.get('ftt', 0), init.get('ext', 0), init.get('txpad', 0xCC), init.get('rxpad', 0xCC),
                       init.get('rxext', 0)]
        self.k_fc = [init.get('bs', 0), init.get('stmin', 0), init.get('wft', 0)]
        self.k_ll = [init.get('mtu', 16), init.get('txdl', 8), init.get('txflags', 0)]
        self.k_txstmin = init.get('txstmin', 0)
        self.k_bound = None
        self.k_closed = False
        self.calls = []
        FakeKernelSocket.last = self

    # uapi layouts (include/uapi/linux/can/isotp.h), little-endian host
    def getsockopt(self, level, opt, size=None):
        assert level == SOL_CAN_ISOTP
        if opt == OPTS:
            return struct.pack('<IIBBBB', *self.k_opts)
        if opt == RECV_FC:
            return struct.pack('<BBB', *self.k_fc)
        if opt == LL_OPTS:
            return struct.pack('<BBB', *self.k_ll)
        if opt == TX_STMIN:
            return struct.pack('<I', self.k_txstmin)
        raise OSError('ENOPROTOOPT')

    def setsockopt(self, level, opt, data):
        self.calls.append('so:%d:%d:%s' % (level, opt, core.hexs(data)))
        if level != SOL_CAN_ISOTP:
            return
        if opt == OPTS and len(data) == 12:
            self.k_opts = list(struct.unpack('<IIBBBB', data))
        elif opt == RECV_FC and len(data) == 3:
            self.k_fc = list(struct.unpack('<BBB', data))
        elif opt == LL_OPTS and len(data) == 3:
            self.k_ll = list(struct.unpack('<BBB', data))
        elif opt == TX_STMIN and len(data) == 4:
            self.k_txstmin = struct.unpack('<I', data)[0]

    def bind(self, addr):
        interface, rxid, txid = addr
        self.calls.append('bind:%d:%d' % (rxid, txid))
        if getattr(self, 'fail_next_bind', False):
            self.fail_next_bind = False
            raise OSError(19, 'No such device')
        self.k_bound = (rxid, txid)

    def close(self):
        self.k_closed = True
        self.calls.append('close')

    def settimeout(self, v):
        pass

    def gettimeout(self):
        return None

    def send(self, data, flags=0):
        return len(data)

    def recv(self, bufsize, flags=0):
        return b''

    def fileno(self):
        return -1

    def __del__(self):
        pass


def install():
    shim = types.SimpleNamespace(**{k: getattr(real_socket, k) for k in dir(real_socket) if not k.startswith('__')})
    shim.socket = FakeKernelSocket
    isotp.tpsock.socket_module = shim


install()


class SockRunner:
    def __init__(self):
        self.lines_in = []
        self.lines_out = []
        self.s = None
        self.k = None

    def line(self, line_in, res):
        calls = list(self.k.calls) if self.k is not None else []
        if self.k is not None:
            self.k.calls = []
        st = 'bound=%d closed=%d' % (1 if self.s.bound else 0, 1 if self.s.closed else 0)
        self.lines_in.append(line_in)
        self.lines_out.append('%s|%s|%s' % (';'.join(calls), res, st))

    def do_new(self, op):
        init = op.get('init', {})
        FakeKernelSocket.current_init = init
        self.s = isotp.socket()
        self.k = FakeKernelSocket.last
        self.lines_in.append('sock new ' + ' '.join('%s=%d' % kv for kv in init.items()))
        self.lines_out.append('ok')

    def _call(self, name, args, fields):
        line = 'sock %s %s' % (name, ' '.join('%s=%s' % (k, pv(v)) for k, v in args.items()))
        try:
            o = getattr(self.s, name)(**args)
            # canonical form: bool is an int in Python (True == 1); never compare the spelling
            res = 'ok ' + ' '.join(str(int(v)) if isinstance(v, bool) else str(v) for v in (getattr(o, f) for f in fields))
        except Exception as e:
            res = 'exc %s' % type(e).__name__
        self.line(line.rstrip(), res)

    def do_set_opts(self, op):
        self._call('set_opts', op['args'], ('optflag', 'frame_txtime', 'ext_address', 'txpad', 'rxpad', 'rx_ext_address'))

    def do_set_fc_opts(self, op):
        self._call('set_fc_opts', op['args'], ('bs', 'stmin', 'wftmax'))

    def do_set_ll_opts(self, op):
        self._call('set_ll_opts', op['args'], ('mtu', 'tx_dl', 'tx_flags'))

    def do_get_opts(self, op):
        self._call('get_opts', {}, ('optflag', 'frame_txtime', 'ext_address', 'txpad', 'rxpad', 'rx_ext_address'))

    def do_get_fc_opts(self, op):
        self._call('get_fc_opts', {}, ('bs', 'stmin', 'wftmax'))

    def do_get_ll_opts(self, op):
        self._call('get_ll_opts', {}, ('mtu', 'tx_dl', 'tx_flags'))

    def do_bind(self, op, fail=False):
        a = op['addr']
        line = 'sock %s ' % ('bindfail' if fail else 'bind') + ' '.join(all_addr_tokens(a))
        self.py_view = None
        try:
            address = make_address(a)
        except Exception as e:
            self.line(line, 'addr-exc %s' % type(e).__name__)
            return
        if fail and self.k is not None:
            self.k.fail_next_bind = True
        try:
            self.s.bind('vcan0', address)
            res = 'ok'
        except Exception as e:
            res = 'exc %s' % type(e).__name__
        if self.k is not None:
            self.k.fail_next_bind = False
        self.line(line, res)
        if res == 'ok':
            # what the REAL Address object (the one a pure-Python layer would use) emits and accepts, on probe frames around the bound ids
            try:
                import isotp
                pre = address.get_tx_payload_prefix()
                view = {'tx_id': address.get_tx_arbitration_id(), 'tx_ext': bool(address.is_tx_29bits()), 'prefix': bytes(pre or b''),
                        'probes': []}
                rxid = address.get_rx_arbitration_id()
                ext = bool(address.is_rx_29bits())
                rpre = address.get_rx_extension_byte() if address.requires_rx_extension_byte() else None
                body = bytes([2, 1, 2])
                ids = [rxid] + [rxid ^ (1 << b) for b in ((0, 3, 8, 11, 15, 16, 17, 24, 28) if ext else (0, 3, 8, 10))]
                for pid in ids:
                    for pext in (ext, not ext):
                        for pb in ([rpre, rpre ^ 1, rpre ^ 0x80] if rpre is not None else [None]):
                            data = (bytes([pb]) if pb is not None else b'') + body
                            m = isotp.CanMessage(arbitration_id=pid, data=data, extended_id=pext)
                            view['probes'].append((pid, pext, data[0], bool(address.is_for_me(m))))
                self.py_view = view
            except Exception as e:
                self.py_view = {'error': repr(e)}

    def do_bindfail(self, op):
        self.do_bind(op, fail=True)

    def do_send(self, op):
        try:
            self.s.send(b'\x01\x02')
            res = 'ok'
        except Exception as e:
            res = 'exc %s' % type(e).__name__
        self.line('sock send', res)

    def do_recv(self, op):
        try:
            self.s.recv()
            res = 'ok'
        except Exception as e:
            res = 'exc %s' % type(e).__name__
        self.line('sock recv', res)

    def do_close(self, op):
        try:
            self.s.close()
            res = 'ok'
        except Exception as e:
            res = 'exc %s' % type(e).__name__
        self.line('sock close', res)

    def kernel_state(self):
        return {'opts': list(self.k.k_opts), 'fc': list(self.k.k_fc), 'll': list(self.k.k_ll), 'txstmin': self.k.k_txstmin, 'bound': self.k.k_bound,
                'py_view': getattr(self, 'py_view', None)}

    def run(self, ops):
        states = []
        for op in ops:
            getattr(self, 'do_' + op['op'])(op)
            states.append(self.kernel_state() if self.k is not None else None)
        return self.lines_in, self.lines_out, states
