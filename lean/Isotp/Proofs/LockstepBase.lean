import Isotp.Net
import Isotp.Proofs.Tx
import Isotp.Proofs.Fc
import Isotp.Proofs.Compose
/-
  C01, liveness half ("a transfer completes"), part 1: the two-layer network as a record, and `process()`
  unfolded along the call sequence of one pass.

  * `Pair` : the network `Net` restricted to two layers 0 (A) and 1 (B) and their two FIFO links; `Pair.toNet`
    is the `Net` it stands for, and `onLayer0`, `onLayer1`, `deliver01`, `deliver10`, `tick_eq` say that the
    `Net` operations of the driver act on it as the record operations below (array indexing gone).
  * `processLoop_iter`, `txLoop_*`, `rxLoop_*` : one iteration of the loops of `process`, given the outcome of
    the calls it makes (exact equations, used for symbolic execution of a pass).
-/
namespace Isotp.Lockstep
open Isotp Isotp.State

/-! ## the two-layer network -/

structure Pair where
  a   : State
  b   : State
  ab  : List CanMsg := []      -- link A → B
  ba  : List CanMsg := []      -- link B → A
  now : Nat := 0
  ea  : Nat := 0               -- frames emitted so far by A / by B
  eb  : Nat := 0

def Pair.toNet (q : Pair) : Net :=
  { layers := #[q.a, q.b], outbox := #[q.ab, q.ba], now := q.now, emitted := #[q.ea, q.eb],
    faults := #[none, none] }

/-- the network the driver builds with `layer 0 …`, `layer 1 …` -/
theorem toNet_init (sa sb : State) :
    (({} : Net).setLayer 0 sa).setLayer 1 sb = Pair.toNet { a := sa, b := sb } := rfl

/-- what `Net.onLayer` does to the layer state before an operation: it sees the global clock, its log is empty -/
def enter (now : Nat) (s : State) : State := { s with now := now, log := [] }

/-- … and after it: the events are collected, a Python exception does not persist -/
def leave (s : State) : State := { s with log := [], exc := none }

theorem onLayer0 {α : Type} (q : Pair) (f : State → State × α) :
    q.toNet.onLayer 0 f =
      some (Pair.toNet { q with a := leave (f (enter q.now q.a)).1,
                                ab := q.ab ++ Net.txOf (f (enter q.now q.a)).1.log.reverse,
                                now := (f (enter q.now q.a)).1.now,
                                ea := q.ea + (Net.txOf (f (enter q.now q.a)).1.log.reverse).length },
            (f (enter q.now q.a)).1, (f (enter q.now q.a)).1.log.reverse, (f (enter q.now q.a)).2) := by
  simp [Net.onLayer, Pair.toNet, enter, leave, Net.route]

theorem onLayer1 {α : Type} (q : Pair) (f : State → State × α) :
    q.toNet.onLayer 1 f =
      some (Pair.toNet { q with b := leave (f (enter q.now q.b)).1,
                                ba := q.ba ++ Net.txOf (f (enter q.now q.b)).1.log.reverse,
                                now := (f (enter q.now q.b)).1.now,
                                eb := q.eb + (Net.txOf (f (enter q.now q.b)).1.log.reverse).length },
            (f (enter q.now q.b)).1, (f (enter q.now q.b)).1.log.reverse, (f (enter q.now q.b)).2) := by
  simp [Net.onLayer, Pair.toNet, enter, leave, Net.route]

/-- all frames of a link arrive (no extra delay) -/
def pushAll (s : State) (ms : List CanMsg) : State := { s with inbox := s.inbox ++ ms.map (fun m => (0, m)) }

theorem foldl_pushFrame (ms : List CanMsg) : ∀ s : State,
    ms.foldl (fun s m => s.pushFrame 0 m) s = pushAll s ms := by
  induction ms with
  | nil => intro s; simp [pushAll]
  | cons m ms ih =>
    intro s
    rw [List.foldl_cons, ih]
    simp [pushAll, State.pushFrame]

theorem deliver01 (q : Pair) :
    q.toNet.deliver 0 [1] (q.toNet.outbox[0]?.getD []).length =
      some (Pair.toNet { q with b := pushAll q.b q.ab, ab := [] }, q.ab.length) := by
  simp [Net.deliver, Pair.toNet, foldl_pushFrame]

theorem deliver10 (q : Pair) :
    q.toNet.deliver 1 [0] (q.toNet.outbox[1]?.getD []).length =
      some (Pair.toNet { q with a := pushAll q.a q.ba, ba := [] }, q.ba.length) := by
  simp [Net.deliver, Pair.toNet, foldl_pushFrame]

theorem tick_eq (q : Pair) (dt : Nat) : q.toNet.tick dt = Pair.toNet { q with now := q.now + dt } := rfl

/-! ## the loops of `process`, one iteration at a time -/

/-- `rate_limiter.update()` between the two inner loops -/
def rlUpd (s : State) : State := { s with rl := s.rl.update s.cfg.rlWindowNs s.now }

theorem limiter_update_fresh (e : Bool) (w now : Nat) :
    ({ enabled := e, slots := [], bitTotal := 0 } : Limiter).update w now =
      { enabled := e, slots := [], bitTotal := 0 } := by
  cases e <;> simp [Limiter.update, Limiter.reset, Limiter.expire]

theorem processLoop_succ (f : Nat) (s : State) (st : Stats) :
    processLoop (f + 1) true true s st =
      (let sw := (!s.txQueue.isEmpty && decide (s.rxState = .idle) && decide (s.txState = .idle))
       let r := if !sw then s.rxLoop true st s.inbox else (s, st, false)
       let s1 : State := { r.1 with rl := r.1.rl.update r.1.cfg.rlWindowNs r.1.now }
       let t := txLoop s1.txFuel s1 r.2.1.sent
       if t.1.exc.isSome then (t.1, { r.2.1 with sent := t.2.1 }, false)
       else if t.2.2.2 then (t.1, { r.2.1 with sent := t.2.1 }, true)
       else if sw || r.2.2 || t.2.2.1 then processLoop f true true t.1 { r.2.1 with sent := t.2.1 }
       else (t.1, { r.2.1 with sent := t.2.1 }, false)) := by rfl

/-- one iteration that starts with the receive loop -/
theorem processLoop_iter (f : Nat) (s : State) (st : Stats) (s1 s2 : State) (rr run : Bool)
    (hsw : (!s.txQueue.isEmpty && decide (s.rxState = .idle) && decide (s.txState = .idle)) = false)
    (hrx : ∀ st, ∃ st', s.rxLoop true st s.inbox = (s1, st', rr))
    (htx : ∀ n, ∃ n', txLoop (rlUpd s1).txFuel (rlUpd s1) n = (s2, n', run, false))
    (hexc : s2.exc = none) :
    ∃ st', processLoop (f + 1) true true s st =
      if rr || run then processLoop f true true s2 st' else (s2, st', false) := by
  obtain ⟨st1, h1⟩ := hrx st
  obtain ⟨n', h2⟩ := htx st1.sent
  refine ⟨{ st1 with sent := n' }, ?_⟩
  unfold rlUpd at h2
  rw [processLoop_succ]
  simp only [hsw, Bool.not_false, if_true, h1, h2, hexc, Option.isSome_none, Bool.false_eq_true, if_false,
    Bool.false_or]

/-- the iteration that starts with the transmit loop (`process` entered idle with a non-empty queue) -/
theorem processLoop_iter_sw (f : Nat) (s : State) (st : Stats) (s2 : State) (run : Bool)
    (hsw : (!s.txQueue.isEmpty && decide (s.rxState = .idle) && decide (s.txState = .idle)) = true)
    (htx : ∀ n, ∃ n', txLoop (rlUpd s).txFuel (rlUpd s) n = (s2, n', run, false))
    (hexc : s2.exc = none) :
    ∃ st', processLoop (f + 1) true true s st = processLoop f true true s2 st' := by
  obtain ⟨n', h2⟩ := htx st.sent
  refine ⟨{ st with sent := n' }, ?_⟩
  unfold rlUpd at h2
  rw [processLoop_succ]
  simp only [hsw, Bool.not_true, Bool.false_eq_true, if_false, h2, hexc, Option.isSome_none, Bool.true_or,
    if_true]

theorem processFuel_eq (s : State) : s.processFuel = (2 * (s.inbox.length + s.txQueue.length) + 6) + 1 + 1 := rfl

/-! ### the transmit loop -/

theorem txLoop_none (f : Nat) (s s' : State) (n : Nat) (h : s.processTx = (s', none, false))
    (hexc : s'.exc = none) : txLoop (f + 1) s n = (s', n, false, false) := by
  simp [txLoop, h, hexc]

theorem txLoop_imm (f : Nat) (s s' : State) (m : CanMsg) (n : Nat) (h : s.processTx = (s', some m, true))
    (hexc : s'.exc = none) : txLoop (f + 1) s n = (s'.emit (.tx s'.now m), n + 1, true, false) := by
  simp [txLoop, h, hexc]

theorem txLoop_more (f : Nat) (s s' : State) (m : CanMsg) (n : Nat) (h : s.processTx = (s', some m, false))
    (hexc : s'.exc = none) : txLoop (f + 1) s n = txLoop f (s'.emit (.tx s'.now m)) (n + 1) := by
  simp [txLoop, h, hexc]

theorem txFuel_eq (s : State) : s.txFuel =
    ((s.txQueue.map reqFuel).sum + (match s.active with | some r => reqFuel r | none => 0)) + 1 + 1 + 1 + 1 := rfl

/-! ### the receive loop -/

theorem checkTimeoutsRx_noop (s : State) (h : s.timerCf.timedOut s.now = false) : s.checkTimeoutsRx = s := by
  simp [checkTimeoutsRx, h]

theorem timedOut_stopped (to now : Nat) : ({ start := none, timeout := to } : Timer).timedOut now = false := rfl

theorem timedOut_running (t0 to now : Nat) (h : now ≤ t0 + to) (h0 : to ≠ 0) :
    ({ start := some t0, timeout := to } : Timer).timedOut now = false := by
  simp [Timer.timedOut, h0]; omega

/-- the state on which `_process_rx` runs for the inbox entry `(dt, m)` -/
def arrived (s : State) (dt : Nat) (m : CanMsg) (rest : List (Nat × CanMsg)) : State :=
  (({ s with inbox := rest, now := s.now + dt } : State).emit (.rx (s.now + dt) m)).checkTimeoutsRx

theorem arrived_addr (s : State) (dt : Nat) (m : CanMsg) (rest : List (Nat × CanMsg)) :
    (arrived s dt m rest).addr = s.addr := by
  unfold arrived checkTimeoutsRx; split <;> rfl

theorem rxLoop_nil (doTx : Bool) (s : State) (st : Stats) :
    rxLoop doTx s st [] = ((({ s with inbox := [] } : State).emit (.rxNone s.now)).checkTimeoutsRx, st, false) := rfl

/-- an accepted frame after which `_process_rx` asks for an immediate transmit pass: the loop stops -/
theorem rxLoop_cons_imm (s : State) (st : Stats) (dt : Nat) (m : CanMsg) (rest : List (Nat × CanMsg))
    (s' : State) (fr : Bool)
    (hme : s.addr.rx.isForMe m = true) (h : (arrived s dt m rest).processRx m = (s', true, fr)) :
    ∃ st', rxLoop true s st ((dt, m) :: rest) = (s', st', false) := by
  have ha := arrived_addr s dt m rest
  unfold arrived at h ha
  unfold rxLoop
  simp only [ha, hme, if_true, h]
  exact ⟨_, rfl⟩

/-- an accepted frame, no immediate transmit pass, transmit FSM not time-driven: the loop goes on -/
theorem rxLoop_cons_next (s : State) (st : Stats) (dt : Nat) (m : CanMsg) (rest : List (Nat × CanMsg))
    (s' : State) (fr : Bool)
    (hme : s.addr.rx.isForMe m = true) (h : (arrived s dt m rest).processRx m = (s', false, fr))
    (htd : s'.txTimeDriven = false) :
    ∃ st', rxLoop true s st ((dt, m) :: rest) = rxLoop true s' st' rest := by
  have ha := arrived_addr s dt m rest
  unfold arrived at h ha
  conv => enter [1, st', 1]; unfold rxLoop
  simp only [ha, hme, if_true, h, htd, Bool.and_false, Bool.false_eq_true, if_false]
  exact ⟨_, rfl⟩


/-! ## what a log (newest first) shows to the network -/

/-- the frames handed to the CAN layer, oldest first (what `Net.onLayer` appends to the link) -/
def txsOf (lg : List Ev) : List CanMsg := Net.txOf lg.reverse

/-- no error was reported -/
def NoErr (lg : List Ev) : Prop := ∀ t e, Ev.err t e ∉ lg

theorem txOf_append (a b : List Ev) : Net.txOf (a ++ b) = Net.txOf a ++ Net.txOf b := by
  simp [Net.txOf, List.filterMap_append]

theorem txsOf_nil : txsOf [] = [] := rfl

theorem txsOf_append (a b : List Ev) : txsOf (a ++ b) = txsOf b ++ txsOf a := by
  simp [txsOf, List.reverse_append, txOf_append]

theorem txsOf_cons (e : Ev) (lg : List Ev) : txsOf (e :: lg) = txsOf lg ++ txsOf [e] :=
  txsOf_append [e] lg

@[simp] theorem txsOf_tx (t : Nat) (m : CanMsg) (lg : List Ev) : txsOf (.tx t m :: lg) = txsOf lg ++ [m] := by
  rw [txsOf_cons]; rfl
@[simp] theorem txsOf_rx (t : Nat) (m : CanMsg) (lg : List Ev) : txsOf (.rx t m :: lg) = txsOf lg := by
  rw [txsOf_cons]; simp [txsOf, Net.txOf]
@[simp] theorem txsOf_rxNone (t : Nat) (lg : List Ev) : txsOf (.rxNone t :: lg) = txsOf lg := by
  rw [txsOf_cons]; simp [txsOf, Net.txOf]
@[simp] theorem txsOf_done (i : Nat) (b : Bool) (lg : List Ev) : txsOf (.done i b :: lg) = txsOf lg := by
  rw [txsOf_cons]; simp [txsOf, Net.txOf]
@[simp] theorem txsOf_deliver (q : Bytes) (lg : List Ev) : txsOf (.deliver q :: lg) = txsOf lg := by
  rw [txsOf_cons]; simp [txsOf, Net.txOf]

theorem NoErr_nil : NoErr [] := by intro t e h; cases h

theorem NoErr_cons {e : Ev} {lg : List Ev} (h : NoErr lg) (he : ∀ t x, e ≠ Ev.err t x) : NoErr (e :: lg) := by
  intro t x hm
  rcases List.mem_cons.mp hm with h1 | h1
  · exact he t x h1.symm
  · exact h t x h1

theorem NoErr_append {a b : List Ev} (ha : NoErr a) (hb : NoErr b) : NoErr (a ++ b) := by
  intro t x hm
  rcases List.mem_append.mp hm with h1 | h1
  · exact ha t x h1
  · exact hb t x h1

theorem NoErr_reverse {a : List Ev} (ha : NoErr a) : NoErr a.reverse := by
  intro t x hm; exact ha t x (List.mem_reverse.mp hm)

end Isotp.Lockstep
