import Isotp.Process
/-
  Model of the threaded wrapper `TransportLayer` (isotp/protocol.py): lifecycle
  (`start` / `stop`), the guards of `process` / `reset`, the cross-thread abort requests,
  the relay queue and the python-can adapters.

  Threads are modelled by their handles and by atomic steps:
  * user steps   : the public methods below (each returns the exception class it raises, if any);
  * relay steps  : `relayStep` (one iteration of `_relay_thread_fn`);
  * worker steps : `workerStep` (one iteration of `_main_thread_fn`: a `process` call followed by
                   the `reset_tx` / `reset_rx` event handling), `workerExit` (the `finally: reset()`).
  `Thread.join(timeout)`, `Event.wait(timeout)` and `Queue.get(timeout)` are modelled by their
  contracts; the real-time side ("a thread that has been asked to stop is observed dead within the
  join timeout") is the named assumption `H-join`, used by `stop`.
-/
namespace Isotp

/-- state of one of the two internal threads -/
inductive Thr where
  | none          -- attribute is None: no thread object
  | running       -- thread object exists and is alive
  | finished      -- thread object exists, target returned
  deriving DecidableEq, Repr, Inhabited

structure Events where
  mainReady : Bool := false
  relayReady : Bool := false
  stopRequested : Bool := false
  resetTx : Bool := false
  resetRx : Bool := false
  resetTxComplete : Bool := false
  resetRxComplete : Bool := false
  deriving DecidableEq, Repr, Inhabited

def Events.cleared : Events := {}

structure TL where
  core : State
  started : Bool := false
  mainThread : Thr := .none
  relayThread : Thr := .none          -- initialised to None by __init__ (D3 repair)
  relayQ : List (Option CanMsg) := []  -- rx_relay_queue (None = wake-up token)
  ev : Events := {}
  rxfnIsRelay : Bool := false         -- `_set_rxfn(self._read_relay_queue)` vs the user rxfn
  bus : List CanMsg := []             -- what the user rxfn will still return (frames on the bus)
  deriving Repr, Inhabited

namespace TL

def init (c : Cfg) (a : Addr) : TL := { core := State.init c a }

/-- `start()`. Under `H-join`/scheduling contract both threads signal ready within 0.5 s. -/
def start (t : TL) : TL × Option PyExc :=
  if t.started then (t, some .RuntimeError)
  else
    ({ t with rxfnIsRelay := true, mainThread := .running, relayThread := .running,
              ev := { Events.cleared with mainReady := true, relayReady := true },
              started := true }, none)

/-- the `finally: super().reset()` of the worker thread -/
def workerExit (t : TL) : TL := { t with core := t.core.reset, mainThread := .finished }

/-- `stop()`: request stop, wake the worker, join both threads (they exit: `H-join`), clear the
    events, reset the logic layer, empty the relay queue (including the part of it already handed to
    the logic layer as unread input), restore the user rxfn. -/
def stop (t : TL) : TL × Option PyExc :=
  let t := { t with ev := { t.ev with stopRequested := true }, relayQ := t.relayQ ++ [none] }
  -- main thread joined: it leaves its loop and runs `reset()`
  let t := if t.mainThread = .running then t.workerExit else t
  let t := { t with mainThread := .none, relayThread := .none }
  -- the relay queue is drained: frames the worker took out of it but `process` has not read yet
  -- (`core.inbox`) are dropped with it
  let t := { t with ev := Events.cleared, core := { t.core.reset with inbox := [] }, relayQ := [],
                    rxfnIsRelay := false, started := false }
  (t, none)

/-- `send()` on the threaded layer (non-blocking): enqueue + wake-up token in the relay queue -/
def send (t : TL) (a : State.SendArgs) : TL × Option PyExc :=
  let (c, e) := t.core.send a
  match e with
  | some .BlockingSendTimeout => ({ t with core := c, relayQ := t.relayQ ++ [none] }, e)
  | some x => (t, some x)
  | none => ({ t with core := c, relayQ := t.relayQ ++ [none] }, none)

def recv (t : TL) : TL × Option Bytes :=
  let (c, r) := t.core.recv
  ({ t with core := c }, r)

/-- `process()` / `reset()` guards -/
def process (t : TL) (doRx doTx : Bool) : TL × Option PyExc :=
  if t.started then (t, some .RuntimeError)
  else
    -- not started: the user rxfn feeds the logic layer directly
    let c := { t.core with inbox := t.core.inbox ++ t.bus.map (fun m => (0, m)) }
    let (c, _, _) := c.process doRx doTx
    ({ t with core := c, bus := [] }, c.exc)

def reset (t : TL) : TL × Option PyExc :=
  if t.started then (t, some .RuntimeError) else ({ t with core := t.core.reset }, none)

/-- `stop_sending()`: direct when not started; otherwise a request served by the worker -/
def stopSending (t : TL) : TL × Option PyExc :=
  if t.started then
    if !t.ev.stopRequested && t.mainThread = .running then
      -- worker serves the request at the end of its current iteration (Event.wait contract)
      ({ t with core := t.core.stopSending false, ev := { t.ev with resetTx := false, resetTxComplete := true } }, none)
    else (t, none)
  else ({ t with core := t.core.stopSending false }, none)

def stopReceiving (t : TL) : TL × Option PyExc :=
  if t.started then
    if !t.ev.stopRequested && t.mainThread = .running then
      ({ t with core := t.core.stopReceiving, relayQ := t.relayQ ++ [none],
                ev := { t.ev with resetRx := false, resetRxComplete := true } }, none)
    else (t, none)
  else ({ t with core := t.core.stopReceiving }, none)

/-- one iteration of the relay thread: read the user rxfn, forward a message to the relay queue -/
def relayStep (t : TL) : TL :=
  if t.relayThread ≠ .running then t
  else if t.ev.stopRequested then { t with relayThread := .finished }
  else match t.bus with
    | [] => t
    | m :: rest => { t with bus := rest, relayQ := t.relayQ ++ [some m] }

/-- one iteration of the worker: drain what the relay queue holds up to (and including) the first
    `None` token into the logic layer's inbox, run `process` -/
def takeUntilNone : List (Option CanMsg) → List CanMsg × List (Option CanMsg)
  | [] => ([], [])
  | none :: rest => ([], rest)
  | some m :: rest => let (ms, r) := takeUntilNone rest; (m :: ms, r)

def workerStep (t : TL) : TL :=
  if t.mainThread ≠ .running then t
  else if t.ev.stopRequested then t.workerExit
  else
    let (ms, rest) := takeUntilNone t.relayQ
    let c := { t.core with inbox := t.core.inbox ++ ms.map (fun m => (0, m)) }
    let (c, _, _) := c.process true true
    { t with core := c, relayQ := rest }

/-- quiescent-and-clean predicate the lifecycle theorems talk about -/
def clean (t : TL) : Bool :=
  !t.started && t.mainThread = .none && t.relayThread = .none && t.relayQ.isEmpty &&
  t.core.rxState = .idle && t.core.txState = .idle && t.core.txQueue.isEmpty && t.core.rxQueue.isEmpty &&
  t.core.active.isNone && t.ev = Events.cleared && t.core.inbox.isEmpty

end TL

/-! ### python-can adapters -/

structure PyCanMsg where
  id : Nat
  ext : Bool
  data : Bytes
  fd : Bool
  brs : Bool
  isError : Bool := false
  isRemote : Bool := false
  deriving DecidableEq, Repr, Inhabited

/-- `_python_can_to_isotp_message` -/
def pyCanToIsotp (m : Option PyCanMsg) : Option CanMsg :=
  match m with
  | none => none
  | some m => if m.isError || m.isRemote then none
              else some { id := m.id, ext := m.ext, data := m.data, fd := m.fd, brs := m.brs }

/-- `python_can_tx_canbus_3plus` -/
def isotpToPyCan (m : CanMsg) : PyCanMsg :=
  { id := m.id, ext := m.ext, data := m.data, fd := m.fd, brs := m.brs }

end Isotp
