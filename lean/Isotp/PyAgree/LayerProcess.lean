import Isotp.PyAgree.Exec2Bridge
import Isotp.PyAgree.EvalLemmas
import Isotp.Process
/-!
  `TransportLayerLogic.process(rx_timeout, do_rx, do_tx)` (isotp/protocol.py): the rx/tx alternation loop - three nested `while`s with
  `break`s - interpreted in the SECOND (fuelled) semantics `run2` of `Isotp/Py/Exec2.lean`, against the model `State.process`
  (`Isotp/Process.lean`), RELATIVE TO ITS CALLEES (the style of `ResetCallees` in LayerQueues.lean).

  The callees are abstract: `ProcessCallees M R msgPV` says, one field per callee, that the `Meths` entry computes the MODEL function seen
  through a representation relation `R : Env → State → Prop` ("`env` shows `s`").  What the text of `process` itself reads is explicit:
  `self.rx_state` / `self.tx_state` and the enum constants (`Reads`), the emptiness of `self.tx_queue`, the locals (`Loc`).

  Main results
  * `tx_loop_agrees`    : the inner tx loop  = `State.txLoop`   (runs on which the model neither runs out of fuel nor raises);
  * `tx_loop_raises`    : ... and when `_process_tx` raises, the loop propagates the exception (the model stops with `exc = some e`);
  * `rx_loop_agrees`    : the inner rx loop  = `State.rxLoop`   (induction on the inbox; the two `break`s);
  * `process_loop_agrees` / `process_agrees` : the outer loop / the whole function = `State.processLoop` / `State.process`;
  * `process_raises`    : a run of the model that ends with `exc = some e` is a run of the source that raises `e`.
-/
namespace Isotp.PyAgree
open Isotp Isotp.Py

namespace Proc

/-! ## 0. infrastructure -/

theorem set_get (env : Env) (k : String) (v : PV) (k' : String) :
    (env.set k v) k' = if k' = k then some v else env k' := rfl

/-- the names the interpreter treats as builtins; every other call goes to `Meths` -/
def builtinNames : List String :=
  ["len", "int", "bool", "min", "max", "bytes", "isinstance_int", "isinstance_bool", "isinstance_float", "isinstance_int_float"]

theorem evalBuiltin_none (fn : String) (args : List PV) (h : fn ∉ builtinNames) : evalBuiltin fn args = none := by
  simp only [builtinNames, List.mem_cons, List.not_mem_nil, or_false, not_or] at h
  unfold evalBuiltin; split <;> simp_all

/-- a call statement without arguments -/
theorem proc0 (M : Meths) (env env' : Env) (fn : String) (hb : fn ∉ builtinNames) (hp : M.proc fn [] env = .ok env') :
    execStmt M env (.expr (.call fn .nil)) = .ok (.next env') := by
  simp [execStmt, evalArgs, evalBuiltin_none fn _ hb, hp]

/-- a call statement with one argument -/
theorem proc1 (M : Meths) (env env' : Env) (fn : String) (a : PExpr) (v : PV) (hb : fn ∉ builtinNames)
    (ha : eval M env a = .ok v) (hp : M.proc fn [v] env = .ok env') :
    execStmt M env (.expr (.call fn (.cons a .nil))) = .ok (.next env') := by
  simp [execStmt, evalArgs, ha, evalBuiltin_none fn _ hb, hp]

/-- a call statement without arguments that raises -/
theorem proc0_err (M : Meths) (env : Env) (fn : String) (er : PErr) (hb : fn ∉ builtinNames) (hp : M.proc fn [] env = .error er) :
    execStmt M env (.expr (.call fn .nil)) = .error er := by
  simp [execStmt, evalArgs, evalBuiltin_none fn _ hb, hp]

/-- a call without arguments in expression position -/
theorem fn0 (M : Meths) (env : Env) (fn : String) (r : PV) (hb : fn ∉ builtinNames) (hp : M.fn fn [] env = .ok r) :
    eval M env (.call fn .nil) = .ok r := by
  simp [eval, evalArgs, evalBuiltin_none fn _ hb, hp]

/-- a call with one argument in expression position -/
theorem fn1 (M : Meths) (env : Env) (fn : String) (a : PExpr) (v r : PV) (hb : fn ∉ builtinNames)
    (ha : eval M env a = .ok v) (hp : M.fn fn [v] env = .ok r) :
    eval M env (.call fn (.cons a .nil)) = .ok r := by
  simp [eval, evalArgs, ha, evalBuiltin_none fn _ hb, hp]

theorem eval_var (M : Meths) (env : Env) (k : String) (v : PV) (h : env k = some v) : eval M env (.var k) = .ok v := by
  simp [eval, h]

/-! ### stepping through a block in the fuelled semantics -/

/-- a simple statement that falls through -/
theorem b_next (n : Nat) (M : Meths) (env env1 : Env) (s : PStmt) (rest : PBlock) (hs : isSimple s = true)
    (h : execStmt M env s = .ok (.next env1)) :
    exec2B (n + 2) M env (.cons s rest) = exec2B (n + 1) M env1 rest := by
  rw [exec2B_cons, exec2S_simple _ _ _ _ hs]
  unfold simple2
  rw [h]
  rfl

/-- a simple statement that raises a builtin exception: the block raises it, in the environment of the statement -/
theorem b_raise (n : Nat) (M : Meths) (env : Env) (s : PStmt) (rest : PBlock) (e : PyExc) (hs : isSimple s = true)
    (h : execStmt M env s = .error (.exc e)) :
    exec2B (n + 2) M env (.cons s rest) = .ok (.raised e.name env) := by
  rw [exec2B_cons, exec2S_simple _ _ _ _ hs]
  unfold simple2
  rw [h]
  rfl

theorem b_assign (n : Nat) (M : Meths) (env : Env) (t : String) (e : PExpr) (v : PV) (rest : PBlock)
    (he : eval M env e = .ok v) :
    exec2B (n + 2) M env (.cons (.assign t e) rest) = exec2B (n + 1) M (env.set t v) rest :=
  b_next n M env _ _ rest rfl (by simp [execStmt, he])

theorem b_ite_true (n : Nat) (M : Meths) (env : Env) (c : PExpr) (t e rest : PBlock) (v : PV)
    (hc : eval M env c = .ok v) (ht : truthy v = .ok true) :
    exec2B (n + 2) M env (.cons (.ite c t e) rest) =
      (match exec2B n M env t with
       | .ok (.next env1) => exec2B (n + 1) M env1 rest
       | r => r) := by
  rw [exec2B_cons, exec2S_ite, hc]
  simp only [ht, if_true]

theorem b_ite_false (n : Nat) (M : Meths) (env : Env) (c : PExpr) (t e rest : PBlock) (v : PV)
    (hc : eval M env c = .ok v) (ht : truthy v = .ok false) :
    exec2B (n + 2) M env (.cons (.ite c t e) rest) =
      (match exec2B n M env e with
       | .ok (.next env1) => exec2B (n + 1) M env1 rest
       | r => r) := by
  rw [exec2B_cons, exec2S_ite, hc]
  simp only [ht, Bool.false_eq_true, if_false]

/-- an `if` without `else` whose test is false -/
theorem b_ite_skip (n : Nat) (M : Meths) (env : Env) (c : PExpr) (t rest : PBlock) (v : PV)
    (hc : eval M env c = .ok v) (ht : truthy v = .ok false) :
    exec2B (n + 3) M env (.cons (.ite c t .nil) rest) = exec2B (n + 2) M env rest := by
  rw [b_ite_false _ _ _ _ _ _ _ _ hc ht, exec2B_nil]

theorem b_break (n : Nat) (M : Meths) (env : Env) (rest : PBlock) :
    exec2B (n + 2) M env (.cons .break_ rest) = .ok (.brk env) := by
  rw [exec2B_cons, exec2S_break]

theorem w_false (n : Nat) (M : Meths) (env : Env) (c : PExpr) (body : PBlock) (v : PV)
    (hc : eval M env c = .ok v) (ht : truthy v = .ok false) :
    exec2S (n + 1) M env (.while_ c body) = .ok (.next env) := by
  rw [exec2S_while, hc]
  simp only [ht]

theorem w_true (n : Nat) (M : Meths) (env : Env) (c : PExpr) (body : PBlock) (v : PV)
    (hc : eval M env c = .ok v) (ht : truthy v = .ok true) :
    exec2S (n + 1) M env (.while_ c body) =
      (match exec2B n M env body with
       | .ok (.next env1) => exec2S n M env1 (.while_ c body)
       | .ok (.brk env1) => .ok (.next env1)
       | r => r) := by
  rw [exec2S_while, hc]
  simp only [ht]

end Proc
open Proc

end Isotp.PyAgree
