import Isotp.Proofs.DuplexLive7
/-
  C10, liveness half — "When both peers send multi-frame messages to each other at the same time … both directions
  deliver all payloads intact, in order and exactly once, with no error reported. No interleaving reaches a state in
  which a transfer is incomplete and no further progress is possible": on the canonical cooperative schedule BOTH
  transfers complete, at once. (Safety for every schedule: Isotp/Props/C01net.lean, C01netfc.lean, C10.lean; liveness
  of ONE direction: Isotp/Props/C01live.lean.)

  Setting. Two freshly constructed layers A (layer 0) and B (layer 1) of the network the driver runs (`Net`).
  `A.send(p)`, `B.send(q)` (`startNet2`), then rounds
      round := A.process(); deliver all A emitted to B; B.process(); deliver all B emitted to A; tick dt
  (`canonRound`, `canonRounds` of C01live: literally these `Net.onLayer` / `Net.deliver` / `Net.tick` operations).
  Hypotheses (`Duplex`): both configurations valid, neither layer in listen mode, rate limiters off, addresses
  well-formed and mirrored in both directions, valid STmin bytes on both sides, both payloads non-empty, < 2^32 bytes and
  within the other side's max_frame_size, and the timing of the schedule
      effAB < dt,  effBA < dt,   kFcA·dt ≤ tFc(A),  kCfA·dt ≤ tCf(A),  kFcB·dt ≤ tFc(B),  kCfB·dt ≤ tCf(B)
  (`effAB = effOf ca cb`: the separation time A has to respect; `k…`: how many ticks the timeouts cover).

  FINDING (timing). The one-directional conditions of C01live (`dt ≤ tFc`, `gap ≤ tCf` with gap = dt for STmin 0, 2·dt
  otherwise) are NOT sufficient in duplex: `one_directional_timing_not_enough` is a run (blocksize 0, STmin 0 on both
  sides, `tCf = tFc = dt`) in which B reports ConsecutiveFrameTimeoutError and A's payload is lost. Reason: a layer that
  is sending and receiving leaves `process()` after the transmit pass that follows a received Flow Control (the rx loop
  breaks at the Flow Control, the tx loop does not ask for another iteration) — the data frames behind the Flow Control
  stay in the inbox until the next round. A frame is delayed by at most one round this way; together with the two rounds
  C01live already needs when STmin > 0, N_Cr has to cover THREE ticks and N_Bs TWO (`needs_three_ticks`,
  `needs_two_ticks_fc`: runs that fail with 2 resp. 1). With `3·dt ≤ tCf`, `2·dt ≤ tFc` on both sides no run we tried fails
  (`C10live_statement`; checked on the abstract machine for all frame counts ≤ 12, blocksizes ≤ 5).

  Method (Isotp/Proofs/DuplexLive*.lean). An abstract duplex machine (`AL`, `absPass`, `absRound`: per layer the phase
  of its transmission, of its reception, the mailbox and pending-Flow-Control bits and the inbox as a list of abstract
  frames; time in rounds) follows the three loops of `process()` literally. `complete_of_abs`: for ALL configurations,
  payloads, addressing modes, tx_data_length / padding the concrete network follows the abstract one round by round
  (`Rep`, `rx_sim`, `tx_sim`, `pass_sim`, `round_sim`), so both transfers complete on the network of the driver as soon
  as the abstract machine of the frame counts / blocksizes / "STmin = 0" bits reaches its final state.

  Results (all on `Net`, for ANY addressing modes, tx_data_length / padding / CAN FD settings, payload bytes):
  * `duplex_of_abstract`: the reduction — if the abstract machine is final after `N0` rounds, then for every `N ≥ N0`
    both transfers have completed after `N` canonical rounds (`CompletesIn`, `Completed2`: B's rx queue = `[p]`, A's
    = `[q]`, both requests completed with success, both layers idle in both directions, nothing queued or pending,
    links and inboxes empty, no error event on either side, clock = `N·dt`).
  * `duplex_completes_partial`: ANY blocksizes, ANY valid STmin (with or without override), Single Frame or segmented
    in either direction — both transfers complete within `roundsBound = 4·(nA + nB) + 2` rounds (an upper bound, not the
    exact count), PROVIDED the four timeouts cover `roundsBound` ticks (instead of 3 resp. 2). This is the general
    statement except for the timeout margin; in particular the schedule never deadlocks (`progress_each_round`: every
    round strictly decreases the potential 3·(frames to send) + (frames to receive) + 2·[waiting for a Flow Control] +
    [request queued], summed over both directions, until both transfers are complete).
    Proof: `DirInv` (per direction: the data frames in transit are exactly the frames sent and not yet consumed, in
    order; exactly one Flow Control is requested / in transit / in the mailbox iff the sender waits for it and the
    receiver has consumed the block; sender and receiver agree on the block boundaries) is preserved by every step of
    `_process_rx` / `_process_tx`, no step fails, the loops of `process()` have enough fuel, and if neither layer has
    anything to do both transfers are complete (Proofs/DuplexLive3–5).
  * `duplex_completes_bs0`: blocksize 0 and STmin 0 on both sides, any two segmented messages: EXACTLY three rounds
    (`bs0_not_before`: not two), with N_Cr covering one tick at A, TWO at B, N_Bs one tick — sharp
    (`one_directional_timing_not_enough`).
  * `duplex_completes_small`: the sharp timeouts (3 / 2 ticks) for all messages of 1..5 frames in each direction and
    blocksizes 0..3 on each side, any STmin (1600 abstract configurations decided by kernel computation,
    Proofs/DuplexLive6).
  What is missing for `C10live_statement` itself: an invariant bounding the AGE of the running N_Cr / N_Bs timers by 3 /
  2 rounds for all parameters (the case analysis is sketched above; every run we computed respects it).
-/
namespace Isotp.C10live
open Isotp Isotp.State Isotp.Spec Isotp.Proofs Isotp.Lockstep Isotp.DuplexLive

/-! ## the statement -/

/-- The hypotheses of the duplex liveness theorems (`k…`: number of ticks the timeouts cover). -/
structure Duplex (ca cb : Cfg) (aa ab : Addr) (p q : Bytes) (dt kCfA kFcA kCfB kFcB : Nat) : Prop where
  va      : ca.valid = true
  vb      : cb.valid = true
  listenA : ca.listen = false
  listenB : cb.listen = false
  rlA     : ca.rlEnable = false
  rlB     : cb.rlEnable = false
  wfA     : aa.tx.txWf = true
  wfB     : ab.tx.txWf = true
  mirAB   : ab.rx = Spec.mirror aa.tx
  mirBA   : aa.rx = Spec.mirror ab.tx
  stminA  : validStmin ca.stmin = true
  stminB  : validStmin cb.stmin = true
  p1      : 1 ≤ p.length
  p32     : p.length < 4294967296
  pmax    : p.length ≤ cb.maxFrameSize
  q1      : 1 ≤ q.length
  q32     : q.length < 4294967296
  qmax    : q.length ≤ ca.maxFrameSize
  sepAB   : effOf ca cb < dt
  sepBA   : effOf cb ca < dt
  kFcA1   : 1 ≤ kFcA
  kCfA1   : 1 ≤ kCfA
  kFcB1   : 1 ≤ kFcB
  kCfB1   : 1 ≤ kCfB
  tFcA    : kFcA * dt ≤ ca.tFc
  tCfA    : kCfA * dt ≤ ca.tCf
  tFcB    : kFcB * dt ≤ cb.tFc
  tCfB    : kCfB * dt ≤ cb.tCf

/-- the hypotheses in the vocabulary of C01: `Compose.Link` in both directions -/
theorem duplex_of_links (ca cb : Cfg) (aa ab : Addr) (p q : Bytes) (dt kCfA kFcA kCfB kFcB : Nat)
    (hAB : Compose.Link ca aa (State.init cb ab)) (hBA : Compose.Link cb ab (State.init ca aa))
    (hlA : ca.listen = false) (hlB : cb.listen = false) (hrA : ca.rlEnable = false) (hrB : cb.rlEnable = false)
    (hsA : validStmin ca.stmin = true) (hsB : validStmin cb.stmin = true)
    (hp1 : 1 ≤ p.length) (hp32 : p.length < 4294967296) (hpm : p.length ≤ cb.maxFrameSize)
    (hq1 : 1 ≤ q.length) (hq32 : q.length < 4294967296) (hqm : q.length ≤ ca.maxFrameSize)
    (h1 : effOf ca cb < dt) (h2 : effOf cb ca < dt) (k1 : 1 ≤ kFcA) (k2 : 1 ≤ kCfA) (k3 : 1 ≤ kFcB) (k4 : 1 ≤ kCfB)
    (t1 : kFcA * dt ≤ ca.tFc) (t2 : kCfA * dt ≤ ca.tCf) (t3 : kFcB * dt ≤ cb.tFc) (t4 : kCfB * dt ≤ cb.tCf) :
    Duplex ca cb aa ab p q dt kCfA kFcA kCfB kFcB :=
  ⟨hAB.cfgA, hBA.cfgA, hlA, hlB, hrA, hrB, hAB.addrA, hBA.addrA, hAB.mirror, hBA.mirror, hsA, hsB, hp1, hp32, hpm,
   hq1, hq32, hqm, h1, h2, k1, k2, k3, k4, t1, t2, t3, t4⟩

/-- the abstract parameters of A and of B: number of frames of the two messages, the two blocksizes, "the separation
    time to respect is 0", and the number of ticks the timeouts cover -/
def parA (ca cb : Cfg) (aa ab : Addr) (p q : Bytes) (kCfA kFcA : Nat) : Par :=
  { n := nFrames (TxCfg.of ca aa) p, n' := nFrames (TxCfg.of cb ab) q, bs := ca.blocksize, bs' := cb.blocksize,
    z := decide (effOf ca cb = 0), kCf := kCfA, kFc := kFcA }
def parB (ca cb : Cfg) (aa ab : Addr) (p q : Bytes) (kCfB kFcB : Nat) : Par :=
  { n := nFrames (TxCfg.of cb ab) q, n' := nFrames (TxCfg.of ca aa) p, bs := cb.blocksize, bs' := ca.blocksize,
    z := decide (effOf cb ca = 0), kCf := kCfB, kFc := kFcB }

/-- the conclusion: after the two `send` calls and `N` canonical rounds both transfers have completed -/
def CompletesIn (ca cb : Cfg) (aa ab : Addr) (idA : Nat) (p : Bytes) (idB : Nat) (q : Bytes) (dt N : Nat) : Prop :=
  ∃ d0 d evA evB, startNet2 ca cb aa ab idA p idB q = some (d0, none, none) ∧
    canonRounds dt N d0 = some (d, evA, evB) ∧ Completed2 idA p idB q d evA evB ∧ d.now = N * dt

/-- **The general liveness statement of C10** (conjectured; see the `_partial` theorems): with N_Cr covering three
    ticks and N_Bs two, both transfers complete within `2·(nA + nB) + 2` rounds (an upper bound), and stay completed. -/
def C10live_statement : Prop :=
  ∀ (ca cb : Cfg) (aa ab : Addr) (idA idB : Nat) (p q : Bytes) (dt : Nat),
    Duplex ca cb aa ab p q dt 3 2 3 2 →
    ((State.init ca aa).send { id := idA, size := p.length, src := p }).2 = none →
    ((State.init cb ab).send { id := idB, size := q.length, src := q }).2 = none →
    ∀ N, 2 * (nFrames (TxCfg.of ca aa) p + nFrames (TxCfg.of cb ab) q) + 2 ≤ N →
      CompletesIn ca cb aa ab idA p idB q dt N

/-! ## the reduction to the abstract duplex machine -/

/-- **Reduction.** For every pair of configurations, addresses and payloads satisfying `Duplex`: if the abstract duplex
    machine of the two layers (frame counts, blocksizes, "STmin = 0" bits, timeout ticks) is final after `N0` rounds,
    then for every `N ≥ N0`, after `A.send(p)`, `B.send(q)` and `N` canonical rounds, B's rx queue is `[p]`, A's is
    `[q]`, both requests completed with success, both layers idle, nothing queued or pending, links and inboxes empty,
    no error event on either side, clock = `N·dt`. -/
theorem duplex_of_abstract (ca cb : Cfg) (aa ab : Addr) (idA idB : Nat) (p q : Bytes) (dt kCfA kFcA kCfB kFcB : Nat)
    (hD : Duplex ca cb aa ab p q dt kCfA kFcA kCfB kFcB)
    (haccA : ((State.init ca aa).send { id := idA, size := p.length, src := p }).2 = none)
    (haccB : ((State.init cb ab).send { id := idB, size := q.length, src := q }).2 = none)
    (N0 : Nat) (habs : absDone (parA ca cb aa ab p q kCfA kFcA) (parB ca cb aa ab p q kCfB kFcB) N0 = true)
    (N : Nat) (hN : N0 ≤ N) : CompletesIn ca cb aa ab idA p idB q dt N := by
  let SA : Side := { c := ca, a := aa, c' := cb, a' := ab, id := idA, p := p, p' := q, dt := dt, kCf := kCfA, kFc := kFcA }
  have hA : SideOk SA :=
    ⟨hD.va, hD.vb, hD.listenA, hD.rlA, hD.wfA, hD.wfB, hD.mirBA, hD.stminB, hD.p1, hD.p32, hD.q1, hD.q32, hD.qmax,
     hD.sepAB, hD.kFcA1, hD.kCfA1, hD.tFcA, hD.tCfA⟩
  have hB : SideOk (sideB SA idB kCfB kFcB) :=
    ⟨hD.vb, hD.va, hD.listenB, hD.rlB, hD.wfB, hD.wfA, hD.mirAB, hD.stminA, hD.q1, hD.q32, hD.p1, hD.p32, hD.pmax,
     hD.sepBA, hD.kFcB1, hD.kCfB1, hD.tFcB, hD.tCfB⟩
  obtain ⟨n', hr, hf⟩ := absDone_spec (absDone_mono habs hN)
  exact complete_of_abs SA idB kCfB kFcB hA hB haccA haccB N n' hr hf

/-! ## the theorems -/

theorem parOk (ca cb : Cfg) (aa ab : Addr) (p q : Bytes) (k1 k2 k3 k4 : Nat) (hva : ca.valid = true)
    (hvb : cb.valid = true) : ParOk (parA ca cb aa ab p q k1 k2) (parB ca cb aa ab p q k3 k4) :=
  ⟨rfl, rfl, rfl, rfl, nFrames_pos ca aa p hva, nFrames_pos cb ab q hvb⟩

/-- the number of rounds within which both transfers complete (an upper bound), and which the timeouts have to cover
    in `duplex_completes_partial` -/
def roundsBound (ca cb : Cfg) (aa ab : Addr) (p q : Bytes) : Nat :=
  4 * (nFrames (TxCfg.of ca aa) p + nFrames (TxCfg.of cb ab) q) + 2

/-- **C10 (liveness), general in everything but the timeout margins.** ANY blocksizes (0..255), ANY valid STmin bytes
    (with or without `override_receiver_stmin`), any addressing modes, tx_data_length / padding, Single Frame or
    segmented messages in either direction: if the four timeouts cover `roundsBound = 4·(nA + nB) + 2` ticks (instead
    of the 3 resp. 2 ticks of `C10live_statement`), then for every `N ≥ roundsBound`, after `A.send(p)`, `B.send(q)`
    and `N` canonical rounds B's rx queue is `[p]`, A's is `[q]`, both requests completed with success, both layers
    idle in both directions, nothing queued or pending, links and inboxes empty, no error event on either side.
    In particular no duplex interleaving of this schedule deadlocks. -/
theorem duplex_completes_partial (ca cb : Cfg) (aa ab : Addr) (idA idB : Nat) (p q : Bytes) (dt : Nat)
    (hD : Duplex ca cb aa ab p q dt (roundsBound ca cb aa ab p q) (roundsBound ca cb aa ab p q)
      (roundsBound ca cb aa ab p q) (roundsBound ca cb aa ab p q))
    (haccA : ((State.init ca aa).send { id := idA, size := p.length, src := p }).2 = none)
    (haccB : ((State.init cb ab).send { id := idB, size := q.length, src := q }).2 = none)
    (N : Nat) (hN : roundsBound ca cb aa ab p q ≤ N) : CompletesIn ca cb aa ab idA p idB q dt N :=
  duplex_of_abstract ca cb aa ab idA idB p q dt _ _ _ _ hD haccA haccB (roundsBound ca cb aa ab p q)
    (absDone_general (parOk ca cb aa ab p q _ _ _ _ hD.va hD.vb) (Nat.le_refl _) (Nat.le_refl _) (Nat.le_refl _)
      (Nat.le_refl _)) N hN

/-- **C10 (liveness) with the sharp timeouts, small parameters.** With N_Cr covering 3 ticks and N_Bs 2 ticks on both
    sides (`C10live_statement`), for all payloads of 1..5 frames in each direction and blocksizes 0..3 on each side
    (any STmin, addressing, tx_data_length, padding): both transfers complete within `2·(nA + nB) + 2` rounds. -/
theorem duplex_completes_small (ca cb : Cfg) (aa ab : Addr) (idA idB : Nat) (p q : Bytes) (dt : Nat)
    (hD : Duplex ca cb aa ab p q dt 3 2 3 2)
    (haccA : ((State.init ca aa).send { id := idA, size := p.length, src := p }).2 = none)
    (haccB : ((State.init cb ab).send { id := idB, size := q.length, src := q }).2 = none)
    (hnA : nFrames (TxCfg.of ca aa) p ≤ 5) (hnB : nFrames (TxCfg.of cb ab) q ≤ 5)
    (hbA : ca.blocksize ≤ 3) (hbB : cb.blocksize ≤ 3)
    (N : Nat) (hN : 2 * (nFrames (TxCfg.of ca aa) p + nFrames (TxCfg.of cb ab) q) + 2 ≤ N) :
    CompletesIn ca cb aa ab idA p idB q dt N :=
  duplex_of_abstract ca cb aa ab idA idB p q dt 3 2 3 2 hD haccA haccB _
    (absDone_small _ _ _ _ _ _ (nFrames_pos ca aa p hD.va) hnA (nFrames_pos cb ab q hD.vb) hnB hbA hbB) N hN

/-- **C10 (liveness), blocksize 0 and STmin 0 on both sides, any two segmented messages** (any addressing,
    tx_data_length, padding): the exchange takes exactly THREE rounds — First Frames and B's Flow Control; A's Flow
    Control and all Consecutive Frames of both; the Consecutive Frames each side left in its inbox — with N_Cr covering
    one tick at A and TWO ticks at B (A runs first in the round), N_Bs one tick. -/
theorem duplex_completes_bs0 (ca cb : Cfg) (aa ab : Addr) (idA idB : Nat) (p q : Bytes) (dt : Nat)
    (hD : Duplex ca cb aa ab p q dt 1 1 2 1)
    (hbA : ca.blocksize = 0) (hbB : cb.blocksize = 0) (hzA : effOf ca cb = 0) (hzB : effOf cb ca = 0)
    (hffA : NeedsFF (TxCfg.of ca aa) p.length) (hffB : NeedsFF (TxCfg.of cb ab) q.length)
    (haccA : ((State.init ca aa).send { id := idA, size := p.length, src := p }).2 = none)
    (haccB : ((State.init cb ab).send { id := idB, size := q.length, src := q }).2 = none)
    (N : Nat) (hN : 3 ≤ N) : CompletesIn ca cb aa ab idA p idB q dt N := by
  have hnA := two_le_nFrames _ (valid_of ca aa hD.va) p hffA
  have hnB := two_le_nFrames _ (valid_of cb ab hD.vb) q hffB
  have eA : parA ca cb aa ab p q 1 1 = bs0A (nFrames (TxCfg.of ca aa) p) (nFrames (TxCfg.of cb ab) q) 1 1 := by
    simp [parA, bs0A, hbA, hbB, hzA]
  have eB : parB ca cb aa ab p q 2 1 = bs0B (nFrames (TxCfg.of ca aa) p) (nFrames (TxCfg.of cb ab) q) 2 1 := by
    simp [parB, bs0B, hbA, hbB, hzB]
  refine duplex_of_abstract ca cb aa ab idA idB p q dt 1 1 2 1 hD haccA haccB 3 ?_ N hN
  rw [eA, eB]
  exact absDone_bs0 _ _ 1 1 2 1 hnA hnB (Nat.le_refl _) (Nat.le_refl _) (Nat.le_refl _) (Nat.le_refl _)

/-- … and not before: after two rounds neither payload has been delivered yet -/
theorem bs0_not_before (ca cb : Cfg) (aa ab : Addr) (idA idB : Nat) (p q : Bytes) (dt : Nat)
    (hD : Duplex ca cb aa ab p q dt 1 1 2 1)
    (hbA : ca.blocksize = 0) (hbB : cb.blocksize = 0) (hzA : effOf ca cb = 0) (hzB : effOf cb ca = 0)
    (hffA : NeedsFF (TxCfg.of ca aa) p.length) (hffB : NeedsFF (TxCfg.of cb ab) q.length)
    (haccA : ((State.init ca aa).send { id := idA, size := p.length, src := p }).2 = none)
    (haccB : ((State.init cb ab).send { id := idB, size := q.length, src := q }).2 = none) :
    ∃ d0 d evA evB a b, startNet2 ca cb aa ab idA p idB q = some (d0, none, none) ∧
      canonRounds dt 2 d0 = some (d, evA, evB) ∧ d.layers = #[a, b] ∧ a.rxQueue = [] ∧ b.rxQueue = [] ∧
      a.rxState = .waitCf ∧ b.rxState = .waitCf := by
  have hnA := two_le_nFrames _ (valid_of ca aa hD.va) p hffA
  have hnB := two_le_nFrames _ (valid_of cb ab hD.vb) q hffB
  let SA : Side := { c := ca, a := aa, c' := cb, a' := ab, id := idA, p := p, p' := q, dt := dt, kCf := 1, kFc := 1 }
  have hA : SideOk SA :=
    ⟨hD.va, hD.vb, hD.listenA, hD.rlA, hD.wfA, hD.wfB, hD.mirBA, hD.stminB, hD.p1, hD.p32, hD.q1, hD.q32, hD.qmax,
     hD.sepAB, hD.kFcA1, hD.kCfA1, hD.tFcA, hD.tCfA⟩
  have hB : SideOk (sideB SA idB 2 1) :=
    ⟨hD.vb, hD.va, hD.listenB, hD.rlB, hD.wfB, hD.wfA, hD.mirAB, hD.stminA, hD.q1, hD.q32, hD.p1, hD.p32, hD.pmax,
     hD.sepBA, hD.kFcB1, hD.kCfB1, hD.tFcB, hD.tCfB⟩
  have eA : SA.par = bs0A (nFrames (TxCfg.of ca aa) p) (nFrames (TxCfg.of cb ab) q) 1 1 := by
    simp [Side.par, SA, bs0A, hbA, hbB, hzA]
  have eB : (sideB SA idB 2 1).par = bs0B (nFrames (TxCfg.of ca aa) p) (nFrames (TxCfg.of cb ab) q) 2 1 := by
    simp [Side.par, Side.swap, SA, bs0B, hbA, hbB, hzB]
  have hr : absRounds SA.par (sideB SA idB 2 1).par 2 {} =
      some (net2 (nFrames (TxCfg.of ca aa) p) (nFrames (TxCfg.of cb ab) q)) := by
    rw [eA, eB]
    simp only [absRounds, round1 _ _ 1 1 2 1 hnA hnB, round2 _ _ 1 1 2 1 hnA hnB (Nat.le_refl _) (by omega) (Nat.le_refl _)]
  obtain ⟨hl, -⟩ := rounds_sim hA hB 2 {} _ _ (netRep_init SA idB 2 1 hA hB) hr
  have hc := canonRounds_toNet dt 2 (pair2 ca cb aa ab idA p idB q)
  have hdt : SA.dt = dt := rfl
  rw [hdt] at hl
  generalize Pair.rounds dt 2 (pair2 ca cb aa ab idA p idB q) = rr at hc hl
  obtain ⟨qq, eA', eB'⟩ := rr
  have ha : RxRep SA (.S 0 (some 1)) (rxV (enter _ qq.a)) := hl.a.rx
  have hb : RxRep (sideB SA idB 2 1) (.S 0 (some 0)) (rxV (enter _ qq.b)) := hl.b.rx
  obtain ⟨a1, -, -, -, -, -, -, a8, -⟩ := ha
  obtain ⟨b1, -, -, -, -, -, -, b8, -⟩ := hb
  exact ⟨_, _, _, _, qq.a, qq.b, startNet2_eq ca cb aa ab idA p idB q haccA haccB, hc, rfl, a8, b8, a1, b1⟩

/-- **No deadlock on this schedule.** Under the hypotheses of `duplex_completes_partial`, after any number `i` of
    rounds the network of the driver is described (`NetRep`: field by field, `Rep`) by the state `ni` of the abstract
    duplex machine after `i` rounds, the next abstract round succeeds and does not increase the potential
    `netM` = Σ over both directions of 3·(frames still to send) + (frames still to receive) + 2·[waiting for a Flow
    Control] + [request still queued] — and strictly decreases it unless both transfers are complete. -/
theorem progress_each_round (ca cb : Cfg) (aa ab : Addr) (idA idB : Nat) (p q : Bytes) (dt : Nat)
    (hD : Duplex ca cb aa ab p q dt (roundsBound ca cb aa ab p q) (roundsBound ca cb aa ab p q)
      (roundsBound ca cb aa ab p q) (roundsBound ca cb aa ab p q))
    (haccA : ((State.init ca aa).send { id := idA, size := p.length, src := p }).2 = none)
    (haccB : ((State.init cb ab).send { id := idB, size := q.length, src := q }).2 = none) (i : Nat) :
    ∃ d0 d evA evB qi ni n', startNet2 ca cb aa ab idA p idB q = some (d0, none, none) ∧
      canonRounds dt i d0 = some (d, evA, evB) ∧ d = qi.toNet ∧
      absRounds (parA ca cb aa ab p q (roundsBound ca cb aa ab p q) (roundsBound ca cb aa ab p q))
        (parB ca cb aa ab p q (roundsBound ca cb aa ab p q) (roundsBound ca cb aa ab p q)) i {} = some ni ∧
      NetRep { c := ca, a := aa, c' := cb, a' := ab, id := idA, p := p, p' := q, dt := dt,
               kCf := roundsBound ca cb aa ab p q, kFc := roundsBound ca cb aa ab p q }
        idB (roundsBound ca cb aa ab p q) (roundsBound ca cb aa ab p q) ni qi ∧
      absRound (parA ca cb aa ab p q (roundsBound ca cb aa ab p q) (roundsBound ca cb aa ab p q))
        (parB ca cb aa ab p q (roundsBound ca cb aa ab p q) (roundsBound ca cb aa ab p q)) ni = some n' ∧
      netM (parA ca cb aa ab p q (roundsBound ca cb aa ab p q) (roundsBound ca cb aa ab p q))
        (parB ca cb aa ab p q (roundsBound ca cb aa ab p q) (roundsBound ca cb aa ab p q)) n' ≤
      netM (parA ca cb aa ab p q (roundsBound ca cb aa ab p q) (roundsBound ca cb aa ab p q))
        (parB ca cb aa ab p q (roundsBound ca cb aa ab p q) (roundsBound ca cb aa ab p q)) ni ∧
      (ni.final = false →
        netM (parA ca cb aa ab p q (roundsBound ca cb aa ab p q) (roundsBound ca cb aa ab p q))
          (parB ca cb aa ab p q (roundsBound ca cb aa ab p q) (roundsBound ca cb aa ab p q)) n' <
        netM (parA ca cb aa ab p q (roundsBound ca cb aa ab p q) (roundsBound ca cb aa ab p q))
          (parB ca cb aa ab p q (roundsBound ca cb aa ab p q) (roundsBound ca cb aa ab p q)) ni) := by
  let K := roundsBound ca cb aa ab p q
  let SA : Side := { c := ca, a := aa, c' := cb, a' := ab, id := idA, p := p, p' := q, dt := dt, kCf := K, kFc := K }
  have hA : SideOk SA :=
    ⟨hD.va, hD.vb, hD.listenA, hD.rlA, hD.wfA, hD.wfB, hD.mirBA, hD.stminB, hD.p1, hD.p32, hD.q1, hD.q32, hD.qmax,
     hD.sepAB, hD.kFcA1, hD.kCfA1, hD.tFcA, hD.tCfA⟩
  have hB : SideOk (sideB SA idB K K) :=
    ⟨hD.vb, hD.va, hD.listenB, hD.rlB, hD.wfB, hD.wfA, hD.mirAB, hD.stminA, hD.q1, hD.q32, hD.p1, hD.p32, hD.pmax,
     hD.sepBA, hD.kFcB1, hD.kCfB1, hD.tFcB, hD.tCfB⟩
  obtain ⟨ni, n', e1, e2, hle, hlt⟩ := abs_progress (parOk ca cb aa ab p q K K K K hD.va hD.vb) (Nat.le_refl _)
    (Nat.le_refl _) (Nat.le_refl _) (Nat.le_refl _) i
  obtain ⟨hl, -⟩ := rounds_sim hA hB i {} ni _ (netRep_init SA idB K K hA hB) e1
  exact ⟨_, _, _, _, _, ni, n', startNet2_eq ca cb aa ab idA p idB q haccA haccB, canonRounds_toNet dt i _, rfl, e1, hl,
    e2, hle, hlt⟩

/-! ## the objects of the statement, spelled out -/

/-- the network after the two `send` calls is literally two `Net.onLayer` operations on the freshly built network -/
theorem startNet2_def (ca cb : Cfg) (aa ab : Addr) (idA : Nat) (p : Bytes) (idB : Nat) (q : Bytes) :
    startNet2 ca cb aa ab idA p idB q =
      ((net0 ca cb aa ab).onLayer 0 (sendOp idA p)).bind fun r1 =>
      (r1.1.onLayer 1 (sendOp idB q)).bind fun r2 => some (r2.1, r1.2.2.2, r2.2.2.2) := by
  unfold startNet2
  cases (net0 ca cb aa ab).onLayer 0 (sendOp idA p) with
  | none => rfl
  | some r1 =>
    obtain ⟨d1, s1, e1, x1⟩ := r1
    simp only [Option.bind_some]
    cases d1.onLayer 1 (sendOp idB q) with
    | none => rfl
    | some r2 => rfl

/-- the number of rounds of `duplex_completes_partial`, spelled out -/
theorem roundsBound_eq (ca cb : Cfg) (aa ab : Addr) (p q : Bytes) :
    roundsBound ca cb aa ab p q =
      4 * ((segment (TxCfg.of ca aa) p).length + (segment (TxCfg.of cb ab) q).length) + 2 := rfl

/-! ## concrete instances (non-vacuity): classic CAN, normal 11-bit addressing; A sends 20 bytes (3 frames), B sends
    50 bytes (8 frames) -/

def exHalfA : Half := { mode := .n11, txid := some 0x123, rxid := some 0x456, ta := none, sa := none, ae := none,
                        physId := 0, funcId := 0, rxOnly := false, txOnly := false }
def exHalfB : Half := { mode := .n11, txid := some 0x456, rxid := some 0x123, ta := none, sa := none, ae := none,
                        physId := 0, funcId := 0, rxOnly := false, txOnly := false }
def exAddrA : Addr := { tx := exHalfA, rx := exHalfA }
def exAddrB : Addr := { tx := exHalfB, rx := exHalfB }
/-- A's payload: 20 bytes = First Frame + 2 Consecutive Frames -/
def exP : Bytes := (List.range 20).map UInt8.ofNat
/-- B's payload: 50 bytes = First Frame + 7 Consecutive Frames -/
def exQ : Bytes := (List.range 50).map UInt8.ofNat

example : (segment (TxCfg.of {} exAddrB) exQ).length = 8 ∧ (segment (TxCfg.of {} exAddrA) exP).length = 3 := by decide

/-- A with the given blocksize / STmin byte / N_Cr / N_Bs timeouts (ns), everything else default -/
def exC (bs st tCf tFc : Nat) : Cfg := { blocksize := bs, stmin := st, tCf := tCf, tFc := tFc }

/-- the hypotheses are satisfiable: blocksizes 2 / 3, STmin 1 ms on both sides, tick 1 ms + 1 ns, default timeouts
    (1 s): they cover the 46 ticks of `roundsBound` -/
theorem exDuplex_2_3 : Duplex (exC 2 1 1000000000 1000000000) (exC 3 1 1000000000 1000000000) exAddrA exAddrB exP exQ
    1000001 46 46 46 46 :=
  ⟨by decide, by decide, by decide, by decide, by decide, by decide, by decide, by decide, by decide, by decide,
   by decide, by decide, by decide, by decide, by decide, by decide, by decide, by decide, by decide, by decide,
   by decide, by decide, by decide, by decide, by decide, by decide, by decide, by decide⟩

example : roundsBound (exC 2 1 1000000000 1000000000) (exC 3 1 1000000000 1000000000) exAddrA exAddrB exP exQ = 46 := by
  decide

/-- … blocksize 0, STmin 0 on both sides, tick 1 ns, timeouts exactly 3 resp. 2 ticks -/
theorem exDuplex_sharp : Duplex (exC 0 0 3 2) (exC 0 0 3 2) exAddrA exAddrB exP [1, 2, 3, 4, 5, 6, 7, 8, 9] 1 3 2 3 2 :=
  ⟨by decide, by decide, by decide, by decide, by decide, by decide, by decide, by decide, by decide, by decide,
   by decide, by decide, by decide, by decide, by decide, by decide, by decide, by decide, by decide, by decide,
   by decide, by decide, by decide, by decide, by decide, by decide, by decide, by decide⟩

/-- instances of the theorems -/
example : CompletesIn (exC 2 1 1000000000 1000000000) (exC 3 1 1000000000 1000000000) exAddrA exAddrB 1 exP 2 exQ
    1000001 46 :=
  duplex_completes_partial _ _ _ _ 1 2 _ _ _ exDuplex_2_3 (by decide) (by decide) 46 (by decide)

example : CompletesIn (exC 0 0 3 2) (exC 0 0 3 2) exAddrA exAddrB 1 exP 2 [1, 2, 3, 4, 5, 6, 7, 8, 9] 1 12 :=
  duplex_completes_small _ _ _ _ 1 2 _ _ _ exDuplex_sharp (by decide) (by decide) (by decide) (by decide) (by decide)
    (by decide) 12 (by decide)

/-- … blocksize 0, STmin 0 on both sides, tick 1 ns, N_Cr = 1 tick at A and 2 ticks at B, N_Bs = 1 tick -/
theorem exDuplex_bs0 : Duplex (exC 0 0 1 1) (exC 0 0 2 1) exAddrA exAddrB exP exQ 1 1 1 2 1 :=
  ⟨by decide, by decide, by decide, by decide, by decide, by decide, by decide, by decide, by decide, by decide,
   by decide, by decide, by decide, by decide, by decide, by decide, by decide, by decide, by decide, by decide,
   by decide, by decide, by decide, by decide, by decide, by decide, by decide, by decide⟩

example : CompletesIn (exC 0 0 1 1) (exC 0 0 2 1) exAddrA exAddrB 1 exP 2 exQ 1 3 :=
  duplex_completes_bs0 _ _ _ _ 1 2 _ _ _ exDuplex_bs0 rfl rfl (by decide) (by decide) (by decide) (by decide)
    (by decide) (by decide) 3 (Nat.le_refl 3)

example : ∃ d0 d evA evB a b, startNet2 (exC 0 0 1 1) (exC 0 0 2 1) exAddrA exAddrB 1 exP 2 exQ = some (d0, none, none) ∧
    canonRounds 1 2 d0 = some (d, evA, evB) ∧ d.layers = #[a, b] ∧ a.rxQueue = [] ∧ b.rxQueue = [] ∧
    a.rxState = .waitCf ∧ b.rxState = .waitCf :=
  bs0_not_before _ _ _ _ 1 2 _ _ _ exDuplex_bs0 rfl rfl (by decide) (by decide) (by decide) (by decide)
    (by decide) (by decide)

/-- the reduction, used directly: the abstract machine of this configuration (3 and 2 frames, blocksize 0, STmin 0,
    timeouts of 3 / 2 ticks) is final after 3 rounds -/
example : CompletesIn (exC 0 0 3 2) (exC 0 0 3 2) exAddrA exAddrB 1 exP 2 [1, 2, 3, 4, 5, 6, 7, 8, 9] 1 3 :=
  duplex_of_abstract _ _ _ _ 1 2 _ _ _ 3 2 3 2 exDuplex_sharp (by decide) (by decide) 3 (by decide +kernel) 3
    (Nat.le_refl 3)

/-- the hypotheses in the vocabulary of C01 -/
example : Duplex (exC 0 0 3 2) (exC 0 0 3 2) exAddrA exAddrB exP [1, 2, 3, 4, 5, 6, 7, 8, 9] 1 3 2 3 2 :=
  duplex_of_links _ _ _ _ _ _ _ _ _ _ _ ⟨by decide, by decide, by decide⟩ ⟨by decide, by decide, by decide⟩ rfl rfl rfl rfl
    (by decide) (by decide) (by decide) (by decide) (by decide) (by decide) (by decide) (by decide) (by decide)
    (by decide) (by decide) (by decide) (by decide) (by decide) (by decide) (by decide) (by decide) (by decide)

/-- an instance of `progress_each_round`: blocksizes 2 / 3, STmin 1 ms, after two rounds -/
example := progress_each_round (exC 2 1 1000000000 1000000000) (exC 3 1 1000000000 1000000000) exAddrA exAddrB 1 2 exP exQ
  1000001 exDuplex_2_3 (by decide) (by decide) 2

/-! ### the same kind of scenario, evaluated: what the network looks like after `N` rounds -/

def errsOf (evs : List Ev) : List Err := evs.filterMap fun e => match e with | .err _ x => some x | _ => none

/-- what is looked at after the two `send` calls and `N` rounds -/
structure Summary where
  rxQueues : List (List Bytes)     -- of A, of B
  txStates : List TxSt
  rxStates : List RxSt
  inboxes  : List Nat              -- frames still in the inboxes
  now      : Nat
  doneA    : Bool                  -- `complete(True)` seen by A's / B's request
  doneB    : Bool
  errsA    : List Err              -- errors reported to A's / B's error handler
  errsB    : List Err
  deriving DecidableEq, Repr

def runEx (ca cb : Cfg) (p q : Bytes) (dt N : Nat) : Option Summary :=
  (startNet2 ca cb exAddrA exAddrB 1 p 2 q).bind fun d0 =>
    (canonRounds dt N d0.1).map fun r =>
      { rxQueues := r.1.layers.toList.map (·.rxQueue), txStates := r.1.layers.toList.map (·.txState),
        rxStates := r.1.layers.toList.map (·.rxState), inboxes := r.1.layers.toList.map (·.inbox.length),
        now := r.1.now, doneA := decide (Ev.done 1 true ∈ r.2.1), doneB := decide (Ev.done 2 true ∈ r.2.2),
        errsA := errsOf r.2.1, errsB := errsOf r.2.2 }

def big : Nat := 1000000000

/-- the final picture: A has `[q]`, B has `[p]`, everything idle, both requests completed, no error -/
def okAt (p q : Bytes) (now : Nat) : Option Summary :=
  some ⟨[[q], [p]], [.idle, .idle], [.idle, .idle], [0, 0], now, true, true, [], []⟩

-- blocksize 0 / 0, STmin 0: three rounds (First Frames; Flow Controls and all Consecutive Frames; the Consecutive
-- Frames left behind the Flow Control); after two rounds 7 + 2 frames are still in the inboxes
example : runEx (exC 0 0 big big) (exC 0 0 big big) exP exQ 1 3 = okAt exP exQ 3 := by decide +kernel
example : runEx (exC 0 0 big big) (exC 0 0 big big) exP exQ 1 2 =
    some ⟨[[], []], [.idle, .idle], [.waitCf, .waitCf], [7, 2], 2, true, true, [], []⟩ := by decide +kernel
-- blocksize 2 / 3, STmin 0: six rounds
example : runEx (exC 2 0 big big) (exC 3 0 big big) exP exQ 1 6 = okAt exP exQ 6 := by decide +kernel
example : runEx (exC 2 0 big big) (exC 3 0 big big) exP exQ 1 5 =
    some ⟨[[], [exP]], [.idle, .idle], [.waitCf, .idle], [1, 0], 5, true, true, [], []⟩ := by decide +kernel
-- blocksize 2 / 3, STmin 1 ms on both sides, tick 1 ms + 1 ns: thirteen rounds
example : runEx (exC 2 1 big big) (exC 3 1 big big) exP exQ 1000001 13 = okAt exP exQ 13000013 := by decide +kernel
example : runEx (exC 2 1 big big) (exC 3 1 big big) exP exQ 1000001 12 =
    some ⟨[[], [exP]], [.idle, .idle], [.waitCf, .idle], [1, 0], 12000012, true, true, [], []⟩ := by decide +kernel
-- blocksize 0 / 0, STmin 1 ms: ten rounds
example : runEx (exC 0 1 big big) (exC 0 1 big big) exP exQ 1000001 10 = okAt exP exQ 10000010 := by decide +kernel
-- timeouts of exactly 3 resp. 2 ticks are enough here (and in all runs we tried)
example : runEx (exC 2 1 3000003 2000002) (exC 3 1 3000003 2000002) exP exQ 1000001 13 = okAt exP exQ 13000013 := by
  decide +kernel

/-! ### FINDING: the one-directional timing conditions are not sufficient in duplex -/

/-- Both directions separately satisfy the hypotheses of C01live (`Scenario`: blocksize 0, STmin 0, tick 1 ns,
    N_Bs = N_Cr = 1 ns = one tick) … -/
theorem one_directional_hypotheses_hold :
    Scenario (exC 0 0 1 1) (exC 0 0 1 1) exAddrA exAddrB exP 1 ∧ Scenario (exC 0 0 1 1) (exC 0 0 1 1) exAddrB exAddrA exQ 1 :=
  ⟨⟨by decide, by decide, by decide, by decide, by decide, by decide, by decide, by decide, by decide, by decide,
    by decide, by decide, by decide⟩,
   ⟨by decide, by decide, by decide, by decide, by decide, by decide, by decide, by decide, by decide, by decide,
    by decide, by decide, by decide⟩⟩

/-- … but when both send at the same time B's N_Cr timer fires: B reports ConsecutiveFrameTimeoutError (and then
    UnexpectedConsecutiveFrame for the frames that follow), A's payload is never delivered — although A's request is
    completed with success. (B leaves `process()` right after the transmit pass that follows A's Flow Control; A's
    Consecutive Frames, which are behind that Flow Control in B's inbox, are read one round = one tick later.) -/
theorem one_directional_timing_not_enough :
    runEx (exC 0 0 1 1) (exC 0 0 1 1) exP exQ 1 4 =
      some ⟨[[exQ], []], [.idle, .idle], [.idle, .idle], [0, 0], 4, true, true, [],
            [.ConsecutiveFrameTimeout, .UnexpectedConsecutiveFrame, .UnexpectedConsecutiveFrame]⟩ := by decide +kernel

/-- with N_Cr(B) = two ticks the same exchange completes (A needs only one tick: it runs first in the round) -/
theorem two_ticks_enough_here : runEx (exC 0 0 1 1) (exC 0 0 2 1) exP exQ 1 3 = okAt exP exQ 3 := by decide +kernel

/-- N_Cr has to cover THREE ticks in general: A announces STmin = 1 ms (so B lets a round pass after A's Flow
    Control), B announces blocksize 1 (so each of A's frames needs a Flow Control, which sits in front of B's next
    Consecutive Frame in A's inbox): with `tCf(A)` = 2 ticks A reports ConsecutiveFrameTimeoutError, with 3 ticks the
    exchange completes. -/
theorem needs_three_ticks :
    runEx (exC 0 1 2000002 big) (exC 1 0 big big) exP exQ 1000001 12 =
      some ⟨[[], [exP]], [.idle, .idle], [.idle, .idle], [0, 0], 12000012, true, true,
            [.ConsecutiveFrameTimeout, .UnexpectedConsecutiveFrame, .UnexpectedConsecutiveFrame,
             .UnexpectedConsecutiveFrame, .UnexpectedConsecutiveFrame, .UnexpectedConsecutiveFrame,
             .UnexpectedConsecutiveFrame, .UnexpectedConsecutiveFrame], []⟩ ∧
    runEx (exC 0 1 3000003 big) (exC 1 0 big big) exP exQ 1000001 12 = okAt exP exQ 12000012 := by
  constructor <;> decide +kernel

/-- N_Bs has to cover TWO ticks in general: with `tFc(A)` = 1 tick A reports FlowControlTimeoutError (its request
    fails, B is left waiting), with 2 ticks the exchange completes. -/
theorem needs_two_ticks_fc :
    runEx (exC 0 0 big 1) (exC 1 0 big big) exP exQ 1 6 =
      some ⟨[[exQ], []], [.idle, .idle], [.idle, .waitCf], [0, 0], 6, false, true, [.FlowControlTimeout], []⟩ ∧
    runEx (exC 0 0 big 2) (exC 1 0 big big) exP exQ 1 6 = okAt exP exQ 6 := by
  constructor <;> decide +kernel

end Isotp.C10live

#print axioms Isotp.C10live.duplex_of_abstract
#print axioms Isotp.C10live.duplex_of_links
#print axioms Isotp.C10live.duplex_completes_partial
#print axioms Isotp.C10live.duplex_completes_small
#print axioms Isotp.C10live.progress_each_round
#print axioms Isotp.C10live.duplex_completes_bs0
#print axioms Isotp.C10live.bs0_not_before
#print axioms Isotp.C10live.startNet2_def
#print axioms Isotp.C10live.one_directional_hypotheses_hold
#print axioms Isotp.C10live.one_directional_timing_not_enough
#print axioms Isotp.C10live.two_ticks_enough_here
#print axioms Isotp.C10live.needs_three_ticks
#print axioms Isotp.C10live.needs_two_ticks_fc
