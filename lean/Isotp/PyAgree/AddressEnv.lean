import Isotp.Py.Src
import Isotp.PyAgree.Bits
/-!
  How a constructed `Address` object (model: `Half`) and a `CanMessage` (model: `CanMsg`) look to the interpreter:
  the attribute values the functions read.
-/
namespace Isotp.PyAgree
open Isotp Isotp.Py

def modeName : Mode → String
  | .n11 => "Normal_11bits" | .n29 => "Normal_29bits" | .nf29 => "NormalFixed_29bits"
  | .e11 => "Extended_11bits" | .e29 => "Extended_29bits" | .m11 => "Mixed_11bits" | .m29 => "Mixed_29bits"

def modePV (m : Mode) : PV := .sc (.enum "AddressingMode" (modeName m))

def optPV : Option Nat → PV
  | none => pnone
  | some n => pint n

def tatPV : Tat → PV
  | .physical => .sc (.enum "TargetAddressType" "Physical")
  | .functional => .sc (.enum "TargetAddressType" "Functional")

/-- class constants, as dumped from the source -/
def constEnv : Env := fun k => (Src.consts.find? (fun c => c.1 == k)).map (·.2)

/-- attributes of a constructed `Address` (`physical_id` / `functional_id` exist only in the two modes that set them) -/
def halfEnv (h : Half) : Env := fun k =>
  match k with
  | "self._addressing_mode" => some (modePV h.mode)
  | "self._is_29bits" => some (pbool h.mode.is29)
  | "self._txid" => some (optPV h.txid)
  | "self._rxid" => some (optPV h.rxid)
  | "self._target_address" => some (optPV h.ta)
  | "self._source_address" => some (optPV h.sa)
  | "self._address_extension" => some (optPV h.ae)
  | "self._rx_only" => some (pbool h.rxOnly)
  | "self._tx_only" => some (pbool h.txOnly)
  | "self.physical_id" => if h.mode = .nf29 ∨ h.mode = .m29 then some (pint h.physId) else none
  | "self.functional_id" => if h.mode = .nf29 ∨ h.mode = .m29 then some (pint h.funcId) else none
  | _ => constEnv k

/-- a received `CanMessage` -/
def msgEnv (m : CanMsg) (base : Env) : Env := fun k =>
  match k with
  | "msg.arbitration_id" => some (pint m.id)
  | "msg.is_extended_id" => some (pbool m.ext)
  | "msg.data" => some (.bytes m.data)
  | _ => base k

/-- value returned by a function body (no other method called) -/
def retOf (env : Env) (body : PBlock) : Except PErr PV := (runFn noMeths env body).map (·.1)

end Isotp.PyAgree
