import Isotp.PyAgree.EvalLemmas
namespace Isotp.PyAgree
open Isotp Isotp.Py

def argsEnv (a : AddrArgs) (modeVal : PV) (is29 : Bool) : Env := fun k =>
  match k with
  | "self._addressing_mode" => some modeVal
  | "self._is_29bits" => some (pbool is29)
  | "self._txid" => some (.sc (.py a.txid))
  | "self._rxid" => some (.sc (.py a.rxid))
  | "self._target_address" => some (.sc (.py a.ta))
  | "self._source_address" => some (.sc (.py a.sa))
  | "self._address_extension" => some (.sc (.py a.ae))
  | "self._rx_only" => some (pbool a.rxOnly)
  | "self._tx_only" => some (pbool a.txOnly)
  | _ => constEnv k

section lookups
variable (a : AddrArgs) (mv : PV) (b : Bool)
@[simp] theorem argsEnv_mode : argsEnv a mv b "self._addressing_mode" = some mv := rfl
@[simp] theorem argsEnv_is29 : argsEnv a mv b "self._is_29bits" = some (pbool b) := rfl
@[simp] theorem argsEnv_txid : argsEnv a mv b "self._txid" = some (.sc (.py a.txid)) := rfl
@[simp] theorem argsEnv_rxid : argsEnv a mv b "self._rxid" = some (.sc (.py a.rxid)) := rfl
@[simp] theorem argsEnv_ta : argsEnv a mv b "self._target_address" = some (.sc (.py a.ta)) := rfl
@[simp] theorem argsEnv_sa : argsEnv a mv b "self._source_address" = some (.sc (.py a.sa)) := rfl
@[simp] theorem argsEnv_ae : argsEnv a mv b "self._address_extension" = some (.sc (.py a.ae)) := rfl
@[simp] theorem argsEnv_rxOnly : argsEnv a mv b "self._rx_only" = some (pbool a.rxOnly) := rfl
@[simp] theorem argsEnv_txOnly : argsEnv a mv b "self._tx_only" = some (pbool a.txOnly) := rfl
@[simp] theorem argsEnv_n11 : argsEnv a mv b "AddressingMode.Normal_11bits" = some (modePV .n11) := rfl
@[simp] theorem argsEnv_n29 : argsEnv a mv b "AddressingMode.Normal_29bits" = some (modePV .n29) := rfl
@[simp] theorem argsEnv_nf29 : argsEnv a mv b "AddressingMode.NormalFixed_29bits" = some (modePV .nf29) := rfl
@[simp] theorem argsEnv_e11 : argsEnv a mv b "AddressingMode.Extended_11bits" = some (modePV .e11) := rfl
@[simp] theorem argsEnv_e29 : argsEnv a mv b "AddressingMode.Extended_29bits" = some (modePV .e29) := rfl
@[simp] theorem argsEnv_m11 : argsEnv a mv b "AddressingMode.Mixed_11bits" = some (modePV .m11) := rfl
@[simp] theorem argsEnv_m29 : argsEnv a mv b "AddressingMode.Mixed_29bits" = some (modePV .m29) := rfl
end lookups

/-! value-level lemmas -/

theorem sc_py_beq_pnone (v : PyVal) : ((PV.sc (.py v)) == pnone) = v.isNone := by
  cases v <;> simp [PyVal.isNone]
theorem sc_py_bne_pnone (v : PyVal) : ((PV.sc (.py v)) != pnone) = !v.isNone := by
  cases v <;> simp [PyVal.isNone]

theorem pvEq_sc_py (x y : PyVal) : pvEq (.sc (.py x)) (.sc (.py y)) = x.pyEq y := rfl

theorem isinstance_int_py (v : PyVal) :
    evalBuiltin "isinstance_int" [.sc (.py v)] = some (.ok (pbool v.isInt)) := rfl

theorem evalCmp_lt_int (v : PyVal) (h : v.isInt = true) (k : Int) :
    evalCmp .lt (.sc (.py v)) (pint k) = .ok (pbool (decide (v.intVal < k))) := by
  cases v <;> simp_all [PyVal.isInt, evalCmp, isNumber, numLt, PyVal.intVal] <;> congr

theorem evalCmp_gt_int (v : PyVal) (h : v.isInt = true) (k : Int) :
    evalCmp .gt (.sc (.py v)) (pint k) = .ok (pbool (decide (k < v.intVal))) := by
  cases v <;> simp_all [PyVal.isInt, evalCmp, isNumber, numLt, PyVal.intVal] <;> congr


/-- the n-th top-level statement of a block -/
def stmtAt : PBlock → Nat → PStmt
  | .nil, _ => .pass
  | .cons s _, 0 => s
  | .cons _ r, n + 1 => stmtAt r n

def raiseVE : PBlock := .cons (.raise "ValueError") .nil

/-- shape of the three address-byte checks -/
def byteCheck (nm : String) : PStmt :=
  .ite (.isNotNone (.var nm))
    (.cons (.ite (.not_ (.call "isinstance_int" (.cons (.var nm) .nil))) raiseVE .nil)
    (.cons (.ite (.or_ (.cmp .lt (.var nm) (.int 0)) (.cmp .gt (.var nm) (.int 255))) raiseVE .nil)
    .nil)) .nil

theorem stmt4 : stmtAt Src.Address_validate 3 = byteCheck "self._target_address" := rfl

theorem byteCheck_exec (env : Env) (nm : String) (v : PyVal) (h : env nm = some (.sc (.py v))) :
    execStmt noMeths env (byteCheck nm) = if byteOk v then .ok (.next env) else .error (.exc .ValueError) := by
  cases hn : v.isNone
  · cases hi : v.isInt
    · simp [byteCheck, raiseVE, execStmt, execBlock, eval, evalArgs, h, sc_py_bne_pnone, isinstance_int_py, hn, hi, byteOk]
    · simp [byteCheck, raiseVE, execStmt, execBlock, eval, evalArgs, h, sc_py_bne_pnone, isinstance_int_py, hn, hi, byteOk,
        evalCmp_lt_int, evalCmp_gt_int]
      by_cases h1 : 0 ≤ v.intVal <;> by_cases h2 : 255 < v.intVal <;> simp [h1, h2, Int.not_le.mpr, Int.not_lt.mp]
  · simp [byteCheck, execStmt, execBlock, eval, h, sc_py_bne_pnone, hn, byteOk]


/-- shape of the two identifier checks -/
def idCheck (nm : String) : PStmt :=
  .ite (.isNotNone (.var nm))
    (.cons (.ite (.not_ (.call "isinstance_int" (.cons (.var nm) .nil))) raiseVE .nil)
    (.cons (.ite (.cmp .lt (.var nm) (.int 0)) raiseVE .nil)
    (.cons (.ite (.not_ (.var "self._is_29bits")) (.cons (.ite (.cmp .gt (.var nm) (.int 2047)) raiseVE .nil) .nil) .nil)
    .nil))) .nil

theorem idCheck_exec (env : Env) (nm : String) (v : PyVal) (is29 : Bool) (h : env nm = some (.sc (.py v)))
    (h29 : env "self._is_29bits" = some (pbool is29)) :
    execStmt noMeths env (idCheck nm) = if idOk is29 v then .ok (.next env) else .error (.exc .ValueError) := by
  cases hn : v.isNone
  · cases hi : v.isInt
    · simp [idCheck, raiseVE, execStmt, execBlock, eval, evalArgs, h, sc_py_bne_pnone, isinstance_int_py, hn, hi, idOk]
    · by_cases h1 : v.intVal < 0
      · have h1' : ¬ 0 ≤ v.intVal := by omega
        simp [idCheck, raiseVE, execStmt, execBlock, eval, evalArgs, h, sc_py_bne_pnone, isinstance_int_py, hn, hi, idOk,
          evalCmp_lt_int, h1, h1']
      · have h1' : 0 ≤ v.intVal := by omega
        cases is29
        · by_cases h2 : 2047 < v.intVal
          · have h2' : ¬ v.intVal ≤ 2047 := by omega
            simp [idCheck, raiseVE, execStmt, execBlock, eval, evalArgs, h, h29, sc_py_bne_pnone, isinstance_int_py, hn, hi, idOk,
              evalCmp_lt_int, evalCmp_gt_int, h1, h1', h2, h2']
          · have h2' : v.intVal ≤ 2047 := by omega
            simp [idCheck, raiseVE, execStmt, execBlock, eval, evalArgs, h, h29, sc_py_bne_pnone, isinstance_int_py, hn, hi, idOk,
              evalCmp_lt_int, evalCmp_gt_int, h1, h1', h2, h2']
        · simp [idCheck, raiseVE, execStmt, execBlock, eval, evalArgs, h, h29, sc_py_bne_pnone, isinstance_int_py, hn, hi, idOk,
            evalCmp_lt_int, h1, h1']
  · simp [idCheck, execStmt, execBlock, eval, h, sc_py_bne_pnone, hn, idOk]

theorem stmt3_exec (a : AddrArgs) (m : Mode) (b : Bool) :
    execStmt noMeths (argsEnv a (modePV m) b) (stmtAt Src.Address_validate 2) =
      if presenceOk a m then .ok (.next (argsEnv a (modePV m) b)) else .error (.exc .ValueError) := by
  cases m
  · simp [stmtAt, Src.Address_validate, execStmt, execBlock, eval, evalArgs, presenceOk]
    trace_state
    sorry
  all_goals sorry

end Isotp.PyAgree
