import Isotp.Address
/-
  Model of `TransportLayerLogic.Params.validate` on Python values.
  The two float products the code evaluates (`rate_limit_max_bitrate * rate_limit_window_size`
  and `override_receiver_stmin * 1e9`) are evaluated by Python in the harness and handed over
  (`prod`, `ovrScaledFinite`): the model is parametric in them (DESIGN §3.1).
-/
namespace Isotp

structure ParamArgs where
  stmin      : PyVal := .int 0
  blocksize  : PyVal := .int 8
  overrideStmin : PyVal := .none
  tFc        : PyVal := .int 1000
  tCf        : PyVal := .int 1000
  txPadding  : PyVal := .none
  wftmax     : PyVal := .int 0
  txDl       : PyVal := .int 8
  txMinLen   : PyVal := .none
  maxFrameSize : PyVal := .int 4095
  canFd      : PyVal := .bool false
  brs        : PyVal := .bool false
  defaultTat : PyVal := .int 0
  rlBitrate  : PyVal := .int 100000000
  rlWindow   : PyVal := .float 1 5
  rlEnable   : PyVal := .bool false
  listen     : PyVal := .bool false
  blocking   : PyVal := .bool false
  /-- exact value of the Python float `rate_limit_max_bitrate * rate_limit_window_size`
      (only read when both operands are numbers) -/
  prod       : PyVal := .float 20000000 1
  /-- `math.isfinite(override_receiver_stmin * 1e9)` (only read when the override is a number) -/
  ovrScaledFinite : Bool := true
  deriving Repr, Inhabited

namespace PyVal
def isBool : PyVal → Bool | .bool _ => true | _ => false
/-- `isinstance(v, float)` -/
def isFloat : PyVal → Bool
  | .float _ _ => true | .nan => true | .posInf => true | .negInf => true | _ => false
def isFinite : PyVal → Bool
  | .float _ _ => true | .int _ => true | .bool _ => true | _ => false
/-- `v < 0` for numbers -/
def ltZero : PyVal → Bool
  | .float n _ => n < 0
  | .negInf => true
  | .int i => i < 0
  | _ => false
/-- `v <= 0` for numbers (`nan <= 0` is False) -/
def leZero : PyVal → Bool
  | .float n _ => n ≤ 0
  | .negInf => true
  | .int i => i ≤ 0
  | .bool b => !b
  | _ => false
/-- `v < k` for a number v (float exact) and integer k -/
def ltInt (v : PyVal) (k : Int) : Bool :=
  match v with
  | .float n d => n < k * d
  | .negInf => true
  | .int i => i < k
  | .bool b => (if b then 1 else 0) < k
  | _ => false
end PyVal

def intIn (v : PyVal) (lo hi : Int) : Bool := v.isInt && lo ≤ v.intVal && v.intVal ≤ hi
def intGe (v : PyVal) (lo : Int) : Bool := v.isInt && lo ≤ v.intVal

def txDlOk (v : PyVal) : Bool := v.isInt && (v.intVal ∈ [8, 12, 16, 20, 24, 32, 48, 64])
def minLenOk (v : PyVal) : Bool := v.isInt && (v.intVal ∈ [1, 2, 3, 4, 5, 6, 7, 8, 12, 16, 20, 24, 32, 48, 64])

/-- `Params.validate()`: true = returns normally, false = `ValueError`. -/
def validateParams (p : ParamArgs) : Bool :=
  intGe p.tFc 0 && intGe p.tCf 0 &&
  (p.txPadding.isNone || intIn p.txPadding 0 0xFF) &&
  intIn p.stmin 0 0xFF && intIn p.blocksize 0 0xFF &&
  (p.overrideStmin.isNone ||
    ((p.overrideStmin.isInt || p.overrideStmin.isFloat) && !p.overrideStmin.isBool &&
      !p.overrideStmin.ltZero && p.overrideStmin.isFinite && p.ovrScaledFinite)) &&
  intGe p.wftmax 0 &&
  txDlOk p.txDl &&
  (p.txMinLen.isNone || (minLenOk p.txMinLen && p.txMinLen.intVal ≤ p.txDl.intVal)) &&
  intGe p.maxFrameSize 0 &&
  p.canFd.isBool && p.brs.isBool &&
  (p.defaultTat.isInt && (p.defaultTat.intVal = 0 || p.defaultTat.intVal = 1)) &&
  (p.rlBitrate.isInt && 0 < p.rlBitrate.intVal) &&
  ((p.rlWindow.isFloat || p.rlWindow.isInt) && !p.rlWindow.leZero && p.rlWindow != .nan) &&
  (p.rlWindow.isFinite && p.prod.isFinite) &&
  p.rlEnable.isBool &&
  !(p.prod.ltInt (p.txDl.intVal * 8)) &&
  p.listen.isBool && p.blocking.isBool

end Isotp
