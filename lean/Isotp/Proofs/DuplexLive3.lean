import Isotp.Proofs.DuplexLive2
/-
  C10, liveness half, part 3: results about the abstract duplex machine (pure combinatorics, no bytes).

  * `absPass_final`, `absRounds_stable`: a final state (both transfers complete, nothing in flight) stays final.
  * `absDone`, `absDone_mono`: "the abstract network is final after `N` rounds", and monotonicity in `N`.
-/
namespace Isotp.DuplexLive
open Isotp

/-! ## final states are stable -/

theorem absPass_final (P : Par) (R : Nat) (al : AL) (hf : al.final = true) :
    ∃ al', absPass P R al = some al' ∧ al'.final = true ∧ al'.out = [] ∧ al'.done = false := by
  obtain ⟨tx, fc, rx, pend, inbox, out, done⟩ := al
  simp only [AL.final, Bool.and_eq_true, decide_eq_true_eq, Bool.not_eq_true', List.isEmpty_iff] at hf
  obtain ⟨⟨⟨⟨rfl, rfl⟩, rfl⟩, rfl⟩, rfl⟩ := hf
  refine ⟨{ tx := .D, rx := .D }, ?_, rfl, rfl, rfl⟩
  simp [absPass, absFuel, absProcLoop, absRxLoop, cfOk, rxIdle, txNeed, absTxLoop, absTx, absMail, absFsm, pushOut]

theorem absRound_final (PA PB : Par) (n : AN) (hf : n.final = true) :
    ∃ n', absRound PA PB n = some n' ∧ n'.final = true := by
  unfold AN.final at hf
  simp only [Bool.and_eq_true] at hf
  obtain ⟨⟨⟨fa, fb⟩, dA⟩, dB⟩ := hf
  obtain ⟨a1, ha, fa1, oa, da⟩ := absPass_final PA n.R n.a fa
  have hb0 : ({ n.b with inbox := n.b.inbox ++ a1.out } : AL) = n.b := by
    rw [oa, List.append_nil]
  obtain ⟨b1, hb, fb1, ob, db⟩ := absPass_final PB n.R n.b fb
  refine ⟨_, by unfold absRound; rw [ha]; simp only []; rw [hb0, hb], ?_⟩
  have ha0 : ({ a1 with inbox := a1.inbox ++ b1.out } : AL) = a1 := by
    rw [ob, List.append_nil]
  unfold AN.final
  simp only [ha0, fa1, fb1, dA, dB, Bool.true_or, Bool.and_self]

theorem absRounds_add (PA PB : Par) : ∀ (M N : Nat) (n : AN),
    absRounds PA PB (M + N) n = (absRounds PA PB M n).bind (absRounds PA PB N) := by
  intro M
  induction M with
  | zero => intro N n; simp [absRounds]
  | succ M ih =>
    intro N n
    have : M + 1 + N = (M + N) + 1 := by omega
    rw [this]
    simp only [absRounds]
    cases absRound PA PB n with
    | none => rfl
    | some n1 => exact ih N n1

theorem absRounds_final (PA PB : Par) : ∀ (N : Nat) (n : AN), n.final = true →
    ∃ n', absRounds PA PB N n = some n' ∧ n'.final = true := by
  intro N
  induction N with
  | zero => intro n hf; exact ⟨n, rfl, hf⟩
  | succ N ih =>
    intro n hf
    obtain ⟨n1, h1, f1⟩ := absRound_final PA PB n hf
    obtain ⟨n2, h2, f2⟩ := ih n1 f1
    exact ⟨n2, by simp only [absRounds, h1]; exact h2, f2⟩

/-- the abstract network (started after the two `send` calls) is final after `N` rounds -/
def absDone (PA PB : Par) (N : Nat) : Bool :=
  match absRounds PA PB N {} with
  | some n => n.final
  | none => false

theorem absDone_spec {PA PB : Par} {N : Nat} (h : absDone PA PB N = true) :
    ∃ n, absRounds PA PB N {} = some n ∧ n.final = true := by
  unfold absDone at h
  split at h
  · next n hn => exact ⟨n, hn, h⟩
  · cases h

/-- once final, always final -/
theorem absDone_mono {PA PB : Par} {N0 N : Nat} (h : absDone PA PB N0 = true) (hN : N0 ≤ N) :
    absDone PA PB N = true := by
  obtain ⟨n, hn, hf⟩ := absDone_spec h
  obtain ⟨M, rfl⟩ : ∃ M, N = N0 + M := ⟨N - N0, by omega⟩
  obtain ⟨n', hn', hf'⟩ := absRounds_final PA PB M n hf
  unfold absDone
  rw [absRounds_add, hn]
  simp only [Option.bind_some, hn', hf']

end Isotp.DuplexLive

namespace Isotp.DuplexLive

/-! ## the direction invariant -/

/-- frames of the message the sender has handed out -/
def sentOf (n : Nat) : TxA → Nat
  | .I => 0
  | .W k _ => k
  | .T k _ _ => k
  | .D => n

/-- frames of the message the receiver has consumed -/
def gotOf (n : Nat) : RxA → Nat
  | .I => 0
  | .S i _ => i + 1
  | .D => n

/-- the data frames among a list of abstract frames -/
def dataOf : List Fr → List Nat
  | [] => []
  | .fc :: l => dataOf l
  | .dat k :: l => k :: dataOf l

/-- the number of Flow Control frames among a list of abstract frames -/
def fcsOf : List Fr → Nat
  | [] => 0
  | .fc :: l => fcsOf l + 1
  | .dat _ :: l => fcsOf l

/-- frame `m` makes the receiver (blocksize `bs`) ask for a Flow Control (if it is not the last one) -/
def isBnd (bs m : Nat) : Prop := m = 0 ∨ (0 < bs ∧ m % bs = 0)

instance (bs m : Nat) : Decidable (isBnd bs m) := inferInstanceAs (Decidable (_ ∨ _))

/-- what is known about the sender's phase (`n` frames, receiver's blocksize `bs`, round `R`, `g` frames consumed by
    the receiver) -/
def TxOk (n bs R g : Nat) : TxA → Prop
  | .I => True
  | .W k r => 1 ≤ k ∧ k < n ∧ isBnd bs (k - 1) ∧ r ≤ R
  | .T k j r => 1 ≤ k ∧ k < n ∧ r ≤ R ∧ j < k ∧ (j = 0 → k ≤ g) ∧ (0 < bs → j < bs ∧ (k - 1 - j) % bs = 0)
  | .D => True

instance (n bs R g : Nat) (t : TxA) : Decidable (TxOk n bs R g t) := by
  cases t <;> unfold TxOk <;> infer_instance

def RxOk (n R : Nat) : RxA → Prop
  | .S i t => i + 1 < n ∧ (∀ t', t = some t' → t' ≤ R)
  | _ => True

/-- Flow Control frames this direction needs to be somewhere (requested, on the wire, or in the mailbox) -/
def fcNeed (g : Nat) : TxA → Nat
  | .W k _ => if g = k then 1 else 0
  | _ => 0

/-- **The invariant of one direction** (sender of `n` frames, receiver with blocksize `bs`): `tx`, `fc`: the sender's
    transmit phase and mailbox bit; `fcT`: Flow Control frames of this direction in transit; `dataT`: data frames in
    transit, in order; `rx`, `pend`: the receiver's phase and pending-Flow-Control bit. -/
structure DirInv (n bs R : Nat) (tx : TxA) (fc : Bool) (fcT : Nat) (dataT : List Nat) (rx : RxA) (pend : Bool) : Prop where
  n1   : 1 ≤ n
  le   : gotOf n rx ≤ sentOf n tx
  data : dataT = List.range' (gotOf n rx) (sentOf n tx - gotOf n rx)
  acct : fcT + fc.toNat + pend.toNat = fcNeed (gotOf n rx) tx
  nob  : ∀ m, gotOf n rx ≤ m → m + 1 < sentOf n tx → ¬ isBnd bs m
  txok : TxOk n bs R (gotOf n rx) tx
  rxok : RxOk n R rx
  pnd  : pend = true → ∃ i t, rx = .S i t

/-- the progress measure of one direction -/
def dirM (n : Nat) (tx : TxA) (rx : RxA) : Nat :=
  2 * (n - sentOf n tx) + (n - gotOf n rx) + (match tx with | .W _ _ => 1 | .I => 1 | _ => 0)

end Isotp.DuplexLive

namespace Isotp.DuplexLive

/-! ## how the steps of the two endpoints transform the direction invariant -/

theorem sentOf_le {n bs R g : Nat} {tx : TxA} (h : TxOk n bs R g tx) : sentOf n tx ≤ n := by
  cases tx <;> simp only [sentOf, TxOk] at * <;> omega

theorem range'_head {s m : Nat} {x : Nat} {rest : List Nat} (h : x :: rest = List.range' s m) :
    x = s ∧ 1 ≤ m ∧ rest = List.range' (s + 1) (m - 1) := by
  cases m with
  | zero => simp at h
  | succ m =>
    rw [List.range'_succ] at h
    simp only [List.cons.injEq] at h
    exact ⟨h.1, by omega, by simpa using h.2⟩

theorem range'_snoc (g s : Nat) (h : g ≤ s) : List.range' g (s - g) ++ [s] = List.range' g (s + 1 - g) := by
  have : s + 1 - g = (s - g) + 1 := by omega
  rw [this, List.range'_concat]
  congr 2; omega

/-- inside a block (`j ≥ 1` frames after the last Flow Control) the last frame sent is no block boundary -/
theorem sync_not_bnd {bs k j : Nat} (hj : j < bs) (hjk : j < k) (hs : (k - 1 - j) % bs = 0) (h1 : 1 ≤ j) :
    (k - 1) % bs ≠ 0 := by
  intro h0
  have d1 : bs ∣ k - 1 := Nat.dvd_of_mod_eq_zero h0
  have d2 : bs ∣ k - 1 - j := Nat.dvd_of_mod_eq_zero hs
  have d3 : bs ∣ (k - 1) - (k - 1 - j) := Nat.dvd_sub d1 d2
  have e : (k - 1) - (k - 1 - j) = j := by omega
  rw [e] at d3
  have := Nat.le_of_dvd (by omega) d3
  omega

/-- the sender's block counter and the receiver's agree on where the block ends -/
theorem sync_next {bs k j : Nat} (hj : j < bs) (hjk : j < k) (hs : (k - 1 - j) % bs = 0) :
    (k % bs = 0 ↔ j + 1 ≥ bs) := by
  have e : k = (k - 1 - j) + (j + 1) := by omega
  have hm : k % bs = (j + 1) % bs := by
    conv => lhs; rw [e, Nat.add_mod, hs, Nat.zero_add, Nat.mod_mod]
  rw [hm]
  constructor
  · intro h0
    by_cases hlt : j + 1 < bs
    · rw [Nat.mod_eq_of_lt hlt] at h0; omega
    · omega
  · intro hge
    have : j + 1 = bs := by omega
    rw [this, Nat.mod_self]

section dir
variable {n bs R : Nat} {tx : TxA} {fc : Bool} {fcT : Nat} {m : Nat} {rest d : List Nat} {rx : RxA} {pend : Bool}

/-- the head of the data in transit is the frame the receiver expects; it has been sent -/
theorem DirInv.head (h : DirInv n bs R tx fc fcT (m :: rest) rx pend) :
    m = gotOf n rx ∧ gotOf n rx < sentOf n tx ∧
      rest = List.range' (gotOf n rx + 1) (sentOf n tx - (gotOf n rx + 1)) := by
  obtain ⟨h1, h2, h3⟩ := range'_head h.data
  exact ⟨h1, by omega, by rw [h3, Nat.sub_sub]⟩

/-- a Single Frame is consumed -/
theorem DirInv.recv_sf (h : DirInv n bs R tx fc fcT (m :: rest) .I false) (hn : n = 1) :
    m = 0 ∧ DirInv n bs R tx fc fcT rest .D false := by
  obtain ⟨h1, h2, h3⟩ := h.head
  have hs := sentOf_le h.txok
  obtain ⟨n1, le, data, acct, nob, txok, rxok, pnd⟩ := h
  simp only [gotOf] at h1 h2 h3
  refine ⟨h1, ⟨n1, by simp only [gotOf]; omega, ?_, ?_, ?_, ?_, trivial, fun hh => by cases hh⟩⟩
  · simp only [gotOf]; rw [h3]; congr 1 <;> omega
  · cases tx <;> simp only [fcNeed, gotOf, sentOf, TxOk] at * <;> grind
  · intro m' h1' h2'; simp only [gotOf] at h1'; omega
  · cases tx <;> simp only [TxOk, gotOf, sentOf] at * <;> grind

/-- a First Frame is consumed: the session opens, a Flow Control is requested -/
theorem DirInv.recv_ff (h : DirInv n bs R tx fc fcT (m :: rest) .I false) (hn : n ≠ 1) :
    m = 0 ∧ DirInv n bs R tx fc fcT rest (.S 0 (some R)) true := by
  obtain ⟨h1, h2, h3⟩ := h.head
  have hs := sentOf_le h.txok
  obtain ⟨n1, le, data, acct, nob, txok, rxok, pnd⟩ := h
  simp only [gotOf] at h1 h2 h3 nob
  have hb0 : isBnd bs 0 := Or.inl rfl
  have hs1 : sentOf n tx = 1 := by
    have := nob 0 (Nat.le_refl 0)
    have : ¬ (0 + 1 < sentOf n tx) := fun hh => this hh hb0
    omega
  refine ⟨h1, ⟨n1, by simp only [gotOf]; omega, ?_, ?_, ?_, ?_, ?_, fun _ => ⟨0, some R, rfl⟩⟩⟩
  · simp only [gotOf]; rw [h3, hs1]
  · cases tx <;> simp only [fcNeed, gotOf, sentOf, TxOk, Bool.toNat_false, Bool.toNat_true] at * <;> grind
  · intro m' h1' h2'; simp only [gotOf] at h1'; omega
  · cases tx <;> simp only [TxOk, gotOf, sentOf] at * <;> grind
  · exact ⟨by omega, fun t' ht => by cases ht; exact Nat.le_refl R⟩

/-- the last Consecutive Frame is consumed -/
theorem DirInv.recv_last {i : Nat} {t : Option Nat} (h : DirInv n bs R tx fc fcT (m :: rest) (.S i t) false)
    (hn : i + 2 = n) : m = i + 1 ∧ DirInv n bs R tx fc fcT rest .D false := by
  obtain ⟨h1, h2, h3⟩ := h.head
  have hs := sentOf_le h.txok
  obtain ⟨n1, le, data, acct, nob, txok, rxok, pnd⟩ := h
  simp only [gotOf] at h1 h2 h3 nob
  have hsn : sentOf n tx = n := by omega
  refine ⟨h1, ⟨n1, by simp only [gotOf]; omega, ?_, ?_, ?_, ?_, trivial, fun hh => by cases hh⟩⟩
  · simp only [gotOf]; rw [h3]; congr 1 <;> omega
  · cases tx <;> simp only [fcNeed, gotOf, sentOf, TxOk, Bool.toNat_false] at * <;> grind
  · intro m' h1' h2'; simp only [gotOf] at h1'; omega
  · cases tx <;> simp only [TxOk, gotOf, sentOf] at * <;> grind

/-- a Consecutive Frame that ends a block (not the message) is consumed: a Flow Control is requested -/
theorem DirInv.recv_bnd {i : Nat} {t : Option Nat} (h : DirInv n bs R tx fc fcT (m :: rest) (.S i t) false)
    (hn : i + 2 ≠ n) (hb : 0 < bs ∧ (i + 1) % bs = 0) :
    m = i + 1 ∧ DirInv n bs R tx fc fcT rest (.S (i + 1) none) true := by
  obtain ⟨h1, h2, h3⟩ := h.head
  have hs := sentOf_le h.txok
  obtain ⟨n1, le, data, acct, nob, txok, rxok, pnd⟩ := h
  simp only [gotOf] at h1 h2 h3 nob
  have hbn : isBnd bs (i + 1) := Or.inr hb
  have hs1 : sentOf n tx = i + 2 := by
    have := nob (i + 1) (Nat.le_refl _)
    have : ¬ (i + 1 + 1 < sentOf n tx) := fun hh => this hh hbn
    omega
  have hnT : ∀ k j r, tx ≠ .T k j r := by
    intro k j r he
    subst he
    simp only [TxOk, gotOf, sentOf] at txok hs1
    obtain ⟨t1, t2, t3, t4, t5, t6⟩ := txok
    have hj1 : 1 ≤ j := by
      cases j with
      | zero => have := t5 rfl; omega
      | succ j => omega
    obtain ⟨t7, t8⟩ := t6 hb.1
    have := sync_not_bnd t7 t4 t8 hj1
    have e : k - 1 = i + 1 := by omega
    rw [e] at this
    exact this hb.2
  refine ⟨h1, ⟨n1, by simp only [gotOf]; omega, ?_, ?_, ?_, ?_, ?_, fun _ => ⟨i + 1, none, rfl⟩⟩⟩
  · simp only [gotOf]; rw [h3, hs1]
  · cases tx with
    | T k j r => exact absurd rfl (hnT k j r)
    | I => simp only [sentOf] at hs1; omega
    | D => simp only [sentOf] at hs1; omega
    | W k r =>
      simp only [sentOf] at hs1
      subst hs1
      simp only [fcNeed, gotOf, Bool.toNat_false, Bool.toNat_true] at *
      have e : ¬ (i + 1 = i + 2) := by omega
      simp only [e, if_false] at acct
      simp only [if_true]; omega
  · intro m' h1' h2'; simp only [gotOf] at h1'; omega
  · cases tx with
    | T k j r => exact absurd rfl (hnT k j r)
    | I => trivial
    | D => trivial
    | W k r => exact txok
  · simp only [RxOk] at *; exact ⟨by omega, fun t' ht => by cases ht⟩

/-- any other Consecutive Frame is consumed -/
theorem DirInv.recv_plain {i : Nat} {t : Option Nat} (h : DirInv n bs R tx fc fcT (m :: rest) (.S i t) false)
    (hn : i + 2 ≠ n) (hb : ¬ (0 < bs ∧ (i + 1) % bs = 0)) :
    m = i + 1 ∧ DirInv n bs R tx fc fcT rest (.S (i + 1) (some R)) false := by
  obtain ⟨h1, h2, h3⟩ := h.head
  have hs := sentOf_le h.txok
  obtain ⟨n1, le, data, acct, nob, txok, rxok, pnd⟩ := h
  simp only [gotOf] at h1 h2 h3 nob
  have hnb : ¬ isBnd bs (i + 1) := by
    intro hh; rcases hh with hh | hh
    · omega
    · exact hb hh
  refine ⟨h1, ⟨n1, by simp only [gotOf]; omega, ?_, ?_, ?_, ?_, ?_, fun hh => by cases hh⟩⟩
  · simp only [gotOf]; rw [h3]
  · cases tx <;> simp only [fcNeed, gotOf, sentOf, TxOk, RxOk, isBnd, Bool.toNat_false] at * <;> grind
  · intro m' h1' h2'; simp only [gotOf] at h1'; exact nob m' (by omega) h2'
  · cases tx <;> simp only [TxOk, gotOf, sentOf, RxOk] at * <;> grind
  · simp only [RxOk] at *; exact ⟨by omega, fun t' ht => by cases ht; exact Nat.le_refl R⟩

/-- nothing is in transit towards a receiver that has the whole message -/
theorem DirInv.not_D (h : DirInv n bs R tx fc fcT (m :: rest) .D pend) : False := by
  obtain ⟨h1, h2, h3⟩ := h.head
  have hs := sentOf_le h.txok
  simp only [gotOf] at h2; omega

/-- a Flow Control frame arrives at the sender: it lands in the mailbox -/
theorem DirInv.fc_arrive (h : DirInv n bs R tx false (fcT + 1) d rx pend) : DirInv n bs R tx true fcT d rx pend :=
  ⟨h.n1, h.le, h.data, by have := h.acct; simp only [Bool.toNat_false, Bool.toNat_true] at *; omega, h.nob, h.txok,
    h.rxok, h.pnd⟩

/-- the receiver sends the Flow Control it owes; the N_Cr timer is restarted -/
theorem DirInv.serve (h : DirInv n bs R tx fc fcT d rx true) :
    ∃ i t, rx = .S i t ∧ DirInv n bs R tx fc (fcT + 1) d (.S i (some R)) false := by
  obtain ⟨i, t, rfl⟩ := h.pnd rfl
  refine ⟨i, t, rfl, ⟨h.n1, h.le, h.data, ?_, h.nob, h.txok, ?_, fun hh => by cases hh⟩⟩
  · have := h.acct; simp only [Bool.toNat_false, Bool.toNat_true, gotOf] at *; omega
  · have := h.rxok; simp only [RxOk] at *; exact ⟨this.1, fun t' ht => by cases ht; exact Nat.le_refl R⟩

/-- only a sender waiting for it can have a Flow Control in its mailbox or on its way -/
theorem DirInv.fc_W (h : DirInv n bs R tx fc fcT d rx pend) (hf : fc = true ∨ 0 < fcT ∨ pend = true) :
    ∃ k r, tx = .W k r ∧ gotOf n rx = k := by
  have := h.acct
  cases tx with
  | W k r =>
    refine ⟨k, r, rfl, ?_⟩
    simp only [fcNeed] at this
    split at this
    · assumption
    · rcases hf with hf | hf | hf <;> simp_all
  | I => rcases hf with hf | hf | hf <;> simp_all [fcNeed]
  | D => rcases hf with hf | hf | hf <;> simp_all [fcNeed]
  | T k j r => rcases hf with hf | hf | hf <;> simp_all [fcNeed]

/-- the sender honours the Flow Control in its mailbox -/
theorem DirInv.absorb {k r : Nat} (h : DirInv n bs R (.W k r) true fcT d rx pend) :
    DirInv n bs R (.T k 0 R) false fcT d rx pend ∧ fcT = 0 ∧ pend = false := by
  obtain ⟨k', r', hk, hg⟩ := h.fc_W (Or.inl rfl)
  cases hk
  obtain ⟨n1, le, data, acct, nob, txok, rxok, pnd⟩ := h
  simp only [fcNeed, hg, if_true, Bool.toNat_true] at acct
  have hf0 : fcT = 0 := by omega
  have hp0 : pend = false := by cases pend <;> simp_all
  refine ⟨⟨n1, le, data, ?_, nob, ?_, rxok, pnd⟩, hf0, hp0⟩
  · simp [fcNeed, hf0, hp0]
  · simp only [TxOk] at *
    refine ⟨txok.1, txok.2.1, Nat.le_refl R, by omega, fun _ => by omega, fun hb => ⟨hb, ?_⟩⟩
    rcases txok.2.2.1 with h0 | h0
    · have : k = 1 := by omega
      subst this; simp
    · simpa using h0.2

/-- nothing has been consumed from a sender that has not started -/
theorem DirInv.of_I (h : DirInv n bs R .I fc fcT d rx pend) : rx = .I ∧ d = [] ∧ fcT = 0 ∧ fc = false ∧ pend = false := by
  obtain ⟨n1, le, data, acct, nob, txok, rxok, pnd⟩ := h
  simp only [sentOf, fcNeed] at *
  have hrx : rx = .I := by
    cases rx with
    | I => rfl
    | S i t => simp only [gotOf] at le; omega
    | D => simp only [gotOf] at le; omega
  subst hrx
  refine ⟨rfl, by simpa [gotOf] using data, by omega, ?_, ?_⟩
  · cases fc <;> simp_all
  · cases pend <;> simp_all

/-- the Single Frame goes out -/
theorem DirInv.emit_sf (h : DirInv n bs R .I fc fcT d rx pend) (hn : n = 1) :
    DirInv n bs R .D false fcT (d ++ [0]) rx pend := by
  obtain ⟨rfl, rfl, rfl, rfl, rfl⟩ := h.of_I
  subst hn
  exact ⟨Nat.le_refl 1, by simp [gotOf, sentOf], by simp [gotOf, sentOf], by simp [fcNeed],
    by intro m _ h2; simp only [sentOf] at h2; omega, trivial, trivial, fun hh => by cases hh⟩

/-- the First Frame goes out: the sender waits for the Flow Control -/
theorem DirInv.emit_ff (h : DirInv n bs R .I fc fcT d rx pend) (hn : n ≠ 1) :
    DirInv n bs R (.W 1 R) false fcT (d ++ [0]) rx pend := by
  obtain ⟨rfl, rfl, rfl, rfl, rfl⟩ := h.of_I
  have n1 := h.n1
  exact ⟨n1, by simp [gotOf, sentOf], by simp [gotOf, sentOf], by simp [fcNeed, gotOf],
    by intro m _ h2; simp only [sentOf] at h2; omega, ⟨Nat.le_refl 1, by omega, Or.inl rfl, Nat.le_refl R⟩, trivial,
    fun hh => by cases hh⟩

/-- in TRANSMIT_CF no frame in transit (nor the last one sent, unless it has been consumed) is a block boundary -/
theorem DirInv.nob_T {k j r : Nat} (h : DirInv n bs R (.T k j r) fc fcT d rx pend) :
    ∀ m, gotOf n rx ≤ m → m + 1 < k + 1 → ¬ isBnd bs m := by
  intro m h1 h2
  by_cases hm : m + 1 < k
  · exact h.nob m h1 hm
  · have hmk : m = k - 1 := by omega
    have htx := h.txok
    simp only [TxOk] at htx
    obtain ⟨t1, t2, t3, t4, t5, t6⟩ := htx
    have hj1 : 1 ≤ j := by
      cases j with
      | zero => have := t5 rfl; omega
      | succ j => omega
    intro hb
    rcases hb with hb | hb
    · omega
    · obtain ⟨t7, t8⟩ := t6 hb.1
      have := sync_not_bnd t7 t4 t8 hj1
      rw [hmk] at hb
      exact this hb.2

theorem DirInv.T_facts {k j r : Nat} (h : DirInv n bs R (.T k j r) fc fcT d rx pend) :
    fc = false ∧ fcT = 0 ∧ pend = false ∧ gotOf n rx ≤ k ∧ d ++ [k] = List.range' (gotOf n rx) (k + 1 - gotOf n rx) := by
  obtain ⟨n1, le, data, acct, nob, txok, rxok, pnd⟩ := h
  simp only [sentOf, fcNeed] at *
  refine ⟨?_, by omega, ?_, le, by rw [data]; exact range'_snoc _ _ le⟩
  · cases fc <;> simp_all
  · cases pend <;> simp_all

/-- the last Consecutive Frame goes out -/
theorem DirInv.emit_last {k j r : Nat} (h : DirInv n bs R (.T k j r) fc fcT d rx pend) (hl : k + 1 = n) :
    DirInv n bs R .D false fcT (d ++ [k]) rx pend := by
  obtain ⟨rfl, rfl, rfl, hle, hd⟩ := h.T_facts
  have hnob := h.nob_T
  obtain ⟨n1, le, data, acct, nob, txok, rxok, pnd⟩ := h
  subst hl
  exact ⟨n1, by simp only [sentOf]; omega, by simp only [sentOf]; exact hd, by simp [fcNeed], hnob, trivial, rxok,
    fun hh => by cases hh⟩

/-- a Consecutive Frame that ends the block goes out: the sender waits for the next Flow Control -/
theorem DirInv.emit_block {k j r : Nat} (h : DirInv n bs R (.T k j r) fc fcT d rx pend) (hl : k + 1 ≠ n)
    (hb : bs ≠ 0 ∧ j + 1 ≥ bs) : DirInv n bs R (.W (k + 1) R) false fcT (d ++ [k]) rx pend := by
  obtain ⟨rfl, rfl, rfl, hle, hd⟩ := h.T_facts
  have hnob := h.nob_T
  obtain ⟨n1, le, data, acct, nob, txok, rxok, pnd⟩ := h
  simp only [TxOk] at txok
  obtain ⟨t1, t2, t3, t4, t5, t6⟩ := txok
  obtain ⟨t7, t8⟩ := t6 (by omega)
  have hbn : isBnd bs k := Or.inr ⟨by omega, (sync_next t7 t4 t8).mpr hb.2⟩
  refine ⟨n1, by simp only [sentOf]; omega, by simp only [sentOf]; exact hd, ?_, hnob, ?_, rxok, fun hh => by cases hh⟩
  · simp only [fcNeed, Bool.toNat_false]
    rw [if_neg (by omega)]
  · exact ⟨by omega, by omega, by simpa using hbn, Nat.le_refl R⟩

/-- any other Consecutive Frame goes out -/
theorem DirInv.emit_more {k j r : Nat} (h : DirInv n bs R (.T k j r) fc fcT d rx pend) (hl : k + 1 ≠ n)
    (hb : ¬ (bs ≠ 0 ∧ j + 1 ≥ bs)) : DirInv n bs R (.T (k + 1) (j + 1) R) false fcT (d ++ [k]) rx pend := by
  obtain ⟨rfl, rfl, rfl, hle, hd⟩ := h.T_facts
  have hnob := h.nob_T
  obtain ⟨n1, le, data, acct, nob, txok, rxok, pnd⟩ := h
  simp only [TxOk] at txok
  obtain ⟨t1, t2, t3, t4, t5, t6⟩ := txok
  refine ⟨n1, by simp only [sentOf]; omega, by simp only [sentOf]; exact hd, by simp [fcNeed], hnob, ?_, rxok,
    fun hh => by cases hh⟩
  refine ⟨by omega, by omega, Nat.le_refl R, by omega, fun h0 => by omega, fun hbs => ?_⟩
  obtain ⟨t7, t8⟩ := t6 hbs
  refine ⟨by omega, ?_⟩
  have e : k + 1 - 1 - (j + 1) = k - 1 - j := by omega
  rw [e]; exact t8

/-- the clock advances -/
theorem DirInv.mono (h : DirInv n bs R tx fc fcT d rx pend) : DirInv n bs (R + 1) tx fc fcT d rx pend := by
  obtain ⟨n1, le, data, acct, nob, txok, rxok, pnd⟩ := h
  refine ⟨n1, le, data, acct, nob, ?_, ?_, pnd⟩
  · cases tx with
    | I => trivial
    | D => trivial
    | W k r => simp only [TxOk] at *; exact ⟨txok.1, txok.2.1, txok.2.2.1, by omega⟩
    | T k j r => simp only [TxOk] at *; exact ⟨txok.1, txok.2.1, by omega, txok.2.2.2⟩
  · cases rx with
    | S i t => simp only [RxOk] at *; exact ⟨rxok.1, fun t' ht => Nat.le_succ_of_le (rxok.2 t' ht)⟩
    | I => trivial
    | D => trivial

end dir

end Isotp.DuplexLive
