import Isotp.PyAgree.EvalLemmas
import Isotp.PyAgree.Address
/-!
  Agreement of the interpreted source of the small `Address` methods with the model (`Isotp/Address.lean`), for all inputs:
  the five `_is_for_me_*` predicates, `_get_tx_arbitration_id` / `_get_rx_arbitration_id`, the extension-byte getters,
  `_requires_extension_byte`, `is_partial_address`, and the public cached getters `get_tx_arbitration_id` / `get_rx_arbitration_id`.
-/
namespace Isotp.PyAgree
open Isotp Isotp.Py

/-! ### environments -/

/-- the extra parameter `address_type` of the identifier getters -/
def tatEnv (t : Tat) (base : Env) : Env := fun k =>
  match k with
  | "address_type" => some (tatPV t)
  | _ => base k

/-- the four identifiers cached by the constructor (`self._tx_arbitration_id_physical`, ...) -/
def cachedEnv (h : Half) (base : Env) : Env := fun k =>
  match k with
  | "self._tx_arbitration_id_physical" => some (pint (h.txId .physical))
  | "self._tx_arbitration_id_functional" => some (pint (h.txId .functional))
  | "self._rx_arbitration_id_physical" => some (pint (h.rxId .physical))
  | "self._rx_arbitration_id_functional" => some (pint (h.rxId .functional))
  | _ => base k

/-! ### value-level lemmas local to this file -/

/-- `msg.data[0]` of the interpreter (`b[0].toNat`) is the model's `byteAt m.data 0` when the payload is not empty -/
theorem getElem_zero_toNat_eq_byteAt (d : Bytes) (hd : 0 < d.length) : (d[0]'hd).toNat = byteAt d 0 := by
  cases d with
  | nil => simp at hd
  | cons x xs => simp [byteAt]

/-- `base | (hi << 8) | lo = base + hi*256 + lo` for a base that is a multiple of 65536 and two bytes
    (same statement as `Isotp.C09.add_eq_or`, re-proved here to avoid importing the process model). -/
theorem or_shl_eq_add (base hi lo : Nat) (hb : base % 65536 = 0) (hhi : hi ≤ 255) (hlo : lo ≤ 255) :
    base ||| (hi <<< 8) ||| lo = base + hi * 256 + lo := by
  obtain ⟨k, rfl⟩ : ∃ k, base = k * 65536 := ⟨base / 65536, by omega⟩
  have e : k * 65536 + hi * 256 = (k * 256 + hi) * 256 := by omega
  have a1 := Nat.shiftLeft_add_eq_or_of_lt (i := 16) (b := hi <<< 8)
    (by simp only [Nat.shiftLeft_eq, Nat.reducePow]; omega) k
  have a2 := Nat.shiftLeft_add_eq_or_of_lt (i := 8) (b := lo) (by omega) (k * 256 + hi)
  simp only [Nat.shiftLeft_eq, Nat.reducePow] at a1 a2 ⊢
  rewrite [← a1, e, ← a2]
  rfl

@[simp] theorem except_pure {ε α : Type} (a : α) : (pure a : Except ε α) = .ok a := rfl

/- builtins / comparisons on the values that occur here (so that `simp` never unfolds `evalBuiltin` / `evalCmp`) -/
@[simp] theorem evalBuiltin_len_bytes (b : Bytes) : evalBuiltin "len" [.bytes b] = some (.ok (pint b.length)) := rfl
@[simp] theorem evalBuiltin_int_pint (i : Int) : evalBuiltin "int" [pint i] = some (.ok (pint i)) := rfl
@[simp] theorem natIdx_pint (i : Int) :
    natIdx (pint i) = if i < 0 then .error (.unsupported "negative index") else .ok i.toNat := rfl
@[simp] theorem evalCmp_gt_pint (a b : Int) : evalCmp .gt (pint a) (pint b) = .ok (pbool (decide (b < a))) := rfl
@[simp] theorem bytes_bne_pnone (b : Bytes) : (PV.bytes b != pnone) = true := by simp [pnone]

/-! ### 1. the five `_is_for_me_*` predicates -/

theorem is_for_me_normal_agrees (h : Half) (hm : h.mode = .n11 ∨ h.mode = .n29) (m : CanMsg) :
    retOf (msgEnv m (halfEnv h)) Src.Address_p_is_for_me_normal = .ok (pbool (h.isForMe m)) := by
  rcases hm with hm | hm <;> cases hx : m.ext <;> cases hr : h.rxid <;>
  simp [retOf, runFn, Src.Address_p_is_for_me_normal, execBlock, execStmt, eval, msgEnv, halfEnv, hm, hx, hr,
    Half.isForMe, Mode.is29, optPV]
  all_goals grind

theorem is_for_me_extended_agrees (h : Half) (hm : h.mode = .e11 ∨ h.mode = .e29) (m : CanMsg) :
    retOf (msgEnv m (halfEnv h)) Src.Address_p_is_for_me_extended = .ok (pbool (h.isForMe m)) := by
  obtain ⟨id, ext, data, dlc, fd, brs⟩ := m
  rcases hm with hm | hm <;> cases ext <;> cases hr : h.rxid <;> cases hs : h.sa <;> cases data <;>
  simp [retOf, runFn, Src.Address_p_is_for_me_extended, execBlock, execStmt, eval, evalArgs, msgEnv, halfEnv, hm, hr, hs,
    Half.isForMe, Mode.is29, optPV, byteAt]
  all_goals grind

theorem is_for_me_mixed_11bits_agrees (h : Half) (hm : h.mode = .m11) (m : CanMsg) :
    retOf (msgEnv m (halfEnv h)) Src.Address_p_is_for_me_mixed_11bits = .ok (pbool (h.isForMe m)) := by
  obtain ⟨id, ext, data, dlc, fd, brs⟩ := m
  cases ext <;> cases hr : h.rxid <;> cases he : h.ae <;> cases data <;>
  simp [retOf, runFn, Src.Address_p_is_for_me_mixed_11bits, execBlock, execStmt, eval, evalArgs, msgEnv, halfEnv, hm, hr, he,
    Half.isForMe, Mode.is29, optPV, byteAt]
  all_goals grind

theorem is_for_me_mixed_29bits_agrees (h : Half) (hm : h.mode = .m29) (m : CanMsg) :
    retOf (msgEnv m (halfEnv h)) Src.Address_p_is_for_me_mixed_29bits = .ok (pbool (h.isForMe m)) := by
  obtain ⟨id, ext, data, dlc, fd, brs⟩ := m
  cases ext <;> cases hs : h.sa <;> cases ht : h.ta <;> cases he : h.ae <;> cases data <;>
  simp [retOf, runFn, Src.Address_p_is_for_me_mixed_29bits, execBlock, execStmt, eval, evalArgs, msgEnv, halfEnv, hm, hs, ht, he,
    Int.natCast_nonneg, and_mask2816, and_ff, and_ff00_shr, Half.isForMe, Mode.is29, optPV, byteAt]
  all_goals grind

/-! ### 2. `_get_tx_arbitration_id` / `_get_rx_arbitration_id` -/

/-- the five modes whose identifiers are given explicitly: the `assert self._txid is not None` of the source is the hypothesis -/
theorem p_get_tx_arbitration_id_plain_agrees (h : Half) (t : Tat) (hm : h.mode ≠ .nf29 ∧ h.mode ≠ .m29)
    (i : Nat) (hi : h.txid = some i) :
    retOf (tatEnv t (halfEnv h)) Src.Address_p_get_tx_arbitration_id = .ok (pint (h.txId t)) := by
  cases hmm : h.mode <;> simp [hmm] at hm <;>
  simp [retOf, runFn, Src.Address_p_get_tx_arbitration_id, execBlock, execStmt, eval, evalArgs, halfEnv, tatEnv, hmm, hi,
    constEnv, Src.consts, modePV, modeName, Half.txId, optPV]

theorem p_get_rx_arbitration_id_plain_agrees (h : Half) (t : Tat) (hm : h.mode ≠ .nf29 ∧ h.mode ≠ .m29)
    (i : Nat) (hi : h.rxid = some i) :
    retOf (tatEnv t (halfEnv h)) Src.Address_p_get_rx_arbitration_id = .ok (pint (h.rxId t)) := by
  cases hmm : h.mode <;> simp [hmm] at hm <;>
  simp [retOf, runFn, Src.Address_p_get_rx_arbitration_id, execBlock, execStmt, eval, evalArgs, halfEnv, tatEnv, hmm, hi,
    constEnv, Src.consts, modePV, modeName, Half.rxId, optPV]

/-- the two modes whose identifiers are computed: both address bytes present (the two `assert`s of the source) and bytes
    (`validate`), and the base selected by `address_type` a multiple of 65536 (the constructor masks it with `0x1FFF0000`). -/
theorem p_get_tx_arbitration_id_fixed_agrees (h : Half) (t : Tat) (hm : h.mode = .nf29 ∨ h.mode = .m29)
    (ta sa : Nat) (hta : h.ta = some ta) (hsa : h.sa = some sa) (bta : ta ≤ 255) (bsa : sa ≤ 255)
    (hb : (if t = .physical then h.physId else h.funcId) % 65536 = 0) :
    retOf (tatEnv t (halfEnv h)) Src.Address_p_get_tx_arbitration_id = .ok (pint (h.txId t)) := by
  rcases hm with hm | hm <;> cases t <;> simp at hb <;>
  simp [retOf, runFn, Src.Address_p_get_tx_arbitration_id, execBlock, execStmt, eval, evalArgs, halfEnv, tatEnv, hm, hta, hsa,
    constEnv, Src.consts, modePV, modeName, tatPV, Half.txId, optPV, Int.natCast_nonneg, or_shl_eq_add _ _ _ hb bta bsa]

theorem p_get_rx_arbitration_id_fixed_agrees (h : Half) (t : Tat) (hm : h.mode = .nf29 ∨ h.mode = .m29)
    (ta sa : Nat) (hta : h.ta = some ta) (hsa : h.sa = some sa) (bta : ta ≤ 255) (bsa : sa ≤ 255)
    (hb : (if t = .physical then h.physId else h.funcId) % 65536 = 0) :
    retOf (tatEnv t (halfEnv h)) Src.Address_p_get_rx_arbitration_id = .ok (pint (h.rxId t)) := by
  rcases hm with hm | hm <;> cases t <;> simp at hb <;>
  simp [retOf, runFn, Src.Address_p_get_rx_arbitration_id, execBlock, execStmt, eval, evalArgs, halfEnv, tatEnv, hm, hta, hsa,
    constEnv, Src.consts, modePV, modeName, tatPV, Half.rxId, optPV, Int.natCast_nonneg, or_shl_eq_add _ _ _ hb bsa bta]

/-! ### 3. extension bytes, `_requires_extension_byte`, `is_partial_address` -/

theorem get_tx_extension_byte_agrees (h : Half) :
    retOf (halfEnv h) Src.Address_get_tx_extension_byte = .ok (optPV h.txExtByte) := by
  cases hm : h.mode <;>
  simp [retOf, runFn, Src.Address_get_tx_extension_byte, execBlock, execStmt, eval, evalArgs, halfEnv, hm, constEnv, Src.consts,
    modePV, modeName, Half.txExtByte, optPV]

theorem get_rx_extension_byte_agrees (h : Half) :
    retOf (halfEnv h) Src.Address_get_rx_extension_byte = .ok (optPV h.rxExtByte) := by
  cases hm : h.mode <;>
  simp [retOf, runFn, Src.Address_get_rx_extension_byte, execBlock, execStmt, eval, evalArgs, halfEnv, hm, constEnv, Src.consts,
    modePV, modeName, Half.rxExtByte, optPV]

theorem p_requires_extension_byte_agrees (h : Half) :
    retOf (halfEnv h) Src.Address_p_requires_extension_byte = .ok (pbool h.mode.hasPrefix) := by
  cases hm : h.mode <;>
  simp [retOf, runFn, Src.Address_p_requires_extension_byte, execBlock, execStmt, eval, evalArgs, halfEnv, hm, constEnv, Src.consts,
    modePV, modeName, Mode.hasPrefix]

/-- Python's `or` returns one of its operands; both are `bool`s here, so the value is the Boolean disjunction -/
theorem is_partial_address_agrees (h : Half) :
    retOf (halfEnv h) Src.Address_is_partial_address = .ok (pbool (h.txOnly || h.rxOnly)) := by
  cases ht : h.txOnly <;> cases hr : h.rxOnly <;>
  simp [retOf, runFn, Src.Address_is_partial_address, execBlock, execStmt, eval, halfEnv, ht, hr]

/-! ### 4. the public getters, which read the identifiers cached by the constructor -/

theorem get_tx_arbitration_id_agrees (h : Half) (t : Tat) :
    retOf (tatEnv t (cachedEnv h (halfEnv h))) Src.Address_get_tx_arbitration_id = .ok (pint (h.txId t)) := by
  cases t <;>
  simp [retOf, runFn, Src.Address_get_tx_arbitration_id, execBlock, execStmt, eval, halfEnv, tatEnv, cachedEnv,
    constEnv, Src.consts, tatPV]

theorem get_rx_arbitration_id_agrees (h : Half) (t : Tat) :
    retOf (tatEnv t (cachedEnv h (halfEnv h))) Src.Address_get_rx_arbitration_id = .ok (pint (h.rxId t)) := by
  cases t <;>
  simp [retOf, runFn, Src.Address_get_rx_arbitration_id, execBlock, execStmt, eval, halfEnv, tatEnv, cachedEnv,
    constEnv, Src.consts, tatPV]

/-! ### summary: the predicate installed by the constructor -/

/-- the method `Address.__init__` binds to `self.is_for_me` (same case split as the source) -/
def selectedPredicate : Mode → PBlock
  | .n11 | .n29 => Src.Address_p_is_for_me_normal
  | .e11 | .e29 => Src.Address_p_is_for_me_extended
  | .nf29 => Src.Address_p_is_for_me_normal_fixed
  | .m11 => Src.Address_p_is_for_me_mixed_11bits
  | .m29 => Src.Address_p_is_for_me_mixed_29bits

theorem isForMe_agrees (h : Half) (m : CanMsg) :
    retOf (msgEnv m (halfEnv h)) (selectedPredicate h.mode) = .ok (pbool (h.isForMe m)) := by
  cases hm : h.mode <;> simp only [selectedPredicate]
  · exact is_for_me_normal_agrees h (.inl hm) m
  · exact is_for_me_normal_agrees h (.inr hm) m
  · exact is_for_me_normal_fixed_agrees h hm m
  · exact is_for_me_extended_agrees h (.inl hm) m
  · exact is_for_me_extended_agrees h (.inr hm) m
  · exact is_for_me_mixed_11bits_agrees h hm m
  · exact is_for_me_mixed_29bits_agrees h hm m

end Isotp.PyAgree
