import Isotp.Basic
import Isotp.Pdu
import Isotp.Address
import Isotp.Params
import Isotp.Frame
import Isotp.Layer
import Isotp.Process
