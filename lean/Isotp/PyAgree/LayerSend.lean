import Isotp.PyAgree.EvalLemmas
import Isotp.PyAgree.MiscLemmas
import Isotp.PyAgree.AddressFns
import Isotp.Process
/-!
  Source agreement for the user-facing entry points of `TransportLayerLogic` that are not part of the rx / tx state machines:

  * A. `send` (`Src.TransportLayerLogic_send`) = `State.send`, FOR ALL STATES AND ARGUMENTS (`send_agrees`, `send_raises_iff`,
       `send_enqueues`, `send_nonblocking`, `send_blocking_enqueues_then_raises`, `sendEnv_frame`, `sendEnv_callback`);
  * B. `SendRequest.complete` (`complete_agrees`, `complete_records_done`);
  * C. `set_address` (`set_address_agrees`; `set_address_sym_agrees` = `mkSym`, `set_address_asym_agrees`,
       `set_address_rejects_non_address`);
  * D. `load_params` (`load_params_agrees`, relative to the float conversions of the two constructors, which are not in the dump);
  * E. `FiniteByteGenerator.__init__` (`fbg_init_agrees`, `sendMeths_ctor_is_fbg_init`); the three accessors are in LayerTxHelpers.lean.

  All the machinery lives in the namespace `Isotp.PyAgree.Send` so that the generic names cannot clash with the other agreement files.
-/
namespace Isotp.PyAgree
open Isotp Isotp.Py

namespace Send

/-! ## 0. Infrastructure -/

theorem set_get (env : Env) (k : String) (v : PV) (k' : String) :
    (env.set k v) k' = if k' = k then some v else env k' := rfl

/-- the names the interpreter treats as builtins; every other call goes to `Meths` -/
def builtinNames : List String :=
  ["len", "int", "bool", "min", "max", "bytes", "isinstance_int", "isinstance_bool", "isinstance_float", "isinstance_int_float"]

theorem evalBuiltin_none (fn : String) (args : List PV) (h : fn ∉ builtinNames) : evalBuiltin fn args = none := by
  simp only [builtinNames, List.mem_cons, List.not_mem_nil, or_false, not_or] at h
  unfold evalBuiltin; split <;> simp_all

/-- the n-th top-level statement of a block -/
def nth : PBlock → Nat → PStmt
  | .nil, _ => .pass
  | .cons s _, 0 => s
  | .cons _ r, n + 1 => nth r n

/-- the block from its n-th top-level statement on -/
def drop : PBlock → Nat → PBlock
  | b, 0 => b
  | .nil, _ + 1 => .nil
  | .cons _ r, n + 1 => drop r n

/-- the first n top-level statements of a block -/
def take : PBlock → Nat → PBlock
  | _, 0 => .nil
  | .nil, _ + 1 => .nil
  | .cons s r, n + 1 => .cons s (take r n)

/-- concatenation of blocks -/
def append : PBlock → PBlock → PBlock
  | .nil, b => b
  | .cons s r, b => .cons s (append r b)

theorem step_next {M : Meths} {env env' : Env} {b : PBlock} {n : Nat}
    (hb : drop b n = .cons (nth b n) (drop b (n + 1)))
    (h : execStmt M env (nth b n) = .ok (.next env')) :
    execBlock M env (drop b n) = execBlock M env' (drop b (n + 1)) := by
  rw [hb]; simp only [execBlock, h, ok_bind]

theorem step_err {M : Meths} {env : Env} {b : PBlock} {n : Nat} {e : PErr}
    (hb : drop b n = .cons (nth b n) (drop b (n + 1)))
    (h : execStmt M env (nth b n) = .error e) :
    execBlock M env (drop b n) = .error e := by
  rw [hb]; simp only [execBlock, h, error_bind]

/-- running `b1; b2`: `b2` starts in the environment `b1` falls through with -/
theorem execBlock_append (M : Meths) : ∀ (b1 b2 : PBlock) (env : Env),
    execBlock M env (append b1 b2) =
      match execBlock M env b1 with
      | .ok (.next env') => execBlock M env' b2
      | r => r
  | .nil, b2, env => by simp only [append, execBlock]
  | .cons s r, b2, env => by
    simp only [append, execBlock]
    cases hs : execStmt M env s with
    | error e => simp only [error_bind]
    | ok f =>
      cases f with
      | next env' => simp only [ok_bind]; exact execBlock_append M r b2 env'
      | returned v env' => simp only [ok_bind]

theorem runFn_next {M : Meths} {env env' : Env} {b : PBlock} (h : execBlock M env b = .ok (.next env')) :
    runFn M env b = .ok (pnone, env') := by simp [runFn, h]
theorem runFn_err {M : Meths} {env : Env} {b : PBlock} {e : PErr} (h : execBlock M env b = .error e) :
    runFn M env b = .error e := by simp [runFn, h]

end Send
open Send

/-! ## A. `send` = `State.send`

  How the arguments, the object and its collaborators look to the interpreter:

  * `target_address_type` is `None`, a member of `TargetAddressType`, or its integer value (`TatArg`);
  * `data` is any value `dv`: what matters is the request `self.SendRequest(data=…, target_address_type=…)` builds from it.  The model
    sees the arguments as `SendArgs` (`id`: the identity the harness gives the request, `size`: the declared size, `len(data)` for
    bytes).  `SendRequest.__init__` calls `FiniteByteGenerator.__init__`, which raises `ValueError` when the declared size is negative
    (`Src.FiniteByteGenerator_init`, third statement; the other `ValueError`s of the two constructors - not a tuple / iterable, not a
    generator, size not an `int` - have no counterpart in `SendArgs`, whose `size` is an `Int`: the model's first check
    `a.size < 0 → ValueError` is the only one of them it can express).  The constructed request is shown as the three scalars
    `[id, size, target_address_type]` (`reqScs`): the generator's content (`src`, `instr` of the model's `Req`) is opaque to `send`;
  * `send_request.generator.total_length()` reads the size of the request the local `send_request` holds
    (`FiniteByteGenerator.total_length` returns `self._size`);
  * `self.tx_queue` is a `queue.Queue()` WITHOUT maxsize (unbounded, as the model's list): `full()` is `False`; `put(r)` appends
    the scalars of `r` to the history key `#txq` (which shows the model's `txQueue`, oldest first);
  * `self.address.get_tx_payload_prefix()` is `bytes` `s.addr.tx.txPrefix` (stored by `Address.__init__`, AddressInit.lean);
  * `complete_event` is a `threading.Event`: `clear()` writes `False` to the key `#event`, `is_set()` reads it, `wait(0)` returns at
    once without changing it (single-threaded harness: nobody can complete the request during the call; the model's comment on
    `State.send`);
  * `self.post_send_callback` is `None` (`cb = false`: a bare `TransportLayerLogic`, what the model describes and the harness drives) or
    a function (`cb = true`: the threaded `TransportLayer` installs one that wakes its worker up); calling it records its argument in
    the key `#cb`, so that the theorem also says WHEN it is called: after `put`, with the request. -/

def tatSc : Tat → Sc
  | .physical => .enum "TargetAddressType" "Physical"
  | .functional => .enum "TargetAddressType" "Functional"

theorem tatPV_eq (t : Tat) : tatPV t = .sc (tatSc t) := by cases t <;> rfl

/-- the integer value of a member of `TargetAddressType` -/
def tatValue : Tat → Int
  | .physical => 0
  | .functional => 1

/-- ... is the one dumped from the source -/
theorem tatValue_dumped :
    ("TargetAddressType.Physical", tatValue .physical) ∈ Src.constValues ∧
    ("TargetAddressType.Functional", tatValue .functional) ∈ Src.constValues ∧
    ("TargetAddressType.Physical", tatPV .physical) ∈ Src.consts ∧
    ("TargetAddressType.Functional", tatPV .functional) ∈ Src.consts := by decide

/-- the `target_address_type` argument: `None` (model: `none`), or a member / its integer value (model: `some t`) -/
def TatArg : Option Tat → PV → Prop
  | none, v => v = pnone
  | some t, v => v = tatPV t ∨ v = pint (tatValue t)

/-- a `SendRequest`, as far as `send` is concerned: identity, declared size, target address type -/
def reqPV (id : Nat) (size : Int) (t : Tat) : PV := .list [.py (.int id), .py (.int size), tatSc t]

def reqScs (r : Req) : List Sc := [.py (.int r.id), .py (.int r.size), tatSc r.tat]

/-- the transmit queue, oldest first -/
def txqPV (q : List Req) : PV := .list (q.flatMap reqScs)

/-- the collaborators of `send`, in state `s`, for a call whose arguments the model sees as `a` (see the section comment) -/
def sendMeths (s : State) (a : State.SendArgs) : Meths where
  fn := fun name args env =>
    match name, args with
    | "isotp.address.TargetAddressType", [v] =>
      if v = tatPV .physical ∨ v = pint 0 then .ok (tatPV .physical)
      else if v = tatPV .functional ∨ v = pint 1 then .ok (tatPV .functional)
      else .error (.exc .ValueError)
    | "self.SendRequest#data#target_address_type", [_, .sc t] =>
      if a.size < 0 then .error (.exc .ValueError) else .ok (.list [.py (.int a.id), .py (.int a.size), t])
    | "send_request.generator.total_length", [] =>
      (match env "send_request" with
       | some (.list [_, sz, _]) => .ok (.sc sz)
       | _ => .error (.exc .AttributeError))
    | "self.tx_queue.full", [] => .ok (pbool false)
    | "self.address.get_tx_payload_prefix", [] => .ok (.bytes s.addr.tx.txPrefix)
    | "send_request.complete_event.is_set", [] =>
      (match env "#event" with
       | some (.sc (.py (.bool b))) => .ok (pbool b)
       | _ => .error (.exc .AttributeError))
    | n, _ => .error (.unsupported ("call " ++ n))
  proc := fun name args env =>
    match name, args with
    | "send_request.complete_event.clear", [] => .ok (env.set "#event" (pbool false))
    | "send_request.complete_event.wait", [.sc (.py (.int 0))] => .ok env
    | "self.tx_queue.put", [.list r] =>
      (match env "#txq" with
       | some (.list h) => .ok (env.set "#txq" (.list (h ++ r)))
       | _ => .error (.exc .AttributeError))
    | "self.post_send_callback", [v] => .ok (env.set "#cb" v)
    | n, _ => .error (.unsupported ("call " ++ n))

/-- what `send` reads: its arguments and the attributes of `self`, in state `s`.  The member `Functional` is read through the path
    `isotp.address.TargetAddressType.Functional`, which `Src.consts` does not list (it has the same member under
    `TargetAddressType.Functional`: `tatValue_dumped`), so it is a hypothesis here. -/
structure SendEnv (s : State) (a : State.SendArgs) (cb : Bool) (targ dv : PV) (env : Env) : Prop where
  tatv : env "target_address_type" = some targ
  tatArg : TatArg a.tat targ
  data : env "data" = some dv
  dflt : env "self.params.default_target_address_type" = some (tatPV s.cfg.defaultTat)
  func : env "isotp.address.TargetAddressType.Functional" = some (tatPV .functional)
  txdl : env "self.params.tx_data_length" = some (pint s.cfg.txDl)
  blocking : env "self.params.blocking_send" = some (pbool s.cfg.blocking)
  callback : env "self.post_send_callback" = some (if cb then .meth "callback" else pnone)
  txq : env "#txq" = some (txqPV s.txQueue)
  /-- with `blocking_send` the harness passes `send_timeout=0` (the parameter is not read otherwise) -/
  timeout : s.cfg.blocking = true → env "send_timeout" = some (pint 0)

namespace Send

/-- the target address type `send` uses -/
def tatOf (s : State) (a : State.SendArgs) : Tat := a.tat.getD s.cfg.defaultTat

/-- `length_bytes` -/
def lenBytes (s : State) : Int := if ((s.cfg.txDl : Nat) : Int) = 8 then 1 else 2

/-- `maxlen` (a Python `int`: no truncation) -/
def maxLen (s : State) : Int := (s.cfg.txDl : Int) - lenBytes s - (s.addr.tx.txPrefix.length : Int)

/-- the three `ValueError` conditions of the source, in source order -/
def Rejected (s : State) (a : State.SendArgs) : Prop :=
  a.size < 0 ∨ a.size > 4294967295 ∨ (tatOf s a = .functional ∧ a.size > maxLen s)

instance (s : State) (a : State.SendArgs) : Decidable (Rejected s a) := by unfold Rejected; exact inferInstance

abbrev SS (n : Nat) : PStmt := nth Src.TransportLayerLogic_send n

section stmts
variable (s : State) (a : State.SendArgs) (env : Env)

theorem meths_tat_enum (t : Tat) :
    (sendMeths s a).fn "isotp.address.TargetAddressType" [tatPV t] env = .ok (tatPV t) := by
  cases t <;> simp [sendMeths, tatPV]

theorem meths_tat_int (t : Tat) :
    (sendMeths s a).fn "isotp.address.TargetAddressType" [pint (tatValue t)] env = .ok (tatPV t) := by
  cases t <;> simp [sendMeths, tatPV, tatValue]

theorem meths_ctor (dv : PV) (t : Tat) :
    (sendMeths s a).fn "self.SendRequest#data#target_address_type" [dv, tatPV t] env =
      if a.size < 0 then .error (.exc .ValueError) else .ok (reqPV a.id a.size t) := by
  rw [tatPV_eq]; rfl

theorem meths_total_length (id : Nat) (sz : Int) (t : Tat) (h : env "send_request" = some (reqPV id sz t)) :
    (sendMeths s a).fn "send_request.generator.total_length" [] env = .ok (pint sz) := by
  show (match env "send_request" with
       | some (PV.list [_, sz, _]) => Except.ok (PV.sc sz)
       | _ => (Except.error (PErr.exc .AttributeError) : Except PErr PV)) = _
  rw [h]; rfl

theorem meths_full : (sendMeths s a).fn "self.tx_queue.full" [] env = .ok (pbool false) := rfl
theorem meths_prefix : (sendMeths s a).fn "self.address.get_tx_payload_prefix" [] env = .ok (.bytes s.addr.tx.txPrefix) := rfl
theorem meths_is_set (b : Bool) (h : env "#event" = some (pbool b)) :
    (sendMeths s a).fn "send_request.complete_event.is_set" [] env = .ok (pbool b) := by
  show (match env "#event" with
       | some (PV.sc (.py (.bool b))) => Except.ok (pbool b)
       | _ => (Except.error (PErr.exc .AttributeError) : Except PErr PV)) = _
  rw [h]
theorem meths_clear : (sendMeths s a).proc "send_request.complete_event.clear" [] env = .ok (env.set "#event" (pbool false)) := rfl
theorem meths_wait : (sendMeths s a).proc "send_request.complete_event.wait" [pint 0] env = .ok env := rfl
theorem meths_put (r h : List Sc) (hq : env "#txq" = some (.list h)) :
    (sendMeths s a).proc "self.tx_queue.put" [.list r] env = .ok (env.set "#txq" (.list (h ++ r))) := by
  show (match env "#txq" with
       | some (PV.list h) => Except.ok (env.set "#txq" (PV.list (h ++ r)))
       | _ => (Except.error (PErr.exc .AttributeError) : Except PErr Env)) = _
  rw [hq]

/-- statement 0: `if target_address_type is None: target_address_type = self.params.default_target_address_type`
    `else: target_address_type = isotp.address.TargetAddressType(target_address_type)` -/
theorem stmt0 (targ : PV) (h1 : env "target_address_type" = some targ) (h2 : TatArg a.tat targ)
    (h3 : env "self.params.default_target_address_type" = some (tatPV s.cfg.defaultTat)) :
    execStmt (sendMeths s a) env (SS 0) = .ok (.next (env.set "target_address_type" (tatPV (tatOf s a)))) := by
  cases ht : a.tat with
  | none =>
    rw [ht] at h2; cases h2
    simp [SS, nth, Src.TransportLayerLogic_send, execStmt, execBlock, eval, h1, h3, tatOf, ht]
  | some t =>
    rw [ht] at h2
    rcases h2 with rfl | rfl
    · have hn : (tatPV t == pnone) = false := by cases t <;> rfl
      simp [SS, nth, Src.TransportLayerLogic_send, execStmt, execBlock, eval, evalArgs, h1, hn, tatOf, ht,
        evalBuiltin_none "isotp.address.TargetAddressType" _ (by decide), meths_tat_enum]
    · have hn : (pint (tatValue t) == pnone) = false := by cases t <;> rfl
      simp [SS, nth, Src.TransportLayerLogic_send, execStmt, execBlock, eval, evalArgs, h1, hn, tatOf, ht,
        evalBuiltin_none "isotp.address.TargetAddressType" _ (by decide), meths_tat_int]

/-- statement 1: `send_request = self.SendRequest(data=data, target_address_type=target_address_type)` -/
theorem stmt1 (dv : PV) (t : Tat) (h1 : env "data" = some dv) (h2 : env "target_address_type" = some (tatPV t)) :
    execStmt (sendMeths s a) env (SS 1) =
      if a.size < 0 then .error (.exc .ValueError) else .ok (.next (env.set "send_request" (reqPV a.id a.size t))) := by
  simp only [SS, nth, Src.TransportLayerLogic_send, execStmt, eval, evalArgs, h1, h2, ok_bind,
    evalBuiltin_none "self.SendRequest#data#target_address_type" _ (by decide), meths_ctor]
  split <;> rfl

/-- statement 2: `if send_request.generator.total_length() > 0xFFFFFFFF: raise ValueError` -/
theorem stmt2 (id : Nat) (sz : Int) (t : Tat) (h : env "send_request" = some (reqPV id sz t)) :
    execStmt (sendMeths s a) env (SS 2) =
      if sz > 4294967295 then .error (.exc .ValueError) else .ok (.next env) := by
  simp only [SS, nth, Src.TransportLayerLogic_send, execStmt, execBlock, eval, evalArgs, ok_bind,
    evalBuiltin_none "send_request.generator.total_length" _ (by decide), meths_total_length s a env id sz t h, evalCmp_gt_pint,
    truthy_pbool]
  by_cases hc : (4294967295 : Int) < sz <;> simp [hc]

/-- statement 3: `if self.tx_queue.full(): raise RuntimeError` (never: the queue is unbounded) -/
theorem stmt3 : execStmt (sendMeths s a) env (SS 3) = .ok (.next env) := by
  simp [SS, nth, Src.TransportLayerLogic_send, execStmt, execBlock, eval, evalArgs,
    evalBuiltin_none "self.tx_queue.full" _ (by decide), meths_full]

/-- the environment after statement 4 when the request is not rejected -/
def env4 (s : State) (t : Tat) (env : Env) : Env :=
  if t = .functional then (env.set "length_bytes" (pint (lenBytes s))).set "maxlen" (pint (maxLen s)) else env

/-- statement 4: the single-frame limit of functional addressing -/
theorem stmt4 (id : Nat) (sz : Int) (t : Tat) (h1 : env "target_address_type" = some (tatPV t))
    (h2 : env "isotp.address.TargetAddressType.Functional" = some (tatPV .functional))
    (h3 : env "self.params.tx_data_length" = some (pint s.cfg.txDl))
    (h4 : env "send_request" = some (reqPV id sz t)) :
    execStmt (sendMeths s a) env (SS 4) =
      if t = .functional ∧ sz > maxLen s then .error (.exc .ValueError) else .ok (.next (env4 s t env)) := by
  cases t with
  | physical =>
    simp [SS, nth, Src.TransportLayerLogic_send, execStmt, execBlock, eval, h1, h2, tatPV, env4]
  | functional =>
    have e1 : execStmt (sendMeths s a) env (.assign "length_bytes" (.ifexp (.cmp .eq (.var "self.params.tx_data_length") (.int 8))
        (.int 1) (.int 2))) = .ok (.next (env.set "length_bytes" (pint (lenBytes s)))) := by
      by_cases hc : ((s.cfg.txDl : Nat) : Int) = 8 <;> simp [execStmt, eval, h3, lenBytes, hc]
    have e2 : execStmt (sendMeths s a) (env.set "length_bytes" (pint (lenBytes s)))
        (.assign "maxlen" (.binop .sub (.binop .sub (.var "self.params.tx_data_length") (.var "length_bytes"))
          (.call "len" (.cons (.call "self.address.get_tx_payload_prefix" .nil) .nil)))) =
        .ok (.next ((env.set "length_bytes" (pint (lenBytes s))).set "maxlen" (pint (maxLen s)))) := by
      simp [execStmt, eval, evalArgs, set_get, h3, evalBuiltin_none "self.address.get_tx_payload_prefix" _ (by decide), meths_prefix,
        builtin_len_bytes, maxLen]
    have e3 : execStmt (sendMeths s a) ((env.set "length_bytes" (pint (lenBytes s))).set "maxlen" (pint (maxLen s)))
        (.ite (.cmp .gt (.call "send_request.generator.total_length" .nil) (.var "maxlen")) (.cons (.raise "ValueError") .nil) .nil) =
        if sz > maxLen s then .error (.exc .ValueError)
        else .ok (.next ((env.set "length_bytes" (pint (lenBytes s))).set "maxlen" (pint (maxLen s)))) := by
      have hl := meths_total_length s a ((env.set "length_bytes" (pint (lenBytes s))).set "maxlen" (pint (maxLen s))) id sz .functional
        (by simp [set_get, h4])
      simp only [execStmt, execBlock, eval, evalArgs, ok_bind, set_get,
        evalBuiltin_none "send_request.generator.total_length" _ (by decide), hl, evalCmp_gt_pint, truthy_pbool, if_true]
      by_cases hc : maxLen s < sz <;> simp [hc]
    have hcond : eval (sendMeths s a) env (.cmp .eq (.var "target_address_type") (.var "isotp.address.TargetAddressType.Functional")) =
        .ok (pbool true) := by
      simp [eval, h1, h2, tatPV]
    simp only [SS, nth, Src.TransportLayerLogic_send, execStmt, hcond, ok_bind, truthy_pbool, if_true]
    simp only [execBlock, e1, ok_bind, e2, e3]
    by_cases hc : maxLen s < sz <;> simp [hc, env4]

/-- statement 5: `if self.params.blocking_send: send_request.complete_event.clear()` -/
theorem stmt5 (h : env "self.params.blocking_send" = some (pbool s.cfg.blocking)) :
    execStmt (sendMeths s a) env (SS 5) =
      .ok (.next (if s.cfg.blocking then env.set "#event" (pbool false) else env)) := by
  cases hb : s.cfg.blocking <;>
  simp [SS, nth, Src.TransportLayerLogic_send, execStmt, execBlock, eval, evalArgs, h, hb,
    evalBuiltin_none "send_request.complete_event.clear" _ (by decide), meths_clear]

/-- statement 6: `self.tx_queue.put(send_request)` -/
theorem stmt6 (r h : List Sc) (h1 : env "send_request" = some (.list r)) (h2 : env "#txq" = some (.list h)) :
    execStmt (sendMeths s a) env (SS 6) = .ok (.next (env.set "#txq" (.list (h ++ r)))) := by
  simp [SS, nth, Src.TransportLayerLogic_send, execStmt, eval, evalArgs, h1,
    evalBuiltin_none "self.tx_queue.put" _ (by decide), meths_put s a env r h h2]

/-- statement 7: `if self.post_send_callback is not None: self.post_send_callback(send_request)` -/
theorem stmt7 (cb : Bool) (r : PV) (h : env "self.post_send_callback" = some (if cb then .meth "callback" else pnone))
    (h1 : env "send_request" = some r) :
    execStmt (sendMeths s a) env (SS 7) = .ok (.next (if cb then env.set "#cb" r else env)) := by
  have hp : ∀ v e, (sendMeths s a).proc "self.post_send_callback" [v] e = .ok (e.set "#cb" v) := fun _ _ => rfl
  cases cb with
  | false => simp [SS, nth, Src.TransportLayerLogic_send, execStmt, execBlock, eval, h]
  | true =>
    have hn : ((PV.meth "callback") != pnone) = true := rfl
    simp [SS, nth, Src.TransportLayerLogic_send, execStmt, execBlock, eval, evalArgs, h, h1, hn,
      evalBuiltin_none "self.post_send_callback" _ (by decide), hp]

/-- statement 8: the blocking wait.  `raise isotp.errors.BlockingSendTimeout(...)` is dumped as `.raise "BlockingSendTimeout"`; that
    class is not one of the builtin exception classes of the interpreter, whose outcome `.unsupported "raise BlockingSendTimeout"`
    therefore STANDS FOR the Python exception `BlockingSendTimeout` (the model's `some .BlockingSendTimeout`). -/
theorem stmt8 (h1 : env "self.params.blocking_send" = some (pbool s.cfg.blocking))
    (h2 : s.cfg.blocking = true → env "send_timeout" = some (pint 0))
    (h3 : s.cfg.blocking = true → env "#event" = some (pbool false)) :
    execStmt (sendMeths s a) env (SS 8) =
      if s.cfg.blocking then .error (.unsupported "raise BlockingSendTimeout") else .ok (.next env) := by
  cases hb : s.cfg.blocking with
  | false => simp [SS, nth, Src.TransportLayerLogic_send, execStmt, execBlock, eval, h1, hb]
  | true =>
    have e1 : execStmt (sendMeths s a) env (.expr (.call "send_request.complete_event.wait" (.cons (.var "send_timeout") .nil))) =
        .ok (.next env) := by
      simp [execStmt, eval, evalArgs, h2 hb, evalBuiltin_none "send_request.complete_event.wait" _ (by decide), meths_wait]
    have e2 : eval (sendMeths s a) env (.not_ (.call "send_request.complete_event.is_set" .nil)) = .ok (pbool true) := by
      simp [eval, evalArgs, evalBuiltin_none "send_request.complete_event.is_set" _ (by decide), meths_is_set s a env false (h3 hb)]
    simp only [SS, nth, Src.TransportLayerLogic_send, execStmt, eval, h1, hb, ok_bind, truthy_pbool, if_true]
    simp only [execBlock, e1, ok_bind]
    simp only [execStmt, e2, ok_bind, truthy_pbool, if_true, execBlock]
    rfl

end stmts

/-- the first eight statements of `send` (everything up to and including `put` and the callback test) -/
abbrev P : PBlock := take Src.TransportLayerLogic_send 8

end Send

/-- `send` is its first eight statements followed by the blocking wait -/
theorem send_split : Src.TransportLayerLogic_send = append Send.P (.cons (Send.SS 8) .nil) := rfl

/-- the environment `send` builds when it does not raise `ValueError`: the locals `target_address_type`, `send_request` (`length_bytes`,
    `maxlen` with functional addressing), the cleared event (`blocking_send`), and the queue with the new request at its end -/
def sendEnv (s : State) (a : State.SendArgs) (cb : Bool) (env : Env) : Env :=
  let t := tatOf s a
  let e2 := (env.set "target_address_type" (tatPV t)).set "send_request" (reqPV a.id a.size t)
  let e4 := env4 s t e2
  let e5 := if s.cfg.blocking then e4.set "#event" (pbool false) else e4
  let e6 := e5.set "#txq" (.list (s.txQueue.flatMap reqScs ++ [.py (.int a.id), .py (.int a.size), tatSc t]))
  if cb then e6.set "#cb" (reqPV a.id a.size t) else e6

/-- the names `send` writes -/
def sendKeys : List String := ["target_address_type", "send_request", "length_bytes", "maxlen", "#event", "#txq", "#cb"]

/-- **frame**: `send` writes nothing else (in particular no attribute of `self`) -/
theorem sendEnv_frame (s : State) (a : State.SendArgs) (cb : Bool) (env : Env) (k : String) (hk : k ∉ sendKeys) :
    sendEnv s a cb env k = env k := by
  simp only [sendKeys, List.mem_cons, List.not_mem_nil, or_false, not_or] at hk
  cases cb <;> cases hb : s.cfg.blocking <;> cases ht : tatOf s a <;> simp [sendEnv, env4, hb, ht, set_get, hk]

namespace Send

theorem sendEnv_event (s : State) (a : State.SendArgs) (cb : Bool) (env : Env) (hb : s.cfg.blocking = true) :
    sendEnv s a cb env "#event" = some (pbool false) := by
  cases cb <;> cases ht : tatOf s a <;> simp [sendEnv, env4, hb, ht, set_get]

/-- **the first eight statements, run** -/
theorem prefix_run (s : State) (a : State.SendArgs) (cb : Bool) (targ dv : PV) (env : Env) (hE : SendEnv s a cb targ dv env) :
    execBlock (sendMeths s a) env P =
      if Rejected s a then .error (.exc .ValueError) else .ok (.next (sendEnv s a cb env)) := by
  show execBlock _ env (drop P 0) = _
  rw [step_next (b := P) (n := 0) rfl (stmt0 s a env targ hE.tatv hE.tatArg hE.dflt)]
  have h1 := stmt1 s a (env.set "target_address_type" (tatPV (tatOf s a))) dv (tatOf s a)
    (by simp [set_get, hE.data]) (by simp [set_get])
  by_cases c1 : a.size < 0
  · rw [if_pos c1] at h1
    rw [step_err (b := P) (n := 1) rfl h1, if_pos (show Rejected s a from Or.inl c1)]
  rw [if_neg c1] at h1
  rw [step_next (b := P) (n := 1) rfl h1]
  have h2 := stmt2 s a ((env.set "target_address_type" (tatPV (tatOf s a))).set "send_request" (reqPV a.id a.size (tatOf s a)))
    a.id a.size (tatOf s a) (by simp [set_get])
  by_cases c2 : a.size > 4294967295
  · rw [if_pos c2] at h2
    rw [step_err (b := P) (n := 2) rfl h2, if_pos (show Rejected s a from Or.inr (Or.inl c2))]
  rw [if_neg c2] at h2
  rw [step_next (b := P) (n := 2) rfl h2, step_next (b := P) (n := 3) rfl (stmt3 s a _)]
  have h4 := stmt4 s a ((env.set "target_address_type" (tatPV (tatOf s a))).set "send_request" (reqPV a.id a.size (tatOf s a)))
    a.id a.size (tatOf s a) (by simp [set_get]) (by simp [set_get, hE.func]) (by simp [set_get, hE.txdl]) (by simp [set_get])
  by_cases c3 : tatOf s a = .functional ∧ a.size > maxLen s
  · rw [if_pos c3] at h4
    rw [step_err (b := P) (n := 4) rfl h4, if_pos (show Rejected s a from Or.inr (Or.inr c3))]
  rw [if_neg c3] at h4
  rw [step_next (b := P) (n := 4) rfl h4, if_neg (by simp only [Rejected, not_or]; exact ⟨c1, c2, c3⟩)]
  rw [step_next (b := P) (n := 5) rfl (stmt5 s a _ (by cases tatOf s a <;> simp [env4, set_get, hE.blocking]))]
  rw [step_next (b := P) (n := 6) rfl (stmt6 s a _ [.py (.int a.id), .py (.int a.size), tatSc (tatOf s a)] (s.txQueue.flatMap reqScs)
    (by cases tatOf s a <;> cases s.cfg.blocking <;> simp [env4, set_get, reqPV])
    (by cases tatOf s a <;> cases s.cfg.blocking <;> simp [env4, set_get, hE.txq, txqPV]))]
  rw [step_next (b := P) (n := 7) rfl (stmt7 s a _ cb (reqPV a.id a.size (tatOf s a))
    (by cases tatOf s a <;> cases s.cfg.blocking <;> simp [env4, set_get, hE.callback])
    (by cases tatOf s a <;> cases s.cfg.blocking <;> simp [env4, set_get]))]
  rfl

/-- **the ninth statement, in the environment the first eight leave** -/
theorem last_run (s : State) (a : State.SendArgs) (cb : Bool) (targ dv : PV) (env : Env) (hE : SendEnv s a cb targ dv env) :
    execStmt (sendMeths s a) (sendEnv s a cb env) (SS 8) =
      if s.cfg.blocking then .error (.unsupported "raise BlockingSendTimeout") else .ok (.next (sendEnv s a cb env)) :=
  stmt8 s a _ (by rw [sendEnv_frame _ _ _ _ _ (by decide)]; exact hE.blocking)
    (fun hb => by rw [sendEnv_frame _ _ _ _ _ (by decide)]; exact hE.timeout hb)
    (sendEnv_event s a cb env)

/-- **the whole body, run** -/
theorem send_run (s : State) (a : State.SendArgs) (cb : Bool) (targ dv : PV) (env : Env) (hE : SendEnv s a cb targ dv env) :
    runFn (sendMeths s a) env Src.TransportLayerLogic_send =
      if Rejected s a then .error (.exc .ValueError)
      else if s.cfg.blocking then .error (.unsupported "raise BlockingSendTimeout")
      else .ok (pnone, sendEnv s a cb env) := by
  rw [send_split, runFn, execBlock_append, prefix_run s a cb targ dv env hE]
  by_cases hr : Rejected s a
  · simp only [if_pos hr]
  · simp only [if_neg hr, execBlock, last_run s a cb targ dv env hE]
    cases s.cfg.blocking <;> rfl

/-! ### the model side -/

/-- the request the model enqueues -/
def newReq (s : State) (a : State.SendArgs) : Req :=
  { id := a.id, size := a.size.toNat, src := a.src, tat := tatOf s a, instr := a.instr }

/-- `State.send`, restated with the source's three conditions (`size + lengthBytes + prefixLen > txDl` over `Nat` is
    `size > txDl - lengthBytes - prefixLen` over Python's unbounded integers: no hypothesis on `tx_data_length` is needed) -/
theorem model_send (s : State) (a : State.SendArgs) :
    s.send a =
      if Rejected s a then (s, some .ValueError)
      else ({ s with txQueue := s.txQueue ++ [newReq s a] }, if s.cfg.blocking then some .BlockingSendTimeout else none) := by
  unfold State.send
  by_cases c1 : a.size < 0
  · simp [c1, Rejected]
  by_cases c2 : a.size > 4294967295
  · simp [c1, c2, Rejected]
  have hsz : ((a.size.toNat : Nat) : Int) = a.size := Int.toNat_of_nonneg (by omega)
  have hiff : (tatOf s a = .functional ∧ a.size > maxLen s) ↔
      (a.tat.getD s.cfg.defaultTat = .functional ∧
        s.cfg.txDl < a.size.toNat + (if s.cfg.txDl = 8 then 1 else 2) + s.txPrefixLen) := by
    simp only [tatOf, maxLen, lenBytes, State.txPrefixLen]
    constructor <;> rintro ⟨h1, h2⟩ <;> refine ⟨h1, ?_⟩ <;> split <;> split at h2 <;> omega
  by_cases c3 : tatOf s a = .functional ∧ a.size > maxLen s
  · have hr : Rejected s a := Or.inr (Or.inr c3)
    have c3' := hiff.mp c3
    simp [c1, c2, hr, c3'.1, c3'.2]
  · have hr : ¬ Rejected s a := by simp only [Rejected, not_or]; exact ⟨c1, c2, c3⟩
    have c3' : ¬ _ := fun h => c3 (hiff.mpr h)
    simp only [if_neg hr]
    cases hb : s.cfg.blocking <;> simp [c1, c2, c3', newReq, tatOf]

theorem model_exc (s : State) (a : State.SendArgs) :
    (s.send a).2 = if Rejected s a then some .ValueError else if s.cfg.blocking then some .BlockingSendTimeout else none := by
  rw [model_send]; split <;> rfl

theorem rejected_iff (s : State) (a : State.SendArgs) : Rejected s a ↔ (s.send a).2 = some .ValueError := by
  rw [model_exc]
  by_cases hr : Rejected s a
  · simp [hr]
  · cases hb : s.cfg.blocking <;> simp [hr]

/-- the queue `sendEnv` shows is the model's new queue -/
theorem sendEnv_txq (s : State) (a : State.SendArgs) (cb : Bool) (env : Env) (hr : ¬ Rejected s a) :
    sendEnv s a cb env "#txq" = some (txqPV (s.send a).1.txQueue) := by
  have hsz : ((a.size.toNat : Nat) : Int) = a.size :=
    Int.toNat_of_nonneg (by have : ¬ a.size < 0 := fun h => hr (Or.inl h); omega)
  rw [model_send, if_neg hr]
  cases cb <;> simp [sendEnv, set_get, txqPV, reqScs, newReq, hsz]

end Send

/-! ### A: the agreement theorems -/

/-- the model has three outcomes -/
theorem send_model_outcomes (s : State) (a : State.SendArgs) :
    (s.send a).2 = none ∨ (s.send a).2 = some .ValueError ∨ (s.send a).2 = some .BlockingSendTimeout := by
  rw [model_exc]
  by_cases hr : Rejected s a
  · simp [hr]
  · cases hb : s.cfg.blocking <;> simp [hr]

/-- **`send` = `State.send`** for ALL states and arguments, in every environment that shows them (`SendEnv`): the call returns `None`
    leaving `sendEnv` / raises `ValueError` / ends in the outcome that stands for `BlockingSendTimeout` (see `Send.stmt8`: the
    interpreter has no such exception class, `raise isotp.errors.BlockingSendTimeout(...)` gives `.unsupported "raise BlockingSendTimeout"`)
    exactly as the model returns `none` / `some .ValueError` / `some .BlockingSendTimeout` (`send_model_outcomes`: there is no fourth
    case; in particular the `RuntimeError` of a full queue cannot happen, the queue being unbounded). -/
theorem send_agrees (s : State) (a : State.SendArgs) (cb : Bool) (targ dv : PV) (env : Env) (hE : SendEnv s a cb targ dv env) :
    runFn (sendMeths s a) env Src.TransportLayerLogic_send =
      match (s.send a).2 with
      | none => .ok (pnone, sendEnv s a cb env)
      | some .ValueError => .error (.exc .ValueError)
      | some _ => .error (.unsupported "raise BlockingSendTimeout") := by
  rw [send_run s a cb targ dv env hE, model_exc]
  by_cases hr : Rejected s a
  · simp only [if_pos hr]
  · simp only [if_neg hr]
    cases hb : s.cfg.blocking <;> rfl

/-- the run raises `ValueError` EXACTLY WHEN the model returns `some .ValueError` (negative declared size, more than `0xFFFFFFFF` bytes,
    or more than one single frame with functional addressing); the model's state is then unchanged -/
theorem send_raises_iff (s : State) (a : State.SendArgs) (cb : Bool) (targ dv : PV) (env : Env) (hE : SendEnv s a cb targ dv env) :
    runFn (sendMeths s a) env Src.TransportLayerLogic_send = .error (.exc .ValueError) ↔ (s.send a).2 = some .ValueError := by
  rw [send_run s a cb targ dv env hE, ← rejected_iff]
  by_cases hr : Rejected s a
  · simp [hr]
  · cases hb : s.cfg.blocking <;> simp [hr]

theorem send_rejected_state (s : State) (a : State.SendArgs) (h : (s.send a).2 = some .ValueError) : (s.send a).1 = s := by
  rw [model_send, if_pos ((rejected_iff s a).mpr h)]

/-- otherwise the model appends ONE request and changes nothing else ... -/
theorem send_accepted_state (s : State) (a : State.SendArgs) (h : (s.send a).2 ≠ some .ValueError) :
    (s.send a).1 = { s with txQueue := s.txQueue ++ [Send.newReq s a] } := by
  rw [model_send, if_neg (fun hr => h ((rejected_iff s a).mp hr))]

/-- ... and so does the source: whenever the model does not return `ValueError`, the first eight statements (up to `self.tx_queue.put`
    and the callback test) run to completion and leave `sendEnv`, in which `#txq` shows the MODEL's new queue (identity, declared size and
    target address type of every request, the new one last) and every name outside `sendKeys` - so every attribute of `self` - is
    unchanged (`sendEnv_frame`). -/
theorem send_enqueues (s : State) (a : State.SendArgs) (cb : Bool) (targ dv : PV) (env : Env) (hE : SendEnv s a cb targ dv env)
    (h : (s.send a).2 ≠ some .ValueError) :
    execBlock (sendMeths s a) env Send.P = .ok (.next (sendEnv s a cb env)) ∧
    sendEnv s a cb env "#txq" = some (txqPV (s.send a).1.txQueue) ∧
    ∀ k, k ∉ sendKeys → sendEnv s a cb env k = env k := by
  have hr : ¬ Rejected s a := fun hr => h ((rejected_iff s a).mp hr)
  refine ⟨?_, sendEnv_txq s a cb env hr, sendEnv_frame s a cb env⟩
  rw [prefix_run s a cb targ dv env hE, if_neg hr]

/-- an installed callback is called with the request, AFTER it was enqueued (`sendEnv`: `#cb` is written last; `Send.stmt7` runs in the
    environment `Send.stmt6` = `put` leaves), and is not called otherwise -/
theorem sendEnv_callback (s : State) (a : State.SendArgs) (env : Env) :
    sendEnv s a true env "#cb" = some (reqPV a.id a.size (Send.tatOf s a)) ∧ sendEnv s a false env "#cb" = env "#cb" :=
  ⟨by simp [sendEnv, set_get],
   by cases hb : s.cfg.blocking <;> cases ht : tatOf s a <;> simp [sendEnv, env4, hb, ht, set_get]⟩

/-- non-blocking: the call returns `None` in that environment -/
theorem send_nonblocking (s : State) (a : State.SendArgs) (cb : Bool) (targ dv : PV) (env : Env) (hE : SendEnv s a cb targ dv env)
    (h : (s.send a).2 = none) :
    runFn (sendMeths s a) env Src.TransportLayerLogic_send = .ok (pnone, sendEnv s a cb env) := by
  rw [send_agrees s a cb targ dv env hE, h]

/-- blocking (`send_timeout=0`, nobody completes the request meanwhile): the request IS enqueued (first eight statements, as in
    `send_enqueues`), then the ninth statement raises in that environment; `send_split` says the body is exactly these two parts -/
theorem send_blocking_enqueues_then_raises (s : State) (a : State.SendArgs) (cb : Bool) (targ dv : PV) (env : Env) (hE : SendEnv s a cb targ dv env)
    (h : (s.send a).2 = some .BlockingSendTimeout) :
    execBlock (sendMeths s a) env Send.P = .ok (.next (sendEnv s a cb env)) ∧
    execStmt (sendMeths s a) (sendEnv s a cb env) (Send.SS 8) = .error (.unsupported "raise BlockingSendTimeout") ∧
    runFn (sendMeths s a) env Src.TransportLayerLogic_send = .error (.unsupported "raise BlockingSendTimeout") := by
  have hne : (s.send a).2 ≠ some .ValueError := by rw [h]; decide
  have hb : s.cfg.blocking = true := by
    have hr : ¬ Rejected s a := fun hr => hne ((rejected_iff s a).mp hr)
    rw [model_exc, if_neg hr] at h
    cases hb : s.cfg.blocking
    · simp [hb] at h
    · rfl
  refine ⟨(send_enqueues s a cb targ dv env hE hne).1, ?_, ?_⟩
  · rw [last_run s a cb targ dv env hE, hb]; rfl
  · rw [send_agrees s a cb targ dv env hE, h]

/-- non-vacuity: for every state, argument record and admissible `target_address_type` value there is such an environment -/
def sendEnvOf (s : State) (cb : Bool) (targ : PV) : Env :=
  envOf [("target_address_type", targ), ("data", .meth "data"), ("send_timeout", pint 0),
    ("self.params.default_target_address_type", tatPV s.cfg.defaultTat),
    ("isotp.address.TargetAddressType.Functional", tatPV .functional),
    ("self.params.tx_data_length", pint s.cfg.txDl), ("self.params.blocking_send", pbool s.cfg.blocking),
    ("self.post_send_callback", if cb then .meth "callback" else pnone), ("#txq", txqPV s.txQueue)]

theorem sendEnvOf_ok (s : State) (a : State.SendArgs) (cb : Bool) (targ : PV) (h : TatArg a.tat targ) :
    SendEnv s a cb targ (.meth "data") (sendEnvOf s cb targ) :=
  ⟨rfl, h, rfl, rfl, rfl, rfl, rfl, rfl, rfl, fun _ => rfl⟩

example (s : State) (a : State.SendArgs) (h : a.tat = none) : SendEnv s a false pnone (.meth "data") (sendEnvOf s false pnone) :=
  sendEnvOf_ok s a false pnone (by rw [h]; rfl)
example (s : State) (a : State.SendArgs) (t : Tat) (h : a.tat = some t) :
    SendEnv s a true (pint (tatValue t)) (.meth "data") (sendEnvOf s true (pint (tatValue t))) :=
  sendEnvOf_ok s a true _ (by rw [h]; exact Or.inr rfl)

/-- all three outcomes occur -/
example : ((default : State).send { id := 1, size := 3, src := [1, 2, 3] }).2 = none := by decide
example : ((default : State).send { id := 1, size := -1, src := [] }).2 = some .ValueError := by decide
example : ({ (default : State) with cfg := { blocking := true } }.send { id := 1, size := 3, src := [1, 2, 3] }).2 =
    some .BlockingSendTimeout := by decide

/-! ## B. `SendRequest.complete(success)`

  `self.success = success; self.complete_event.set()`.  What matters to a thread blocked in `send` (and to the harness, which observes
  completions) is the ORDER: whoever is woken by the event must already see the new `success`. -/

/-- **`complete`, for EVERY semantics `M` of the event**: the body is exactly ONE call of the primitive `self.complete_event.set()`, made
    in the environment in which `self.success` ALREADY holds the argument; the result of the call is the result of that primitive
    (its environment, `None` returned).  Nothing else is written. -/
theorem complete_agrees (M : Meths) (env : Env) (v : PV) (h : env "success" = some v) :
    runFn M env Src.TransportLayerLogic_SendRequest_complete =
      (M.proc "self.complete_event.set" [] (env.set "self.success" v)).map (fun e => (pnone, e)) := by
  simp only [runFn, Src.TransportLayerLogic_SendRequest_complete, execBlock, execStmt, eval, evalArgs, h, ok_bind,
    evalBuiltin_none "self.complete_event.set" _ (by decide)]
  cases M.proc "self.complete_event.set" [] (env.set "self.success" v) <;> rfl

/-- the event of request `id`, as its observers see it: `set()` sets the flag `#event` and records in the history `#done` the pair
    `(id, self.success)` an observer woken at that moment reads (an `AttributeError` if `success` were not assigned yet) -/
def completeMeths (id : Nat) : Meths where
  fn := fun n _ _ => .error (.unsupported ("call " ++ n))
  proc := fun name args env =>
    match name, args with
    | "self.complete_event.set", [] =>
      (match env "self.success", env "#done" with
       | some (.sc sv), some (.list h) => .ok ((env.set "#event" (pbool true)).set "#done" (.list (h ++ [.py (.int id), sv])))
       | _, _ => .error (.exc .AttributeError))
    | n, _ => .error (.unsupported ("call " ++ n))

/-- **`complete(ok)` records `(id, ok)`**: the model's `emit (.done r.id ok)` (and the primitive
    `self.active_send_request.complete(ok)` of LayerTxHelpers.lean: `#done` gains the two scalars `id, ok`), whatever `self.success` was
    before (`old`: the constructor's `False`, or anything else) -/
theorem complete_records_done (id : Nat) (ok : Bool) (env : Env) (hist : List Sc) (h1 : env "success" = some (pbool ok))
    (h2 : env "#done" = some (.list hist)) :
    runFn (completeMeths id) env Src.TransportLayerLogic_SendRequest_complete =
      .ok (pnone, ((env.set "self.success" (pbool ok)).set "#event" (pbool true)).set "#done"
        (.list (hist ++ [.py (.int id), .py (.bool ok)]))) := by
  rw [complete_agrees _ env _ h1]
  show Except.map _ (match (env.set "self.success" (pbool ok)) "self.success", (env.set "self.success" (pbool ok)) "#done" with
       | some (PV.sc sv), some (PV.list h) =>
         Except.ok (((env.set "self.success" (pbool ok)).set "#event" (pbool true)).set "#done" (PV.list (h ++ [.py (.int id), sv])))
       | _, _ => (Except.error (PErr.exc .AttributeError) : Except PErr Env)) = _
  have e1 : (env.set "self.success" (pbool ok)) "self.success" = some (pbool ok) := by simp [set_get]
  have e2 : (env.set "self.success" (pbool ok)) "#done" = some (.list hist) := by simp [set_get, h2]
  rw [e1, e2]; rfl

/-! ## C. `set_address` = `mkSym` (symmetric) / accepted (asymmetric) / `ValueError` (anything else) -/

/-- the argument of `set_address` -/
inductive AddrArg where
  | sym (h : Half)          -- an `isotp.Address` (constructed: `mkAddress` gave `h`)
  | asym (ad : Addr)        -- an `isotp.AsymmetricAddress` (constructed: `mkAsym` gave `ad`)
  | other                   -- not an address object

/-- what the layer holds afterwards: `mkSym` for a symmetric address (rejected when partial), the two halves of an asymmetric one -/
def setAddrSpec : AddrArg → Except PyExc Addr
  | .sym h => mkSym h
  | .asym ad => .ok ad
  | .other => .error .ValueError

/-- The collaborators of `set_address`: `isinstance(address, (Address, AsymmetricAddress))`; `address.is_partial_address()`
    (`is_partial_address_agrees`, AddressFns.lean, for an `Address`; the constant `False` for an `AsymmetricAddress`); the two identifier
    getters, which answer for the NEW address and therefore only once `self.address` holds it (`get_tx_arbitration_id_agrees` /
    `get_rx_arbitration_id_agrees`, AddressFns.lean, for each half). -/
def setAddrMeths (arg : AddrArg) : Meths where
  fn := fun name args env =>
    match name, args with
    | "isinstance_Address_AsymmetricAddress", [_] => .ok (pbool (match arg with | .other => false | _ => true))
    | "address.is_partial_address", [] =>
      (match arg with
       | .sym h => .ok (pbool (h.txOnly || h.rxOnly))
       | .asym _ => .ok (pbool false)
       | .other => .error (.exc .AttributeError))
    | "self.address.get_tx_arbitration_id", [v] =>
      if env "self.address" = some (.meth "address") ∧ v = tatPV .physical then
        (match setAddrSpec arg with
         | .ok ad => .ok (pint (ad.tx.txId .physical))
         | .error _ => .error (.unsupported "getter of a rejected address"))
      else .error (.unsupported "getter of another address")
    | "self.address.get_rx_arbitration_id", [v] =>
      if env "self.address" = some (.meth "address") ∧ v = tatPV .physical then
        (match setAddrSpec arg with
         | .ok ad => .ok (pint (ad.rx.rxId .physical))
         | .error _ => .error (.unsupported "getter of a rejected address"))
      else .error (.unsupported "getter of another address")
    | n, _ => .error (.unsupported ("call " ++ n))
  proc := fun n _ _ => .error (.unsupported ("call " ++ n))

/-- the primitive `address.is_partial_address()` IS the interpreted source of `Address.is_partial_address` on the object -/
theorem setAddrMeths_partial_is_source (h : Half) (env : Env) :
    (setAddrMeths (.sym h)).fn "address.is_partial_address" [] env = retOf (halfEnv h) Src.Address_is_partial_address := by
  rw [is_partial_address_agrees]; rfl

/-- the environment `set_address` leaves: the new address and the two locals -/
def setAddrEnv (ad : Addr) (env : Env) : Env :=
  ((env.set "self.address" (.meth "address")).set "txid" (pint (ad.tx.txId .physical))).set "rxid" (pint (ad.rx.rxId .physical))

namespace Send

abbrev AS (n : Nat) : PStmt := nth Src.TransportLayerLogic_set_address n
abbrev AR (n : Nat) : PBlock := drop Src.TransportLayerLogic_set_address n

/-- the test of the two "reserved identifier" warnings, `x > 0x7F4 and x < 0x7F6 or x > 0x7FA and x < 0x7FB`, on an `int`: it holds
    exactly for `x = 0x7F5` (the second range is EMPTY for integers, and the first is the single identifier between its bounds - whereas
    the message speaks of `0x7F4-0x7F6 and 0x7FA-0x7FB`: a suspicious condition, but it only guards a `logger.warning`) -/
theorem reserved_test (M : Meths) (env : Env) (k : String) (x : Int) (h : env k = some (pint x)) :
    eval M env (.or_ (.and_ (.cmp .gt (.var k) (.int 2036)) (.cmp .lt (.var k) (.int 2038)))
      (.and_ (.cmp .gt (.var k) (.int 2042)) (.cmp .lt (.var k) (.int 2043)))) = .ok (pbool (decide (x = 2037))) := by
  simp only [eval, h, ok_bind, evalCmp_gt_pint, evalCmp_lt_pint, truthy_pbool]
  by_cases h1 : (2036 : Int) < x <;> by_cases h2 : x < 2038 <;> by_cases h3 : (2042 : Int) < x <;> by_cases h4 : x < 2043 <;>
    simp [h1, h2, h3, h4] <;> omega

/-- a warning statement (the `logger.warning` call itself is dropped by the dumper) changes nothing -/
theorem warn_stmt (M : Meths) (env : Env) (k : String) (x : Int) (h : env k = some (pint x)) :
    execStmt M env (.ite (.or_ (.and_ (.cmp .gt (.var k) (.int 2036)) (.cmp .lt (.var k) (.int 2038)))
      (.and_ (.cmp .gt (.var k) (.int 2042)) (.cmp .lt (.var k) (.int 2043)))) .nil .nil) = .ok (.next env) := by
  simp only [execStmt, reserved_test M env k x h, ok_bind, truthy_pbool, execBlock]
  split <;> rfl

end Send

/-- what `set_address` reads besides its argument -/
structure SetAddrEnv (env : Env) : Prop where
  address : env "address" = some (.meth "address")
  phys : env "isotp.TargetAddressType.Physical" = some (tatPV .physical)

/-- **`set_address`** for EVERY argument: `ValueError` exactly when the argument is not an address or is a partial symmetric address
    (`mkSym`); otherwise the address is stored (then `self.address` answers with the identifiers of the NEW address, which end up in the
    locals `txid`, `rxid`), the two warning tests are evaluated, `None` is returned and nothing else is written. -/
theorem set_address_agrees (arg : AddrArg) (env : Env) (hE : SetAddrEnv env) :
    runFn (setAddrMeths arg) env Src.TransportLayerLogic_set_address =
      match setAddrSpec arg with
      | .ok ad => .ok (pnone, setAddrEnv ad env)
      | .error _ => .error (.exc .ValueError) := by
  have hinst : ∀ e, (setAddrMeths arg).fn "isinstance_Address_AsymmetricAddress" [.meth "address"] e =
      .ok (pbool (match arg with | .other => false | _ => true)) := fun _ => rfl
  have s0 : execStmt (setAddrMeths arg) env (AS 0) =
      match arg with | .other => .error (.exc .ValueError) | _ => .ok (.next env) := by
    cases arg <;>
    simp [AS, nth, Src.TransportLayerLogic_set_address, execStmt, execBlock, eval, evalArgs, hE.address,
      evalBuiltin_none "isinstance_Address_AsymmetricAddress" _ (by decide), hinst]
  -- the rest of the body, for an accepted address
  have rest : ∀ ad : Addr, setAddrSpec arg = .ok ad →
      execBlock (setAddrMeths arg) env (AR 2) = .ok (.next (setAddrEnv ad env)) := by
    intro ad hs
    have htx : ∀ e, e "self.address" = some (.meth "address") →
        (setAddrMeths arg).fn "self.address.get_tx_arbitration_id" [tatPV .physical] e = .ok (pint (ad.tx.txId .physical)) := by
      intro e he
      show (if e "self.address" = some (.meth "address") ∧ tatPV .physical = tatPV .physical then
        (match setAddrSpec arg with
         | .ok ad => Except.ok (pint (ad.tx.txId .physical))
         | .error _ => (Except.error (PErr.unsupported "getter of a rejected address") : Except PErr PV))
        else _) = _
      rw [if_pos ⟨he, rfl⟩, hs]
    have hrx : ∀ e, e "self.address" = some (.meth "address") →
        (setAddrMeths arg).fn "self.address.get_rx_arbitration_id" [tatPV .physical] e = .ok (pint (ad.rx.rxId .physical)) := by
      intro e he
      show (if e "self.address" = some (.meth "address") ∧ tatPV .physical = tatPV .physical then
        (match setAddrSpec arg with
         | .ok ad => Except.ok (pint (ad.rx.rxId .physical))
         | .error _ => (Except.error (PErr.unsupported "getter of a rejected address") : Except PErr PV))
        else _) = _
      rw [if_pos ⟨he, rfl⟩, hs]
    have s2 : execStmt (setAddrMeths arg) env (AS 2) = .ok (.next (env.set "self.address" (.meth "address"))) := by
      simp [AS, nth, Src.TransportLayerLogic_set_address, execStmt, eval, hE.address]
    have s3 : execStmt (setAddrMeths arg) (env.set "self.address" (.meth "address")) (AS 3) =
        .ok (.next ((env.set "self.address" (.meth "address")).set "txid" (pint (ad.tx.txId .physical)))) := by
      simp [AS, nth, Src.TransportLayerLogic_set_address, execStmt, eval, evalArgs, set_get, hE.phys,
        evalBuiltin_none "self.address.get_tx_arbitration_id" _ (by decide),
        htx (env.set "self.address" (.meth "address")) (by simp [set_get])]
    have s4 : execStmt (setAddrMeths arg) ((env.set "self.address" (.meth "address")).set "txid" (pint (ad.tx.txId .physical))) (AS 4) =
        .ok (.next (setAddrEnv ad env)) := by
      simp [AS, nth, Src.TransportLayerLogic_set_address, execStmt, eval, evalArgs, set_get, hE.phys,
        evalBuiltin_none "self.address.get_rx_arbitration_id" _ (by decide),
        hrx ((env.set "self.address" (.meth "address")).set "txid" (pint (ad.tx.txId .physical))) (by simp [set_get]), setAddrEnv]
    rw [step_next rfl s2, step_next rfl s3, step_next rfl s4]
    rw [step_next rfl (warn_stmt _ _ "txid" (ad.tx.txId .physical) (by simp [setAddrEnv, set_get]))]
    rw [step_next rfl (warn_stmt _ _ "rxid" (ad.rx.rxId .physical) (by simp [setAddrEnv, set_get]))]
    rfl
  cases arg with
  | other =>
    exact runFn_err (step_err (b := Src.TransportLayerLogic_set_address) (n := 0) rfl s0)
  | asym ad =>
    have s1 : execStmt (setAddrMeths (.asym ad)) env (AS 1) = .ok (.next env) := by
      have hp : ∀ e, (setAddrMeths (.asym ad)).fn "address.is_partial_address" [] e = .ok (pbool false) := fun _ => rfl
      simp [AS, nth, Src.TransportLayerLogic_set_address, execStmt, execBlock, eval, evalArgs,
        evalBuiltin_none "address.is_partial_address" _ (by decide), hp]
    apply runFn_next
    show execBlock _ env (AR 0) = _
    rw [step_next rfl s0, step_next rfl s1]
    exact rest ad rfl
  | sym h =>
    have hp : ∀ e, (setAddrMeths (.sym h)).fn "address.is_partial_address" [] e = .ok (pbool (h.txOnly || h.rxOnly)) := fun _ => rfl
    have s1 : execStmt (setAddrMeths (.sym h)) env (AS 1) =
        if (h.txOnly || h.rxOnly) = true then .error (.exc .ValueError) else .ok (.next env) := by
      cases hc : (h.txOnly || h.rxOnly) <;>
      simp [AS, nth, Src.TransportLayerLogic_set_address, execStmt, execBlock, eval, evalArgs,
        evalBuiltin_none "address.is_partial_address" _ (by decide), hp, hc]
    cases hc : (h.txOnly || h.rxOnly)
    · have hs : setAddrSpec (.sym h) = .ok { tx := h, rx := h } := by
        have : (h.rxOnly || h.txOnly) = false := by rw [Bool.or_comm]; exact hc
        simp [setAddrSpec, mkSym, this]
      rw [hs]
      rw [hc] at s1
      apply runFn_next
      show execBlock _ env (AR 0) = _
      rw [step_next rfl s0, step_next rfl s1]
      exact rest _ hs
    · have hs : setAddrSpec (.sym h) = .error .ValueError := by
        have : (h.rxOnly || h.txOnly) = true := by rw [Bool.or_comm]; exact hc
        simp [setAddrSpec, mkSym, this]
      rw [hs]
      rw [hc] at s1
      apply runFn_err
      show execBlock _ env (AR 0) = _
      rw [step_next rfl s0]
      exact step_err rfl s1

/-- **`set_address(Address)` = `mkSym`** -/
theorem set_address_sym_agrees (h : Half) (env : Env) (hE : SetAddrEnv env) :
    runFn (setAddrMeths (.sym h)) env Src.TransportLayerLogic_set_address =
      match mkSym h with
      | .ok ad => .ok (pnone, setAddrEnv ad env)
      | .error _ => .error (.exc .ValueError) :=
  set_address_agrees (.sym h) env hE

/-- an `AsymmetricAddress` is always accepted (it is never partial) -/
theorem set_address_asym_agrees (ad : Addr) (env : Env) (hE : SetAddrEnv env) :
    runFn (setAddrMeths (.asym ad)) env Src.TransportLayerLogic_set_address = .ok (pnone, setAddrEnv ad env) :=
  set_address_agrees (.asym ad) env hE

theorem set_address_rejects_non_address (env : Env) (hE : SetAddrEnv env) :
    runFn (setAddrMeths .other) env Src.TransportLayerLogic_set_address = .error (.exc .ValueError) :=
  set_address_agrees .other env hE

/-- frame: only `self.address` and the two locals are written -/
theorem setAddrEnv_frame (ad : Addr) (env : Env) (k : String) (h1 : k ≠ "self.address") (h2 : k ≠ "txid") (h3 : k ≠ "rxid") :
    setAddrEnv ad env k = env k := by
  simp [setAddrEnv, set_get, h1, h2, h3]

example : SetAddrEnv (envOf [("address", .meth "address"), ("isotp.TargetAddressType.Physical", tatPV .physical)]) := ⟨rfl, rfl⟩

/-! ## D. `load_params`

  `self.params.validate()`, then the two receive timers and the rate limiter are REBUILT from the parameters:
  `Timer(timeout=float(ms) / 1000)` twice, `RateLimiter(mean_bitrate=…, window_size_sec=…)`, then `enable()` / `disable()`.

  The argument `float(ms) / 1000` is inside the subset once `float(x)` of an `int` is taken to be numerically `x` (as in
  LayerTxHelpers.lean): the interpreter's `/` then gives the exact rational `ms/1000` seconds.  What the two constructors do with their
  arguments is NOT in the dump (`Timer.__init__` stores `int(timeout * 1e9)` nanoseconds - a float computation, outside the subset; its
  result is by construction of the harness the model's `cfg.tFc` / `cfg.tCf`, DESIGN 3.1).  The constructed objects are therefore shown
  by what they were built FROM: a `Timer` as the list `[start_time, timeout]` = `[None, ms/1000]` (a fresh timer is stopped), the
  `RateLimiter` as an opaque object whose `enabled` flag is the key `self.rate_limiter.enabled`, written by `enable()` / `disable()`
  (`ratelimiter_enable_agrees` / `ratelimiter_disable_agrees`, LayerTxHelpers.lean; after a successful `validate()` the limiter can be
  enabled: `validate` checks that bitrate and window are positive).  So the theorem says: WHICH parameter goes to WHICH timer (fc / cf not
  swapped, milliseconds divided by 1000), that the limiter is built from `rate_limit_max_bitrate`, `rate_limit_window_size` in that
  order, and that it ends enabled exactly when `rate_limit_enable` - the model's `State.init`: `timerFc := {timeout := c.tFc}` (stopped),
  `timerCf := {timeout := c.tCf}` (stopped), `rl := {enabled := c.rlEnable}`. -/

/-- a freshly constructed `Timer(timeout = n/d seconds)`: stopped -/
def timerObj (n : Int) (d : Nat) : PV := .list [.py .none, .py (.float n d)]

/-- the collaborators of `load_params`; `valid` = what `self.params.validate()` finds, `br`, `win` = the values the limiter is
    expected to be built from (anything else is an error of the presentation, not of Python) -/
def loadMeths (valid : Bool) (br win : PV) : Meths where
  fn := fun name args _ =>
    match name, args with
    | "float", [.sc (.py (.int i))] => .ok (pint i)
    | "Timer#timeout", [.sc (.py (.float n d))] => .ok (timerObj n d)
    | "RateLimiter#mean_bitrate#window_size_sec", [b, w] =>
      if b = br ∧ w = win then .ok (.meth "RateLimiter") else .error (.unsupported "RateLimiter built from other values")
    | n, _ => .error (.unsupported ("call " ++ n))
  proc := fun name args env =>
    match name, args with
    | "self.params.validate", [] => if valid then .ok env else .error (.exc .ValueError)
    | "self.rate_limiter.enable", [] =>
      if env "self.rate_limiter" = some (.meth "RateLimiter") then .ok (env.set "self.rate_limiter.enabled" (pbool true))
      else .error (.exc .AttributeError)
    | "self.rate_limiter.disable", [] =>
      if env "self.rate_limiter" = some (.meth "RateLimiter") then .ok (env.set "self.rate_limiter.enabled" (pbool false))
      else .error (.exc .AttributeError)
    | n, _ => .error (.unsupported ("call " ++ n))

/-- what `load_params` reads -/
structure LoadEnv (msFc msCf : Int) (br win : PV) (enable : Bool) (env : Env) : Prop where
  fc : env "self.params.rx_flowcontrol_timeout" = some (pint msFc)
  cf : env "self.params.rx_consecutive_frame_timeout" = some (pint msCf)
  br : env "self.params.rate_limit_max_bitrate" = some br
  win : env "self.params.rate_limit_window_size" = some win
  en : env "self.params.rate_limit_enable" = some (pbool enable)

/-- the environment `load_params` leaves -/
def loadEnv (msFc msCf : Int) (enable : Bool) (env : Env) : Env :=
  (((env.set "self.timer_rx_fc" (timerObj msFc 1000)).set "self.timer_rx_cf" (timerObj msCf 1000)).set
    "self.rate_limiter" (.meth "RateLimiter")).set "self.rate_limiter.enabled" (pbool enable)

namespace Send
abbrev LS (n : Nat) : PStmt := nth Src.TransportLayerLogic_load_params n
abbrev LR (n : Nat) : PBlock := drop Src.TransportLayerLogic_load_params n

theorem truediv_1000 (x : Int) : evalBinop .truediv (pint x) (pint 1000) = .ok (.sc (.py (.float x 1000))) := rfl

/-- `self.<t> = Timer(timeout=float(self.params.<p>) / 1000)` -/
theorem timer_stmt (valid : Bool) (br win : PV) (env : Env) (t p : String) (ms : Int) (h : env p = some (pint ms)) :
    execStmt (loadMeths valid br win) env
      (.assign t (.call "Timer#timeout" (.cons (.binop .truediv (.call "float" (.cons (.var p) .nil)) (.int 1000)) .nil))) =
      .ok (.next (env.set t (timerObj ms 1000))) := by
  have hf : ∀ (i : Int) e, (loadMeths valid br win).fn "float" [pint i] e = .ok (pint i) := fun _ _ => rfl
  have ht : ∀ (n : Int) (d : Nat) e, (loadMeths valid br win).fn "Timer#timeout" [.sc (.py (.float n d))] e = .ok (timerObj n d) :=
    fun _ _ _ => rfl
  simp [execStmt, eval, evalArgs, h, evalBuiltin_none "float" _ (by decide), evalBuiltin_none "Timer#timeout" _ (by decide), hf,
    truediv_1000, ht]
end Send

/-- **`load_params`**, for all parameter values: `ValueError` when `validate()` raises; otherwise `None` and `loadEnv` -/
theorem load_params_agrees (valid : Bool) (msFc msCf : Int) (br win : PV) (enable : Bool) (env : Env)
    (hE : LoadEnv msFc msCf br win enable env) :
    runFn (loadMeths valid br win) env Src.TransportLayerLogic_load_params =
      if valid then .ok (pnone, loadEnv msFc msCf enable env) else .error (.exc .ValueError) := by
  have hv : ∀ e, (loadMeths valid br win).proc "self.params.validate" [] e = if valid then .ok e else .error (.exc .ValueError) :=
    fun _ => rfl
  have s0 : execStmt (loadMeths valid br win) env (LS 0) = if valid then .ok (.next env) else .error (.exc .ValueError) := by
    cases valid <;>
    simp [LS, nth, Src.TransportLayerLogic_load_params, execStmt, evalArgs, evalBuiltin_none "self.params.validate" _ (by decide), hv]
  cases valid with
  | false => exact runFn_err (step_err (b := Src.TransportLayerLogic_load_params) (n := 0) rfl s0)
  | true =>
    simp only [if_true] at s0 ⊢
    have hr : ∀ e, (loadMeths true br win).fn "RateLimiter#mean_bitrate#window_size_sec" [br, win] e = .ok (.meth "RateLimiter") := by
      intro e
      show (if br = br ∧ win = win then Except.ok (PV.meth "RateLimiter") else _) = _
      rw [if_pos ⟨rfl, rfl⟩]
    have s3 : execStmt (loadMeths true br win)
        ((env.set "self.timer_rx_fc" (timerObj msFc 1000)).set "self.timer_rx_cf" (timerObj msCf 1000)) (LS 3) =
        .ok (.next (((env.set "self.timer_rx_fc" (timerObj msFc 1000)).set "self.timer_rx_cf" (timerObj msCf 1000)).set
          "self.rate_limiter" (.meth "RateLimiter"))) := by
      simp [LS, nth, Src.TransportLayerLogic_load_params, execStmt, eval, evalArgs, set_get, hE.br, hE.win,
        evalBuiltin_none "RateLimiter#mean_bitrate#window_size_sec" _ (by decide), hr]
    have hen : ∀ e, e "self.rate_limiter" = some (.meth "RateLimiter") →
        (loadMeths true br win).proc "self.rate_limiter.enable" [] e = .ok (e.set "self.rate_limiter.enabled" (pbool true)) := by
      intro e he
      show (if e "self.rate_limiter" = some (.meth "RateLimiter") then Except.ok (e.set "self.rate_limiter.enabled" (pbool true))
        else _) = _
      rw [if_pos he]
    have hdis : ∀ e, e "self.rate_limiter" = some (.meth "RateLimiter") →
        (loadMeths true br win).proc "self.rate_limiter.disable" [] e = .ok (e.set "self.rate_limiter.enabled" (pbool false)) := by
      intro e he
      show (if e "self.rate_limiter" = some (.meth "RateLimiter") then Except.ok (e.set "self.rate_limiter.enabled" (pbool false))
        else _) = _
      rw [if_pos he]
    have s4 : execStmt (loadMeths true br win)
        (((env.set "self.timer_rx_fc" (timerObj msFc 1000)).set "self.timer_rx_cf" (timerObj msCf 1000)).set
          "self.rate_limiter" (.meth "RateLimiter")) (LS 4) = .ok (.next (loadEnv msFc msCf enable env)) := by
      have he3 : (((env.set "self.timer_rx_fc" (timerObj msFc 1000)).set "self.timer_rx_cf" (timerObj msCf 1000)).set
          "self.rate_limiter" (.meth "RateLimiter")) "self.rate_limiter" = some (.meth "RateLimiter") := by simp [set_get]
      cases enable <;>
      simp [LS, nth, Src.TransportLayerLogic_load_params, execStmt, execBlock, eval, evalArgs, set_get, hE.en,
        evalBuiltin_none "self.rate_limiter.enable" _ (by decide), evalBuiltin_none "self.rate_limiter.disable" _ (by decide),
        hen _ he3, hdis _ he3, loadEnv]
    apply runFn_next
    show execBlock _ env (LR 0) = _
    rw [step_next rfl s0]
    rw [step_next (b := Src.TransportLayerLogic_load_params) (n := 1) rfl
      (timer_stmt true br win env "self.timer_rx_fc" "self.params.rx_flowcontrol_timeout" msFc hE.fc)]
    rw [step_next (b := Src.TransportLayerLogic_load_params) (n := 2) rfl
      (timer_stmt true br win _ "self.timer_rx_cf" "self.params.rx_consecutive_frame_timeout" msCf (by simp [set_get, hE.cf]))]
    rw [step_next rfl s3, step_next rfl s4]
    rfl

/-- what `loadEnv` shows: the two timers are stopped, their timeouts are the parameters in seconds, the limiter's flag is the model's
    `(State.init c a).rl.enabled` when `rate_limit_enable` is `c.rlEnable` -/
theorem loadEnv_shows (msFc msCf : Int) (c : Cfg) (a : Addr) (env : Env) :
    loadEnv msFc msCf c.rlEnable env "self.timer_rx_fc" = some (.list [.py .none, .py (.float msFc 1000)]) ∧
    loadEnv msFc msCf c.rlEnable env "self.timer_rx_cf" = some (.list [.py .none, .py (.float msCf 1000)]) ∧
    loadEnv msFc msCf c.rlEnable env "self.rate_limiter" = some (.meth "RateLimiter") ∧
    loadEnv msFc msCf c.rlEnable env "self.rate_limiter.enabled" = some (pbool (State.init c a).rl.enabled) ∧
    (State.init c a).timerFc.start = none ∧ (State.init c a).timerCf.start = none ∧
    ∀ k, k ∉ ["self.timer_rx_fc", "self.timer_rx_cf", "self.rate_limiter", "self.rate_limiter.enabled"] →
      loadEnv msFc msCf c.rlEnable env k = env k := by
  refine ⟨by simp [loadEnv, set_get, timerObj], by simp [loadEnv, set_get, timerObj], by simp [loadEnv, set_get],
    by simp [loadEnv, set_get, State.init], rfl, rfl, ?_⟩
  intro k hk
  simp only [List.mem_cons, List.not_mem_nil, or_false, not_or] at hk
  simp [loadEnv, set_get, hk]

example : LoadEnv 1000 1000 (pint 100000000) (.sc (.py (.float 1 5))) false
    (envOf [("self.params.rx_flowcontrol_timeout", pint 1000), ("self.params.rx_consecutive_frame_timeout", pint 1000),
      ("self.params.rate_limit_max_bitrate", pint 100000000), ("self.params.rate_limit_window_size", .sc (.py (.float 1 5))),
      ("self.params.rate_limit_enable", pbool false)]) := ⟨rfl, rfl, rfl, rfl, rfl⟩

/-! ## E. `FiniteByteGenerator`

  `remaining_size` / `depleted` / `total_length` are in LayerTxHelpers.lean (`fbg_*_agrees`).  `__init__`
  (`Src.FiniteByteGenerator_init`), which `send` reaches through `SendRequest.__init__`: -/

/-- `isinstance(gen, types.GeneratorType)`, given -/
def fbgInitMeths (isGen : Bool) : Meths where
  fn := fun name args _ =>
    match name, args with
    | "isinstance_GeneratorType", [_] => .ok (pbool isGen)
    | n, _ => .error (.unsupported ("call " ++ n))
  proc := fun n _ _ => .error (.unsupported ("call " ++ n))

/-- the declared size: accepted exactly when it is a non-negative `int` (`bool` counts, as in Python) -/
def sizeOk (v : PV) : Bool :=
  match v with
  | .sc sc => sc.isInt && decide (0 ≤ sc.intVal)
  | _ => false

/-- **`FiniteByteGenerator.__init__(gen, size)`** for EVERY value of `size`: `ValueError` when `gen` is not a generator, when `size` is
    not an `int`, or when it is negative; otherwise the object of a fresh request: `_size = size`, `_consumed = 0`, `_depleted = False`
    (the model's `Req` with `consumed := 0`, `depletedFlag := false`) -/
theorem fbg_init_agrees (isGen : Bool) (gen sizev : PV) (env : Env) (h1 : env "gen" = some gen) (h2 : env "size" = some sizev) :
    runFn (fbgInitMeths isGen) env Src.FiniteByteGenerator_init =
      if isGen && sizeOk sizev then
        .ok (pnone, (((env.set "self._gen" gen).set "self._size" sizev).set "self._consumed" (pint 0)).set "self._depleted" (pbool false))
      else .error (.exc .ValueError) := by
  have hg : ∀ v e, (fbgInitMeths isGen).fn "isinstance_GeneratorType" [v] e = .ok (pbool isGen) := fun _ _ => rfl
  cases isGen with
  | false =>
    simp [runFn, Src.FiniteByteGenerator_init, execBlock, execStmt, eval, evalArgs, h1,
      evalBuiltin_none "isinstance_GeneratorType" _ (by decide), hg]
  | true =>
    have s0 : execStmt (fbgInitMeths true) env (nth Src.FiniteByteGenerator_init 0) = .ok (.next env) := by
      simp [nth, Src.FiniteByteGenerator_init, execBlock, execStmt, eval, evalArgs, h1,
        evalBuiltin_none "isinstance_GeneratorType" _ (by decide), hg]
    have hb : ∀ v, evalBuiltin "isinstance_int" [v] = some (.ok (pbool (match v with | .sc s => s.isInt | _ => false))) := by
      intro v; cases v <;> simp [evalBuiltin]
    have s1 : execStmt (fbgInitMeths true) env (nth Src.FiniteByteGenerator_init 1) =
        if (match sizev with | .sc s => s.isInt | _ => false) then .ok (.next env) else .error (.exc .ValueError) := by
      simp only [nth, Src.FiniteByteGenerator_init, execStmt, eval, evalArgs, h2, ok_bind, hb, truthy_pbool, execBlock]
      cases (match sizev with | .sc s => s.isInt | _ => false) <;> rfl
    show runFn _ env (drop Src.FiniteByteGenerator_init 0) = _
    unfold runFn
    rw [step_next rfl s0]
    cases sizev with
    | sc sc =>
      cases hi : sc.isInt with
      | false =>
        simp only [hi] at s1
        rw [step_err rfl s1]
        simp [sizeOk, hi]
      | true =>
        simp only [hi] at s1
        rw [step_next rfl s1]
        -- an `int` (or `bool`): the comparison with 0 is defined
        have hcmp : evalCmp .lt (.sc sc) (pint 0) = .ok (pbool (decide (sc.intVal < 0))) := by
          cases sc with
          | enum c m => simp [Sc.isInt] at hi
          | py v =>
            cases v <;> simp [Sc.isInt, PyVal.isInt] at hi <;>
            simp [evalCmp, isNumber, numLt, PyVal.isInt, PyVal.intVal, Sc.intVal, Except.map] <;> rfl
        have s2 : execStmt (fbgInitMeths true) env (nth Src.FiniteByteGenerator_init 2) =
            if sc.intVal < 0 then .error (.exc .ValueError) else .ok (.next env) := by
          simp only [nth, Src.FiniteByteGenerator_init, execStmt, eval, h2, ok_bind, hcmp, truthy_pbool, execBlock]
          by_cases hc : sc.intVal < 0 <;> simp [hc]
        by_cases hc : sc.intVal < 0
        · rw [if_pos hc] at s2
          rw [step_err rfl s2]
          have : ¬ (0 ≤ sc.intVal) := by omega
          simp [sizeOk, hi, this]
        · rw [if_neg hc] at s2
          rw [step_next rfl s2]
          have : 0 ≤ sc.intVal := by omega
          simp [sizeOk, hi, this, drop, Src.FiniteByteGenerator_init, execBlock, execStmt, eval, h1, h2, set_get]
    | list xs => simp only at s1; rw [step_err rfl s1]; simp [sizeOk]
    | bytes b => simp only at s1; rw [step_err rfl s1]; simp [sizeOk]
    | str b => simp only at s1; rw [step_err rfl s1]; simp [sizeOk]
    | meth b => simp only at s1; rw [step_err rfl s1]; simp [sizeOk]

/-- the constructor primitive of `sendMeths` raises exactly when `FiniteByteGenerator.__init__` does on a generator and the declared
    size `a.size` -/
theorem sendMeths_ctor_is_fbg_init (s : State) (a : State.SendArgs) (dv gen : PV) (t : Tat) (env e : Env)
    (h1 : e "gen" = some gen) (h2 : e "size" = some (pint a.size)) :
    ((sendMeths s a).fn "self.SendRequest#data#target_address_type" [dv, tatPV t] env = .error (.exc .ValueError)) ↔
    (runFn (fbgInitMeths true) e Src.FiniteByteGenerator_init = .error (.exc .ValueError)) := by
  rw [meths_ctor, fbg_init_agrees true gen (pint a.size) e h1 h2]
  have : sizeOk (pint a.size) = decide (0 ≤ a.size) := by
    simp [sizeOk, Sc.isInt, Sc.intVal, PyVal.isInt, PyVal.intVal]; rfl
  by_cases hc : a.size < 0
  · have h0 : ¬ 0 ≤ a.size := by omega
    simp [hc, this, h0]
  · have h0 : 0 ≤ a.size := by omega
    simp [hc, this, h0]

#print axioms Isotp.PyAgree.send_split
#print axioms Isotp.PyAgree.send_model_outcomes
#print axioms Isotp.PyAgree.send_agrees
#print axioms Isotp.PyAgree.send_raises_iff
#print axioms Isotp.PyAgree.send_rejected_state
#print axioms Isotp.PyAgree.send_accepted_state
#print axioms Isotp.PyAgree.send_enqueues
#print axioms Isotp.PyAgree.sendEnv_frame
#print axioms Isotp.PyAgree.sendEnv_callback
#print axioms Isotp.PyAgree.send_nonblocking
#print axioms Isotp.PyAgree.send_blocking_enqueues_then_raises
#print axioms Isotp.PyAgree.sendEnvOf_ok
#print axioms Isotp.PyAgree.complete_agrees
#print axioms Isotp.PyAgree.complete_records_done
#print axioms Isotp.PyAgree.setAddrMeths_partial_is_source
#print axioms Isotp.PyAgree.Send.reserved_test
#print axioms Isotp.PyAgree.set_address_agrees
#print axioms Isotp.PyAgree.set_address_sym_agrees
#print axioms Isotp.PyAgree.set_address_asym_agrees
#print axioms Isotp.PyAgree.set_address_rejects_non_address
#print axioms Isotp.PyAgree.setAddrEnv_frame
#print axioms Isotp.PyAgree.load_params_agrees
#print axioms Isotp.PyAgree.loadEnv_shows
#print axioms Isotp.PyAgree.fbg_init_agrees
#print axioms Isotp.PyAgree.sendMeths_ctor_is_fbg_init

end Isotp.PyAgree
