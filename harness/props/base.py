"""Base class of the per-property modules."""
import core


def _dejson(o):
    if isinstance(o, dict):
        if '__bytes__' in o and len(o) == 1:
            return bytes.fromhex(o['__bytes__'])
        return {k: _dejson(v) for k, v in o.items()}
    if isinstance(o, list):
        return [_dejson(x) for x in o]
    return o


class PropBase:
    id = None
    lean_modules = []
    agree = []
    theorems = []
    keep_ops = ('layer',)
    rule = ''
    assumptions = []
    extra_trusted = []

    # how many scenarios per shard for each tier (multiplied by budget_scale)
    quick_per_shard = 100
    thorough_per_shard = 2500

    # the per-class quick_per_shard values were calibrated for ~1-2 s runs; the quick tier runs three times that
    QUICK_MULT = 3

    # probability that a random scenario gets partial passes mixed in: process(do_rx=False) / process(do_tx=False) are public, the threaded
    # layer itself runs transmit-only passes, and "any timing of process() calls" includes them (C10 names them).  A full pass is either
    # kept or gets an extra transmit-only pass before and / or after it.  Receive-only passes are NOT mixed in: no property quantifies over
    # them and a Flow Control read by one can be lost (DESIGN 11.3, observation `C10.fc_lost_witness`).
    partial_passes = 0.0
    # probability that, in addition, receive-only passes process(do_tx=False) are put IN FRONT of full passes of a scenario with partial passes
    # (same instant, always followed by the full pass, so every pending transmission is still served at that instant).  Only enabled for
    # single-endpoint properties whose judge was checked to be indifferent to how the reading is batched.
    rx_only_passes = 0.0

    # probability that a random scenario is turned into a CORRESPONDENCE-ONLY scenario in which some full passes become receive-only passes
    # (the transmitting half is put off until the next full pass, possibly much later).  No property quantifies over such schedules, so no
    # judge is applied to them (`no_judge`); the model, whose `process` takes the same two flags, must still agree with the code there.
    rx_only_gaps = 0.0

    def mix_rx_only_gaps(self, rng, sc):
        p = self.rx_only_gaps
        if not p or rng.random() >= p or sc.get('no_model'):
            return None
        q = rng.choice([0.15, 0.4, 0.8])
        ops, n = [], 0
        start = (sc.get('judge_view') or {}).get('skip', 0)
        for k, op in enumerate(sc['ops']):
            if k >= start and op.get('op') == 'process' and 'rx' not in op and 'tx' not in op and rng.random() < q:
                ops.append(dict(op, tx=False))
                n += 1
            else:
                ops.append(op)
        if not n:
            return None
        sc = dict(sc, ops=ops, no_judge=True)
        sc['tags'] = list(sc.get('tags', [])) + ['rx_only_gaps']
        return sc

    # probability that the layer of a single-endpoint scenario is first constructed with ANOTHER address, receives a short multi-frame message
    # there (so that anything derived from the address - cached flags, cached Flow Control frames - exists), and is then moved to the address
    # the scenario is about with the documented set_address().  The judges see the scenario as if the layer had been constructed with the
    # final address (`judge_view`); the model (driver op `setaddr`) sees everything.
    address_change = 0.0

    def mix_address_change(self, rng, sc):
        import gen
        import ref
        if not self.address_change or rng.random() >= self.address_change or sc.get('no_model'):
            return sc
        ops = sc['ops']
        if 'judge_view' in sc:
            return sc
        # the first layer op for layer 0 (pure address / option probes may come before it)
        pos = next((k for k, o in enumerate(ops) if o.get('op') == 'layer'), None)
        if pos is None or ops[pos].get('i') != 0 or ops[pos].get('cls') is not None or any(
                o.get('op') not in ('addr', 'ifm', 'params', 'specseg', 'specreasm') for o in ops[:pos]):
            return sc
        first = ops[pos]
        other, _ = gen.rand_addr_pair(rng, asym_prob=0.2)
        params = dict(first.get('params') or {})
        pre = [dict(first, addr=other)]
        if not params.get('listen_mode') and rng.random() < 0.8:
            try:
                rxh = ref.half(other, 'rx')
                px = gen.rx_match_frame(other, b'\x00')[2][:1] if ref.rx_prefix_len(rxh) else b''
                frames = ref.foreign_stream(bytes(range(1, 11)), 8, prefix=px, last='min')
                fid, ext, _ = gen.rx_match_frame(other, b'')
                for fr in frames:
                    pre.append({'op': 'frame', 'i': 0, 'id': fid, 'ext': ext, 'data': fr})
                    pre.append({'op': 'process', 'i': 0})
                pre.append({'op': 'recv', 'i': 0})
                pre.append({'op': 'recv', 'i': 0})
            except Exception:
                pre = [dict(first, addr=other)]
        pre.append({'op': 'set_address', 'i': 0, 'addr': first['addr']})
        pre = [dict(o, keep=True) for o in pre]
        head = [dict(op, _o=j) for j, op in enumerate(ops[:pos])]
        rest = [dict(op, _o=pos + 1 + j) for j, op in enumerate(ops[pos + 1:])]      # index in the scenario as generated
        sc = dict(sc, ops=head + pre + rest, judge_view={'pos': pos, 'skip': pos + len(pre), 'layer_op': dict(first, _o=pos)})
        sc['tags'] = list(sc.get('tags', [])) + ['address_change']
        return sc

    @staticmethod
    def judge_view(sc, li, lo):
        """(scenario, lines_in, lines_out) as the judge should see them"""
        jv = sc.get('judge_view')
        if not jv:
            return sc, li, lo
        k, p = jv['skip'], jv.get('pos', 0)
        if len(li) < k or (k <= len(lo) and not lo[k - 1].split('|')[1:2] == ['ok']):
            return sc, li, lo
        return dict(sc, ops=sc['ops'][:p] + [jv['layer_op']] + sc['ops'][k:]), li[:p] + [li[p]] + li[k:], lo[:p] + ['ok'] + lo[k:]

    def mix_partial_passes(self, rng, sc):
        sc = self.mix_address_change(rng, sc)
        g = self.mix_rx_only_gaps(rng, sc)
        if g is not None:
            return g
        if not self.partial_passes or rng.random() >= self.partial_passes:
            return sc
        with_rx = rng.random() < self.rx_only_passes and not sc.get('no_rx_only')
        q = rng.choice([0.1, 0.3, 0.8])
        ops = []
        n = 0
        start = (sc.get('judge_view') or {}).get('skip', 0)
        for k, op in enumerate(sc['ops']):
            op = dict(op, _o=op.get('_o', k))         # index in the scenario as generated (judges that reason with op indices map through it)
            if k < start or op.get('op') != 'process' or 'rx' in op or 'tx' in op or rng.random() >= q:
                ops.append(op)
                continue
            n += 1
            txo = dict(op, rx=False)
            how = rng.randrange(5 if with_rx else 3)
            if how >= 3:
                ops += [dict(op, tx=False)] * (how - 2) + [op]
            elif how == 0:
                ops += [txo, op]
            elif how == 1:
                ops += [op, txo]
            else:
                ops += [txo, op, txo]
        if n:
            sc = dict(sc, ops=ops)
            sc.setdefault('tags', [])
            sc['tags'] = list(sc['tags']) + ['partial_passes']
        return sc

    def budget(self, tier, scale):
        n = self.quick_per_shard * self.QUICK_MULT if tier == 'quick' else self.thorough_per_shard
        return max(1, int(n * scale))

    def corpus(self):
        """minimised past failures and the witnesses of the repaired defects: corpus/<id>/*.json (replay format); run first"""
        import os, json, glob
        d = os.path.join(os.path.dirname(os.path.dirname(os.path.dirname(os.path.abspath(__file__)))), 'corpus', self.id or '')
        out = []
        for f in sorted(glob.glob(os.path.join(d, '*.json'))):
            try:
                obj = _dejson(json.load(open(f)))
            except Exception:
                continue
            sc = obj.get('scenario')
            if sc and 'ops' in sc:
                out.append(sc)
        return out

    def enumerate(self, tier):
        """small-scope exhaustive part (deterministic): every scenario of a bounded family; sharded by index"""
        return iter(())

    def generate(self, rng, tier, shard, nshards, scale):
        if shard == 0:
            for sc in self.corpus():
                yield sc
        for k, sc in enumerate(self.enumerate(tier)):
            if k % nshards == shard:
                sc.setdefault('tags', []).append('enumerated')
                yield sc
        for k in range(self.budget(tier, scale)):
            yield self.mix_partial_passes(rng, self.scenario(rng, tier))

    def scenario(self, rng, tier):
        raise NotImplementedError

    def run_impl(self, sc):
        return core.run_impl(sc['ops'])

    def project(self, op_line, out_line):
        return out_line

    def judge(self, sc, lines_in, impl_out):
        return []

    def nontrivial_key(self, sc, lines_in, impl_out):
        return None

    def tally(self, dist, sc, lines_in, impl_out):
        if 'enumerated' in sc.get('tags', ()):
            dist['enumerated_scenarios'] = dist.get('enumerated_scenarios', 0) + 1
        if 'rx_only_gaps' in sc.get('tags', ()):
            dist['correspondence_only_scenarios_with_receive_only_passes'] = dist.get('correspondence_only_scenarios_with_receive_only_passes', 0) + 1
        if 'address_change' in sc.get('tags', ()):
            dist['scenarios_with_set_address'] = dist.get('scenarios_with_set_address', 0) + 1
        if 'partial_passes' in sc.get('tags', ()):
            dist['scenarios_with_partial_passes'] = dist.get('scenarios_with_partial_passes', 0) + 1
        for l in lines_in:
            k = 'op:' + l.split(' ', 1)[0]
            dist[k] = dist.get(k, 0) + 1


# ---- helpers to parse output lines -------------------------------------------------------------

def parse_out(line):
    """'<events>|<result>|<status>' -> (events list, result, status dict)   (plain lines -> ([], line, {}))"""
    parts = line.split('|')
    if len(parts) != 3:
        return [], line, {}
    evs = [e for e in parts[0].split(';') if e]
    st = {}
    for kv in parts[2].split():
        k, _, v = kv.partition('=')
        st[k] = v
    return evs, parts[1], st


def ev_tx(e):
    """'tx@t:id:ext:dlc:fd:brs:hex' -> dict or None"""
    if not e.startswith('tx@'):
        return None
    t, i, ext, dlc, fd, brs, hx = e[3:].split(':')
    return {'t': int(t), 'id': int(i), 'ext': ext == '1', 'dlc': int(dlc), 'fd': fd == '1', 'brs': brs == '1',
            'data': b'' if hx == '-' else bytes.fromhex(hx)}


def ev_err(e):
    if not e.startswith('err@'):
        return None
    t, name = e[4:].split(':')
    return {'t': int(t), 'name': name}


def unhex(h):
    return b'' if h == '-' else bytes.fromhex(h)
