import Isotp.Proofs.NetRecv
/-
  Network-level safety (C01 / C10), part 4b: the receiving role when only the TIMEOUT errors are excluded.

  `InGood c a m`: what the layer needs to know about a frame `m` it reads from the bus — if its address filter accepts
  it, then (1) if it has N_PCI type 3, it decodes as a Flow Control with status ContinueToSend, and (2) if it decodes as
  a First Frame, the announced length is admitted by `max_frame_size`.
  `RecvInv2`: as `RecvInv`, under "no timeout reported" and "every frame read or still in the inbox is `InGood`".
-/
namespace Isotp.NetP
open Isotp Isotp.State

/-- one of the two timeout errors (N_Cr at the receiver, N_Bs at the sender) -/
def Ev.isTimeout : Ev → Bool
  | .err _ .ConsecutiveFrameTimeout => true
  | .err _ .FlowControlTimeout => true
  | _ => false

/-- no timeout error was reported -/
def noT (evs : List Ev) : Bool := evs.all (fun e => !Ev.isTimeout e)

theorem noT_append (a b : List Ev) : noT (a ++ b) = (noT a && noT b) := by simp [noT]
theorem noT_reverse (a : List Ev) : noT a.reverse = noT a := by simp [noT]
theorem noT_cons (e : Ev) (l : List Ev) : noT (e :: l) = (!Ev.isTimeout e && noT l) := by simp [noT]

theorem noT_of_noErr (l : List Ev) (h : noErr l = true) : noT l = true := by
  simp only [noErr, noT, List.all_eq_true] at h ⊢
  intro e he
  have := h e he
  cases e <;> simp_all [Ev.isErr, Ev.isTimeout]

theorem IntExt.noT {l l' : List Ev} (h : IntExt l l') (L : List Ev) (hn : NetP.noT (l' ++ L) = true) :
    NetP.noT (l ++ L) = true := by
  obtain ⟨new, rfl, _⟩ := h
  rw [List.append_assoc, noT_append] at hn
  exact (Bool.and_eq_true _ _ ▸ hn).2

def InGood (c : Cfg) (a : Addr) (m : CanMsg) : Prop :=
  a.rx.isForMe m = true →
    (isFc a.rx.rxPrefixSize m = true →
      ∃ bs stm cdl rdl, decode m.data a.rx.rxPrefixSize = some ⟨.fc 0 bs stm, cdl, rdl⟩) ∧
    (∀ len data esc cdl rdl, decode m.data a.rx.rxPrefixSize = some ⟨.ff len data esc, cdl, rdl⟩ →
      len ≤ c.maxFrameSize)

/-- **Receiver invariant, timeouts only.** -/
def RecvInv2 (c : Cfg) (a : Addr) (s : State) (L : List Ev) : Prop :=
  noT (s.log ++ L) = true → (∀ m ∈ seen s L, InGood c a m) →
    Rx.Feeds (State.init c a) (fed a (s.log ++ L).reverse) (relog s L)

theorem RecvInv2.neutral {c : Cfg} {a : Addr} {s s' : State} {L : List Ev} (h : RecvInv2 c a s L)
    (hs : Rx.RxSame s s') (hl : IntExt s.log s'.log) (hseen : seen s' L = seen s L) : RecvInv2 c a s' L := by
  intro hn hg
  have := h (hl.noT L hn) (by rw [← hseen]; exact hg)
  rw [hl.fed a L]
  exact feeds_same this (rxSame_relog hs L)

theorem checkTimeoutsRx_noT (s : State) (L : List Ev) (h : noT (s.checkTimeoutsRx.log ++ L) = true) :
    s.checkTimeoutsRx = s := by
  cases ht : s.timerCf.timedOut s.now with
  | false => unfold checkTimeoutsRx; simp [ht]
  | true =>
    rw [Rx.checkTimeoutsRx_expired s ht] at h
    simp [noT, Ev.isTimeout] at h

theorem mem_seen_head (s : State) (L : List Ev) (dt : Nat) (m : CanMsg) (rest : List (Nat × CanMsg))
    (hin : s.inbox = (dt, m) :: rest) : m ∈ seen s L := by
  unfold seen
  rw [hin]
  simp

theorem RecvInv2.frame {c : Cfg} {a : Addr} {s : State} {L : List Ev} (h : RecvInv2 c a s L)
    (dt : Nat) (m : CanMsg) (rest : List (Nat × CanMsg)) (hin : s.inbox = (dt, m) :: rest) :
    RecvInv2 c a (rxOne s dt m rest) L := by
  intro hn hg
  rw [seen_step L s _ (Micro.frame s dt m rest hin)] at hg
  have hgm := hg m (mem_seen_head s L dt m rest hin)
  have hn2 : noT ((arrive s dt m rest).checkTimeoutsRx.log ++ L) = true := (rxOne_log2 s dt m rest).noT L hn
  have hct := checkTimeoutsRx_noT _ L hn2
  have hn1 : noT ((arrive s dt m rest).log ++ L) = true := by rw [hct] at hn2; exact hn2
  have hn0 : noT (s.log ++ L) = true := by
    rw [arrive_log, List.cons_append, noT_cons] at hn1
    exact (Bool.and_eq_true _ _ ▸ hn1).2
  have hF := h hn0 hg
  have haddr : s.addr = a := (Compose.Feeds.cfg_addr hF).2
  have hs1 : Rx.RxSame (relog s L) (relog (arrive s dt m rest) L) := rxSame_relog (rxSame_arrive s dt m rest) L
  have hfed1 := fed_rx a s.log L (s.now + dt) m
  unfold rxOne at hn ⊢
  rw [hct] at hn ⊢
  have ha1 : (arrive s dt m rest).addr = a := haddr
  by_cases hfm : a.rx.isForMe m = true
  · rw [ha1, if_pos hfm] at hn ⊢
    by_cases hfc : isFc a.rx.rxPrefixSize m = true
    · obtain ⟨bs, stm, cdl, rdl, hd⟩ := (hgm hfm).1 hfc
      rw [← ha1] at hd
      rw [Rx.processRx_fc_eq _ m 0 bs stm cdl rdl hd]
      show Rx.Feeds _ (fed a ((arrive s dt m rest).log ++ L).reverse) _
      rw [arrive_log, hfed1, hfm, hfc]
      simp only [Bool.not_true, Bool.and_false, Bool.false_eq_true, if_false, List.append_nil]
      refine feeds_same hF (Rx.RxSame.trans hs1 ?_)
      exact Rx.rxView_congr _ _ rfl rfl rfl rfl rfl rfl rfl rfl rfl
    · have hfc' : isFc a.rx.rxPrefixSize m = false := by simpa using hfc
      have hlog := IntExt.of_rx (RxFrame.processRx (arrive s dt m rest) m).log
      rw [hlog.fed a L, arrive_log, hfed1, hfm, hfc']
      simp only [Bool.not_false, Bool.and_true, if_true]
      have := feeds_snoc hF hs1 m
      rwa [relog_processRx] at this
  · rw [ha1, if_neg hfm] at hn ⊢
    have hfm' : a.rx.isForMe m = false := by simpa using hfm
    rw [arrive_log, hfed1, hfm']
    simp only [Bool.false_and, Bool.false_eq_true, if_false, List.append_nil]
    exact feeds_same hF hs1

theorem RecvInv2.step {c : Cfg} {a : Addr} {L : List Ev} (s s' : State) (h : RecvInv2 c a s L) (hm : Micro s s') :
    RecvInv2 c a s' L := by
  have hseen := seen_step L s s' hm
  cases hm with
  | frame dt m rest hin => exact h.frame dt m rest hin
  | rxEnd hin =>
    intro hn hg
    have hct := checkTimeoutsRx_noT _ L hn
    have hn' := hn
    unfold rxEnd at hn' hg hseen ⊢
    rw [hct] at hn' hg hseen ⊢
    have hl : IntExt s.log ((({ s with inbox := [] } : State).emit (.rxNone s.now))).log := IntExt.cons _ _ rfl
    refine RecvInv2.neutral h ?_ hl hseen hn' hg
    show Rx.rxView _ = Rx.rxView s
    rw [Rx.rxView_emit_rxNone]
    exact Rx.rxView_congr _ _ rfl rfl rfl rfl rfl rfl rfl rfl rfl
  | rl =>
    exact RecvInv2.neutral h (Rx.rxView_congr _ _ rfl rfl rfl rfl rfl rfl rfl rfl rfl) (IntExt.refl _) hseen
  | tx hx =>
    have hs1 : seen s.processTx.1 L = seen s L := by
      unfold seen
      rw [(processTx_log s).rxOf L, (TxFrame.processTx s).inbox]
    have h1 : RecvInv2 c a s.processTx.1 L := RecvInv2.neutral h (Rx.rxSame_processTx s) (processTx_log s) hs1
    unfold afterTxfn at hseen ⊢
    cases ho : s.processTx.2.1 with
    | none => exact h1
    | some m =>
      rw [ho] at hseen
      intro hn hg
      have hn1 : noT (s.processTx.1.log ++ L) = true := by
        have : (s.processTx.1.emit (.tx s.processTx.1.now m)).log = .tx s.processTx.1.now m :: s.processTx.1.log := rfl
        simp only [] at hn
        rw [this, List.cons_append, noT_cons] at hn
        exact (Bool.and_eq_true _ _ ▸ hn).2
      simp only [] at hg hseen
      have hF := h1 hn1 (by rw [hs1, ← hseen]; exact hg)
      have hfed : fed a ((s.processTx.1.emit (.tx s.processTx.1.now m)).log ++ L).reverse =
          fed a (s.processTx.1.log ++ L).reverse := by
        show fed a (Ev.tx _ m :: s.processTx.1.log ++ L).reverse = _
        simp [fed, rxOf, List.filterMap_append]
      simp only []
      rw [hfed]
      exact feeds_same hF (rxSame_relog (Rx.rxView_emit_txev _ _ _) L)
  | txExc hx => exact RecvInv2.neutral h (Rx.rxSame_processTx s) (processTx_log s) hseen

theorem RecvInv2.process {c : Cfg} {a : Addr} {L : List Ev} (s : State) (doRx doTx : Bool) (h : RecvInv2 c a s L) :
    RecvInv2 c a (s.process doRx doTx).1 L :=
  process_ind (fun x => RecvInv2 c a x L) (fun x y hx hm => RecvInv2.step x y hx hm) doRx doTx s h

end Isotp.NetP
