import Isotp.Proofs.NetFcBase
/-
  Network-level C01, "neither side reports an error" — part 3: the SENDER LAW and the block discipline along the
  micro-steps of `process()`; consequence: `handleFc` never takes the `txState = idle` branch.
-/
namespace Isotp.NetP
open Isotp Isotp.State

/-! ### arithmetic of the positions -/

theorem step_pos (lens : List Nat) (e : Nat) (h : e + 1 ≤ total lens) :
    (1 ≤ posIn lens (e + 1) → posIn lens (e + 1) = posIn lens e + 1 ∧ posIn lens e + 1 < lenAt lens e) ∧
    (posIn lens (e + 1) = 0 → posIn lens e + 1 = lenAt lens e) := by
  have hlt := posIn_lt_lenAt lens e (by omega)
  by_cases hc : posIn lens e + 1 < lenAt lens e
  · have := (posIn_succ_in lens e hc).1
    exact ⟨fun _ => ⟨this, hc⟩, fun h0 => by omega⟩
  · have he : posIn lens e + 1 = lenAt lens e := by omega
    have := posIn_succ_last lens e he
    exact ⟨fun h1 => by omega, fun _ => he⟩

theorem markAt_last (bs : Nat) (lens : List Nat) (e : Nat) (h : posIn lens e + 1 = lenAt lens e) :
    markAt bs lens e = false := by
  unfold markAt fcPt
  rw [← h]; simp

theorem markAt_mid (bs : Nat) (lens : List Nat) (e : Nat) (h1 : 1 ≤ posIn lens e)
    (h2 : posIn lens e + 1 < lenAt lens e) :
    markAt bs lens e = (decide (0 < bs) && posIn lens e % bs == 0) := by
  unfold markAt fcPt
  have : (posIn lens e == 0) = false := by simp; omega
  simp [h2, this]

/-- the step over a frame that is the last of its message adds no FC point -/
theorem need_succ_last (bs : Nat) (lens : List Nat) (e : Nat) (h : posIn lens e + 1 = lenAt lens e) :
    need bs lens (e + 1) = need bs lens e := by
  rw [need_succ, markAt_last bs lens e h]; simp

/-- the step over a Consecutive Frame inside a message, block counter `c` before the step -/
theorem need_succ_cf (bs : Nat) (lens : List Nat) (e c : Nat) (hK : 1 ≤ posIn lens e)
    (hin : posIn lens e + 1 < lenAt lens e) (hc : 0 < bs → c < bs ∧ (posIn lens e - 1) % bs = c) :
    need bs lens (e + 1) = need bs lens e + (if 0 < bs ∧ c + 1 = bs then 1 else 0) ∧
      (0 < bs → posIn lens e % bs = (c + 1) % bs) := by
  rw [need_succ, markAt_mid bs lens e hK hin]
  by_cases hb : 0 < bs
  · obtain ⟨h1, h2⟩ := hc hb
    have h3 := succ_mod_of_pred _ bs c hK h2
    have h4 := mod_self_of_le c bs hb (by omega)
    refine ⟨?_, fun _ => h3⟩
    by_cases h5 : c + 1 = bs
    · have : posIn lens e % bs = 0 := by rw [h3]; exact h4.mpr h5
      simp [hb, h5, this]
    · have : posIn lens e % bs ≠ 0 := by rw [h3]; exact fun h => h5 (h4.mp h)
      simp [hb, h5, this]
  · simp [hb]

/-! ### where the transmit FSM is in the stream -/

/-- position of the transmit FSM against the number `e` of data frames emitted -/
def Pos (lens : List Nat) (e : Nat) (st : TxSt) : Prop :=
  e ≤ total lens ∧
  ((posIn lens e = 0 ∧ (st = .idle ∨ st = .sfStandby ∨ st = .ffStandby)) ∨
   (1 ≤ posIn lens e ∧ e < total lens ∧ (st = .waitFc ∨ st = .transmitCf)))

theorem segA_pos (c : Cfg) (a : Addr) (p : Bytes) : 0 < (segA c a p).length := by
  rcases Proofs.Seg.segment_cases (Spec.TxCfg.of c a) p with ⟨-, h⟩ | ⟨-, -, h⟩ | ⟨-, -, h⟩ <;>
    (show 0 < (Spec.segment (Spec.TxCfg.of c a) p).length; rw [h]; simp)

theorem lt_length_of_getElem? {α : Type} (l : List α) (k : Nat) (d : α) (h : l[k]? = some d) : k < l.length := by
  obtain ⟨h1, -⟩ := List.getElem?_eq_some_iff.mp h
  exact h1

/-- **Position lemma.** -/
theorem Progress.pos {c : Cfg} {a : Addr} {mx : Nat} {s : State} {ps o : List Bytes} (hv : c.valid = true)
    (hc : s.cfg = c) (ha : s.addr = a) (h : Progress c a mx s ps o) : Pos (lensOf c a ps) o.length s.txState := by
  subst hc ha
  cases h with
  | idle h1 h2 h3 h4 =>
    rw [h4, ← total_lensOf]
    exact ⟨Nat.le_refl _, Or.inl ⟨posIn_total _, Or.inl h1⟩⟩
  | busy dn rest p r0 rq k h1 h2 h3 h4 h5 h6 h7 =>
    have hk : k < (segA s.cfg s.addr p).length ∧
        ((k = 0 ∧ (s.txState = .idle ∨ s.txState = .sfStandby ∨ s.txState = .ffStandby)) ∨
         (1 ≤ k ∧ (s.txState = .waitFc ∨ s.txState = .transmitCf))) := by
      rcases h4 with ⟨hk, hst, -⟩ | ⟨hk, d0, hd0, -, hq | hq⟩ | ⟨hk, hff, hcar, -, -, -, hst⟩
      · subst hk; exact ⟨segA_pos _ _ _, Or.inl ⟨rfl, Or.inl hst⟩⟩
      · subst hk; exact ⟨segA_pos _ _ _, Or.inl ⟨rfl, Or.inr (Or.inl hq.1)⟩⟩
      · subst hk; exact ⟨segA_pos _ _ _, Or.inl ⟨rfl, Or.inr (Or.inr hq.1)⟩⟩
      · have := Proofs.segment_ff_succ _ (Proofs.valid_of s.cfg s.addr hv) p hff k hk
        rw [if_pos hcar] at this
        refine ⟨lt_length_of_getElem? _ _ _ this, Or.inr ⟨hk, ?_⟩⟩
        rcases hst with h | h
        · exact Or.inl h
        · exact Or.inr h.1
    obtain ⟨hk1, hk2⟩ := hk
    have hlen : o.length = total (lensOf s.cfg s.addr dn) + k := by
      rw [h5, List.length_append, List.length_take, total_lensOf, Nat.min_eq_left (by omega)]
    have hl : lensOf s.cfg s.addr ps = lensOf s.cfg s.addr dn ++ (segA s.cfg s.addr p).length :: lensOf s.cfg s.addr rest := by
      rw [h1, lensOf_append]; rfl
    obtain ⟨p1, p2⟩ := posIn_mid (lensOf s.cfg s.addr dn) _ (lensOf s.cfg s.addr rest) k hk1
    have htot : total (lensOf s.cfg s.addr ps) =
        total (lensOf s.cfg s.addr dn) + ((segA s.cfg s.addr p).length + total (lensOf s.cfg s.addr rest)) := by
      rw [hl]; simp [total]
    unfold Pos
    rw [hlen, htot]
    rw [hl, p1]
    refine ⟨by omega, ?_⟩
    rcases hk2 with ⟨hk0, hst⟩ | ⟨hk0, hst⟩
    · exact Or.inl ⟨hk0, hst⟩
    · exact Or.inr ⟨hk0, by omega, hst⟩

/-! ### only `handleFc` reports `UnexpectedFlowControlError` -/

theorem stopSending_ufc (s : State) (b : Bool) (t : Nat) (h : Ev.err t .UnexpectedFlowControl ∈ (s.stopSending b).log) :
    Ev.err t .UnexpectedFlowControl ∈ s.log := by
  revert h
  unfold stopSending
  cases s.active <;> simp [emit]

theorem handleFc_ufc (s : State) (f : FcFrame) (t : Nat) (h : Ev.err t .UnexpectedFlowControl ∈ (s.handleFc f).log) :
    Ev.err t .UnexpectedFlowControl ∈ s.log ∨ s.txState = .idle := by
  have h1 := stopSending_ufc
  revert h
  unfold handleFc
  grind [State.error, emit, startRxFcTimer]

theorem txFc_ufc (s : State) (t : Nat) (h : Ev.err t .UnexpectedFlowControl ∈ (C12.txFc s).1.log) :
    Ev.err t .UnexpectedFlowControl ∈ s.log ∨ (s.lastFc.isSome = true ∧ s.txState = .idle) := by
  have h1 := stopSending_ufc
  have h2 := handleFc_ufc
  revert h
  unfold C12.txFc
  grind [State.error, emit]

theorem txTimeout_ufc (s : State) (t : Nat) (h : Ev.err t .UnexpectedFlowControl ∈ (C12.txTimeout s).log) :
    Ev.err t .UnexpectedFlowControl ∈ s.log := by
  have h1 := stopSending_ufc
  revert h
  unfold C12.txTimeout
  grind [State.error, emit]

theorem txDepl_ufc (s : State) (t : Nat) (h : Ev.err t .UnexpectedFlowControl ∈ (C12.txDepl s).log) :
    Ev.err t .UnexpectedFlowControl ∈ s.log := by
  have h1 := stopSending_ufc
  revert h
  unfold C12.txDepl
  grind

theorem consumeActive_ufc (s : State) (r : Req) (n : Nat) (e : Bool) (t : Nat)
    (h : Ev.err t .UnexpectedFlowControl ∈ (s.consumeActive r n e).1.log) : Ev.err t .UnexpectedFlowControl ∈ s.log := by
  revert h
  unfold consumeActive
  grind [emit]

theorem sfTail_ufc (s : State) (r : Req) (b : Bool) (allowed : Nat) (res : Option Bytes) (t : Nat)
    (h : Ev.err t .UnexpectedFlowControl ∈ (C12.sfTail s r b allowed res).1.log) :
    Ev.err t .UnexpectedFlowControl ∈ s.log := by
  have h1 := stopSending_ufc
  revert h
  unfold C12.sfTail
  grind [State.error, State.raise, emit]

theorem ffTail_ufc (s : State) (total : Nat) (allowed : Nat) (res : Option Bytes) (t : Nat)
    (h : Ev.err t .UnexpectedFlowControl ∈ (C12.ffTail s total allowed res).1.log) :
    Ev.err t .UnexpectedFlowControl ∈ s.log := by
  have h1 := stopSending_ufc
  revert h
  unfold C12.ffTail
  grind [State.error, State.raise, emit, startRxFcTimer]

theorem startTx_ufc (s : State) (r : Req) (allowed : Nat) (t : Nat)
    (h : Ev.err t .UnexpectedFlowControl ∈ (s.startTx r allowed).1.log) : Ev.err t .UnexpectedFlowControl ∈ s.log := by
  rw [C12.startTx_eq] at h
  split at h
  · exact consumeActive_ufc _ _ _ _ _ (sfTail_ufc _ _ _ _ _ _ h)
  · have h1 := ffTail_ufc _ _ _ _ _ h
    exact consumeActive_ufc ({ s with txFrameLen := r.size } : State) _ _ _ _ h1

theorem readTxQueue_ufc (allowed : Nat) (q : List Req) (t : Nat) : ∀ s : State,
    Ev.err t .UnexpectedFlowControl ∈ (s.readTxQueue allowed q).1.log → Ev.err t .UnexpectedFlowControl ∈ s.log := by
  induction q with
  | nil => intro s h; exact h
  | cons r rest ih =>
    intro s h
    cases hd : r.depleted
    · rw [C12.readTxQueue_start _ _ _ _ hd] at h
      have := startTx_ufc _ _ _ _ h
      exact this
    · rw [C12.readTxQueue_depl _ _ _ _ hd] at h
      have := ih _ h
      simpa using this

theorem cfTail_ufc (s : State) (r' : Req) (rbs : Nat) (res : Option Bytes) (t : Nat)
    (h : Ev.err t .UnexpectedFlowControl ∈ (C12.cfTail s r' rbs res).1.log) : Ev.err t .UnexpectedFlowControl ∈ s.log := by
  have h1 := stopSending_ufc
  revert h
  unfold C12.cfTail
  grind [State.error, State.raise, emit, startRxFcTimer]

theorem transmitCf_ufc (s : State) (allowed : Nat) (t : Nat)
    (h : Ev.err t .UnexpectedFlowControl ∈ (s.transmitCf allowed).1.log) : Ev.err t .UnexpectedFlowControl ∈ s.log := by
  rw [C12.transmitCf_eq] at h
  split at h
  · exact h
  · exact h
  · split at h
    · split at h
      · exact consumeActive_ufc _ _ _ _ _ (cfTail_ufc _ _ _ _ _ h)
      · exact h
    · exact h

theorem txFsm_ufc (s : State) (allowed : Nat) (t : Nat)
    (h : Ev.err t .UnexpectedFlowControl ∈ (C12.txFsm s allowed).1.log) : Ev.err t .UnexpectedFlowControl ∈ s.log := by
  have h1 := stopSending_ufc
  have h2 := transmitCf_ufc s allowed
  have h3 := readTxQueue_ufc allowed s.txQueue t s
  revert h
  unfold C12.txFsm
  grind [startRxFcTimer]

/-- **Only `handleFc` in IDLE reports `UnexpectedFlowControlError`.** -/
theorem processTx_ufc (s : State) (t : Nat) (h : Ev.err t .UnexpectedFlowControl ∈ s.processTx.1.log) :
    Ev.err t .UnexpectedFlowControl ∈ s.log ∨ (s.lastFc.isSome = true ∧ s.txState = .idle) := by
  have hf := C12.txPend_fields s
  have hl := txPend_lastFc s
  rw [C12.processTx_eq] at h
  split at h
  · rename_i s1 hp; rw [hp] at hf; left; rw [← hf.2.2.2.2.1]; exact h
  · rename_i s1 msg hp; rw [hp] at hf; left; rw [← hf.2.2.2.2.1]; exact h
  · rename_i s1 hp
    rw [hp] at hf hl
    simp only [] at hf hl
    have a2 := txFc_ufc s1 t
    rw [hf.2.2.2.2.1, hl, hf.2.2.2.2.2.2.2.2] at a2
    split at h
    · rename_i s2 hfc; rw [hfc] at a2; exact a2 h
    · rename_i s2 hfc
      rw [hfc] at a2
      apply a2
      split at h
      · exact txTimeout_ufc _ _ h
      · rw [C12.txFinish_log] at h
        exact txTimeout_ufc _ _ (txDepl_ufc _ _ (txFsm_ufc _ _ _ h))

/-! ### the view (`txState`, `txBlockCnt`, `remoteBs`) along the stages of `_process_tx` -/

/-- after a pass that had no message in transmission or the first frame parked: the FSM is not in TRANSMIT_CF, and it
    is in WAIT_FC only if a frame (the First Frame) was returned -/
def StartView (s1 : State) (out : Option CanMsg) : Prop :=
  s1.txState ≠ .transmitCf ∧ (s1.txState = .waitFc → out.isSome = true)

/-- after a pass in TRANSMIT_CF with block counter `c` and announced block size `rbs`: the transfer ended, or the
    counter went up by the number of frames returned and the FSM waits for a Flow Control exactly at a block boundary -/
def CfView (c rbs : Nat) (s1 : State) (out : Option CanMsg) : Prop :=
  s1.txState = .idle ∨
  (s1.remoteBs = some rbs ∧
   ((out = none ∧ s1.txBlockCnt = c) ∨ (out.isSome = true ∧ s1.txBlockCnt = c + 1)) ∧
   ((s1.txState = .transmitCf ∧ (out.isSome = true → ¬ (rbs ≠ 0 ∧ s1.txBlockCnt ≥ rbs))) ∨
    (s1.txState = .waitFc ∧ rbs ≠ 0 ∧ s1.txBlockCnt ≥ rbs)))

theorem stopSending_txState (s : State) (b : Bool) : (s.stopSending b).txState = .idle :=
  (C12.stopSending_fields s b).2.2.2.2.1

theorem consumeActive_view (s : State) (r : Req) (n : Nat) (e : Bool) :
    (s.consumeActive r n e).1.txState = s.txState ∧ (s.consumeActive r n e).1.txBlockCnt = s.txBlockCnt ∧
    (s.consumeActive r n e).1.remoteBs = s.remoteBs := by
  unfold consumeActive
  grind [emit]

theorem sfTail_view (s : State) (r : Req) (b : Bool) (allowed : Nat) (res : Option Bytes) (h : s.txState = .idle) :
    StartView (C12.sfTail s r b allowed res).1 (C12.sfTail s r b allowed res).2 := by
  have h1 := stopSending_txState
  unfold StartView C12.sfTail
  grind [State.error, State.raise, emit]

theorem ffTail_view (s : State) (total : Nat) (allowed : Nat) (res : Option Bytes) (h : s.txState = .idle) :
    StartView (C12.ffTail s total allowed res).1 (C12.ffTail s total allowed res).2 := by
  have h1 := stopSending_txState
  unfold StartView C12.ffTail
  grind [State.error, State.raise, emit, startRxFcTimer]

theorem startTx_view (s : State) (r : Req) (allowed : Nat) (h : s.txState = .idle) :
    StartView (s.startTx r allowed).1 (s.startTx r allowed).2 := by
  rw [C12.startTx_eq]
  split
  · exact sfTail_view _ _ _ _ _ ((consumeActive_view s _ _ _).1.trans h)
  · exact ffTail_view _ _ _ _ ((consumeActive_view ({ s with txFrameLen := r.size } : State) _ _ _).1.trans h)

theorem readTxQueue_view (allowed : Nat) (q : List Req) : ∀ s : State, s.txState = .idle →
    StartView (s.readTxQueue allowed q).1 (s.readTxQueue allowed q).2 := by
  induction q with
  | nil => intro s h; exact ⟨by show s.txState ≠ _; rw [h]; decide, by intro hw; have : s.txState = .waitFc := hw; rw [h] at this; cases this⟩
  | cons r rest ih =>
    intro s h
    cases hd : r.depleted
    · rw [C12.readTxQueue_start _ _ _ _ hd]
      exact startTx_view _ _ _ h
    · rw [C12.readTxQueue_depl _ _ _ _ hd]
      exact ih _ h

theorem cfTail_view (s : State) (r' : Req) (rbs : Nat) (res : Option Bytes) (hst : s.txState = .transmitCf)
    (hrb : s.remoteBs = some rbs) :
    CfView s.txBlockCnt rbs (C12.cfTail s r' rbs res).1 (C12.cfTail s r' rbs res).2.1 := by
  have h1 := stopSending_txState
  unfold CfView C12.cfTail
  grind [State.error, State.raise, emit, startRxFcTimer]


theorem transmitCf_view (s : State) (allowed : Nat) (rbs : Nat) (hst : s.txState = .transmitCf)
    (hrb : s.remoteBs = some rbs) :
    CfView s.txBlockCnt rbs (s.transmitCf allowed).1 (s.transmitCf allowed).2.1 := by
  have stay : CfView s.txBlockCnt rbs s none := Or.inr ⟨hrb, Or.inl ⟨rfl, rfl⟩, Or.inl ⟨hst, by simp⟩⟩
  have stayR : ∀ x, CfView s.txBlockCnt rbs (s.raise x) none := fun x => Or.inr ⟨hrb, Or.inl ⟨rfl, rfl⟩, Or.inl ⟨hst, by simp⟩⟩
  rw [C12.transmitCf_eq]
  split
  · exact stayR _
  · exact stayR _
  · rename_i rbs' r hr ha
    have : rbs' = rbs := by rw [hrb] at hr; exact (Option.some.inj hr).symm
    subst this
    split
    · split
      · obtain ⟨c1, c2, c3⟩ := consumeActive_view s r (C12.cfLen s r) false
        have := cfTail_view (s.consumeActive r (C12.cfLen s r) false).1 (s.consumeActive r (C12.cfLen s r) false).2.1 rbs'
          (s.consumeActive r (C12.cfLen s r) false).2.2 (c1.trans hst) (c3.trans hrb)
        rw [c2] at this
        exact this
      · exact stay
    · exact stay

theorem txFsm_view_start (s : State) (allowed : Nat)
    (h : s.txState = .idle ∨ s.txState = .sfStandby ∨ s.txState = .ffStandby) :
    StartView (C12.txFsm s allowed).1 (C12.txFsm s allowed).2.1 := by
  have h1 := stopSending_txState
  have h3 := readTxQueue_view allowed s.txQueue s
  unfold C12.txFsm
  unfold StartView at *
  grind [startRxFcTimer]

theorem txFsm_view_wait (s : State) (allowed : Nat) (h : s.txState = .waitFc) :
    C12.txFsm s allowed = (s, none, false) := by
  unfold C12.txFsm
  rw [h]

theorem txFsm_view_cf (s : State) (allowed : Nat) (rbs : Nat) (hst : s.txState = .transmitCf)
    (hrb : s.remoteBs = some rbs) :
    CfView s.txBlockCnt rbs (C12.txFsm s allowed).1 (C12.txFsm s allowed).2.1 := by
  have := transmitCf_view s allowed rbs hst hrb
  unfold C12.txFsm
  rw [hst]
  exact this

theorem txFinish_view (x : State × Option CanMsg × Bool) (h : (C12.txFinish x).1.exc = none) :
    (C12.txFinish x).1.txState = x.1.txState ∧ (C12.txFinish x).1.txBlockCnt = x.1.txBlockCnt ∧
    (C12.txFinish x).1.remoteBs = x.1.remoteBs ∧ (C12.txFinish x).2.1 = x.2.1 := by
  revert h
  unfold C12.txFinish
  grind

theorem txTimeout_id (s : State) (h : s.timerFc.timedOut s.now = false) : C12.txTimeout s = s := by
  unfold C12.txTimeout; simp [h]

/-- the "depleted and nothing in standby" line does not fire -/
def NoDepl (s : State) : Prop :=
  s.txState = .idle ∨ s.standby.isSome = true ∨ ∀ r, s.active = some r → r.depleted = false

theorem txDepl_id (s : State) (h : NoDepl s) : C12.txDepl s = s := by
  unfold C12.txDepl
  rcases h with h | h | h
  · simp [h]
  · cases hs : s.standby with
    | none => rw [hs] at h; cases h
    | some m => simp
  · cases ha : s.active with
    | none => simp
    | some r => simp [h r ha]

theorem noDepl_of_txInv {s : State} {r0 : Req} {p : Bytes} {k : Nat} (hfr : Proofs.Fresh r0 p)
    (hi : Proofs.TxInv s r0 p k) : NoDepl s := by
  have := Proofs.TxInv.not_depleted hfr hi
  cases hs : s.standby with
  | some m => exact Or.inr (Or.inl (by rw [hs]; rfl))
  | none =>
    right; right
    intro r hr
    rw [hr, hs] at this
    simpa using this

theorem txFc_snd (s : State) (hmail : MailOk s) : (C12.txFc s).2 = false := by
  unfold C12.txFc
  cases hf : s.lastFc with
  | none => rfl
  | some f =>
    have := hmail f hf
    simp [this]

theorem handleFc_cts (s : State) (f : FcFrame) (h0 : f.status = 0) (hw : s.txState = .waitFc) :
    (s.timerFc.timedOut s.now = true → s.handleFc f = s) ∧
    (s.timerFc.timedOut s.now = false → (s.handleFc f).txState = .transmitCf ∧ (s.handleFc f).txBlockCnt = 0 ∧
      (s.handleFc f).remoteBs = some f.bs ∧ (s.handleFc f).active = s.active ∧ (s.handleFc f).standby = s.standby) := by
  unfold handleFc
  constructor
  · intro ht
    simp [h0, hw, ht]
  · intro ht
    simp [h0, hw, ht]

/-- the mailbox stage: nothing in the mailbox, or the ContinueToSend found there while the FSM is in WAIT_FC and the
    timer has not expired leads to TRANSMIT_CF with a fresh block counter and the announced block size -/
theorem txFc_view (s : State) (hmail : MailOk s) (hkey : s.lastFc.isSome = true → s.txState = .waitFc)
    (hto : (C12.txFc s).1.timerFc.timedOut (C12.txFc s).1.now = false) :
    (C12.txFc s).1.active = s.active ∧ (C12.txFc s).1.standby = s.standby ∧
    ((s.lastFc = none ∧ (C12.txFc s).1.txState = s.txState ∧ (C12.txFc s).1.txBlockCnt = s.txBlockCnt ∧
        (C12.txFc s).1.remoteBs = s.remoteBs) ∨
     (∃ f, s.lastFc = some f ∧ (C12.txFc s).1.txState = .transmitCf ∧ (C12.txFc s).1.txBlockCnt = 0 ∧
        (C12.txFc s).1.remoteBs = some f.bs)) := by
  cases hf : s.lastFc with
  | none =>
    have e : C12.txFc s = ({ s with lastFc := none }, false) := by unfold C12.txFc; rw [hf]
    rw [e]
    exact ⟨rfl, rfl, Or.inl ⟨rfl, rfl, rfl, rfl⟩⟩
  | some f =>
    have h0 := hmail f hf
    have hw := hkey (by rw [hf]; rfl)
    have e : C12.txFc s = (({ s with lastFc := none } : State).handleFc f, false) := by
      unfold C12.txFc; rw [hf]; simp [h0]
    obtain ⟨c1, c2⟩ := handleFc_cts ({ s with lastFc := none } : State) f h0 hw
    rw [e] at hto ⊢
    cases ht : s.timerFc.timedOut s.now with
    | true =>
      rw [c1 ht] at hto
      rw [ht] at hto; cases hto
    | false =>
      obtain ⟨d1, d2, d3, d4, d5⟩ := c2 ht
      exact ⟨d4, d5, Or.inr ⟨f, rfl, d1, d2, d3⟩⟩

theorem txPend_data (s : State) (hfc : Proofs.FcOk s) (hd : Proofs.fcPass s = false) : (C12.txPend s).2 = none := by
  unfold Proofs.FcOk at hfc
  unfold Proofs.fcPass at hd
  unfold C12.txPend
  grind [State.raise, startRxCfTimer]

theorem txPend_view (s : State) :
    (C12.txPend s).1.txBlockCnt = s.txBlockCnt ∧ (C12.txPend s).1.remoteBs = s.remoteBs := by
  constructor <;> (unfold C12.txPend; grind [State.raise, startRxCfTimer])

theorem StartView.congr {s1 s1' : State} {out out' : Option CanMsg} (h1 : s1'.txState = s1.txState) (h4 : out' = out)
    (h : StartView s1 out) : StartView s1' out' := by
  unfold StartView at *; rw [h1, h4]; exact h

theorem CfView.congr {c rbs : Nat} {s1 s1' : State} {out out' : Option CanMsg} (h1 : s1'.txState = s1.txState)
    (h2 : s1'.txBlockCnt = s1.txBlockCnt) (h3 : s1'.remoteBs = s1.remoteBs) (h4 : out' = out)
    (h : CfView c rbs s1 out) : CfView c rbs s1' out' := by
  unfold CfView at *; rw [h1, h2, h3, h4]; exact h

/-- **View lemma.** One data pass of `_process_tx` (no Flow Control to send first) that raises no exception and
    reports no `FlowControlTimeoutError`, from a state where a Flow Control in the mailbox has status ContinueToSend
    (`MailOk`) and is expected (`hkey`), and where the request in transmission is not depleted (`NoDepl`):
    the mailbox is empty afterwards, and the view (`txState`, `txBlockCnt`, `remoteBs`) and the returned frame are
    related to the view before as `StartView` / `CfView` say. -/
theorem tx_view (s : State) (hfc : Proofs.FcOk s) (hd : Proofs.fcPass s = false) (hmail : MailOk s)
    (hkey : s.lastFc.isSome = true → s.txState = .waitFc) (hdep : NoDepl s)
    (hexc : s.processTx.1.exc = none) (hnt : ∀ t, Ev.err t .FlowControlTimeout ∉ s.processTx.1.log) :
    s.processTx.1.lastFc = none ∧
    ((s.txState = .idle ∨ s.txState = .sfStandby ∨ s.txState = .ffStandby) →
      StartView s.processTx.1 s.processTx.2.1) ∧
    (s.txState = .waitFc → s.lastFc = none → s.processTx.1.txState = .waitFc ∧ s.processTx.2.1 = none) ∧
    (s.txState = .waitFc → ∀ f, s.lastFc = some f → CfView 0 f.bs s.processTx.1 s.processTx.2.1) ∧
    (s.txState = .transmitCf → ∀ rbs, s.remoteBs = some rbs →
      CfView s.txBlockCnt rbs s.processTx.1 s.processTx.2.1) := by
  have e := C12.processTx_eq s
  have hf := C12.txPend_fields s
  have hl := txPend_lastFc s
  have hv := txPend_view s
  obtain ⟨s0, hs0⟩ : ∃ s0, C12.txPend s = (s0, none) := ⟨(C12.txPend s).1, Prod.ext rfl (txPend_data s hfc hd)⟩
  rw [hs0] at e hf hl hv
  simp only [] at e hf hl hv
  obtain ⟨-, -, -, -, -, a0, sb0, -, st0⟩ := hf
  obtain ⟨bc0, rb0⟩ := hv
  have hmail0 : MailOk s0 := by intro f h; rw [hl] at h; exact hmail f h
  have hkey0 : s0.lastFc.isSome = true → s0.txState = .waitFc := by rw [hl, st0]; exact hkey
  obtain ⟨s2, hs2⟩ : ∃ s2, C12.txFc s0 = (s2, false) := ⟨(C12.txFc s0).1, Prod.ext rfl (txFc_snd s0 hmail0)⟩
  have hl2 : s2.lastFc = none := by have := txFc_lastFc s0; rw [hs2] at this; exact this
  rw [hs2] at e
  simp only [] at e
  by_cases hA : ((C12.txTimeout s2).txState ≠ .idle && (C12.txTimeout s2).active.isNone) = true
  · rw [if_pos hA] at e
    rw [e] at hexc
    simp [State.raise] at hexc
  · rw [if_neg hA] at e
    have hto : s2.timerFc.timedOut s2.now = false := by
      cases ht : s2.timerFc.timedOut s2.now with
      | false => rfl
      | true =>
        exfalso
        have h1 : Ev.err s2.now .FlowControlTimeout ∈ (C12.txTimeout s2).log := by
          unfold C12.txTimeout; rw [if_pos ht]
          exact (C12.stopSending_sfx _ _).subset (by simp [State.error, emit])
        have h2 := ((C12.txDepl_sfx _).trans (C12.txFsm_sfx _ (s.rl.allowedBytes s.cfg.rlBitMax))).subset h1
        rw [← C12.txFinish_log, ← e] at h2
        exact hnt _ h2
    have hv2 := txFc_view s0 hmail0 hkey0 (by rw [hs2]; exact hto)
    rw [hs2] at hv2
    simp only [] at hv2
    obtain ⟨a2, sb2, hcase⟩ := hv2
    rw [hl, st0, bc0, rb0] at hcase
    have hdep2 : NoDepl s2 := by
      rcases hdep with h | h | h
      · left
        rcases hcase with ⟨-, h2, -⟩ | ⟨f, hf, -⟩
        · rw [h2]; exact h
        · have := hkey (by rw [hf]; rfl)
          rw [h] at this; cases this
      · right; left; rw [sb2, sb0]; exact h
      · right; right; rw [a2, a0]; exact h
    rw [txTimeout_id s2 hto, txDepl_id s2 hdep2] at e
    obtain ⟨f1, f2, f3, f4⟩ := txFinish_view (C12.txFsm s2 (s.rl.allowedBytes s.cfg.rlBitMax)) (by rw [← e]; exact hexc)
    rw [← e] at f1 f2 f3 f4
    have hlf : s.processTx.1.lastFc = none := by rw [e, txFinish_lastFc, txFsm_lastFc]; exact hl2
    have hnone : s.txState ≠ .waitFc → s.lastFc = none := by
      intro hne
      cases hq : s.lastFc with
      | none => rfl
      | some f => exact absurd (hkey (by rw [hq]; rfl)) hne
    have hfirst : s.lastFc = none → s2.txState = s.txState ∧ s2.txBlockCnt = s.txBlockCnt ∧ s2.remoteBs = s.remoteBs := by
      intro hq
      rcases hcase with ⟨-, h⟩ | ⟨f, hf, -⟩
      · exact h
      · rw [hq] at hf; cases hf
    refine ⟨hlf, ?_, ?_, ?_, ?_⟩
    · intro hcl
      have hq := hnone (by rcases hcl with h | h | h <;> (rw [h]; decide))
      obtain ⟨g1, -, -⟩ := hfirst hq
      exact (txFsm_view_start s2 _ (by rw [g1]; exact hcl)).congr f1 f4
    · intro hw hq
      obtain ⟨g1, -, -⟩ := hfirst hq
      have := txFsm_view_wait s2 (s.rl.allowedBytes s.cfg.rlBitMax) (g1.trans hw)
      rw [this] at f1 f4
      exact ⟨f1.trans (g1.trans hw), f4⟩
    · intro hw f hq
      rcases hcase with ⟨h, -⟩ | ⟨f', hf', g1, g2, g3⟩
      · rw [hq] at h; cases h
      · rw [hq] at hf'
        have : f' = f := (Option.some.inj hf').symm
        subst this
        have := txFsm_view_cf s2 (s.rl.allowedBytes s.cfg.rlBitMax) f'.bs g1 g3
        rw [g2] at this
        exact this.congr f1 f2 f3 f4
    · intro ht rbs hrb
      have hq := hnone (by rw [ht]; decide)
      obtain ⟨g1, g2, g3⟩ := hfirst hq
      have := txFsm_view_cf s2 (s.rl.allowedBytes s.cfg.rlBitMax) rbs (g1.trans ht) (g3.trans hrb)
      rw [g2] at this
      exact this.congr f1 f2 f3 f4

/-! ### the law across one data pass (arithmetic) -/

/-- the law after a pass, as far as it depends on the pass (the mailbox is empty afterwards) -/
def LawAfter (bs : Nat) (lens : List Nat) (e' R : Nat) (s1 : State) : Prop :=
  need bs lens e' ≤ R + (if s1.txState = .waitFc then 1 else 0) ∧
  (s1.txState = .transmitCf → s1.remoteBs = some bs ∧
    (0 < bs → s1.txBlockCnt < bs ∧ (posIn lens e' - 1) % bs = s1.txBlockCnt)) ∧
  (s1.txState = .waitFc → 0 < bs → (posIn lens e' - 1) % bs = 0)

theorem law_start (bs : Nat) (lens : List Nat) (e R d : Nat) (s1 : State) (out : Option CanMsg)
    (hd : d = if out.isSome = true then 1 else 0) (hK : posIn lens e = 0) (hpos1 : Pos lens (e + d) s1.txState)
    (hv : StartView s1 out) (hsl : need bs lens e ≤ R) : LawAfter bs lens (e + d) R s1 := by
  obtain ⟨v1, v2⟩ := hv
  cases out with
  | none =>
    have hw : s1.txState ≠ .waitFc := fun h => by have := v2 h; cases this
    have hd0 : d = 0 := by simpa using hd
    subst hd0
    exact ⟨by rw [if_neg hw]; exact hsl, fun h => absurd h v1, fun h => absurd h hw⟩
  | some m =>
    have hd1 : d = 1 := by simpa using hd
    subst hd1
    obtain ⟨p1, p2⟩ := step_pos lens e hpos1.1
    by_cases hw : s1.txState = .waitFc
    · have hK' : 1 ≤ posIn lens (e + 1) := by
        rcases hpos1.2 with ⟨-, h | h | h⟩ | ⟨h, -⟩
        · rw [hw] at h; cases h
        · rw [hw] at h; cases h
        · rw [hw] at h; cases h
        · exact h
      obtain ⟨q1, -⟩ := p1 hK'
      refine ⟨by rw [if_pos hw]; have := need_le_succ bs lens e; omega, fun h => absurd h v1, fun _ _ => ?_⟩
      rw [q1, hK]; exact Nat.zero_mod _
    · have hK' : posIn lens (e + 1) = 0 := by
        rcases hpos1.2 with ⟨h, -⟩ | ⟨-, -, h | h⟩
        · exact h
        · exact absurd h hw
        · exact absurd h v1
      have := need_succ_last bs lens e (p2 hK')
      exact ⟨by rw [if_neg hw, this]; exact hsl, fun h => absurd h v1, fun h => absurd h hw⟩

theorem law_cf (bs : Nat) (lens : List Nat) (e R d c : Nat) (s1 : State) (out : Option CanMsg)
    (hd : d = if out.isSome = true then 1 else 0) (hK : 1 ≤ posIn lens e) (hpos1 : Pos lens (e + d) s1.txState)
    (hc : 0 < bs → c < bs ∧ (posIn lens e - 1) % bs = c) (hv : CfView c bs s1 out) (hsl : need bs lens e ≤ R) :
    LawAfter bs lens (e + d) R s1 := by
  rcases hv with hi | ⟨hrb, hcnt, hst⟩
  · -- the transfer ended
    have hw : s1.txState ≠ .waitFc := by rw [hi]; decide
    have ht : s1.txState ≠ .transmitCf := by rw [hi]; decide
    have hK' : posIn lens (e + d) = 0 := by
      rcases hpos1.2 with ⟨h, -⟩ | ⟨-, -, h | h⟩
      · exact h
      · exact absurd h hw
      · exact absurd h ht
    refine ⟨?_, fun h => absurd h ht, fun h => absurd h hw⟩
    rw [if_neg hw]
    cases out with
    | none =>
      have hd0 : d = 0 := by simpa using hd
      subst hd0; exact hsl
    | some m =>
      have hd1 : d = 1 := by simpa using hd
      subst hd1
      rw [need_succ_last bs lens e ((step_pos lens e hpos1.1).2 hK')]; exact hsl
  · rcases hcnt with ⟨ho, hcn⟩ | ⟨ho, hcn⟩
    · -- no frame
      subst ho
      have hd0 : d = 0 := by simpa using hd
      subst hd0
      rcases hst with ⟨ht, -⟩ | ⟨hw, hb, hge⟩
      · have hw : s1.txState ≠ .waitFc := by rw [ht]; decide
        exact ⟨by rw [if_neg hw]; exact hsl, fun _ => ⟨hrb, fun hb => by rw [hcn]; exact hc hb⟩, fun h => absurd h hw⟩
      · have := (hc (by omega)).1
        omega
    · -- one Consecutive Frame
      have hd1 : d = 1 := by
        cases out with
        | none => cases ho
        | some m => simpa using hd
      subst hd1
      have hK' : 1 ≤ posIn lens (e + 1) := by
        rcases hpos1.2 with ⟨-, h | h | h⟩ | ⟨h, -⟩
        · rcases hst with ⟨g, -⟩ | ⟨g, -⟩ <;> (rw [g] at h; cases h)
        · rcases hst with ⟨g, -⟩ | ⟨g, -⟩ <;> (rw [g] at h; cases h)
        · rcases hst with ⟨g, -⟩ | ⟨g, -⟩ <;> (rw [g] at h; cases h)
        · exact h
      obtain ⟨q1, q2⟩ := (step_pos lens e hpos1.1).1 hK'
      obtain ⟨n1, n2⟩ := need_succ_cf bs lens e c hK q2 hc
      have hpred : posIn lens (e + 1) - 1 = posIn lens e := by omega
      rcases hst with ⟨ht, hno⟩ | ⟨hw, hb, hge⟩
      · have hw : s1.txState ≠ .waitFc := by rw [ht]; decide
        have hno' := hno ho
        rw [hcn] at hno'
        have hlt : 0 < bs → c + 1 < bs := by
          intro hb
          cases Nat.lt_or_ge (c + 1) bs with
          | inl h => exact h
          | inr h => exact absurd ⟨by omega, h⟩ hno'
        refine ⟨?_, fun _ => ⟨hrb, fun hb => ⟨by rw [hcn]; exact hlt hb, ?_⟩⟩, fun h => absurd h hw⟩
        · rw [if_neg hw, n1, if_neg (by intro h; have := hlt h.1; omega)]; exact hsl
        · rw [hpred, hcn, n2 hb, Nat.mod_eq_of_lt (hlt hb)]
      · have ht : s1.txState ≠ .transmitCf := by rw [hw]; decide
        have hb0 : 0 < bs := by omega
        have hceq : c + 1 = bs := by have := (hc hb0).1; omega
        refine ⟨?_, fun h => absurd h ht, fun _ _ => ?_⟩
        · rw [if_pos hw]; have := need_le_succ bs lens e; omega
        · rw [hpred, n2 hb0, hceq, Nat.mod_self]

/-! ### one transmit pass under the sender invariant -/

/-- no request is completed with failure by a pass that reports no timeout (from `SendInv2.micro`) -/
theorem hnf_of {c : Cfg} {a : Addr} {mx : Nat} {s : State} {L : List Ev} {ps : List Bytes}
    (hok : Send2Ok c a mx s L ps) (hn1 : noT (s.processTx.1.log ++ L) = true) :
    ∀ new, s.processTx.1.log = new ++ s.log → ∀ i, Ev.done i false ∉ new := by
  have hidle := hok.prog.idleC12
  have hbg := Bg.processTx hok.nobg hidle
  intro new hnew i hmem
  obtain ⟨new', hnew', hwhy, -⟩ := Why.processTx s
  have e1 : new' = new := List.append_cancel_right (hnew'.symm.trans hnew)
  subst e1
  have hnt : noT new' = true := by
    rw [hnew, List.append_assoc, noT_append] at hn1
    exact (Bool.and_eq_true _ _ ▸ hn1).1
  rcases hwhy ⟨i, hmem⟩ with ⟨t, ht⟩ | ⟨t, ht⟩ | ⟨f, hf, h2⟩ | ⟨f, hf, h1⟩
  · obtain ⟨new'', hnew'', hno⟩ := hbg.log
    have e2 : new'' = new' := List.append_cancel_right (hnew''.symm.trans hnew)
    subst e2
    exact hno t ht
  · have : noT new' = false := by
      simp only [noT, List.all_eq_false]
      exact ⟨_, ht, by simp [Ev.isTimeout]⟩
    rw [this] at hnt; cases hnt
  · have := hok.mail f hf; omega
  · have := hok.mail f hf; omega

theorem noFct_of (l L : List Ev) (h : noT (l ++ L) = true) : ∀ t, Ev.err t .FlowControlTimeout ∉ l := by
  intro t ht
  have : noT (l ++ L) = false := by
    simp only [noT, List.all_eq_false]
    exact ⟨_, List.mem_append_left _ ht, by simp [Ev.isTimeout]⟩
  rw [this] at h; cases h

/-- a data pass (no Flow Control to send first) that completes no request with failure returns no Flow Control frame -/
theorem data_out_notFc (c : Cfg) (a : Addr) (mx : Nat) (s : State) (ps o : List Bytes) (hsafe : SafeOk s)
    (hcfg : s.cfg = c) (haddr : s.addr = a) (hp : Progress c a mx s ps o)
    (hnf : ∀ new, s.processTx.1.log = new ++ s.log → ∀ i, Ev.done i false ∉ new)
    (hd : Proofs.fcPass s = false) :
    ∀ m, s.processTx.2.1 = some m → isFc a.tx.txPrefix.length m = false := by
  have hvs : s.cfg.valid = true := hsafe.1.cfg_valid
  have hfcok : Proofs.FcOk s := hsafe.1.pend
  have hexc : s.exc = none := hsafe.2
  subst hcfg haddr
  intro m hm
  cases hp with
  | idle h1 h2 h3 h4 =>
    obtain ⟨-, hout⟩ := Quiet.processTx (s := s) ⟨h3, h1, h2⟩
    obtain ⟨hpf, hl, -⟩ := hout m hm
    simp [Proofs.fcPass, hpf, hl] at hd
  | busy dn rest p r0 rq k h1 h2 h3 h4 h5 h6 h7 =>
    have hpass := Proofs.processTx_pass s r0 p k hvs h2.1 h2.2.2.1 h2.2.2.2.1 hexc hfcok hd h4
    rcases hpass with ⟨ho, -⟩ | ⟨d, hdk, ho, -⟩ | ⟨d, hdk, -, ho, -⟩ | hfailed
    · rw [ho] at hm; cases hm
    · rw [ho] at hm
      have := Option.some.inj hm
      subst this
      exact isFc_segment (Spec.TxCfg.of s.cfg s.addr) p _ (List.mem_of_getElem? hdk)
    · rw [ho] at hm
      have := Option.some.inj hm
      subst this
      exact isFc_segment (Spec.TxCfg.of s.cfg s.addr) p _ (List.mem_of_getElem? hdk)
    · obtain ⟨evs, hevs, hmem⟩ := hfailed.log
      exact absurd hmem (hnf evs hevs _)

theorem Progress.noDepl {c : Cfg} {a : Addr} {mx : Nat} {s : State} {ps o : List Bytes} (h : Progress c a mx s ps o) :
    NoDepl s := by
  cases h with
  | idle h1 _ _ _ => exact Or.inl h1
  | busy dn rest p r0 rq k h1 h2 h3 h4 h5 h6 h7 =>
    rcases h4 with ⟨-, hst, -⟩ | hi
    · exact Or.inl hst
    · exact noDepl_of_txInv h2.1 hi

/-! ### the two statements -/

/-- a pass that has no Flow Control to send returns no Flow Control frame -/
theorem tx_out_notFc {c : Cfg} {a : Addr} {mx : Nat} {s : State} {L : List Ev} {ps : List Bytes}
    (hsafe : SafeOk s) (hok : Send2Ok c a mx s L ps) (hn : noT (s.processTx.1.log ++ L) = true)
    (hp : s.pendingFc = false) :
    ∀ m, s.processTx.2.1 = some m → isFc a.tx.txPrefix.length m = false :=
  data_out_notFc c a mx s ps _ hsafe hok.cfg hok.addr hok.prog (hnf_of hok hn) (by simp [Proofs.fcPass, hp])

/-! ### the micro-steps -/

/-- **Key consequence** of the sender law and the FIFO bound: a Flow Control in the mailbox is expected -/
theorem SndFc.key {c : Cfg} {a : Addr} {bs : Nat} {s : State} {L : List Ev} {ps : List Bytes}
    (h : SndFc c a bs s L ps)
    (hcross : fcCount a.rx.rxPrefixSize (seen s L) ≤
      need bs (lensOf c a ps) (dataOut a.tx.txPrefix.length (s.log ++ L).reverse).length) :
    s.lastFc.isSome = true → s.txState = .waitFc := by
  intro hs
  have hsl := h.sl
  have hR : fcCount a.rx.rxPrefixSize (rxOf (s.log ++ L).reverse) ≤ fcCount a.rx.rxPrefixSize (seen s L) := by
    unfold seen; rw [fcCount_append]; omega
  by_cases hw : s.txState = .waitFc
  · exact hw
  · rw [if_pos hs, if_neg hw] at hsl; omega

/-- the law only reads the view, the mailbox and the two histories -/
theorem SndFc.congr {c : Cfg} {a : Addr} {bs : Nat} {s s' : State} {L : List Ev} {ps : List Bytes}
    (h : SndFc c a bs s L ps) (h1 : s'.txState = s.txState) (h2 : s'.txBlockCnt = s.txBlockCnt)
    (h3 : s'.remoteBs = s.remoteBs) (h4 : s'.lastFc = s.lastFc)
    (h5 : dataOut a.tx.txPrefix.length (s'.log ++ L).reverse = dataOut a.tx.txPrefix.length (s.log ++ L).reverse)
    (h6 : rxOf (s'.log ++ L).reverse = rxOf (s.log ++ L).reverse) : SndFc c a bs s' L ps := by
  obtain ⟨a1, a2, a3, a4⟩ := h
  constructor
  · rw [h1, h4, h5, h6]; exact a1
  · rw [h1, h2, h3, h5]; exact a2
  · rw [h1, h5]; exact a3
  · rw [h4]; exact a4

theorem afterTxfn_view (s : State) :
    (afterTxfn s.processTx).txState = s.processTx.1.txState ∧
    (afterTxfn s.processTx).txBlockCnt = s.processTx.1.txBlockCnt ∧
    (afterTxfn s.processTx).remoteBs = s.processTx.1.remoteBs ∧
    (afterTxfn s.processTx).lastFc = s.processTx.1.lastFc := by
  unfold afterTxfn; cases s.processTx.2.1 <;> exact ⟨rfl, rfl, rfl, rfl⟩

theorem afterTxfn_hist (s : State) (k : Nat) (L : List Ev) :
    rxOf ((afterTxfn s.processTx).log ++ L).reverse = rxOf (s.log ++ L).reverse ∧
    dataOut k ((afterTxfn s.processTx).log ++ L).reverse =
      dataOut k (s.log ++ L).reverse ++ outData k s.processTx.2.1 ∧
    (noT ((afterTxfn s.processTx).log ++ L) = true → noT (s.processTx.1.log ++ L) = true) ∧
    (∀ t x, Ev.err t x ∈ (afterTxfn s.processTx).log → Ev.err t x ∈ s.processTx.1.log) := by
  have hlog := processTx_log s
  unfold afterTxfn
  cases ho : s.processTx.2.1 with
  | none =>
    refine ⟨hlog.rxOf L, ?_, id, fun _ _ h => h⟩
    simp only []
    rw [hlog.dataOut k L]; simp [outData]
  | some m =>
    have hlogE : (s.processTx.1.emit (.tx s.processTx.1.now m)).log ++ L =
        Ev.tx s.processTx.1.now m :: s.processTx.1.log ++ L := rfl
    simp only []
    refine ⟨?_, ?_, ?_, ?_⟩
    · rw [hlogE, ← hlog.rxOf L]
      simp [rxOf, List.filterMap_append]
    · rw [← hlog.dataOut k L]
      unfold dataOut outData
      rw [hlogE, txOf_tx_cons, List.filter_append, List.map_append]
      congr 1
      simp only [List.filter_cons, List.filter_nil]
      cases isFc k m <;> simp
    · intro hn
      rw [hlogE, List.cons_append, noT_cons] at hn
      exact (Bool.and_eq_true _ _ ▸ hn).2
    · intro t x hx
      simpa [emit] using hx

theorem afterFcReq_txBlockCnt (s : State) (st : Nat) : (Proofs.afterFcReq s st).txBlockCnt = s.txBlockCnt := by
  unfold Proofs.afterFcReq; split <;> rfl

theorem processRx_txBlockCnt (s : State) (m : CanMsg) : (s.processRx m).1.txBlockCnt = s.txBlockCnt := by
  unfold processRx startReception
  grind [deliver, stopReceiving, State.error, emit, requestFc, startRxCfTimer]

theorem checkTimeoutsRx_txBlockCnt (s : State) : s.checkTimeoutsRx.txBlockCnt = s.txBlockCnt := by
  unfold checkTimeoutsRx; split <;> rfl

theorem rxOne_txBlockCnt (s : State) (dt : Nat) (m : CanMsg) (rest : List (Nat × CanMsg)) :
    (rxOne s dt m rest).txBlockCnt = s.txBlockCnt := by
  unfold rxOne
  split
  · rw [processRx_txBlockCnt, checkTimeoutsRx_txBlockCnt]; rfl
  · rw [checkTimeoutsRx_txBlockCnt]; rfl

/-- **Sender law, one micro-step.** `bs`: the peer's block size; every Flow Control frame read or still in the inbox
    carries it (`hbs`); the Flow Control frames read or still in the inbox are not more than the FC points among the
    data frames emitted so far (`hcross`: FIFO + the peer's receiver law); no timeout is reported (`hn`).
    Then the law holds after the step, and the step reports no `UnexpectedFlowControlError`. -/
theorem SndFc.micro {c : Cfg} {a : Addr} {mx bs : Nat} {s s' : State} {L : List Ev} {ps : List Bytes}
    (hm : Micro s s') (hsafe : SafeOk s) (hok : Send2Ok c a mx s L ps)
    (hbs : ∀ m ∈ seen s L, FcBs a bs m)
    (hcross : fcCount a.rx.rxPrefixSize (seen s L) ≤
      need bs (lensOf c a ps) (dataOut a.tx.txPrefix.length (s.log ++ L).reverse).length)
    (hn : noT (s'.log ++ L) = true)
    (h : SndFc c a bs s L ps) (hu : NoUfc (s.log ++ L)) :
    SndFc c a bs s' L ps ∧ NoUfc (s'.log ++ L) := by
  have hkey := h.key hcross
  cases hm with
  | rl => exact ⟨h.congr rfl rfl rfl rfl rfl rfl, hu⟩
  | rxEnd hin =>
    have hct := checkTimeoutsRx_noT _ L hn
    unfold rxEnd
    rw [hct]
    have hext : IntExt s.log (({ s with inbox := [] } : State).emit (.rxNone s.now)).log :=
      IntExt.cons s.log (.rxNone s.now) rfl
    refine ⟨h.congr rfl rfl rfl rfl (hext.dataOut _ L) (hext.rxOf L), ?_⟩
    intro t ht
    simp only [emit, List.cons_append, List.mem_cons, reduceCtorEq, false_or] at ht
    exact hu t ht
  | txExc hx =>
    have := (SafeOk.stepInv.tx s hsafe).2
    rw [this] at hx
    cases hx
  | frame dt m rest hin =>
    have hn2 : noT ((arrive s dt m rest).checkTimeoutsRx.log ++ L) = true := (rxOne_log2 s dt m rest).noT L hn
    have hct := checkTimeoutsRx_noT _ L hn2
    have hsame := (rxOne_txSame s dt m rest).1
    have hcnt := rxOne_txBlockCnt s dt m rest
    have hdata : dataOut a.tx.txPrefix.length ((rxOne s dt m rest).log ++ L).reverse =
        dataOut a.tx.txPrefix.length (s.log ++ L).reverse := by
      unfold dataOut
      rw [(rxOne_log s dt m rest).txOf L]
      simp [Net.txOf, List.filterMap_append]
    have hrx : rxOf ((rxOne s dt m rest).log ++ L).reverse = rxOf (s.log ++ L).reverse ++ [m] := by
      rw [(rxOne_log s dt m rest).rxOf L]
      simp [rxOf, List.filterMap_append]
    have hlf : ∀ f, (rxOne s dt m rest).lastFc = some f →
        s.lastFc = some f ∨ (isFc a.rx.rxPrefixSize m = true ∧ f.bs = bs) := by
      intro f hf
      unfold rxOne at hf
      rw [hct] at hf
      have ha1 : (arrive s dt m rest).addr = a := hok.addr
      by_cases hfm : a.rx.isForMe m = true
      · rw [ha1, if_pos hfm] at hf
        rcases processRx_lastFc _ m f hf with h1 | ⟨d, hd, hp⟩
        · exact Or.inl h1
        · rw [ha1] at hd
          refine Or.inr ⟨decode_fc_isFc _ m d _ _ _ hd hp, ?_⟩
          obtain ⟨pdu, cdl, rdl⟩ := d
          simp only [] at hp
          subst hp
          exact hbs m (mem_seen_head s L dt m rest hin) hfm _ _ _ _ _ hd
      · rw [ha1, if_neg hfm] at hf
        exact Or.inl hf
    obtain ⟨a1, a2, a3, a4⟩ := h
    refine ⟨⟨?_, ?_, ?_, ?_⟩, ?_⟩
    · rw [hsame.txState, hdata, hrx, fcCount_append, fcCount_singleton]
      cases hq : (rxOne s dt m rest).lastFc with
      | none =>
        simp only [Option.isSome_none, Bool.false_eq_true, if_false, Nat.add_zero]
        have : need bs (lensOf c a ps) (dataOut a.tx.txPrefix.length (s.log ++ L).reverse).length ≤
            need bs (lensOf c a ps) (dataOut a.tx.txPrefix.length (s.log ++ L).reverse).length +
              (if s.lastFc.isSome = true then 1 else 0) := Nat.le_add_right _ _
        omega
      | some f =>
        simp only [Option.isSome_some, if_true]
        rcases hlf f hq with h1 | ⟨h1, -⟩
        · rw [h1] at a1
          simp only [Option.isSome_some, if_true] at a1
          omega
        · rw [h1]
          simp only [if_true]
          have : need bs (lensOf c a ps) (dataOut a.tx.txPrefix.length (s.log ++ L).reverse).length ≤
              need bs (lensOf c a ps) (dataOut a.tx.txPrefix.length (s.log ++ L).reverse).length +
                (if s.lastFc.isSome = true then 1 else 0) := Nat.le_add_right _ _
          omega
    · rw [hsame.txState, hsame.remoteBs, hcnt, hdata]; exact a2
    · rw [hsame.txState, hdata]; exact a3
    · intro f hf
      rcases hlf f hf with h1 | ⟨-, h1⟩
      · exact a4 f h1
      · exact h1
    · intro t ht
      rcases List.mem_append.mp ht with ht | ht
      · rcases rxOne_errs s dt m rest t _ ht with h1 | h1
        · exact hu t (List.mem_append_left _ h1)
        · cases h1
      · exact hu t (List.mem_append_right _ ht)
  | tx hx =>
    obtain ⟨v1, v2, v3, v4⟩ := afterTxfn_view s
    obtain ⟨hrx, hdata, hnT, herr⟩ := afterTxfn_hist s a.tx.txPrefix.length L
    have hn1 := hnT hn
    have hnf := hnf_of hok hn1
    have hvs : s.cfg.valid = true := hsafe.1.cfg_valid
    have hfcok : Proofs.FcOk s := hsafe.1.pend
    have hu' : NoUfc ((afterTxfn s.processTx).log ++ L) := by
      intro t ht
      rcases List.mem_append.mp ht with ht | ht
      · rcases processTx_ufc s t (herr _ _ ht) with h1 | ⟨h1, h2⟩
        · exact hu t (List.mem_append_left _ h1)
        · have := hkey h1
          rw [h2] at this; cases this
      · exact hu t (List.mem_append_right _ ht)
    refine ⟨?_, hu'⟩
    have hp := progress_tx_core c a mx s ps _ hsafe hok.cfg hok.addr hok.prog hnf
    by_cases hd : Proofs.fcPass s = true
    · -- the pass only sends the Flow Control frame requested by the receive side
      obtain ⟨st, hst, he⟩ := Proofs.processTx_fc s hvs hfcok hd
      have e1 : s.processTx.1 = Proofs.afterFcReq s st := by rw [he]
      have e2 : s.processTx.2.1 = some (Proofs.fcMsg s st) := by rw [he]
      have hfc : isFc a.tx.txPrefix.length (Proofs.fcMsg s st) = true := by rw [← hok.addr]; exact isFc_fcMsg s st
      have hsame := Proofs.afterFcReq_same s st
      rw [e1] at v1 v2 v3 v4
      rw [e2] at hdata
      simp only [outData, hfc, if_true, List.append_nil] at hdata
      exact h.congr (v1.trans hsame.txState) (v2.trans (afterFcReq_txBlockCnt s st)) (v3.trans hsame.remoteBs)
        (v4.trans (Proofs.afterFcReq_queue s st).2.1) hdata hrx
    · have hd' : Proofs.fcPass s = false := by simpa using hd
      have hnotfc := data_out_notFc c a mx s ps _ hsafe hok.cfg hok.addr hok.prog hnf hd'
      obtain ⟨w1, w2, w3, w4, w5⟩ := tx_view s hfcok hd' hok.mail hkey hok.prog.noDepl hx (noFct_of _ L hn1)
      have hv : c.valid = true := hok.cfg ▸ hvs
      have hpos := Progress.pos hv hok.cfg hok.addr hok.prog
      have hpos1 := Progress.pos hv ((TxFrame.processTx s).cfg.trans hok.cfg) ((TxFrame.processTx s).addr.trans hok.addr) hp.1
      have hdlen : (outData a.tx.txPrefix.length s.processTx.2.1).length =
          if s.processTx.2.1.isSome = true then 1 else 0 := by
        cases ho : s.processTx.2.1 with
        | none => rfl
        | some m => simp [outData, hnotfc m ho]
      rw [List.length_append, hdlen] at hpos1
      obtain ⟨a1, a2, a3, a4⟩ := h
      have hnone : s.txState ≠ .waitFc → s.lastFc = none := by
        intro hne
        cases hq : s.lastFc with
        | none => rfl
        | some f => exact absurd (hkey (by rw [hq]; rfl)) hne
      have hlaw : LawAfter bs (lensOf c a ps)
          ((dataOut a.tx.txPrefix.length (s.log ++ L).reverse).length +
            (if s.processTx.2.1.isSome = true then 1 else 0))
          (fcCount a.rx.rxPrefixSize (rxOf (s.log ++ L).reverse)) s.processTx.1 := by
        rcases hpos.2 with ⟨hK, hcl⟩ | ⟨hK, -, hcl⟩
        · have hw : s.txState ≠ .waitFc := by rcases hcl with g | g | g <;> (rw [g]; decide)
          rw [hnone hw, if_neg hw] at a1
          exact law_start bs _ _ _ _ _ _ rfl hK hpos1 (w2 hcl) a1
        · rcases hcl with hw | ht
          · cases hq : s.lastFc with
            | none =>
              obtain ⟨g1, g2⟩ := w3 hw hq
              rw [hq, if_pos hw] at a1
              rw [g2]
              have ht1 : s.processTx.1.txState ≠ .transmitCf := by rw [g1]; decide
              exact ⟨by rw [if_pos g1]; exact a1, fun g => absurd g ht1, fun _ hb => a3 hw hb⟩
            | some f =>
              have hfb := a4 f hq
              have hcv := w4 hw f hq
              rw [hfb] at hcv
              rw [hq, if_pos hw] at a1
              exact law_cf bs _ _ _ _ 0 _ _ rfl hK hpos1 (fun hb => ⟨hb, a3 hw hb⟩) hcv (by simpa using a1)
          · have hw : s.txState ≠ .waitFc := by rw [ht]; decide
            rw [hnone hw, if_neg hw] at a1
            obtain ⟨r1, r2⟩ := a2 ht
            exact law_cf bs _ _ _ _ s.txBlockCnt _ _ rfl hK hpos1 r2 (w5 ht bs r1) a1
      obtain ⟨l1, l2, l3⟩ := hlaw
      refine ⟨?_, ?_, ?_, ?_⟩
      · rw [v1, v4, w1, hrx, hdata, List.length_append, hdlen]
        simpa using l1
      · rw [v1, v2, v3, hdata, List.length_append, hdlen]; exact l2
      · rw [v1, hdata, List.length_append, hdlen]; exact l3
      · intro f hf
        rw [v4, w1] at hf; cases hf

end Isotp.NetP
