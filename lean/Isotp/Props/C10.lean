import Isotp.Process
/-
  C10 — property theorems (see DESIGN.md §6). Helper lemmas live in Isotp/Proofs.
-/
namespace Isotp.C10
open Isotp State

end Isotp.C10
