import Isotp.PyAgree.EvalLemmas
import Isotp.PyAgree.MiscLemmas
import Isotp.PyAgree.MiscTimer
import Isotp.PyAgree.Pdu
import Isotp.Layer
/-!
  The RECEIVE state machine of `TransportLayerLogic` (isotp/protocol.py): `_process_rx`, `_check_timeouts_rx` and the helpers they
  call, as dumped in `Isotp/Py/Src.lean`, against the model `State.processRx` / `State.checkTimeoutsRx` (`Isotp/Layer.lean`).
-/
namespace Isotp.PyAgree
open Isotp Isotp.Py

/-! ## 1. State <-> environment -/

def rxStPV : RxSt → PV
  | .idle => .sc (.enum "RxState" "IDLE")
  | .waitCf => .sc (.enum "RxState" "WAIT_CF")

/-- an `isotp.errors.<Class>` instance, as handed to `_trigger_error` (the message is dropped) -/
def errSc (e : Err) : Sc := .enum "errors" e.name

/-- HISTORY: the error classes handed to the error handler, oldest first (`State.log` is newest first) -/
def errsOf : List Ev → List Sc
  | [] => []
  | .err _ e :: r => errsOf r ++ [errSc e]
  | _ :: r => errsOf r

/-- HISTORY: the payloads handed to `rx_queue.put`, oldest first -/
def deliveredOf : List Ev → List Bytes
  | [] => []
  | .deliver p :: r => deliveredOf r ++ [p]
  | _ :: r => deliveredOf r

/-- one payload as scalars: its length, then its bytes -/
def encodePayload (p : Bytes) : List Sc := .py (.int p.length) :: p.map (fun b => Sc.py (.int b.toNat))
/-- a list of byte strings as ONE list of scalars -/
def encodePayloads (l : List Bytes) : List Sc := l.flatMap encodePayload

theorem encodePayloads_append (l : List Bytes) (p : Bytes) :
    encodePayloads (l ++ [p]) = encodePayloads l ++ encodePayloads [p] := by
  simp [encodePayloads, List.flatMap_append]

theorem encodePayloads_single (p : Bytes) : encodePayloads [p] = encodePayload p := by
  simp [encodePayloads]

/-- the value of the mailbox attribute: `None`, or the PDU object `obj` -/
def mbVal (obj : String) : Option FcFrame → PV
  | none => pnone
  | some _ => .meth obj

/-- the depth-1 mailbox `last_flow_control_frame`: `None`, or an object `obj` whose three decoded fields are `obj.flow_status` ... -/
def fcAttrs (obj : String) : Option FcFrame → List (String × PV)
  | none => [("self.last_flow_control_frame", pnone)]
  | some f => [("self.last_flow_control_frame", .meth obj), (obj ++ ".flow_status", pint f.status),
               (obj ++ ".blocksize", pint f.bs), (obj ++ ".stmin", pint f.stmin)]

/-- `pending_flowcontrol_status` does not exist until the first `_request_tx_flowcontrol` -/
def pfsAttrs : Option Nat → List (String × PV)
  | none => []
  | some n => [("self.pending_flowcontrol_status", pint n)]

/-- the attributes of the receive side other than the mailbox, and the history keys -/
def coreAttrs (s : State) : List (String × PV) :=
  [("self.rx_state", rxStPV s.rxState), ("self.rx_frame_length", pint s.rxFrameLen), ("self.last_seqnum", pint s.lastSeq),
   ("self.rx_block_counter", pint s.rxBlockCnt), ("self.actual_rxdl", optPV s.actualRxdl), ("self.rx_buffer", .bytes s.rxBuf),
   ("self.pending_flow_control_tx", pbool s.pendingFc),
   ("self.timer_rx_cf.start_time", optPV s.timerCf.start), ("self.timer_rx_cf.timeout", pint s.timerCf.timeout),
   ("self.params.blocksize", pint s.cfg.blocksize), ("self.params.max_frame_size", pint s.cfg.maxFrameSize),
   ("self.params.rx_consecutive_frame_timeout", pint (s.cfg.tCf / 1000000)),
   ("#errors", .list (errsOf s.log)), ("#delivered", .list (encodePayloads (deliveredOf s.log))),
   ("#rx_queue", .list (encodePayloads s.rxQueue))]

/-- everything the receive side reads and writes; `obj` names the PDU object that sits in the mailbox (if any) -/
def rxAttrs (obj : String) (s : State) : List (String × PV) :=
  coreAttrs s ++ pfsAttrs s.pendingFcStatus ++ fcAttrs obj s.lastFc

/-- the object as the interpreter sees it (a Flow Control waiting in the mailbox is the object `fc`) -/
def rxEnv (s : State) : Env := fun k =>
  match k with
  | "self.rx_state" => some (rxStPV s.rxState)
  | "self.rx_frame_length" => some (pint s.rxFrameLen)
  | "self.last_seqnum" => some (pint s.lastSeq)
  | "self.rx_block_counter" => some (pint s.rxBlockCnt)
  | "self.actual_rxdl" => some (optPV s.actualRxdl)
  | "self.rx_buffer" => some (.bytes s.rxBuf)
  | "self.pending_flow_control_tx" => some (pbool s.pendingFc)
  | "self.pending_flowcontrol_status" => s.pendingFcStatus.map (fun n => pint n)
  | "self.timer_rx_cf.start_time" => some (optPV s.timerCf.start)
  | "self.timer_rx_cf.timeout" => some (pint s.timerCf.timeout)
  | "self.params.blocksize" => some (pint s.cfg.blocksize)
  | "self.params.max_frame_size" => some (pint s.cfg.maxFrameSize)
  | "self.params.rx_consecutive_frame_timeout" => some (pint (s.cfg.tCf / 1000000))
  | "#errors" => some (.list (errsOf s.log))
  | "#delivered" => some (.list (encodePayloads (deliveredOf s.log)))
  | "#rx_queue" => some (.list (encodePayloads s.rxQueue))
  | "self.last_flow_control_frame" => some (mbVal "fc" s.lastFc)
  | "fc.flow_status" => s.lastFc.map (fun f => pint f.status)
  | "fc.blocksize" => s.lastFc.map (fun f => pint f.bs)
  | "fc.stmin" => s.lastFc.map (fun f => pint f.stmin)
  | _ => constEnv k

/-! ## 2. The decoded frame -/

def pLen : Pdu → Option PV
  | .sf l _ _ => some (pint l) | .ff l _ _ => some (pint l) | _ => none
def pData : Pdu → Option PV
  | .sf _ d _ => some (.bytes d) | .ff _ d _ => some (.bytes d) | .cf _ d => some (.bytes d) | _ => none
def pSeq : Pdu → Option PV
  | .cf sn _ => some (pint sn) | _ => none
def pEsc : Pdu → Option PV
  | .sf _ _ e => some (pbool e) | .ff _ _ e => some (pbool e) | _ => none
def pFs : Pdu → Option PV
  | .fc st _ _ => some (pint st) | _ => none
def pBs : Pdu → Option PV
  | .fc _ bs _ => some (pint bs) | _ => none
def pStmin : Pdu → Option PV
  | .fc _ _ stm => some (pint stm) | _ => none

/-- the attributes of the object `PDU(msg, start_of_data)` builds: exactly those of `fieldsOf` (Pdu.lean), under the name `pdu`.
    The attributes `PDU.__init__` leaves at their default for this frame type are NOT bound: the agreement theorem therefore also
    shows that `_process_rx` never reads them. -/
def pduView (o : Option Decoded) (base : Env) : Env := fun k =>
  match k with
  | "pdu.type" => o.map (fun d => pint (typeCode d.pdu))
  | "pdu.can_dl" => o.map (fun d => pint d.canDl)
  | "pdu.rx_dl" => o.map (fun d => pint d.rxDl)
  | "pdu.length" => o.bind (fun d => pLen d.pdu)
  | "pdu.data" => o.bind (fun d => pData d.pdu)
  | "pdu.seqnum" => o.bind (fun d => pSeq d.pdu)
  | "pdu.escape_sequence" => o.bind (fun d => pEsc d.pdu)
  | "pdu.flow_status" => o.bind (fun d => pFs d.pdu)
  | "pdu.blocksize" => o.bind (fun d => pBs d.pdu)
  | "pdu.stmin" => o.bind (fun d => pStmin d.pdu)
  | _ => base k

/-- the decoding of the frame `_process_rx` is given -/
def rxDecoded (s : State) (m : CanMsg) : Option Decoded := decode m.data s.addr.rx.rxPrefixSize

/-- the environment `_process_rx(self, msg)` starts in -/
def rxEnvIn (s : State) (m : CanMsg) : Env := fun k =>
  match k with
  | "msg" => some (.meth "msg")
  | _ => pduView (rxDecoded s m) (rxEnv s) k

/-! ## 3. Primitive `Meths` entries, 4. the helper methods as environment transformers -/

def scListOf : Option PV → List Sc
  | some (.list xs) => xs
  | _ => []

/-- `self._trigger_error(isotp.errors.<c>(...))` -/
def trigEnv (c : String) (env : Env) : Env := env.set "#errors" (.list (scListOf (env "#errors") ++ [.enum "errors" c]))

/-- `self.rx_queue.put(b)` -/
def putEnv (b : Bytes) (env : Env) : Env :=
  (env.set "#delivered" (.list (scListOf (env "#delivered") ++ encodePayloads [b]))).set
    "#rx_queue" (.list (scListOf (env "#rx_queue") ++ encodePayloads [b]))

/-- `_empty_rx_buffer` -/
def emptyBufEnv (env : Env) : Env := env.set "self.rx_buffer" (.bytes [])
/-- `_stop_sending_flow_control` -/
def stopFcEnv (env : Env) : Env := (env.set "self.pending_flow_control_tx" (pbool false)).set "self.last_flow_control_frame" pnone
/-- `self.timer_rx_cf.stop()` -/
def timerStopEnv (env : Env) : Env := env.set "self.timer_rx_cf.start_time" pnone
/-- `self.timer_rx_cf.start()` on the timer `_start_rx_cf_timer` has just built -/
def timerStartEnv (now tCf : Nat) (env : Env) : Env :=
  (env.set "self.timer_rx_cf.start_time" (pint now)).set "self.timer_rx_cf.timeout" (pint tCf)
/-- `_start_rx_cf_timer` -/
def startCfEnv (now tCf : Nat) (env : Env) : Env := timerStartEnv now tCf (env.set "self.timer_rx_cf" (.meth "Timer"))
/-- `_request_tx_flowcontrol(status)` -/
def reqFcEnv (v : PV) (env : Env) : Env :=
  (env.set "self.pending_flow_control_tx" (pbool true)).set "self.pending_flowcontrol_status" v
/-- `_stop_receiving` -/
def stopRecvEnv (env : Env) : Env :=
  timerStopEnv (stopFcEnv (emptyBufEnv ((env.set "self.actual_rxdl" pnone).set "self.rx_state" (.sc (.enum "RxState" "IDLE")))))

/-- `self.rx_buffer.extend(d)` -/
def extendProc (args : List PV) (env : Env) : Except PErr Env :=
  match args, env "self.rx_buffer" with
  | [.bytes d], some (.bytes b) => .ok (env.set "self.rx_buffer" (.bytes (b ++ d)))
  | _, _ => .error (.unsupported "self.rx_buffer.extend")

def trigProc (args : List PV) (env : Env) : Except PErr Env :=
  match args with
  | [.sc (.enum "errors" c)] => .ok (trigEnv c env)
  | _ => .error (.unsupported "self._trigger_error")

def putProc (args : List PV) (env : Env) : Except PErr Env :=
  match args with
  | [.bytes b] => .ok (putEnv b env)
  | _ => .error (.unsupported "self.rx_queue.put")

def reqFcProc (args : List PV) (env : Env) : Except PErr Env :=
  match args with
  | [v] => .ok (reqFcEnv v env)
  | _ => .error (.unsupported "self._request_tx_flowcontrol")

def validRxDlInt (i : Int) : Bool :=
  i == 8 || i == 12 || i == 16 || i == 20 || i == 24 || i == 32 || i == 48 || i == 64

/-- `_start_reception_after_first_frame_if_valid(pdu)` followed by the binding of its result to `started`, as an environment
    transformer (the three cases of the model's `startReception`) -/
def startRecEnv (now tCf : Nat) (len rxDl : Int) (data : Bytes) (mx : Int) (env : Env) : Env :=
  let e1 := emptyBufEnv env
  if !validRxDlInt rxDl then
    (stopRecvEnv (trigEnv "InvalidCanFdFirstFrameRXDL" e1)).set "started" (pbool false)
  else
    let e2 := (e1.set "self.actual_rxdl" (pint rxDl)).set "started" (pbool false)
    if len > mx then
      ((((reqFcEnv (pint 2) (stopRecvEnv (trigEnv "FrameTooLongError" e2))).set "self.last_seqnum" (pint 0)).set
        "self.rx_block_counter" (pint 0))).set "started" (pbool false)
    else
      let e3 := (e2.set "self.rx_state" (.sc (.enum "RxState" "WAIT_CF"))).set "self.rx_frame_length" (pint len)
      let e4 := e3.set "self.rx_buffer" (.bytes ([] ++ data))
      let e5 := (startCfEnv now tCf (reqFcEnv (pint 0) e4)).set "started" (pbool true)
      ((e5.set "self.last_seqnum" (pint 0)).set "self.rx_block_counter" (pint 0)).set "started" (pbool true)

def startRecProc (now tCf : Nat) (args : List PV) (env : Env) : Except PErr Env :=
  match args, env "pdu.length", env "pdu.rx_dl", env "pdu.data", env "self.params.max_frame_size" with
  | [_], some (.sc (.py (.int len))), some (.sc (.py (.int rxDl))), some (.bytes data), some (.sc (.py (.int mx))) =>
    .ok (startRecEnv now tCf len rxDl data mx env)
  | _, _, _, _, _ => .error (.unsupported "self._start_reception_after_first_frame_if_valid")

/-- the timer object `self.timer_rx_cf`, read back from the environment -/
def envTimer (env : Env) : Option Timer :=
  match env "self.timer_rx_cf.start_time", env "self.timer_rx_cf.timeout" with
  | some (.sc (.py .none)), some (.sc (.py (.int t))) => some { start := none, timeout := t.toNat }
  | some (.sc (.py (.int a))), some (.sc (.py (.int t))) => some { start := some a.toNat, timeout := t.toNat }
  | _, _ => none

def timedOutFn (now : Nat) (env : Env) : Except PErr PV :=
  match envTimer env with
  | some t => .ok (pbool (t.timedOut now))
  | none => .error (.unsupported "self.timer_rx_cf.is_timed_out")

/-- `PDU(msg, start_of_data=start)`: the object `pdu` when `decode` accepts, `ValueError` when it rejects
    (`pdu_init_accepts` / `pdu_init_rejects`, Pdu.lean) -/
def pduFn (data : Bytes) (args : List PV) : Except PErr PV :=
  match args with
  | [_, .sc (.py (.int start))] =>
    if start < 0 then .error (.unsupported "negative start_of_data") else
    match decode data start.toNat with
    | some _ => .ok (.meth "pdu")
    | none => .error (.exc .ValueError)
  | _ => .error (.unsupported "PDU")

def bytearrayFn (args : List PV) : Except PErr PV :=
  match args with
  | [] => .ok (.bytes [])
  | [.bytes b] => .ok (.bytes b)
  | _ => .error (.unsupported "bytearray")

def copyFn (args : List PV) : Except PErr PV :=
  match args with
  | [x] => .ok x
  | _ => .error (.unsupported "copy")

def reportFn (args : List PV) : Except PErr PV :=
  match args with
  | [.sc a, .sc b] => .ok (.list [a, b])
  | _ => .error (.unsupported "ProcessRxReport")

/-- `float(x)` of an integer: the integer itself (`/` then makes the exact quotient) -/
def floatFn (args : List PV) : Except PErr PV :=
  match args with
  | [.sc (.py (.int i))] => .ok (pint i)
  | _ => .error (.unsupported "float")

/-- the `isotp.errors` classes the receive side instantiates -/
def errClass : String → Option String
  | "isotp.errors.InvalidCanDataError" => some "InvalidCanDataError"
  | "isotp.errors.MissingEscapeSequenceError" => some "MissingEscapeSequenceError"
  | "isotp.errors.UnexpectedConsecutiveFrameError" => some "UnexpectedConsecutiveFrameError"
  | "isotp.errors.ReceptionInterruptedWithSingleFrameError" => some "ReceptionInterruptedWithSingleFrameError"
  | "isotp.errors.ReceptionInterruptedWithFirstFrameError" => some "ReceptionInterruptedWithFirstFrameError"
  | "isotp.errors.ChangingInvalidRXDLError" => some "ChangingInvalidRXDLError"
  | "isotp.errors.WrongSequenceNumberError" => some "WrongSequenceNumberError"
  | "isotp.errors.InvalidCanFdFirstFrameRXDL" => some "InvalidCanFdFirstFrameRXDL"
  | "isotp.errors.FrameTooLongError" => some "FrameTooLongError"
  | "isotp.errors.ConsecutiveFrameTimeoutError" => some "ConsecutiveFrameTimeoutError"
  | _ => none

/-- The callees of the receive side.  `now` = the clock, `tCf` = `rx_consecutive_frame_timeout` converted to nanoseconds
    (the conversion `float(ms)/1000` seconds -> ns is the one the harness hands to the model, DESIGN 3.1: float arithmetic is
    outside the subset, so `Timer(timeout=...)` only yields the object and `start()` installs `now` and `tCf`),
    `start` = `address.get_rx_prefix_size()`, `data` = `msg.data`. -/
def rxMethsOf (now tCf start : Nat) (data : Bytes) : Meths where
  fn := fun name args env =>
    match name with
    | "PDU#start_of_data" => pduFn data args
    | "self.address.get_rx_prefix_size" => .ok (pint start)
    | "__format__" => .ok (.str "")
    | "str" => .ok (.str "")
    | "__caught__" => .ok (.str "")
    | "bytearray" => bytearrayFn args
    | "copy" => copyFn args
    | "self.ProcessRxReport#immediate_tx_required#frame_received" => reportFn args
    | "self.timer_rx_cf.is_timed_out" => timedOutFn now env
    | "float" => floatFn args
    | "Timer#timeout" => .ok (.meth "Timer")
    | n => match errClass n with
      | some c => .ok (.sc (.enum "errors" c))
      | none => .error (.unsupported ("call " ++ n))
  proc := fun name args env =>
    match name with
    | "self._trigger_error" => trigProc args env
    | "self.rx_queue.put" => putProc args env
    | "self.timer_rx_cf.stop" => .ok (timerStopEnv env)
    | "self.timer_rx_cf.start" => .ok (timerStartEnv now tCf env)
    | "self.rx_buffer.extend" => extendProc args env
    | "self._empty_rx_buffer" => .ok (emptyBufEnv env)
    | "self._stop_sending_flow_control" => .ok (stopFcEnv env)
    | "self._start_rx_cf_timer" => .ok (startCfEnv now tCf env)
    | "self._append_rx_data" => extendProc args env
    | "self._request_tx_flowcontrol" => reqFcProc args env
    | "self._stop_receiving" => .ok (stopRecvEnv env)
    | "started:=self._start_reception_after_first_frame_if_valid" => startRecProc now tCf args env
    | n => .error (.unsupported ("call " ++ n))

def rxMeths (s : State) (m : CanMsg) : Meths := rxMethsOf s.now s.cfg.tCf s.addr.rx.rxPrefixSize m.data

/-! ## Proof machinery (own namespace: generic names) -/
namespace Rx

/-- what the interpreter sees of the model state `s` (the mailbox object being `fc`) -/
structure Rep (s : State) (env : Env) : Prop where
  rxState : env "self.rx_state" = some (rxStPV s.rxState)
  rxFrameLen : env "self.rx_frame_length" = some (pint s.rxFrameLen)
  lastSeq : env "self.last_seqnum" = some (pint s.lastSeq)
  rxBlockCnt : env "self.rx_block_counter" = some (pint s.rxBlockCnt)
  actualRxdl : env "self.actual_rxdl" = some (optPV s.actualRxdl)
  rxBuf : env "self.rx_buffer" = some (.bytes s.rxBuf)
  pendingFc : env "self.pending_flow_control_tx" = some (pbool s.pendingFc)
  pfs : env "self.pending_flowcontrol_status" = s.pendingFcStatus.map (fun n => pint n)
  tStart : env "self.timer_rx_cf.start_time" = some (optPV s.timerCf.start)
  tTimeout : env "self.timer_rx_cf.timeout" = some (pint s.timerCf.timeout)
  blocksize : env "self.params.blocksize" = some (pint s.cfg.blocksize)
  maxFrameSize : env "self.params.max_frame_size" = some (pint s.cfg.maxFrameSize)
  cfTimeout : env "self.params.rx_consecutive_frame_timeout" = some (pint (s.cfg.tCf / 1000000))
  errors : env "#errors" = some (.list (errsOf s.log))
  delivered : env "#delivered" = some (.list (encodePayloads (deliveredOf s.log)))
  rxQueue : env "#rx_queue" = some (.list (encodePayloads s.rxQueue))
  mb : env "self.last_flow_control_frame" = some (mbVal "fc" s.lastFc)
  fcS : ∀ f, s.lastFc = some f → env "fc.flow_status" = some (pint f.status)
  fcB : ∀ f, s.lastFc = some f → env "fc.blocksize" = some (pint f.bs)
  fcM : ∀ f, s.lastFc = some f → env "fc.stmin" = some (pint f.stmin)

/-- the class constants the receive side reads -/
structure Consts (env : Env) : Prop where
  t0 : env "PDU.Type.SINGLE_FRAME" = some (pint 0)
  t1 : env "PDU.Type.FIRST_FRAME" = some (pint 1)
  t2 : env "PDU.Type.CONSECUTIVE_FRAME" = some (pint 2)
  t3 : env "PDU.Type.FLOW_CONTROL" = some (pint 3)
  idle : env "self.RxState.IDLE" = some (.sc (.enum "RxState" "IDLE"))
  waitCf : env "self.RxState.WAIT_CF" = some (.sc (.enum "RxState" "WAIT_CF"))
  cts : env "PDU.FlowStatus.ContinueToSend" = some (pint 0)
  ovf : env "PDU.FlowStatus.Overflow" = some (pint 2)

/-- the decoded frame, as the object `pdu` -/
structure PduCtx (d : Decoded) (env : Env) : Prop where
  type : env "pdu.type" = some (pint (typeCode d.pdu))
  canDl : env "pdu.can_dl" = some (pint d.canDl)
  rxDl : env "pdu.rx_dl" = some (pint d.rxDl)
  length : env "pdu.length" = pLen d.pdu
  data : env "pdu.data" = pData d.pdu
  seqnum : env "pdu.seqnum" = pSeq d.pdu
  esc : env "pdu.escape_sequence" = pEsc d.pdu
  fs : env "pdu.flow_status" = pFs d.pdu
  bs : env "pdu.blocksize" = pBs d.pdu
  stmin : env "pdu.stmin" = pStmin d.pdu

theorem rep_rxEnv (s : State) : Rep s (rxEnv s) := by
  refine ⟨rfl, rfl, rfl, rfl, rfl, rfl, rfl, rfl, rfl, rfl, rfl, rfl, rfl, rfl, rfl, rfl, rfl, ?_, ?_, ?_⟩ <;>
  · intro f hf
    show Option.map _ s.lastFc = _
    rw [hf]; rfl

theorem consts_rxEnv (s : State) : Consts (rxEnv s) := ⟨rfl, rfl, rfl, rfl, rfl, rfl, rfl, rfl⟩

theorem rep_rxEnvIn (s : State) (m : CanMsg) : Rep s (rxEnvIn s m) := by
  refine ⟨rfl, rfl, rfl, rfl, rfl, rfl, rfl, rfl, rfl, rfl, rfl, rfl, rfl, rfl, rfl, rfl, rfl, ?_, ?_, ?_⟩ <;>
  · intro f hf
    show Option.map _ s.lastFc = _
    rw [hf]; rfl

theorem consts_rxEnvIn (s : State) (m : CanMsg) : Consts (rxEnvIn s m) := ⟨rfl, rfl, rfl, rfl, rfl, rfl, rfl, rfl⟩

theorem pduCtx_rxEnvIn (s : State) (m : CanMsg) (d : Decoded) (h : rxDecoded s m = some d) : PduCtx d (rxEnvIn s m) := by
  have e : ∀ k, rxEnvIn s m k = (match k with | "msg" => some (.meth "msg") | _ => pduView (some d) (rxEnv s) k) := by
    intro k; unfold rxEnvIn; rw [h]
  constructor <;> (rw [e]; rfl)

/-! ### callee lookups -/

def builtinNames : List String :=
  ["len", "int", "bool", "min", "max", "bytes", "isinstance_int", "isinstance_bool", "isinstance_float", "isinstance_int_float"]

/-- a name that is not a builtin of the interpreter goes to `Meths` -/
theorem evalBuiltin_none (fn : String) (args : List PV) (h : fn ∉ builtinNames) : evalBuiltin fn args = none := by
  simp only [builtinNames, List.mem_cons, List.not_mem_nil, or_false, not_or] at h
  unfold evalBuiltin; split <;> simp_all

section lookups
variable (now tCf start : Nat) (data : Bytes)

theorem fn_lookups :
    (∀ args env, (rxMethsOf now tCf start data).fn "PDU#start_of_data" args env = pduFn data args) ∧
    (∀ args env, (rxMethsOf now tCf start data).fn "self.address.get_rx_prefix_size" args env = .ok (pint start)) ∧
    (∀ args env, (rxMethsOf now tCf start data).fn "__format__" args env = .ok (.str "")) ∧
    (∀ args env, (rxMethsOf now tCf start data).fn "str" args env = .ok (.str "")) ∧
    (∀ args env, (rxMethsOf now tCf start data).fn "__caught__" args env = .ok (.str "")) ∧
    (∀ args env, (rxMethsOf now tCf start data).fn "bytearray" args env = bytearrayFn args) ∧
    (∀ args env, (rxMethsOf now tCf start data).fn "copy" args env = copyFn args) ∧
    (∀ args env, (rxMethsOf now tCf start data).fn "self.ProcessRxReport#immediate_tx_required#frame_received" args env
        = reportFn args) ∧
    (∀ args env, (rxMethsOf now tCf start data).fn "self.timer_rx_cf.is_timed_out" args env = timedOutFn now env) ∧
    (∀ args env, (rxMethsOf now tCf start data).fn "float" args env = floatFn args) ∧
    (∀ args env, (rxMethsOf now tCf start data).fn "Timer#timeout" args env = .ok (.meth "Timer")) :=
  ⟨fun _ _ => rfl, fun _ _ => rfl, fun _ _ => rfl, fun _ _ => rfl, fun _ _ => rfl, fun _ _ => rfl, fun _ _ => rfl,
   fun _ _ => rfl, fun _ _ => rfl, fun _ _ => rfl, fun _ _ => rfl⟩

theorem err_lookups :
    (∀ args env, (rxMethsOf now tCf start data).fn "isotp.errors.InvalidCanDataError" args env
        = .ok (.sc (errSc .InvalidCanData))) ∧
    (∀ args env, (rxMethsOf now tCf start data).fn "isotp.errors.MissingEscapeSequenceError" args env
        = .ok (.sc (errSc .MissingEscapeSequence))) ∧
    (∀ args env, (rxMethsOf now tCf start data).fn "isotp.errors.UnexpectedConsecutiveFrameError" args env
        = .ok (.sc (errSc .UnexpectedConsecutiveFrame))) ∧
    (∀ args env, (rxMethsOf now tCf start data).fn "isotp.errors.ReceptionInterruptedWithSingleFrameError" args env
        = .ok (.sc (errSc .InterruptedWithSingleFrame))) ∧
    (∀ args env, (rxMethsOf now tCf start data).fn "isotp.errors.ReceptionInterruptedWithFirstFrameError" args env
        = .ok (.sc (errSc .InterruptedWithFirstFrame))) ∧
    (∀ args env, (rxMethsOf now tCf start data).fn "isotp.errors.ChangingInvalidRXDLError" args env
        = .ok (.sc (errSc .ChangingInvalidRXDL))) ∧
    (∀ args env, (rxMethsOf now tCf start data).fn "isotp.errors.WrongSequenceNumberError" args env
        = .ok (.sc (errSc .WrongSequenceNumber))) ∧
    (∀ args env, (rxMethsOf now tCf start data).fn "isotp.errors.InvalidCanFdFirstFrameRXDL" args env
        = .ok (.sc (errSc .InvalidCanFdFirstFrameRXDL))) ∧
    (∀ args env, (rxMethsOf now tCf start data).fn "isotp.errors.FrameTooLongError" args env
        = .ok (.sc (errSc .FrameTooLong))) ∧
    (∀ args env, (rxMethsOf now tCf start data).fn "isotp.errors.ConsecutiveFrameTimeoutError" args env
        = .ok (.sc (errSc .ConsecutiveFrameTimeout))) :=
  ⟨fun _ _ => rfl, fun _ _ => rfl, fun _ _ => rfl, fun _ _ => rfl, fun _ _ => rfl, fun _ _ => rfl, fun _ _ => rfl,
   fun _ _ => rfl, fun _ _ => rfl, fun _ _ => rfl⟩

theorem proc_lookups :
    (∀ args env, (rxMethsOf now tCf start data).proc "self._trigger_error" args env = trigProc args env) ∧
    (∀ args env, (rxMethsOf now tCf start data).proc "self.rx_queue.put" args env = putProc args env) ∧
    (∀ args env, (rxMethsOf now tCf start data).proc "self.timer_rx_cf.stop" args env = .ok (timerStopEnv env)) ∧
    (∀ args env, (rxMethsOf now tCf start data).proc "self.timer_rx_cf.start" args env = .ok (timerStartEnv now tCf env)) ∧
    (∀ args env, (rxMethsOf now tCf start data).proc "self.rx_buffer.extend" args env = extendProc args env) ∧
    (∀ args env, (rxMethsOf now tCf start data).proc "self._empty_rx_buffer" args env = .ok (emptyBufEnv env)) ∧
    (∀ args env, (rxMethsOf now tCf start data).proc "self._stop_sending_flow_control" args env = .ok (stopFcEnv env)) ∧
    (∀ args env, (rxMethsOf now tCf start data).proc "self._start_rx_cf_timer" args env = .ok (startCfEnv now tCf env)) ∧
    (∀ args env, (rxMethsOf now tCf start data).proc "self._append_rx_data" args env = extendProc args env) ∧
    (∀ args env, (rxMethsOf now tCf start data).proc "self._request_tx_flowcontrol" args env = reqFcProc args env) ∧
    (∀ args env, (rxMethsOf now tCf start data).proc "self._stop_receiving" args env = .ok (stopRecvEnv env)) ∧
    (∀ args env, (rxMethsOf now tCf start data).proc "started:=self._start_reception_after_first_frame_if_valid" args env
        = startRecProc now tCf args env) :=
  ⟨fun _ _ => rfl, fun _ _ => rfl, fun _ _ => rfl, fun _ _ => rfl, fun _ _ => rfl, fun _ _ => rfl, fun _ _ => rfl,
   fun _ _ => rfl, fun _ _ => rfl, fun _ _ => rfl, fun _ _ => rfl, fun _ _ => rfl⟩

end lookups

theorem trigProc_err (e : Err) (env : Env) : trigProc [.sc (errSc e)] env = .ok (trigEnv e.name env) := rfl
theorem putProc_bytes (b : Bytes) (env : Env) : putProc [.bytes b] env = .ok (putEnv b env) := rfl
theorem reqFcProc_one (v : PV) (env : Env) : reqFcProc [v] env = .ok (reqFcEnv v env) := rfl
theorem bytearrayFn_nil : bytearrayFn [] = .ok (.bytes []) := rfl
theorem bytearrayFn_bytes (b : Bytes) : bytearrayFn [.bytes b] = .ok (.bytes b) := rfl
theorem copyFn_one (x : PV) : copyFn [x] = .ok x := rfl
theorem reportFn_bools (a b : Bool) : reportFn [pbool a, pbool b] = .ok (.list [.py (.bool a), .py (.bool b)]) := rfl
theorem floatFn_int (i : Int) : floatFn [pint i] = .ok (pint i) := rfl
theorem scListOf_some (xs : List Sc) : scListOf (some (.list xs)) = xs := rfl
theorem extendProc_bytes (d b : Bytes) (env : Env) (h : env "self.rx_buffer" = some (.bytes b)) :
    extendProc [.bytes d] env = .ok (env.set "self.rx_buffer" (.bytes (b ++ d))) := by
  simp only [extendProc, h]

/-- symbolic evaluation: the interpreter's equations, the callee lookups, the value-level lemmas -/
macro "rx_eval" "[" ts:Lean.Parser.Tactic.simpLemma,* "]" : tactic =>
  `(tactic| simp (disch := decide) only [↓execBlock_single, execBlock, execStmt, eval, evalArgs, ok_bind, error_bind, set_apply,
      String.reduceEq, ↓reduceIte, evalBuiltin_none, fn_lookups, err_lookups, proc_lookups, trigProc_err, putProc_bytes,
      reqFcProc_one, bytearrayFn_nil, bytearrayFn_bytes, copyFn_one, reportFn_bools, floatFn_int, scListOf_some,
      truthy_pbool, evalCmp_eq, evalCmp_ne, pvEq_pint, pvEq_pbool, bi_len, $ts,*])

/-! ### 4a. the helpers: their own source = the environment transformer -/

section helpers
variable (now tCf start : Nat) (data : Bytes) (env : Env)

/-- `_empty_rx_buffer` -/
theorem empty_rx_buffer_src :
    runFn (rxMethsOf now tCf start data) env Src.TransportLayerLogic_p_empty_rx_buffer = .ok (pnone, emptyBufEnv env) := by
  simp only [runFn, Src.TransportLayerLogic_p_empty_rx_buffer]
  rx_eval []
  rfl

/-- `_stop_sending_flow_control` -/
theorem stop_sending_flow_control_src :
    runFn (rxMethsOf now tCf start data) env Src.TransportLayerLogic_p_stop_sending_flow_control = .ok (pnone, stopFcEnv env) := by
  simp only [runFn, Src.TransportLayerLogic_p_stop_sending_flow_control]
  rx_eval []
  rfl

/-- `_start_rx_cf_timer`: `Timer(timeout=float(ms)/1000)` then `start()` -/
theorem start_rx_cf_timer_src (ms : Nat) (h : env "self.params.rx_consecutive_frame_timeout" = some (pint ms)) :
    runFn (rxMethsOf now tCf start data) env Src.TransportLayerLogic_p_start_rx_cf_timer = .ok (pnone, startCfEnv now tCf env) := by
  simp only [runFn, Src.TransportLayerLogic_p_start_rx_cf_timer]
  rx_eval [h, truediv_ev]
  rfl

/-- `_append_rx_data(data)`: the source run with its parameter bound, and the `Meths` entry the callers use; they differ only on
    the callee's parameter `data` -/
theorem append_rx_data_src (d b : Bytes) (h : env "self.rx_buffer" = some (.bytes b)) :
    runFn (rxMethsOf now tCf start data) (env.set "data" (.bytes d)) Src.TransportLayerLogic_p_append_rx_data
      = .ok (pnone, (env.set "data" (.bytes d)).set "self.rx_buffer" (.bytes (b ++ d))) ∧
    (rxMethsOf now tCf start data).proc "self._append_rx_data" [.bytes d] env
      = .ok (env.set "self.rx_buffer" (.bytes (b ++ d))) ∧
    ∀ k, k ≠ "data" →
      ((env.set "data" (.bytes d)).set "self.rx_buffer" (.bytes (b ++ d))) k = (env.set "self.rx_buffer" (.bytes (b ++ d))) k := by
  refine ⟨?_, ?_, ?_⟩
  · simp only [runFn, Src.TransportLayerLogic_p_append_rx_data]
    rx_eval [extendProc, h]
  · rx_eval [extendProc, h]
  · intro k hk
    simp only [set_apply, hk, if_false]

/-- `_request_tx_flowcontrol(status)`: same remark (parameter `status`) -/
theorem request_tx_flowcontrol_src (v : PV) :
    runFn (rxMethsOf now tCf start data) (env.set "status" v) Src.TransportLayerLogic_p_request_tx_flowcontrol
      = .ok (pnone, reqFcEnv v (env.set "status" v)) ∧
    (rxMethsOf now tCf start data).proc "self._request_tx_flowcontrol" [v] env = .ok (reqFcEnv v env) ∧
    ∀ k, k ≠ "status" → reqFcEnv v (env.set "status" v) k = reqFcEnv v env k := by
  refine ⟨?_, ?_, ?_⟩
  · simp only [runFn, Src.TransportLayerLogic_p_request_tx_flowcontrol]
    rx_eval []
    rfl
  · rx_eval []
  · intro k hk
    simp only [reqFcEnv, set_apply, hk, if_false]

/-- `_stop_receiving` (calls `_empty_rx_buffer`, `_stop_sending_flow_control`, `timer_rx_cf.stop`) -/
theorem stop_receiving_src (hI : env "self.RxState.IDLE" = some (.sc (.enum "RxState" "IDLE"))) :
    runFn (rxMethsOf now tCf start data) env Src.TransportLayerLogic_p_stop_receiving = .ok (pnone, stopRecvEnv env) := by
  simp only [runFn, Src.TransportLayerLogic_p_stop_receiving]
  rx_eval [hI]
  rfl

theorem lst_rxdl (M : Meths) (env : Env) :
    eval M env (.lst (.cons (.int (8)) (.cons (.int (12)) (.cons (.int (16)) (.cons (.int (20)) (.cons (.int (24))
      (.cons (.int (32)) (.cons (.int (48)) (.cons (.int (64)) .nil))))))))))
      = .ok (.list [.py (.int 8), .py (.int 12), .py (.int 16), .py (.int 20), .py (.int 24), .py (.int 32), .py (.int 48),
                    .py (.int 64)]) := rfl

theorem notIn_rxdl (i : Int) :
    evalCmp .notIn (pint i) (.list [.py (.int 8), .py (.int 12), .py (.int 16), .py (.int 20), .py (.int 24), .py (.int 32),
      .py (.int 48), .py (.int 64)]) = .ok (pbool (!validRxDlInt i)) := by
  simp [validRxDlInt, Bool.or_assoc]

theorem pint_bne_pnone (i : Int) : (pint i != pnone) = true := by simp [pint, pnone]
theorem bytes_bne_pnone' (b : Bytes) : (PV.bytes b != pnone) = true := by simp [pnone]

theorem startRecProc_eq (v : PV) (len rxDl mx : Int) (dat : Bytes)
    (hl : env "pdu.length" = some (pint len)) (hr : env "pdu.rx_dl" = some (pint rxDl))
    (hd : env "pdu.data" = some (.bytes dat)) (hm : env "self.params.max_frame_size" = some (pint mx)) :
    startRecProc now tCf [v] env = .ok (startRecEnv now tCf len rxDl dat mx env) := by
  simp only [startRecProc, hl, hr, hd, hm]

/-- `_start_reception_after_first_frame_if_valid(pdu)`: its source returns `b` in the environment `envR`, and the entry
    `started:=self._start_reception_after_first_frame_if_valid` of the callers is `envR` with `started := b` -/
theorem start_reception_src (hC : Consts env) (len rxDl mx : Int) (dat : Bytes)
    (hl : env "pdu.length" = some (pint len)) (hr : env "pdu.rx_dl" = some (pint rxDl))
    (hd : env "pdu.data" = some (.bytes dat)) (hm : env "self.params.max_frame_size" = some (pint mx)) :
    ∃ envR b, runFn (rxMethsOf now tCf start data) env Src.TransportLayerLogic_p_start_reception_after_first_frame_if_valid
        = .ok (pbool b, envR) ∧
      startRecProc now tCf [.meth "pdu"] env = .ok (envR.set "started" (pbool b)) := by
  rw [startRecProc_eq now tCf env _ len rxDl mx dat hl hr hd hm]
  simp only [runFn, Src.TransportLayerLogic_p_start_reception_after_first_frame_if_valid]
  cases hv : validRxDlInt rxDl
  · rx_eval [↓lst_rxdl, emptyBufEnv, hl, hr, hd, hm, notIn_rxdl, pint_bne_pnone, hv, hC.idle, Bool.not_false]
    exact ⟨_, _, rfl, by simp only [startRecEnv, hv]; rfl⟩
  · by_cases hgt : mx < len
    · rx_eval [↓lst_rxdl, emptyBufEnv, hl, hr, hd, hm, notIn_rxdl, pint_bne_pnone, hv, hC.idle, hC.ovf, cmp_gt_pint, hgt,
        Bool.not_true, decide_true]
      exact ⟨_, _, rfl, by simp only [startRecEnv, hv, hgt]; rfl⟩
    · rx_eval [↓lst_rxdl, emptyBufEnv, hl, hr, hd, hm, notIn_rxdl, pint_bne_pnone, hv, hC.waitCf, hC.cts, cmp_gt_pint, hgt,
        Bool.not_true, decide_false, extendProc]
      exact ⟨_, _, rfl, by simp only [startRecEnv, hv, hgt]; rfl⟩

end helpers

end Rx

end Isotp.PyAgree
