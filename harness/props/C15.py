"""C15 - rate limiter bounds bursts and never stalls a transfer."""
import math
from fractions import Fraction
import gen
import ref
import trace
from props.base import PropBase
from props.C02 import fc_frame, judge_segmentation

SLOT = 5000000


class C15(PropBase):
    id = 'C15'
    address_change = 0.15
    rx_only_gaps = 0.1
    lean_modules = ['Isotp.Props.C15']
    theorems = []
    rule = ('rate-limited sender with (bitrate, window) pairs accepted by validation down to exactly one frame per window, queues of single frames / '
            'long multi-frame / mixes, padding / min length / link size (sent frame larger than the checked size), CTS BS=0 STmin=0, process() '
            'schedules from sub-slot steps to multi-window gaps; sliding-window bound checked over every interval starting at a transmission; all '
            'messages must be emitted completely and unchanged; limiter disabled => never throttled; distinct = (window, bitrate, tx_dl, queue, schedule)')
    assumptions = ['virtual clock']
    quick_per_shard = 100
    thorough_per_shard = 2500

    def limiter_run(self, rng):
        """class-level run of a bare RateLimiter: update() and admitted hand-overs at arbitrary non-decreasing instants - time passes between the
        update() of a pass and each hand-over, which the layer-level model (passes take no time) cannot exhibit.  This is the shape of run
        the abstract theorem C15.window_bound quantifies over."""
        w = rng.choice([0.05, 0.1, 0.013, 0.5, 1])
        wns = math.floor(Fraction(float(w)) * 10**9)
        P = rng.choice([8, 8, 64])
        frames = rng.choice([1, 2, 5, 20])
        br = math.ceil(frames * P * 8 / w) + rng.choice([0, 1, 7])
        ops = [{'op': 'lim', 'what': 'new', 'bitrate': br, 'window': w, 'enabled': rng.random() < 0.9}]
        t = 0
        for _ in range(rng.choice([20, 60, 150])):
            # one "pass": update, then a burst of hand-overs with the driver eating some time before / after each
            t += rng.choice([0, 1000, SLOT - 1, SLOT + 1, wns // 7, wns // 2, wns - SLOT, wns, wns + 1, 3 * wns])
            ops.append({'op': 'lim', 'what': 'update', 't': t})
            cost = rng.choice([0, 0, 1000, SLOT // 5, SLOT + 1, wns // 3])
            for _ in range(rng.choice([1, 2, 4, 10])):
                t += rng.choice([0, cost])
                ops.append({'op': 'lim', 'what': 'emit', 't': t, 'n': rng.choice([P, P, P - 1, 1, 3])})
                t += rng.choice([0, cost])
            if rng.random() < 0.02:
                ops.append({'op': 'lim', 'what': 'reset'})
        return {'ops': ops, 'family': 'limiter_run', 'lim': {'w': w, 'P': P}}

    def scenario(self, rng, tier):
        if rng.random() < 0.15:
            return self.limiter_run(rng)
        a, _ = gen.rand_addr_pair(rng, mode=rng.choice([0, 0, 1, 3, 6]), asym_prob=0)
        params = {}
        if rng.random() < 0.5:
            params['tx_data_length'] = rng.choice(gen.TXDLS)
        txdl = params.get('tx_data_length', 8)
        if rng.random() < 0.3:
            params['tx_data_min_length'] = rng.choice([m for m in gen.MINLENS if m <= txdl])
        if rng.random() < 0.3:
            params['tx_padding'] = 0x55
        enabled = rng.random() < 0.85
        w = rng.choice([0.05, 0.1, 0.2, 0.013, 0.5, 1, 0.03])
        minbr = math.ceil(txdl * 8 / w)
        while minbr * w < txdl * 8:
            minbr += 1
        br = rng.choice([minbr, minbr, minbr + 1, 2 * minbr, 3 * minbr + 7, 10 * minbr, 100 * minbr])
        if rng.random() < 0.05:
            # just below one full frame per window: must be refused at construction (a frame that fills the CAN frame could never leave)
            br = max(1, math.floor((txdl * 8 - rng.choice([1, 4, 7])) / w))
        params['rate_limit_enable'] = enabled
        # N_Bs either far away, or just above the longest gap the schedule can put between a First Frame and the next Flow Control
        # (one tick, at most 3 windows): a frame parked by the limiter must not use up the flow-control deadline
        params['rx_flowcontrol_timeout'] = rng.choice([10000000, int(3.5 * w * 1000) + 5])
        params['rate_limit_window_size'] = w
        params['rate_limit_max_bitrate'] = br
        ops = [{'op': 'layer', 'i': 0, 'addr': a, 'params': params}]
        # a slow CAN driver: txfn takes time, so the clock moves INSIDE a pass (between the limiter's update and each hand-over).
        # The model's passes take no time: these scenarios are judged on the implementation trace only.
        slow = rng.random() < 0.15
        if slow:
            ops[0]['tx_cost_ns'] = rng.choice([SLOT // 5, SLOT, 2 * SLOT + 1, int(w * 1e9) // 3])
        # passes that only transmit (what the threaded worker does between bus reads): the window must slide on those too
        txonly = rng.choice([0, 0, 0.3, 0.9])
        if txonly or slow:
            # no Flow Control is read on such passes / the driver eats the time: keep the legitimate N_Bs expiry out of these schedules
            params['rx_flowcontrol_timeout'] = 10000000
        pre = gen.prefix_len(a, 'tx')
        c = txdl - 1 - pre
        rid = 0
        nframes = 0
        for _ in range(rng.choice([1, 2, 3, 6])):
            rid += 1
            n = rng.choice([1, 3, 6, 7, c + 5, 3 * c, 10 * c + 2, 40 * c])
            ops.append({'op': 'send', 'i': 0, 'id': rid, 'data': gen.rand_payload(rng, n)})
            nframes += n // c + 2
        wns = int(w * 1e9)
        # block size granted by the peer: the last frame of every block (and the First Frame) must be accounted like any other
        fid, ext, data = fc_frame(a, rng.choice([0, 0, 1, 2, 8]), 0)
        budget_frames = max(1, int(br * w) // (txdl * 8))
        steps = min(400, int(nframes / budget_frames * 8) + nframes // 2 + 12)
        # an ABORTED transmission (Overflow from the peer, or the user's stop_sending()) in the middle of the schedule, with requests still
        # queued behind it: the bytes already sent in the current window stay accounted - the abort must not buy a fresh budget
        abort_at = rng.randrange(steps) if rng.random() < 0.35 else None
        abort_kind = rng.choice(['overflow', 'stop_sending'])
        for k in range(steps):
            if k == abort_at:
                if abort_kind == 'overflow':
                    ofid, oext, odata = fc_frame(a, 0, 0, status=2)
                    ops.append({'op': 'frame', 'i': 0, 'id': ofid, 'ext': oext, 'data': odata})
                    ops.append({'op': 'process', 'i': 0})
                else:
                    ops.append({'op': 'stop_sending', 'i': 0})
                    ops.append({'op': 'process', 'i': 0})
            if rng.random() < txonly:
                ops.append({'op': 'process', 'i': 0, 'rx': False})
            else:
                ops.append({'op': 'frame', 'i': 0, 'id': fid, 'ext': ext, 'data': data})
                ops.append({'op': 'process', 'i': 0})
            ops.append({'op': 'tick', 'dt': rng.choice([0, 1000, SLOT - 1, SLOT + 1, wns // 7, wns // 2, wns - SLOT, wns, wns + 1, 3 * wns])})
        for _ in range(nframes + 4):
            ops.append({'op': 'frame', 'i': 0, 'id': fid, 'ext': ext, 'data': data, 'keep': True})
            ops.append({'op': 'process', 'i': 0, 'keep': True})
            ops.append({'op': 'tick', 'dt': wns + SLOT + 1, 'keep': True})
        ops.append({'op': 'process', 'i': 0, 'keep': True})
        sc = {'ops': ops}
        if slow:
            sc['no_model'] = True
        return sc

    def project(self, op_line, out_line):
        if op_line.startswith('lim '):
            return out_line
        return trace.project_events(out_line, keep=('tx',), status_keys=('th',))

    def judge_limiter_run(self, sc, lines_in, impl_out):
        out = []
        new = lines_in[0].split()
        enabled, W, M = new[2] == '1', int(new[3]), int(new[4])
        frames = []
        last_update = None
        for li, lo in zip(lines_in, impl_out):
            t = li.split()
            if t[1] == 'reset':
                frames = []         # reset() forgets the history on purpose (stop / reset of the layer)
            elif t[1] == 'update':
                last_update = int(t[2])
            elif t[1] == 'emit':
                now, n = int(t[2]), int(t[3])
                if lo.startswith('emit=1'):
                    frames.append((now, n))
                elif not enabled:
                    out.append(('disabled', 'disabled limiter refused %d bytes' % n))
                elif last_update == now and not any(x >= now - W - SLOT for (x, _) in frames) and 8 * n <= M:
                    out.append(('stall', '%d bytes refused at t=%d right after update() although nothing was handed over since t=%d' % (n, now, now - W - SLOT)))
        if enabled:
            L = W - SLOT
            for i in range(len(frames)):
                tot = mx = 0
                for j in range(i, len(frames)):
                    if frames[j][0] - frames[i][0] > L:
                        break
                    tot += 8 * frames[j][1]
                    mx = max(mx, frames[j][1])
                    if tot > M + 8 * mx:
                        out.append(('bound', '%d bits accounted within %d ns starting at t=%d; limit %d + one frame (%d)' % (
                            tot, frames[j][0] - frames[i][0], frames[i][0], M, 8 * mx)))
                        break
                if out:
                    break
        return out[:3]

    def judge(self, sc, lines_in, impl_out):
        if sc.get('family') == 'limiter_run':
            return self.judge_limiter_run(sc, lines_in, impl_out)
        cfg = trace.layer_cfg(sc)
        p = cfg['params']
        a = cfg['addr']
        prefix = ref.tx_prefix(ref.half(a, 'tx'))
        out = []
        enabled = p.get('rate_limit_enable', False)
        w = p['rate_limit_window_size']
        W = math.floor(Fraction(float(w)) * 10**9)
        M = math.floor(p['rate_limit_max_bitrate'] * float(w))
        frames = []
        now = 0
        for r in trace.records(lines_in, impl_out):
            if r.op == 'tick':
                now += int(r.toks[1])
            start = now
            if not enabled and r.status.get('th') == '1':
                out.append(('disabled', 'limiter disabled but is_tx_throttled() is true'))
            for e in r.events:
                if 't' in e:
                    now = max(now, e['t'])
                if e['k'] == 'tx' and ref.classify(e['data'][len(prefix):])[0] != 'fc':
                    frames.append((e['t'], len(e['data'])))
            # never stalls: a frame is still held back after a transmitting pass although nothing at all was handed over during the
            # whole window (plus one accounting slot) before the pass began: the budget was entirely free
            if enabled and r.op == 'process' and r.toks[3:4] == ['1'] and r.status.get('th') == '1' and not out:
                t0 = max([e['t'] for e in r.events if e['k'] in ('rx', 'rxn')] + [start])
                if not any(t >= t0 - W - SLOT for (t, _) in frames):
                    out.append(('stall', 'pass at t=%d leaves a frame held back by the limiter although no data frame was handed over since t=%d '
                                '(window %d ns)' % (t0, t0 - W - SLOT, W)))
        if enabled:
            L = W - SLOT
            for i in range(len(frames)):
                tot = 0
                mx = 0
                for j in range(i, len(frames)):
                    if frames[j][0] - frames[i][0] > L:
                        break
                    tot += 8 * frames[j][1]
                    mx = max(mx, frames[j][1])
                    if tot > M + 8 * mx:
                        out.append(('bound', '%d data bits handed over within %d ns starting at t=%d; limit %d + one frame (%d)' % (
                            tot, frames[j][0] - frames[i][0], frames[i][0], M, 8 * mx)))
                        break
                if out:
                    break
        else:
            # disabled: with BS=0/STmin=0 grants nothing is ever held back: all frames of a process() call leave at once
            pass
        out += [v for v in judge_segmentation(sc, lines_in, impl_out) if v[0] in ('frames',)]
        return out[:3]

    def nontrivial_key(self, sc, lines_in, impl_out):
        if sc.get('family') == 'limiter_run':
            n1 = sum(1 for o in impl_out if o.startswith('emit=1'))
            n0 = sum(1 for o in impl_out if o.startswith('emit=0'))
            return ('limiter_run', lines_in[0], n1, n0) if n1 > 1 and n0 > 0 else None
        p = trace.layer_cfg(sc)['params']
        n = sum(o.count('tx@') for o in impl_out)
        if n < 2:
            return None
        ths = sum(1 for o in impl_out if 'th=1' in o)
        return (p['rate_limit_window_size'], p['rate_limit_max_bitrate'], p.get('tx_data_length', 8), n, ths)

    def tally(self, dist, sc, lines_in, impl_out):
        PropBase.tally(self, dist, sc, lines_in, impl_out)
        if sc.get('family') == 'limiter_run':
            dist['limiter_runs'] = dist.get('limiter_runs', 0) + 1
            dist['limiter_run_refusals'] = dist.get('limiter_run_refusals', 0) + sum(1 for o in impl_out if o.startswith('emit=0'))
            return
        k = 'throttled_ops'
        dist[k] = dist.get(k, 0) + sum(1 for o in impl_out if 'th=1' in o)
        k = 'enabled' if trace.layer_cfg(sc)['params'].get('rate_limit_enable') else 'disabled'
        dist[k] = dist.get(k, 0) + 1


PROP = C15()
