"""C09 - addressing: only my frames are accepted; mirrored peers understand each other."""
import gen
import ref
import trace
from props.base import PropBase, parse_out


def full_addr(h):
    d = dict(h['tx'])
    d.update(h['rx'])
    return d


class C09(PropBase):
    id = 'C09'
    address_change = 0.15
    rx_only_gaps = 0.1
    partial_passes = 0.25
    rx_only_passes = 0.4
    lean_modules = ['Isotp.Props.C09']
    theorems = []
    keep_ops = ('layer', 'addr')
    rule = ('addresses of all 7 modes (full / rx-only / tx-only halves, asymmetric), random ids, address bytes, custom physical/functional bases; for '
            'each: the expected id with every single bit flipped (29 + ext flag), the other id type, the tx id, random ids, first data byte over many '
            'values, empty data -> is_for_me compared with the documented reception condition; emitted id / prefix per target address type and '
            'acceptance by the mirrored address; send() with Functional type around the single-frame limit; foreign frames interleaved in a reception; '
            'distinct = (mode, kind of probe)')
    assumptions = ['identifiers within 29 bits']
    quick_per_shard = 25
    thorough_per_shard = 700

    def scenario(self, rng, tier):
        mode = rng.randrange(7)
        h = gen.rand_half(rng, mode)
        a = full_addr(h)
        mir = dict(h['tx_m'])
        mir.update(h['rx_m'])
        ops = [{'op': 'addr', 'k': 0, 'addr': a}, {'op': 'addr', 'k': 1, 'addr': mir},
               {'op': 'addr', 'k': 2, 'addr': dict(h['rx'], rx_only=True)}, {'op': 'addr', 'k': 3, 'addr': dict(h['tx'], tx_only=True)}]
        ext = mode in ref.MODE_29
        good_id, _, good = gen.rx_match_frame(a, bytes([2, 1, 2]))
        func_id, _, _ = gen.rx_match_frame(a, bytes([2, 1, 2]), functional=True)
        probes = [(good_id, ext, good), (func_id, ext, good), (good_id, not ext, good), (ref.emitted_id(a), ext, good), (good_id, ext, b''),
                  (good_id, ext, good[:1]), (func_id, ext, b'')]
        for bit in range(29):
            probes.append((good_id ^ (1 << bit), ext, good))
        if func_id != good_id:
            # the functional identifier with every single bit flipped: a 1-to-n request addressed to ANOTHER node / group is not for this layer
            for bit in range(29):
                probes.append((func_id ^ (1 << bit), ext, good))
        for _ in range(10):
            probes.append((gen.rand_id(rng, ext), ext, good))
        for b0 in rng.sample(range(256), 24) + [good[0] if good else 0]:
            probes.append((good_id, ext, bytes([b0]) + good[1:]))
        for (i, e, d) in probes:
            for slot in (0, 2):
                ops.append({'op': 'ifm', 'k': slot, 'id': i, 'ext': e, 'data': d})
        # layer level: emission, functional rule, ignored frames
        params = {}
        if rng.random() < 0.3:
            # a tester that broadcasts by default: only what send() is not told explicitly follows it; First / Consecutive Frames and
            # Flow Control stay physically addressed
            params['default_target_address_type'] = 1
        if rng.random() < 0.5:
            params['tx_data_length'] = rng.choice(gen.TXDLS)
        if rng.random() < 0.2:
            params['tx_data_min_length'] = rng.choice([m for m in gen.MINLENS if m <= params.get('tx_data_length', 8)])
        txdl = params.get('tx_data_length', 8)
        pre = gen.prefix_len(a, 'tx')
        release = []
        cnt = rng.randrange(2)
        if rng.random() < 0.25:
            # one frame per rate-limiter window: every frame after the first is parked and released by a later pass - the identifier, the
            # 29-bit flag and the prefix are those of the request it belongs to all the same
            w = 0.1
            params.update(rate_limit_enable=True, rate_limit_window_size=w, rate_limit_max_bitrate=int(txdl * 8 / w) + 1)
            release = [{'op': 'tick', 'dt': int(w * 10**9) + 6000000}]
        ops.append({'op': 'layer', 'i': 0, 'addr': a, 'params': params})
        cap = (7 - pre) if txdl == 8 else (txdl - 2 - pre)
        rid = 0
        big = [rng.choice([4095, 4096, 4097, 70000])] if rng.random() < 0.4 else []     # 4096+: First Frame with the 32-bit length escape
        for n in sorted(set([1, cap - 1, cap, cap + 1, cap + 2, 7 - pre, 8 - pre, rng.randrange(1, 70)] + big)):
            if n < 1:
                continue
            for tat in (1, 0):
                rid += 1
                ops.append({'op': 'send', 'i': 0, 'id': rid, 'data': gen.rand_payload(rng, n), 'tat': tat})
                ops.append({'op': 'process', 'i': 0})
                cnt += 1
                # (every other request only: the one in between finds the window still used up by its predecessor and is parked)
                for o in release[:cnt % 2]:
                    ops.extend([o, {'op': 'process', 'i': 0}])
                ops.append({'op': 'stop_sending', 'i': 0})
        # the same emission / functional rule on an ASYMMETRIC address whose two halves use different modes (prefix on one side only,
        # 11-bit ids on one side and 29-bit on the other, ...): everything on the transmit side must follow the TX half
        h2 = gen.rand_half(rng)
        asym = {'asym': True, 'tx': dict(h['tx']), 'rx': dict(h2['rx'])}
        ops.append({'op': 'layer', 'i': 1, 'addr': asym, 'params': params})
        for n in sorted(set([1, cap - 1, cap, cap + 1, 7 - pre, 8 - pre] + big)):
            if n < 1:
                continue
            for tat in (1, 0):
                rid += 1
                ops.append({'op': 'send', 'i': 1, 'id': rid, 'data': gen.rand_payload(rng, n), 'tat': tat})
                ops.append({'op': 'process', 'i': 1})
                cnt += 1
                for o in release[:cnt % 2]:
                    ops.extend([o, {'op': 'process', 'i': 1}])
                ops.append({'op': 'stop_sending', 'i': 1})
        # a reception with foreign frames interleaved
        prx = b''
        if ref.rx_prefix_len(a):
            prx = good[:1]
        m = gen.rand_payload(rng, rng.choice([10, 20, 45]))
        frames = ref.foreign_stream(m, 8, prefix=prx, last='min')
        noise = [p for p in probes if not ref.reception_condition(a, p[0], p[1], p[2])]
        for fr in frames:
            for _ in range(rng.randrange(0, 3)):
                i, e, d = rng.choice(noise)
                ops.append({'op': 'frame', 'i': 0, 'id': i, 'ext': e, 'data': d})
            ops.append({'op': 'frame', 'i': 0, 'id': good_id, 'ext': ext, 'data': fr})
            ops.append({'op': 'process', 'i': 0})
        ops.append({'op': 'recv', 'i': 0})
        return {'ops': ops, 'meta': {'addr': a, 'mirror': mir, 'm': bytes(m), 'cap': cap}}

    def project(self, op_line, out_line):
        if op_line.startswith('ifm') or op_line.startswith('addr'):
            return out_line
        return trace.project_events(out_line, keep=('tx', 'deliver', 'err'), status_keys=('q',), drop_times=True)

    def judge(self, sc, lines_in, impl_out):
        meta = sc['meta']
        a, mir = meta['addr'], meta['mirror']
        out = []
        ops = sc['ops']
        addr_of = {0: a, 2: a}
        for k, op in enumerate(ops):
            if k >= len(impl_out):
                break
            o = impl_out[k]
            if op['op'] == 'ifm':
                want = ref.reception_condition(addr_of[op['k']], op['id'], bool(op['ext']), bytes(op['data']))
                if o not in ('0', '1') or (o == '1') != want:
                    out.append(('accept_iff', 'is_for_me(id=%x ext=%s data=%s) = %s, documented reception condition says %s' % (
                        op['id'], op['ext'], bytes(op['data']).hex(), o, want)))
            elif op['op'] == 'addr' and op['k'] in (0, 3):
                if not o.startswith('ok'):
                    out.append(('valid_addr', 'valid address rejected: %s' % o))
                    continue
                tx = o.split('tx=')[1].split(' rx=')[0].split()
                if tx[0] != 'na':
                    if int(tx[0]) != ref.emitted_id(a) or int(tx[1]) != ref.emitted_id(a, functional=True):
                        out.append(('emit', 'tx ids %s/%s, documented %x/%x' % (tx[0], tx[1], ref.emitted_id(a), ref.emitted_id(a, True))))
                    pre = b'' if tx[2] == '-' else bytes.fromhex(tx[2])
                    if pre != ref.tx_prefix(a):
                        out.append(('emit', 'tx prefix %s, documented %s' % (pre.hex(), ref.tx_prefix(a).hex())))
        # layer part
        recs = trace.records(lines_in, impl_out)
        payload = {op['id']: (bytes(op['data']), op.get('tat', 0)) for op in ops if op['op'] == 'send'}
        cur = None
        delivered = []
        cfg = trace.layer_cfg(sc)
        for r in recs:
            if r.op == 'send':
                rid = int(r.toks[2])
                pl, tat = payload[rid]
                cur = rid
                if tat == 1:
                    fits = len(pl) <= meta['cap']
                    if fits and r.result != 'ok':
                        out.append(('functional', 'Functional send of %d bytes (fits a Single Frame) refused: %s' % (len(pl), r.result)))
                    if not fits and (r.result != 'exc ValueError' or r.status.get('q') != '0'):
                        out.append(('functional', 'Functional send of %d bytes (multi-frame) gave %s with %s requests queued' % (
                            len(pl), r.result, r.status.get('q'))))
            for e in r.events:
                if e['k'] == 'tx' and r.layer == 1:
                    # asymmetric layer: transmit half is the same as `a`'s
                    c = ref.classify(e['data'][len(ref.tx_prefix(a)):])
                    pl, tat = payload.get(cur, (b'', 0))
                    functional = (tat == 1 and c[0] == 'sf')
                    eid = ref.emitted_id(a, functional=functional)
                    if e['id'] != eid or e['ext'] != (a['mode'] in ref.MODE_29) or e['data'][:len(ref.tx_prefix(a))] != ref.tx_prefix(a):
                        out.append(('emit', 'asymmetric address: emitted id %x ext %s prefix %s; the tx half documents id %x prefix %s' % (
                            e['id'], e['ext'], e['data'][:1].hex(), eid, ref.tx_prefix(a).hex())))
                    if tat == 1 and c[0] != 'sf':
                        out.append(('functional', 'asymmetric address: a Functional send produced a %s frame' % c[0]))
                    continue
                if e['k'] in ('deliver', 'err') and r.layer == 1:
                    continue
                if e['k'] == 'tx':
                    c = ref.classify(e['data'][len(ref.tx_prefix(a)):])
                    pl, tat = payload.get(cur, (b'', 0))
                    functional = (tat == 1 and c[0] == 'sf')
                    if c[0] == 'fc':
                        functional = False
                    eid = ref.emitted_id(a, functional=functional)
                    if e['id'] != eid or e['ext'] != (a['mode'] in ref.MODE_29) or e['data'][:len(ref.tx_prefix(a))] != ref.tx_prefix(a):
                        out.append(('emit', 'emitted id %x ext %s prefix %s; documented id %x prefix %s' % (
                            e['id'], e['ext'], e['data'][:1].hex(), eid, ref.tx_prefix(a).hex())))
                    if not ref.reception_condition(mir, e['id'], e['ext'], e['data']):
                        out.append(('mirror', 'frame id %x data %s is not accepted by the mirrored address' % (e['id'], e['data'].hex())))
                elif e['k'] == 'deliver':
                    delivered.append(e['data'])
                elif e['k'] == 'err':
                    out.append(('ignored', 'error %s although only foreign frames were interleaved with a clean reception' % e['name']))
        if delivered != [meta['m']]:
            out.append(('ignored', 'reception with interleaved foreign frames delivered %s' % [len(x) for x in delivered]))
        return out[:4]

    def nontrivial_key(self, sc, lines_in, impl_out):
        a = sc['meta']['addr']
        return (a['mode'], a.get('txid'), a.get('rxid'), a.get('target_address'), a.get('source_address'), a.get('address_extension'))

    def tally(self, dist, sc, lines_in, impl_out):
        PropBase.tally(self, dist, sc, lines_in, impl_out)
        k = 'mode:%d' % sc['meta']['addr']['mode']
        dist[k] = dist.get(k, 0) + 1
        dist['ifm_true'] = dist.get('ifm_true', 0) + sum(1 for l, o in zip(lines_in, impl_out) if l.startswith('ifm') and o == '1')


PROP = C09()
