import Isotp.PyAgree.EvalLemmas
import Isotp.Pdu
/-!
  `PDU.__init__` (isotp/protocol.py), as dumped in `Src.PDU_init`, is the model's `decode`, for ALL byte lists and start offsets.
  Environment: `pduEnv data start` (`msg.data`, `start_of_data`, the class constants); the function assigns `self.*` as it goes.

  * `pdu_init_rejects` (A) : `decode = none`    → the interpreted source raises `ValueError` (EVERY rejection is a `ValueError`:
                             no `IndexError` / `TypeError` / `AttributeError` / unsupported-construct path is reachable)
  * `pdu_init_accepts` (B) : `decode = some dd` → the run falls off the end (`None`) and the object holds `fieldsOf dd`
                             (`can_dl`, `rx_dl`, `type`, and the fields of the frame kind); a Flow Control has `stmin_sec ≠ None`
  * `pdu_init_isOk`        : the run succeeds exactly when `decode` does

  Structure of the proof = structure of the source (`PDU_init_shape`, `dispatch_shape`, both by `rfl` on the generated text):
  prologue (13 statements: `prologue_reject` / `prologue_ok`), the `hnb` statement (`hnb_empty` / `hnb_unknown` / `hnb_ok`),
  the dispatch on `self.type` (`dispatch_sf` ...), one lemma per frame-type branch (`sf_branch`, `ff_branch`, `cf_branch`,
  `fc_branch`: the branch agrees with `decodeBody`), assembled in `body_agrees`.

  Evaluation is by `pdu_eval`: `simp only` with the interpreter's equations and value-level lemmas (never `evalCmp` / `evalBinop` /
  `bind` themselves); every guard is decided by `omega` as the discharger (`ite_decide_pos` / `ite_decide_neg`, `index_ok`).
  Proof-engineering note: several rewrite rules are `rfl`-lemmas, so the kernel re-checks some steps by conversion; it must never
  be led to compute with `_ * 16777216` on symbolic bytes (unary recursion on the literal), hence the 32-bit First Frame length is
  kept as an atom `L` in that leaf.
-/
namespace Isotp.PyAgree
open Isotp Isotp.Py

/-! ### bytes and bit operations -/

theorem byteAt_lt (d : Bytes) (i : Nat) : byteAt d i < 256 := by
  unfold byteAt; exact UInt8.toNat_lt _

theorem byteAt_eq_getElem (d : Bytes) (i : Nat) (h : i < d.length) : (d[i]'h).toNat = byteAt d i := by
  simp [byteAt, List.getD_eq_getElem?_getD, h]

theorem shr4 (x : Nat) : x >>> 4 = x / 16 := by simp [Nat.shiftRight_eq_div_pow]

theorem div16_and15 (x : Nat) (h : x < 256) : (x / 16) &&& 15 = x / 16 := by rw [and_f]; omega

theorem or_eq_add (a b i : Nat) (ha : a % 2 ^ i = 0) (hb : b < 2 ^ i) : a ||| b = a + b := by
  have e : a = (a / 2 ^ i) <<< i := by
    rw [Nat.shiftLeft_eq]
    have := Nat.div_add_mod a (2 ^ i)
    rw [ha, Nat.mul_comm] at this
    omega
  rw [e, Nat.shiftLeft_add_eq_or_of_lt hb]

theorem shl8_or (a b : Nat) (h : b < 256) : (a <<< 8) ||| b = a * 256 + b := by
  rw [or_eq_add _ _ 8 _ (by simpa using h)] <;> simp [Nat.shiftLeft_eq]

/-- the 4-byte big-endian combination of the 32-bit First Frame length -/
theorem be32 (a b c e : Nat) (hb : b < 256) (hc : c < 256) (he : e < 256) :
    (((a <<< 24) ||| (b <<< 16)) ||| (c <<< 8)) ||| (e <<< 0) = a * 16777216 + b * 65536 + c * 256 + e := by
  simp only [Nat.shiftLeft_eq, Nat.reducePow, Nat.mul_one]
  rw [or_eq_add (a * 16777216) (b * 65536) 24 (by omega) (by omega),
    or_eq_add (a * 16777216 + b * 65536) (c * 256) 16 (by omega) (by omega),
    or_eq_add (a * 16777216 + b * 65536 + c * 256) e 8 (by omega) (by omega)]

/-! ### value-level evaluation lemmas -/

theorem cmp_lt_pint (a b : Int) : evalCmp .lt (pint a) (pint b) = .ok (pbool (decide (a < b))) := rfl
theorem cmp_gt_pint (a b : Int) : evalCmp .gt (pint a) (pint b) = .ok (pbool (decide (b < a))) := rfl
theorem beq_int (a b : Int) : (a == b) = decide (a = b) := by
  by_cases h : a = b
  · subst h; simp
  · have : (a == b) = false := by rw [beq_eq_false_iff_ne]; exact h
    simp [this, h]
theorem cmp_le_pint (a b : Int) : evalCmp .le (pint a) (pint b) = .ok (pbool (decide (a ≤ b))) := by
  have e : evalCmp .le (pint a) (pint b) = .ok (pbool (decide (a < b) || (a == b))) := rfl
  rw [e, beq_int]; congr 3; rw [Bool.eq_iff_iff]; simp; omega
theorem cmp_ge_pint (a b : Int) : evalCmp .ge (pint a) (pint b) = .ok (pbool (decide (b ≤ a))) := by
  have e : evalCmp .ge (pint a) (pint b) = .ok (pbool (decide (b < a) || (a == b))) := rfl
  rw [e, beq_int]; congr 3; rw [Bool.eq_iff_iff]; simp; omega
theorem cmp_eq_pint (a b : Int) : evalCmp .eq (pint a) (pint b) = .ok (pbool (decide (a = b))) := by
  rw [evalCmp_eq, pvEq_pint, beq_int]
theorem cmp_ne_pint (a b : Int) : evalCmp .ne (pint a) (pint b) = .ok (pbool (decide (a ≠ b))) := by
  rw [evalCmp_ne, pvEq_pint, beq_int]; simp

theorem bi_len (b : Bytes) : evalBuiltin "len" [.bytes b] = some (.ok (pint b.length)) := rfl
theorem bi_int (i : Int) : evalBuiltin "int" [pint i] = some (.ok (pint i)) := rfl
theorem bi_bytes0 : evalBuiltin "bytes" [] = some (.ok (.bytes [])) := rfl
theorem bi_max8 (n : Nat) : evalBuiltin "max" [pint 8, pint n] = some (.ok (pint (max 8 n : Nat))) := by
  have e : evalBuiltin "max" [pint 8, pint n] = some (.ok (if (n : Int) > 8 then pint n else pint 8)) := rfl
  rw [e]; congr 2
  by_cases h : (n : Int) > 8
  · rw [if_pos h, show max 8 n = n by omega]
  · rw [if_neg h, show max 8 n = 8 by omega]; rfl
/-- `min(self.length, datalen - k)` -/
theorem bi_min_sub (l n : Nat) (k : Int) (hk : 0 ≤ k) (hkn : k ≤ n) :
    evalBuiltin "min" [pint l, pint ((n : Int) - k)] = some (.ok (pint (min l (n - k.toNat) : Nat))) := by
  have e : evalBuiltin "min" [pint l, pint ((n : Int) - k)]
      = some (.ok (if ((n : Int) - k) < l then pint ((n : Int) - k) else pint l)) := rfl
  rw [e]; congr 2; split <;> (congr 3; omega)

theorem natIdx_int (i : Int) (h : 0 ≤ i) : natIdx (pint i) = .ok i.toNat := by
  have h' : ¬ i < 0 := by omega
  simp [natIdx, asInt, Sc.isInt, Sc.intVal, PyVal.isInt, PyVal.intVal, h']

theorem natIdx_nat (n : Nat) : natIdx (pint n) = .ok n := by
  rw [natIdx_int _ (Int.natCast_nonneg _), Int.toNat_natCast]
theorem natIdx_0 : natIdx (pint 0) = .ok 0 := natIdx_nat 0
theorem natIdx_1 : natIdx (pint 1) = .ok 1 := natIdx_nat 1
theorem natIdx_2 : natIdx (pint 2) = .ok 2 := natIdx_nat 2
theorem natIdx_3 : natIdx (pint 3) = .ok 3 := natIdx_nat 3
theorem natIdx_4 : natIdx (pint 4) = .ok 4 := natIdx_nat 4
theorem natIdx_5 : natIdx (pint 5) = .ok 5 := natIdx_nat 5
theorem natIdx_6 : natIdx (pint 6) = .ok 6 := natIdx_nat 6

/-- `b[k]` in bounds -/
theorem index_ok (b : Bytes) (k : Nat) (hk : k < b.length) :
    (if h : k < b.length then (Except.ok (pint ((b[k]'h).toNat : Nat)) : Except PErr PV) else .error (.exc .IndexError))
      = .ok (pint (byteAt b k)) := by
  rw [dif_pos hk, byteAt_eq_getElem]

theorem shr4_ev (x : Nat) : evalBinop .shr (pint x) (pint 4) = .ok (pint ((x / 16 : Nat))) := by
  rw [evalBinop_shr _ _ (Int.natCast_nonneg _) (by decide)]; simp [shr4]
theorem band15_ev (x : Nat) : evalBinop .band (pint x) (pint 15) = .ok (pint ((x % 16 : Nat))) := by
  rw [evalBinop_band _ _ (Int.natCast_nonneg _) (by decide)]; simp [and_f]
theorem shl_ev (x : Nat) (k : Int) (hk : 0 ≤ k) : evalBinop .shl (pint x) (pint k) = .ok (pint ((x <<< k.toNat : Nat))) := by
  rw [evalBinop_shl _ _ (Int.natCast_nonneg _) hk]; simp
theorem bor_ev (x y : Nat) : evalBinop .bor (pint x) (pint y) = .ok (pint ((x ||| y : Nat))) := by
  rw [evalBinop_bor _ _ (Int.natCast_nonneg _) (Int.natCast_nonneg _)]; simp
theorem truediv_ev (x y : Int) (hy : 0 < y) :
    evalBinop .truediv (pint x) (pint y) = .ok (.sc (.py (.float x y.natAbs))) := by
  have h1 : ¬ y = 0 := by omega
  have h2 : ¬ y < 0 := by omega
  simp [evalBinop, asInt, Sc.isInt, Sc.intVal, PyVal.isInt, PyVal.intVal, h1, h2]

theorem raise_VE (M : Meths) (env : Env) : execStmt M env (.raise "ValueError") = .error (.exc .ValueError) := rfl
theorem float_beq_none (a : Int) (b : Nat) : ((PV.sc (.py (.float a b))) == pnone) = false := rfl
theorem none_beq_none : (pnone == pnone) = true := rfl

theorem set_apply (env : Env) (k : String) (v : PV) (k' : String) :
    (env.set k v) k' = if k' = k then some v else env k' := rfl

theorem ite_decide_pos {α : Sort _} {c : Prop} [Decidable c] (a b : α) (h : c) : (if decide c = true then a else b) = a := by
  simp [h]
theorem ite_decide_neg {α : Sort _} {c : Prop} [Decidable c] (a b : α) (h : ¬ c) : (if decide c = true then a else b) = b := by
  simp [h]
theorem ite_tt {α : Sort _} (a b : α) : (if true = true then a else b) = a := rfl
theorem ite_ff {α : Sort _} (a b : α) : (if false = true then a else b) = b := rfl

/-- a block of one statement -/
theorem execBlock_single (M : Meths) (env : Env) (s : PStmt) : execBlock M env (.cons s .nil) = execStmt M env s := by
  simp only [execBlock]
  cases execStmt M env s with
  | error e => rfl
  | ok f => cases f <;> rfl

/-- symbolic evaluation of a block: unfold the interpreter, evaluate at the level of Python values, decide the guards by `omega` -/
macro "pdu_eval" "[" ts:Lean.Parser.Tactic.simpLemma,* "]" : tactic =>
  `(tactic| simp (disch := omega) only [↓execBlock_single, decide_true, decide_false, execBlock, execStmt, eval, evalArgs, ok_bind, error_bind, set_apply, String.reduceEq,
      ↓reduceIte, cmp_lt_pint, cmp_gt_pint, cmp_le_pint, cmp_ge_pint, cmp_eq_pint, cmp_ne_pint, bi_len, bi_int, bi_bytes0,
      bi_max8, bi_min_sub, natIdx_nat, natIdx_0, natIdx_1, natIdx_2, natIdx_3, natIdx_4, natIdx_5, natIdx_6, index_ok, shr4_ev, band15_ev, shl_ev, bor_ev, truediv_ev, evalBinop_sub, raise_VE,
      float_beq_none, none_beq_none, ite_decide_pos, ite_decide_neg, ite_tt, ite_ff, truthy_pbool, Int.toNat_natCast,
      Int.reduceToNat, shl8_or, $ts,*])

/-! ### the source, cut along its structure -/

def bdrop : Nat → PBlock → PBlock
  | 0, b => b
  | _ + 1, .nil => .nil
  | n + 1, .cons _ r => bdrop n r
def bhead : PBlock → PStmt
  | .cons s _ => s
  | .nil => .pass
def thenOf : PStmt → PBlock
  | .ite _ t _ => t
  | _ => .nil
def elseOf : PStmt → PBlock
  | .ite _ _ e => e
  | _ => .nil

/-- `if datalen > 0: hnb = ...; ...; self.type = int(hnb)  else: raise` -/
def hnbStmt : PStmt := bhead (bdrop 13 Src.PDU_init)
/-- `if self.type == SINGLE_FRAME: ... elif ... else: raise` -/
def dispatchStmt : PStmt := bhead (bdrop 14 Src.PDU_init)
def sfBranch : PBlock := thenOf dispatchStmt
def ffStmt : PStmt := bhead (elseOf dispatchStmt)
def ffBranch : PBlock := thenOf ffStmt
def cfStmt : PStmt := bhead (elseOf ffStmt)
def cfBranch : PBlock := thenOf cfStmt
def fcStmt : PStmt := bhead (elseOf cfStmt)
def fcBranch : PBlock := thenOf fcStmt

theorem PDU_init_shape : Src.PDU_init =
    (.cons (.assign "self.data" (.call "bytes" .nil))
    (.cons (.assign "self.length" .none)
    (.cons (.assign "self.blocksize" .none)
    (.cons (.assign "self.stmin" .none)
    (.cons (.assign "self.stmin_sec" .none)
    (.cons (.assign "self.seqnum" .none)
    (.cons (.assign "self.flow_status" .none)
    (.cons (.assign "self.escape_sequence" .ff)
    (.cons (.ite (.cmp .lt (.call "len" (.cons (.var "msg.data") .nil)) (.var "start_of_data")) (.cons (.raise "ValueError") .nil) .nil)
    (.cons (.assign "self.can_dl" (.call "len" (.cons (.var "msg.data") .nil)))
    (.cons (.assign "self.rx_dl" (.call "max" (.cons (.int (8)) (.cons (.var "self.can_dl") .nil))))
    (.cons (.assign "msg_data" (.sliceFrom (.var "msg.data") (.var "start_of_data")))
    (.cons (.assign "datalen" (.call "len" (.cons (.var "msg_data") .nil)))
    (.cons hnbStmt (.cons dispatchStmt .nil))))))))))))))) := rfl

theorem dispatch_shape : dispatchStmt =
    .ite (.cmp .eq (.var "self.type") (.var "self.Type.SINGLE_FRAME")) sfBranch
    (.cons (.ite (.cmp .eq (.var "self.type") (.var "self.Type.FIRST_FRAME")) ffBranch
    (.cons (.ite (.cmp .eq (.var "self.type") (.var "self.Type.CONSECUTIVE_FRAME")) cfBranch
    (.cons (.ite (.cmp .eq (.var "self.type") (.var "self.Type.FLOW_CONTROL")) fcBranch
    (.cons (.raise "ValueError") .nil)) .nil)) .nil)) .nil) := rfl

/-! ### environments -/

/-- the arguments of `PDU.__init__(self, msg, start_of_data)`; `self` only has its class constants -/
def pduEnv (data : Bytes) (start : Nat) : Env := fun k =>
  match k with
  | "msg.data" => some (.bytes data)
  | "start_of_data" => some (pint start)
  | _ => constEnv k

theorem pduEnv_data (data : Bytes) (start : Nat) : pduEnv data start "msg.data" = some (.bytes data) := rfl
theorem pduEnv_start (data : Bytes) (start : Nat) : pduEnv data start "start_of_data" = some (pint start) := rfl
theorem pduEnv_t0 (data : Bytes) (start : Nat) : pduEnv data start "self.Type.SINGLE_FRAME" = some (pint 0) := rfl
theorem pduEnv_t1 (data : Bytes) (start : Nat) : pduEnv data start "self.Type.FIRST_FRAME" = some (pint 1) := rfl
theorem pduEnv_t2 (data : Bytes) (start : Nat) : pduEnv data start "self.Type.CONSECUTIVE_FRAME" = some (pint 2) := rfl
theorem pduEnv_t3 (data : Bytes) (start : Nat) : pduEnv data start "self.Type.FLOW_CONTROL" = some (pint 3) := rfl

/-- the object after the prologue (up to `datalen = len(msg_data)`) -/
def envPrologue (data : Bytes) (start : Nat) : Env :=
  ((((((((((((pduEnv data start).set "self.data" (.bytes [])).set "self.length" pnone).set "self.blocksize" pnone).set
    "self.stmin" pnone).set "self.stmin_sec" pnone).set "self.seqnum" pnone).set "self.flow_status" pnone).set
    "self.escape_sequence" (pbool false)).set "self.can_dl" (pint data.length)).set "self.rx_dl" (pint (max 8 data.length : Nat))).set
    "msg_data" (.bytes (data.drop start))).set "datalen" (pint (data.drop start).length)

/-- what the branches need to know about the environment they start in -/
structure Ready (env : Env) (d : Bytes) : Prop where
  md : env "msg_data" = some (.bytes d)
  dl : env "datalen" = some (pint d.length)
  ss : env "self.stmin_sec" = some pnone
  es : env "self.escape_sequence" = some (pbool false)
  t0 : env "self.Type.SINGLE_FRAME" = some (pint 0)
  t1 : env "self.Type.FIRST_FRAME" = some (pint 1)
  t2 : env "self.Type.CONSECUTIVE_FRAME" = some (pint 2)
  t3 : env "self.Type.FLOW_CONTROL" = some (pint 3)

theorem ready_prologue (data : Bytes) (start : Nat) : Ready (envPrologue data start) (data.drop start) := by
  constructor <;> simp only [envPrologue, set_apply, String.reduceEq, ↓reduceIte, pduEnv_t0, pduEnv_t1, pduEnv_t2, pduEnv_t3]

/-! ### stage 1: the prologue -/

theorem prologue_reject (data : Bytes) (start : Nat) (h : data.length < start) :
    execBlock noMeths (pduEnv data start) Src.PDU_init = .error (.exc .ValueError) := by
  rw [PDU_init_shape]
  pdu_eval [pduEnv_data, pduEnv_start]

theorem prologue_ok (data : Bytes) (start : Nat) (h : ¬ data.length < start) :
    execBlock noMeths (pduEnv data start) Src.PDU_init
      = execBlock noMeths (envPrologue data start) (.cons hnbStmt (.cons dispatchStmt .nil)) := by
  rw [PDU_init_shape]
  pdu_eval [pduEnv_data, pduEnv_start]
  rfl

/-! ### stage 2: the frame type `hnb = (msg_data[0] >> 4) & 0xF` -/

def envHnb (env : Env) (d : Bytes) : Env :=
  (env.set "hnb" (pint (byteAt d 0 / 16 : Nat))).set "self.type" (pint (byteAt d 0 / 16 : Nat))

theorem hnb_empty (env : Env) (d : Bytes) (hr : Ready env d) (h : d.length = 0) :
    execStmt noMeths env hnbStmt = .error (.exc .ValueError) := by
  simp only [hnbStmt, bhead, bdrop, Src.PDU_init]
  pdu_eval [hr.md, hr.dl]

theorem hnb_unknown (env : Env) (d : Bytes) (hr : Ready env d) (h : 0 < d.length) (h3 : 3 < byteAt d 0 / 16) :
    execStmt noMeths env hnbStmt = .error (.exc .ValueError) := by
  have hb := byteAt_lt d 0
  simp only [hnbStmt, bhead, bdrop, Src.PDU_init]
  pdu_eval [hr.md, hr.dl]

theorem hnb_ok (env : Env) (d : Bytes) (hr : Ready env d) (h : 0 < d.length) (h3 : byteAt d 0 / 16 ≤ 3) :
    execStmt noMeths env hnbStmt = .ok (.next (envHnb env d)) := by
  have hb := byteAt_lt d 0
  have e : byteAt d 0 / 16 % 16 = byteAt d 0 / 16 := by omega
  simp only [hnbStmt, bhead, bdrop, Src.PDU_init]
  pdu_eval [hr.md, hr.dl, e]
  rfl

theorem ready_hnb (env : Env) (d : Bytes) (hr : Ready env d) : Ready (envHnb env d) d := by
  constructor <;> simp only [envHnb, set_apply, String.reduceEq, ↓reduceIte, hr.md, hr.dl, hr.ss, hr.es, hr.t0, hr.t1, hr.t2, hr.t3]

theorem envHnb_type (env : Env) (d : Bytes) : envHnb env d "self.type" = some (pint (byteAt d 0 / 16 : Nat)) := by
  simp only [envHnb, set_apply, ↓reduceIte]

/-! ### stage 3: the dispatch on `self.type` -/

theorem dispatch_sf (env : Env) (d : Bytes) (hr : Ready env d) (ht : env "self.type" = some (pint 0)) :
    execStmt noMeths env dispatchStmt = execBlock noMeths env sfBranch := by
  rw [dispatch_shape]; pdu_eval [ht, hr.t0, hr.t1, hr.t2, hr.t3]

theorem dispatch_ff (env : Env) (d : Bytes) (hr : Ready env d) (ht : env "self.type" = some (pint 1)) :
    execStmt noMeths env dispatchStmt = execBlock noMeths env ffBranch := by
  rw [dispatch_shape]; pdu_eval [ht, hr.t0, hr.t1, hr.t2, hr.t3]

theorem dispatch_cf (env : Env) (d : Bytes) (hr : Ready env d) (ht : env "self.type" = some (pint 2)) :
    execStmt noMeths env dispatchStmt = execBlock noMeths env cfBranch := by
  rw [dispatch_shape]; pdu_eval [ht, hr.t0, hr.t1, hr.t2, hr.t3]

theorem dispatch_fc (env : Env) (d : Bytes) (hr : Ready env d) (ht : env "self.type" = some (pint 3)) :
    execStmt noMeths env dispatchStmt = execBlock noMeths env fcBranch := by
  rw [dispatch_shape]; pdu_eval [ht, hr.t0, hr.t1, hr.t2, hr.t3]

/-! ### stage 4: one lemma per frame-type branch -/

/-- the attributes a decoded PDU of each kind carries -/
def pduFields : Pdu → List (String × PV)
  | .sf len data esc => [("self.length", pint len), ("self.data", .bytes data), ("self.escape_sequence", pbool esc)]
  | .ff len data esc => [("self.length", pint len), ("self.data", .bytes data), ("self.escape_sequence", pbool esc)]
  | .cf sn data => [("self.seqnum", pint sn), ("self.data", .bytes data)]
  | .fc status bs stmin => [("self.flow_status", pint status), ("self.blocksize", pint bs), ("self.stmin", pint stmin)]

/-- `PDU.Type` value -/
def typeCode : Pdu → Nat
  | .sf .. => 0 | .ff .. => 1 | .cf .. => 2 | .fc .. => 3

def isFc : Pdu → Bool
  | .fc .. => true | _ => false

/-- after a branch: the decoded fields are set, `can_dl` / `rx_dl` / `type` are untouched, and a Flow Control has a `stmin_sec` -/
structure Post (env env' : Env) (p : Pdu) : Prop where
  fields : ∀ kv ∈ pduFields p, env' kv.1 = some kv.2
  canDl : env' "self.can_dl" = env "self.can_dl"
  rxDl : env' "self.rx_dl" = env "self.rx_dl"
  type : env' "self.type" = env "self.type"
  stminSec : isFc p = true → ∃ v, env' "self.stmin_sec" = some v ∧ v ≠ pnone

/-- a branch agrees with the model on the body `d` -/
def Outcome (env : Env) (k : Nat) (r : Except PErr Flow) : Option Pdu → Prop
  | none => r = .error (.exc .ValueError)
  | some p => typeCode p = k ∧ ∃ env', r = .ok (.next env') ∧ Post env env' p

theorem validStmin_eq (st : Nat) : (validStmin st = true) = (st ≤ 127 ∨ (241 ≤ st ∧ st ≤ 249)) := by
  simp [validStmin]

/-- one leaf of the case split: evaluate the model, then the source -/
macro "leaf" "[" ts:Lean.Parser.Tactic.simpLemma,* "]" : tactic =>
  `(tactic| (simp (disch := omega) only [decodeBody, validStmin_eq, if_pos, if_neg, ne_eq, Outcome]; pdu_eval [$ts,*]))

/-- close a `Post` goal on an explicit environment -/
macro "post_tac" "[" ts:Lean.Parser.Tactic.simpLemma,* "]" : tactic =>
  `(tactic| (constructor <;> simp [pduFields, isFc, set_apply, $ts,*]))


theorem sf_branch (env : Env) (d : Bytes) (hr : Ready env d) (hn : 0 < d.length) (h0 : byteAt d 0 / 16 = 0) :
    Outcome env 0 (execBlock noMeths env sfBranch) (decodeBody d) := by
  have hb0 := byteAt_lt d 0
  have hb1 := byteAt_lt d 1
  simp only [sfBranch, thenOf, dispatchStmt, bhead, bdrop, Src.PDU_init]
  by_cases hlp : byteAt d 0 % 16 = 0
  · by_cases h2 : d.length < 2
    · leaf [hr.md, hr.dl]
    · by_cases hl0 : byteAt d 1 = 0
      · leaf [hr.md, hr.dl]
      · by_cases hl : byteAt d 1 > d.length - 2
        · leaf [hr.md, hr.dl]
        · leaf [hr.md, hr.dl]
          exact ⟨rfl, _, rfl, by post_tac []⟩
  · by_cases hl : byteAt d 0 % 16 > d.length - 1
    · leaf [hr.md, hr.dl]
    · leaf [hr.md, hr.dl]
      exact ⟨rfl, _, rfl, by post_tac [hr.es]⟩

theorem ff_branch (env : Env) (d : Bytes) (hr : Ready env d) (hn : 0 < d.length) (h0 : byteAt d 0 / 16 = 1) :
    Outcome env 1 (execBlock noMeths env ffBranch) (decodeBody d) := by
  have hb0 := byteAt_lt d 0
  have hb1 := byteAt_lt d 1
  have hb3 := byteAt_lt d 3
  have hb4 := byteAt_lt d 4
  have hb5 := byteAt_lt d 5
  simp only [ffBranch, ffStmt, elseOf, thenOf, dispatchStmt, bhead, bdrop, Src.PDU_init]
  by_cases h2 : d.length < 2
  · leaf [hr.md, hr.dl]
  · by_cases hlp : byteAt d 0 % 16 * 256 + byteAt d 1 = 0
    · by_cases h6 : d.length < 6
      · leaf [hr.md, hr.dl]
      · -- the 32-bit length is kept as an atom `L` (the kernel must never compute with `_ * 16777216`)
        obtain ⟨L, hL⟩ : ∃ L, L = byteAt d 2 * 16777216 + byteAt d 3 * 65536 + byteAt d 4 * 256 + byteAt d 5 := ⟨_, rfl⟩
        simp (disch := omega) only [decodeBody, if_pos, if_neg, ne_eq, Outcome]
        rw [← hL]
        pdu_eval [hr.md, hr.dl, (be32 _ _ _ _ hb3 hb4 hb5).trans hL.symm]
        exact ⟨rfl, _, rfl, by post_tac []⟩
    · leaf [hr.md, hr.dl]
      exact ⟨rfl, _, rfl, by post_tac [hr.es]⟩

theorem cf_branch (env : Env) (d : Bytes) (hr : Ready env d) (hn : 0 < d.length) (h0 : byteAt d 0 / 16 = 2) :
    Outcome env 2 (execBlock noMeths env cfBranch) (decodeBody d) := by
  simp only [cfBranch, cfStmt, ffStmt, elseOf, thenOf, dispatchStmt, bhead, bdrop, Src.PDU_init]
  leaf [hr.md, hr.dl]
  exact ⟨rfl, _, rfl, by post_tac []⟩

theorem fc_branch (env : Env) (d : Bytes) (hr : Ready env d) (hn : 0 < d.length) (h0 : byteAt d 0 / 16 = 3) :
    Outcome env 3 (execBlock noMeths env fcBranch) (decodeBody d) := by
  simp only [fcBranch, fcStmt, cfStmt, ffStmt, elseOf, thenOf, dispatchStmt, bhead, bdrop, Src.PDU_init]
  by_cases h3 : d.length < 3
  · leaf [hr.md, hr.dl]
  · by_cases hfs : byteAt d 0 % 16 ≥ 3
    · leaf [hr.md, hr.dl]
    · by_cases hs1 : byteAt d 2 ≤ 127
      · leaf [hr.md, hr.dl, hr.ss]
        exact ⟨rfl, _, rfl, by post_tac [float_beq_none]⟩
      · by_cases hs2 : 241 ≤ byteAt d 2
        · by_cases hs3 : byteAt d 2 ≤ 249
          · leaf [hr.md, hr.dl, hr.ss]
            exact ⟨rfl, _, rfl, by post_tac [float_beq_none]⟩
          · leaf [hr.md, hr.dl, hr.ss]
        · leaf [hr.md, hr.dl, hr.ss]

/-! ### assembling the stages -/

/-- everything after the prologue, on the body `d = msg.data[start_of_data:]` -/
theorem body_agrees (env : Env) (d : Bytes) (hr : Ready env d) :
    match decodeBody d with
    | none => execBlock noMeths env (.cons hnbStmt (.cons dispatchStmt .nil)) = .error (.exc .ValueError)
    | some p => typeCode p = byteAt d 0 / 16 ∧
        ∃ env', execBlock noMeths env (.cons hnbStmt (.cons dispatchStmt .nil)) = .ok (.next env') ∧ Post (envHnb env d) env' p := by
  by_cases hn : d.length = 0
  · have hm : decodeBody d = none := by simp (disch := omega) only [decodeBody, if_pos]
    simp only [hm, execBlock, hnb_empty env d hr hn, error_bind]
  · have hn' : 0 < d.length := by omega
    by_cases h3 : byteAt d 0 / 16 ≤ 3
    · have hr1 := ready_hnb env d hr
      have ht := envHnb_type env d
      have hrun : execBlock noMeths env (.cons hnbStmt (.cons dispatchStmt .nil))
          = execStmt noMeths (envHnb env d) dispatchStmt := by
        rw [execBlock, hnb_ok env d hr hn' h3]
        exact execBlock_single _ _ _
      rw [hrun]
      have hcases : byteAt d 0 / 16 = 0 ∨ byteAt d 0 / 16 = 1 ∨ byteAt d 0 / 16 = 2 ∨ byteAt d 0 / 16 = 3 := by omega
      rcases hcases with h | h | h | h
      · rw [dispatch_sf _ d hr1 (by rw [ht, h]; rfl)]
        have := sf_branch _ d hr1 hn' h
        rw [h]
        cases hd : decodeBody d <;> rw [hd] at this <;> exact this
      · rw [dispatch_ff _ d hr1 (by rw [ht, h]; rfl)]
        have := ff_branch _ d hr1 hn' h
        rw [h]
        cases hd : decodeBody d <;> rw [hd] at this <;> exact this
      · rw [dispatch_cf _ d hr1 (by rw [ht, h]; rfl)]
        have := cf_branch _ d hr1 hn' h
        rw [h]
        cases hd : decodeBody d <;> rw [hd] at this <;> exact this
      · rw [dispatch_fc _ d hr1 (by rw [ht, h]; rfl)]
        have := fc_branch _ d hr1 hn' h
        rw [h]
        cases hd : decodeBody d <;> rw [hd] at this <;> exact this
    · have hm : decodeBody d = none := by simp (disch := omega) only [decodeBody, if_neg]
      simp only [hm, execBlock, hnb_unknown env d hr hn' (by omega), error_bind]

/-- the attributes of the constructed object, as the model's `Decoded` gives them -/
def fieldsOf (dd : Decoded) : List (String × PV) :=
  [("self.can_dl", pint dd.canDl), ("self.rx_dl", pint dd.rxDl), ("self.type", pint (typeCode dd.pdu))] ++ pduFields dd.pdu

/-- **A (rejection)**: whenever the model rejects, the interpreted `PDU.__init__` raises `ValueError`
    (never `IndexError`, `TypeError`, or an unsupported construct). -/
theorem pdu_init_rejects (data : Bytes) (start : Nat) (h : decode data start = none) :
    runFn noMeths (pduEnv data start) Src.PDU_init = .error (.exc .ValueError) := by
  unfold runFn
  by_cases hs : data.length < start
  · rw [prologue_reject data start hs]
  · rw [prologue_ok data start hs]
    have hb := body_agrees _ _ (ready_prologue data start)
    cases hd : decodeBody (data.drop start) with
    | none => rw [hd] at hb; rw [hb]
    | some p => simp [decode, hs, hd] at h

/-- **B (acceptance)**: whenever the model accepts, the interpreted `PDU.__init__` returns `None` and the object holds the
    decoded fields (and `stmin_sec` is set for a Flow Control). -/
theorem pdu_init_accepts (data : Bytes) (start : Nat) (dd : Decoded) (h : decode data start = some dd) :
    ∃ env', runFn noMeths (pduEnv data start) Src.PDU_init = .ok (pnone, env') ∧
      (∀ kv ∈ fieldsOf dd, env' kv.1 = some kv.2) ∧
      (isFc dd.pdu = true → ∃ v, env' "self.stmin_sec" = some v ∧ v ≠ pnone) := by
  unfold runFn
  by_cases hs : data.length < start
  · simp [decode, hs] at h
  · rw [prologue_ok data start hs]
    have hb := body_agrees _ _ (ready_prologue data start)
    cases hd : decodeBody (data.drop start) with
    | none => simp [decode, hs, hd] at h
    | some p =>
      rw [hd] at hb
      obtain ⟨htc, env', hrun, hpost⟩ := hb
      have hdd : dd = { pdu := p, canDl := data.length, rxDl := max 8 data.length } := by
        simp [decode, hs, hd] at h; exact h.symm
      subst hdd
      refine ⟨env', by rw [hrun], ?_, hpost.stminSec⟩
      intro kv hkv
      simp only [fieldsOf, List.cons_append, List.nil_append, List.mem_cons] at hkv
      rcases hkv with rfl | rfl | rfl | hkv
      · rw [hpost.canDl]; simp only [envHnb, envPrologue, set_apply, String.reduceEq, ↓reduceIte]
      · rw [hpost.rxDl]; simp only [envHnb, envPrologue, set_apply, String.reduceEq, ↓reduceIte]
      · rw [hpost.type, envHnb_type, htc]
      · exact hpost.fields kv hkv

/-- **completeness of the case split**: the run succeeds exactly when the model decodes. -/
theorem pdu_init_isOk (data : Bytes) (start : Nat) :
    (runFn noMeths (pduEnv data start) Src.PDU_init).isOk = (decode data start).isSome := by
  cases h : decode data start with
  | none => rw [pdu_init_rejects data start h]; rfl
  | some dd =>
    obtain ⟨env', hrun, -⟩ := pdu_init_accepts data start dd h
    rw [hrun]; rfl

/-! non-vacuity of the hypotheses of A and B -/
example : decode [] 0 = none := by decide
example : decode [0x02, 0xAA, 0xBB] 1 = none := by decide
example : decode [0x02, 0xAA, 0xBB] 0 = some { pdu := .sf 2 [0xAA, 0xBB] false, canDl := 3, rxDl := 8 } := by decide
example : decode [0x30, 0x08, 0x14] 0 = some { pdu := .fc 0 8 20, canDl := 3, rxDl := 8 } := by decide

#print axioms pdu_init_rejects
#print axioms pdu_init_accepts
#print axioms pdu_init_isOk

end Isotp.PyAgree
