import Isotp.Process
/-
  C06 — property theorems (see DESIGN.md §6). Helper lemmas live in Isotp/Proofs.
-/
namespace Isotp.C06
open Isotp State

end Isotp.C06
