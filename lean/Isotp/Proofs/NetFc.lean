import Isotp.Proofs.NetFcRx
import Isotp.Proofs.NetFcTx
/-
  Network-level C01, "neither side reports an error" — part 4: the two-layer invariant `FcSync` and its preservation
  by every operation of the network (`Net.step`), for every schedule.

  `FcLayer S b s L psOwn psPeer` (layer `b` in state `s`, earlier events `L`): the SENDER LAW of `b` towards its peer
  (`SndFc`), the RECEIVER LAW of `b` (`RcvFc`), and "no `UnexpectedFlowControlError` so far".
  `FcSync`: `FcLayer` for both layers. `FcInv`: `NetInv` ∧ the payloads are admissible ∧ (valid STmin → no timeout
  reported → `FcSync`).
  What links the two layers is recomputed at the beginning of every operation from `NetInv` (conservation: FIFO links)
  and the peer's `FcLayer` (`FcCtx`): every frame the layer will read was emitted by the peer (`OutGood`), the data
  frames it will read are a prefix of the peer's stream, and
      (Flow Control frames read or in the inbox) ≤ (emitted by the peer) ≤ need(processed by the peer) ≤ need(emitted here).

  Main results: `FcMid.micro` (one micro-step of `process()`; built on `SndFc.micro`, `RcvFc.micro` of NetFcTx / NetFcRx),
  `FcLayer.process`, `fcCtx_start` (the link between the layers), `fcInv_step` (one `Net.step`), `fcInv_run` (every
  schedule), `noUfc_run` (no `UnexpectedFlowControlError`), `fcSync_credit` (a ContinueToSend is requested / in flight /
  in the mailbox only while the peer's transmit FSM is in WAIT_FC, and at most one).
-/
set_option linter.unusedSimpArgs false

namespace Isotp.NetP
open Isotp Isotp.State

/-! ### the log along the micro-steps -/

/-- the log only grows: no timeout after the step, no timeout before -/
theorem micro_noT {s s' : State} (L : List Ev) (hm : Micro s s') (hn : noT (s'.log ++ L) = true) :
    noT (s.log ++ L) = true := by
  cases hm with
  | frame dt m rest hin =>
    have := (rxOne_log s dt m rest).noT L hn
    rw [List.cons_append, noT_cons] at this
    exact (Bool.and_eq_true _ _ ▸ this).2
  | rxEnd hin => exact (rxEnd_log s).noT L hn
  | rl => exact hn
  | tx hx =>
    obtain ⟨mid, h1, h2⟩ := afterTxfn_log s
    rw [h2, List.append_assoc, noT_append] at hn
    exact h1.noT L (Bool.and_eq_true _ _ ▸ hn).2
  | txExc hx => exact (processTx_log s).noT L hn

/-- the number of emitted data frames only grows -/
theorem micro_dataOut_mono {s s' : State} (k : Nat) (L : List Ev) (hm : Micro s s') :
    (dataOut k (s.log ++ L).reverse).length ≤ (dataOut k (s'.log ++ L).reverse).length := by
  obtain ⟨out, ho⟩ := txOf_step L s s' hm
  unfold dataOut
  rw [ho, List.filter_append, List.map_append, List.length_append]
  omega

/-! ### what a layer reads was emitted by the peer -/

/-- a Flow Control frame of the peer carries the peer's block size -/
theorem outGood_fcBs (S : Setting) (hst : StminOk S) (b : Bool) (m : CanMsg)
    (h : OutGood (S.c (!b)) (S.a (!b)) (S.c b).maxFrameSize m) : FcBs (S.a b) (S.c (!b)).blocksize m := by
  intro _ st bb stm cdl rdl hd
  have hfc : isFc (S.a b).rx.rxPrefixSize m = true := decode_fc_isFc _ m _ st bb stm hd rfl
  rw [prefixSize_eq S b] at hfc hd
  obtain ⟨s0, hc0, ha0, rfl⟩ := h.2.1 hfc
  have hv : validStmin (s0.cfg.stmin % 256) = true := by
    have := hst (!b)
    rw [← hc0] at this
    have hlt : s0.cfg.stmin < 256 := by
      simp only [validStmin, Bool.or_eq_true, Bool.and_eq_true, decide_eq_true_eq] at this
      omega
    rw [Nat.mod_eq_of_lt hlt]; exact this
  have hdat : (Proofs.fcMsg s0 0).data = s0.addr.tx.txPrefix ++ fcData 0 s0.cfg.blocksize s0.cfg.stmin ++
      List.replicate (Spec.padTarget (Spec.TxCfg.of s0.cfg s0.addr)
        (s0.addr.tx.txPrefix ++ fcData 0 s0.cfg.blocksize s0.cfg.stmin).length -
        (s0.addr.tx.txPrefix ++ fcData 0 s0.cfg.blocksize s0.cfg.stmin).length) (Spec.padByte (Spec.TxCfg.of s0.cfg s0.addr)) := rfl
  rw [← ha0, hdat, Rx.decode_fc _ _ 0 _ _ (by decide) hv] at hd
  simp only [Option.some.injEq, Decoded.mk.injEq, Pdu.fc.injEq] at hd
  have hb : s0.cfg.blocksize ≤ 255 := by
    have hv := S.valid (!b)
    rw [← hc0] at hv
    simp only [Cfg.valid, Bool.and_eq_true, decide_eq_true_eq] at hv
    omega
  rw [← hc0, ← hd.1.2.1]
  exact Nat.mod_eq_of_lt (by omega)

/-! ### the invariant of one layer -/

/-- sender law towards the peer, receiver law, no `UnexpectedFlowControlError` so far -/
structure FcLayer (S : Setting) (b : Bool) (s : State) (L : List Ev) (psOwn psPeer : List Bytes) : Prop where
  snd : SndFc (S.c b) (S.a b) (S.c (!b)).blocksize s L psOwn
  rcv : RcvFc (S.a b) (S.c b).blocksize (lensOf (S.c (!b)) (S.a (!b)) psPeer) s L
  noUfc : NoUfc (s.log ++ L)

/-- the laws read the whole history and five state fields -/
theorem SndFc.rehist {c : Cfg} {a : Addr} {bs : Nat} {s s' : State} {L L' : List Ev} {ps : List Bytes}
    (h : SndFc c a bs s L ps) (h1 : s'.lastFc = s.lastFc) (h2 : s'.txState = s.txState) (h3 : s'.remoteBs = s.remoteBs)
    (h4 : s'.txBlockCnt = s.txBlockCnt) (hl : s'.log ++ L' = s.log ++ L) : SndFc c a bs s' L' ps := by
  obtain ⟨sl, tbT, tbW, mail⟩ := h
  constructor
  · rw [hl, h1, h2]; exact sl
  · rw [hl, h2, h3, h4]; exact tbT
  · rw [hl, h2]; exact tbW
  · rw [h1]; exact mail

theorem RcvFc.congr {a : Addr} {bs : Nat} {lens : List Nat} {s s' : State} {L L' : List Ev}
    (h : RcvFc a bs lens s L) (h1 : s'.pendingFc = s.pendingFc) (hl : s'.log ++ L' = s.log ++ L) :
    RcvFc a bs lens s' L' := by
  unfold RcvFc at h ⊢
  rw [hl, h1]; exact h

theorem FcLayer.congr {S : Setting} {b : Bool} {s s' : State} {L L' : List Ev} {psOwn psPeer : List Bytes}
    (h : FcLayer S b s L psOwn psPeer) (h1 : s'.lastFc = s.lastFc) (h2 : s'.txState = s.txState)
    (h3 : s'.remoteBs = s.remoteBs) (h4 : s'.txBlockCnt = s.txBlockCnt) (h5 : s'.pendingFc = s.pendingFc)
    (hl : s'.log ++ L' = s.log ++ L) : FcLayer S b s' L' psOwn psPeer :=
  ⟨h.snd.rehist h1 h2 h3 h4 hl, h.rcv.congr h5 hl, by rw [hl]; exact h.noUfc⟩

/-- the clock, the exception flag and the split of the history between `s.log` and `L` do not matter -/
theorem FcLayer.relabel {S : Setting} {b : Bool} {s : State} {L : List Ev} {psOwn psPeer : List Bytes}
    (h : FcLayer S b s L psOwn psPeer) (t : Nat) (lg L' : List Ev) (e : Option PyExc) (hlog : lg ++ L' = s.log ++ L) :
    FcLayer S b { s with now := t, log := lg, exc := e } L' psOwn psPeer :=
  h.congr rfl rfl rfl rfl rfl hlog

/-- more payloads accepted by the peer: its stream gets longer, the receiver law keeps holding -/
theorem FcLayer.peer_grow {S : Setting} {b : Bool} {s : State} {L : List Ev} {psOwn psPeer : List Bytes}
    (h : FcLayer S b s L psOwn psPeer) (more : List Bytes) : FcLayer S b s L psOwn (psPeer ++ more) := by
  refine ⟨h.snd, ?_, h.noUfc⟩
  have := h.rcv
  unfold RcvFc at this ⊢
  rw [lensOf_append]
  exact Nat.le_trans this (need_append_ge _ _ _ _)

/-! ### one operation: what is constant while layer `b` runs -/

/-- `sn`: the frames layer `b` has read or still has in its inbox; `e0`: the number of data frames it had emitted when
    the operation began -/
structure FcCtx (S : Setting) (b : Bool) (psOwn psPeer : List Bytes) (sn : List CanMsg) (e0 : Nat) : Prop where
  good : ∀ m ∈ sn, OutGood (S.c (!b)) (S.a (!b)) (S.c b).maxFrameSize m
  stream : fedsOf (S.a b) sn <+: Compose.stream (segA (S.c (!b)) (S.a (!b))) psPeer
  sendable : Compose.Sendable (State.init (S.c b) (S.a b)) psPeer
  cross : fcCount (S.a b).rx.rxPrefixSize sn ≤ need (S.c (!b)).blocksize (lensOf (S.c b) (S.a b) psOwn) e0

theorem setting_link (S : Setting) (b : Bool) : Compose.Link (S.c (!b)) (S.a (!b)) (State.init (S.c b) (S.a b)) :=
  ⟨S.valid (!b), S.wf (!b), by
    have hm := S.mirror (!b)
    rw [Bool.not_not] at hm
    exact hm⟩

/-- the invariant carried along the micro-steps of `process()` on layer `b` -/
structure FcMid (S : Setting) (b : Bool) (L : List Ev) (psOwn psPeer : List Bytes) (sn : List CanMsg) (e0 : Nat)
    (x : State) : Prop where
  seen : NetP.seen x L = sn
  safe : SafeOk x
  send2 : SendInv2 (S.c b) (S.a b) (S.c (!b)).maxFrameSize x L psOwn
  recv2 : RecvInv2 (S.c b) (S.a b) x L
  fc : noT (x.log ++ L) = true → FcLayer S b x L psOwn psPeer ∧
    e0 ≤ (dataOut (S.a b).tx.txPrefix.length (x.log ++ L).reverse).length

/-- **One micro-step of `process()` keeps the layer invariant.** -/
theorem FcMid.micro {S : Setting} (hst : StminOk S) {b : Bool} {L : List Ev} {psOwn psPeer : List Bytes}
    {sn : List CanMsg} {e0 : Nat} (ctx : FcCtx S b psOwn psPeer sn e0) {x y : State}
    (hx : FcMid S b L psOwn psPeer sn e0 x) (hm : Micro x y) : FcMid S b L psOwn psPeer sn e0 y := by
  refine ⟨(seen_step L x y hm).trans hx.seen, SafeOk.micro hx.safe hm, SendInv2.micro hx.safe hx.send2 hm,
    RecvInv2.step x y hx.recv2 hm, ?_⟩
  intro hn
  have hn0 := micro_noT L hm hn
  obtain ⟨hfl, he⟩ := hx.fc hn0
  have hgoodIn : ∀ m ∈ NetP.seen x L, InGood (S.c b) (S.a b) m := by
    intro m hmem
    rw [hx.seen] at hmem
    exact outGood_inGood S hst b m (ctx.good m hmem)
  have hok := hx.send2 hn0 hgoodIn
  have hfeeds := hx.recv2 hn0 hgoodIn
  have hbs : ∀ m ∈ NetP.seen x L, FcBs (S.a b) (S.c (!b)).blocksize m := by
    intro m hmem
    rw [hx.seen] at hmem
    exact outGood_fcBs S hst b m (ctx.good m hmem)
  have hcross : fcCount (S.a b).rx.rxPrefixSize (NetP.seen x L) ≤
      need (S.c (!b)).blocksize (lensOf (S.c b) (S.a b) psOwn)
        (dataOut (S.a b).tx.txPrefix.length (x.log ++ L).reverse).length := by
    rw [hx.seen]
    exact Nat.le_trans ctx.cross (need_mono _ _ he)
  obtain ⟨hsnd, hnu⟩ := SndFc.micro hm hx.safe hok hbs hcross hn hfl.snd hfl.noUfc
  have hadm := (setting_link S b).admissible psPeer ctx.sendable
  have hrcv := RcvFc.micro hm hx.safe hok.cfg hok.addr hadm hfeeds (by rw [hx.seen]; exact ctx.stream)
    (fun hnt hp => tx_out_notFc hx.safe hok hnt hp) hn hfl.rcv
  exact ⟨⟨hsnd, hrcv, hnu⟩, Nat.le_trans he (micro_dataOut_mono _ L hm)⟩

/-- **`process()` keeps the layer invariant.** -/
theorem FcLayer.process {S : Setting} (hst : StminOk S) {b : Bool} {s : State} {L : List Ev} {psOwn psPeer : List Bytes}
    (doRx doTx : Bool) (hsafe : SafeOk s)
    (h2 : noT (s.log ++ L) = true → Layer2 (S.c b) (S.a b) (S.c (!b)).maxFrameSize s L psOwn)
    (hfc : noT (s.log ++ L) = true → FcLayer S b s L psOwn psPeer)
    (ctx : FcCtx S b psOwn psPeer (seen s L) (dataOut (S.a b).tx.txPrefix.length (s.log ++ L).reverse).length)
    (hn : noT ((s.process doRx doTx).1.log ++ L) = true) :
    FcLayer S b (s.process doRx doTx).1 L psOwn psPeer := by
  have h0 : FcMid S b L psOwn psPeer (seen s L) (dataOut (S.a b).tx.txPrefix.length (s.log ++ L).reverse).length s :=
    ⟨rfl, hsafe, fun hn0 _ => (h2 hn0).send2, fun hn0 _ => (h2 hn0).feeds, fun hn0 => ⟨hfc hn0, Nat.le_refl _⟩⟩
  have := process_ind (FcMid S b L psOwn psPeer (seen s L) (dataOut (S.a b).tx.txPrefix.length (s.log ++ L).reverse).length)
    (fun x y hx hm => FcMid.micro hst ctx hx hm) doRx doTx s h0
  exact (this.fc hn).1

/-! ### the operations other than `process()` -/

theorem segA_length_pos (c : Cfg) (a : Addr) (p : Bytes) : 0 < (segA c a p).length := by
  rcases Proofs.Seg.segment_cases (Spec.TxCfg.of c a) p with ⟨-, h⟩ | ⟨-, -, h⟩ | ⟨-, -, h⟩ <;>
    (show 0 < (Spec.segment (Spec.TxCfg.of c a) p).length; rw [h]; simp)

theorem posIn_append_le (lens : List Nat) (l e : Nat) (he : e ≤ total lens) (hl : 0 < l) :
    posIn (lens ++ [l]) e = posIn lens e := by
  by_cases h : e < total lens
  · exact posIn_append_lt _ _ _ h
  · have : e = total lens := by omega
    subst this
    rw [posIn_total]
    have := (posIn_mid lens l [] 0 hl).1
    simpa using this

/-- one more payload accepted by `send()`: the stream gets longer behind the emitted frames -/
theorem SndFc.grow {c : Cfg} {a : Addr} {mx bs : Nat} {s : State} {L : List Ev} {ps : List Bytes}
    (h : SndFc c a bs s L ps) (hp : Progress c a mx s ps (dataOut a.tx.txPrefix.length (s.log ++ L).reverse)) (p : Bytes) :
    SndFc c a bs s L (ps ++ [p]) := by
  have hle : (dataOut a.tx.txPrefix.length (s.log ++ L).reverse).length ≤ total (lensOf c a ps) := by
    rw [total_lensOf]; exact hp.prefix.length_le
  have hpos : posIn (lensOf c a (ps ++ [p])) (dataOut a.tx.txPrefix.length (s.log ++ L).reverse).length =
      posIn (lensOf c a ps) (dataOut a.tx.txPrefix.length (s.log ++ L).reverse).length := by
    rw [lensOf_append]
    exact posIn_append_le _ _ _ hle (segA_length_pos c a p)
  obtain ⟨sl, tbT, tbW, mail⟩ := h
  constructor
  · rw [lensOf_append, need_append_le _ _ _ _ hle]; exact sl
  · rw [hpos]; exact tbT
  · rw [hpos]; exact tbW
  · exact mail

theorem FcLayer.sendOp {S : Setting} {b : Bool} {s : State} {L : List Ev} {psOwn psPeer : List Bytes}
    (h : FcLayer S b s L psOwn psPeer)
    (hp : Progress (S.c b) (S.a b) (S.c (!b)).maxFrameSize s psOwn (dataOut (S.a b).tx.txPrefix.length (s.log ++ L).reverse))
    (args : SendArgs) :
    FcLayer S b (s.send args).1 L (if queued (s.send args).2 then psOwn ++ [args.src] else psOwn) psPeer := by
  rcases C12.send_cases s args with ⟨hres, hst⟩ | ⟨hres, -, hst⟩
  · rw [hres, hst]; exact h
  · have hq : queued (s.send args).2 = true := by
      rw [hres]; cases s.cfg.blocking <;> rfl
    rw [hq, hst]
    have h1 : FcLayer S b s L (psOwn ++ [args.src]) psPeer := ⟨h.snd.grow hp _, h.rcv, h.noUfc⟩
    exact h1.congr rfl rfl rfl rfl rfl rfl

theorem FcLayer.recvOp {S : Setting} {b : Bool} {s : State} {L : List Ev} {psOwn psPeer : List Bytes}
    (h : FcLayer S b s L psOwn psPeer) : FcLayer S b s.recv.1 L psOwn psPeer := by
  unfold State.recv
  split
  · exact h
  · exact h.congr rfl rfl rfl rfl rfl rfl

theorem FcLayer.push {S : Setting} {b : Bool} {s : State} {L : List Ev} {psOwn psPeer : List Bytes}
    (h : FcLayer S b s L psOwn psPeer) (mv : List CanMsg) : FcLayer S b (pushAll s mv) L psOwn psPeer := by
  rw [pushAll_fields]
  exact h.congr rfl rfl rfl rfl rfl rfl

theorem fcLayer_init (S : Setting) (b : Bool) : FcLayer S b (State.init (S.c b) (S.a b)) [] [] [] := by
  refine ⟨⟨?_, ?_, ?_, ?_⟩, ?_, ?_⟩
  · simp [State.init, dataOut, Net.txOf, need_zero]
  · intro h; simp [State.init] at h
  · intro h; simp [State.init] at h
  · intro f h; simp [State.init] at h
  · simp [RcvFc, State.init, fcCount, Net.txOf, fed, rxOf, need_zero]
  · intro t h; simp [State.init] at h

/-! ### the link between the two layers, from conservation -/

/-- the data frames a layer has read or will read are among the data frames the peer has emitted, in order -/
theorem fedsOf_prefix_core (a aP : Addr) (sn ob txs : List CanMsg) (hcons : txs = sn ++ ob)
    (hacc : ∀ m ∈ txs, a.rx.isForMe m = true) (hk : a.rx.rxPrefixSize = aP.tx.txPrefix.length) :
    fedsOf a sn <+: (txs.filter (fun m => !isFc aP.tx.txPrefix.length m)).map (·.data) := by
  unfold fedsOf
  have hP : sn <+: txs := by rw [hcons]; exact List.prefix_append _ _
  rw [filter_congr_mem sn _ (fun m => !isFc aP.tx.txPrefix.length m) (by
    intro m hm
    rw [hacc m (hP.subset hm), hk]
    rfl)]
  exact (hP.filter _).map _

theorem Rep.unique {d : Net} {ly ly' : Bool → State} {ob ob' : Bool → List CanMsg} (h : Rep d ly ob) (h' : Rep d ly' ob') :
    ly = ly' ∧ ob = ob' := by
  have h1 := h.layers.symm.trans h'.layers
  have h2 := h.outbox.symm.trans h'.outbox
  simp only [Array.mk.injEq, List.cons.injEq, and_true] at h1 h2
  constructor
  · funext b; cases b; exact h1.1; exact h1.2
  · funext b; cases b; exact h2.1; exact h2.2

/-- **The context of an operation of layer `b`**, from the network invariant and the peer's receiver law. -/
theorem fcCtx_start (S : Setting) (tr : List NEv) (ly : Bool → State) (ob : Bool → List CanMsg)
    (hall : ∀ b, (ly b).log = [] ∧
      Net.txOf (logOf (idx b) tr) = seen (ly (!b)) (logOf (idx (!b)) tr).reverse ++ ob b)
    (h2 : ∀ b, Layer2 (S.c b) (S.a b) (S.c (!b)).maxFrameSize (ly b) (logOf (idx b) tr).reverse (sentOf (idx b) tr))
    (hfc : ∀ b, FcLayer S b (ly b) (logOf (idx b) tr).reverse (sentOf (idx b) tr) (sentOf (idx (!b)) tr))
    (hsend : ∀ b, Compose.Sendable (State.init (S.c b) (S.a b)) (sentOf (idx (!b)) tr)) (b : Bool) :
    FcCtx S b (sentOf (idx b) tr) (sentOf (idx (!b)) tr) (seen (ly b) (logOf (idx b) tr).reverse)
      (dataOut (S.a b).tx.txPrefix.length (logOf (idx b) tr)).length := by
  -- frames emitted by a layer, and what the invariants say about them
  have hframes : ∀ b' m, m ∈ Net.txOf (logOf (idx b') tr) →
      OutGood (S.c b') (S.a b') (S.c (!b')).maxFrameSize m := by
    intro b' m hm
    have := (h2 b').send2.frames m
    rw [(hall b').1, List.nil_append, List.reverse_reverse] at this
    exact this hm
  have hprog : ∀ b', dataOut (S.a b').tx.txPrefix.length (logOf (idx b') tr) <+:
      Compose.stream (segA (S.c b') (S.a b')) (sentOf (idx b') tr) := by
    intro b'
    have := (h2 b').send2.prog.prefix
    rw [(hall b').1, List.nil_append, List.reverse_reverse] at this
    exact this
  -- what layer `x` reads comes from layer `!x`
  have hfeds : ∀ x, fedsOf (S.a x) (seen (ly x) (logOf (idx x) tr).reverse) <+:
      dataOut (S.a (!x)).tx.txPrefix.length (logOf (idx (!x)) tr) := by
    intro x
    have hc := (hall (!x)).2
    rw [Bool.not_not] at hc
    refine fedsOf_prefix_core (S.a x) (S.a (!x)) _ (ob (!x)) _ hc ?_ (prefixSize_eq S x)
    intro m hm
    exact frameOk_accepted S x m (hframes (!x) m hm).1
  have hseenP : ∀ x, seen (ly x) (logOf (idx x) tr).reverse <+: Net.txOf (logOf (idx (!x)) tr) := by
    intro x
    have hc := (hall (!x)).2
    rw [Bool.not_not] at hc
    rw [hc]; exact List.prefix_append _ _
  refine ⟨?_, ?_, hsend b, ?_⟩
  · intro m hm
    have := hframes (!b) m ((hseenP b).subset hm)
    rw [Bool.not_not] at this
    exact this
  · exact (hfeds b).trans (hprog (!b))
  · -- Flow Control frames read or in the inbox ≤ emitted by the peer ≤ need(processed by the peer) ≤ need(emitted here)
    have h1 : fcCount (S.a b).rx.rxPrefixSize (seen (ly b) (logOf (idx b) tr).reverse) ≤
        fcCount (S.a (!b)).tx.txPrefix.length (Net.txOf (logOf (idx (!b)) tr)) := by
      rw [prefixSize_eq S b]
      exact fcCount_le_of_prefix _ (hseenP b)
    have h3 := (hfc (!b)).rcv
    unfold RcvFc at h3
    rw [(hall (!b)).1, List.nil_append, List.reverse_reverse, Bool.not_not] at h3
    have h4 : (fed (S.a (!b)) (logOf (idx (!b)) tr)).length ≤
        (dataOut (S.a b).tx.txPrefix.length (logOf (idx b) tr)).length := by
      have h5 := hfeds (!b)
      rw [Bool.not_not, fedsOf_seen, (hall (!b)).1, List.nil_append, List.reverse_reverse] at h5
      exact ((List.prefix_append _ _).trans h5).length_le
    have h6 := need_mono (S.c (!b)).blocksize (lensOf (S.c b) (S.a b) (sentOf (idx b) tr)) h4
    omega

/-! ### the invariant of the network -/

/-- **FcSync**: both layers satisfy their sender law, their receiver law, and have reported no
    `UnexpectedFlowControlError` -/
def FcSync (S : Setting) (d : Net) (tr : List NEv) : Prop :=
  ∃ ly ob, Rep d ly ob ∧
    ∀ b, FcLayer S b (ly b) (logOf (idx b) tr).reverse (sentOf (idx b) tr) (sentOf (idx (!b)) tr)

/-- the payloads accepted by each layer are admissible for the peer -/
def SendableAll (S : Setting) (tr : List NEv) : Prop :=
  ∀ b, Compose.Sendable (State.init (S.c b) (S.a b)) (sentOf (idx (!b)) tr)

/-- `NetInv`, admissible payloads, and — when the STmin values are valid and no timeout has been reported — `FcSync` -/
def FcInv (S : Setting) (d : Net) (tr : List NEv) : Prop :=
  NetInv S d tr ∧ SendableAll S tr ∧ (StminOk S → (∀ b, noT (logOf (idx b) tr) = true) → FcSync S d tr)

theorem noT_logOf_snoc (i : Nat) (tr : List NEv) (e : NEv) (h : noT (logOf i (tr ++ [e])) = true) :
    noT (logOf i tr) = true := by
  rw [logOf_snoc, noT_append] at h
  exact (Bool.and_eq_true _ _ ▸ h).1

/-- an operation on layer `b` -/
theorem fcSync_onLayer {α : Type} (S : Setting) (d : Net) (tr : List NEv) (ly : Bool → State)
    (ob : Bool → List CanMsg)
    (hall : ∀ b, (ly b).log = [] ∧
      LayerInv (S.c b) (S.a b) (S.c (!b)).maxFrameSize (ly b) (logOf (idx b) tr).reverse (sentOf (idx b) tr) (recvdOf (idx b) tr) ∧
      Net.txOf (logOf (idx b) tr) = seen (ly (!b)) (logOf (idx (!b)) tr).reverse ++ ob b)
    (h2 : ∀ b, Layer2 (S.c b) (S.a b) (S.c (!b)).maxFrameSize (ly b) (logOf (idx b) tr).reverse (sentOf (idx b) tr))
    (hfc : ∀ b, FcLayer S b (ly b) (logOf (idx b) tr).reverse (sentOf (idx b) tr) (sentOf (idx (!b)) tr))
    (hsend : SendableAll S tr)
    (b : Bool) (f : State → State × α) (mk : List Ev → α → NEv)
    (he1 : ∀ evs r, (mk evs r).evsOf (idx b) = evs) (he2 : ∀ evs r, (mk evs r).evsOf (idx (!b)) = [])
    (hs2 : ∀ evs r, sentOf (idx (!b)) [mk evs r] = [])
    (hF : ∀ (s0 : State) (L : List Ev) (psOwn psPeer : List Bytes), SafeOk s0 →
      Layer2 (S.c b) (S.a b) (S.c (!b)).maxFrameSize s0 L psOwn → FcLayer S b s0 L psOwn psPeer →
      FcCtx S b psOwn psPeer (seen s0 L) (dataOut (S.a b).tx.txPrefix.length (s0.log ++ L).reverse).length →
      noT ((f s0).1.log ++ L) = true →
      FcLayer S b (f s0).1 L (psOwn ++ sentOf (idx b) [mk (f s0).1.log.reverse (f s0).2]) psPeer)
    (d' : Net) (xb : List CanMsg)
    (hrep' : Rep d' (upd ly b { (f { ly b with now := d.now, log := [] }).1 with log := [], exc := none }) (upd ob b xb))
    (hnT : noT (logOf (idx b) (tr ++ [mk (f { ly b with now := d.now, log := [] }).1.log.reverse
      (f { ly b with now := d.now, log := [] }).2])) = true) :
    FcSync S d' (tr ++ [mk (f { ly b with now := d.now, log := [] }).1.log.reverse
      (f { ly b with now := d.now, log := [] }).2]) := by
  refine ⟨_, _, hrep', ?_⟩
  obtain ⟨hlog, hL, -⟩ := hall b
  have hsafe0 := (hL.relabel d.now [] (logOf (idx b) tr).reverse (ly b).exc hL.safe.2 (by rw [hlog])).safe
  have h20 := (h2 b).relabel d.now [] (logOf (idx b) tr).reverse (ly b).exc (by rw [hlog])
  have hfc0 := (hfc b).relabel d.now [] (logOf (idx b) tr).reverse (ly b).exc (by rw [hlog])
  have hseen0 := seen_relabel (ly b) (logOf (idx b) tr).reverse d.now [] (logOf (idx b) tr).reverse (ly b).exc
    (by rw [hlog])
  have hctx := fcCtx_start S tr ly ob (fun x => ⟨(hall x).1, (hall x).2.2⟩) h2 hfc hsend b
  have hctx0 : FcCtx S b (sentOf (idx b) tr) (sentOf (idx (!b)) tr)
      (seen ({ ly b with now := d.now, log := [], exc := (ly b).exc } : State) (logOf (idx b) tr).reverse)
      (dataOut (S.a b).tx.txPrefix.length
        (({ ly b with now := d.now, log := [], exc := (ly b).exc } : State).log ++ (logOf (idx b) tr).reverse).reverse).length := by
    rw [hseen0]
    simpa using hctx
  generalize ({ ly b with now := d.now, log := [] } : State) = s0 at hsafe0 h20 hfc0 hctx0 hnT ⊢
  have hlogb : (logOf (idx b) (tr ++ [mk (f s0).1.log.reverse (f s0).2])).reverse =
      (f s0).1.log ++ (logOf (idx b) tr).reverse := by
    rw [logOf_snoc, he1, List.reverse_append, List.reverse_reverse]
  have hlognb : logOf (idx (!b)) (tr ++ [mk (f s0).1.log.reverse (f s0).2]) = logOf (idx (!b)) tr := by
    rw [logOf_snoc, he2, List.append_nil]
  have hnAfter : noT ((f s0).1.log ++ (logOf (idx b) tr).reverse) = true := by
    rw [← noT_reverse, hlogb] at hnT
    exact hnT
  have hres := hF s0 _ _ _ hsafe0 h20 hfc0 hctx0 hnAfter
  intro b'
  by_cases hb : b' = b
  · subst hb
    rw [upd_same, hlogb, sentOf_snoc, sentOf_snoc, hs2, List.append_nil]
    exact hres.relabel (f s0).1.now [] _ none rfl
  · have hb' := eq_not_of_ne hb
    subst hb'
    rw [upd_other, hlognb, sentOf_snoc, hs2, List.append_nil, sentOf_snoc]
    have := (hfc (!b)).peer_grow (sentOf (idx (!(!b))) [mk (f s0).1.log.reverse (f s0).2])
    exact this

/-- an observation that concerns no layer -/
theorem fcSync_silent (S : Setting) (d : Net) (tr : List NEv) (e : NEv) (he : ∀ i, e.evsOf i = [])
    (hs : ∀ i, sentOf i [e] = []) (h : FcSync S d tr) : FcSync S d (tr ++ [e]) := by
  obtain ⟨ly, ob, hrep, hfc⟩ := h
  refine ⟨ly, ob, hrep, fun b => ?_⟩
  simp only [logOf_snoc, sentOf_snoc, he, hs, List.append_nil]
  exact hfc b

theorem sentOf_sent (i : Nat) (a : SendArgs) (r : Option PyExc) (evs : List Ev) :
    sentOf i [NEv.sent i a r evs] = if queued r then [a.src] else [] := by
  simp only [sentOf, List.filterMap_cons, List.filterMap_nil, true_and]
  cases queued r <;> rfl

theorem sendableAll_step (S : Setting) (d : Net) (tr : List NEv) (h : SendableAll S tr) (op : NOp) (hok : op.ok S) :
    SendableAll S (tr ++ [(Net.step d op).2]) := by
  intro b p hp
  rw [sentOf_snoc] at hp
  rcases List.mem_append.mp hp with hp | hp
  · exact h b p hp
  · obtain ⟨a, res, evs, hmem, rfl⟩ := mem_sentOf _ _ p hp
    simp only [List.mem_singleton] at hmem
    have hop := step_sent d op _ a res evs hmem.symm
    subst hop
    obtain ⟨-, h1, h2, h3⟩ := hok
    have := h3 (!b) rfl
    rw [Bool.not_not] at this
    exact ⟨h1, this, h2⟩

/-- **One operation** keeps `FcInv`. -/
theorem fcInv_step (S : Setting) (d : Net) (tr : List NEv) (h : FcInv S d tr) (op : NOp) (hok : op.ok S) :
    FcInv S (Net.step d op).1 (tr ++ [(Net.step d op).2]) := by
  refine ⟨netInv_step S d tr h.1 op hok, sendableAll_step S d tr h.2.1 op hok, ?_⟩
  intro hst hnT
  have hnTold : ∀ b, noT (logOf (idx b) tr) = true := fun b => noT_logOf_snoc _ _ _ (hnT b)
  have hsync := h.2.2 hst hnTold
  have hsend := h.2.1
  obtain ⟨ly, ob, hrep, hall, hcond⟩ := h.1
  have h2 := hcond hst hnTold
  have hfc : ∀ b, FcLayer S b (ly b) (logOf (idx b) tr).reverse (sentOf (idx b) tr) (sentOf (idx (!b)) tr) := by
    obtain ⟨ly', ob', hrep', hfc'⟩ := hsync
    obtain ⟨e1, -⟩ := Rep.unique hrep hrep'
    subst e1
    exact hfc'
  have hinvalid : FcSync S d (tr ++ [NEv.invalid]) :=
    fcSync_silent S d tr _ (fun _ => rfl) (fun _ => rfl) hsync
  cases op with
  | send i a =>
    by_cases hi : i < 2
    · obtain ⟨b, rfl⟩ := exists_idx i hi
      obtain ⟨d', hon, hrepN⟩ := onLayer_rep hrep b (fun s => s.send a)
      have hnTb := hnT b
      simp only [Net.step, hon] at hnTb ⊢
      refine fcSync_onLayer S d tr ly ob hall h2 hfc hsend b (fun s => s.send a)
        (fun evs r => NEv.sent (idx b) a r evs) (fun _ _ => by simp [NEv.evsOf])
        (fun _ _ => by simp [NEv.evsOf, (idx_ne b).symm]) (fun _ _ => by simp [sentOf, (idx_ne b).symm])
        ?_ d' _ hrepN hnTb
      intro s0 L psOwn psPeer _ hl2 hl _ _
      have := hl.sendOp hl2.send2.prog a
      rw [sentOf_sent]
      cases hq : queued (s0.send a).2
      · simpa [hq] using this
      · simpa [hq] using this
    · simp only [Net.step, onLayer_none hrep i (by omega)]
      exact hinvalid
  | proc i =>
    by_cases hi : i < 2
    · obtain ⟨b, rfl⟩ := exists_idx i hi
      obtain ⟨d', hon, hrepN⟩ := onLayer_rep hrep b (fun s => s.process true true)
      have hnTb := hnT b
      simp only [Net.step, hon] at hnTb ⊢
      refine fcSync_onLayer S d tr ly ob hall h2 hfc hsend b (fun s => s.process true true)
        (fun evs _ => NEv.procd (idx b) evs) (fun _ _ => by simp [NEv.evsOf])
        (fun _ _ => by simp [NEv.evsOf, (idx_ne b).symm]) (fun _ _ => rfl)
        ?_ d' _ hrepN hnTb
      intro s0 L psOwn psPeer hsafe hl2 hl hctx hn
      simp only [sentOf_procd, List.append_nil]
      exact FcLayer.process hst true true hsafe (fun _ => hl2) (fun _ => hl) hctx hn
    · simp only [Net.step, onLayer_none hrep i (by omega)]
      exact hinvalid
  | procTx i =>
    by_cases hi : i < 2
    · obtain ⟨b, rfl⟩ := exists_idx i hi
      obtain ⟨d', hon, hrepN⟩ := onLayer_rep hrep b (fun s => s.process false true)
      have hnTb := hnT b
      simp only [Net.step, hon] at hnTb ⊢
      refine fcSync_onLayer S d tr ly ob hall h2 hfc hsend b (fun s => s.process false true)
        (fun evs _ => NEv.procd (idx b) evs) (fun _ _ => by simp [NEv.evsOf])
        (fun _ _ => by simp [NEv.evsOf, (idx_ne b).symm]) (fun _ _ => rfl)
        ?_ d' _ hrepN hnTb
      intro s0 L psOwn psPeer hsafe hl2 hl hctx hn
      simp only [sentOf_procd, List.append_nil]
      exact FcLayer.process hst false true hsafe (fun _ => hl2) (fun _ => hl) hctx hn
    · simp only [Net.step, onLayer_none hrep i (by omega)]
      exact hinvalid
  | deliver i k =>
    by_cases hi : i < 2
    · obtain ⟨b, rfl⟩ := exists_idx i hi
      obtain ⟨d', hdel, -, hrepN⟩ := deliver_rep hrep b k
      simp only [Net.step, hi, if_true, hdel]
      refine fcSync_silent S d' tr _ (fun _ => rfl) (fun _ => rfl) ⟨_, _, hrepN, ?_⟩
      intro b'
      by_cases hb : b' = b
      · subst hb
        simp only [upd_not]
        exact hfc b'
      · have hb' := eq_not_of_ne hb
        subst hb'
        simp only [upd_same]
        exact (hfc (!b)).push _
    · simp only [Net.step, hi, if_false]
      exact hinvalid
  | tick dt =>
    simp only [Net.step]
    exact fcSync_silent S _ tr _ (fun _ => rfl) (fun _ => rfl)
      ⟨ly, ob, ⟨hrep.layers, hrep.outbox, hrep.faults⟩, hfc⟩
  | recv i =>
    by_cases hi : i < 2
    · obtain ⟨b, rfl⟩ := exists_idx i hi
      obtain ⟨d', hon, hrepN⟩ := onLayer_rep hrep b State.recv
      have hnTb := hnT b
      simp only [Net.step, hon] at hnTb ⊢
      refine fcSync_onLayer S d tr ly ob hall h2 hfc hsend b State.recv
        (fun evs r => NEv.recvd (idx b) r evs) (fun _ _ => by simp [NEv.evsOf])
        (fun _ _ => by simp [NEv.evsOf, (idx_ne b).symm]) (fun _ _ => rfl)
        ?_ d' _ hrepN hnTb
      intro s0 L psOwn psPeer _ _ hl _ _
      have e1 : sentOf (idx b) [NEv.recvd (idx b) s0.recv.2 s0.recv.1.log.reverse] = [] := rfl
      rw [e1, List.append_nil]
      exact hl.recvOp
    · simp only [Net.step, onLayer_none hrep i (by omega)]
      exact hinvalid

theorem fcInv_runFrom (S : Setting) (ops : List NOp) : ∀ (d : Net) (tr : List NEv), FcInv S d tr → SchedOk S ops →
    FcInv S (Net.runFrom d tr ops).1 (Net.runFrom d tr ops).2 := by
  induction ops with
  | nil => intro d tr h _; exact h
  | cons op ops ih =>
    intro d tr h hok
    exact ih _ _ (fcInv_step S d tr h op (hok op List.mem_cons_self)) (fun o ho => hok o (List.mem_cons_of_mem _ ho))

theorem fcInv_init (S : Setting) : FcInv S (net0 S) [] := by
  refine ⟨netInv_init S, ?_, fun _ _ => ?_⟩
  · intro b p hp; simp [sentOf] at hp
  · refine ⟨fun b => State.init (S.c b) (S.a b), fun _ => [], ⟨rfl, rfl, ?_⟩, fun b => fcLayer_init S b⟩
    intro i
    show (#[none, none] : Array (Option (Bool × Nat)))[i]?.getD none = none
    rcases i with _ | _ | i <;> simp

/-- **`FcInv` holds after every admissible schedule.** -/
theorem fcInv_run (S : Setting) (ops : List NOp) (hok : SchedOk S ops) :
    FcInv S (Net.run (net0 S) ops).1 (Net.run (net0 S) ops).2 :=
  fcInv_runFrom S ops _ _ (fcInv_init S) hok

/-- **No `UnexpectedFlowControlError`.** After every admissible schedule, with valid STmin values and no timeout
    reported by either layer, neither layer has reported an `UnexpectedFlowControlError`. -/
theorem noUfc_run (S : Setting) (hst : StminOk S) (ops : List NOp) (hok : SchedOk S ops)
    (hnT : ∀ b, noT (logOf (idx b) (Net.run (net0 S) ops).2) = true) (b : Bool) :
    NoUfc (logOf (idx b) (Net.run (net0 S) ops).2) := by
  obtain ⟨hinv, -, hsync⟩ := fcInv_run S ops hok
  obtain ⟨ly, ob, hrep, hfc⟩ := hsync hst hnT
  obtain ⟨ly', ob', hrep', hall, -⟩ := hinv
  obtain ⟨e1, -⟩ := Rep.unique hrep hrep'
  subst e1
  have := (hfc b).noUfc
  rw [(hall b).1, List.nil_append] at this
  intro t hmem
  exact this t (List.mem_reverse.mpr hmem)

/-! ### the diagnosed invariant: a ContinueToSend exists only while the peer waits for it -/

/-- **Credit bound.** In a network state satisfying `NetInv` and `FcSync` (no timeout reported): the Flow Control
    frames from the peer that are in the inbox of layer `b` or still on the peer's link, plus the Flow Control the peer
    has been asked to send (`pendingFc`), plus the one in `b`'s mailbox (`lastFc`), are at most ONE, and there is one
    only while the transmit FSM of `b` is in WAIT_FC. -/
theorem fcSync_credit (S : Setting) (hst : StminOk S) (d : Net) (tr : List NEv) (hinv : NetInv S d tr)
    (hnT : ∀ b, noT (logOf (idx b) tr) = true) (hsync : FcSync S d tr) (b : Bool) :
    ∃ ly ob, Rep d ly ob ∧
      fcCount (S.a b).rx.rxPrefixSize ((ly b).inbox.map (·.2)) + fcCount (S.a b).rx.rxPrefixSize (ob (!b)) +
        (if (ly (!b)).pendingFc then 1 else 0) + (if (ly b).lastFc.isSome then 1 else 0) ≤
      (if (ly b).txState = .waitFc then 1 else 0) := by
  obtain ⟨ly, ob, hrep, hall, hcond⟩ := hinv
  obtain ⟨ly', ob', hrep', hfc⟩ := hsync
  obtain ⟨e1, -⟩ := Rep.unique hrep hrep'
  subst e1
  have h2 := hcond hst hnT
  refine ⟨ly, ob, hrep, ?_⟩
  -- conservation on the link from the peer to `b`
  have hc := (hall (!b)).2.2
  rw [Bool.not_not] at hc
  have hG : fcCount (S.a (!b)).tx.txPrefix.length (Net.txOf (logOf (idx (!b)) tr)) =
      fcCount (S.a b).rx.rxPrefixSize (rxOf (logOf (idx b) tr)) +
        fcCount (S.a b).rx.rxPrefixSize ((ly b).inbox.map (·.2)) + fcCount (S.a b).rx.rxPrefixSize (ob (!b)) := by
    rw [hc, prefixSize_eq S b]
    unfold seen
    rw [(hall b).1, List.nil_append, List.reverse_reverse, fcCount_append, fcCount_append]
  -- the peer's receiver law
  have h3 := (hfc (!b)).rcv
  unfold RcvFc at h3
  rw [(hall (!b)).1, List.nil_append, List.reverse_reverse, Bool.not_not] at h3
  -- the frames the peer has processed are a prefix of those `b` has emitted
  have h4 : (fed (S.a (!b)) (logOf (idx (!b)) tr)).length ≤
      (dataOut (S.a b).tx.txPrefix.length (logOf (idx b) tr)).length := by
    have hcb := (hall b).2.2
    have hframes : ∀ m ∈ Net.txOf (logOf (idx b) tr), (S.a (!b)).rx.isForMe m = true := by
      intro m hm
      have := (h2 b).send2.frames m
      rw [(hall b).1, List.nil_append, List.reverse_reverse] at this
      have hf := (this hm).1
      have := frameOk_accepted S (!b) m (by rw [Bool.not_not]; exact hf)
      exact this
    have hk : (S.a (!b)).rx.rxPrefixSize = (S.a b).tx.txPrefix.length := by
      have := prefixSize_eq S (!b)
      rw [Bool.not_not] at this
      exact this
    have h5 := fedsOf_prefix_core (S.a (!b)) (S.a b) _ (ob b) _ hcb hframes hk
    rw [fedsOf_seen, (hall (!b)).1, List.nil_append, List.reverse_reverse] at h5
    exact ((List.prefix_append _ _).trans h5).length_le
  have h6 := need_mono (S.c (!b)).blocksize (lensOf (S.c b) (S.a b) (sentOf (idx b) tr)) h4
  -- the sender law of `b`
  have h7 := (hfc b).snd.sl
  rw [(hall b).1, List.nil_append, List.reverse_reverse] at h7
  omega

end Isotp.NetP
